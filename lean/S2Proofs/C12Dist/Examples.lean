/-
  C12Dist.Examples — non-vacuity: every valid cell has points, the point (1,0,0) is admissible.
-/
import S2Proofs.C12Dist.Final
import S2Proofs.C12Dist.ExactAlg

namespace S2Proofs.C12Dist
open S2 S2.CellID S2.CellM S2Proofs.FloatErr S2Proofs.F64Order S2Proofs.C16Acc

theorem uvwR_surj (f : Nat) (w : R3) : ∃ q, uvwR f q = w := by
  unfold uvwR
  split
  · exact ⟨⟨w.z, w.x, w.y⟩, rfl⟩
  · exact ⟨⟨-w.x, w.z, w.y⟩, by simp⟩
  · exact ⟨⟨-w.x, -w.y, w.z⟩, by simp⟩
  · exact ⟨⟨-w.z, -w.y, -w.x⟩, by simp⟩
  · exact ⟨⟨w.y, -w.z, -w.x⟩, by simp⟩
  · exact ⟨⟨w.y, w.x, -w.z⟩, by simp⟩

/-- every valid cell has a boundary point (so the quantifier "for every point q of the cell" is never empty) -/
theorem cell_nonempty (id : CellID) (hv : isValid id = true) : ∃ q, OnBoundaryXYZ (cellFromCellID id) q := by
  obtain ⟨_, _, _, _, ok, _⟩ := cellOK id hv
  obtain ⟨q', hb, _⟩ := maxVertexDot_attained (rectOf (cellFromCellID id)) ok ⟨0, 0, 0⟩
  obtain ⟨q, hq⟩ := uvwR_surj (cellFromCellID id).face q'
  exact ⟨q, by unfold OnBoundaryXYZ; rw [hq]; exact hb⟩

/-- the point (1, 0, 0) -/
def pX100 : V3 := ⟨F64.one, fzero, fzero⟩

theorem ptOK_pX100 : PtOK pX100 := by
  refine ⟨by decide, ?_, ?_⟩ <;>
  · unfold pX100 ofV R3.norm2
    simp only
    rw [val_one, val_fzero]
    norm_num

end S2Proofs.C12Dist
