/-
  C12Dist.Witness — non-vacuity witnesses for the hypotheses of the property theorems (`PtOK`, the branch taken; the
  former proviso `ExactOK`, which is no longer a hypothesis after repair D58) on the concrete leaf cell `cX = 0x151f46a85da62db5` (face 0, rectangle `RX`) of `Counter.lean`:
  (W1) `pE`: an admissible point LEFT of the cell — edge branch 0, all float tests agree with the exact quantities;
  (W2) `pV = (−1,0,0)`: vertex branch 5;
  (W3) `pI`: an admissible point INSIDE the cell — branch 4, `ExactOK` holds (`ExInside`).
-/
import S2Proofs.C12Dist.Counter
import S2Proofs.C12Dist.Final

namespace S2Proofs.C12Dist
open S2 S2.CellM S2.Exact S2Proofs.FloatErr S2Proofs.F64Order S2Proofs.C16Acc

/-- face-0 frame `uvw ≈ normalize(u0 − 0.3, y, 1)` with `y` such that the projection onto the left edge is at mid height;
    xyz = (w, u, v) -/
def pE : V3 := ⟨⟨0x3fe8aaf448c41d95⟩, ⟨0x3fd49a154fd3032e⟩, ⟨0x3fe196e9d020a7ac⟩⟩
/-- the point (−1, 0, 0) -/
def pV : V3 := ⟨negOne, fzero, fzero⟩
/-- float64 normalisation of `(1, (u0+u1)/2, (v0+v1)/2)` -/
def pI : V3 := ⟨⟨0x3fe58bd166064b19⟩, ⟨0x3fdeec281043ed1c⟩, ⟨0x3fe1e8908b10718a⟩⟩

namespace Witness
open Counter

theorem val_ex : val ⟨0x3fe8aaf448c41d95⟩ = 6943365610610069 / 2 ^ 53 := by
  have h : toInt ⟨0x3fe8aaf448c41d95⟩ = 6943365610610069 * 2 ^ 1021 := by decide +kernel
  rw [val_of_toInt (j := 53) h (by norm_num)]; push_cast; ring
theorem val_ey : val ⟨0x3fd49a154fd3032e⟩ = 2899457929216407 / 2 ^ 53 := by
  have h : toInt ⟨0x3fd49a154fd3032e⟩ = 2899457929216407 * 2 ^ 1021 := by decide +kernel
  rw [val_of_toInt (j := 53) h (by norm_num)]; push_cast; ring
theorem val_ez : val ⟨0x3fe196e9d020a7ac⟩ = 1237751391857131 / 2 ^ 51 := by
  have h : toInt ⟨0x3fe196e9d020a7ac⟩ = 1237751391857131 * 2 ^ 1023 := by decide +kernel
  rw [val_of_toInt (j := 51) h (by norm_num)]; push_cast; ring
theorem val_ix : val ⟨0x3fe58bd166064b19⟩ = 6064705987037977 / 2 ^ 53 := by
  have h : toInt ⟨0x3fe58bd166064b19⟩ = 6064705987037977 * 2 ^ 1021 := by decide +kernel
  rw [val_of_toInt (j := 53) h (by norm_num)]; push_cast; ring
theorem val_iy : val ⟨0x3fdeec281043ed1c⟩ = 2175976529263431 / 2 ^ 52 := by
  have h : toInt ⟨0x3fdeec281043ed1c⟩ = 2175976529263431 * 2 ^ 1022 := by decide +kernel
  rw [val_of_toInt (j := 52) h (by norm_num)]; push_cast; ring
theorem val_iz : val ⟨0x3fe1e8908b10718a⟩ = 2520391055063237 / 2 ^ 52 := by
  have h : toInt ⟨0x3fe1e8908b10718a⟩ = 2520391055063237 * 2 ^ 1022 := by decide +kernel
  rw [val_of_toInt (j := 52) h (by norm_num)]; push_cast; ring
theorem val_negOne : val negOne = -1 := by
  have h : toInt negOne = -1 * 2 ^ 1074 := by decide +kernel
  rw [val_of_toInt (j := 0) h (by norm_num)]; push_cast; ring

/-- the targets as rational literals: XYZ frame and face-0 frame -/
noncomputable def PE : R3 := ⟨6943365610610069 / 2 ^ 53, 2899457929216407 / 2 ^ 53, 1237751391857131 / 2 ^ 51⟩
noncomputable def TE : R3 := ⟨2899457929216407 / 2 ^ 53, 1237751391857131 / 2 ^ 51, 6943365610610069 / 2 ^ 53⟩
noncomputable def PI : R3 := ⟨6064705987037977 / 2 ^ 53, 2175976529263431 / 2 ^ 52, 2520391055063237 / 2 ^ 52⟩
noncomputable def TI : R3 := ⟨2175976529263431 / 2 ^ 52, 2520391055063237 / 2 ^ 52, 6064705987037977 / 2 ^ 53⟩

theorem PE_eq : ofV pE = PE := by
  show (⟨val ⟨0x3fe8aaf448c41d95⟩, val ⟨0x3fd49a154fd3032e⟩, val ⟨0x3fe196e9d020a7ac⟩⟩ : R3) = _
  rw [val_ex, val_ey, val_ez]; rfl
theorem TE_eq : ofV (faceXYZtoUVW cellX.face pE) = TE := by
  rw [ofV_uvw, PE_eq]; rfl
theorem PI_eq : ofV pI = PI := by
  show (⟨val ⟨0x3fe58bd166064b19⟩, val ⟨0x3fdeec281043ed1c⟩, val ⟨0x3fe1e8908b10718a⟩⟩ : R3) = _
  rw [val_ix, val_iy, val_iz]; rfl
theorem TI_eq : ofV (faceXYZtoUVW cellX.face pI) = TI := by
  rw [ofV_uvw, PI_eq]; rfl
theorem PV_eq : ofV pV = ⟨-1, 0, 0⟩ := by
  show (⟨val negOne, val fzero, val fzero⟩ : R3) = _
  rw [val_negOne, val_fzero]

theorem false_imp {b : Bool} {P : Prop} (h : b = false) : b = true → P := by
  intro h'; rw [h] at h'; exact Bool.noConfusion h'

end Witness

open Counter Witness

/-- (W1) an admissible point in the LEFT-EDGE branch whose float tests agree with the exact quantities -/
theorem witness_edge : PtOK pE ∧ distanceBranch cX pE = 0 ∧ ExactOK cX (faceXYZtoUVW cX.face pE) := by
  rw [cX_eq]
  refine ⟨⟨by decide, ?_, ?_⟩, by decide +kernel, ⟨?_, ?_, ?_, ?_⟩, ?_⟩
  · rw [PE_eq]; unfold R3.norm2; simp only [PE]; norm_num
  · rw [PE_eq]; unfold R3.norm2; simp only [PE]; norm_num
  · intro _
    rw [TE_eq, rect_eq]
    unfold vTan; simp only [TE, RX]
    constructor <;> norm_num
  · exact false_imp (by decide +kernel)
  · exact false_imp (by decide +kernel)
  · exact false_imp (by decide +kernel)
  · exact false_imp (by decide +kernel)

/-- (W2) an admissible point in the VERTEX branch -/
theorem witness_vertex : PtOK pV ∧ distanceBranch cX pV = 5 := by
  rw [cX_eq]
  refine ⟨⟨by decide, ?_, ?_⟩, by decide +kernel⟩
  · rw [PV_eq]; unfold R3.norm2; norm_num
  · rw [PV_eq]; unfold R3.norm2; norm_num

/-- (W3) an admissible point INSIDE the cell whose float tests agree with the exact quantities -/
theorem witness_inside : PtOK pI ∧ distanceBranch cX pI = 4 ∧ ExactOK cX (faceXYZtoUVW cX.face pI) := by
  rw [cX_eq]
  refine ⟨⟨by decide, ?_, ?_⟩, by decide +kernel, ⟨?_, ?_, ?_, ?_⟩, ?_⟩
  · rw [PI_eq]; unfold R3.norm2; simp only [PI]; norm_num
  · rw [PI_eq]; unfold R3.norm2; simp only [PI]; norm_num
  · exact false_imp (by decide +kernel)
  · exact false_imp (by decide +kernel)
  · exact false_imp (by decide +kernel)
  · exact false_imp (by decide +kernel)
  · intro _
    rw [TI_eq, rect_eq]
    unfold ExInside sL sR sB sT; simp only [TI, RX]
    refine ⟨?_, ?_, ?_, ?_⟩ <;> norm_num

end S2Proofs.C12Dist
