/-
  C12Dist.Lower — LOWER BOUND: the value of `Cell.Distance` minus the error is below the distance to every point of
  the cell, branch by branch, parametrised by `EdgeSpec` (float `edgeDistance`) and `RobustCover` (the ε-robust
  covering theorem of the vertex branch).
-/
import S2Proofs.C12Dist.Branches

namespace S2Proofs.C12Dist
open S2 S2.CellM S2Proofs.FloatErr S2Proofs.F64Order S2Proofs.C16Acc

/-- the statement of the robust covering theorem (`CoverRobust.vertex_cover_robust`) with constant `C` -/
def RobustCover (C : ℝ) : Prop :=
  ∀ (r : RRect), r.OK → 1 / 2 ^ 31 ≤ r.u1 - r.u0 → 1 / 2 ^ 31 ≤ r.v1 - r.v0 →
  ∀ (t q : R3), InCell r q → 1 / 2 ≤ t.norm2 → t.norm2 ≤ 2 →
  ∀ (ε : ℝ), 0 ≤ ε → ε ≤ 1 / 2 ^ 40 →
  ∀ (oL oR oB oT : Prop),
    (oL → sL r t < ε ∧ (vTan r.u0 r.v0 t ≤ ε ∨ -ε ≤ vTan r.u0 r.v1 t)) → (¬ oL → -ε ≤ sL r t) →
    (oR → -ε < sR r t ∧ (vTan r.u1 r.v0 t ≤ ε ∨ -ε ≤ vTan r.u1 r.v1 t)) → (¬ oR → sR r t ≤ ε) →
    (oB → sB r t < ε ∧ (uTan r.v0 r.u0 t ≤ ε ∨ -ε ≤ uTan r.v0 r.u1 t)) → (¬ oB → -ε ≤ sB r t) →
    (oT → -ε < sT r t ∧ (uTan r.v1 r.u0 t ≤ ε ∨ -ε ≤ uTan r.v1 r.u1 t)) → (¬ oT → sT r t ≤ ε) →
    (oL ∨ oR ∨ oB ∨ oT) →
    R3.dot t q ≤ maxVertexDot r t + C * ε

/-- `Cell.Distance` as a function of the face-frame target -/
def distUVW (c : Cell) (t : V3) : F64 :=
  let d := dirs c t
  if F64.lt d.dir00 fzero && vEdgeIsClosest c t false then edgeDistance (-d.dir00) c.uv.1.1 t.y (c.uv.1.1 * t.x + t.z)
  else if F64.gt d.dir01 fzero && vEdgeIsClosest c t true then edgeDistance d.dir01 c.uv.1.2 t.y (c.uv.1.2 * t.x + t.z)
  else if F64.lt d.dir10 fzero && uEdgeIsClosest c t false then edgeDistance (-d.dir10) c.uv.2.1 t.x (c.uv.2.1 * t.y + t.z)
  else if F64.gt d.dir11 fzero && uEdgeIsClosest c t true then edgeDistance d.dir11 c.uv.2.2 t.x (c.uv.2.2 * t.y + t.z)
  else if d.inside then fzero
  else minChord (vertexChordDist2 c t false false)
      [vertexChordDist2 c t true false, vertexChordDist2 c t false true, vertexChordDist2 c t true true]

theorem distance_eq_distUVW (c : Cell) (p : V3) : distance c p = distUVW c (faceXYZtoUVW c.face p) := by
  unfold distance distanceInternal distUVW
  simp only [if_true]

theorem uR_pos : 0 < uR := by unfold uR; positivity

theorem vhat_norm2' (x y : ℝ) : (vhat x y).norm2 = 1 := Cover.vhat_norm2 x y

theorem dist2_vhat (T : R3) (x y : ℝ) : dist2 T (vhat x y) = T.norm2 + 1 - 2 * R3.dot T (vhat x y) := by
  rw [dist2_eq, vhat_norm2']

/-- the vertex branch value is `≤ |T|² + 1 − 2·maxVertexDot + vertErr` -/
theorem vertex_branch_le {c : Cell} {t : V3} (X : Ctx c t) :
    Fin (minChord (vertexChordDist2 c t false false)
      [vertexChordDist2 c t true false, vertexChordDist2 c t false true, vertexChordDist2 c t true true]) ∧
    val (minChord (vertexChordDist2 c t false false)
      [vertexChordDist2 c t true false, vertexChordDist2 c t false true, vertexChordDist2 c t true true])
      ≤ (ofV t).norm2 + 1 - 2 * maxVertexDot (rectOf c) (ofV t) + vertErr := by
  obtain ⟨f00, _, _, e00⟩ := X.vertex_val false false
  obtain ⟨f10, _, _, e10⟩ := X.vertex_val true false
  obtain ⟨f01, _, _, e01⟩ := X.vertex_val false true
  obtain ⟨f11, _, _, e11⟩ := X.vertex_val true true
  simp only [if_true, Bool.false_eq_true, if_false] at e00 e10 e01 e11
  obtain ⟨hmem, l00, l10, l01, l11⟩ := minChord4 _ _ _ _ f00 f10 f01 f11
  refine ⟨?_, ?_⟩
  · rcases hmem with h | h | h | h <;> rw [h] <;> assumption
  · have up : ∀ (v : F64) (x y : ℝ), |val v - min 4 (dist2 (ofV t) (vhat x y))| ≤ vertErr →
        val v ≤ (ofV t).norm2 + 1 - 2 * R3.dot (ofV t) (vhat x y) + vertErr := by
      intro v x y h
      have h1 := (abs_le.1 h).2
      have h2 : min 4 (dist2 (ofV t) (vhat x y)) ≤ dist2 (ofV t) (vhat x y) := min_le_right _ _
      have h3 := dist2_vhat (ofV t) x y
      linarith
    have u00 := up _ _ _ e00
    have u10 := up _ _ _ e10
    have u01 := up _ _ _ e01
    have u11 := up _ _ _ e11
    unfold maxVertexDot
    rcases max_cases (max (R3.dot (ofV t) (vhat (rectOf c).u0 (rectOf c).v0)) (R3.dot (ofV t) (vhat (rectOf c).u1 (rectOf c).v0)))
      (max (R3.dot (ofV t) (vhat (rectOf c).u0 (rectOf c).v1)) (R3.dot (ofV t) (vhat (rectOf c).u1 (rectOf c).v1))) with ⟨h, _⟩ | ⟨h, _⟩
    · rw [h]
      rcases max_cases (R3.dot (ofV t) (vhat (rectOf c).u0 (rectOf c).v0)) (R3.dot (ofV t) (vhat (rectOf c).u1 (rectOf c).v0)) with ⟨h', _⟩ | ⟨h', _⟩
      · rw [h']; linarith
      · rw [h']; linarith
    · rw [h]
      rcases max_cases (R3.dot (ofV t) (vhat (rectOf c).u0 (rectOf c).v1)) (R3.dot (ofV t) (vhat (rectOf c).u1 (rectOf c).v1)) with ⟨h', _⟩ | ⟨h', _⟩
      · rw [h']; linarith
      · rw [h']; linarith

/-- error of the lower bound (`98 = 2·49`, `49·u ≥ m + 17·u`: the tolerance of a tangential "no" with the margin `m`
    of repair D58; it was `2·17` before) -/
noncomputable def lowErr (eE C : ℝ) : ℝ := max (eE + 30 * uR) (vertErr + 98 * C * uR)

theorem max_le_small {s : ℝ} (h : s ≤ (102 / 100) * uR) : max s 0 ≤ (102 / 100) * uR :=
  max_le h (by have := uR_nonneg; linarith)

/-- **LOWER BOUND, face frame.** -/
theorem distUVW_lower {eE C : ℝ} (HE : EdgeSpec eE) (HR : RobustCover C) {c : Cell} {t : V3} (X : Ctx c t)
    (bl : 1 / 2 ≤ (ofV t).norm2) (q : R3) (hq : InCell (rectOf c) q) :
    Fin (distUVW c t) ∧ val (distUVW c t) ≤ dist2 (ofV t) q + lowErr eE C := by
  have hu := uR_nonneg
  have hup := uR_pos
  have le1 : eE + 30 * uR ≤ lowErr eE C := le_max_left _ _
  have le2 : vertErr + 98 * C * uR ≤ lowErr eE C := le_max_right _ _
  unfold distUVW
  simp only
  by_cases cL : (F64.lt (dirs c t).dir00 fzero && vEdgeIsClosest c t false) = true
  · rw [if_pos cL]
    rw [Bool.and_eq_true] at cL
    obtain ⟨fr, er⟩ := X.edgeL_val HE
    have hs := max_le_small (X.signL.1 cL.1)
    have hlow := edge_lower_L (rectOf c) (ofV t) q hq
    exact ⟨fr, by have := (abs_le.1 er).2; linarith⟩
  rw [if_neg cL]
  by_cases cR : (F64.gt (dirs c t).dir01 fzero && vEdgeIsClosest c t true) = true
  · rw [if_pos cR]
    rw [Bool.and_eq_true] at cR
    obtain ⟨fr, er⟩ := X.edgeR_val HE
    have hs := max_le_small (s := -(sR (rectOf c) (ofV t))) (by have := X.signR.1 cR.1; linarith)
    have hlow := edge_lower_R (rectOf c) (ofV t) q hq
    exact ⟨fr, by have := (abs_le.1 er).2; linarith⟩
  rw [if_neg cR]
  by_cases cB : (F64.lt (dirs c t).dir10 fzero && uEdgeIsClosest c t false) = true
  · rw [if_pos cB]
    rw [Bool.and_eq_true] at cB
    obtain ⟨fr, er⟩ := X.edgeB_val HE
    have hs := max_le_small (X.signB.1 cB.1)
    have hlow := edge_lower_B (rectOf c) (ofV t) q hq
    exact ⟨fr, by have := (abs_le.1 er).2; linarith⟩
  rw [if_neg cB]
  by_cases cT : (F64.gt (dirs c t).dir11 fzero && uEdgeIsClosest c t true) = true
  · rw [if_pos cT]
    rw [Bool.and_eq_true] at cT
    obtain ⟨fr, er⟩ := X.edgeT_val HE
    have hs := max_le_small (s := -(sT (rectOf c) (ofV t))) (by have := X.signT.1 cT.1; linarith)
    have hlow := edge_lower_T (rectOf c) (ofV t) q hq
    exact ⟨fr, by have := (abs_le.1 er).2; linarith⟩
  rw [if_neg cT]
  by_cases cI : (dirs c t).inside = true
  · rw [if_pos cI]
    refine ⟨fin_fzero, ?_⟩
    rw [val_fzero]
    have h0 : 0 ≤ dist2 (ofV t) q := by unfold dist2; exact R3.norm2_nonneg _
    have : 0 ≤ eE + 30 * uR := by
      obtain ⟨_, er⟩ := X.edgeL_val HE
      have := abs_nonneg (val (edgeDistance (-(dirs c t).dir00) c.uv.1.1 t.y (c.uv.1.1 * t.x + t.z))
        - edgeReal (-(sL (rectOf c) (ofV t))) (rectOf c).u0 (ofV t).y ((rectOf c).u0 * (ofV t).x + (ofV t).z))
      linarith
    linarith
  rw [if_neg cI]
  -- the vertex branch
  obtain ⟨fr, hle⟩ := vertex_branch_le X
  refine ⟨fr, ?_⟩
  have e17 : (102 / 100) * uR < 49 * uR := by linarith
  have hcov := HR (rectOf c) X.ok X.gu X.gv (ofV t) q hq bl
    (by have := X.bn; have : (1 : ℝ) + 1 / 2 ^ 21 ≤ 2 := by norm_num
        linarith)
    (49 * uR) (by linarith)
    (by have := uR_small
        have : (49 : ℝ) * (1 / 2 ^ 50) ≤ 1 / 2 ^ 40 := by norm_num
        linarith)
    (F64.lt (dirs c t).dir00 fzero = true) (F64.gt (dirs c t).dir01 fzero = true)
    (F64.lt (dirs c t).dir10 fzero = true) (F64.gt (dirs c t).dir11 fzero = true)
    (fun h => ⟨by have := X.signL.1 h; linarith, by
      have : vEdgeIsClosest c t false = false := by
        rw [h, Bool.true_and] at cL; exact Bool.eq_false_iff.2 cL
      rcases X.vClosest_lo.2 this with h' | h'
      · exact Or.inl h'
      · exact Or.inr h'⟩)
    (fun h => by have := X.signL.2 (Bool.eq_false_iff.2 h); linarith)
    (fun h => ⟨by have := X.signR.1 h; linarith, by
      have : vEdgeIsClosest c t true = false := by
        rw [h, Bool.true_and] at cR; exact Bool.eq_false_iff.2 cR
      rcases X.vClosest_hi.2 this with h' | h'
      · exact Or.inl h'
      · exact Or.inr h'⟩)
    (fun h => by have := X.signR.2 (Bool.eq_false_iff.2 h); linarith)
    (fun h => ⟨by have := X.signB.1 h; linarith, by
      have : uEdgeIsClosest c t false = false := by
        rw [h, Bool.true_and] at cB; exact Bool.eq_false_iff.2 cB
      rcases X.uClosest_lo.2 this with h' | h'
      · exact Or.inl h'
      · exact Or.inr h'⟩)
    (fun h => by have := X.signB.2 (Bool.eq_false_iff.2 h); linarith)
    (fun h => ⟨by have := X.signT.1 h; linarith, by
      have : uEdgeIsClosest c t true = false := by
        rw [h, Bool.true_and] at cT; exact Bool.eq_false_iff.2 cT
      rcases X.uClosest_hi.2 this with h' | h'
      · exact Or.inl h'
      · exact Or.inr h'⟩)
    (fun h => by have := X.signT.2 (Bool.eq_false_iff.2 h); linarith)
    (by
      by_contra hno
      simp only [not_or] at hno
      obtain ⟨n1, n2, n3, n4⟩ := hno
      apply cI
      unfold Dirs.inside
      rw [Bool.eq_false_iff.2 n1, Bool.eq_false_iff.2 n2, Bool.eq_false_iff.2 n3, Bool.eq_false_iff.2 n4]
      rfl)
  have hd : dist2 (ofV t) q = (ofV t).norm2 + 1 - 2 * R3.dot (ofV t) q := by rw [dist2_eq, hq.1]
  rw [hd]
  have : 98 * C * uR = 2 * (C * (49 * uR)) := by ring
  linarith

end S2Proofs.C12Dist
