/-
  C12Dist.InsideRobust — the interior case of `distanceInternal` WITHOUT a proviso (the clamp argument).

  The float flag `inside` is true when none of the four float sign tests fires; each float test is within `1.02·u` of
  the exact quantity (`Ctx.signL` …), so the exact quantities satisfy `−ε ≤ sL`, `sR ≤ ε`, `−ε ≤ sB`, `sT ≤ ε` with
  `ε = 1.02·u`.  Clamping the face-frame target `t` into the cone over the rectangle moves it by at most `ε` in two
  coordinates; the direction of the clamped vector is a point `q` of the cell and
      `|t − q|² ≤ (|t| − 1)² + 6·ε`.
  Hence the literal `0` returned by `Distance` in the interior case is within `6.12·u + (|t| − 1)²` of the squared
  distance to a point of the cell: the interior clause of the old proviso `ExactOK` is a theorem.
-/
import S2Proofs.C12Dist.Geom

namespace S2Proofs.C12Dist
open S2Proofs.C16Acc

/-- clamp `x` into `[a, b]` -/
noncomputable def clampR (a b x : ℝ) : ℝ := max a (min b x)

theorem clampR_ge {a b : ℝ} (x : ℝ) : a ≤ clampR a b x := le_max_left _ _
theorem clampR_le {a b : ℝ} (hab : a ≤ b) (x : ℝ) : clampR a b x ≤ b :=
  max_le hab (min_le_left _ _)

theorem clampR_close {a b x ε : ℝ} (hab : a ≤ b) (hε : 0 ≤ ε) (h1 : a - ε ≤ x) (h2 : x ≤ b + ε) :
    |x - clampR a b x| ≤ ε := by
  unfold clampR
  rw [abs_le]
  constructor
  · rcases max_cases a (min b x) with ⟨h, _⟩ | ⟨h, _⟩
    · rw [h]; linarith
    · rw [h]; have := min_le_right b x; linarith
  · rcases max_cases a (min b x) with ⟨h, h'⟩ | ⟨h, _⟩
    · rw [h]
      rcases min_cases b x with ⟨e, _⟩ | ⟨e, _⟩
      · rw [e] at h'; linarith
      · rw [e] at h'; linarith
    · rw [h]
      rcases min_cases b x with ⟨e, _⟩ | ⟨e, _⟩
      · rw [e]; linarith
      · rw [e]; linarith

/-- the four relaxed sign conditions force `t.z > 0` for a target that is not tiny -/
theorem z_pos_of_relaxed (r : RRect) (hr : r.OK) (gu : 1 / 2 ^ 31 ≤ r.u1 - r.u0)
    (t : R3) (ε : ℝ) (h0 : 0 ≤ ε) (hε : ε ≤ 1 / 2 ^ 50)
    (hL : -ε ≤ sL r t) (hR : sR r t ≤ ε) (hB : -ε ≤ sB r t) (hT : sT r t ≤ ε)
    (ht : 1 / 2 ≤ t.norm2) : 0 < t.z := by
  unfold sL at hL; unfold sR at hR; unfold sB at hB; unfold sT at hT
  by_contra hz
  have hz' : t.z ≤ 0 := not_lt.1 hz
  have h1 : -t.z * (r.u1 - r.u0) ≤ 2 * ε := by nlinarith
  have h2 : -t.z * (1 / 2 ^ 31) ≤ -t.z * (r.u1 - r.u0) := mul_le_mul_of_nonneg_left gu (by linarith)
  have hzb : -t.z ≤ 1 / 2 ^ 18 := by
    have : -t.z * (1 / 2 ^ 31) ≤ 2 * (1 / 2 ^ 50) := by linarith
    have e : (2 : ℝ) * (1 / 2 ^ 50) = 1 / 2 ^ 18 * (1 / 2 ^ 31) := by norm_num
    rw [e] at this
    exact le_of_mul_le_mul_right this (by norm_num)
  have hu0 := hr.u0_ge; have hu1 := hr.u1_le; have hv0 := hr.v0_ge; have hv1 := hr.v1_le
  have hul := hr.u_lt; have hvl := hr.v_lt
  have e50 : (1 : ℝ) / 2 ^ 50 ≤ 1 / 2 ^ 18 := by norm_num
  -- |x| ≤ |z| + ε, |y| ≤ |z| + ε
  have hx1 : t.x ≤ 1 / 2 ^ 17 := by nlinarith
  have hx2 : -(1 / 2 ^ 17) ≤ t.x := by nlinarith
  have hy1 : t.y ≤ 1 / 2 ^ 17 := by nlinarith
  have hy2 : -(1 / 2 ^ 17) ≤ t.y := by nlinarith
  have sx : t.x ^ 2 ≤ (1 / 2 ^ 17) ^ 2 := sq_le_sq' hx2 hx1
  have sy : t.y ^ 2 ≤ (1 / 2 ^ 17) ^ 2 := sq_le_sq' hy2 hy1
  have sz : t.z ^ 2 ≤ (1 / 2 ^ 17) ^ 2 := sq_le_sq' (by linarith) (by linarith)
  unfold R3.norm2 at ht
  have : (3 : ℝ) * (1 / 2 ^ 17) ^ 2 < 1 / 2 := by norm_num
  linarith

/-- **the interior case, robust**: if the four exact sign quantities are within `ε` of the inside condition, some point
    `q` of the cell has `|t − q|² ≤ (|t| − 1)² + 6·ε` -/
theorem inside_point_robust (r : RRect) (hr : r.OK) (gu : 1 / 2 ^ 31 ≤ r.u1 - r.u0)
    (t : R3) (ε : ℝ) (h0 : 0 ≤ ε) (hε : ε ≤ 1 / 2 ^ 50)
    (hL : -ε ≤ sL r t) (hR : sR r t ≤ ε) (hB : -ε ≤ sB r t) (hT : sT r t ≤ ε)
    (ht : 1 / 2 ≤ t.norm2) (ht2 : t.norm2 ≤ 2) :
    ∃ q, InCell r q ∧ 0 ≤ dist2 t q ∧ dist2 t q ≤ (t.norm - 1) ^ 2 + 6 * ε := by
  have hz := z_pos_of_relaxed r hr gu t ε h0 hε hL hR hB hT ht
  unfold sL at hL; unfold sR at hR; unfold sB at hB; unfold sT at hT
  have hu : r.u0 * t.z ≤ r.u1 * t.z := mul_le_mul_of_nonneg_right hr.u_lt.le hz.le
  have hv : r.v0 * t.z ≤ r.v1 * t.z := mul_le_mul_of_nonneg_right hr.v_lt.le hz.le
  -- the clamped target
  let x' := clampR (r.u0 * t.z) (r.u1 * t.z) t.x
  let y' := clampR (r.v0 * t.z) (r.v1 * t.z) t.y
  let t' : R3 := ⟨x', y', t.z⟩
  have hx' : |t.x - x'| ≤ ε := clampR_close hu h0 (by linarith) (by linarith)
  have hy' : |t.y - y'| ≤ ε := clampR_close hv h0 (by linarith) (by linarith)
  have hI : ExInside r t' := by
    refine ⟨?_, ?_, ?_, ?_⟩
    · unfold sL; show 0 ≤ x' - t.z * r.u0
      have := clampR_ge (a := r.u0 * t.z) (b := r.u1 * t.z) t.x; linarith
    · unfold sR; show x' - t.z * r.u1 ≤ 0
      have := clampR_le hu t.x; linarith
    · unfold sB; show 0 ≤ y' - t.z * r.v0
      have := clampR_ge (a := r.v0 * t.z) (b := r.v1 * t.z) t.y; linarith
    · unfold sT; show y' - t.z * r.v1 ≤ 0
      have := clampR_le hv t.y; linarith
  have hpos : 0 < t'.norm2 := by
    unfold R3.norm2; show 0 < x' ^ 2 + y' ^ 2 + t.z ^ 2
    have := sq_nonneg x'; have := sq_nonneg y'; have : 0 < t.z ^ 2 := by positivity
    linarith
  obtain ⟨q, hq, hd⟩ := inside_point r hr t' hI hpos
  refine ⟨q, hq, by unfold dist2; exact R3.norm2_nonneg _, ?_⟩
  -- e = t − t'
  have he : (R3.sub t t').norm ≤ 2 * ε := by
    apply R3.norm_le_of_comp_le h0
    · exact hx'
    · exact hy'
    · show |t.z - t.z| ≤ ε; rw [sub_self, abs_zero]; exact h0
  -- |t' − q| = | |t'| − 1 |
  have hd' : (R3.sub t' q).norm = |t'.norm - 1| := by
    unfold dist2 at hd
    have e : (R3.sub t' q).norm = Real.sqrt ((R3.sub t' q).norm2) := rfl
    rw [e, hd, Real.sqrt_sq_eq_abs]
  -- | |t'| − |t| | ≤ |e|
  have hn1 : t'.norm ≤ t.norm + (R3.sub t t').norm := by
    have := R3.norm_le_add_sub t' t
    rwa [R3.norm_sub_comm t' t] at this
  have hn2 : t.norm ≤ t'.norm + (R3.sub t t').norm := R3.norm_le_add_sub t t'
  -- triangle: t − q = (t − t') + (t' − q)
  have htri : (R3.sub t q).norm ≤ (R3.sub t t').norm + (R3.sub t' q).norm := by
    have e : R3.sub t q = R3.add (R3.sub t t') (R3.sub t' q) := by
      unfold R3.sub R3.add; ext <;> simp
    rw [e]; exact R3.norm_add_le _ _
  set m := |t.norm - 1| with hm
  set E := (R3.sub t t').norm with hE
  have hE0 : 0 ≤ E := R3.norm_nonneg _
  have hm0 : 0 ≤ m := abs_nonneg _
  have h3 : |t'.norm - 1| ≤ m + E := by
    rw [abs_le]; rw [hm]
    constructor
    · have := neg_abs_le (t.norm - 1); linarith
    · have := le_abs_self (t.norm - 1); linarith
  have hD : (R3.sub t q).norm ≤ m + 2 * E := by linarith
  -- m ≤ 1/2
  have hmle : m ≤ 1 / 2 := by
    have hn := t.norm_nonneg
    have hs := t.norm_sq
    rw [hm, abs_le]
    constructor
    · -- |t| ≥ 1/2  since |t|² ≥ 1/2
      by_contra hc
      have hlt : t.norm < 1 / 2 := by linarith [not_le.1 hc]
      have : t.norm ^ 2 < (1 / 2) ^ 2 := by
        have := mul_self_lt_mul_self hn hlt
        nlinarith
      rw [hs] at this
      have : ((1 : ℝ) / 2) ^ 2 ≤ 1 / 2 := by norm_num
      linarith
    · by_contra hc
      have hlt : (3 : ℝ) / 2 < t.norm := by linarith [not_le.1 hc]
      have : ((3 : ℝ) / 2) ^ 2 < t.norm ^ 2 := by
        have := mul_self_lt_mul_self (by norm_num : (0 : ℝ) ≤ 3 / 2) hlt
        nlinarith
      rw [hs] at this
      have : (2 : ℝ) ≤ (3 / 2) ^ 2 := by norm_num
      linarith
  have hEle : E ≤ 1 / 2 ^ 49 := by
    have : (2 : ℝ) * (1 / 2 ^ 50) = 1 / 2 ^ 49 := by norm_num
    linarith
  have hsq : dist2 t q = (R3.sub t q).norm ^ 2 := by unfold dist2; rw [R3.norm_sq]
  have hN0 := (R3.sub t q).norm_nonneg
  have h4 : (R3.sub t q).norm ^ 2 ≤ (m + 2 * E) ^ 2 := pow_le_pow_left₀ hN0 hD 2
  have h5 : (m + 2 * E) ^ 2 ≤ m ^ 2 + 3 * E := by
    have e49 : (1 : ℝ) / 2 ^ 49 ≤ 1 / 4 := by norm_num
    nlinarith
  have h6 : m ^ 2 = (t.norm - 1) ^ 2 := by rw [hm, sq_abs]
  rw [hsq]
  linarith

end S2Proofs.C12Dist
