/-
  C12Dist.Branches — the pieces of `distanceInternal` for a cell `c` and a face-frame target `t` in context `Ctx`:
  the value of each edge branch, the meaning of each float sign / tangential test on the exact quantities,
  the four vertex values, `minChord` / `maxChord`.
-/
import S2Proofs.C12Dist.EdgeBranch
import S2Proofs.C12Dist.TanArgs
import S2Proofs.C12Dist.VertexErr
import S2Proofs.C12Dist.Cover

namespace S2Proofs.C12Dist
open S2 S2.CellM S2Proofs.FloatErr S2Proofs.F64Order S2Proofs.C16Acc

/-- the standing assumptions: a cell with finite non-degenerate bounds in [-1,1] (every valid cell: `cellOK_gap`),
    a finite face-frame target with `|t|² ≤ 1 + 2^-21` -/
structure Ctx (c : Cell) (t : V3) : Prop where
  fu0 : Fin c.uv.1.1
  fu1 : Fin c.uv.1.2
  fv0 : Fin c.uv.2.1
  fv1 : Fin c.uv.2.2
  ok : (rectOf c).OK
  gu : 1 / 2 ^ 31 ≤ (rectOf c).u1 - (rectOf c).u0
  gv : 1 / 2 ^ 31 ≤ (rectOf c).v1 - (rectOf c).v0
  ft : Fin3 t
  bn : (ofV t).norm2 ≤ 1 + 1 / 2 ^ 21

namespace Ctx
variable {c : Cell} {t : V3} (X : Ctx c t)
include X

theorem bu0 : |val c.uv.1.1| ≤ 1 := by
  have h := X.ok; unfold rectOf at h
  rw [abs_le]; exact ⟨h.u0_ge, by have := h.u_lt; have := h.u1_le; simp only at *; linarith⟩
theorem bu1 : |val c.uv.1.2| ≤ 1 := by
  have h := X.ok; unfold rectOf at h
  rw [abs_le]; exact ⟨by have := h.u_lt; have := h.u0_ge; simp only at *; linarith, h.u1_le⟩
theorem bv0 : |val c.uv.2.1| ≤ 1 := by
  have h := X.ok; unfold rectOf at h
  rw [abs_le]; exact ⟨h.v0_ge, by have := h.v_lt; have := h.v1_le; simp only at *; linarith⟩
theorem bv1 : |val c.uv.2.2| ≤ 1 := by
  have h := X.ok; unfold rectOf at h
  rw [abs_le]; exact ⟨by have := h.v_lt; have := h.v0_ge; simp only at *; linarith, h.v1_le⟩

theorem bnx : val t.x ^ 2 + val t.y ^ 2 + val t.z ^ 2 ≤ 1 + 1 / 2 ^ 21 := by
  have := X.bn; unfold ofV R3.norm2 at this; exact this
theorem bny : val t.y ^ 2 + val t.x ^ 2 + val t.z ^ 2 ≤ 1 + 1 / 2 ^ 21 := by
  have := X.bnx; linarith
theorem bx : |val t.x| ≤ 1 + 1 / 2 ^ 20 :=
  abs_le_of_sq_le21 (by nlinarith [X.bnx, sq_nonneg (val t.y), sq_nonneg (val t.z)])
theorem by' : |val t.y| ≤ 1 + 1 / 2 ^ 20 :=
  abs_le_of_sq_le21 (by nlinarith [X.bnx, sq_nonneg (val t.x), sq_nonneg (val t.z)])
theorem bz : |val t.z| ≤ 1 + 1 / 2 ^ 20 :=
  abs_le_of_sq_le21 (by nlinarith [X.bnx, sq_nonneg (val t.x), sq_nonneg (val t.y)])
theorem bn20 : (ofV t).norm2 ≤ 1 + 1 / 2 ^ 20 := by
  have := X.bn
  have : (1 : ℝ) + 1 / 2 ^ 21 ≤ 1 + 1 / 2 ^ 20 := by norm_num
  linarith

/-! ### the four edge values -/

theorem edgeL_val {eE : ℝ} (HE : EdgeSpec eE) :
    Fin (edgeDistance (-(dirs c t).dir00) c.uv.1.1 t.y (c.uv.1.1 * t.x + t.z)) ∧
    |val (edgeDistance (-(dirs c t).dir00) c.uv.1.1 t.y (c.uv.1.1 * t.x + t.z))
      - edgeReal (-(sL (rectOf c) (ofV t))) (rectOf c).u0 (ofV t).y ((rectOf c).u0 * (ofV t).x + (ofV t).z)|
      ≤ eE + 27 * uR := by
  rw [edgeReal_neg]
  exact edge_value HE t.x t.y t.z c.uv.1.1 _ X.ft.1 X.ft.2.1 X.ft.2.2 X.fu0 X.bu0 X.bnx (Or.inr rfl)

theorem edgeR_val {eE : ℝ} (HE : EdgeSpec eE) :
    Fin (edgeDistance (dirs c t).dir01 c.uv.1.2 t.y (c.uv.1.2 * t.x + t.z)) ∧
    |val (edgeDistance (dirs c t).dir01 c.uv.1.2 t.y (c.uv.1.2 * t.x + t.z))
      - edgeReal (sR (rectOf c) (ofV t)) (rectOf c).u1 (ofV t).y ((rectOf c).u1 * (ofV t).x + (ofV t).z)|
      ≤ eE + 27 * uR :=
  edge_value HE t.x t.y t.z c.uv.1.2 _ X.ft.1 X.ft.2.1 X.ft.2.2 X.fu1 X.bu1 X.bnx (Or.inl rfl)

theorem edgeB_val {eE : ℝ} (HE : EdgeSpec eE) :
    Fin (edgeDistance (-(dirs c t).dir10) c.uv.2.1 t.x (c.uv.2.1 * t.y + t.z)) ∧
    |val (edgeDistance (-(dirs c t).dir10) c.uv.2.1 t.x (c.uv.2.1 * t.y + t.z))
      - edgeReal (-(sB (rectOf c) (ofV t))) (rectOf c).v0 (ofV t).x ((rectOf c).v0 * (ofV t).y + (ofV t).z)|
      ≤ eE + 27 * uR := by
  rw [edgeReal_neg]
  exact edge_value HE t.y t.x t.z c.uv.2.1 _ X.ft.2.1 X.ft.1 X.ft.2.2 X.fv0 X.bv0 X.bny (Or.inr rfl)

theorem edgeT_val {eE : ℝ} (HE : EdgeSpec eE) :
    Fin (edgeDistance (dirs c t).dir11 c.uv.2.2 t.x (c.uv.2.2 * t.y + t.z)) ∧
    |val (edgeDistance (dirs c t).dir11 c.uv.2.2 t.x (c.uv.2.2 * t.y + t.z))
      - edgeReal (sT (rectOf c) (ofV t)) (rectOf c).v1 (ofV t).x ((rectOf c).v1 * (ofV t).y + (ofV t).z)|
      ≤ eE + 27 * uR :=
  edge_value HE t.y t.x t.z c.uv.2.2 _ X.ft.2.1 X.ft.1 X.ft.2.2 X.fv1 X.bv1 X.bny (Or.inl rfl)

/-! ### the float sign tests on the exact quantities (`ε_s = 1.02 u`) -/

theorem signL :
    (F64.lt (dirs c t).dir00 fzero = true → sL (rectOf c) (ofV t) ≤ (102 / 100) * uR) ∧
    (F64.lt (dirs c t).dir00 fzero = false → -(102 / 100) * uR ≤ sL (rectOf c) (ofV t)) := by
  obtain ⟨fd, _, _, _, h1, _, h3, _⟩ := edge_args t.x t.z c.uv.1.1 X.ft.1 X.ft.2.2 X.fu0 X.bu0 X.bx X.bz
  refine ⟨fun h => h1 ((lt_zero_iff fd).1 h), fun h => h3 ?_⟩
  by_contra hc
  have := (lt_zero_iff fd).2 (not_le.1 hc)
  unfold dirs at h; simp only at h; rw [this] at h; exact Bool.noConfusion h

theorem signR :
    (F64.gt (dirs c t).dir01 fzero = true → -(102 / 100) * uR ≤ sR (rectOf c) (ofV t)) ∧
    (F64.gt (dirs c t).dir01 fzero = false → sR (rectOf c) (ofV t) ≤ (102 / 100) * uR) := by
  obtain ⟨fd, _, _, _, _, h2, _, h4⟩ := edge_args t.x t.z c.uv.1.2 X.ft.1 X.ft.2.2 X.fu1 X.bu1 X.bx X.bz
  refine ⟨fun h => h2 ((gt_zero_iff fd).1 h), fun h => h4 ?_⟩
  by_contra hc
  have := (gt_zero_iff fd).2 (not_le.1 hc)
  unfold dirs at h; simp only at h; rw [this] at h; exact Bool.noConfusion h

theorem signB :
    (F64.lt (dirs c t).dir10 fzero = true → sB (rectOf c) (ofV t) ≤ (102 / 100) * uR) ∧
    (F64.lt (dirs c t).dir10 fzero = false → -(102 / 100) * uR ≤ sB (rectOf c) (ofV t)) := by
  obtain ⟨fd, _, _, _, h1, _, h3, _⟩ := edge_args t.y t.z c.uv.2.1 X.ft.2.1 X.ft.2.2 X.fv0 X.bv0 X.by' X.bz
  refine ⟨fun h => h1 ((lt_zero_iff fd).1 h), fun h => h3 ?_⟩
  by_contra hc
  have := (lt_zero_iff fd).2 (not_le.1 hc)
  unfold dirs at h; simp only at h; rw [this] at h; exact Bool.noConfusion h

theorem signT :
    (F64.gt (dirs c t).dir11 fzero = true → -(102 / 100) * uR ≤ sT (rectOf c) (ofV t)) ∧
    (F64.gt (dirs c t).dir11 fzero = false → sT (rectOf c) (ofV t) ≤ (102 / 100) * uR) := by
  obtain ⟨fd, _, _, _, _, h2, _, h4⟩ := edge_args t.y t.z c.uv.2.2 X.ft.2.1 X.ft.2.2 X.fv1 X.bv1 X.by' X.bz
  refine ⟨fun h => h2 ((gt_zero_iff fd).1 h), fun h => h4 ?_⟩
  by_contra hc
  have := (gt_zero_iff fd).2 (not_le.1 hc)
  unfold dirs at h; simp only at h; rw [this] at h; exact Bool.noConfusion h

end Ctx

/-! ### the tangential tests (`ε_t = 17 u`, margin `m = edgeIsClosestMargin = 32·dblError` of repair D58) -/

/-- the exact value of the margin constant: `2^-48·(1 − 2^-51)` (`dblError` is a decimal literal, four ulps below 2^-53) -/
noncomputable def mR : ℝ := val edgeIsClosestMargin

theorem fin_margin : Fin edgeIsClosestMargin := by decide
theorem fin_negMargin : Fin (-edgeIsClosestMargin) := fin_neg' fin_margin
theorem val_negMargin : val (-edgeIsClosestMargin) = -mR := val_neg' _

/-- the exact value of a float from its integer `toInt x = m·2^k` -/
theorem val_of_toInt {x : F64} {m : ℤ} {k j : ℕ} (h : S2.Exact.toInt x = m * 2 ^ k) (hkj : 1074 = k + j) :
    val x = (m : ℝ) / 2 ^ j := by
  unfold val
  rw [h, hkj, pow_add]
  push_cast
  field_simp

theorem mR_eq : mR = 1 / 2 ^ 48 - 1 / 2 ^ 99 := by
  have h : S2.Exact.toInt edgeIsClosestMargin = 2251799813685247 * 2 ^ 975 := by decide +kernel
  unfold mR
  rw [val_of_toInt (j := 99) h (by norm_num)]; push_cast; norm_num

/-- `31·u < m ≤ 32·u` -/
theorem mR_le : mR ≤ 32 * uR := by rw [mR_eq]; unfold uR; norm_num
theorem mR_ge : 31 * uR ≤ mR := by rw [mR_eq]; unfold uR; norm_num

/-- generic: the conjunction `gt a m && lt b (-m)` of two finite floats within `17u` of exact values `A`, `B`:
    a "yes" means `A > m − 17u (≥ 14u > 0)` and `B < −(m − 17u)`; a "no" means `A ≤ m + 17u (≤ 49u)` or `B ≥ −(m + 17u)` -/
theorem closest_sign (a b : F64) (A B : ℝ) (fa : Fin a) (fb : Fin b)
    (ea : |val a - A| ≤ 17 * uR) (eb : |val b - B| ≤ 17 * uR) :
    ((F64.gt a edgeIsClosestMargin && F64.lt b (-edgeIsClosestMargin)) = true → 14 * uR < A ∧ B < -(14 * uR)) ∧
    ((F64.gt a edgeIsClosestMargin && F64.lt b (-edgeIsClosestMargin)) = false → A ≤ 49 * uR ∨ -(49 * uR) ≤ B) := by
  have ha := abs_le.1 ea
  have hb := abs_le.1 eb
  have m1 := mR_le
  have m2 := mR_ge
  have gta : F64.gt a edgeIsClosestMargin = true ↔ mR < val a := by
    rw [gt_iff fa fin_margin, ← val_lt_iff]; rfl
  have ltb : F64.lt b (-edgeIsClosestMargin) = true ↔ val b < -mR := by
    rw [lt_iff fb fin_negMargin, ← val_lt_iff, val_negMargin]
  constructor
  · intro h
    rw [Bool.and_eq_true] at h
    have h1 := gta.1 h.1
    have h2 := ltb.1 h.2
    constructor <;> linarith
  · intro h
    rw [Bool.and_eq_false_iff] at h
    rcases h with h | h
    · left
      have : ¬ mR < val a := fun hc => by rw [gta.2 hc] at h; exact Bool.noConfusion h
      have := not_lt.1 this; linarith
    · right
      have : ¬ val b < -mR := fun hc => by rw [ltb.2 hc] at h; exact Bool.noConfusion h
      have := not_lt.1 this; linarith

namespace Ctx
variable {c : Cell} {t : V3} (X : Ctx c t)
include X

theorem vClosest_lo :
    (vEdgeIsClosest c t false = true →
      14 * uR < vTan (rectOf c).u0 (rectOf c).v0 (ofV t) ∧ vTan (rectOf c).u0 (rectOf c).v1 (ofV t) < -(14 * uR)) ∧
    (vEdgeIsClosest c t false = false →
      vTan (rectOf c).u0 (rectOf c).v0 (ofV t) ≤ 49 * uR ∨ -(49 * uR) ≤ vTan (rectOf c).u0 (rectOf c).v1 (ofV t)) := by
  obtain ⟨fa, ea⟩ := vTan_err t c.uv.1.1 c.uv.2.1 X.ft X.fu0 X.fv0 X.bu0 X.bv0 X.bn
  obtain ⟨fb, eb⟩ := vTan_err t c.uv.1.1 c.uv.2.2 X.ft X.fu0 X.fv1 X.bu0 X.bv1 X.bn
  exact closest_sign _ _ _ _ fa fb ea eb

theorem vClosest_hi :
    (vEdgeIsClosest c t true = true →
      14 * uR < vTan (rectOf c).u1 (rectOf c).v0 (ofV t) ∧ vTan (rectOf c).u1 (rectOf c).v1 (ofV t) < -(14 * uR)) ∧
    (vEdgeIsClosest c t true = false →
      vTan (rectOf c).u1 (rectOf c).v0 (ofV t) ≤ 49 * uR ∨ -(49 * uR) ≤ vTan (rectOf c).u1 (rectOf c).v1 (ofV t)) := by
  obtain ⟨fa, ea⟩ := vTan_err t c.uv.1.2 c.uv.2.1 X.ft X.fu1 X.fv0 X.bu1 X.bv0 X.bn
  obtain ⟨fb, eb⟩ := vTan_err t c.uv.1.2 c.uv.2.2 X.ft X.fu1 X.fv1 X.bu1 X.bv1 X.bn
  exact closest_sign _ _ _ _ fa fb ea eb

theorem uClosest_lo :
    (uEdgeIsClosest c t false = true →
      14 * uR < uTan (rectOf c).v0 (rectOf c).u0 (ofV t) ∧ uTan (rectOf c).v0 (rectOf c).u1 (ofV t) < -(14 * uR)) ∧
    (uEdgeIsClosest c t false = false →
      uTan (rectOf c).v0 (rectOf c).u0 (ofV t) ≤ 49 * uR ∨ -(49 * uR) ≤ uTan (rectOf c).v0 (rectOf c).u1 (ofV t)) := by
  obtain ⟨fa, ea⟩ := uTan_err t c.uv.2.1 c.uv.1.1 X.ft X.fu0 X.fv0 X.bu0 X.bv0 X.bn
  obtain ⟨fb, eb⟩ := uTan_err t c.uv.2.1 c.uv.1.2 X.ft X.fu1 X.fv0 X.bu1 X.bv0 X.bn
  exact closest_sign _ _ _ _ fa fb ea eb

theorem uClosest_hi :
    (uEdgeIsClosest c t true = true →
      14 * uR < uTan (rectOf c).v1 (rectOf c).u0 (ofV t) ∧ uTan (rectOf c).v1 (rectOf c).u1 (ofV t) < -(14 * uR)) ∧
    (uEdgeIsClosest c t true = false →
      uTan (rectOf c).v1 (rectOf c).u0 (ofV t) ≤ 49 * uR ∨ -(49 * uR) ≤ uTan (rectOf c).v1 (rectOf c).u1 (ofV t)) := by
  obtain ⟨fa, ea⟩ := uTan_err t c.uv.2.2 c.uv.1.1 X.ft X.fu0 X.fv1 X.bu0 X.bv1 X.bn
  obtain ⟨fb, eb⟩ := uTan_err t c.uv.2.2 c.uv.1.2 X.ft X.fu1 X.fv1 X.bu1 X.bv1 X.bn
  exact closest_sign _ _ _ _ fa fb ea eb

/-! ### the four vertex values -/

theorem vertex_val (xHi yHi : Bool) :
    Fin (vertexChordDist2 c t xHi yHi) ∧ 0 ≤ val (vertexChordDist2 c t xHi yHi) ∧
    val (vertexChordDist2 c t xHi yHi) ≤ 4 ∧
    |val (vertexChordDist2 c t xHi yHi)
        - min 4 (dist2 (ofV t) (vhat (if xHi then (rectOf c).u1 else (rectOf c).u0)
                                      (if yHi then (rectOf c).v1 else (rectOf c).v0)))| ≤ vertErr := by
  have h1 := vertexChordDist2_err c t xHi yHi X.ft X.fu0 X.fu1 X.fv0 X.fv1 X.bu0 X.bu1 X.bv0 X.bv1 X.bn20
  have h2 := vertexChordDist2_range c t xHi yHi X.ft X.fu0 X.fu1 X.fv0 X.fv1 X.bu0 X.bu1 X.bv0 X.bv1 X.bn20
  exact ⟨h1.1, h2.1, h2.2, h1.2⟩

end Ctx

/-! ### `minChord`, `maxChord` of four finite values -/

theorem minChord4 (a b c d : F64) (fa : Fin a) (fb : Fin b) (fc : Fin c) (fd : Fin d) :
    (minChord a [b, c, d] = a ∨ minChord a [b, c, d] = b ∨ minChord a [b, c, d] = c ∨ minChord a [b, c, d] = d) ∧
    val (minChord a [b, c, d]) ≤ val a ∧ val (minChord a [b, c, d]) ≤ val b ∧
    val (minChord a [b, c, d]) ≤ val c ∧ val (minChord a [b, c, d]) ≤ val d := by
  have step : ∀ m y : F64, Fin m → Fin y →
      ((if F64.lt y m then y else m) = y ∨ (if F64.lt y m then y else m) = m) ∧
      Fin (if F64.lt y m then y else m) ∧
      val (if F64.lt y m then y else m) ≤ val m ∧ val (if F64.lt y m then y else m) ≤ val y := by
    intro m y fm fy
    by_cases h : F64.lt y m = true
    · rw [if_pos h]
      have := (val_lt_iff _ _).2 ((lt_iff fy fm).1 h)
      exact ⟨Or.inl rfl, fy, le_of_lt this, le_refl _⟩
    · rw [if_neg h]
      have : ¬ val y < val m := fun hc => h ((lt_iff fy fm).2 ((val_lt_iff _ _).1 hc))
      exact ⟨Or.inr rfl, fm, le_refl _, not_lt.1 this⟩
  unfold minChord
  simp only [List.foldl]
  obtain ⟨e1, f1, l1, l1'⟩ := step a b fa fb
  obtain ⟨e2, f2, l2, l2'⟩ := step _ c f1 fc
  obtain ⟨e3, f3, l3, l3'⟩ := step _ d f2 fd
  refine ⟨?_, by linarith, by linarith, by linarith, l3'⟩
  rcases e3 with e3 | e3
  · right; right; right; exact e3
  · rw [e3]
    rcases e2 with e2 | e2
    · right; right; left; exact e2
    · rw [e2]
      rcases e1 with e1 | e1
      · right; left; exact e1
      · left; exact e1

theorem maxChord4 (a b c d : F64) (fa : Fin a) (fb : Fin b) (fc : Fin c) (fd : Fin d) :
    (maxChord a [b, c, d] = a ∨ maxChord a [b, c, d] = b ∨ maxChord a [b, c, d] = c ∨ maxChord a [b, c, d] = d) ∧
    val a ≤ val (maxChord a [b, c, d]) ∧ val b ≤ val (maxChord a [b, c, d]) ∧
    val c ≤ val (maxChord a [b, c, d]) ∧ val d ≤ val (maxChord a [b, c, d]) := by
  have step : ∀ m y : F64, Fin m → Fin y →
      ((if F64.gt y m then y else m) = y ∨ (if F64.gt y m then y else m) = m) ∧
      Fin (if F64.gt y m then y else m) ∧
      val m ≤ val (if F64.gt y m then y else m) ∧ val y ≤ val (if F64.gt y m then y else m) := by
    intro m y fm fy
    by_cases h : F64.gt y m = true
    · rw [if_pos h]
      have := (val_lt_iff _ _).2 ((gt_iff fy fm).1 h)
      exact ⟨Or.inl rfl, fy, le_of_lt this, le_refl _⟩
    · rw [if_neg h]
      have : ¬ val m < val y := fun hc => h ((gt_iff fy fm).2 ((val_lt_iff _ _).1 hc))
      exact ⟨Or.inr rfl, fm, le_refl _, not_lt.1 this⟩
  unfold maxChord
  simp only [List.foldl]
  obtain ⟨e1, f1, l1, l1'⟩ := step a b fa fb
  obtain ⟨e2, f2, l2, l2'⟩ := step _ c f1 fc
  obtain ⟨e3, f3, l3, l3'⟩ := step _ d f2 fd
  refine ⟨?_, by linarith, by linarith, by linarith, l3'⟩
  rcases e3 with e3 | e3
  · right; right; right; exact e3
  · rw [e3]
    rcases e2 with e2 | e2
    · right; right; left; exact e2
    · rw [e2]
      rcases e1 with e1 | e1
      · right; left; exact e1
      · left; exact e1

end S2Proofs.C12Dist
