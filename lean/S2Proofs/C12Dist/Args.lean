/-
  C12Dist.Args — the float arguments of `edgeDistance` in `distanceInternal` against their exact values.

  For one edge the code computes   d = a − z·k   (the sign test `dirIJ`, `a` = t.x or t.y, `k` the uv bound)
  and                              w = k·a + z   (the in-plane component).
  `edge_args`  : both are finite and within `3.1·u` of the exact values; the float sign of `d` bounds the exact
                 value on the other side by `1.01·u + e`.
  `edgeReal_lip` : `edgeReal` is Lipschitz in (ij, w).
-/
import S2Proofs.C12Dist.Geom
import S2Proofs.FloatErr.Ops
import S2Proofs.FloatErr.Triage

namespace S2Proofs.C12Dist
open S2 S2.CellM S2Proofs.FloatErr S2Proofs.F64Order S2Proofs.C16Acc

theorem fin_fzero : Fin fzero := (zero_val false).1
theorem val_fzero : val fzero = 0 := (zero_val false).2

theorem lt_zero_iff {d : F64} (hd : Fin d) : F64.lt d fzero = true ↔ val d < 0 := by
  rw [lt_iff hd fin_fzero, ← val_lt_iff, val_fzero]

theorem gt_zero_iff {d : F64} (hd : Fin d) : F64.gt d fzero = true ↔ 0 < val d := by
  rw [gt_iff hd fin_fzero, ← val_lt_iff, val_fzero]

theorem fin_neg' {x : F64} (h : Fin x) : Fin (-x) := (S2Proofs.F64Sym.isFinite_neg x).2 h
theorem val_neg' (x : F64) : val (-x) = - val x := val_neg x

theorem uR_small : uR ≤ 1 / 2 ^ 50 := by unfold uR; norm_num
theorem eR_le_uR : eR ≤ uR / 2 ^ 1000 := by
  unfold eR uR
  rw [div_div, div_le_div_iff₀ (by positivity) (by positivity)]
  rw [one_mul, one_mul, ← pow_add]
  exact pow_le_pow_right₀ (by norm_num) (by norm_num)

theorem eR_tiny : eR ≤ uR / 1000 := by
  have h := eR_le_uR
  have hu := uR_nonneg
  have : uR / 2 ^ 1000 ≤ uR / 1000 := by
    apply div_le_div_of_nonneg_left hu (by norm_num)
    calc (1000 : ℝ) ≤ 2 ^ 10 := by norm_num
      _ ≤ 2 ^ 1000 := pow_le_pow_right₀ (by norm_num) (by norm_num)
  linarith

/-- the two float arguments of one edge -/
theorem edge_args (a z k : F64) (ha : Fin a) (hz : Fin z) (hk : Fin k)
    (bk : |val k| ≤ 1) (ba : |val a| ≤ 1 + 1 / 2 ^ 20) (bz : |val z| ≤ 1 + 1 / 2 ^ 20) :
    Fin (a - z * k) ∧ Fin (k * a + z) ∧
    |val (a - z * k) - (val a - val z * val k)| ≤ (31 / 10) * uR ∧
    |val (k * a + z) - (val k * val a + val z)| ≤ (31 / 10) * uR ∧
    (val (a - z * k) < 0 → val a - val z * val k ≤ (102 / 100) * uR) ∧
    (0 < val (a - z * k) → -(102 / 100) * uR ≤ val a - val z * val k) ∧
    (0 ≤ val (a - z * k) → -(102 / 100) * uR ≤ val a - val z * val k) ∧
    (val (a - z * k) ≤ 0 → val a - val z * val k ≤ (102 / 100) * uR) := by
  have H := stdModel
  have hu := uR_nonneg
  have hus := uR_small
  have he := eR_tiny
  have he0 := eR_nonneg
  -- z*k
  have m1 : |val z * val k| ≤ 1 + 1 / 2 ^ 20 := by
    rw [abs_mul]; nlinarith [abs_nonneg (val z), abs_nonneg (val k)]
  obtain ⟨f1, r1, _⟩ := mul_step H hz hk m1 (by norm_num)
  unfold Rnd at r1
  have r1' : |val (z * k) - val z * val k| ≤ (101 / 100) * uR := by
    have : uR * |val z * val k| ≤ uR * (1 + 1 / 2 ^ 20) := mul_le_mul_of_nonneg_left m1 hu
    have : uR * (1 + 1 / 2 ^ 20) ≤ (1001 / 1000) * uR := by nlinarith
    linarith
  have b1 : |val (z * k)| ≤ 1 + 1 / 2 ^ 19 := by
    have := abs_sub_abs_le_abs_sub (val (z * k)) (val z * val k)
    have : (101 / 100) * uR ≤ 1 / 2 ^ 20 := by nlinarith
    have h2 : (1 : ℝ) + 1 / 2 ^ 20 + 1 / 2 ^ 20 = 1 + 1 / 2 ^ 19 := by norm_num
    linarith
  -- a - z*k
  have m2 : |val a - val (z * k)| ≤ 2 + 1 / 2 ^ 18 := by
    have := abs_sub (val a) (val (z * k))
    have h2 : (1 : ℝ) + 1 / 2 ^ 20 + (1 + 1 / 2 ^ 19) ≤ 2 + 1 / 2 ^ 18 := by norm_num
    linarith
  obtain ⟨f2, r2, _⟩ := sub_step H ha f1 m2 (by norm_num)
  unfold Rnd at r2
  have r2' : |val (a - z * k) - (val a - val (z * k))| ≤ (201 / 100) * uR := by
    have : uR * |val a - val (z * k)| ≤ uR * (2 + 1 / 2 ^ 18) := mul_le_mul_of_nonneg_left m2 hu
    have : uR * (2 + 1 / 2 ^ 18) ≤ (201 / 100) * uR := by nlinarith
    linarith
  -- k*a
  have m3 : |val k * val a| ≤ 1 + 1 / 2 ^ 20 := by
    rw [abs_mul]; nlinarith [abs_nonneg (val a), abs_nonneg (val k)]
  obtain ⟨f3, r3, _⟩ := mul_step H hk ha m3 (by norm_num)
  unfold Rnd at r3
  have r3' : |val (k * a) - val k * val a| ≤ (101 / 100) * uR := by
    have : uR * |val k * val a| ≤ uR * (1 + 1 / 2 ^ 20) := mul_le_mul_of_nonneg_left m3 hu
    have : uR * (1 + 1 / 2 ^ 20) ≤ (1001 / 1000) * uR := by nlinarith
    linarith
  have b3 : |val (k * a)| ≤ 1 + 1 / 2 ^ 19 := by
    have := abs_sub_abs_le_abs_sub (val (k * a)) (val k * val a)
    have : (101 / 100) * uR ≤ 1 / 2 ^ 20 := by nlinarith
    have h2 : (1 : ℝ) + 1 / 2 ^ 20 + 1 / 2 ^ 20 = 1 + 1 / 2 ^ 19 := by norm_num
    linarith
  have m4 : |val (k * a) + val z| ≤ 2 + 1 / 2 ^ 18 := by
    have := abs_add_le (val (k * a)) (val z)
    have h2 : (1 : ℝ) + 1 / 2 ^ 19 + (1 + 1 / 2 ^ 20) ≤ 2 + 1 / 2 ^ 18 := by norm_num
    linarith
  obtain ⟨f4, r4, _⟩ := add_step H f3 hz m4 (by norm_num)
  unfold Rnd at r4
  have r4' : |val (k * a + z) - (val (k * a) + val z)| ≤ (201 / 100) * uR := by
    have : uR * |val (k * a) + val z| ≤ uR * (2 + 1 / 2 ^ 18) := mul_le_mul_of_nonneg_left m4 hu
    have : uR * (2 + 1 / 2 ^ 18) ≤ (201 / 100) * uR := by nlinarith
    linarith
  -- sign of the float difference = sign of the exact difference of the rounded operands
  have sgn_neg : val (a - z * k) < 0 → val a - val (z * k) < 0 := by
    intro h
    by_contra hc
    have hc' : 0 ≤ val a - val (z * k) := not_lt.1 hc
    rw [abs_of_nonneg hc', add_zero] at r2
    have : |val (a - z * k) - (val a - val (z * k))| = (val a - val (z * k)) - val (a - z * k) := by
      rw [abs_sub_comm]; exact abs_of_nonneg (by linarith)
    rw [this] at r2
    have : uR * (val a - val (z * k)) ≤ 1 * (val a - val (z * k)) :=
      mul_le_mul_of_nonneg_right uR_le_one hc'
    linarith
  have sgn_pos : 0 < val (a - z * k) → 0 < val a - val (z * k) := by
    intro h
    by_contra hc
    have hc' : val a - val (z * k) ≤ 0 := not_lt.1 hc
    rw [abs_of_nonpos hc', add_zero] at r2
    have : |val (a - z * k) - (val a - val (z * k))| = val (a - z * k) - (val a - val (z * k)) :=
      abs_of_nonneg (by linarith)
    rw [this] at r2
    have : uR * -(val a - val (z * k)) ≤ 1 * -(val a - val (z * k)) :=
      mul_le_mul_of_nonneg_right uR_le_one (by linarith)
    linarith
  have d1 := abs_le.1 r1'
  refine ⟨f2, f4, ?_, ?_, ?_, ?_, ?_, ?_⟩
  · have e : val (a - z * k) - (val a - val z * val k) =
        (val (a - z * k) - (val a - val (z * k))) - (val (z * k) - val z * val k) := by ring
    rw [e]
    have := abs_sub (val (a - z * k) - (val a - val (z * k))) (val (z * k) - val z * val k)
    linarith
  · have e : val (k * a + z) - (val k * val a + val z) =
        (val (k * a + z) - (val (k * a) + val z)) + (val (k * a) - val k * val a) := by ring
    rw [e]
    have := abs_add_le (val (k * a + z) - (val (k * a) + val z)) (val (k * a) - val k * val a)
    linarith
  · intro h; have := sgn_neg h; linarith [d1.1, d1.2]
  · intro h; have := sgn_pos h; linarith [d1.1, d1.2]
  · intro h
    by_contra hc
    have hc' : val a - val z * val k < -(102 / 100) * uR := not_le.1 hc
    have hlt : val a - val (z * k) < 0 := by linarith [d1.1, d1.2]
    -- then the float difference is negative
    rw [abs_of_neg hlt, add_zero] at r2
    have h3 := abs_le.1 r2
    have : uR * -(val a - val (z * k)) < 1 * -(val a - val (z * k)) := by
      apply mul_lt_mul_of_pos_right _ (by linarith)
      have := uR_small; norm_num at this ⊢; linarith
    linarith [h3.2]
  · intro h
    by_contra hc
    have hc' : (102 / 100) * uR < val a - val z * val k := not_le.1 hc
    have hgt : 0 < val a - val (z * k) := by linarith [d1.1, d1.2]
    rw [abs_of_pos hgt, add_zero] at r2
    have h3 := abs_le.1 r2
    have : uR * (val a - val (z * k)) < 1 * (val a - val (z * k)) := by
      apply mul_lt_mul_of_pos_right _ hgt
      have := uR_small; norm_num at this ⊢; linarith
    linarith [h3.1]

/-! ### Lipschitz bound of `edgeReal` -/

theorem rho_lip (D y w w' : ℝ) (hD : 1 ≤ D) :
    Real.sqrt (y ^ 2 + w ^ 2 / D) ≤ Real.sqrt (y ^ 2 + w' ^ 2 / D) + |w - w'| := by
  have hD0 : 0 < D := by linarith
  set ρ' := Real.sqrt (y ^ 2 + w' ^ 2 / D) with hρ'
  have hρ'0 : 0 ≤ ρ' := Real.sqrt_nonneg _
  have hρ'2 : ρ' ^ 2 = y ^ 2 + w' ^ 2 / D := Real.sq_sqrt (by positivity)
  have hΔ : 0 ≤ |w - w'| := abs_nonneg _
  -- ρ' ≥ |w'|/D
  have h1 : |w'| / D ≤ ρ' := by
    apply Real.le_sqrt_of_sq_le
    have : (|w'| / D) ^ 2 = w' ^ 2 / D / D := by rw [div_pow, sq_abs]; field_simp
    rw [this]
    have : w' ^ 2 / D / D ≤ w' ^ 2 / D := div_le_self (by positivity) hD
    nlinarith [sq_nonneg y]
  have hw : |w| ≤ |w'| + |w - w'| := by
    have := abs_add_le w' (w - w'); simpa using this
  calc Real.sqrt (y ^ 2 + w ^ 2 / D) ≤ Real.sqrt ((ρ' + |w - w'|) ^ 2) := by
        apply Real.sqrt_le_sqrt
        have e : (ρ' + |w - w'|) ^ 2 = y ^ 2 + w' ^ 2 / D + 2 * ρ' * |w - w'| + |w - w'| ^ 2 := by
          rw [add_sq, hρ'2]
        rw [e]
        have h2 : w ^ 2 / D ≤ (|w'| + |w - w'|) ^ 2 / D := by
          apply div_le_div_of_nonneg_right _ (le_of_lt hD0)
          rw [← sq_abs w]; exact pow_le_pow_left₀ (abs_nonneg _) hw 2
        have h3 : (|w'| + |w - w'|) ^ 2 / D = w' ^ 2 / D + 2 * (|w'| / D) * |w - w'| + |w - w'| ^ 2 / D := by
          rw [add_sq, sq_abs]; field_simp
        have h4 : |w - w'| ^ 2 / D ≤ |w - w'| ^ 2 := div_le_self (by positivity) hD
        have h5 : 2 * (|w'| / D) * |w - w'| ≤ 2 * ρ' * |w - w'| := by
          apply mul_le_mul_of_nonneg_right _ hΔ; linarith
        linarith
    _ = ρ' + |w - w'| := Real.sqrt_sq (by positivity)

theorem edgeReal_lip (u y a a' w w' A R : ℝ) (ha : |a| ≤ A) (ha' : |a'| ≤ A)
    (hR : Real.sqrt (y ^ 2 + w ^ 2 / (1 + u ^ 2)) ≤ R) (hR' : Real.sqrt (y ^ 2 + w' ^ 2 / (1 + u ^ 2)) ≤ R) :
    |edgeReal a u y w - edgeReal a' u y w'| ≤ 2 * A * |a - a'| + (2 + 2 * R) * |w - w'| := by
  have hD : (1 : ℝ) ≤ 1 + u ^ 2 := by nlinarith [sq_nonneg u]
  have hD0 : (0 : ℝ) < 1 + u ^ 2 := by linarith
  set ρ := Real.sqrt (y ^ 2 + w ^ 2 / (1 + u ^ 2)) with hρ
  set ρ' := Real.sqrt (y ^ 2 + w' ^ 2 / (1 + u ^ 2)) with hρ'
  have hρ0 : 0 ≤ ρ := Real.sqrt_nonneg _
  have hρ'0 : 0 ≤ ρ' := Real.sqrt_nonneg _
  have l1 := rho_lip (1 + u ^ 2) y w w' hD
  have l2 := rho_lip (1 + u ^ 2) y w' w hD
  rw [abs_sub_comm w' w] at l2
  have hρd : |ρ - ρ'| ≤ |w - w'| := by rw [abs_le]; constructor <;> linarith
  unfold edgeReal
  rw [← hρ, ← hρ']
  have e : a ^ 2 / (1 + u ^ 2) + (1 - ρ) ^ 2 - (a' ^ 2 / (1 + u ^ 2) + (1 - ρ') ^ 2) =
      (a - a') * (a + a') / (1 + u ^ 2) + (ρ' - ρ) * (2 - ρ - ρ') := by field_simp; ring
  rw [e]
  have t1 : |(a - a') * (a + a') / (1 + u ^ 2)| ≤ 2 * A * |a - a'| := by
    rw [abs_div, abs_of_pos hD0, abs_mul]
    have h1 : |a + a'| ≤ 2 * A := by have := abs_add_le a a'; linarith
    have h2 : |a - a'| * |a + a'| / (1 + u ^ 2) ≤ |a - a'| * |a + a'| :=
      div_le_self (by positivity) hD
    have h3 : |a - a'| * |a + a'| ≤ |a - a'| * (2 * A) := mul_le_mul_of_nonneg_left h1 (abs_nonneg _)
    linarith
  have t2 : |(ρ' - ρ) * (2 - ρ - ρ')| ≤ (2 + 2 * R) * |w - w'| := by
    rw [abs_mul, abs_sub_comm ρ' ρ]
    have h1 : |2 - ρ - ρ'| ≤ 2 + 2 * R := by rw [abs_le]; constructor <;> linarith
    have h0 : 0 ≤ 2 + 2 * R := le_trans (abs_nonneg _) h1
    calc |ρ - ρ'| * |2 - ρ - ρ'| ≤ |w - w'| * (2 + 2 * R) :=
          mul_le_mul hρd h1 (abs_nonneg _) (abs_nonneg _)
      _ = (2 + 2 * R) * |w - w'| := by ring
  have := abs_add_le ((a - a') * (a + a') / (1 + u ^ 2)) ((ρ' - ρ) * (2 - ρ - ρ'))
  linarith

end S2Proofs.C12Dist
