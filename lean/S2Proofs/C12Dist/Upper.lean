/-
  C12Dist.Upper — UPPER BOUND for `Cell.MaxDistance`: no point of the cell is farther than the reported value plus the error.

  `MaxDistance` = the largest of the four vertex distances if that is ≤ 2 (90°), else `4 − Distance(−p)`.
  (M1) all vertices within 90° (up to rounding): every cell point is a combination `Σ c_k V̂_k`, `c_k ≥ 0`, `1 ≤ Σ c_k ≤ √3`
       (`cell_combination`), so `t·q ≥ min_k t·V̂_k − max(0, −min_k …)`.
  (M2) otherwise `|p − q|² = 2|p|² + 2 − |−p − q|²` and the LOWER BOUND of `Distance(−p)`.
-/
import S2Proofs.C12Dist.Lower
import S2Proofs.C12Dist.CellOK
import S2Proofs.F64Round
import S2Proofs.C12.MarginAssemble

namespace S2Proofs.C12Dist
open S2 S2.CellM S2Proofs.FloatErr S2Proofs.F64Order S2Proofs.C16Acc

/-! ### `(-1)·x` is exact -/

theorem negOne_mul (x : F64) (hx : Fin x) (bx : |val x| ≤ 4) : Fin (negOne * x) ∧ val (negOne * x) = - val x := by
  have hn : Fin negOne := by decide
  have hvq : S2Proofs.F64Round.val negOne = -1 := by
    have h : S2.Exact.toInt negOne = -(2 ^ 1074) := by decide +kernel
    unfold S2Proofs.F64Round.val S2Proofs.F64Round.U; rw [h]; push_cast; field_simp
  have hR := S2Proofs.F64Round.isRound_mul hn hx
  have hfin : Fin (F64.mul negOne x) := by
    apply S2Proofs.F64Round.mul_fin_of_lt hn hx
    rw [hvq, neg_one_mul, abs_neg]
    apply S2Proofs.C12M.small_lt_top
    have hb : |((S2Proofs.F64Round.val x : ℚ) : ℝ)| ≤ 4 := by rw [← CellOK.val_bridge]; exact bx
    exact_mod_cast hb
  have hnear := hR.nearest hfin (F64.neg x)
  rw [hvq, S2Proofs.F64Round.val_neg, neg_one_mul, sub_self, abs_zero] at hnear
  have hq : S2Proofs.F64Round.val (F64.mul negOne x) = - S2Proofs.F64Round.val x := by
    have := abs_nonpos_iff.1 hnear; linarith
  refine ⟨hfin, ?_⟩
  show val (F64.mul negOne x) = - val x
  rw [CellOK.val_bridge, CellOK.val_bridge, hq]; push_cast; ring

theorem fin_two : Fin F64.two := by decide
theorem val_two : val F64.two = 2 := by
  have h : S2.Exact.toInt F64.two = 2 * 2 ^ 1074 := by decide +kernel
  unfold val; rw [h]; push_cast; field_simp

theorem vertErr_small : vertErr ≤ 1 / 2 ^ 40 := by
  have h := vertErr_le
  have := uR_small
  have : (64 : ℝ) * (1 / 2 ^ 50) ≤ 1 / 2 ^ 40 := by norm_num
  linarith

/-! ### (M1) all four vertices within 90° -/

/-- if all four `t·V̂_k ≥ m0` then every cell point has `t·q ≥ m0 − max(0, −m0)` -/
theorem hemi_real (r : RRect) (hr : r.OK) (T q : R3) (hq : InCell r q) (m0 : ℝ)
    (h00 : m0 ≤ R3.dot T (vhat r.u0 r.v0)) (h10 : m0 ≤ R3.dot T (vhat r.u1 r.v0))
    (h01 : m0 ≤ R3.dot T (vhat r.u0 r.v1)) (h11 : m0 ≤ R3.dot T (vhat r.u1 r.v1)) :
    m0 - max 0 (-m0) ≤ R3.dot T q := by
  obtain ⟨c00, c10, c01, c11, p00, p10, p01, p11, hS1, hS3, hcomb⟩ := cell_combination r hr q hq
  rw [hcomb T]
  set S := c00 + c10 + c01 + c11 with hS
  have hS0 : 0 ≤ S := by linarith
  have hS2 : S ≤ 2 := by nlinarith
  have hge : S * m0 ≤ c00 * R3.dot T (vhat r.u0 r.v0) + c10 * R3.dot T (vhat r.u1 r.v0)
      + c01 * R3.dot T (vhat r.u0 r.v1) + c11 * R3.dot T (vhat r.u1 r.v1) := by
    have a := mul_le_mul_of_nonneg_left h00 p00
    have b := mul_le_mul_of_nonneg_left h10 p10
    have c := mul_le_mul_of_nonneg_left h01 p01
    have d := mul_le_mul_of_nonneg_left h11 p11
    have : S * m0 = c00 * m0 + c10 * m0 + c01 * m0 + c11 * m0 := by rw [hS]; ring
    linarith
  rcases le_total 0 m0 with h | h
  · rw [max_eq_left (by linarith)]
    have : m0 ≤ S * m0 := by nlinarith
    linarith
  · rw [max_eq_right (by linarith)]
    have : 2 * m0 ≤ S * m0 := by nlinarith
    linarith

theorem min4_le {d x : ℝ} (h : min 4 d ≤ x) (hx : x < 4) : d ≤ x := by
  rcases min_le_iff.1 h with h | h
  · linarith
  · exact h

/-- the value of the first branch of `MaxDistance` is an upper bound up to `2·vertErr + max(0, 1 − |t|²)` -/
theorem maxVertex_upper {c : Cell} {t : V3} (X : Ctx c t)
    (hle : F64.le (maxChord (vertexChordDist2 c t false false)
      [vertexChordDist2 c t true false, vertexChordDist2 c t false true, vertexChordDist2 c t true true]) F64.two = true)
    (q : R3) (hq : InCell (rectOf c) q) :
    Fin (maxChord (vertexChordDist2 c t false false)
      [vertexChordDist2 c t true false, vertexChordDist2 c t false true, vertexChordDist2 c t true true]) ∧
    dist2 (ofV t) q ≤ val (maxChord (vertexChordDist2 c t false false)
      [vertexChordDist2 c t true false, vertexChordDist2 c t false true, vertexChordDist2 c t true true])
      + 2 * vertErr + max 0 (1 - (ofV t).norm2) := by
  obtain ⟨f00, _, _, e00⟩ := X.vertex_val false false
  obtain ⟨f10, _, _, e10⟩ := X.vertex_val true false
  obtain ⟨f01, _, _, e01⟩ := X.vertex_val false true
  obtain ⟨f11, _, _, e11⟩ := X.vertex_val true true
  simp only [if_true, Bool.false_eq_true, if_false] at e00 e10 e01 e11
  obtain ⟨hmem, l00, l10, l01, l11⟩ := maxChord4 _ _ _ _ f00 f10 f01 f11
  set M := maxChord (vertexChordDist2 c t false false)
      [vertexChordDist2 c t true false, vertexChordDist2 c t false true, vertexChordDist2 c t true true] with hM
  have fM : Fin M := by rcases hmem with h | h | h | h <;> rw [h] <;> assumption
  have hM2 : val M ≤ 2 := by
    have := (le_iff fM fin_two).1 hle
    have := (VertexErr.val_le_iff M F64.two).2 this
    rw [val_two] at this; exact this
  have hv := vertErr_small
  have hv0 := vertErr_nonneg
  have hsm : (1 : ℝ) / 2 ^ 40 < 1 := by norm_num
  clear_value M
  have key : ∀ (v : F64) (x y : ℝ), val v ≤ val M → |val v - min 4 (dist2 (ofV t) (vhat x y))| ≤ vertErr →
      ((ofV t).norm2 + 1 - val M - vertErr) / 2 ≤ R3.dot (ofV t) (vhat x y) := by
    intro v x y hvM h
    have h1 := (abs_le.1 h).1
    have h2 : min 4 (dist2 (ofV t) (vhat x y)) ≤ val M + vertErr := by linarith
    have h3 := min4_le h2 (by linarith)
    rw [dist2_vhat] at h3
    linarith
  have k00 := key _ _ _ l00 e00
  have k10 := key _ _ _ l10 e10
  have k01 := key _ _ _ l01 e01
  have k11 := key _ _ _ l11 e11
  have hh := hemi_real (rectOf c) X.ok (ofV t) q hq _ k00 k10 k01 k11
  refine ⟨fM, ?_⟩
  have hd : dist2 (ofV t) q = (ofV t).norm2 + 1 - 2 * R3.dot (ofV t) q := by rw [dist2_eq, hq.1]
  rw [hd]
  have hmx : 2 * max 0 (-(((ofV t).norm2 + 1 - val M - vertErr) / 2)) ≤ max 0 (1 - (ofV t).norm2) + vertErr := by
    rcases le_total 0 (-(((ofV t).norm2 + 1 - val M - vertErr) / 2)) with h | h
    · rw [max_eq_right h]
      have := le_max_right 0 (1 - (ofV t).norm2)
      linarith
    · rw [max_eq_left h]
      have := le_max_left 0 (1 - (ofV t).norm2)
      linarith
  linarith

/-! ### (M2) the antipodal branch -/

theorem edgeReal_nonneg (a u y w : ℝ) : 0 ≤ edgeReal a u y w := by unfold edgeReal; positivity

/-- `Distance` is (almost) non-negative -/
theorem distUVW_ge {eE : ℝ} (HE : EdgeSpec eE) {c : Cell} {t : V3} (X : Ctx c t) :
    -(eE + 27 * uR) ≤ val (distUVW c t) := by
  have h0 : 0 ≤ eE + 27 * uR := by
    obtain ⟨_, er⟩ := X.edgeL_val HE
    exact le_trans (abs_nonneg _) er
  unfold distUVW
  simp only
  split
  · obtain ⟨_, er⟩ := X.edgeL_val HE
    have := (abs_le.1 er).1
    have := edgeReal_nonneg (-(sL (rectOf c) (ofV t))) (rectOf c).u0 (ofV t).y ((rectOf c).u0 * (ofV t).x + (ofV t).z)
    linarith
  split
  · obtain ⟨_, er⟩ := X.edgeR_val HE
    have := (abs_le.1 er).1
    have := edgeReal_nonneg (sR (rectOf c) (ofV t)) (rectOf c).u1 (ofV t).y ((rectOf c).u1 * (ofV t).x + (ofV t).z)
    linarith
  split
  · obtain ⟨_, er⟩ := X.edgeB_val HE
    have := (abs_le.1 er).1
    have := edgeReal_nonneg (-(sB (rectOf c) (ofV t))) (rectOf c).v0 (ofV t).x ((rectOf c).v0 * (ofV t).y + (ofV t).z)
    linarith
  split
  · obtain ⟨_, er⟩ := X.edgeT_val HE
    have := (abs_le.1 er).1
    have := edgeReal_nonneg (sT (rectOf c) (ofV t)) (rectOf c).v1 (ofV t).x ((rectOf c).v1 * (ofV t).y + (ofV t).z)
    linarith
  split
  · rw [val_fzero]; linarith
  · obtain ⟨f00, n00, _, _⟩ := X.vertex_val false false
    obtain ⟨f10, n10, _, _⟩ := X.vertex_val true false
    obtain ⟨f01, n01, _, _⟩ := X.vertex_val false true
    obtain ⟨f11, n11, _, _⟩ := X.vertex_val true true
    obtain ⟨hmem, _⟩ := minChord4 _ _ _ _ f00 f10 f01 f11
    rcases hmem with h | h | h | h <;> rw [h] <;> linarith

theorem dist2_neg_add (T q : R3) : dist2 T q + dist2 (R3.neg T) q = 2 * T.norm2 + 2 * q.norm2 := by
  unfold dist2 R3.sub R3.neg R3.norm2; ring

/-- the value `4 − Distance(−p)` of the second branch of `MaxDistance` -/
theorem antipodal_upper {eE C : ℝ} (HE : EdgeSpec eE) (HR : RobustCover C) {c : Cell} {t t' : V3}
    (X : Ctx c t) (X' : Ctx c t') (hneg : ofV t' = R3.neg (ofV t)) (bl : 1 / 2 ≤ (ofV t).norm2)
    (hlow : lowErr eE C ≤ 1 / 2) (q : R3) (hq : InCell (rectOf c) q) :
    Fin (F64.four - distUVW c t') ∧
    dist2 (ofV t) q ≤ val (F64.four - distUVW c t') + lowErr eE C + 6 * uR + 2 * max 0 ((ofV t).norm2 - 1) := by
  have H := stdModel
  have hu := uR_nonneg
  have hn2 : (ofV t').norm2 = (ofV t).norm2 := by rw [hneg]; unfold R3.neg R3.norm2; ring
  obtain ⟨fD, hD⟩ := distUVW_lower HE HR X' (by rw [hn2]; exact bl) q hq
  have hge := distUVW_ge HE X'
  have hsum := dist2_neg_add (ofV t) q
  rw [← hneg, hq.1] at hsum
  have hd0 : 0 ≤ dist2 (ofV t) q := by unfold dist2; exact R3.norm2_nonneg _
  have hbn := X.bn
  have le1 : eE + 30 * uR ≤ lowErr eE C := le_max_left _ _
  have hc : (1 : ℝ) / 2 ^ 21 ≤ 1 / 100 := by norm_num
  have hDlo : -1 ≤ val (distUVW c t') := by linarith
  have hDhi : val (distUVW c t') ≤ 5 := by linarith
  have m : |val F64.four - val (distUVW c t')| ≤ 6 := by
    rw [VertexErr.val_four, abs_le]; constructor <;> linarith
  obtain ⟨fr, rr, _⟩ := sub_step H VertexErr.fin_four fD m (by norm_num)
  unfold Rnd at rr
  rw [VertexErr.val_four] at rr m
  refine ⟨fr, ?_⟩
  have h1 := (abs_le.1 rr).1
  have h2 : uR * |4 - val (distUVW c t')| ≤ uR * 6 := mul_le_mul_of_nonneg_left m hu
  have h3 := le_max_right 0 ((ofV t).norm2 - 1)
  linarith

end S2Proofs.C12Dist
