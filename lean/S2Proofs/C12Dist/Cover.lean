/-
  C12Dist.Cover — the exact covering theorem of the vertex branch of `Cell.distanceInternal` (pure real geometry).

  `vertex_cover`: when the four exact edge tests and the exact `inside` test all fail for a target `t ∈ ℝ³`, every
  point `q` of the cell satisfies `t·q ≤ max_k t·V̂_k` (the closest point of the cell is one of its four vertices).

  Proof.  `f(a,b) = t·V̂(a,b) = (t.x·a + t.y·b + t.z)/√(1+a²+b²)` has a maximiser `(a*,b*)` on the compact rectangle
  (`exists_max`).  If the maximum is ≤ 0, all four `t·V̂_k` are ≤ 0 and the claim follows from `cell_combination`
  (coefficients ≥ 0 with sum ≥ 1).  Otherwise `τ* = t·(a*,b*,1) > 0` and the first-order conditions in the four axis
  directions (`fo_dir`, derivative-free: a polynomial inequality along a segment, `first_order`) give the signs of
    `ex = N*·t.x − τ*·a*`,  `ey = N*·t.y − τ*·b*`   (N*·(t − m q*) = (ex, ey, −ex·a* − ey·b*)).
  `ex = ey = 0` means `t ∥ q*`: `ExInside`.  `a*` in the open interval and `b* = v0`: `ex = 0`, `ey < 0`: `ExB`; etc.
  (`edge_u`, `edge_v`).  So `(a*,b*)` is a corner (`corner`), and `t·q ≤ f(a*,b*) = t·V̂_k`.
-/
import S2Proofs.C12Dist.CoverBasics
import Mathlib.Topology.Order.Compact
import Mathlib.Topology.Instances.Real.Lemmas

namespace S2Proofs.C12Dist
open S2Proofs.C16Acc

namespace Cover

/-! ### derivative-free first-order condition -/

/-- if `(τ + sδ)²·N ≤ τ²·(N + 2sν + s²ρ)` for all small `s > 0` (with `τ + sδ ≥ 0`) then `δN − τν ≤ 0` -/
theorem first_order {τ N δ ν ρ s0 : ℝ} (hτ : 0 < τ) (hN : 0 ≤ N) (hs0 : 0 < s0)
    (h : ∀ s, 0 < s → s ≤ s0 → 0 ≤ τ + s * δ → (τ + s * δ) ^ 2 * N ≤ τ ^ 2 * (N + 2 * s * ν + s ^ 2 * ρ)) :
    δ * N - τ * ν ≤ 0 := by
  by_contra hE
  have hE := not_le.mp hE
  have hd : 0 < |δ| + 1 := by positivity
  have hr : 0 < τ * (|ρ| + 1) := by positivity
  obtain ⟨s, hs, hs1, hs2, hs3⟩ : ∃ s, 0 < s ∧ s ≤ s0 ∧ s ≤ τ / (|δ| + 1) ∧ s ≤ (δ * N - τ * ν) / (τ * (|ρ| + 1)) :=
    ⟨min s0 (min (τ / (|δ| + 1)) ((δ * N - τ * ν) / (τ * (|ρ| + 1)))),
      lt_min hs0 (lt_min (div_pos hτ hd) (div_pos hE hr)), min_le_left _ _,
      le_trans (min_le_right _ _) (min_le_left _ _), le_trans (min_le_right _ _) (min_le_right _ _)⟩
  rw [le_div_iff₀ hd] at hs2
  rw [le_div_iff₀ hr] at hs3
  have hsd : -(s * |δ|) ≤ s * δ := by
    have := mul_le_mul_of_nonneg_left (neg_abs_le δ) hs.le
    linarith
  have hpos : 0 ≤ τ + s * δ := by nlinarith
  have h1 := h s hs hs1 hpos
  have key : s * (2 * τ * (δ * N - τ * ν) + s * δ ^ 2 * N - s * τ ^ 2 * ρ) ≤ 0 := by
    have e : s * (2 * τ * (δ * N - τ * ν) + s * δ ^ 2 * N - s * τ ^ 2 * ρ)
        = (τ + s * δ) ^ 2 * N - τ ^ 2 * (N + 2 * s * ν + s ^ 2 * ρ) := by ring
    rw [e]; linarith
  have key2 : 2 * τ * (δ * N - τ * ν) + s * δ ^ 2 * N - s * τ ^ 2 * ρ ≤ 0 := by
    by_contra hc
    have hc := not_le.mp hc
    have := mul_pos hs hc
    linarith
  -- s τ² ρ ≤ τ · (s τ (|ρ|+1)) ≤ τ E
  have h3 : s * τ ^ 2 * ρ ≤ τ * (δ * N - τ * ν) := by
    have a1 : s * τ ^ 2 * ρ ≤ s * τ ^ 2 * (|ρ| + 1) := by
      apply mul_le_mul_of_nonneg_left _ (by positivity)
      linarith [le_abs_self ρ]
    have a2 := mul_le_mul_of_nonneg_left hs3 hτ.le
    calc s * τ ^ 2 * ρ ≤ s * τ ^ 2 * (|ρ| + 1) := a1
      _ = τ * (s * (τ * (|ρ| + 1))) := by ring
      _ ≤ τ * (δ * N - τ * ν) := a2
  have h4 : 0 ≤ s * δ ^ 2 * N := by positivity
  have hE' := mul_pos hτ hE
  linarith

/-- `τ/√N ≤ τ'/√N'` with `τ ≥ 0` in polynomial form -/
theorem sq_of_div_le {τ N τ' N' : ℝ} (hN : 0 < N) (hN' : 0 < N') (hτ : 0 ≤ τ)
    (h : τ / Real.sqrt N ≤ τ' / Real.sqrt N') : τ ^ 2 * N' ≤ τ' ^ 2 * N := by
  have h0 : 0 ≤ τ / Real.sqrt N := div_nonneg hτ (Real.sqrt_nonneg _)
  have hsq := pow_le_pow_left₀ h0 h 2
  rw [div_pow, div_pow, Real.sq_sqrt hN.le, Real.sq_sqrt hN'.le, div_le_div_iff₀ hN hN'] at hsq
  exact hsq

/-- `t · (a, b, 1)` -/
def tau (t : R3) (a b : ℝ) : ℝ := t.x * a + t.y * b + t.z
/-- `N·t.x − τ·a`: `N` times the x-component of `t − (t·q)q`, `q = V̂(a,b)` -/
def ex (t : R3) (a b : ℝ) : ℝ := nn a b * t.x - tau t a b * a
/-- `N·t.y − τ·b` -/
def ey (t : R3) (a b : ℝ) : ℝ := nn a b * t.y - tau t a b * b

theorem dot_vhat_tau (t : R3) (a b : ℝ) : R3.dot t (vhat a b) = tau t a b / Real.sqrt (nn a b) := dot_vhat t a b

/-- first-order condition at a point `(a,b)` that maximises `t·V̂` along the segment `(a,b) + s·(da,db)`, `0 < s ≤ s0` -/
theorem fo_dir (t : R3) (a b da db s0 : ℝ) (hs0 : 0 < s0) (hτ : 0 < tau t a b)
    (hmax : ∀ s, 0 < s → s ≤ s0 → R3.dot t (vhat (a + s * da) (b + s * db)) ≤ R3.dot t (vhat a b)) :
    (t.x * da + t.y * db) * nn a b - tau t a b * (a * da + b * db) ≤ 0 := by
  apply first_order (ρ := da ^ 2 + db ^ 2) hτ (nn_pos a b).le hs0
  intro s hs hs' hpos
  have h1 := hmax s hs hs'
  rw [dot_vhat_tau, dot_vhat_tau] at h1
  have e1 : tau t (a + s * da) (b + s * db) = tau t a b + s * (t.x * da + t.y * db) := by unfold tau; ring
  have e2 : nn (a + s * da) (b + s * db) = nn a b + 2 * s * (a * da + b * db) + s ^ 2 * (da ^ 2 + db ^ 2) := by
    unfold nn; ring
  have h2 := sq_of_div_le (nn_pos _ _) (nn_pos a b) (by rw [e1]; exact hpos) h1
  rw [e1, e2] at h2
  exact h2

/-! ### existence of a maximiser -/

theorem exists_max (r : RRect) (hr : r.OK) (t : R3) :
    ∃ a b : ℝ, (r.u0 ≤ a ∧ a ≤ r.u1) ∧ (r.v0 ≤ b ∧ b ≤ r.v1) ∧
      ∀ a' b' : ℝ, (r.u0 ≤ a' ∧ a' ≤ r.u1) → (r.v0 ≤ b' ∧ b' ≤ r.v1) →
        R3.dot t (vhat a' b') ≤ R3.dot t (vhat a b) := by
  have hc : IsCompact (Set.Icc r.u0 r.u1 ×ˢ Set.Icc r.v0 r.v1) := isCompact_Icc.prod isCompact_Icc
  have hne : (Set.Icc r.u0 r.u1 ×ˢ Set.Icc r.v0 r.v1).Nonempty :=
    ⟨(r.u0, r.v0), ⟨⟨le_refl _, hr.u_lt.le⟩, ⟨le_refl _, hr.v_lt.le⟩⟩⟩
  have hcont : Continuous (fun p : ℝ × ℝ => R3.dot t (vhat p.1 p.2)) := by
    have e : (fun p : ℝ × ℝ => R3.dot t (vhat p.1 p.2))
        = fun p : ℝ × ℝ => (t.x * p.1 + t.y * p.2 + t.z) / Real.sqrt (1 + p.1 ^ 2 + p.2 ^ 2) := by
      funext p; rw [dot_vhat]; rfl
    rw [e]
    exact Continuous.div (by fun_prop) (by fun_prop) (fun p => (sqrt_nn_pos p.1 p.2).ne')
  obtain ⟨p, hp, hmax⟩ := hc.exists_isMaxOn hne hcont.continuousOn
  refine ⟨p.1, p.2, hp.1, hp.2, fun a' b' ha' hb' => ?_⟩
  exact isMaxOn_iff.mp hmax (a', b') ⟨ha', hb'⟩

/-! ### the algebra of the first-order conditions -/

theorem id_sx (t : R3) (a b u : ℝ) :
    nn a b * (t.x - t.z * u) = tau t a b * (a - u) + ex t a b * (1 + a * u) + ey t a b * (b * u) := by
  unfold ex ey tau nn; ring

theorem id_sy (t : R3) (a b v : ℝ) :
    nn a b * (t.y - t.z * v) = tau t a b * (b - v) + ey t a b * (1 + b * v) + ex t a b * (a * v) := by
  unfold ex ey tau nn; ring

/-- on the line `u = a`: the tangential quantity only sees `τ·(b − v)` and `ey` -/
theorem id_vTan (t : R3) (a b v : ℝ) :
    nn a b * vTan a v t = (1 + a ^ 2) * tau t a b * (b - v) + ey t a b * (1 + a ^ 2 + b * v) := by
  unfold vTan ey tau nn; ring

theorem id_uTan (t : R3) (a b u : ℝ) :
    nn a b * uTan b u t = (1 + b ^ 2) * tau t a b * (a - u) + ex t a b * (1 + b ^ 2 + a * u) := by
  unfold uTan ex tau nn; ring

theorem pos_of_nn_mul {a b x : ℝ} (h : 0 < nn a b * x) : 0 < x := by
  by_contra hc
  have hc := not_lt.mp hc
  have := mul_nonpos_of_nonneg_of_nonpos (nn_pos a b).le hc
  linarith

theorem neg_of_nn_mul {a b x : ℝ} (h : nn a b * x < 0) : x < 0 := by
  by_contra hc
  have hc := not_lt.mp hc
  have := mul_nonneg (nn_pos a b).le hc
  linarith

theorem nonneg_of_nn_mul {a b x : ℝ} (h : 0 ≤ nn a b * x) : 0 ≤ x := by
  by_contra hc
  have hc := not_le.mp hc
  have := mul_neg_of_pos_of_neg (nn_pos a b) hc
  linarith

theorem nonpos_of_nn_mul {a b x : ℝ} (h : nn a b * x ≤ 0) : x ≤ 0 := by
  by_contra hc
  have hc := not_le.mp hc
  have := mul_pos (nn_pos a b) hc
  linarith

/-- `t` parallel to `(a,b,1)` (positive multiple), `(a,b)` in the rectangle: the `inside` test holds -/
theorem inside_of_zero (r : RRect) (t : R3) (a b : ℝ) (ha : r.u0 ≤ a ∧ a ≤ r.u1) (hb : r.v0 ≤ b ∧ b ≤ r.v1)
    (hτ : 0 < tau t a b) (hx : ex t a b = 0) (hy : ey t a b = 0) : ExInside r t := by
  unfold ExInside sL sR sB sT
  have h1 := id_sx t a b r.u0
  have h2 := id_sx t a b r.u1
  have h3 := id_sy t a b r.v0
  have h4 := id_sy t a b r.v1
  rw [hx, hy] at h1 h2 h3 h4
  refine ⟨nonneg_of_nn_mul (a := a) (b := b) ?_, nonpos_of_nn_mul (a := a) (b := b) ?_,
    nonneg_of_nn_mul (a := a) (b := b) ?_, nonpos_of_nn_mul (a := a) (b := b) ?_⟩
  · rw [h1]; nlinarith [mul_nonneg hτ.le (sub_nonneg.mpr ha.1)]
  · rw [h2]; nlinarith [mul_nonneg hτ.le (sub_nonneg.mpr ha.2)]
  · rw [h3]; nlinarith [mul_nonneg hτ.le (sub_nonneg.mpr hb.1)]
  · rw [h4]; nlinarith [mul_nonneg hτ.le (sub_nonneg.mpr hb.2)]

/-- maximiser in the relative interior of an edge `u = a`: signs of the three quantities of the edge test -/
theorem edge_u (t : R3) (a b v0 v1 : ℝ) (hv0 : v0 < b) (hv1 : b < v1) (hτ : 0 < tau t a b) (hy : ey t a b = 0) :
    (ex t a b < 0 → t.x - t.z * a < 0) ∧ (0 < ex t a b → 0 < t.x - t.z * a) ∧ 0 < vTan a v0 t ∧ vTan a v1 t < 0 := by
  have h1 := id_sx t a b a
  have h2 := id_vTan t a b v0
  have h3 := id_vTan t a b v1
  rw [hy] at h1 h2 h3
  have ha : 0 < 1 + a ^ 2 := by positivity
  have e1 : nn a b * (t.x - t.z * a) = ex t a b * (1 + a ^ 2) := by rw [h1]; ring
  refine ⟨fun h => neg_of_nn_mul (a := a) (b := b) ?_, fun h => pos_of_nn_mul (a := a) (b := b) ?_,
    pos_of_nn_mul (a := a) (b := b) ?_, neg_of_nn_mul (a := a) (b := b) ?_⟩
  · rw [e1]; exact mul_neg_of_neg_of_pos h ha
  · rw [e1]; exact mul_pos h ha
  · rw [h2]
    have := mul_pos (mul_pos ha hτ) (sub_pos.mpr hv0)
    linarith
  · rw [h3]
    have := mul_neg_of_pos_of_neg (mul_pos ha hτ) (sub_neg.mpr hv1)
    linarith

/-- maximiser in the relative interior of an edge `v = b` -/
theorem edge_v (t : R3) (a b u0 u1 : ℝ) (hu0 : u0 < a) (hu1 : a < u1) (hτ : 0 < tau t a b) (hx : ex t a b = 0) :
    (ey t a b < 0 → t.y - t.z * b < 0) ∧ (0 < ey t a b → 0 < t.y - t.z * b) ∧ 0 < uTan b u0 t ∧ uTan b u1 t < 0 := by
  have h1 := id_sy t a b b
  have h2 := id_uTan t a b u0
  have h3 := id_uTan t a b u1
  rw [hx] at h1 h2 h3
  have hb : 0 < 1 + b ^ 2 := by positivity
  have e1 : nn a b * (t.y - t.z * b) = ey t a b * (1 + b ^ 2) := by rw [h1]; ring
  refine ⟨fun h => neg_of_nn_mul (a := a) (b := b) ?_, fun h => pos_of_nn_mul (a := a) (b := b) ?_,
    pos_of_nn_mul (a := a) (b := b) ?_, neg_of_nn_mul (a := a) (b := b) ?_⟩
  · rw [e1]; exact mul_neg_of_neg_of_pos h hb
  · rw [e1]; exact mul_pos h hb
  · rw [h2]
    have := mul_pos (mul_pos hb hτ) (sub_pos.mpr hu0)
    linarith
  · rw [h3]
    have := mul_neg_of_pos_of_neg (mul_pos hb hτ) (sub_neg.mpr hu1)
    linarith

/-- a positive maximiser satisfying the first-order conditions is a corner when all five exact tests fail -/
theorem corner (r : RRect) (hr : r.OK) (t : R3) (a b : ℝ) (ha : r.u0 ≤ a ∧ a ≤ r.u1) (hb : r.v0 ≤ b ∧ b ≤ r.v1)
    (hτ : 0 < tau t a b)
    (c1 : a < r.u1 → ex t a b ≤ 0) (c2 : r.u0 < a → 0 ≤ ex t a b)
    (c3 : b < r.v1 → ey t a b ≤ 0) (c4 : r.v0 < b → 0 ≤ ey t a b)
    (hI : ¬ ExInside r t) (hL : ¬ ExL r t) (hR : ¬ ExR r t) (hB : ¬ ExB r t) (hT : ¬ ExT r t) :
    (a = r.u0 ∨ a = r.u1) ∧ (b = r.v0 ∨ b = r.v1) := by
  have hxy : ex t a b = 0 → ey t a b = 0 → False := fun hx hy => hI (inside_of_zero r t a b ha hb hτ hx hy)
  have hu := hr.u_lt
  have hv := hr.v_lt
  have hA : a = r.u0 ∨ a = r.u1 ∨ (r.u0 < a ∧ a < r.u1) := by
    rcases ha.1.eq_or_lt with h0 | h0
    · exact Or.inl h0.symm
    · rcases ha.2.eq_or_lt with h1 | h1
      · exact Or.inr (Or.inl h1)
      · exact Or.inr (Or.inr ⟨h0, h1⟩)
  have hB' : b = r.v0 ∨ b = r.v1 ∨ (r.v0 < b ∧ b < r.v1) := by
    rcases hb.1.eq_or_lt with h0 | h0
    · exact Or.inl h0.symm
    · rcases hb.2.eq_or_lt with h1 | h1
      · exact Or.inr (Or.inl h1)
      · exact Or.inr (Or.inr ⟨h0, h1⟩)
  rcases hA with hA | hA | ⟨ha0, ha1⟩ <;> rcases hB' with hB' | hB' | ⟨hb0, hb1⟩
  · exact ⟨Or.inl hA, Or.inl hB'⟩
  · exact ⟨Or.inl hA, Or.inr hB'⟩
  · -- a = u0, v0 < b < v1
    exfalso
    have hy : ey t a b = 0 := le_antisymm (c3 hb1) (c4 hb0)
    have hx : ex t a b ≤ 0 := c1 (by rw [hA]; exact hu)
    have hx' : ex t a b < 0 := lt_of_le_of_ne hx (fun h => hxy h hy)
    obtain ⟨e1, -, e3, e4⟩ := edge_u t a b r.v0 r.v1 hb0 hb1 hτ hy
    apply hL
    unfold ExL sL
    rw [← hA]
    exact ⟨e1 hx', e3, e4⟩
  · exact ⟨Or.inr hA, Or.inl hB'⟩
  · exact ⟨Or.inr hA, Or.inr hB'⟩
  · -- a = u1, v0 < b < v1
    exfalso
    have hy : ey t a b = 0 := le_antisymm (c3 hb1) (c4 hb0)
    have hx : 0 ≤ ex t a b := c2 (by rw [hA]; exact hu)
    have hx' : 0 < ex t a b := lt_of_le_of_ne hx (fun h => hxy h.symm hy)
    obtain ⟨-, e2, e3, e4⟩ := edge_u t a b r.v0 r.v1 hb0 hb1 hτ hy
    apply hR
    unfold ExR sR
    rw [← hA]
    exact ⟨e2 hx', e3, e4⟩
  · -- u0 < a < u1, b = v0
    exfalso
    have hx : ex t a b = 0 := le_antisymm (c1 ha1) (c2 ha0)
    have hy : ey t a b ≤ 0 := c3 (by rw [hB']; exact hv)
    have hy' : ey t a b < 0 := lt_of_le_of_ne hy (fun h => hxy hx h)
    obtain ⟨e1, -, e3, e4⟩ := edge_v t a b r.u0 r.u1 ha0 ha1 hτ hx
    apply hB
    unfold ExB sB
    rw [← hB']
    exact ⟨e1 hy', e3, e4⟩
  · -- u0 < a < u1, b = v1
    exfalso
    have hx : ex t a b = 0 := le_antisymm (c1 ha1) (c2 ha0)
    have hy : 0 ≤ ey t a b := c4 (by rw [hB']; exact hv)
    have hy' : 0 < ey t a b := lt_of_le_of_ne hy (fun h => hxy hx h.symm)
    obtain ⟨-, e2, e3, e4⟩ := edge_v t a b r.u0 r.u1 ha0 ha1 hτ hx
    apply hT
    unfold ExT sT
    rw [← hB']
    exact ⟨e2 hy', e3, e4⟩
  · -- both in the open intervals
    exfalso
    exact hxy (le_antisymm (c1 ha1) (c2 ha0)) (le_antisymm (c3 hb1) (c4 hb0))

end Cover

open Cover

/-- **the covering theorem of the vertex branch**: if none of the five exact tests of `distanceInternal` holds for the
    target `t`, then no point of the cell is closer to `t` than the closest of the four vertices -/
theorem vertex_cover (r : RRect) (hr : r.OK) (t q : R3) (hq : InCell r q)
    (hI : ¬ ExInside r t) (hL : ¬ ExL r t) (hR : ¬ ExR r t) (hB : ¬ ExB r t) (hT : ¬ ExT r t) :
    R3.dot t q ≤ maxVertexDot r t := by
  obtain ⟨hqe, ha0, ha1, hb0, hb1⟩ := cell_eq_vhat r q hq
  obtain ⟨a, b, ha, hb, hmax⟩ := exists_max r hr t
  have hle : R3.dot t q ≤ R3.dot t (vhat a b) := by
    have := hmax _ _ ⟨ha0, ha1⟩ ⟨hb0, hb1⟩
    rwa [← hqe] at this
  have hu0 : r.u0 ≤ r.u0 ∧ r.u0 ≤ r.u1 := ⟨le_refl _, hr.u_lt.le⟩
  have hu1 : r.u0 ≤ r.u1 ∧ r.u1 ≤ r.u1 := ⟨hr.u_lt.le, le_refl _⟩
  have hv0 : r.v0 ≤ r.v0 ∧ r.v0 ≤ r.v1 := ⟨le_refl _, hr.v_lt.le⟩
  have hv1 : r.v0 ≤ r.v1 ∧ r.v1 ≤ r.v1 := ⟨hr.v_lt.le, le_refl _⟩
  have d00 : R3.dot t (vhat r.u0 r.v0) ≤ maxVertexDot r t := le_max_of_le_left (le_max_left _ _)
  have d10 : R3.dot t (vhat r.u1 r.v0) ≤ maxVertexDot r t := le_max_of_le_left (le_max_right _ _)
  have d01 : R3.dot t (vhat r.u0 r.v1) ≤ maxVertexDot r t := le_max_of_le_right (le_max_left _ _)
  have d11 : R3.dot t (vhat r.u1 r.v1) ≤ maxVertexDot r t := le_max_of_le_right (le_max_right _ _)
  by_cases hm : R3.dot t (vhat a b) ≤ 0
  · -- `t` in the polar cone: all `t·V̂_k ≤ 0`
    have hM : maxVertexDot r t ≤ 0 := by
      unfold maxVertexDot
      exact max_le (max_le ((hmax _ _ hu0 hv0).trans hm) ((hmax _ _ hu1 hv0).trans hm))
        (max_le ((hmax _ _ hu0 hv1).trans hm) ((hmax _ _ hu1 hv1).trans hm))
    obtain ⟨c00, c10, c01, c11, p00, p10, p01, p11, hs, -, hdec⟩ := cell_combination r hr q hq
    rw [hdec t]
    have e00 := mul_le_mul_of_nonneg_left d00 p00
    have e10 := mul_le_mul_of_nonneg_left d10 p10
    have e01 := mul_le_mul_of_nonneg_left d01 p01
    have e11 := mul_le_mul_of_nonneg_left d11 p11
    have e : (c00 + c10 + c01 + c11 - 1) * maxVertexDot r t ≤ 0 :=
      mul_nonpos_of_nonneg_of_nonpos (by linarith) hM
    nlinarith
  · have hm := not_le.mp hm
    have hτ : 0 < tau t a b := by
      have h1 := dot_raw t a b
      unfold tau
      rw [h1]
      exact mul_pos (sqrt_nn_pos a b) hm
    have c1 : a < r.u1 → ex t a b ≤ 0 := by
      intro h
      have := fo_dir t a b 1 0 (r.u1 - a) (by linarith) hτ (fun s hs hs' =>
        hmax (a + s * 1) (b + s * 0) ⟨by linarith [ha.1], by linarith⟩ ⟨by linarith [hb.1], by linarith [hb.2]⟩)
      have e : ex t a b = (t.x * 1 + t.y * 0) * nn a b - tau t a b * (a * 1 + b * 0) := by unfold ex; ring
      rw [e]; exact this
    have c2 : r.u0 < a → 0 ≤ ex t a b := by
      intro h
      have := fo_dir t a b (-1) 0 (a - r.u0) (by linarith) hτ (fun s hs hs' =>
        hmax (a + s * (-1)) (b + s * 0) ⟨by linarith, by linarith [ha.2]⟩ ⟨by linarith [hb.1], by linarith [hb.2]⟩)
      have e : -ex t a b = (t.x * (-1) + t.y * 0) * nn a b - tau t a b * (a * (-1) + b * 0) := by unfold ex; ring
      rw [← e] at this; linarith
    have c3 : b < r.v1 → ey t a b ≤ 0 := by
      intro h
      have := fo_dir t a b 0 1 (r.v1 - b) (by linarith) hτ (fun s hs hs' =>
        hmax (a + s * 0) (b + s * 1) ⟨by linarith [ha.1], by linarith [ha.2]⟩ ⟨by linarith [hb.1], by linarith⟩)
      have e : ey t a b = (t.x * 0 + t.y * 1) * nn a b - tau t a b * (a * 0 + b * 1) := by unfold ey; ring
      rw [e]; exact this
    have c4 : r.v0 < b → 0 ≤ ey t a b := by
      intro h
      have := fo_dir t a b 0 (-1) (b - r.v0) (by linarith) hτ (fun s hs hs' =>
        hmax (a + s * 0) (b + s * (-1)) ⟨by linarith [ha.1], by linarith [ha.2]⟩ ⟨by linarith, by linarith [hb.2]⟩)
      have e : -ey t a b = (t.x * 0 + t.y * (-1)) * nn a b - tau t a b * (a * 0 + b * (-1)) := by unfold ey; ring
      rw [← e] at this; linarith
    obtain ⟨hca, hcb⟩ := corner r hr t a b ha hb hτ c1 c2 c3 c4 hI hL hR hB hT
    rcases hca with hca | hca <;> rcases hcb with hcb | hcb <;> rw [hca, hcb] at hle
    · exact hle.trans d00
    · exact hle.trans d01
    · exact hle.trans d10
    · exact hle.trans d11

/-- non-vacuity: the level-0 rectangle `[-1,1]²` and the target `(-2,-2,1)` (beyond the vertex `(-1,-1,1)`) satisfy all
    hypotheses of `vertex_cover` -/
example : ∃ (r : RRect) (t q : R3), r.OK ∧ InCell r q ∧ ¬ ExInside r t ∧ ¬ ExL r t ∧ ¬ ExR r t ∧ ¬ ExB r t ∧ ¬ ExT r t := by
  have hr : (⟨-1, 1, -1, 1⟩ : RRect).OK := ⟨by norm_num, by norm_num, by norm_num, by norm_num, by norm_num, by norm_num⟩
  refine ⟨⟨-1, 1, -1, 1⟩, ⟨-2, -2, 1⟩, vhat 0 0, hr, vhat_inCell _ hr 0 0 (by norm_num) (by norm_num), ?_, ?_, ?_, ?_, ?_⟩
  · unfold ExInside sL; norm_num
  · unfold ExL sL vTan; norm_num
  · unfold ExR sR; norm_num
  · unfold ExB sB uTan; norm_num
  · unfold ExT sT; norm_num

end S2Proofs.C12Dist
