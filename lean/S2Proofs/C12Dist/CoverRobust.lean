/-
  C12Dist.CoverRobust — the ε-robust covering theorem of the vertex branch (pure real geometry).
-/
import S2Proofs.C12Dist.Cover

namespace S2Proofs.C12Dist
open S2Proofs.C16Acc

namespace Cover

/-! ### the gap between the maximum and a vertex -/

/-- `N·(t·(u,v,1)) = τ·(1+au+bv) + ex·(u−a) + ey·(v−b)` -/
theorem id_tau (t : R3) (a b u v : ℝ) :
    nn a b * tau t u v = tau t a b * (1 + a * u + b * v) + (ex t a b * (u - a) + ey t a b * (v - b)) := by
  unfold ex ey tau nn; ring

/-- `N²·|t|² = N·τ² + ex² + ey² + (ex·a + ey·b)²` -/
theorem id_norm (t : R3) (a b : ℝ) :
    nn a b ^ 2 * t.norm2 = nn a b * tau t a b ^ 2 + ex t a b ^ 2 + ey t a b ^ 2
      + (ex t a b * a + ey t a b * b) ^ 2 := by
  unfold ex ey tau nn R3.norm2; ring

/-- if `k°·(u,v,1) ≤ 0`-part vanishes (or helps) and `τ·D ≤ K·N`, `D = |(a,b,1)×(u,v,1)|²`, then `t·V̂(a,b) ≤ t·V̂(u,v) + K` -/
theorem fin_le (t : R3) (a b u v K : ℝ) (hτ : 0 < tau t a b) (hK : 0 ≤ K)
    (hk : 0 ≤ ex t a b * (u - a) + ey t a b * (v - b)) (hc : 0 ≤ 1 + a * u + b * v)
    (hD : tau t a b * ((a - u) ^ 2 + (b - v) ^ 2 + (a * v - b * u) ^ 2) ≤ K * nn a b) :
    R3.dot t (vhat a b) ≤ R3.dot t (vhat u v) + K := by
  rw [dot_vhat_tau, dot_vhat_tau]
  have hs2 : Real.sqrt (nn a b) ^ 2 = nn a b := Real.sq_sqrt (nn_pos a b).le
  have hs'2 : Real.sqrt (nn u v) ^ 2 = nn u v := Real.sq_sqrt (nn_pos u v).le
  have hs1 := one_le_sqrt_nn a b
  have hs'1 := one_le_sqrt_nn u v
  have hsp := sqrt_nn_pos a b
  have hs'p := sqrt_nn_pos u v
  have hN := nn_pos a b
  generalize Real.sqrt (nn a b) = s at *
  generalize Real.sqrt (nn u v) = s' at *
  have idT := id_tau t a b u v
  generalize tau t u v = T' at *
  generalize tau t a b = τ at *
  generalize ex t a b * (u - a) + ey t a b * (v - b) = kk at *
  have hL : nn a b * nn u v = (1 + a * u + b * v) ^ 2 + ((a - u) ^ 2 + (b - v) ^ 2 + (a * v - b * u) ^ 2) := by
    unfold nn; ring
  have hD0 : 0 ≤ (a - u) ^ 2 + (b - v) ^ 2 + (a * v - b * u) ^ 2 := by positivity
  generalize (a - u) ^ 2 + (b - v) ^ 2 + (a * v - b * u) ^ 2 = D at *
  generalize 1 + a * u + b * v = c at *
  generalize nn a b = N at *
  generalize nn u v = N' at *
  have hP2 : (s * s') ^ 2 = c ^ 2 + D := by rw [mul_pow, hs2, hs'2, hL]
  have hP1 : 1 ≤ s * s' := one_le_mul_of_one_le_of_one_le hs1 hs'1
  have hPc : c ≤ s * s' := by
    by_contra h
    have h := not_le.mp h
    nlinarith
  have hPD : s * s' - c ≤ D := by
    have := mul_le_mul_of_nonneg_left (by linarith : (1 : ℝ) ≤ s * s' + c) (sub_nonneg.mpr hPc)
    nlinarith
  have h1 : τ * (s * s' - c) ≤ τ * D := mul_le_mul_of_nonneg_left hPD hτ.le
  have h2 : K * N ≤ K * N * s' := by
    have := mul_le_mul_of_nonneg_left hs'1 (mul_nonneg hK hN.le)
    linarith
  have main : τ * s' * s ≤ N * T' + K * N * s' := by
    have e : τ * s' * s = τ * c + τ * (s * s' - c) := by ring
    rw [e, idT]; linarith
  have e2 : T' / s' + K = (T' + K * s') / s' := by field_simp
  rw [e2, div_le_div_iff₀ hsp hs'p]
  by_contra h
  have h := not_le.mp h
  have h3 := mul_lt_mul_of_pos_right h hsp
  have e3 : (T' + K * s') * s * s = N * T' + K * N * s' := by
    have : (T' + K * s') * s * s = (T' + K * s') * s ^ 2 := by ring
    rw [this, hs2]; ring
  rw [e3] at h3
  linarith

/-- a maximiser within `8ε/τ` of a corner (in both coordinates): the cross-product term is `O(ε²)` -/
theorem near_corner (τ a b u v ε : ℝ) (hτ : 1 / 2 ≤ τ) (h0 : 0 ≤ ε) (hε : ε ≤ 1 / 2 ^ 40)
    (hx : (τ * (a - u)) ^ 2 ≤ (8 * ε) ^ 2) (hy : (τ * (b - v)) ^ 2 ≤ (8 * ε) ^ 2) (hu : u ^ 2 ≤ 1) (hv : v ^ 2 ≤ 1) :
    0 ≤ 1 + a * u + b * v ∧ τ * ((a - u) ^ 2 + (b - v) ^ 2 + (a * v - b * u) ^ 2) ≤ 2 * ε := by
  have hee : ε * ε ≤ ε * (1 / 2 ^ 40) := mul_le_mul_of_nonneg_left hε h0
  have h64 : (8 * ε) ^ 2 ≤ ε / 2 ^ 30 := by
    have : (8 * ε) ^ 2 = 64 * (ε * ε) := by ring
    rw [this]; norm_num at hee ⊢; linarith
  have hτ2 : 1 / 4 ≤ τ ^ 2 := by nlinarith
  have hτ0 : 0 ≤ τ := by linarith
  have hp2 : (a - u) ^ 2 ≤ 4 * (τ * (a - u)) ^ 2 := by
    have := mul_le_mul_of_nonneg_right hτ2 (sq_nonneg (a - u))
    have e : (τ * (a - u)) ^ 2 = τ ^ 2 * (a - u) ^ 2 := by ring
    rw [e]; linarith
  have hq2 : (b - v) ^ 2 ≤ 4 * (τ * (b - v)) ^ 2 := by
    have := mul_le_mul_of_nonneg_right hτ2 (sq_nonneg (b - v))
    have e : (τ * (b - v)) ^ 2 = τ ^ 2 * (b - v) ^ 2 := by ring
    rw [e]; linarith
  have hε1 : ε / 2 ^ 30 ≤ 1 / 2 ^ 70 := by
    have : ε / 2 ^ 30 ≤ (1 / 2 ^ 40) / 2 ^ 30 := div_le_div_of_nonneg_right hε (by positivity)
    norm_num at this ⊢; linarith
  constructor
  · have e1 : (a - u) ^ 2 = a ^ 2 - 2 * (a * u) + u ^ 2 := by ring
    have e2 : (b - v) ^ 2 = b ^ 2 - 2 * (b * v) + v ^ 2 := by ring
    have := sq_nonneg a; have := sq_nonneg b; have := sq_nonneg u; have := sq_nonneg v
    norm_num at hε1
    linarith
  · have A1 : τ * (a - u) ^ 2 ≤ 2 * (τ * (a - u)) ^ 2 := by
      have := mul_nonneg (mul_nonneg hτ0 (sq_nonneg (a - u))) (by linarith : (0 : ℝ) ≤ 2 * τ - 1)
      nlinarith
    have A2 : τ * (b - v) ^ 2 ≤ 2 * (τ * (b - v)) ^ 2 := by
      have := mul_nonneg (mul_nonneg hτ0 (sq_nonneg (b - v))) (by linarith : (0 : ℝ) ≤ 2 * τ - 1)
      nlinarith
    have A3 : (a * v - b * u) ^ 2 ≤ 2 * ((a - u) ^ 2 + (b - v) ^ 2) := by
      have h1 := sq_nonneg ((a - u) * u + (b - v) * v)
      have h2 := mul_nonneg (add_nonneg (sq_nonneg (a - u)) (sq_nonneg (b - v))) (by linarith : (0 : ℝ) ≤ 2 - u ^ 2 - v ^ 2)
      nlinarith
    have A4 := mul_le_mul_of_nonneg_left A3 hτ0
    have hfin : 6 * ((8 * ε) ^ 2 + (8 * ε) ^ 2) ≤ 2 * ε := by
      have : ε / 2 ^ 30 ≤ ε / 12 := by
        apply div_le_div_of_nonneg_left h0 (by norm_num) (by norm_num)
      linarith
    nlinarith

/-! ### small real-arithmetic helpers -/

theorem le_of_mul_one_add_sq {x a e : ℝ} (he : 0 ≤ e) (h : x * (1 + a ^ 2) ≤ e) : x ≤ e := by
  by_contra hc
  have hc := not_le.mp hc
  have := mul_nonneg (le_trans he hc.le) (sq_nonneg a)
  nlinarith

theorem prod_range {a v : ℝ} (ha : -1 ≤ a ∧ a ≤ 1) (hv : -1 ≤ v ∧ v ≤ 1) : -1 ≤ a * v ∧ a * v ≤ 1 := by
  have h1 := mul_nonneg (by linarith [ha.1] : (0 : ℝ) ≤ 1 + a) (by linarith [hv.1] : (0 : ℝ) ≤ 1 + v)
  have h2 := mul_nonneg (by linarith [ha.2] : (0 : ℝ) ≤ 1 - a) (by linarith [hv.2] : (0 : ℝ) ≤ 1 - v)
  have h3 := mul_nonneg (by linarith [ha.1] : (0 : ℝ) ≤ 1 + a) (by linarith [hv.2] : (0 : ℝ) ≤ 1 - v)
  have h4 := mul_nonneg (by linarith [ha.2] : (0 : ℝ) ≤ 1 - a) (by linarith [hv.1] : (0 : ℝ) ≤ 1 + v)
  constructor <;> nlinarith

theorem mul_bound {x z e : ℝ} (hx1 : -e ≤ x) (hx2 : x ≤ e) (hz : -1 ≤ z ∧ z ≤ 1) : -e ≤ x * z ∧ x * z ≤ e := by
  have h1 := mul_nonneg (by linarith : (0 : ℝ) ≤ e - x) (by linarith [hz.1] : (0 : ℝ) ≤ 1 + z)
  have h2 := mul_nonneg (by linarith : (0 : ℝ) ≤ e + x) (by linarith [hz.2] : (0 : ℝ) ≤ 1 - z)
  have h3 := mul_nonneg (by linarith : (0 : ℝ) ≤ e - x) (by linarith [hz.2] : (0 : ℝ) ≤ 1 - z)
  have h4 := mul_nonneg (by linarith : (0 : ℝ) ≤ e + x) (by linarith [hz.1] : (0 : ℝ) ≤ 1 + z)
  constructor <;> nlinarith

theorem sq_le_one {a : ℝ} (ha : -1 ≤ a ∧ a ≤ 1) : a ^ 2 ≤ 1 := by
  have := mul_nonneg (by linarith [ha.1] : (0 : ℝ) ≤ 1 + a) (by linarith [ha.2] : (0 : ℝ) ≤ 1 - a)
  nlinarith

theorem nn_le_three {a b : ℝ} (ha : -1 ≤ a ∧ a ≤ 1) (hb : -1 ≤ b ∧ b ≤ 1) : nn a b ≤ 3 := by
  have := sq_le_one ha; have := sq_le_one hb; unfold nn; linarith

theorem tau_half {N τ R : ℝ} (hN1 : 1 ≤ N) (hτ : 0 < τ) (h : N ^ 2 * (1 / 2) ≤ N * τ ^ 2 + R) (hR : R ≤ 1 / 4) :
    1 / 2 ≤ τ := by
  have h1 : N ≤ N ^ 2 := by nlinarith
  have h2 : 0 ≤ N * (τ ^ 2 - 1 / 4) := by nlinarith
  have h3 : 0 ≤ τ ^ 2 - 1 / 4 := by
    by_contra hc
    have hc := not_le.mp hc
    have := mul_neg_of_pos_of_neg (by linarith : (0 : ℝ) < N) hc
    linarith
  by_contra hc
  have hc := not_le.mp hc
  nlinarith

theorem eps_small {ε : ℝ} (h0 : 0 ≤ ε) (hε : ε ≤ 1 / 2 ^ 40) : (3 * ε) ^ 2 ≤ 1 / 2 ^ 70 := by
  have h1 : ε * ε ≤ (1 / 2 ^ 40) * (1 / 2 ^ 40) := mul_le_mul hε hε h0 (by positivity)
  have e : (3 * ε) ^ 2 = 9 * (ε * ε) := by ring
  rw [e]; norm_num at h1 ⊢; linarith

/-- `t · V̂` for the maximiser close to `(u, v)`: final step shared by the "near a corner" cases -/
theorem near_fin (t : R3) (a b u v ε : ℝ) (hτ : 1 / 2 ≤ tau t a b) (h0 : 0 ≤ ε) (hε : ε ≤ 1 / 2 ^ 40)
    (hk : 0 ≤ ex t a b * (u - a) + ey t a b * (v - b))
    (hx1 : -(8 * ε) ≤ tau t a b * (a - u)) (hx2 : tau t a b * (a - u) ≤ 8 * ε)
    (hy1 : -(8 * ε) ≤ tau t a b * (b - v)) (hy2 : tau t a b * (b - v) ≤ 8 * ε)
    (hu : -1 ≤ u ∧ u ≤ 1) (hv : -1 ≤ v ∧ v ≤ 1) :
    R3.dot t (vhat a b) ≤ R3.dot t (vhat u v) + 2 * ε := by
  obtain ⟨hc, hD⟩ := near_corner (tau t a b) a b u v ε hτ h0 hε (sq_le_sq' hx1 hx2) (sq_le_sq' hy1 hy2)
    (sq_le_one hu) (sq_le_one hv)
  apply fin_le t a b u v (2 * ε) (by linarith) (by linarith) hk hc
  have := mul_le_mul_of_nonneg_left (one_le_nn a b) (by linarith : (0 : ℝ) ≤ 2 * ε)
  linarith

/-! ### the maximiser on (the line of) a vertical edge `u = a` -/

theorem vedge (t : R3) (a b v0 v1 uo ε : ℝ) (oE oO oB oT : Prop)
    (ha : -1 ≤ a ∧ a ≤ 1) (huo : -1 ≤ uo ∧ uo ≤ 1) (hv0 : -1 ≤ v0) (hb0 : v0 ≤ b) (hb1 : b ≤ v1) (hv1 : v1 ≤ 1)
    (hτ : 0 < tau t a b) (hey : ey t a b = 0) (ht : 1 / 2 ≤ t.norm2) (h0 : 0 ≤ ε) (hε : ε ≤ 1 / 2 ^ 40)
    (hE1 : oE → (vTan a v0 t ≤ ε ∨ -ε ≤ vTan a v1 t))
    (hE0 : ¬ oE → |t.x - t.z * a| ≤ ε)
    (hO : oO → (1 / 2 ^ 31 ≤ uo - a ∧ -ε < t.x - t.z * uo) ∨ (1 / 2 ^ 31 ≤ a - uo ∧ t.x - t.z * uo < ε))
    (hB1 : oB → t.y - t.z * v0 < ε) (hT1 : oT → -ε < t.y - t.z * v1)
    (hany : oE ∨ oO ∨ oB ∨ oT) :
    ∃ v, (v = v0 ∨ v = v1) ∧ R3.dot t (vhat a b) ≤ R3.dot t (vhat a v) + 2 * ε := by
  have hb : -1 ≤ b ∧ b ≤ 1 := ⟨by linarith, by linarith⟩
  have hV0 : -1 ≤ v0 ∧ v0 ≤ 1 := ⟨hv0, by linarith⟩
  have hV1 : -1 ≤ v1 ∧ v1 ≤ 1 := ⟨by linarith, hv1⟩
  have hN := nn_pos a b
  have hN1 := one_le_nn a b
  have hN3 := nn_le_three ha hb
  have hεN : ε * nn a b ≤ 3 * ε := by
    have := mul_le_mul_of_nonneg_left hN3 h0; linarith
  have I2 : ∀ v, nn a b * vTan a v t = (1 + a ^ 2) * tau t a b * (b - v) := by
    intro v; rw [id_vTan, hey]; ring
  have hk : ∀ v, 0 ≤ ex t a b * (a - a) + ey t a b * (v - b) := by
    intro v; rw [hey]; simp
  have hc : ∀ v, -1 ≤ v ∧ v ≤ 1 → 0 ≤ 1 + a * a + b * v := by
    intro v hv
    have := (prod_range hb hv).1
    have := mul_self_nonneg a
    linarith
  have hDf : ∀ v, (a - a) ^ 2 + (b - v) ^ 2 + (a * v - b * a) ^ 2 = (b - v) ^ 2 * (1 + a ^ 2) := by
    intro v; ring
  by_cases hoE : oE
  · rcases hE1 hoE with h | h
    · refine ⟨v0, Or.inl rfl, fin_le t a b a v0 (2 * ε) hτ (by linarith) (hk v0) (hc v0 hV0) ?_⟩
      rw [hDf]
      have h1 : (1 + a ^ 2) * tau t a b * (b - v0) ≤ ε * nn a b := by
        rw [← I2]; have := mul_le_mul_of_nonneg_left h hN.le; linarith
      have h2 := mul_le_mul_of_nonneg_left h1 (by linarith : (0 : ℝ) ≤ b - v0)
      have h3 := mul_le_mul_of_nonneg_right (by linarith : b - v0 ≤ 2) (mul_nonneg h0 hN.le)
      have e : tau t a b * ((b - v0) ^ 2 * (1 + a ^ 2)) = (b - v0) * ((1 + a ^ 2) * tau t a b * (b - v0)) := by ring
      rw [e]; linarith
    · refine ⟨v1, Or.inr rfl, fin_le t a b a v1 (2 * ε) hτ (by linarith) (hk v1) (hc v1 hV1) ?_⟩
      rw [hDf]
      have h1 : (1 + a ^ 2) * tau t a b * (v1 - b) ≤ ε * nn a b := by
        have := mul_le_mul_of_nonneg_left h hN.le
        rw [I2] at this
        have e : (1 + a ^ 2) * tau t a b * (v1 - b) = -((1 + a ^ 2) * tau t a b * (b - v1)) := by ring
        rw [e]; linarith
      have h2 := mul_le_mul_of_nonneg_left h1 (by linarith : (0 : ℝ) ≤ v1 - b)
      have h3 := mul_le_mul_of_nonneg_right (by linarith : v1 - b ≤ 2) (mul_nonneg h0 hN.le)
      have e : tau t a b * ((b - v1) ^ 2 * (1 + a ^ 2)) = (v1 - b) * ((1 + a ^ 2) * tau t a b * (v1 - b)) := by ring
      rw [e]; linarith
  · obtain ⟨hs1, hs2⟩ := abs_le.mp (hE0 hoE)
    have I1 : nn a b * (t.x - t.z * a) = ex t a b * (1 + a ^ 2) := by rw [id_sx, hey]; ring
    have hx2 : ex t a b ≤ 3 * ε := by
      apply le_of_mul_one_add_sq (a := a) (by linarith)
      rw [← I1]; have := mul_le_mul_of_nonneg_left hs2 hN.le; linarith
    have hx1 : -(3 * ε) ≤ ex t a b := by
      have : -ex t a b ≤ 3 * ε := by
        apply le_of_mul_one_add_sq (a := a) (by linarith)
        have e : -ex t a b * (1 + a ^ 2) = -(nn a b * (t.x - t.z * a)) := by rw [I1]; ring
        rw [e]; have := mul_le_mul_of_nonneg_left hs1 hN.le; linarith
      linarith
    have hτh : 1 / 2 ≤ tau t a b := by
      have hn := id_norm t a b
      rw [hey] at hn
      have hex2 : ex t a b ^ 2 ≤ (3 * ε) ^ 2 := sq_le_sq' hx1 hx2
      have hsm := eps_small h0 hε
      have ha2 := sq_le_one ha
      have hR : ex t a b ^ 2 + 0 ^ 2 + (ex t a b * a + 0 * b) ^ 2 ≤ 1 / 4 := by
        have e : ex t a b ^ 2 + 0 ^ 2 + (ex t a b * a + 0 * b) ^ 2 = ex t a b ^ 2 * (1 + a ^ 2) := by ring
        rw [e]
        have := mul_le_mul_of_nonneg_left (by linarith : 1 + a ^ 2 ≤ 2) (sq_nonneg (ex t a b))
        norm_num at hsm
        linarith
      apply tau_half hN1 hτ _ hR
      have := mul_le_mul_of_nonneg_left ht (sq_nonneg (nn a b))
      linarith
    rcases hany with h | h | h | h
    · exact absurd h hoE
    · exfalso
      have I4 : nn a b * (t.x - t.z * uo) = tau t a b * (a - uo) + ex t a b * (1 + a * uo) := by
        rw [id_sx, hey]; ring
      have hw := prod_range ha huo
      have hw0 : 0 ≤ 1 + a * uo := by linarith [hw.1]
      have hw2 : 1 + a * uo ≤ 2 := by linarith [hw.2]
      have hε' : ε ≤ 1 / 2 ^ 40 := hε
      rcases hO h with ⟨hg, hlt⟩ | ⟨hg, hlt⟩
      · have p1 : (1 / 2) * (1 / 2 ^ 31) ≤ tau t a b * (uo - a) := mul_le_mul hτh hg (by positivity) hτ.le
        have p2 : ex t a b * (1 + a * uo) ≤ 3 * ε * 2 :=
          le_trans (mul_le_mul_of_nonneg_right hx2 hw0) (mul_le_mul_of_nonneg_left hw2 (by linarith))
        have p3 := mul_lt_mul_of_pos_left hlt hN
        rw [I4] at p3
        have e : tau t a b * (a - uo) = -(tau t a b * (uo - a)) := by ring
        rw [e] at p3
        norm_num at p1 hε'
        linarith
      · have p1 : (1 / 2) * (1 / 2 ^ 31) ≤ tau t a b * (a - uo) := mul_le_mul hτh hg (by positivity) hτ.le
        have p2 : -(3 * ε * 2) ≤ ex t a b * (1 + a * uo) := by
          have q1 := mul_le_mul_of_nonneg_right hx1 hw0
          have q2 := mul_le_mul_of_nonneg_left hw2 (by linarith : (0 : ℝ) ≤ 3 * ε)
          linarith
        have p3 := mul_lt_mul_of_pos_left hlt hN
        rw [I4] at p3
        norm_num at p1 hε'
        linarith
    · have hlt := hB1 h
      have I3 : nn a b * (t.y - t.z * v0) = tau t a b * (b - v0) + ex t a b * (a * v0) := by
        rw [id_sy, hey]; ring
      have hz := mul_bound hx1 hx2 (prod_range ha hV0)
      have p3 := mul_lt_mul_of_pos_left hlt hN
      rw [I3] at p3
      have p0 : 0 ≤ tau t a b * (b - v0) := mul_nonneg hτ.le (by linarith)
      refine ⟨v0, Or.inl rfl, near_fin t a b a v0 ε hτh h0 hε (hk v0) ?_ ?_ ?_ ?_ ha hV0⟩
      · rw [sub_self, mul_zero]; linarith
      · rw [sub_self, mul_zero]; linarith
      · linarith
      · linarith [hz.1]
    · have hlt := hT1 h
      have I3 : nn a b * (t.y - t.z * v1) = tau t a b * (b - v1) + ex t a b * (a * v1) := by
        rw [id_sy, hey]; ring
      have hz := mul_bound hx1 hx2 (prod_range ha hV1)
      have p3 := mul_lt_mul_of_pos_left hlt hN
      rw [I3] at p3
      have p0 : tau t a b * (b - v1) ≤ 0 := mul_nonpos_of_nonneg_of_nonpos hτ.le (by linarith)
      refine ⟨v1, Or.inr rfl, near_fin t a b a v1 ε hτh h0 hε (hk v1) ?_ ?_ ?_ ?_ ha hV1⟩
      · rw [sub_self, mul_zero]; linarith
      · rw [sub_self, mul_zero]; linarith
      · linarith [hz.2]
      · linarith

/-! ### the maximiser with `t ∥ q*` (interior of the rectangle), test of a vertical edge `u` -/

theorem vTan_split (t : R3) (u v : ℝ) :
    vTan u v t = (1 + u ^ 2) * (t.y - t.z * v) - u * v * (t.x - t.z * u) := by
  unfold vTan; ring

theorem intv (t : R3) (a b u v0 v1 ε : ℝ)
    (ha : -1 ≤ a ∧ a ≤ 1) (hu : -1 ≤ u ∧ u ≤ 1) (hv0 : -1 ≤ v0) (hb0 : v0 ≤ b) (hb1 : b ≤ v1) (hv1 : v1 ≤ 1)
    (hτ : 0 < tau t a b) (hex : ex t a b = 0) (hey : ey t a b = 0) (ht : 1 / 2 ≤ t.norm2)
    (h0 : 0 ≤ ε) (hε : ε ≤ 1 / 2 ^ 40)
    (hs : |t.x - t.z * u| ≤ ε) (halt : vTan u v0 t ≤ ε ∨ -ε ≤ vTan u v1 t) :
    ∃ v, (v = v0 ∨ v = v1) ∧ R3.dot t (vhat a b) ≤ R3.dot t (vhat u v) + 2 * ε := by
  have hb : -1 ≤ b ∧ b ≤ 1 := ⟨by linarith, by linarith⟩
  have hV0 : -1 ≤ v0 ∧ v0 ≤ 1 := ⟨hv0, by linarith⟩
  have hV1 : -1 ≤ v1 ∧ v1 ≤ 1 := ⟨by linarith, hv1⟩
  have hN := nn_pos a b
  have hN1 := one_le_nn a b
  have hN3 := nn_le_three ha hb
  have hεN : ε * nn a b ≤ 3 * ε := by
    have := mul_le_mul_of_nonneg_left hN3 h0; linarith
  obtain ⟨hs1, hs2⟩ := abs_le.mp hs
  have J1 : nn a b * (t.x - t.z * u) = tau t a b * (a - u) := by rw [id_sx, hex, hey]; ring
  have J2 : ∀ v, nn a b * vTan u v t = (1 + u ^ 2) * (tau t a b * (b - v)) - u * v * (tau t a b * (a - u)) := by
    intro v
    have e : nn a b * vTan u v t = (1 + u ^ 2) * (nn a b * (t.y - t.z * v)) - u * v * (nn a b * (t.x - t.z * u)) := by
      rw [vTan_split]; ring
    rw [e, id_sy, id_sx, hex, hey]; ring
  have hX2 : tau t a b * (a - u) ≤ 3 * ε := by
    rw [← J1]; have := mul_le_mul_of_nonneg_left hs2 hN.le; linarith
  have hX1 : -(3 * ε) ≤ tau t a b * (a - u) := by
    rw [← J1]; have := mul_le_mul_of_nonneg_left hs1 hN.le; linarith
  have hτh : 1 / 2 ≤ tau t a b := by
    have hn := id_norm t a b
    rw [hex, hey] at hn
    apply tau_half hN1 hτ (R := 0) _ (by norm_num)
    have := mul_le_mul_of_nonneg_left ht (sq_nonneg (nn a b))
    have e : nn a b * tau t a b ^ 2 + 0 ^ 2 + 0 ^ 2 + (0 * a + 0 * b) ^ 2 = nn a b * tau t a b ^ 2 := by ring
    rw [e] at hn
    linarith
  have hk : ∀ v, 0 ≤ ex t a b * (u - a) + ey t a b * (v - b) := by
    intro v; rw [hex, hey]; simp
  rcases halt with h | h
  · have hz := mul_bound hX1 hX2 (prod_range hu hV0)
    have p := mul_le_mul_of_nonneg_left h hN.le
    rw [J2] at p
    have p0 : 0 ≤ tau t a b * (b - v0) := mul_nonneg hτ.le (by linarith)
    have hY : tau t a b * (b - v0) ≤ 6 * ε := by
      apply le_of_mul_one_add_sq (a := u) (by linarith)
      have e : u * v0 * (tau t a b * (a - u)) = tau t a b * (a - u) * (u * v0) := by ring
      rw [e] at p
      linarith [hz.2]
    refine ⟨v0, Or.inl rfl, near_fin t a b u v0 ε hτh h0 hε (hk v0) ?_ ?_ ?_ ?_ hu hV0⟩ <;> linarith
  · have hz := mul_bound hX1 hX2 (prod_range hu hV1)
    have p := mul_le_mul_of_nonneg_left h hN.le
    rw [J2] at p
    have p0 : tau t a b * (b - v1) ≤ 0 := mul_nonpos_of_nonneg_of_nonpos hτ.le (by linarith)
    have hY : -(tau t a b * (b - v1)) ≤ 6 * ε := by
      apply le_of_mul_one_add_sq (a := u) (by linarith)
      have e : u * v1 * (tau t a b * (a - u)) = tau t a b * (a - u) * (u * v1) := by ring
      rw [e] at p
      linarith [hz.1]
    refine ⟨v1, Or.inr rfl, near_fin t a b u v1 ε hτh h0 hε (hk v1) ?_ ?_ ?_ ?_ hu hV1⟩ <;> linarith

/-! ### the mirror `x ↔ y` -/

/-- exchange of the first two coordinates -/
def swp (t : R3) : R3 := ⟨t.y, t.x, t.z⟩

theorem nn_comm (a b : ℝ) : nn b a = nn a b := by unfold nn; ring
theorem tau_swp (t : R3) (a b : ℝ) : tau (swp t) b a = tau t a b := by unfold tau swp; ring
theorem ey_swp (t : R3) (a b : ℝ) : ey (swp t) b a = ex t a b := by
  unfold ey ex; rw [tau_swp, nn_comm]; rfl
theorem ex_swp (t : R3) (a b : ℝ) : ex (swp t) b a = ey t a b := by
  unfold ey ex; rw [tau_swp, nn_comm]; rfl
theorem vTan_swp (t : R3) (b u : ℝ) : vTan b u (swp t) = uTan b u t := by unfold vTan uTan swp; ring
theorem norm2_swp (t : R3) : (swp t).norm2 = t.norm2 := by unfold R3.norm2 swp; ring
theorem dot_swp (t : R3) (a b : ℝ) : R3.dot (swp t) (vhat b a) = R3.dot t (vhat a b) := by
  rw [dot_vhat_tau, dot_vhat_tau, tau_swp, nn_comm]

/-- maximiser on (the line of) a horizontal edge `v = b` -/
theorem hedge (t : R3) (a b u0 u1 vo ε : ℝ) (oE oO oL oR : Prop)
    (hb : -1 ≤ b ∧ b ≤ 1) (hvo : -1 ≤ vo ∧ vo ≤ 1) (hu0 : -1 ≤ u0) (ha0 : u0 ≤ a) (ha1 : a ≤ u1) (hu1 : u1 ≤ 1)
    (hτ : 0 < tau t a b) (hex : ex t a b = 0) (ht : 1 / 2 ≤ t.norm2) (h0 : 0 ≤ ε) (hε : ε ≤ 1 / 2 ^ 40)
    (hE1 : oE → (uTan b u0 t ≤ ε ∨ -ε ≤ uTan b u1 t))
    (hE0 : ¬ oE → |t.y - t.z * b| ≤ ε)
    (hO : oO → (1 / 2 ^ 31 ≤ vo - b ∧ -ε < t.y - t.z * vo) ∨ (1 / 2 ^ 31 ≤ b - vo ∧ t.y - t.z * vo < ε))
    (hL1 : oL → t.x - t.z * u0 < ε) (hR1 : oR → -ε < t.x - t.z * u1)
    (hany : oE ∨ oO ∨ oL ∨ oR) :
    ∃ u, (u = u0 ∨ u = u1) ∧ R3.dot t (vhat a b) ≤ R3.dot t (vhat u b) + 2 * ε := by
  have := vedge (swp t) b a u0 u1 vo ε oE oO oL oR hb hvo hu0 ha0 ha1 hu1
    (by rw [tau_swp]; exact hτ) (by rw [ey_swp]; exact hex) (by rw [norm2_swp]; exact ht) h0 hε
    (by intro h; rw [vTan_swp, vTan_swp]; exact hE1 h) hE0 hO hL1 hR1 hany
  obtain ⟨u, hu, hle⟩ := this
  rw [dot_swp, dot_swp] at hle
  exact ⟨u, hu, hle⟩

theorem inth (t : R3) (a b v u0 u1 ε : ℝ)
    (hb : -1 ≤ b ∧ b ≤ 1) (hv : -1 ≤ v ∧ v ≤ 1) (hu0 : -1 ≤ u0) (ha0 : u0 ≤ a) (ha1 : a ≤ u1) (hu1 : u1 ≤ 1)
    (hτ : 0 < tau t a b) (hex : ex t a b = 0) (hey : ey t a b = 0) (ht : 1 / 2 ≤ t.norm2)
    (h0 : 0 ≤ ε) (hε : ε ≤ 1 / 2 ^ 40)
    (hs : |t.y - t.z * v| ≤ ε) (halt : uTan v u0 t ≤ ε ∨ -ε ≤ uTan v u1 t) :
    ∃ u, (u = u0 ∨ u = u1) ∧ R3.dot t (vhat a b) ≤ R3.dot t (vhat u v) + 2 * ε := by
  have := intv (swp t) b a v u0 u1 ε hb hv hu0 ha0 ha1 hu1
    (by rw [tau_swp]; exact hτ) (by rw [ex_swp]; exact hey) (by rw [ey_swp]; exact hex)
    (by rw [norm2_swp]; exact ht) h0 hε hs (by rw [vTan_swp, vTan_swp]; exact halt)
  obtain ⟨u, hu, hle⟩ := this
  rw [dot_swp, dot_swp] at hle
  exact ⟨u, hu, hle⟩

/-! ### the maximiser and its first-order conditions (as in `vertex_cover`) -/

theorem max_point (r : RRect) (hr : r.OK) (t : R3) :
    ∃ a b : ℝ, (r.u0 ≤ a ∧ a ≤ r.u1) ∧ (r.v0 ≤ b ∧ b ≤ r.v1) ∧
      (∀ q, InCell r q → R3.dot t q ≤ R3.dot t (vhat a b)) ∧
      (R3.dot t (vhat a b) ≤ 0 → ∀ q, InCell r q → R3.dot t q ≤ maxVertexDot r t) ∧
      (0 < R3.dot t (vhat a b) → 0 < tau t a b ∧ (a < r.u1 → ex t a b ≤ 0) ∧ (r.u0 < a → 0 ≤ ex t a b) ∧
        (b < r.v1 → ey t a b ≤ 0) ∧ (r.v0 < b → 0 ≤ ey t a b)) := by
  obtain ⟨a, b, ha, hb, hmax⟩ := exists_max r hr t
  refine ⟨a, b, ha, hb, ?_, ?_, ?_⟩
  · intro q hq
    obtain ⟨hqe, ha0, ha1, hb0, hb1⟩ := cell_eq_vhat r q hq
    have := hmax _ _ ⟨ha0, ha1⟩ ⟨hb0, hb1⟩
    rwa [← hqe] at this
  · intro hm q hq
    have hu0 : r.u0 ≤ r.u0 ∧ r.u0 ≤ r.u1 := ⟨le_refl _, hr.u_lt.le⟩
    have hu1 : r.u0 ≤ r.u1 ∧ r.u1 ≤ r.u1 := ⟨hr.u_lt.le, le_refl _⟩
    have hv0 : r.v0 ≤ r.v0 ∧ r.v0 ≤ r.v1 := ⟨le_refl _, hr.v_lt.le⟩
    have hv1 : r.v0 ≤ r.v1 ∧ r.v1 ≤ r.v1 := ⟨hr.v_lt.le, le_refl _⟩
    have d00 : R3.dot t (vhat r.u0 r.v0) ≤ maxVertexDot r t := le_max_of_le_left (le_max_left _ _)
    have d10 : R3.dot t (vhat r.u1 r.v0) ≤ maxVertexDot r t := le_max_of_le_left (le_max_right _ _)
    have d01 : R3.dot t (vhat r.u0 r.v1) ≤ maxVertexDot r t := le_max_of_le_right (le_max_left _ _)
    have d11 : R3.dot t (vhat r.u1 r.v1) ≤ maxVertexDot r t := le_max_of_le_right (le_max_right _ _)
    have hM : maxVertexDot r t ≤ 0 := by
      unfold maxVertexDot
      exact max_le (max_le ((hmax _ _ hu0 hv0).trans hm) ((hmax _ _ hu1 hv0).trans hm))
        (max_le ((hmax _ _ hu0 hv1).trans hm) ((hmax _ _ hu1 hv1).trans hm))
    obtain ⟨c00, c10, c01, c11, p00, p10, p01, p11, hs, -, hdec⟩ := cell_combination r hr q hq
    rw [hdec t]
    have e00 := mul_le_mul_of_nonneg_left d00 p00
    have e10 := mul_le_mul_of_nonneg_left d10 p10
    have e01 := mul_le_mul_of_nonneg_left d01 p01
    have e11 := mul_le_mul_of_nonneg_left d11 p11
    have e : (c00 + c10 + c01 + c11 - 1) * maxVertexDot r t ≤ 0 :=
      mul_nonpos_of_nonneg_of_nonpos (by linarith) hM
    nlinarith
  · intro hm
    have hτ : 0 < tau t a b := by
      have h1 := dot_raw t a b
      unfold tau
      rw [h1]
      exact mul_pos (sqrt_nn_pos a b) hm
    refine ⟨hτ, ?_, ?_, ?_, ?_⟩
    · intro h
      have := fo_dir t a b 1 0 (r.u1 - a) (by linarith) hτ (fun s hs hs' =>
        hmax (a + s * 1) (b + s * 0) ⟨by linarith [ha.1], by linarith⟩ ⟨by linarith [hb.1], by linarith [hb.2]⟩)
      have e : ex t a b = (t.x * 1 + t.y * 0) * nn a b - tau t a b * (a * 1 + b * 0) := by unfold ex; ring
      rw [e]; exact this
    · intro h
      have := fo_dir t a b (-1) 0 (a - r.u0) (by linarith) hτ (fun s hs hs' =>
        hmax (a + s * (-1)) (b + s * 0) ⟨by linarith, by linarith [ha.2]⟩ ⟨by linarith [hb.1], by linarith [hb.2]⟩)
      have e : -ex t a b = (t.x * (-1) + t.y * 0) * nn a b - tau t a b * (a * (-1) + b * 0) := by unfold ex; ring
      rw [← e] at this; linarith
    · intro h
      have := fo_dir t a b 0 1 (r.v1 - b) (by linarith) hτ (fun s hs hs' =>
        hmax (a + s * 0) (b + s * 1) ⟨by linarith [ha.1], by linarith [ha.2]⟩ ⟨by linarith [hb.1], by linarith⟩)
      have e : ey t a b = (t.x * 0 + t.y * 1) * nn a b - tau t a b * (a * 0 + b * 1) := by unfold ey; ring
      rw [e]; exact this
    · intro h
      have := fo_dir t a b 0 (-1) (b - r.v0) (by linarith) hτ (fun s hs hs' =>
        hmax (a + s * 0) (b + s * (-1)) ⟨by linarith [ha.1], by linarith [ha.2]⟩ ⟨by linarith, by linarith [hb.2]⟩)
      have e : -ey t a b = (t.x * 0 + t.y * (-1)) * nn a b - tau t a b * (a * 0 + b * (-1)) := by unfold ey; ring
      rw [← e] at this; linarith

end Cover

open Cover

set_option linter.unusedVariables false in
/-- **the ε-robust covering theorem of the vertex branch**: `o_i` = "the float sign test of edge `i` said OUTSIDE" is an
    unknown proposition; a test that said OUTSIDE and still failed gives an ε-relaxed tangential inequality, a test that
    said INSIDE gives an ε-relaxed sign inequality; at least one edge said OUTSIDE (the `inside` flag is false).  Then no
    point of the cell beats the best vertex by more than `2ε`. -/
theorem vertex_cover_robust (r : RRect) (hr : r.OK)
    (hgu : 1 / 2 ^ 31 ≤ r.u1 - r.u0) (hgv : 1 / 2 ^ 31 ≤ r.v1 - r.v0)
    (t q : R3) (hq : InCell r q) (ht : 1 / 2 ≤ t.norm2) (ht' : t.norm2 ≤ 2)
    (ε : ℝ) (h0 : 0 ≤ ε) (hε : ε ≤ 1 / 2 ^ 40)
    (oL oR oB oT : Prop)
    (hL1 : oL → sL r t < ε ∧ (vTan r.u0 r.v0 t ≤ ε ∨ -ε ≤ vTan r.u0 r.v1 t))
    (hL0 : ¬ oL → -ε ≤ sL r t)
    (hR1 : oR → -ε < sR r t ∧ (vTan r.u1 r.v0 t ≤ ε ∨ -ε ≤ vTan r.u1 r.v1 t))
    (hR0 : ¬ oR → sR r t ≤ ε)
    (hB1 : oB → sB r t < ε ∧ (uTan r.v0 r.u0 t ≤ ε ∨ -ε ≤ uTan r.v0 r.u1 t))
    (hB0 : ¬ oB → -ε ≤ sB r t)
    (hT1 : oT → -ε < sT r t ∧ (uTan r.v1 r.u0 t ≤ ε ∨ -ε ≤ uTan r.v1 r.u1 t))
    (hT0 : ¬ oT → sT r t ≤ ε)
    (hany : oL ∨ oR ∨ oB ∨ oT) :
    R3.dot t q ≤ maxVertexDot r t + 2 * ε := by
  obtain ⟨a, b, ha, hb, hle, hpolar, hfo⟩ := max_point r hr t
  by_cases hm : R3.dot t (vhat a b) ≤ 0
  · have := hpolar hm q hq
    linarith
  have hm := not_le.mp hm
  obtain ⟨hτ, c1, c2, c3, c4⟩ := hfo hm
  have hle := hle q hq
  have hu := hr.u_lt
  have hv := hr.v_lt
  have hU0 : -1 ≤ r.u0 ∧ r.u0 ≤ 1 := ⟨hr.u0_ge, by linarith [hr.u1_le]⟩
  have hU1 : -1 ≤ r.u1 ∧ r.u1 ≤ 1 := ⟨by linarith [hr.u0_ge], hr.u1_le⟩
  have hV0 : -1 ≤ r.v0 ∧ r.v0 ≤ 1 := ⟨hr.v0_ge, by linarith [hr.v1_le]⟩
  have hV1 : -1 ≤ r.v1 ∧ r.v1 ≤ 1 := ⟨by linarith [hr.v0_ge], hr.v1_le⟩
  have ha' : -1 ≤ a ∧ a ≤ 1 := ⟨by linarith [ha.1, hr.u0_ge], by linarith [ha.2, hr.u1_le]⟩
  have hb' : -1 ≤ b ∧ b ≤ 1 := ⟨by linarith [hb.1, hr.v0_ge], by linarith [hb.2, hr.v1_le]⟩
  have hN := nn_pos a b
  -- it suffices to find a vertex within 2ε of the maximum
  suffices hs : ∃ u v, (u = r.u0 ∨ u = r.u1) ∧ (v = r.v0 ∨ v = r.v1) ∧
      R3.dot t (vhat a b) ≤ R3.dot t (vhat u v) + 2 * ε by
    obtain ⟨u, v, hu', hv', hfin⟩ := hs
    have d00 : R3.dot t (vhat r.u0 r.v0) ≤ maxVertexDot r t := le_max_of_le_left (le_max_left _ _)
    have d10 : R3.dot t (vhat r.u1 r.v0) ≤ maxVertexDot r t := le_max_of_le_left (le_max_right _ _)
    have d01 : R3.dot t (vhat r.u0 r.v1) ≤ maxVertexDot r t := le_max_of_le_right (le_max_left _ _)
    have d11 : R3.dot t (vhat r.u1 r.v1) ≤ maxVertexDot r t := le_max_of_le_right (le_max_right _ _)
    rcases hu' with rfl | rfl <;> rcases hv' with rfl | rfl <;> linarith
  have hA : a = r.u0 ∨ a = r.u1 ∨ (r.u0 < a ∧ a < r.u1) := by
    rcases ha.1.eq_or_lt with h0 | h0
    · exact Or.inl h0.symm
    · rcases ha.2.eq_or_lt with h1 | h1
      · exact Or.inr (Or.inl h1)
      · exact Or.inr (Or.inr ⟨h0, h1⟩)
  have hB' : b = r.v0 ∨ b = r.v1 ∨ (r.v0 < b ∧ b < r.v1) := by
    rcases hb.1.eq_or_lt with h0 | h0
    · exact Or.inl h0.symm
    · rcases hb.2.eq_or_lt with h1 | h1
      · exact Or.inr (Or.inl h1)
      · exact Or.inr (Or.inr ⟨h0, h1⟩)
  have h2ε : (0 : ℝ) ≤ 2 * ε := by linarith
  rcases hA with hA | hA | ⟨ha0, ha1⟩ <;> rcases hB' with hB' | hB' | ⟨hb0, hb1⟩
  · exact ⟨a, b, Or.inl hA, Or.inl hB', by linarith⟩
  · exact ⟨a, b, Or.inl hA, Or.inr hB', by linarith⟩
  · -- left edge
    have hey : ey t a b = 0 := le_antisymm (c3 hb1) (c4 hb0)
    have hexle : ex t a b ≤ 0 := c1 (by rw [hA]; exact hu)
    have I1 : nn a b * (t.x - t.z * a) = ex t a b * (1 + a ^ 2) := by rw [id_sx, hey]; ring
    have hsle : t.x - t.z * a ≤ 0 :=
      nonpos_of_nn_mul (a := a) (b := b) (by rw [I1]; exact mul_nonpos_of_nonpos_of_nonneg hexle (by positivity))
    obtain ⟨v, hv', hfin⟩ := vedge t a b r.v0 r.v1 r.u1 ε oL oR oB oT ha' hU1 hr.v0_ge hb0.le hb1.le hr.v1_le
      hτ hey ht h0 hε
      (fun h => by have := (hL1 h).2; rw [← hA] at this; exact this)
      (fun h => by
        have := hL0 h; unfold sL at this; rw [← hA] at this
        exact abs_le.mpr ⟨this, by linarith⟩)
      (fun h => Or.inl ⟨by rw [hA]; exact hgu, (hR1 h).1⟩)
      (fun h => (hB1 h).1) (fun h => (hT1 h).1) hany
    exact ⟨a, v, Or.inl hA, hv', hfin⟩
  · exact ⟨a, b, Or.inr hA, Or.inl hB', by linarith⟩
  · exact ⟨a, b, Or.inr hA, Or.inr hB', by linarith⟩
  · -- right edge
    have hey : ey t a b = 0 := le_antisymm (c3 hb1) (c4 hb0)
    have hexge : 0 ≤ ex t a b := c2 (by rw [hA]; exact hu)
    have I1 : nn a b * (t.x - t.z * a) = ex t a b * (1 + a ^ 2) := by rw [id_sx, hey]; ring
    have hsge : 0 ≤ t.x - t.z * a :=
      nonneg_of_nn_mul (a := a) (b := b) (by rw [I1]; exact mul_nonneg hexge (by positivity))
    obtain ⟨v, hv', hfin⟩ := vedge t a b r.v0 r.v1 r.u0 ε oR oL oB oT ha' hU0 hr.v0_ge hb0.le hb1.le hr.v1_le
      hτ hey ht h0 hε
      (fun h => by have := (hR1 h).2; rw [← hA] at this; exact this)
      (fun h => by
        have := hR0 h; unfold sR at this; rw [← hA] at this
        exact abs_le.mpr ⟨by linarith, this⟩)
      (fun h => Or.inr ⟨by rw [hA]; exact hgu, (hL1 h).1⟩)
      (fun h => (hB1 h).1) (fun h => (hT1 h).1)
      (by rcases hany with h | h | h | h
          · exact Or.inr (Or.inl h)
          · exact Or.inl h
          · exact Or.inr (Or.inr (Or.inl h))
          · exact Or.inr (Or.inr (Or.inr h)))
    exact ⟨a, v, Or.inr hA, hv', hfin⟩
  · -- bottom edge
    have hex : ex t a b = 0 := le_antisymm (c1 ha1) (c2 ha0)
    have heyle : ey t a b ≤ 0 := c3 (by rw [hB']; exact hv)
    have I1 : nn a b * (t.y - t.z * b) = ey t a b * (1 + b ^ 2) := by rw [id_sy, hex]; ring
    have hsle : t.y - t.z * b ≤ 0 :=
      nonpos_of_nn_mul (a := a) (b := b) (by rw [I1]; exact mul_nonpos_of_nonpos_of_nonneg heyle (by positivity))
    obtain ⟨u, hu', hfin⟩ := hedge t a b r.u0 r.u1 r.v1 ε oB oT oL oR hb' hV1 hr.u0_ge ha0.le ha1.le hr.u1_le
      hτ hex ht h0 hε
      (fun h => by have := (hB1 h).2; rw [← hB'] at this; exact this)
      (fun h => by
        have := hB0 h; unfold sB at this; rw [← hB'] at this
        exact abs_le.mpr ⟨this, by linarith⟩)
      (fun h => Or.inl ⟨by rw [hB']; exact hgv, (hT1 h).1⟩)
      (fun h => (hL1 h).1) (fun h => (hR1 h).1)
      (by rcases hany with h | h | h | h
          · exact Or.inr (Or.inr (Or.inl h))
          · exact Or.inr (Or.inr (Or.inr h))
          · exact Or.inl h
          · exact Or.inr (Or.inl h))
    exact ⟨u, b, hu', Or.inl hB', hfin⟩
  · -- top edge
    have hex : ex t a b = 0 := le_antisymm (c1 ha1) (c2 ha0)
    have heyge : 0 ≤ ey t a b := c4 (by rw [hB']; exact hv)
    have I1 : nn a b * (t.y - t.z * b) = ey t a b * (1 + b ^ 2) := by rw [id_sy, hex]; ring
    have hsge : 0 ≤ t.y - t.z * b :=
      nonneg_of_nn_mul (a := a) (b := b) (by rw [I1]; exact mul_nonneg heyge (by positivity))
    obtain ⟨u, hu', hfin⟩ := hedge t a b r.u0 r.u1 r.v0 ε oT oB oL oR hb' hV0 hr.u0_ge ha0.le ha1.le hr.u1_le
      hτ hex ht h0 hε
      (fun h => by have := (hT1 h).2; rw [← hB'] at this; exact this)
      (fun h => by
        have := hT0 h; unfold sT at this; rw [← hB'] at this
        exact abs_le.mpr ⟨by linarith, this⟩)
      (fun h => Or.inr ⟨by rw [hB']; exact hgv, (hB1 h).1⟩)
      (fun h => (hL1 h).1) (fun h => (hR1 h).1)
      (by rcases hany with h | h | h | h
          · exact Or.inr (Or.inr (Or.inl h))
          · exact Or.inr (Or.inr (Or.inr h))
          · exact Or.inr (Or.inl h)
          · exact Or.inl h)
    exact ⟨u, b, hu', Or.inr hB', hfin⟩
  · -- interior: t ∥ q*
    have hex : ex t a b = 0 := le_antisymm (c1 ha1) (c2 ha0)
    have hey : ey t a b = 0 := le_antisymm (c3 hb1) (c4 hb0)
    have Jx : ∀ u, nn a b * (t.x - t.z * u) = tau t a b * (a - u) := by
      intro u; rw [id_sx, hex, hey]; ring
    have Jy : ∀ v, nn a b * (t.y - t.z * v) = tau t a b * (b - v) := by
      intro v; rw [id_sy, hex, hey]; ring
    rcases hany with h | h | h | h
    · have hs0 : 0 ≤ t.x - t.z * r.u0 :=
        nonneg_of_nn_mul (a := a) (b := b) (by rw [Jx]; exact mul_nonneg hτ.le (by linarith))
      obtain ⟨v, hv', hfin⟩ := intv t a b r.u0 r.v0 r.v1 ε ha' hU0 hr.v0_ge hb0.le hb1.le hr.v1_le hτ hex hey ht h0 hε
        (abs_le.mpr ⟨by linarith, (hL1 h).1.le⟩) (hL1 h).2
      exact ⟨r.u0, v, Or.inl rfl, hv', hfin⟩
    · have hs0 : t.x - t.z * r.u1 ≤ 0 :=
        nonpos_of_nn_mul (a := a) (b := b) (by rw [Jx]; exact mul_nonpos_of_nonneg_of_nonpos hτ.le (by linarith))
      obtain ⟨v, hv', hfin⟩ := intv t a b r.u1 r.v0 r.v1 ε ha' hU1 hr.v0_ge hb0.le hb1.le hr.v1_le hτ hex hey ht h0 hε
        (abs_le.mpr ⟨(hR1 h).1.le, by linarith⟩) (hR1 h).2
      exact ⟨r.u1, v, Or.inr rfl, hv', hfin⟩
    · have hs0 : 0 ≤ t.y - t.z * r.v0 :=
        nonneg_of_nn_mul (a := a) (b := b) (by rw [Jy]; exact mul_nonneg hτ.le (by linarith))
      obtain ⟨u, hu', hfin⟩ := inth t a b r.v0 r.u0 r.u1 ε hb' hV0 hr.u0_ge ha0.le ha1.le hr.u1_le hτ hex hey ht h0 hε
        (abs_le.mpr ⟨by linarith, (hB1 h).1.le⟩) (hB1 h).2
      exact ⟨u, r.v0, hu', Or.inl rfl, hfin⟩
    · have hs0 : t.y - t.z * r.v1 ≤ 0 :=
        nonpos_of_nn_mul (a := a) (b := b) (by rw [Jy]; exact mul_nonpos_of_nonneg_of_nonpos hτ.le (by linarith))
      obtain ⟨u, hu', hfin⟩ := inth t a b r.v1 r.u0 r.u1 ε hb' hV1 hr.u0_ge ha0.le ha1.le hr.u1_le hτ hex hey ht h0 hε
        (abs_le.mpr ⟨(hT1 h).1.le, by linarith⟩) (hT1 h).2
      exact ⟨u, r.v1, hu', Or.inr rfl, hfin⟩

/-- non-vacuity: level-0 rectangle, unit target `(-2/3,-2/3,1/3)` beyond the vertex `(-1,-1,1)`, `ε = 2^-49`,
    the left and bottom sign tests said OUTSIDE (and failed tangentially), the other two said INSIDE -/
example : R3.dot ⟨-2/3, -2/3, 1/3⟩ (vhat 0 0) ≤ maxVertexDot ⟨-1, 1, -1, 1⟩ ⟨-2/3, -2/3, 1/3⟩ + 2 * (1 / 2 ^ 49) := by
  have hr : (⟨-1, 1, -1, 1⟩ : RRect).OK := ⟨by norm_num, by norm_num, by norm_num, by norm_num, by norm_num, by norm_num⟩
  apply vertex_cover_robust ⟨-1, 1, -1, 1⟩ hr (by norm_num) (by norm_num) ⟨-2/3, -2/3, 1/3⟩ (vhat 0 0)
    (vhat_inCell _ hr 0 0 (by norm_num) (by norm_num)) (by unfold R3.norm2; norm_num) (by unfold R3.norm2; norm_num)
    (1 / 2 ^ 49) (by positivity) (by norm_num) True False True False
  · intro _; unfold sL vTan; norm_num
  · intro h; exact absurd trivial h
  · intro h; exact h.elim
  · intro _; unfold sR; norm_num
  · intro _; unfold sB uTan; norm_num
  · intro h; exact absurd trivial h
  · intro h; exact h.elim
  · intro _; unfold sT; norm_num
  · exact Or.inl trivial

end S2Proofs.C12Dist
