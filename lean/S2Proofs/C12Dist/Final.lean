/-
  C12Dist.Final — the statements in the XYZ frame for `cellFromCellID id` of a valid id and a finite unit-ish point,
  parametrised by `EdgeSpec` and `RobustCover` (instantiated in `Properties/C12_Distance.lean`).
-/
import S2Proofs.C12Dist.Upper
import S2Proofs.C12.STExact

namespace S2Proofs.C12Dist
open S2 S2.CellID S2.CellM S2Proofs.FloatErr S2Proofs.F64Order S2Proofs.C16Acc

/-- the target point is finite and "unit-ish": `1/2 ≤ |p|² ≤ 1 + 2^-21` (Go's `IsUnit` demands `| |p|² − 1 | ≤ 5e-15·…`) -/
def PtOK (p : V3) : Prop :=
  Exact.finite3 p = true ∧ 1 / 2 ≤ (ofV p).norm2 ∧ (ofV p).norm2 ≤ 1 + 1 / 2 ^ 21

theorem fin3_of_finite3 {p : V3} (h : Exact.finite3 p = true) : Fin3 p := by
  unfold Exact.finite3 at h
  simp only [Bool.and_eq_true] at h
  exact ⟨S2Proofs.C12ST.fin_of_isFinite h.1.1, S2Proofs.C12ST.fin_of_isFinite h.1.2, S2Proofs.C12ST.fin_of_isFinite h.2⟩

/-- the context of a valid cell and an admissible point -/
theorem mkCtx (id : CellID) (hv : isValid id = true) (p : V3) (hf : Fin3 p) (hn : (ofV p).norm2 ≤ 1 + 1 / 2 ^ 21) :
    Ctx (cellFromCellID id) (faceXYZtoUVW (cellFromCellID id).face p) := by
  obtain ⟨f1, f2, f3, f4, ok, _, g1, g2⟩ := cellOK_gap id hv
  exact ⟨f1, f2, f3, f4, ok, g1, g2, fin3_uvw _ hf, by rw [ofV_uvw, uvwR_norm2]; exact hn⟩

theorem uvwR_neg (f : Nat) (p : R3) : uvwR f (R3.neg p) = R3.neg (uvwR f p) := by
  unfold uvwR R3.neg; split <;> simp

/-- the antipode `p.mul (-1)` is exact -/
theorem antipode (p : V3) (hf : Fin3 p) (hn : (ofV p).norm2 ≤ 1 + 1 / 2 ^ 21) :
    Fin3 (p.mul negOne) ∧ ofV (p.mul negOne) = R3.neg (ofV p) := by
  have hn' := hn
  unfold ofV R3.norm2 at hn'; simp only at hn'
  have bx : |val p.x| ≤ 4 := by
    have := abs_le_of_sq_le21 (x := val p.x) (by nlinarith [sq_nonneg (val p.y), sq_nonneg (val p.z)])
    have : (1 : ℝ) + 1 / 2 ^ 20 ≤ 4 := by norm_num
    linarith
  have by' : |val p.y| ≤ 4 := by
    have := abs_le_of_sq_le21 (x := val p.y) (by nlinarith [sq_nonneg (val p.x), sq_nonneg (val p.z)])
    have : (1 : ℝ) + 1 / 2 ^ 20 ≤ 4 := by norm_num
    linarith
  have bz : |val p.z| ≤ 4 := by
    have := abs_le_of_sq_le21 (x := val p.z) (by nlinarith [sq_nonneg (val p.x), sq_nonneg (val p.y)])
    have : (1 : ℝ) + 1 / 2 ^ 20 ≤ 4 := by norm_num
    linarith
  obtain ⟨f1, v1⟩ := negOne_mul p.x hf.1 bx
  obtain ⟨f2, v2⟩ := negOne_mul p.y hf.2.1 by'
  obtain ⟨f3, v3⟩ := negOne_mul p.z hf.2.2 bz
  refine ⟨⟨f1, f2, f3⟩, ?_⟩
  unfold V3.mul ofV R3.neg
  simp only
  rw [v1, v2, v3]

theorem inCellXYZ_iff (c : Cell) (q : R3) : InCellXYZ c q ↔ InCell (rectOf c) (uvwR c.face q) := Iff.rfl

section main
variable {eE C : ℝ} (HE : EdgeSpec eE) (HR : RobustCover C)
include HE HR

/-- **LOWER BOUND** in the XYZ frame -/
theorem distance_lower (id : CellID) (hv : isValid id = true) (p : V3) (hp : PtOK p) (q : R3)
    (hq : InCellXYZ (cellFromCellID id) q) :
    Fin (distance (cellFromCellID id) p) ∧
    val (distance (cellFromCellID id) p) ≤ dist2 (ofV p) q + lowErr eE C := by
  obtain ⟨hf, hl, hn⟩ := hp
  have X := mkCtx id hv p (fin3_of_finite3 hf) hn
  rw [distance_eq_distUVW]
  have h := distUVW_lower HE HR X (by rw [ofV_uvw, uvwR_norm2]; exact hl) _ hq
  rw [ofV_uvw, uvwR_dist2] at h
  exact h

/-- **UPPER BOUND of `MaxDistance`** in the XYZ frame -/
theorem maxDistance_upper (hlow : lowErr eE C ≤ 1 / 2) (id : CellID) (hv : isValid id = true) (p : V3) (hp : PtOK p) (q : R3)
    (hq : InCellXYZ (cellFromCellID id) q) :
    Fin (maxDistance (cellFromCellID id) p) ∧
    dist2 (ofV p) q ≤ val (maxDistance (cellFromCellID id) p) + (lowErr eE C + 2 * vertErr + 6 * uR)
      + 2 * max 0 ((ofV p).norm2 - 1) + max 0 (1 - (ofV p).norm2) := by
  obtain ⟨hf, hl, hn⟩ := hp
  have hf3 := fin3_of_finite3 hf
  have X := mkCtx id hv p hf3 hn
  have hlo0 : 0 ≤ lowErr eE C := by
    obtain ⟨_, er⟩ := X.edgeL_val HE
    have : 0 ≤ eE + 27 * uR := le_trans (abs_nonneg _) er
    have : eE + 30 * uR ≤ lowErr eE C := le_max_left _ _
    have := uR_nonneg
    linarith
  have hv0 := vertErr_nonneg
  have hu := uR_nonneg
  have m1 := le_max_left 0 ((ofV p).norm2 - 1)
  have m2 := le_max_left 0 (1 - (ofV p).norm2)
  unfold maxDistance maxVertexDist
  simp only
  split
  · rename_i hle
    have h := maxVertex_upper X hle _ hq
    rw [ofV_uvw, uvwR_dist2, uvwR_norm2] at h
    exact ⟨h.1, by linarith [h.2]⟩
  · obtain ⟨hf', hneg⟩ := antipode p hf3 hn
    have hn' : (ofV (p.mul negOne)).norm2 ≤ 1 + 1 / 2 ^ 21 := by
      rw [hneg]; unfold R3.neg R3.norm2; simp only
      have := hn; unfold R3.norm2 at this; nlinarith
    have X' := mkCtx id hv (p.mul negOne) hf' hn'
    have hneg' : ofV (faceXYZtoUVW (cellFromCellID id).face (p.mul negOne)) =
        R3.neg (ofV (faceXYZtoUVW (cellFromCellID id).face p)) := by
      rw [ofV_uvw, ofV_uvw, hneg, uvwR_neg]
    rw [distance_eq_distUVW]
    have h := antipodal_upper HE HR X X' hneg' (by rw [ofV_uvw, uvwR_norm2]; exact hl) hlow _ hq
    rw [ofV_uvw, uvwR_dist2, uvwR_norm2] at h
    exact ⟨h.1, by linarith [h.2]⟩

end main

end S2Proofs.C12Dist
