/-
  C12Dist.OldModel — the faithful model of `uEdgeIsClosest` / `vEdgeIsClosest` / `distanceInternal` / `Distance`
  of s2/cell.go BEFORE repair D58 (tangential tests `p.Dot(dir0) > 0 && p.Dot(dir1) < 0` without margin), kept as a
  regression witness: `Counter.lean` shows (kernel-checked) that this code under-estimates the distance by 6.8e-8 for a
  level-30 cell and a target at a pole of an edge's great circle.  The current model is `S2.CellM` (with the margin
  `edgeIsClosestMargin = 32 * dblError`).  These definitions are the text of `S2.CellM` before the repair, verbatim.
-/
import S2.CellM

namespace S2Proofs.C12Dist
open S2 S2.CellM

def uEdgeIsClosestOld (c : Cell) (p : V3) (vHi : Bool) : Bool :=
  let u0 := c.uv.1.1
  let u1 := c.uv.1.2
  let v := if vHi then c.uv.2.2 else c.uv.2.1
  let dir0 : V3 := ⟨v * v + F64.one, (-u0) * v, -u0⟩
  let dir1 : V3 := ⟨v * v + F64.one, (-u1) * v, -u1⟩
  F64.gt (p.dot dir0) fzero && F64.lt (p.dot dir1) fzero

def vEdgeIsClosestOld (c : Cell) (p : V3) (uHi : Bool) : Bool :=
  let v0 := c.uv.2.1
  let v1 := c.uv.2.2
  let u := if uHi then c.uv.1.2 else c.uv.1.1
  let dir0 : V3 := ⟨(-u) * v0, u * u + F64.one, -v0⟩
  let dir1 : V3 := ⟨(-u) * v1, u * u + F64.one, -v1⟩
  F64.gt (p.dot dir0) fzero && F64.lt (p.dot dir1) fzero

def distanceInternalOld (c : Cell) (targetXYZ : V3) (toInterior : Bool) : F64 :=
  let t := faceXYZtoUVW c.face targetXYZ
  let d := dirs c t
  if F64.lt d.dir00 fzero && vEdgeIsClosestOld c t false then edgeDistance (-d.dir00) c.uv.1.1 t.y (c.uv.1.1 * t.x + t.z)
  else if F64.gt d.dir01 fzero && vEdgeIsClosestOld c t true then edgeDistance d.dir01 c.uv.1.2 t.y (c.uv.1.2 * t.x + t.z)
  else if F64.lt d.dir10 fzero && uEdgeIsClosestOld c t false then edgeDistance (-d.dir10) c.uv.2.1 t.x (c.uv.2.1 * t.y + t.z)
  else if F64.gt d.dir11 fzero && uEdgeIsClosestOld c t true then edgeDistance d.dir11 c.uv.2.2 t.x (c.uv.2.2 * t.y + t.z)
  else if d.inside then
    if toInterior then fzero
    else minChord (edgeDistance (-d.dir00) c.uv.1.1 t.y (c.uv.1.1 * t.x + t.z))
      [edgeDistance d.dir01 c.uv.1.2 t.y (c.uv.1.2 * t.x + t.z), edgeDistance (-d.dir10) c.uv.2.1 t.x (c.uv.2.1 * t.y + t.z), edgeDistance d.dir11 c.uv.2.2 t.x (c.uv.2.2 * t.y + t.z)]
  else minChord (vertexChordDist2 c t false false)
      [vertexChordDist2 c t true false, vertexChordDist2 c t false true, vertexChordDist2 c t true true]

/-- `Cell.Distance` before repair D58 -/
def distanceOld (c : Cell) (target : V3) : F64 := distanceInternalOld c target true

end S2Proofs.C12Dist
