/-
  C12Dist.TanArgs — the float dot products of `uEdgeIsClosest` / `vEdgeIsClosest` against the exact `uTan` / `vTan`:
  error ≤ 17·u for a unit-ish target and bounds in [-1,1].
-/
import S2Proofs.C12Dist.Args
import S2Proofs.FloatErr.RealCore

namespace S2Proofs.C12Dist
open S2 S2.CellM S2.Exact S2Proofs.FloatErr S2Proofs.F64Order S2Proofs.C16Acc

theorem abs_le_of_sq_le21' {x : ℝ} (h : x ^ 2 ≤ 1 + 1 / 2 ^ 21) : |x| ≤ 1 + 1 / 2 ^ 20 := by
  rw [abs_le]; constructor <;> nlinarith

theorem fin_one : Fin F64.one := by decide
theorem val_one : val F64.one = 1 := by
  have h : toInt F64.one = 2 ^ 1074 := by decide +kernel
  unfold val; rw [h]; push_cast; field_simp

/-- pure real part of the tangential dot product -/
theorem tan_real (x y z dx dy dz p1 p2 p3 s d X Y : ℝ)
    (bx : |x| ≤ 1 + 1 / 2 ^ 20) (by' : |y| ≤ 1 + 1 / 2 ^ 20) (bz : |z| ≤ 1 + 1 / 2 ^ 20)
    (hX : |X| ≤ 1) (hY : |Y| ≤ 2) (hdz : |dz| ≤ 1)
    (ex : |dx - X| ≤ (1001 / 1000) * uR) (ey : |dy - Y| ≤ (3002 / 1000) * uR)
    (h1 : Rnd uR eR (x * dx) p1) (h2 : Rnd uR eR (y * dy) p2) (h3 : Rnd uR eR (z * dz) p3)
    (hs : Rnd uR 0 (p1 + p2) s) (hd : Rnd uR 0 (s + p3) d) :
    |d - (x * X + y * Y + z * dz)| ≤ 17 * uR := by
  have hu := uR_nonneg
  have hus := uR_small
  have he := eR_tiny
  have he0 := eR_nonneg
  have h := dot3 hu he0 h1 h2 h3 hs hd
  have bdx : |dx| ≤ 1 + 1 / 2 ^ 20 := by
    have := abs_sub_abs_le_abs_sub dx X
    have : (1001 / 1000) * uR ≤ 1 / 2 ^ 20 := by
      have : (1001 / 1000 : ℝ) * (1 / 2 ^ 50) ≤ 1 / 2 ^ 20 := by norm_num
      nlinarith
    linarith
  have bdy : |dy| ≤ 2 + 1 / 2 ^ 20 := by
    have := abs_sub_abs_le_abs_sub dy Y
    have : (3002 / 1000) * uR ≤ 1 / 2 ^ 20 := by
      have : (3002 / 1000 : ℝ) * (1 / 2 ^ 50) ≤ 1 / 2 ^ 20 := by norm_num
      nlinarith
    linarith
  have t1 : |x * dx| ≤ (1 + 1 / 2 ^ 20) * (1 + 1 / 2 ^ 20) := by
    rw [abs_mul]; exact mul_le_mul bx bdx (abs_nonneg _) (by norm_num)
  have t2 : |y * dy| ≤ (1 + 1 / 2 ^ 20) * (2 + 1 / 2 ^ 20) := by
    rw [abs_mul]; exact mul_le_mul by' bdy (abs_nonneg _) (by norm_num)
  have t3 : |z * dz| ≤ (1 + 1 / 2 ^ 20) * 1 := by
    rw [abs_mul]; exact mul_le_mul bz hdz (abs_nonneg _) (by norm_num)
  have hT : |x * dx| + |y * dy| + |z * dz| ≤ 4001 / 1000 := by
    have : (1 + 1 / 2 ^ 20) * (1 + 1 / 2 ^ 20) + (1 + 1 / 2 ^ 20) * (2 + 1 / 2 ^ 20) + (1 + 1 / 2 ^ 20) * 1
        ≤ (4001 / 1000 : ℝ) := by norm_num
    linarith
  have hS : |x * dx + y * dy + z * dz| ≤ 4001 / 1000 := by
    have := abs_add_three (x * dx) (y * dy) (z * dz)
    linarith
  -- the dot3 bound
  have c1 : uR * (3 / 2 + uR / 2) ≤ (1501 / 1000) * uR := by nlinarith
  have c2 : uR * (1 + uR) * (3 / 2 + uR) ≤ (1501 / 1000) * uR := by nlinarith
  have c3 : (1 + uR) * (3 + 2 * uR) * eR ≤ (1 / 100) * uR := by
    have : (1 + uR) * (3 + 2 * uR) ≤ 4 := by nlinarith
    nlinarith
  have b1 : uR * (3 / 2 + uR / 2) * |x * dx + y * dy + z * dz| ≤ (1501 / 1000) * uR * (4001 / 1000) :=
    mul_le_mul c1 hS (abs_nonneg _) (by nlinarith)
  have b2 : uR * (1 + uR) * (3 / 2 + uR) * (|x * dx| + |y * dy| + |z * dz|) ≤ (1501 / 1000) * uR * (4001 / 1000) :=
    mul_le_mul c2 hT (by positivity) (by nlinarith)
  -- the perturbation of the direction
  have p1' : |x * dx - x * X| ≤ (1 + 1 / 2 ^ 20) * ((1001 / 1000) * uR) := by
    rw [← mul_sub, abs_mul]; exact mul_le_mul bx ex (abs_nonneg _) (by norm_num)
  have p2' : |y * dy - y * Y| ≤ (1 + 1 / 2 ^ 20) * ((3002 / 1000) * uR) := by
    rw [← mul_sub, abs_mul]; exact mul_le_mul by' ey (abs_nonneg _) (by norm_num)
  have e : d - (x * X + y * Y + z * dz) =
      (d - (x * dx + y * dy + z * dz)) + ((x * dx - x * X) + (y * dy - y * Y)) := by ring
  rw [e]
  have := abs_add_le (d - (x * dx + y * dy + z * dz)) ((x * dx - x * X) + (y * dy - y * Y))
  have := abs_add_le (x * dx - x * X) (y * dy - y * Y)
  nlinarith

/-- the float direction components: `(-u)*v`, `u*u + 1` -/
theorem dir_comps (u v : F64) (hu' : Fin u) (hv : Fin v) (bu : |val u| ≤ 1) (bv : |val v| ≤ 1) :
    Fin ((-u) * v) ∧ |val ((-u) * v) - (-(val u) * val v)| ≤ (1001 / 1000) * uR ∧
    Fin (u * u + F64.one) ∧ |val (u * u + F64.one) - (val u * val u + 1)| ≤ (3002 / 1000) * uR := by
  have H := stdModel
  have hu := uR_nonneg
  have hus := uR_small
  have he := eR_tiny
  have m1 : |val (-u) * val v| ≤ 1 := by
    rw [val_neg', abs_mul, abs_neg]; nlinarith [abs_nonneg (val u), abs_nonneg (val v)]
  obtain ⟨f1, r1, _⟩ := mul_step H (fin_neg' hu') hv m1 (by norm_num)
  unfold Rnd at r1
  rw [val_neg'] at r1 m1
  have m2 : |val u * val u| ≤ 1 := by
    rw [abs_mul]; nlinarith [abs_nonneg (val u)]
  obtain ⟨f2, r2, _⟩ := mul_step H hu' hu' m2 (by norm_num)
  unfold Rnd at r2
  have r2' : |val (u * u) - val u * val u| ≤ (1001 / 1000) * uR := by
    have : uR * |val u * val u| ≤ uR * 1 := mul_le_mul_of_nonneg_left m2 hu
    linarith
  have b2 : |val (u * u)| ≤ 1 + 1 / 2 ^ 20 := by
    have := abs_sub_abs_le_abs_sub (val (u * u)) (val u * val u)
    have : (1001 / 1000) * uR ≤ 1 / 2 ^ 20 := by
      have : (1001 / 1000 : ℝ) * (1 / 2 ^ 50) ≤ 1 / 2 ^ 20 := by norm_num
      nlinarith
    linarith
  have m3 : |val (u * u) + val F64.one| ≤ 2 + 1 / 2 ^ 20 := by
    rw [val_one]
    have := abs_add_le (val (u * u)) 1
    rw [abs_one] at this; linarith
  obtain ⟨f3, r3, _⟩ := add_step H f2 fin_one m3 (by norm_num)
  unfold Rnd at r3
  rw [val_one] at r3 m3
  refine ⟨f1, ?_, f3, ?_⟩
  · have : uR * |-val u * val v| ≤ uR * 1 := mul_le_mul_of_nonneg_left m1 hu
    linarith
  · have h1 : uR * |val (u * u) + 1| ≤ uR * (2 + 1 / 2 ^ 20) := mul_le_mul_of_nonneg_left m3 hu
    have e : val (u * u + F64.one) - (val u * val u + 1) =
        (val (u * u + F64.one) - (val (u * u) + 1)) + (val (u * u) - val u * val u) := by ring
    rw [e]
    have := abs_add_le (val (u * u + F64.one) - (val (u * u) + 1)) (val (u * u) - val u * val u)
    nlinarith

/-- a float dot product `t · ⟨d1, d2, d3⟩` as a rounding chain -/
theorem dot_chain (t : V3) (d1 d2 d3 : F64) (ht : Fin3 t) (f1 : Fin d1) (f2 : Fin d2) (f3 : Fin d3)
    (bx : |val t.x| ≤ 2) (by' : |val t.y| ≤ 2) (bz : |val t.z| ≤ 2)
    (b1 : |val d1| ≤ 3) (b2 : |val d2| ≤ 3) (b3 : |val d3| ≤ 3) :
    Fin (t.dot ⟨d1, d2, d3⟩) ∧
    ∃ p1 p2 p3 s : ℝ, Rnd uR eR (val t.x * val d1) p1 ∧ Rnd uR eR (val t.y * val d2) p2 ∧
      Rnd uR eR (val t.z * val d3) p3 ∧ Rnd uR 0 (p1 + p2) s ∧ Rnd uR 0 (s + p3) (val (t.dot ⟨d1, d2, d3⟩)) := by
  have H := stdModel
  obtain ⟨hx, hy, hz⟩ := ht
  have m1 : |val t.x * val d1| ≤ 6 := by rw [abs_mul]; nlinarith [abs_nonneg (val t.x), abs_nonneg (val d1)]
  have m2 : |val t.y * val d2| ≤ 6 := by rw [abs_mul]; nlinarith [abs_nonneg (val t.y), abs_nonneg (val d2)]
  have m3 : |val t.z * val d3| ≤ 6 := by rw [abs_mul]; nlinarith [abs_nonneg (val t.z), abs_nonneg (val d3)]
  obtain ⟨g1, r1, c1⟩ := mul_step H hx f1 m1 (by norm_num)
  obtain ⟨g2, r2, c2⟩ := mul_step H hy f2 m2 (by norm_num)
  obtain ⟨g3, r3, c3⟩ := mul_step H hz f3 m3 (by norm_num)
  have m4 : |val (t.x * d1) + val (t.y * d2)| ≤ 26 := by
    have := abs_add_le (val (t.x * d1)) (val (t.y * d2)); linarith
  obtain ⟨g4, r4, c4⟩ := add_step H g1 g2 m4 (by norm_num)
  have m5 : |val (t.x * d1 + t.y * d2) + val (t.z * d3)| ≤ 66 := by
    have := abs_add_le (val (t.x * d1 + t.y * d2)) (val (t.z * d3)); linarith
  obtain ⟨g5, r5, _⟩ := add_step H g4 g3 m5 (by norm_num)
  exact ⟨g5, _, _, _, _, r1, r2, r3, r4, r5⟩

/-- `p.Dot(dir)` of `vEdgeIsClosest` -/
theorem vTan_err (t : V3) (u v : F64) (ht : Fin3 t) (hu' : Fin u) (hv : Fin v) (bu : |val u| ≤ 1) (bv : |val v| ≤ 1)
    (bn : (ofV t).norm2 ≤ 1 + 1 / 2 ^ 21) :
    Fin (t.dot ⟨(-u) * v, u * u + F64.one, -v⟩) ∧
    |val (t.dot ⟨(-u) * v, u * u + F64.one, -v⟩) - vTan (val u) (val v) (ofV t)| ≤ 17 * uR := by
  have hus := uR_small
  unfold ofV R3.norm2 at bn; simp only at bn
  have bx : |val t.x| ≤ 1 + 1 / 2 ^ 20 := abs_le_of_sq_le21' (by nlinarith [sq_nonneg (val t.y), sq_nonneg (val t.z)])
  have by' : |val t.y| ≤ 1 + 1 / 2 ^ 20 := abs_le_of_sq_le21' (by nlinarith [sq_nonneg (val t.x), sq_nonneg (val t.z)])
  have bz : |val t.z| ≤ 1 + 1 / 2 ^ 20 := abs_le_of_sq_le21' (by nlinarith [sq_nonneg (val t.y), sq_nonneg (val t.x)])
  obtain ⟨f1, e1, f2, e2⟩ := dir_comps u v hu' hv bu bv
  have hX : |-(val u) * val v| ≤ 1 := by rw [abs_mul, abs_neg]; nlinarith [abs_nonneg (val u), abs_nonneg (val v)]
  have hY : |val u * val u + 1| ≤ 2 := by
    rw [abs_of_nonneg (by nlinarith [mul_self_nonneg (val u)])]
    have : val u * val u ≤ 1 := by
      have := abs_le.1 bu; nlinarith
    linarith
  have small1 : (1001 / 1000) * uR ≤ 1 := by nlinarith
  have small2 : (3002 / 1000) * uR ≤ 1 := by nlinarith
  have b1 : |val ((-u) * v)| ≤ 3 := by
    have := abs_sub_abs_le_abs_sub (val ((-u) * v)) (-(val u) * val v); linarith
  have b2 : |val (u * u + F64.one)| ≤ 3 := by
    have := abs_sub_abs_le_abs_sub (val (u * u + F64.one)) (val u * val u + 1); linarith
  have b3 : |val (-v)| ≤ 3 := by rw [val_neg', abs_neg]; linarith
  have c20 : (1 : ℝ) + 1 / 2 ^ 20 ≤ 2 := by norm_num
  obtain ⟨fd, p1, p2, p3, s, r1, r2, r3, r4, r5⟩ := dot_chain t _ _ _ ht f1 f2 (fin_neg' hv)
    (le_trans bx c20) (le_trans by' c20) (le_trans bz c20) b1 b2 b3
  refine ⟨fd, ?_⟩
  have hdz : |val (-v)| ≤ 1 := by rw [val_neg', abs_neg]; exact bv
  have h := tan_real (val t.x) (val t.y) (val t.z) _ _ (val (-v)) p1 p2 p3 s _ (-(val u) * val v) (val u * val u + 1)
    bx by' bz hX hY hdz e1 e2 r1 r2 r3 r4 r5
  have e : vTan (val u) (val v) (ofV t) =
      val t.x * (-(val u) * val v) + val t.y * (val u * val u + 1) + val t.z * val (-v) := by
    unfold vTan ofV; simp only; rw [val_neg']
  rw [e]; exact h

/-- `p.Dot(dir)` of `uEdgeIsClosest` -/
theorem uTan_err (t : V3) (v u : F64) (ht : Fin3 t) (hu' : Fin u) (hv : Fin v) (bu : |val u| ≤ 1) (bv : |val v| ≤ 1)
    (bn : (ofV t).norm2 ≤ 1 + 1 / 2 ^ 21) :
    Fin (t.dot ⟨v * v + F64.one, (-u) * v, -u⟩) ∧
    |val (t.dot ⟨v * v + F64.one, (-u) * v, -u⟩) - uTan (val v) (val u) (ofV t)| ≤ 17 * uR := by
  have hus := uR_small
  unfold ofV R3.norm2 at bn; simp only at bn
  have bx : |val t.x| ≤ 1 + 1 / 2 ^ 20 := abs_le_of_sq_le21' (by nlinarith [sq_nonneg (val t.y), sq_nonneg (val t.z)])
  have by' : |val t.y| ≤ 1 + 1 / 2 ^ 20 := abs_le_of_sq_le21' (by nlinarith [sq_nonneg (val t.x), sq_nonneg (val t.z)])
  have bz : |val t.z| ≤ 1 + 1 / 2 ^ 20 := abs_le_of_sq_le21' (by nlinarith [sq_nonneg (val t.y), sq_nonneg (val t.x)])
  obtain ⟨f1, e1, _, _⟩ := dir_comps u v hu' hv bu bv
  obtain ⟨_, _, f2, e2⟩ := dir_comps v u hv hu' bv bu
  have hX : |-(val u) * val v| ≤ 1 := by rw [abs_mul, abs_neg]; nlinarith [abs_nonneg (val u), abs_nonneg (val v)]
  have hY : |val v * val v + 1| ≤ 2 := by
    rw [abs_of_nonneg (by nlinarith [mul_self_nonneg (val v)])]
    have : val v * val v ≤ 1 := by
      have := abs_le.1 bv; nlinarith
    linarith
  have small1 : (1001 / 1000) * uR ≤ 1 := by nlinarith
  have small2 : (3002 / 1000) * uR ≤ 1 := by nlinarith
  have b1 : |val ((-u) * v)| ≤ 3 := by
    have := abs_sub_abs_le_abs_sub (val ((-u) * v)) (-(val u) * val v); linarith
  have b2 : |val (v * v + F64.one)| ≤ 3 := by
    have := abs_sub_abs_le_abs_sub (val (v * v + F64.one)) (val v * val v + 1); linarith
  have b3 : |val (-u)| ≤ 3 := by rw [val_neg', abs_neg]; linarith
  have c20 : (1 : ℝ) + 1 / 2 ^ 20 ≤ 2 := by norm_num
  obtain ⟨fd, p1, p2, p3, s, r1, r2, r3, r4, r5⟩ := dot_chain t _ _ _ ht f2 f1 (fin_neg' hu')
    (le_trans bx c20) (le_trans by' c20) (le_trans bz c20) b2 b1 b3
  refine ⟨fd, ?_⟩
  have hdz : |val (-u)| ≤ 1 := by rw [val_neg', abs_neg]; exact bu
  -- reorder: the roles of x and y are swapped with respect to `tan_real`
  have r4' : Rnd uR 0 (p2 + p1) s := by rw [add_comm p2 p1]; exact r4
  have h := tan_real (val t.y) (val t.x) (val t.z) _ _ (val (-u)) p2 p1 p3 s _ (-(val u) * val v) (val v * val v + 1)
    by' bx bz hX hY hdz e1 e2 r2 r1 r3 r4' r5
  have e : uTan (val v) (val u) (ofV t) =
      val t.y * (-(val u) * val v) + val t.x * (val v * val v + 1) + val t.z * val (-u) := by
    unfold uTan ofV; simp only; rw [val_neg']; ring
  rw [e]; exact h

end S2Proofs.C12Dist
