/-
  C12Dist.Counter — REGRESSION WITNESS for defect D58 (repaired): for the code BEFORE the repair
  (`OldModel.lean`: tangential tests without margin) the edge clauses of the proviso `ExactOK` were NECESSARY.
  For the leaf cell `0x151f46a85da62db5` (face 0) and the (unit to 1.4e-17) point `pX` the OLD float tangential test of
  the LEFT edge passes although the exact quantity `vTan u0 v1` is `+3.0e-17 > 0`; the old `Cell.Distance` returned the
  distance to the great circle of that edge, `1.999999965824041`, while EVERY point of the cell is at squared distance
  `≥ 2.00000003` from `pX` (true value 2.000000034175959): `6.8e-8` BELOW the true distance and not the distance to any
  point of the cell (reproduced against the unrepaired Go code).
  With the margin (current model `S2.CellM`) the same input falls through to the vertex branch and the value is
  `40000000049646e9 = 2.0000000341759585` (`counter_value_repaired`, the value the repaired Go code returns).
-/
import S2Proofs.C12Dist.Attained
import S2Proofs.C12Dist.OldModel
import S2Proofs.C12.Children
import Mathlib.Tactic.NormNum

namespace S2Proofs.C12Dist
open S2 S2.CellM S2.Exact S2Proofs.FloatErr S2Proofs.F64Order S2Proofs.C16Acc

def cX : Cell := cellFromCellID 0x151f46a85da62db5
def pX : V3 := ⟨⟨0x3fe2a80a50dbc9f0⟩, ⟨0xbfe9ffb2713669e0⟩, ⟨0xbe44895f347fad93⟩⟩

namespace Counter

/-- the cell as a literal record -/
def cellX : Cell :=
  { face := 0, level := 30, orientation := 3, id := 0x151f46a85da62db5,
    uv := ((⟨0x3fe6f6789fb13d05⟩, ⟨0x3fe6f678a0e0463c⟩), (⟨0x3fea98eb0f533021⟩, ⟨0x3fea98eb10922df4⟩)) }

theorem cX_eq : cX = cellX := by
  have h : S2Proofs.IsCell (0x151f46a85da62db5 : CellID) 30 := ⟨by decide, by decide, by decide⟩
  unfold cX cellX
  rw [S2Proofs.C12C.cellFromCellID_eq h]
  decide +kernel

theorem val_u0 : val ⟨0x3fe6f6789fb13d05⟩ = 6463447423335685 / 2 ^ 53 := by
  have h : toInt ⟨0x3fe6f6789fb13d05⟩ = 6463447423335685 * 2 ^ 1021 := by decide +kernel
  rw [val_of_toInt (j := 53) h (by norm_num)]; push_cast; ring
theorem val_u1 : val ⟨0x3fe6f678a0e0463c⟩ = 1615861860798863 / 2 ^ 51 := by
  have h : toInt ⟨0x3fe6f678a0e0463c⟩ = 1615861860798863 * 2 ^ 1023 := by decide +kernel
  rw [val_of_toInt (j := 51) h (by norm_num)]; push_cast; ring
theorem val_v0 : val ⟨0x3fea98eb0f533021⟩ = 7486484736323617 / 2 ^ 53 := by
  have h : toInt ⟨0x3fea98eb0f533021⟩ = 7486484736323617 * 2 ^ 1021 := by decide +kernel
  rw [val_of_toInt (j := 53) h (by norm_num)]; push_cast; ring
theorem val_v1 : val ⟨0x3fea98eb10922df4⟩ = 1871621189307261 / 2 ^ 51 := by
  have h : toInt ⟨0x3fea98eb10922df4⟩ = 1871621189307261 * 2 ^ 1023 := by decide +kernel
  rw [val_of_toInt (j := 51) h (by norm_num)]; push_cast; ring
theorem val_px : val ⟨0x3fe2a80a50dbc9f0⟩ = 328206990032031 / 2 ^ 49 := by
  have h : toInt ⟨0x3fe2a80a50dbc9f0⟩ = 328206990032031 * 2 ^ 1025 := by decide +kernel
  rw [val_of_toInt (j := 49) h (by norm_num)]; push_cast; ring
theorem val_py : val ⟨0xbfe9ffb2713669e0⟩ = -228688008950607 / 2 ^ 48 := by
  have h : toInt ⟨0xbfe9ffb2713669e0⟩ = -228688008950607 * 2 ^ 1026 := by decide +kernel
  rw [val_of_toInt (j := 48) h (by norm_num)]; push_cast; ring
theorem val_pz : val ⟨0xbe44895f347fad93⟩ = -5780541529894291 / 2 ^ 79 := by
  have h : toInt ⟨0xbe44895f347fad93⟩ = -5780541529894291 * 2 ^ 995 := by decide +kernel
  rw [val_of_toInt (j := 79) h (by norm_num)]; push_cast; ring
theorem val_d : val ⟨0x3ffffffff6d3722c⟩ = 2251799775206539 / 2 ^ 50 := by
  have h : toInt ⟨0x3ffffffff6d3722c⟩ = 2251799775206539 * 2 ^ 1024 := by decide +kernel
  rw [val_of_toInt (j := 50) h (by norm_num)]; push_cast; ring

/-- the rectangle of the cell and the target in the face frame, as rational literals -/
noncomputable def RX : RRect :=
  ⟨6463447423335685 / 2 ^ 53, 1615861860798863 / 2 ^ 51, 7486484736323617 / 2 ^ 53, 1871621189307261 / 2 ^ 51⟩
noncomputable def TX : R3 := ⟨-228688008950607 / 2 ^ 48, -5780541529894291 / 2 ^ 79, 328206990032031 / 2 ^ 49⟩

theorem rect_eq : rectOf cellX = RX := by
  show (⟨val ⟨0x3fe6f6789fb13d05⟩, val ⟨0x3fe6f678a0e0463c⟩, val ⟨0x3fea98eb0f533021⟩, val ⟨0x3fea98eb10922df4⟩⟩ : RRect) = _
  rw [val_u0, val_u1, val_v0, val_v1]; rfl

theorem T_eq : uvwR 0 (ofV pX) = TX := by
  show (⟨val ⟨0xbfe9ffb2713669e0⟩, val ⟨0xbe44895f347fad93⟩, val ⟨0x3fe2a80a50dbc9f0⟩⟩ : R3) = _
  rw [val_py, val_pz, val_px]; rfl

theorem RX_ok : RX.OK := by
  constructor <;> simp only [RX] <;> norm_num

theorem TX_norm2 : 1 ≤ TX.norm2 := by
  unfold R3.norm2; simp only [TX]; norm_num

/-- `t·V̂(x,y) ≤ −a/s` when the numerator is `≤ −a` and `1+x²+y² ≤ s²` -/
theorem dot_vhat_le (t : R3) (x y a s : ℝ) (ha : 0 ≤ a) (hs : 0 < s) (hnum : t.x * x + t.y * y + t.z ≤ -a)
    (hnn : Cover.nn x y ≤ s ^ 2) : R3.dot t (vhat x y) ≤ -(a / s) := by
  rw [Cover.dot_vhat]
  have hS := Cover.sqrt_nn_pos x y
  have hSs : Real.sqrt (Cover.nn x y) ≤ s := by
    rw [show s = Real.sqrt (s ^ 2) from (Real.sqrt_sq hs.le).symm]
    exact Real.sqrt_le_sqrt hnn
  rw [div_le_iff₀ hS]
  have h1 : a / s * Real.sqrt (Cover.nn x y) ≤ a / s * s :=
    mul_le_mul_of_nonneg_left hSs (div_nonneg ha hs.le)
  have h2 : a / s * s = a := by field_simp
  linarith

/-- pure real: if `t` has a dot product `≤ −B` with all four unit vertices, every cell point is at squared distance
    `≥ |t|² + 1 + 2B` -/
theorem far_real (r : RRect) (hr : r.OK) (t q : R3) (hq : InCell r q) (B : ℝ) (hB : 0 ≤ B)
    (h00 : R3.dot t (vhat r.u0 r.v0) ≤ -B) (h10 : R3.dot t (vhat r.u1 r.v0) ≤ -B)
    (h01 : R3.dot t (vhat r.u0 r.v1) ≤ -B) (h11 : R3.dot t (vhat r.u1 r.v1) ≤ -B) :
    t.norm2 + 1 + 2 * B ≤ dist2 t q := by
  obtain ⟨c00, c10, c01, c11, p00, p10, p01, p11, hsum, -, hdec⟩ := cell_combination r hr q hq
  rw [dist2_eq, hq.1, hdec t]
  have a00 := mul_le_mul_of_nonneg_left h00 p00
  have a10 := mul_le_mul_of_nonneg_left h10 p10
  have a01 := mul_le_mul_of_nonneg_left h01 p01
  have a11 := mul_le_mul_of_nonneg_left h11 p11
  have hs : B ≤ (c00 + c10 + c01 + c11) * B := le_mul_of_one_le_left hB hsum
  linarith

theorem num00 : TX.x * RX.u0 + TX.y * RX.v0 + TX.z ≤ -(25 / 10 ^ 9) := by simp only [TX, RX]; norm_num
theorem num10 : TX.x * RX.u1 + TX.y * RX.v0 + TX.z ≤ -(25 / 10 ^ 9) := by simp only [TX, RX]; norm_num
theorem num01 : TX.x * RX.u0 + TX.y * RX.v1 + TX.z ≤ -(25 / 10 ^ 9) := by simp only [TX, RX]; norm_num
theorem num11 : TX.x * RX.u1 + TX.y * RX.v1 + TX.z ≤ -(25 / 10 ^ 9) := by simp only [TX, RX]; norm_num
theorem nn00 : Cover.nn RX.u0 RX.v0 ≤ (16 / 10) ^ 2 := by unfold Cover.nn; simp only [RX]; norm_num
theorem nn10 : Cover.nn RX.u1 RX.v0 ≤ (16 / 10) ^ 2 := by unfold Cover.nn; simp only [RX]; norm_num
theorem nn01 : Cover.nn RX.u0 RX.v1 ≤ (16 / 10) ^ 2 := by unfold Cover.nn; simp only [RX]; norm_num
theorem nn11 : Cover.nn RX.u1 RX.v1 ≤ (16 / 10) ^ 2 := by unfold Cover.nn; simp only [RX]; norm_num

/-- every point of the rectangle `RX` is at squared distance `≥ 2 + 3.125e-8` from `TX` -/
theorem far_TX (q : R3) (hq : InCell RX q) : 2 + 3 / 10 ^ 8 ≤ dist2 TX q := by
  have hB : (0 : ℝ) ≤ 25 / 10 ^ 9 / (16 / 10) := by norm_num
  have h := far_real RX RX_ok TX q hq (25 / 10 ^ 9 / (16 / 10)) hB
    (dot_vhat_le TX _ _ _ _ (by norm_num) (by norm_num) num00 nn00)
    (dot_vhat_le TX _ _ _ _ (by norm_num) (by norm_num) num10 nn10)
    (dot_vhat_le TX _ _ _ _ (by norm_num) (by norm_num) num01 nn01)
    (dot_vhat_le TX _ _ _ _ (by norm_num) (by norm_num) num11 nn11)
  have hT := TX_norm2
  have e : (2 : ℝ) * (25 / 10 ^ 9 / (16 / 10)) = 3125 / 10 ^ 11 := by norm_num
  have e' : (3 : ℝ) / 10 ^ 8 ≤ 3125 / 10 ^ 11 := by norm_num
  linarith

/-- the OLD float test (no margin) of the left-edge branch passes … -/
theorem branch_taken :
    (F64.lt (dirs cellX (faceXYZtoUVW 0 pX)).dir00 fzero && vEdgeIsClosestOld cellX (faceXYZtoUVW 0 pX) false) = true := by
  decide +kernel

/-- … the test WITH the margin of repair D58 does not -/
theorem branch_not_taken_repaired : vEdgeIsClosest cellX (faceXYZtoUVW 0 pX) false = false := by
  decide +kernel

/-- … although the exact tangential quantity at the upper end of the edge has the wrong sign (`≈ +3.0e-17`) -/
theorem vTan_wrong : 0 < vTan RX.u0 RX.v1 TX := by
  unfold vTan; simp only [TX, RX]; norm_num

end Counter

open Counter

/-- what `Cell.Distance` returned BEFORE repair D58 (bit-exact; the unrepaired Go code returns the same) -/
theorem counter_value : distanceOld cX pX = ⟨0x3ffffffff6d3722c⟩ := by
  rw [cX_eq]
  decide +kernel

/-- what `Cell.Distance` returns AFTER the repair (bit-exact; the repaired Go code returns the same): vertex branch -/
theorem counter_value_repaired : distance cX pX = ⟨0x40000000049646e9⟩ ∧ distanceBranch cX pX = 5 := by
  rw [cX_eq]
  constructor <;> decide +kernel

/-- every point of the cell is at squared distance `≥ 2.00000003` from `pX` -/
theorem counter_truth (q : R3) (hq : InCellXYZ cX q) : 2 + 3 / 10 ^ 8 ≤ dist2 (ofV pX) q := by
  unfold InCellXYZ at hq
  rw [cX_eq, rect_eq] at hq
  have hq' : InCell RX (uvwR 0 q) := hq
  have h := far_TX _ hq'
  rw [← T_eq, uvwR_dist2] at h
  exact h

/-- the value reported before the repair is `≤ 1.99999997` -/
theorem counter_gap : val (distanceOld cX pX) ≤ 2 - 3 / 10 ^ 8 := by
  rw [counter_value, val_d]; norm_num

/-- before the repair the reported value was more than `6e-8` below the distance to EVERY point of the cell: not attained -/
theorem counter_not_attained (q : R3) (hq : InCellXYZ cX q) :
    6 / 10 ^ 8 ≤ dist2 (ofV pX) q - val (distanceOld cX pX) := by
  have h1 := counter_truth q hq
  have h2 := counter_gap
  linarith

/-- the counterexample satisfies all standing assumptions `Ctx` of `distUVW_attained` (and `0 < |t|²`) -/
theorem counter_ctx : Ctx cX (faceXYZtoUVW cX.face pX) ∧ 0 < (ofV (faceXYZtoUVW cX.face pX)).norm2 := by
  rw [cX_eq]
  have e : ofV (faceXYZtoUVW cellX.face pX) = TX := by
    rw [ofV_uvw]; exact T_eq
  refine ⟨⟨by decide, by decide, by decide, by decide, ?_, ?_, ?_, ⟨by decide, by decide, by decide⟩, ?_⟩, ?_⟩
  · rw [rect_eq]; exact RX_ok
  · rw [rect_eq]; simp only [RX]; norm_num
  · rw [rect_eq]; simp only [RX]; norm_num
  · rw [e]; unfold R3.norm2; simp only [TX]; norm_num
  · rw [e]; have := TX_norm2; linarith

/-- the conclusion of `distUVW_attained` FAILED for the old code on the counterexample with any error bound up to `5e-8`
    (the proved bound `max (eE + 27u) vertErr + (|t|−1)²` is of the order `1e-14`) -/
theorem counter_attained_fails :
    ¬ ∃ q : R3, InCell (rectOf cX) q ∧
      |val (distanceOld cX pX) - min 4 (dist2 (ofV (faceXYZtoUVW cX.face pX)) q)| ≤ 5 / 10 ^ 8 := by
  rintro ⟨q, hq, h⟩
  have hg := counter_gap
  rw [cX_eq] at hq
  have e : ofV (faceXYZtoUVW cX.face pX) = TX := by
    rw [cX_eq, ofV_uvw]; exact T_eq
  rw [e] at h
  rw [rect_eq] at hq
  have hf := far_TX q hq
  have hm : (2 : ℝ) + 3 / 10 ^ 8 ≤ min 4 (dist2 TX q) := le_min (by norm_num) hf
  have := (abs_le.1 h).1
  linarith

/-- the edge clauses of the proviso with the OLD float tests -/
def EdgeTestsExactOld (c : Cell) (t : V3) : Prop :=
  ((F64.lt (dirs c t).dir00 fzero && vEdgeIsClosestOld c t false) = true →
      0 < vTan (rectOf c).u0 (rectOf c).v0 (ofV t) ∧ vTan (rectOf c).u0 (rectOf c).v1 (ofV t) < 0) ∧
  ((F64.gt (dirs c t).dir01 fzero && vEdgeIsClosestOld c t true) = true →
      0 < vTan (rectOf c).u1 (rectOf c).v0 (ofV t) ∧ vTan (rectOf c).u1 (rectOf c).v1 (ofV t) < 0) ∧
  ((F64.lt (dirs c t).dir10 fzero && uEdgeIsClosestOld c t false) = true →
      0 < uTan (rectOf c).v0 (rectOf c).u0 (ofV t) ∧ uTan (rectOf c).v0 (rectOf c).u1 (ofV t) < 0) ∧
  ((F64.gt (dirs c t).dir11 fzero && uEdgeIsClosestOld c t true) = true →
      0 < uTan (rectOf c).v1 (rectOf c).u0 (ofV t) ∧ uTan (rectOf c).v1 (rectOf c).u1 (ofV t) < 0)

/-- before the repair the float tests of the branch taken did not agree with the exact quantities … -/
theorem counter_not_exactOK : ¬ EdgeTestsExactOld cX (faceXYZtoUVW cX.face pX) := by
  intro h
  rw [cX_eq] at h
  have h1 := (h.1 branch_taken).2
  have e : ofV (faceXYZtoUVW cellX.face pX) = TX := by
    rw [ofV_uvw]; exact T_eq
  rw [e, rect_eq] at h1
  exact absurd h1 (not_lt.2 vTan_wrong.le)

/-- … after the repair they do, on the same input as on every other (`edge_tests_exact`) -/
theorem counter_exactOK_repaired : EdgeTestsExact cX (faceXYZtoUVW cX.face pX) := edge_tests_exact counter_ctx.1

end S2Proofs.C12Dist
