/-
  C12Dist.Spec — shared vocabulary of the distance analysis of `Cell` (C12, point target).

  Everything is stated in the (u,v,w) frame of the cell's face (`faceXYZtoUVW` is a signed permutation of the
  coordinates: exact in floating point and an isometry).  A cell with uv-rectangle `[u0,u1]×[v0,v1]` is the set of
  UNIT vectors `q` with `q.z > 0`, `u0·q.z ≤ q.x ≤ u1·q.z`, `v0·q.z ≤ q.y ≤ v1·q.z` (`InCell`) — the same set
  as the judge's `Quad.has` (the four edge-plane inequalities; for `u0 < u1` they force `q.z > 0`).

  A chord angle is a squared Euclidean distance: `dist2 p q = |p − q|²`.  The target `p` is an arbitrary point
  of ℝ³ ("unit-ish": the code never normalises it); all statements are about the Euclidean distance from the
  POINT `p` to unit vectors of the cell, which for `|p| = 1` is the chord distance on the sphere.  This is what
  the code computes: `edgeDistance` is EXACTLY `|p − c|²` for the closest point `c` of the edge's great circle,
  also for non-unit `p`, and `vertexChordDist2` is `|p − V̂|²`.
-/
import S2Proofs.C16Acc.Vec
import S2.CellM
import S2Proofs.F64Order
import S2Proofs.F64Sym
import S2Proofs.FloatErr.RoundNE

namespace S2Proofs.C12Dist
open S2 S2.CellM S2Proofs.FloatErr S2Proofs.F64Order S2Proofs.C16Acc

/-- a uv-rectangle with real bounds -/
structure RRect where
  u0 : ℝ
  u1 : ℝ
  v0 : ℝ
  v1 : ℝ

/-- the rectangle of a cell: the exact values of its four float bounds -/
noncomputable def rectOf (c : Cell) : RRect := ⟨val c.uv.1.1, val c.uv.1.2, val c.uv.2.1, val c.uv.2.2⟩

/-- non-degenerate rectangle inside the face square (true for every valid cell: `CellOK.lean`) -/
structure RRect.OK (r : RRect) : Prop where
  u0_ge : -1 ≤ r.u0
  u_lt : r.u0 < r.u1
  u1_le : r.u1 ≤ 1
  v0_ge : -1 ≤ r.v0
  v_lt : r.v0 < r.v1
  v1_le : r.v1 ≤ 1

/-- the unit vector `q` (face frame) is a point of the cell -/
def InCell (r : RRect) (q : R3) : Prop :=
  q.norm2 = 1 ∧ 0 < q.z ∧ r.u0 * q.z ≤ q.x ∧ q.x ≤ r.u1 * q.z ∧ r.v0 * q.z ≤ q.y ∧ q.y ≤ r.v1 * q.z

/-- … and lies on the cell's boundary -/
def OnBoundary (r : RRect) (q : R3) : Prop :=
  InCell r q ∧ (q.x = r.u0 * q.z ∨ q.x = r.u1 * q.z ∨ q.y = r.v0 * q.z ∨ q.y = r.v1 * q.z)

/-- squared Euclidean distance = chord angle -/
def dist2 (p q : R3) : ℝ := (R3.sub p q).norm2

theorem dist2_eq (p q : R3) : dist2 p q = p.norm2 + q.norm2 - 2 * R3.dot p q := by
  unfold dist2 R3.sub R3.norm2 R3.dot; ring

/-- the unit vector of the direction `(x, y, 1)` (a cell vertex, a point of an edge) -/
noncomputable def vhat (x y : ℝ) : R3 := R3.smul (1 / Real.sqrt (1 + x ^ 2 + y ^ 2)) ⟨x, y, 1⟩

/-! ### the exact (real-valued) quantities of `distanceInternal` for a target `t` in the face frame -/

/-- `dir00`, `dir01`, `dir10`, `dir11` in exact arithmetic -/
def sL (r : RRect) (t : R3) : ℝ := t.x - t.z * r.u0
def sR (r : RRect) (t : R3) : ℝ := t.x - t.z * r.u1
def sB (r : RRect) (t : R3) : ℝ := t.y - t.z * r.v0
def sT (r : RRect) (t : R3) : ℝ := t.y - t.z * r.v1

/-- `p.Dot(dir)` of `vEdgeIsClosest` (edge `u = const`, end point `v`) in exact arithmetic -/
def vTan (u v : ℝ) (t : R3) : ℝ := t.x * (-u * v) + t.y * (u * u + 1) + t.z * (-v)
/-- `p.Dot(dir)` of `uEdgeIsClosest` (edge `v = const`, end point `u`) in exact arithmetic -/
def uTan (v u : ℝ) (t : R3) : ℝ := t.x * (v * v + 1) + t.y * (-u * v) + t.z * (-u)

/-- the four edge tests of `distanceInternal` in exact arithmetic -/
def ExL (r : RRect) (t : R3) : Prop := sL r t < 0 ∧ 0 < vTan r.u0 r.v0 t ∧ vTan r.u0 r.v1 t < 0
def ExR (r : RRect) (t : R3) : Prop := 0 < sR r t ∧ 0 < vTan r.u1 r.v0 t ∧ vTan r.u1 r.v1 t < 0
def ExB (r : RRect) (t : R3) : Prop := sB r t < 0 ∧ 0 < uTan r.v0 r.u0 t ∧ uTan r.v0 r.u1 t < 0
def ExT (r : RRect) (t : R3) : Prop := 0 < sT r t ∧ 0 < uTan r.v1 r.u0 t ∧ uTan r.v1 r.u1 t < 0
/-- the `inside` flag in exact arithmetic -/
def ExInside (r : RRect) (t : R3) : Prop := 0 ≤ sL r t ∧ sR r t ≤ 0 ∧ 0 ≤ sB r t ∧ sT r t ≤ 0

/-- `edgeDistance` in exact arithmetic -/
noncomputable def edgeReal (ij uv along w : ℝ) : ℝ :=
  ij ^ 2 / (1 + uv ^ 2) + (1 - Real.sqrt (along ^ 2 + w ^ 2 / (1 + uv ^ 2))) ^ 2

/-- the largest of the four `t · V̂_k` (V̂_k the unit vertices) -/
noncomputable def maxVertexDot (r : RRect) (t : R3) : ℝ :=
  max (max (R3.dot t (vhat r.u0 r.v0)) (R3.dot t (vhat r.u1 r.v0)))
      (max (R3.dot t (vhat r.u0 r.v1)) (R3.dot t (vhat r.u1 r.v1)))

noncomputable def minVertexDot (r : RRect) (t : R3) : ℝ :=
  min (min (R3.dot t (vhat r.u0 r.v0)) (R3.dot t (vhat r.u1 r.v0)))
      (min (R3.dot t (vhat r.u0 r.v1)) (R3.dot t (vhat r.u1 r.v1)))

/-! ### the face frame on real vectors -/

/-- `faceXYZtoUVW` on real vectors -/
def uvwR (face : Nat) (p : R3) : R3 :=
  match face with
  | 0 => ⟨p.y, p.z, p.x⟩
  | 1 => ⟨-p.x, p.z, p.y⟩
  | 2 => ⟨-p.x, -p.y, p.z⟩
  | 3 => ⟨-p.z, -p.y, -p.x⟩
  | 4 => ⟨-p.z, p.x, -p.y⟩
  | _ => ⟨p.y, p.x, -p.z⟩

theorem uvwR_norm2 (f : Nat) (p : R3) : (uvwR f p).norm2 = p.norm2 := by
  unfold uvwR R3.norm2; split <;> ring

theorem uvwR_sub (f : Nat) (p q : R3) : uvwR f (R3.sub p q) = R3.sub (uvwR f p) (uvwR f q) := by
  unfold uvwR R3.sub; split <;> (ext <;> simp <;> ring)

theorem uvwR_dist2 (f : Nat) (p q : R3) : dist2 (uvwR f p) (uvwR f q) = dist2 p q := by
  unfold dist2; rw [← uvwR_sub, uvwR_norm2]

theorem ofV_uvw (f : Nat) (p : V3) : ofV (faceXYZtoUVW f p) = uvwR f (ofV p) := by
  unfold faceXYZtoUVW uvwR ofV
  have hn : ∀ x : F64, val (-x) = - val x := fun x => val_neg x
  split <;> simp [hn]

theorem fin3_uvw (f : Nat) {p : V3} (h : Fin3 p) : Fin3 (faceXYZtoUVW f p) := by
  obtain ⟨hx, hy, hz⟩ := h
  have hn : ∀ x : F64, Fin x → Fin (-x) := fun x hx => (S2Proofs.F64Sym.isFinite_neg x).2 hx
  unfold faceXYZtoUVW Fin3
  split <;> simp only <;> refine ⟨?_, ?_, ?_⟩ <;> first | assumption | (apply hn; assumption)

/-- a point of the cell in the XYZ frame -/
def InCellXYZ (c : Cell) (q : R3) : Prop := InCell (rectOf c) (uvwR c.face q)
def OnBoundaryXYZ (c : Cell) (q : R3) : Prop := OnBoundary (rectOf c) (uvwR c.face q)

end S2Proofs.C12Dist
