/-
  C12Dist.CellOK — every valid cell id gives a cell whose four uv bounds are finite floats, whose uv rectangle
  (exact real values of the bounds) is non-degenerate and inside `[-1,1]²`, and whose face is `< 6`.

  The bounds of the cell of `IsCell x n` are `stToUV (g (I·2^m))`, `stToUV (g ((I+1)·2^m))` (`m = 30 − n`,
  `g k` = the float `k/2^30`; `cell_bound_is_square`).  `stToUV (g k)` is within `2E` (`E = 2^-53`) of the real
  value `uReal k`, and consecutive `uReal` differ by at least `(1/3)·2^-29`; so two different grid points give
  float bounds that differ by at least `(1/3)·2^-29 − 4E ≥ 2^-31`.
-/
import S2Proofs.C12Dist.Spec
import S2Proofs.Properties.C12
import S2Proofs.C12.MarginCoord
import Mathlib.Data.Real.Basic
import Mathlib.Tactic.Linarith
import Mathlib.Tactic.NormNum
import Mathlib.Tactic.Positivity

namespace S2Proofs.C12Dist
open S2 S2.CellID S2.STUV S2.CellM S2Proofs.F64Order

namespace CellOK
open S2Proofs.C12M S2Proofs.C12ST S2Proofs.C12C S2Proofs.C12H S2Proofs.C12

/-- the real value of a float is the cast of its rational value -/
theorem val_bridge (x : F64) : FloatErr.val x = ((F64Round.val x : ℚ) : ℝ) := by
  unfold FloatErr.val F64Round.val F64Round.U
  push_cast
  rfl

/-- the real map on the grid increases by at least `(1/3)·2^-29` per grid step (the proof of `uReal_gap` with the
    constant it really gives) -/
theorem uReal_gap' (k1 k2 : Nat) (h12 : k1 < k2) (hk : k2 ≤ 2 ^ 30) : uReal k1 + 1 / 2 ^ 29 / 3 ≤ uReal k2 := by
  have hq12 : (k1 : ℚ) + 1 ≤ k2 := by exact_mod_cast h12
  have hq2 : (k2 : ℚ) ≤ 2 ^ 30 := by exact_mod_cast hk
  have key : ∀ a b : ℚ, 1 ≤ a → a + 1 / 2 ^ 29 ≤ b → (a * a - 1) / 3 + 1 / 2 ^ 29 / 3 ≤ (b * b - 1) / 3 := by
    intro a b ha hab
    have h0 : (0 : ℚ) < 1 / 2 ^ 29 := by positivity
    nlinarith
  unfold uReal
  by_cases h2 : 2 ^ 29 ≤ k2
  · rw [if_pos h2]
    have hc2 : (k2 : ℚ) / 2 ^ 29 = (k2 : ℚ) * (1 / 2 ^ 29) := by ring
    by_cases h1 : 2 ^ 29 ≤ k1
    · rw [if_pos h1]
      have hq1 : (2 : ℚ) ^ 29 ≤ k1 := by exact_mod_cast h1
      have ha : (1 : ℚ) ≤ (k1 : ℚ) / 2 ^ 29 := by rw [le_div_iff₀ (by positivity)]; linarith
      have hab : (k1 : ℚ) / 2 ^ 29 + 1 / 2 ^ 29 ≤ (k2 : ℚ) / 2 ^ 29 := by
        rw [← add_div]; exact div_le_div_of_nonneg_right hq12 (by positivity)
      have := key _ _ ha hab
      linarith
    · rw [if_neg h1]
      have h1' : k1 < 2 ^ 29 := not_le.1 h1
      have hj : ((2 ^ 30 - k1 : Nat) : ℚ) = 2 ^ 30 - (k1 : ℚ) := by
        rw [Nat.cast_sub (by omega)]; push_cast; ring
      have hq1 : (k1 : ℚ) + 1 ≤ 2 ^ 29 := by exact_mod_cast h1'
      have hq2' : (2 : ℚ) ^ 29 ≤ k2 := by exact_mod_cast h2
      have hb : (1 : ℚ) + 1 / 2 ^ 29 ≤ ((2 ^ 30 - k1 : Nat) : ℚ) / 2 ^ 29 := by
        rw [hj, le_div_iff₀ (by positivity)]
        have : ((1 : ℚ) + 1 / 2 ^ 29) * 2 ^ 29 = 2 ^ 29 + 1 := by norm_num
        rw [this]; linarith
      have := key 1 _ (le_refl _) hb
      have hb2 : (1 : ℚ) ≤ (k2 : ℚ) / 2 ^ 29 := by rw [le_div_iff₀ (by positivity)]; linarith
      have : (0 : ℚ) ≤ ((k2 : ℚ) / 2 ^ 29 * ((k2 : ℚ) / 2 ^ 29) - 1) / 3 := by nlinarith
      linarith
  · rw [if_neg h2]
    have h2' : k2 < 2 ^ 29 := not_le.1 h2
    have h1 : ¬ 2 ^ 29 ≤ k1 := by omega
    rw [if_neg h1]
    have hj1 : ((2 ^ 30 - k1 : Nat) : ℚ) = 2 ^ 30 - (k1 : ℚ) := by
      rw [Nat.cast_sub (by omega)]; push_cast; ring
    have hj2 : ((2 ^ 30 - k2 : Nat) : ℚ) = 2 ^ 30 - (k2 : ℚ) := by
      rw [Nat.cast_sub (by omega)]; push_cast; ring
    have hq2' : (k2 : ℚ) ≤ 2 ^ 29 := by exact_mod_cast (le_of_lt h2')
    have ha : (1 : ℚ) ≤ ((2 ^ 30 - k2 : Nat) : ℚ) / 2 ^ 29 := by
      rw [hj2, le_div_iff₀ (by positivity)]; linarith
    have hab : ((2 ^ 30 - k2 : Nat) : ℚ) / 2 ^ 29 + 1 / 2 ^ 29 ≤ ((2 ^ 30 - k1 : Nat) : ℚ) / 2 ^ 29 := by
      rw [← add_div, hj1, hj2]; exact div_le_div_of_nonneg_right (by linarith) (by positivity)
    have := key _ _ ha hab
    linarith

/-- `stToUV` is STRICTLY monotone on the grid, with a gap of at least `2^-31` (rational values) -/
theorem stToUV_g_gapQ (k1 k2 : Nat) (h12 : k1 < k2) (hk : k2 ≤ 2 ^ 30) :
    F64Round.val (stToUV (g k1)) + 1 / 2 ^ 31 ≤ F64Round.val (stToUV (g k2)) := by
  have c1 := stToUV_g_close k1 (by omega)
  have c2 := stToUV_g_close k2 hk
  have gap := uReal_gap' k1 k2 h12 hk
  rw [abs_le] at c1 c2
  have hE : (1 : ℚ) / 2 ^ 31 + 4 * E ≤ 1 / 2 ^ 29 / 3 := by unfold E; norm_num
  linarith

/-- the same on the real values -/
theorem stToUV_g_gap (k1 k2 : Nat) (h12 : k1 < k2) (hk : k2 ≤ 2 ^ 30) :
    FloatErr.val (stToUV (g k1)) + 1 / 2 ^ 31 ≤ FloatErr.val (stToUV (g k2)) := by
  have h := stToUV_g_gapQ k1 k2 h12 hk
  rw [val_bridge, val_bridge]
  have : (((F64Round.val (stToUV (g k1)) + 1 / 2 ^ 31 : ℚ)) : ℝ) ≤ ((F64Round.val (stToUV (g k2)) : ℚ) : ℝ) :=
    Rat.cast_le.2 h
  push_cast at this
  exact this

theorem stToUV_g_ge (k : Nat) (hk : k ≤ 2 ^ 30) : -1 ≤ FloatErr.val (stToUV (g k)) := by
  have h := stToUV_g_mono 0 k (Nat.zero_le _) hk
  rw [stToUV_g_zero, F64Round.val_neg, F64Round.val_one] at h
  rw [val_bridge]
  have : (((-1 : ℚ)) : ℝ) ≤ ((F64Round.val (stToUV (g k)) : ℚ) : ℝ) := Rat.cast_le.2 h
  push_cast at this
  exact this

theorem stToUV_g_le (k : Nat) (hk : k ≤ 2 ^ 30) : FloatErr.val (stToUV (g k)) ≤ 1 := by
  have h := stToUV_g_mono k (2 ^ 30) hk (le_refl _)
  rw [stToUV_g_one, F64Round.val_one] at h
  rw [val_bridge]
  have : ((F64Round.val (stToUV (g k)) : ℚ) : ℝ) ≤ ((1 : ℚ) : ℝ) := Rat.cast_le.2 h
  push_cast at this
  exact this

/-- one side (`u` or `v`) of the bound of the ij-square `[I·2^m, (I+1)·2^m]` -/
theorem side (I m : Nat) (h : (I + 1) * 2 ^ m ≤ 2 ^ 30) :
    Fin (stToUV (ijToSTMin ((I * 2 ^ m : Nat) : Int))) ∧
    Fin (stToUV (ijToSTMin (((I + 1) * 2 ^ m : Nat) : Int))) ∧
    -1 ≤ FloatErr.val (stToUV (ijToSTMin ((I * 2 ^ m : Nat) : Int))) ∧
    FloatErr.val (stToUV (ijToSTMin ((I * 2 ^ m : Nat) : Int))) + 1 / 2 ^ 31 ≤
      FloatErr.val (stToUV (ijToSTMin (((I + 1) * 2 ^ m : Nat) : Int))) ∧
    FloatErr.val (stToUV (ijToSTMin (((I + 1) * 2 ^ m : Nat) : Int))) ≤ 1 := by
  have hm : 0 < 2 ^ m := Nat.two_pow_pos m
  have hlt : I * 2 ^ m < (I + 1) * 2 ^ m := by rw [Nat.add_mul]; omega
  have hlo : I * 2 ^ m ≤ 2 ^ 30 := by omega
  exact ⟨fin_stToUV_g _ hlo, fin_stToUV_g _ h, stToUV_g_ge _ hlo, stToUV_g_gap _ _ hlt h, stToUV_g_le _ h⟩

theorem square_le {I n : Nat} (hn : n ≤ 30) (hI : I < 2 ^ n) : (I + 1) * 2 ^ (30 - n) ≤ 2 ^ 30 := by
  have h1 : (I + 1) * 2 ^ (30 - n) ≤ 2 ^ n * 2 ^ (30 - n) := Nat.mul_le_mul_right _ hI
  have h2 : 2 ^ n * 2 ^ (30 - n) = 2 ^ 30 := by rw [← Nat.pow_add]; congr 1; omega
  omega

end CellOK

open CellOK in
/-- **every valid cell has finite bounds, a uv rectangle of width ≥ 2^-31 in both directions inside `[-1,1]²`, and
    a face `< 6`** (the quantitative form of `cellOK`) -/
theorem cellOK_gap (id : CellID) (hv : isValid id = true) :
    Fin (cellFromCellID id).uv.1.1 ∧ Fin (cellFromCellID id).uv.1.2 ∧ Fin (cellFromCellID id).uv.2.1 ∧ Fin (cellFromCellID id).uv.2.2 ∧
    (rectOf (cellFromCellID id)).OK ∧ (cellFromCellID id).face < 6 ∧
    1 / 2 ^ 31 ≤ (rectOf (cellFromCellID id)).u1 - (rectOf (cellFromCellID id)).u0 ∧
    1 / 2 ^ 31 ≤ (rectOf (cellFromCellID id)).v1 - (rectOf (cellFromCellID id)).v0 := by
  obtain ⟨n, h⟩ := (isValid_iff id).1 hv
  obtain ⟨huv, hface⟩ := S2Proofs.C12.cell_bound_is_square h
  obtain ⟨hI, hJ, -⟩ := S2Proofs.C12H.prefixState_bounds id n
  obtain ⟨fu0, fu1, u0ge, ugap, u1le⟩ := side _ _ (square_le h.k_le hI)
  obtain ⟨fv0, fv1, v0ge, vgap, v1le⟩ := side _ _ (square_le h.k_le hJ)
  have hp : (0 : ℝ) < 1 / 2 ^ 31 := by positivity
  unfold rectOf
  rw [huv, hface]
  unfold S2Proofs.C12C.boundOf
  simp only
  refine ⟨fu0, fu1, fv0, fv1, ⟨u0ge, by linarith, u1le, v0ge, by linarith, v1le⟩, h.face_lt6, by linarith, by linarith⟩

/-- **every valid cell has a finite, non-degenerate uv rectangle in `[-1,1]²`** -/
theorem cellOK (id : CellID) (hv : isValid id = true) :
    Fin (cellFromCellID id).uv.1.1 ∧ Fin (cellFromCellID id).uv.1.2 ∧ Fin (cellFromCellID id).uv.2.1 ∧ Fin (cellFromCellID id).uv.2.2 ∧
    (rectOf (cellFromCellID id)).OK ∧ (cellFromCellID id).face < 6 := by
  obtain ⟨a, b, c, d, e, f, -, -⟩ := cellOK_gap id hv
  exact ⟨a, b, c, d, e, f⟩

-- non-vacuity: a face cell, a level-29 cell and a leaf are valid
example : isValid (0x3000000000000000 : CellID) = true ∧ isValid (0x5555555555555554 : CellID) = true ∧
    isValid (0x3000000000000001 : CellID) = true := by decide

end S2Proofs.C12Dist
