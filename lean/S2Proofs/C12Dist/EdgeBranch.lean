/-
  C12Dist.EdgeBranch — one edge branch of `distanceInternal`: the float value of
  `edgeDistance (±d) k y (k·a + z)` with `d = a − z·k` against `edgeReal s k y w` on the EXACT frame coordinates
  `s = a − z·k`, `w = k·a + z`, parametrised by the specification `EdgeSpec` of `edgeDistance` (proved in `EdgeErr.lean`).
-/
import S2Proofs.C12Dist.Args

namespace S2Proofs.C12Dist
open S2 S2.CellM S2Proofs.FloatErr S2Proofs.F64Order S2Proofs.C16Acc

/-- the specification of the float `edgeDistance` with absolute error `eE` (instance: `EdgeErr.edgeDistance_err`) -/
def EdgeSpec (eE : ℝ) : Prop :=
  ∀ ij uv along w : F64, Fin ij → Fin uv → Fin along → Fin w → |val uv| ≤ 1 →
    val ij ^ 2 / (1 + val uv ^ 2) + val along ^ 2 + val w ^ 2 / (1 + val uv ^ 2) ≤ 1 + 1 / 2 ^ 20 →
    Fin (edgeDistance ij uv along w) ∧
    |val (edgeDistance ij uv along w) - edgeReal (val ij) (val uv) (val along) (val w)| ≤ eE

theorem abs_le_of_sq_le21 {x : ℝ} (h : x ^ 2 ≤ 1 + 1 / 2 ^ 21) : |x| ≤ 1 + 1 / 2 ^ 20 := by
  rw [abs_le]; constructor <;> nlinarith

theorem edgeReal_neg (a u y w : ℝ) : edgeReal (-a) u y w = edgeReal a u y w := by
  unfold edgeReal; rw [neg_sq]

/-- pure real part: float arguments within `3.1u` of the exact frame coordinates -/
theorem edge_value_real (k y a z dv wv : ℝ) (bk : |k| ≤ 1) (bn : a ^ 2 + y ^ 2 + z ^ 2 ≤ 1 + 1 / 2 ^ 21)
    (ed : |dv - (a - z * k)| ≤ (31 / 10) * uR) (ew : |wv - (k * a + z)| ≤ (31 / 10) * uR) :
    dv ^ 2 / (1 + k ^ 2) + y ^ 2 + wv ^ 2 / (1 + k ^ 2) ≤ 1 + 1 / 2 ^ 20 ∧
    |edgeReal dv k y wv - edgeReal (a - z * k) k y (k * a + z)| ≤ 27 * uR := by
  have hu := uR_nonneg
  have hus := uR_small
  have ba : |a| ≤ 1 + 1 / 2 ^ 20 := abs_le_of_sq_le21 (by nlinarith [sq_nonneg y, sq_nonneg z])
  have bz : |z| ≤ 1 + 1 / 2 ^ 20 := abs_le_of_sq_le21 (by nlinarith [sq_nonneg y, sq_nonneg a])
  set s := a - z * k with hs
  set w := k * a + z with hw
  have hD1 : (1:ℝ) ≤ 1 + k ^ 2 := by nlinarith [sq_nonneg k]
  have hD0 : (0:ℝ) < 1 + k ^ 2 := by linarith
  have hfr : s ^ 2 / (1 + k ^ 2) + y ^ 2 + w ^ 2 / (1 + k ^ 2) = a ^ 2 + y ^ 2 + z ^ 2 := by
    have := frame_norm_u k ⟨a, y, z⟩
    unfold R3.norm2 at this; simp only at this
    rw [hs, hw]; linarith
  have bs : |s| ≤ 21 / 10 := by
    have h1 : |z * k| ≤ 1 + 1 / 2 ^ 20 := by
      rw [abs_mul]; nlinarith [abs_nonneg z, abs_nonneg k]
    have := abs_sub a (z * k)
    have h2 : (1 : ℝ) + 1 / 2 ^ 20 + (1 + 1 / 2 ^ 20) ≤ 21 / 10 := by norm_num
    rw [hs]; linarith
  have bw : |w| ≤ 21 / 10 := by
    have h1 : |k * a| ≤ 1 + 1 / 2 ^ 20 := by
      rw [abs_mul]; nlinarith [abs_nonneg a, abs_nonneg k]
    have := abs_add_le (k * a) z
    have h2 : (1 : ℝ) + 1 / 2 ^ 20 + (1 + 1 / 2 ^ 20) ≤ 21 / 10 := by norm_num
    rw [hw]; linarith
  have hsmall : (31 / 10) * uR ≤ 1 / 10 := by
    have : (31 / 10 : ℝ) * (1 / 2 ^ 50) ≤ 1 / 10 := by norm_num
    nlinarith
  have bd : |dv| ≤ 22 / 10 := by
    have := abs_sub_abs_le_abs_sub dv s
    linarith
  have sq_close : ∀ x x' : ℝ, |x| ≤ 21 / 10 → |x' - x| ≤ (31 / 10) * uR → x' ^ 2 ≤ x ^ 2 + 14 * uR := by
    intro x x' hx hxx
    have h1 := abs_le.1 hx
    have h2 := abs_le.1 hxx
    have h3 : |x' + x| ≤ 43 / 10 := by
      rw [abs_le]; constructor <;> linarith
    have h4 : |(x' - x) * (x' + x)| ≤ (31 / 10) * uR * (43 / 10) := by
      rw [abs_mul]; exact mul_le_mul hxx h3 (abs_nonneg _) (mul_nonneg (by norm_num) hu)
    have := (abs_le.1 h4).2
    nlinarith
  have q1 := sq_close s dv bs ed
  have q2 := sq_close w wv bw ew
  have bsum : dv ^ 2 / (1 + k ^ 2) + y ^ 2 + wv ^ 2 / (1 + k ^ 2) ≤ 1 + 1 / 2 ^ 20 := by
    have h1 : dv ^ 2 / (1 + k ^ 2) ≤ s ^ 2 / (1 + k ^ 2) + 14 * uR := by
      have : dv ^ 2 / (1 + k ^ 2) ≤ (s ^ 2 + 14 * uR) / (1 + k ^ 2) := div_le_div_of_nonneg_right q1 (le_of_lt hD0)
      have h2 : (s ^ 2 + 14 * uR) / (1 + k ^ 2) = s ^ 2 / (1 + k ^ 2) + 14 * uR / (1 + k ^ 2) := by ring
      have h3 : 14 * uR / (1 + k ^ 2) ≤ 14 * uR := div_le_self (mul_nonneg (by norm_num) hu) hD1
      linarith
    have h2 : wv ^ 2 / (1 + k ^ 2) ≤ w ^ 2 / (1 + k ^ 2) + 14 * uR := by
      have : wv ^ 2 / (1 + k ^ 2) ≤ (w ^ 2 + 14 * uR) / (1 + k ^ 2) := div_le_div_of_nonneg_right q2 (le_of_lt hD0)
      have h2 : (w ^ 2 + 14 * uR) / (1 + k ^ 2) = w ^ 2 / (1 + k ^ 2) + 14 * uR / (1 + k ^ 2) := by ring
      have h3 : 14 * uR / (1 + k ^ 2) ≤ 14 * uR := div_le_self (mul_nonneg (by norm_num) hu) hD1
      linarith
    have : 28 * uR ≤ 1 / 2 ^ 21 := by
      have : (28 : ℝ) * (1 / 2 ^ 50) ≤ 1 / 2 ^ 21 := by norm_num
      linarith
    have h3 : (1 : ℝ) + 1 / 2 ^ 21 + 1 / 2 ^ 21 = 1 + 1 / 2 ^ 20 := by norm_num
    linarith
  refine ⟨bsum, ?_⟩
  have hρ : Real.sqrt (y ^ 2 + w ^ 2 / (1 + k ^ 2)) ≤ 101 / 100 := by
    have : y ^ 2 + w ^ 2 / (1 + k ^ 2) ≤ 1 + 1 / 2 ^ 21 := by
      have : 0 ≤ s ^ 2 / (1 + k ^ 2) := by positivity
      linarith
    have hc : (1 : ℝ) + 1 / 2 ^ 21 ≤ (101 / 100) ^ 2 := by norm_num
    calc Real.sqrt (y ^ 2 + w ^ 2 / (1 + k ^ 2)) ≤ Real.sqrt ((101 / 100) ^ 2) :=
          Real.sqrt_le_sqrt (le_trans this hc)
      _ = 101 / 100 := Real.sqrt_sq (by norm_num)
  have hρ' : Real.sqrt (y ^ 2 + wv ^ 2 / (1 + k ^ 2)) ≤ 101 / 100 := by
    have : y ^ 2 + wv ^ 2 / (1 + k ^ 2) ≤ 1 + 1 / 2 ^ 20 := by
      have : 0 ≤ dv ^ 2 / (1 + k ^ 2) := by positivity
      linarith
    have hc : (1 : ℝ) + 1 / 2 ^ 20 ≤ (101 / 100) ^ 2 := by norm_num
    calc Real.sqrt (y ^ 2 + wv ^ 2 / (1 + k ^ 2)) ≤ Real.sqrt ((101 / 100) ^ 2) :=
          Real.sqrt_le_sqrt (le_trans this hc)
      _ = 101 / 100 := Real.sqrt_sq (by norm_num)
  have lip := edgeReal_lip k y dv s wv w (22 / 10) (101 / 100) bd (by linarith) hρ' hρ
  have g1 : 2 * (22 / 10) * |dv - s| ≤ 2 * (22 / 10) * ((31 / 10) * uR) :=
    mul_le_mul_of_nonneg_left ed (by norm_num)
  have g2 : (2 + 2 * (101 / 100)) * |wv - w| ≤ (2 + 2 * (101 / 100)) * ((31 / 10) * uR) :=
    mul_le_mul_of_nonneg_left ew (by norm_num)
  linarith

/-- the value of one edge branch.  `a`, `y` are the two face coordinates of the target (`a` the one across the edge),
    `z` its third coordinate, `k` the uv bound of the edge; `ij = d` or `ij = −d`. -/
theorem edge_value {eE : ℝ} (HE : EdgeSpec eE) (a y z k ij : F64) (ha : Fin a) (hy : Fin y) (hz : Fin z) (hk : Fin k)
    (bk : |val k| ≤ 1) (bn : val a ^ 2 + val y ^ 2 + val z ^ 2 ≤ 1 + 1 / 2 ^ 21)
    (hij : ij = a - z * k ∨ ij = -(a - z * k)) :
    Fin (edgeDistance ij k y (k * a + z)) ∧
    |val (edgeDistance ij k y (k * a + z))
      - edgeReal (val a - val z * val k) (val k) (val y) (val k * val a + val z)| ≤ eE + 27 * uR := by
  have ba : |val a| ≤ 1 + 1 / 2 ^ 20 := abs_le_of_sq_le21 (by nlinarith [sq_nonneg (val y), sq_nonneg (val z)])
  have bz : |val z| ≤ 1 + 1 / 2 ^ 20 := abs_le_of_sq_le21 (by nlinarith [sq_nonneg (val y), sq_nonneg (val a)])
  obtain ⟨fd, fw, ed, ew, _⟩ := edge_args a z k ha hz hk bk ba bz
  obtain ⟨bsum, lip⟩ := edge_value_real (val k) (val y) (val a) (val z) _ _ bk bn ed ew
  have fij : Fin ij := by
    rcases hij with h | h
    · rw [h]; exact fd
    · rw [h]; exact fin_neg' fd
  have vij : val ij ^ 2 = val (a - z * k) ^ 2 := by
    rcases hij with h | h
    · rw [h]
    · rw [h, val_neg', neg_sq]
  have e1 : edgeReal (val ij) (val k) (val y) (val (k * a + z)) =
      edgeReal (val (a - z * k)) (val k) (val y) (val (k * a + z)) := by
    unfold edgeReal; rw [vij]
  rw [← vij] at bsum
  obtain ⟨fr, er⟩ := HE ij k y (k * a + z) fij hk hy fw bk bsum
  refine ⟨fr, ?_⟩
  rw [e1] at er
  have tri := abs_sub_le (val (edgeDistance ij k y (k * a + z)))
    (edgeReal (val (a - z * k)) (val k) (val y) (val (k * a + z)))
    (edgeReal (val a - val z * val k) (val k) (val y) (val k * val a + val z))
  linarith

end S2Proofs.C12Dist
