/-
  C12Dist.CoverBasics — two elementary facts about the cell `InCell r` (pure real geometry):
  * `vhat_inCell`     : the unit vector of `(a, b, 1)` with `(a, b)` in the rectangle is a cell point;
  * `cell_combination`: every cell point is a non-negative combination of the four unit vertices, the sum of the
                        coefficients lies in `[1, √3]`.
  Helper lemmas live in `S2Proofs.C12Dist.Cover`.
-/
import S2Proofs.C12Dist.Spec
import Mathlib.Analysis.Real.Sqrt
import Mathlib.Tactic.Ring
import Mathlib.Tactic.Linarith
import Mathlib.Tactic.Positivity
import Mathlib.Tactic.FieldSimp

namespace S2Proofs.C12Dist
open S2Proofs.C16Acc

namespace Cover

/-- `1 + x² + y²` -/
def nn (x y : ℝ) : ℝ := 1 + x ^ 2 + y ^ 2

theorem nn_pos (x y : ℝ) : 0 < nn x y := by unfold nn; positivity

theorem one_le_nn (x y : ℝ) : 1 ≤ nn x y := by unfold nn; nlinarith [sq_nonneg x, sq_nonneg y]

theorem sqrt_nn_pos (x y : ℝ) : 0 < Real.sqrt (nn x y) := Real.sqrt_pos.mpr (nn_pos x y)

theorem one_le_sqrt_nn (x y : ℝ) : 1 ≤ Real.sqrt (nn x y) := by
  rw [show (1 : ℝ) = Real.sqrt 1 by simp]
  exact Real.sqrt_le_sqrt (one_le_nn x y)

theorem vhat_eq (x y : ℝ) : vhat x y = R3.smul (1 / Real.sqrt (nn x y)) ⟨x, y, 1⟩ := rfl

/-- `t · V̂(x,y) = (t.x·x + t.y·y + t.z) / √(1+x²+y²)` -/
theorem dot_vhat (t : R3) (x y : ℝ) :
    R3.dot t (vhat x y) = (t.x * x + t.y * y + t.z) / Real.sqrt (nn x y) := by
  rw [vhat_eq]
  unfold R3.dot R3.smul
  simp only
  ring

theorem vhat_norm2 (x y : ℝ) : (vhat x y).norm2 = 1 := by
  rw [vhat_eq]
  have h := sqrt_nn_pos x y
  have h2 : Real.sqrt (nn x y) ^ 2 = nn x y := Real.sq_sqrt (nn_pos x y).le
  unfold R3.norm2 R3.smul
  simp only
  have e : (1 / Real.sqrt (nn x y) * x) ^ 2 + (1 / Real.sqrt (nn x y) * y) ^ 2 + (1 / Real.sqrt (nn x y) * 1) ^ 2
      = nn x y / Real.sqrt (nn x y) ^ 2 := by
    unfold nn; field_simp; ring
  rw [e, h2]
  exact div_self (nn_pos x y).ne'

theorem vhat_norm (x y : ℝ) : (vhat x y).norm = 1 := by
  unfold R3.norm; rw [vhat_norm2]; simp

/-- `V̂(x,y)·√(1+x²+y²) = (x,y,1)`, in the form used for dot products -/
theorem dot_raw (t : R3) (x y : ℝ) :
    t.x * x + t.y * y + t.z = Real.sqrt (nn x y) * R3.dot t (vhat x y) := by
  rw [dot_vhat]
  field_simp [(sqrt_nn_pos x y).ne']

/-- a cell point is the unit vector of `(q.x/q.z, q.y/q.z, 1)` -/
theorem cell_eq_vhat (r : RRect) (q : R3) (hq : InCell r q) :
    q = vhat (q.x / q.z) (q.y / q.z) ∧ r.u0 ≤ q.x / q.z ∧ q.x / q.z ≤ r.u1 ∧ r.v0 ≤ q.y / q.z ∧ q.y / q.z ≤ r.v1 := by
  obtain ⟨hn, hz, h1, h2, h3, h4⟩ := hq
  have hz' : q.z ≠ 0 := hz.ne'
  refine ⟨?_, ?_, ?_, ?_, ?_⟩
  · have e : nn (q.x / q.z) (q.y / q.z) = (1 / q.z) ^ 2 := by
      unfold R3.norm2 at hn
      unfold nn
      field_simp
      linarith
    have hs : Real.sqrt (nn (q.x / q.z) (q.y / q.z)) = 1 / q.z := by
      rw [e]; exact Real.sqrt_sq (by positivity)
    rw [vhat_eq, hs]
    unfold R3.smul
    ext <;> simp only <;> field_simp
  · rw [le_div_iff₀ hz]; exact h1
  · rw [div_le_iff₀ hz]; exact h2
  · rw [le_div_iff₀ hz]; exact h3
  · rw [div_le_iff₀ hz]; exact h4

theorem sqrt_nn_le (r : RRect) (hr : r.OK) (a b : ℝ) (ha : r.u0 ≤ a ∧ a ≤ r.u1) (hb : r.v0 ≤ b ∧ b ≤ r.v1) :
    Real.sqrt (nn a b) ^ 2 ≤ 3 := by
  rw [Real.sq_sqrt (nn_pos a b).le]
  unfold nn
  have h1 : a ^ 2 ≤ 1 := by nlinarith [hr.u0_ge, hr.u1_le, ha.1, ha.2]
  have h2 : b ^ 2 ≤ 1 := by nlinarith [hr.v0_ge, hr.v1_le, hb.1, hb.2]
  linarith

theorem weighted_le {w0 w1 w2 w3 s0 s1 s2 s3 S : ℝ} (h0 : 0 ≤ w0) (h1 : 0 ≤ w1) (h2 : 0 ≤ w2) (h3 : 0 ≤ w3)
    (hs : w0 + w1 + (w2 + w3) = 1) (q0 : s0 ≤ S) (q1 : s1 ≤ S) (q2 : s2 ≤ S) (q3 : s3 ≤ S) :
    w0 * s0 + w1 * s1 + w2 * s2 + w3 * s3 ≤ S := by
  have e : S = w0 * S + w1 * S + w2 * S + w3 * S := by
    have : (w0 + w1 + (w2 + w3)) * S = S := by rw [hs, one_mul]
    linarith
  rw [e]
  have a0 := mul_le_mul_of_nonneg_left q0 h0
  have a1 := mul_le_mul_of_nonneg_left q1 h1
  have a2 := mul_le_mul_of_nonneg_left q2 h2
  have a3 := mul_le_mul_of_nonneg_left q3 h3
  linarith

end Cover

open Cover

set_option linter.unusedVariables false in
theorem vhat_inCell (r : RRect) (hr : r.OK) (a b : ℝ) (ha : r.u0 ≤ a ∧ a ≤ r.u1) (hb : r.v0 ≤ b ∧ b ≤ r.v1) :
    InCell r (vhat a b) := by
  have hs := sqrt_nn_pos a b
  have hp : 0 < 1 / Real.sqrt (nn a b) := by positivity
  refine ⟨vhat_norm2 a b, ?_, ?_, ?_, ?_, ?_⟩ <;> rw [vhat_eq] <;> unfold R3.smul <;> simp only
  · linarith
  · nlinarith [mul_le_mul_of_nonneg_left ha.1 hp.le]
  · nlinarith [mul_le_mul_of_nonneg_left ha.2 hp.le]
  · nlinarith [mul_le_mul_of_nonneg_left hb.1 hp.le]
  · nlinarith [mul_le_mul_of_nonneg_left hb.2 hp.le]

/-- every cell point is a combination of the unit vertices with non-negative coefficients whose sum is between 1 and √3 -/
theorem cell_combination (r : RRect) (hr : r.OK) (q : R3) (hq : InCell r q) :
    ∃ c00 c10 c01 c11 : ℝ, 0 ≤ c00 ∧ 0 ≤ c10 ∧ 0 ≤ c01 ∧ 0 ≤ c11 ∧ 1 ≤ c00 + c10 + c01 + c11 ∧ (c00 + c10 + c01 + c11) ^ 2 ≤ 3 ∧
      ∀ t : R3, R3.dot t q = c00 * R3.dot t (vhat r.u0 r.v0) + c10 * R3.dot t (vhat r.u1 r.v0)
                         + c01 * R3.dot t (vhat r.u0 r.v1) + c11 * R3.dot t (vhat r.u1 r.v1) := by
  obtain ⟨hqe, ha0, ha1, hb0, hb1⟩ := cell_eq_vhat r q hq
  obtain ⟨hn, hz, -, -, -, -⟩ := hq
  set a := q.x / q.z with ha
  set b := q.y / q.z with hb
  have hu : 0 < r.u1 - r.u0 := by linarith [hr.u_lt]
  have hv : 0 < r.v1 - r.v0 := by linarith [hr.v_lt]
  -- bilinear weights
  set l0 := (r.u1 - a) / (r.u1 - r.u0) with hl0
  set l1 := (a - r.u0) / (r.u1 - r.u0) with hl1
  set m0 := (r.v1 - b) / (r.v1 - r.v0) with hm0
  set m1 := (b - r.v0) / (r.v1 - r.v0) with hm1
  have hl0n : 0 ≤ l0 := div_nonneg (by linarith) hu.le
  have hl1n : 0 ≤ l1 := div_nonneg (by linarith) hu.le
  have hm0n : 0 ≤ m0 := div_nonneg (by linarith) hv.le
  have hm1n : 0 ≤ m1 := div_nonneg (by linarith) hv.le
  have hls : l0 + l1 = 1 := by rw [hl0, hl1]; field_simp; ring
  have hms : m0 + m1 = 1 := by rw [hm0, hm1]; field_simp; ring
  have hla : l0 * r.u0 + l1 * r.u1 = a := by rw [hl0, hl1]; field_simp; ring
  have hmb : m0 * r.v0 + m1 * r.v1 = b := by rw [hm0, hm1]; field_simp; ring
  set s00 := Real.sqrt (nn r.u0 r.v0) with hs00
  set s10 := Real.sqrt (nn r.u1 r.v0) with hs10
  set s01 := Real.sqrt (nn r.u0 r.v1) with hs01
  set s11 := Real.sqrt (nn r.u1 r.v1) with hs11
  have hu0 : r.u0 ≤ r.u0 ∧ r.u0 ≤ r.u1 := ⟨le_refl _, hr.u_lt.le⟩
  have hu1 : r.u0 ≤ r.u1 ∧ r.u1 ≤ r.u1 := ⟨hr.u_lt.le, le_refl _⟩
  have hv0 : r.v0 ≤ r.v0 ∧ r.v0 ≤ r.v1 := ⟨le_refl _, hr.v_lt.le⟩
  have hv1 : r.v0 ≤ r.v1 ∧ r.v1 ≤ r.v1 := ⟨hr.v_lt.le, le_refl _⟩
  have p00 : 0 < s00 := sqrt_nn_pos _ _
  have p10 : 0 < s10 := sqrt_nn_pos _ _
  have p01 : 0 < s01 := sqrt_nn_pos _ _
  have p11 : 0 < s11 := sqrt_nn_pos _ _
  -- the decomposition of the dot product
  have hdec : ∀ t : R3, R3.dot t q = q.z * (l0 * m0 * s00) * R3.dot t (vhat r.u0 r.v0)
      + q.z * (l1 * m0 * s10) * R3.dot t (vhat r.u1 r.v0)
      + q.z * (l0 * m1 * s01) * R3.dot t (vhat r.u0 r.v1) + q.z * (l1 * m1 * s11) * R3.dot t (vhat r.u1 r.v1) := by
    intro t
    have e00 := dot_raw t r.u0 r.v0
    have e10 := dot_raw t r.u1 r.v0
    have e01 := dot_raw t r.u0 r.v1
    have e11 := dot_raw t r.u1 r.v1
    rw [← hs00] at e00; rw [← hs10] at e10; rw [← hs01] at e01; rw [← hs11] at e11
    have hx : q.x = q.z * a := by rw [ha]; field_simp
    have hy : q.y = q.z * b := by rw [hb]; field_simp
    have : R3.dot t q = q.z * (t.x * a + t.y * b + t.z) := by
      unfold R3.dot; rw [hx, hy]; ring
    rw [this, ← hla, ← hmb]
    have e1 : l0 = 1 - l1 := by linarith
    have e2 : m0 = 1 - m1 := by linarith
    calc q.z * (t.x * (l0 * r.u0 + l1 * r.u1) + t.y * (m0 * r.v0 + m1 * r.v1) + t.z)
        = q.z * (l0 * m0 * (t.x * r.u0 + t.y * r.v0 + t.z) + l1 * m0 * (t.x * r.u1 + t.y * r.v0 + t.z)
            + l0 * m1 * (t.x * r.u0 + t.y * r.v1 + t.z) + l1 * m1 * (t.x * r.u1 + t.y * r.v1 + t.z)) := by
          rw [e1, e2]; ring
      _ = _ := by rw [e00, e10, e01, e11]; ring
  refine ⟨q.z * (l0 * m0 * s00), q.z * (l1 * m0 * s10), q.z * (l0 * m1 * s01), q.z * (l1 * m1 * s11),
    by positivity, by positivity, by positivity, by positivity, ?_, ?_, hdec⟩
  · -- 1 = q·q = Σ c_k q·V̂_k ≤ Σ c_k
    have h1 := hdec q
    rw [← R3.norm2_eq_dot, hn] at h1
    have hqn : q.norm = 1 := by unfold R3.norm; rw [hn]; simp
    have b00 := R3.dot_le q (vhat r.u0 r.v0)
    have b10 := R3.dot_le q (vhat r.u1 r.v0)
    have b01 := R3.dot_le q (vhat r.u0 r.v1)
    have b11 := R3.dot_le q (vhat r.u1 r.v1)
    rw [hqn, vhat_norm, mul_one] at b00 b10 b01 b11
    have c00 : 0 ≤ q.z * (l0 * m0 * s00) := by positivity
    have c10 : 0 ≤ q.z * (l1 * m0 * s10) := by positivity
    have c01 : 0 ≤ q.z * (l0 * m1 * s01) := by positivity
    have c11 : 0 ≤ q.z * (l1 * m1 * s11) := by positivity
    nlinarith [mul_le_mul_of_nonneg_left b00 c00, mul_le_mul_of_nonneg_left b10 c10,
      mul_le_mul_of_nonneg_left b01 c01, mul_le_mul_of_nonneg_left b11 c11]
  · -- Σ c_k = q.z · Σ w_k s_k ≤ q.z · S with S² ≤ 3, q.z ≤ 1
    have hz1 : q.z ^ 2 ≤ 1 := by unfold R3.norm2 at hn; nlinarith [sq_nonneg q.x, sq_nonneg q.y]
    have t00 := sqrt_nn_le r hr _ _ hu0 hv0
    have t10 := sqrt_nn_le r hr _ _ hu1 hv0
    have t01 := sqrt_nn_le r hr _ _ hu0 hv1
    have t11 := sqrt_nn_le r hr _ _ hu1 hv1
    rw [← hs00] at t00; rw [← hs10] at t10; rw [← hs01] at t01; rw [← hs11] at t11
    set S := Real.sqrt 3 with hS
    have hS2 : S ^ 2 = 3 := Real.sq_sqrt (by norm_num)
    have hSp : 0 < S := Real.sqrt_pos.mpr (by norm_num)
    have q00 : s00 ≤ S := (Real.le_sqrt' p00).mpr t00
    have q10 : s10 ≤ S := (Real.le_sqrt' p10).mpr t10
    have q01 : s01 ≤ S := (Real.le_sqrt' p01).mpr t01
    have q11 : s11 ≤ S := (Real.le_sqrt' p11).mpr t11
    have w00 : 0 ≤ l0 * m0 := mul_nonneg hl0n hm0n
    have w10 : 0 ≤ l1 * m0 := mul_nonneg hl1n hm0n
    have w01 : 0 ≤ l0 * m1 := mul_nonneg hl0n hm1n
    have w11 : 0 ≤ l1 * m1 := mul_nonneg hl1n hm1n
    have hw := weighted_le w00 w10 w01 w11 (by rw [← add_mul, ← add_mul, hls, one_mul, one_mul, hms]) q00 q10 q01 q11
    have hw0 : 0 ≤ l0 * m0 * s00 + l1 * m0 * s10 + l0 * m1 * s01 + l1 * m1 * s11 :=
      add_nonneg (add_nonneg (add_nonneg (mul_nonneg w00 p00.le) (mul_nonneg w10 p10.le)) (mul_nonneg w01 p01.le))
        (mul_nonneg w11 p11.le)
    have e : q.z * (l0 * m0 * s00) + q.z * (l1 * m0 * s10) + q.z * (l0 * m1 * s01) + q.z * (l1 * m1 * s11)
        = q.z * (l0 * m0 * s00 + l1 * m0 * s10 + l0 * m1 * s01 + l1 * m1 * s11) := by ring
    rw [e, mul_pow]
    have h3 : (l0 * m0 * s00 + l1 * m0 * s10 + l0 * m1 * s01 + l1 * m1 * s11) ^ 2 ≤ 3 := by
      rw [← hS2]; exact pow_le_pow_left₀ hw0 hw 2
    have := mul_le_mul hz1 h3 (sq_nonneg _) (by norm_num : (0 : ℝ) ≤ 1)
    linarith

end S2Proofs.C12Dist
