/-
  C12Dist.EdgeErr — floating-point error of `edgeDistance` (the distance from the target to the interior of a
  cell edge, `s2/cell.go`):

      pq2 = fl(fl(ij·ij) / fl(1 + fl(uv·uv)))
      oq2 = fl(fl(along·along) + fl(fl(w·w) / fl(1 + fl(uv·uv))))
      qr  = fl(1 − sqrt(oq2))
      res = min(4, fl(pq2 + fl(qr·qr)))

  For finite inputs with `|uv| ≤ 1` and a "unit-ish" target (`bsum`) the result is finite, non-negative, the clamp at
  4 does not fire and the result is within `9·2^-53` of the exact `edgeReal`.
-/
import S2Proofs.C12Dist.Spec
import S2Proofs.C16Acc.Norm
import S2Proofs.FloatErr.Sqrt
import S2Proofs.FloatErr2.Normal
import S2Proofs.F64Round

namespace S2Proofs.C12Dist
open S2 S2.Exact S2.CellM S2Proofs.FloatErr S2Proofs.F64Order S2Proofs.C16Acc

namespace EdgeErr

/-! ### float steps: finite, correctly rounded, sign preserving -/

set_option exponentiation.threshold 2100 in
/-- the generic step: a correctly rounded rational of moderate size -/
theorem round_step {r : F64} {Q : ℚ} (h : F64Round.IsRound r Q) (hb : |(Q : ℝ)| ≤ 2 ^ 30) :
    Fin r ∧ Rnd uR eR (Q : ℝ) (val r) ∧ (0 ≤ (Q : ℝ) → 0 ≤ val r) := by
  have hbQ : |Q| ≤ 2 ^ 30 := by
    have : ((|Q| : ℚ) : ℝ) ≤ (((2 : ℚ) ^ 30 : ℚ) : ℝ) := by
      rw [Rat.cast_abs]; push_cast; exact hb
    exact_mod_cast this
  have hfin : Fin r := h.fin_of_lt (lt_of_le_of_lt hbQ (by norm_num))
  refine ⟨hfin, ?_, ?_⟩
  · unfold Rnd
    rw [FE2.val_cast]
    have key : |F64Round.val r - Q| ≤ |Q| / 2 ^ 53 + 1 / 2 ^ 1075 := by
      by_cases hlow : 1 / 2 ^ 1022 ≤ |Q|
      · have := h.rel_err hfin hlow
        have : (0 : ℚ) ≤ 1 / 2 ^ 1075 := by positivity
        linarith
      · have hhi : |Q| < 1 / 2 ^ 1021 := by
          have : (1 : ℚ) / 2 ^ 1022 ≤ 1 / 2 ^ 1021 :=
            one_div_le_one_div_of_le (by positivity) (pow_le_pow_right₀ (by norm_num) (by norm_num))
          linarith [not_le.mp hlow]
        have := h.abs_err hhi
        have : (0 : ℚ) ≤ |Q| / 2 ^ 53 := by positivity
        linarith
    have hR : ((|F64Round.val r - Q| : ℚ) : ℝ) ≤ ((|Q| / 2 ^ 53 + 1 / 2 ^ 1075 : ℚ) : ℝ) :=
      Rat.cast_le.mpr key
    rw [Rat.cast_abs] at hR
    push_cast at hR
    unfold uR eR
    have e : |(Q : ℝ)| / 2 ^ 53 = 1 / 2 ^ 53 * |(Q : ℝ)| := by ring
    linarith
  · intro h0
    have h0Q : (0 : ℚ) ≤ Q := by exact_mod_cast h0
    have hz : Fin (F64.zero false) := by decide
    have hzv : F64Round.val (F64.zero false) = 0 := by
      have : toInt (F64.zero false) = 0 := by decide
      unfold F64Round.val; rw [this]; simp
    have hzr : F64Round.IsRound (F64.zero false) 0 := by
      have := F64Round.isRound_self hz
      rwa [hzv] at this
    have hle := F64Round.IsRound.mono hzr h h0Q
    rw [le_iff hz hfin] at hle
    have : toInt (F64.zero false) = 0 := by decide
    rw [this] at hle
    unfold val
    exact div_nonneg (by exact_mod_cast hle) (by positivity)

theorem mulS {x y : F64} (hx : Fin x) (hy : Fin y) (hb : |val x * val y| ≤ 2 ^ 30) :
    Fin (x * y) ∧ Rnd uR eR (val x * val y) (val (x * y)) ∧ (0 ≤ val x * val y → 0 ≤ val (x * y)) := by
  have e : ((F64Round.val x * F64Round.val y : ℚ) : ℝ) = val x * val y := by
    push_cast; rw [← FE2.val_cast, ← FE2.val_cast]
  have := round_step (F64Round.isRound_mul hx hy) (by rw [e]; exact hb)
  rw [e] at this
  exact this

theorem addS {x y : F64} (hx : Fin x) (hy : Fin y) (hb : |val x + val y| ≤ 2 ^ 30) :
    Fin (x + y) ∧ Rnd uR eR (val x + val y) (val (x + y)) ∧ (0 ≤ val x + val y → 0 ≤ val (x + y)) := by
  have e : ((F64Round.val x + F64Round.val y : ℚ) : ℝ) = val x + val y := by
    push_cast; rw [← FE2.val_cast, ← FE2.val_cast]
  have := round_step (F64Round.isRound_add hx hy) (by rw [e]; exact hb)
  rw [e] at this
  exact this

theorem subS {x y : F64} (hx : Fin x) (hy : Fin y) (hb : |val x - val y| ≤ 2 ^ 30) :
    Fin (x - y) ∧ Rnd uR eR (val x - val y) (val (x - y)) ∧ (0 ≤ val x - val y → 0 ≤ val (x - y)) := by
  have e : ((F64Round.val x - F64Round.val y : ℚ) : ℝ) = val x - val y := by
    push_cast; rw [← FE2.val_cast, ← FE2.val_cast]
  have := round_step (F64Round.isRound_sub hx hy) (by rw [e]; exact hb)
  rw [e] at this
  exact this

/-- the general division step (divisor in `[1/2, ∞)`) -/
theorem divS {x y : F64} (hx : Fin x) (hy : Fin y) (hy1 : 1 / 2 ≤ val y) (hb : |val x| ≤ 2 ^ 29) :
    Fin (x / y) ∧ Rnd uR eR (val x / val y) (val (x / y)) ∧ (0 ≤ val x → 0 ≤ val (x / y)) := by
  have hypos : 0 < val y := by linarith
  have hz : y.isZero = false := FE2.isZero_false_of_val_ne hypos.ne'
  have e : ((F64Round.val x / F64Round.val y : ℚ) : ℝ) = val x / val y := by
    push_cast; rw [← FE2.val_cast, ← FE2.val_cast]
  have hq : |val x / val y| ≤ 2 ^ 30 := by
    rw [abs_div, abs_of_pos hypos, div_le_iff₀ hypos]
    have : (2 : ℝ) ^ 30 = 2 ^ 29 * 2 := by norm_num
    nlinarith [abs_nonneg (val x)]
  have := round_step (F64Round.isRound_div hx hy hz) (by rw [e]; exact hq)
  rw [e] at this
  exact ⟨this.1, this.2.1, fun h0 => this.2.2 (div_nonneg h0 hypos.le)⟩

/-! ### square root of a non-negative float (zeros and subnormals included) -/

theorem isZero_of_val_eq {x : F64} (h : val x = 0) : x.isZero = true := by
  cases hz : x.isZero
  · exfalso
    have hm := mant_pos hz
    rw [val_mant] at h
    have h1 : sg x.signBit ≠ 0 := by unfold sg; split <;> norm_num
    have h2 : ((x.mant : ℕ) : ℝ) ≠ 0 := by exact_mod_cast hm.ne'
    have h3 := (tw_pos x.expo).ne'
    exact mul_ne_zero (mul_ne_zero h1 h2) h3 h
  · rfl

theorem sqrtS (x : F64) (hx : Fin x) (h0 : 0 ≤ val x) :
    Fin (F64.sqrt x) ∧ 0 ≤ val (F64.sqrt x) ∧
      val x * ((1 - 1 / 2 ^ 58) * (1 - uR) ^ 2) ≤ val (F64.sqrt x) ^ 2 ∧
      val (F64.sqrt x) ^ 2 ≤ val x * ((1 + 1 / 2 ^ 58) * (1 + uR) ^ 2) := by
  rcases h0.lt_or_eq with hpos | hzero
  · obtain ⟨f, n, _, lo⟩ := sqrt_lower x hx hpos
    exact ⟨f, n, lo, sqrt_upper x hx hpos⟩
  · have hz := isZero_of_val_eq hzero.symm
    have hs : F64.sqrt x = x := by
      unfold F64.sqrt
      simp [isNaN_false hx, hz]
    rw [hs, ← hzero]
    exact ⟨hx, le_refl _, by simp, by simp⟩

/-! ### the clamp of `ChordAngleFromSquaredLength` -/

theorem clamp_id {x : F64} (hx : Fin x) (h4 : val x ≤ 4) : chordAngleFromSquaredLength x = x := by
  have hf : Fin F64.four := by decide
  have ht : toInt F64.four = 4 * 2 ^ 1074 := by decide +kernel
  have hng : F64.gt x F64.four = false := by
    cases hg : F64.gt x F64.four
    · rfl
    · exfalso
      rw [gt_iff hx hf, ht] at hg
      have h1 : ((4 * 2 ^ 1074 : ℤ) : ℝ) < ((toInt x : ℤ) : ℝ) := by exact_mod_cast hg
      unfold val at h4
      rw [div_le_iff₀ (by positivity)] at h4
      push_cast at h1
      linarith
  unfold chordAngleFromSquaredLength
  simp [hng]

/-! ### real-number error analysis -/

/-- a negligible absolute term (absorbs all underflow errors) -/
noncomputable def tR : ℝ := 1 / 2 ^ 500

theorem tR_nonneg : 0 ≤ tR := by unfold tR; positivity
theorem uR_le : uR ≤ 1 / 2 ^ 53 := by unfold uR; exact le_refl _
set_option exponentiation.threshold 2100 in
theorem eR_le_tR : 14 * eR ≤ tR ^ 2 := by unfold eR tR; norm_num
set_option exponentiation.threshold 2100 in
theorem tR_le_uR : tR ≤ uR / 2 ^ 30 := by unfold uR tR; norm_num
theorem eR_le_uR : eR ≤ uR / 2 ^ 30 := by
  have h1 := eR_le_tR
  have h2 := tR_le_uR
  have h3 := tR_nonneg
  have h4 : tR ≤ 1 := by have := uR_le; linarith
  have h5 : tR ^ 2 ≤ tR := by nlinarith
  have := eR_nonneg
  linarith

theorem rnd_le {u e x y M : ℝ} (hu : 0 ≤ u) (h : Rnd u e x y) (hM : |x| ≤ M) : |y - x| ≤ u * M + e := by
  unfold Rnd at h
  have := mul_le_mul_of_nonneg_left hM hu
  linarith

/-- the denominator `1 + uv²` -/
theorem den_err {v v2 Dt : ℝ} (hv : |v| ≤ 1) (h1 : Rnd uR eR (v * v) v2) (h2 : Rnd uR eR (1 + v2) Dt) :
    |Dt - (1 + v ^ 2)| ≤ (3 / 2 + 1 / 100) * uR * (1 + v ^ 2) := by
  have hu0 := uR_nonneg
  have hu := uR_le
  have he0 := eR_nonneg
  have he := eR_le_uR
  have hV0 : 0 ≤ v * v := mul_self_nonneg v
  have hV1 : v * v ≤ 1 := by
    have := abs_le.mp hv
    nlinarith
  rw [pow_two]
  generalize v * v = V at *
  have a1 := abs_le.mp (rnd_le hu0 h1 (le_of_eq (abs_of_nonneg hV0)))
  have huV : uR * V ≤ uR := by nlinarith
  have huV0 : 0 ≤ uR * V := mul_nonneg hu0 hV0
  have hb : |1 + v2| ≤ 1 + V + uR * V + eR := by
    rw [abs_le]; constructor <;> linarith
  have a2 := abs_le.mp (rnd_le hu0 h2 hb)
  have h3 : uR * (uR * V) ≤ uR / 2 ^ 30 := by nlinarith
  have h4 : uR * eR ≤ eR := by nlinarith
  rw [abs_le]
  constructor <;> nlinarith

theorem den_lo {D Dt : ℝ} (hD1 : 1 ≤ D) (hDt : |Dt - D| ≤ (3 / 2 + 1 / 100) * uR * D) : 1 / 2 ≤ Dt := by
  have hu0 := uR_nonneg
  have hu := uR_le
  have d := abs_le.mp hDt
  have huD : uR * D ≤ D / 2 ^ 53 := by nlinarith
  nlinarith

/-- a quotient `x / (1 + uv²)` -/
theorem quot_err {x xt D Dt p : ℝ} (hx : 0 ≤ x) (hD1 : 1 ≤ D)
    (hDt : |Dt - D| ≤ (3 / 2 + 1 / 100) * uR * D)
    (h1 : Rnd uR eR x xt) (h2 : Rnd uR eR (xt / Dt) p) :
    |p - x / D| ≤ (3 + 6 / 10) * uR * (x / D) + 4 * eR := by
  have hu0 := uR_nonneg
  have hu := uR_le
  have he0 := eR_nonneg
  have he := eR_le_uR
  have hD0 : 0 < D := by linarith
  have hQ0 : 0 ≤ x / D := div_nonneg hx hD0.le
  have hxQ : x / D * D = x := div_mul_cancel₀ x hD0.ne'
  generalize x / D = Q at *
  have d := abs_le.mp hDt
  have huD : uR * D ≤ D / 2 ^ 53 := by nlinarith
  have hDDt : D ≤ (1 + 1 / 10000) * Dt := by nlinarith
  have hDt1 : 1 / 2 ≤ Dt := by nlinarith
  have hDt0 : 0 < Dt := by linarith
  have hy : xt / Dt * Dt = xt := div_mul_cancel₀ xt hDt0.ne'
  generalize xt / Dt = y at *
  have a1 := abs_le.mp (rnd_le hu0 h1 (le_of_eq (abs_of_nonneg hx)))
  have huQ0 : 0 ≤ uR * Q := mul_nonneg hu0 hQ0
  -- u·x ≤ 1.0001·u·Q·Dt
  have hux : uR * x ≤ (1 + 1 / 10000) * (uR * Q) * Dt := by
    rw [← hxQ]
    have := mul_le_mul_of_nonneg_left hDDt huQ0
    nlinarith
  have hQd1 : Q * (D - Dt) ≤ (3 / 2 + 1 / 100) * (uR * x) := by
    have := mul_le_mul_of_nonneg_left d.1 hQ0
    nlinarith
  have hQd2 : -((3 / 2 + 1 / 100) * (uR * x)) ≤ Q * (D - Dt) := by
    have := mul_le_mul_of_nonneg_left d.2 hQ0
    nlinarith
  have hyQ : (y - Q) * Dt = (xt - x) + Q * (D - Dt) := by
    rw [sub_mul, hy, ← hxQ]; ring
  have he2 : eR ≤ 2 * eR * Dt := by nlinarith
  have up : y - Q ≤ (2 + 52 / 100) * (uR * Q) + 2 * eR := by
    apply le_of_mul_le_mul_right _ hDt0
    rw [hyQ]
    nlinarith
  have dn : -((2 + 52 / 100) * (uR * Q) + 2 * eR) ≤ y - Q := by
    apply le_of_mul_le_mul_right _ hDt0
    rw [hyQ]
    nlinarith
  have hyabs : |y| ≤ Q + (2 + 52 / 100) * (uR * Q) + 2 * eR := by
    rw [abs_le]; constructor <;> linarith
  have a2 := abs_le.mp (rnd_le hu0 h2 hyabs)
  have h3 : uR * (uR * Q) ≤ (uR * Q) / 2 ^ 53 := by nlinarith
  have h4 : uR * eR ≤ eR / 2 ^ 53 := by nlinarith
  rw [abs_le]
  constructor <;> nlinarith

/-- the sum `oq2` -/
theorem sum_err {l l2 Bx B Ot : ℝ} (hB0 : 0 ≤ Bx)
    (h1 : Rnd uR eR (l * l) l2) (hB : |B - Bx| ≤ (3 + 6 / 10) * uR * Bx + 4 * eR)
    (h2 : Rnd uR eR (l2 + B) Ot) :
    |Ot - (l ^ 2 + Bx)| ≤ (4 + 7 / 10) * uR * (l ^ 2 + Bx) + 7 * eR := by
  have hu0 := uR_nonneg
  have hu := uR_le
  have he0 := eR_nonneg
  have he := eR_le_uR
  have hL0 : 0 ≤ l * l := mul_self_nonneg l
  rw [pow_two]
  generalize l * l = L at *
  have a1 := abs_le.mp (rnd_le hu0 h1 (le_of_eq (abs_of_nonneg hL0)))
  have b := abs_le.mp hB
  have huL : 0 ≤ uR * L := mul_nonneg hu0 hL0
  have huB : 0 ≤ uR * Bx := mul_nonneg hu0 hB0
  have hs : |l2 + B| ≤ (L + Bx) + (3 + 6 / 10) * (uR * (L + Bx)) + 5 * eR := by
    rw [abs_le]; constructor <;> nlinarith
  have a2 := abs_le.mp (rnd_le hu0 h2 hs)
  have h3 : uR * (uR * (L + Bx)) ≤ (uR * (L + Bx)) / 2 ^ 53 := by nlinarith
  have h4 : uR * eR ≤ eR / 2 ^ 53 := by nlinarith
  have h5 : uR * (L + Bx) ≤ (L + Bx) / 2 ^ 53 := by nlinarith
  rw [abs_le]
  constructor <;> nlinarith

theorem c2_le : (1 + 1 / 2 ^ 58) * (1 + uR) ^ 2 ≤ 1 + (2 + 4 / 100) * uR := by unfold uR; norm_num
theorem c1_ge : 1 - (2 + 4 / 100) * uR ≤ (1 - 1 / 2 ^ 58) * (1 - uR) ^ 2 := by unfold uR; norm_num
theorem c1_le : (1 - 1 / 2 ^ 58) * (1 - uR) ^ 2 ≤ 1 := by unfold uR; norm_num
theorem c2_ge : 1 ≤ (1 + 1 / 2 ^ 58) * (1 + uR) ^ 2 := by unfold uR; norm_num

/-- the square root -/
theorem sqrt_err {O Ot st : ℝ} (hO0 : 0 ≤ O) (hOt : |Ot - O| ≤ (4 + 7 / 10) * uR * O + 7 * eR) (hst : 0 ≤ st)
    (lo : Ot * ((1 - 1 / 2 ^ 58) * (1 - uR) ^ 2) ≤ st ^ 2)
    (hi : st ^ 2 ≤ Ot * ((1 + 1 / 2 ^ 58) * (1 + uR) ^ 2)) :
    |st - Real.sqrt O| ≤ (3 + 4 / 10) * uR * Real.sqrt O + tR := by
  have hu0 := uR_nonneg
  have hu := uR_le
  have he0 := eR_nonneg
  have het := eR_le_tR
  have ht0 := tR_nonneg
  have hs0 : 0 ≤ Real.sqrt O := Real.sqrt_nonneg O
  have hsO : Real.sqrt O ^ 2 = O := Real.sq_sqrt hO0
  generalize Real.sqrt O = s at *
  have h2 := c2_le
  have h1 := c1_ge
  have h1' := c1_le
  have h2' := c2_ge
  generalize (1 + 1 / 2 ^ 58) * (1 + uR) ^ 2 = c2 at *
  generalize (1 - 1 / 2 ^ 58) * (1 - uR) ^ 2 = c1 at *
  have o := abs_le.mp hOt
  have hc10 : 0 ≤ c1 := by nlinarith
  have hc20 : 0 ≤ c2 := by linarith
  have huO : 0 ≤ uR * O := mul_nonneg hu0 hO0
  have huuO : uR * (uR * O) ≤ (uR * O) / 2 ^ 53 := by nlinarith
  rw [abs_le]
  constructor
  · -- s(1 − 3.4u) ≤ st + t
    have hA0 : 0 ≤ O - (4 + 7 / 10) * (uR * O) := by nlinarith
    have k1 : (O - (4 + 7 / 10) * (uR * O) - 7 * eR) * c1 ≤ Ot * c1 :=
      mul_le_mul_of_nonneg_right (by linarith) hc10
    have k2 : (O - (4 + 7 / 10) * (uR * O)) * (1 - (2 + 4 / 100) * uR) ≤ (O - (4 + 7 / 10) * (uR * O)) * c1 :=
      mul_le_mul_of_nonneg_left h1 hA0
    have k3 : 7 * eR * c1 ≤ 7 * eR := by nlinarith
    have k4 : (s * (1 - (3 + 4 / 10) * uR)) ^ 2 ≤ (st + tR) ^ 2 := by
      have e1 : (s * (1 - (3 + 4 / 10) * uR)) ^ 2 = O * (1 - (3 + 4 / 10) * uR) ^ 2 := by rw [mul_pow, hsO]
      rw [e1]
      nlinarith [mul_nonneg hst ht0]
    have := le_of_sq_le (by nlinarith) (by linarith) k4
    linarith
  · -- st ≤ s(1 + 3.4u) + t
    have k1 : Ot * c2 ≤ (O + (4 + 7 / 10) * (uR * O) + 7 * eR) * c2 :=
      mul_le_mul_of_nonneg_right (by linarith) hc20
    have hA0 : 0 ≤ O + (4 + 7 / 10) * (uR * O) + 7 * eR := by nlinarith
    have k2 : (O + (4 + 7 / 10) * (uR * O) + 7 * eR) * c2
        ≤ (O + (4 + 7 / 10) * (uR * O) + 7 * eR) * (1 + (2 + 4 / 100) * uR) :=
      mul_le_mul_of_nonneg_left h2 hA0
    have k4 : st ^ 2 ≤ (s * (1 + (3 + 4 / 10) * uR) + tR) ^ 2 := by
      have e1 : (s * (1 + (3 + 4 / 10) * uR) + tR) ^ 2
          = O * (1 + (3 + 4 / 10) * uR) ^ 2 + 2 * (s * (1 + (3 + 4 / 10) * uR)) * tR + tR ^ 2 := by
        rw [← hsO]; ring
      rw [e1]
      have hf0 : 0 ≤ 1 + (3 + 4 / 10) * uR := by linarith
      have : 0 ≤ 2 * (s * (1 + (3 + 4 / 10) * uR)) * tR :=
        mul_nonneg (mul_nonneg (by norm_num) (mul_nonneg hs0 hf0)) ht0
      nlinarith
    have hf0 : 0 ≤ 1 + (3 + 4 / 10) * uR := by linarith
    have := le_of_sq_le hst (add_nonneg (mul_nonneg hs0 hf0) ht0) k4
    linarith

/-- `√oq2 ≤ 1 + 2^-21` and the absolute error of the computed root -/
theorem st_bound {s st : ℝ} (hs1 : s ≤ 1 + 1 / 2 ^ 21)
    (h : |st - s| ≤ (3 + 4 / 10) * uR * s + tR) : |st - s| ≤ (3 + 41 / 100) * uR := by
  have hu0 := uR_nonneg
  have ht := tR_le_uR
  have : uR * s ≤ uR * (1 + 1 / 2 ^ 21) := mul_le_mul_of_nonneg_left hs1 hu0
  refine le_trans h ?_
  nlinarith

/-- `qr = 1 − √oq2` -/
theorem q_err {s st qt : ℝ} (hs0 : 0 ≤ s) (hs1 : s ≤ 1 + 1 / 2 ^ 21) (hst0 : 0 ≤ st)
    (h : |st - s| ≤ (3 + 41 / 100) * uR) (hq : Rnd uR eR (1 - st) qt) :
    |1 - s| ≤ 1 ∧ |qt - (1 - s)| ≤ (4 + 42 / 100) * uR := by
  have hu0 := uR_nonneg
  have hu := uR_le
  have he0 := eR_nonneg
  have he := eR_le_uR
  have a := abs_le.mp h
  have hb : |1 - st| ≤ 1 := by rw [abs_le]; constructor <;> linarith
  have a2 := abs_le.mp (rnd_le hu0 hq hb)
  refine ⟨by rw [abs_le]; constructor <;> linarith, ?_⟩
  rw [abs_le]
  constructor <;> linarith

/-- `qr²` -/
theorem q2_err {q qt q2 : ℝ} (hq1 : |q| ≤ 1) (h : |qt - q| ≤ (4 + 42 / 100) * uR) (h2 : Rnd uR eR (qt * qt) q2) :
    |q2 - q ^ 2| ≤ (9 + 9 / 10) * uR := by
  have hu0 := uR_nonneg
  have hu := uR_le
  have he0 := eR_nonneg
  have he := eR_le_uR
  obtain ⟨d, hd⟩ : ∃ d, qt = q + d := ⟨qt - q, by ring⟩
  have hd' : |d| ≤ (4 + 42 / 100) * uR := by rw [hd] at h; simpa using h
  have hqd : |q * d| ≤ (4 + 42 / 100) * uR := by
    rw [abs_mul]
    nlinarith [abs_nonneg q, abs_nonneg d]
  have hdd : d * d ≤ uR / 2 ^ 40 := by
    have := abs_le.mp hd'
    nlinarith
  have hdd0 : 0 ≤ d * d := mul_self_nonneg d
  have qd := abs_le.mp hqd
  have hq2 : q * q ≤ 1 := by have := abs_le.mp hq1; nlinarith
  have hq20 : 0 ≤ q * q := mul_self_nonneg q
  have e1 : qt * qt = q * q + 2 * (q * d) + d * d := by rw [hd]; ring
  have hb : |qt * qt| ≤ 1 + 9 * uR := by
    rw [e1, abs_le]; constructor <;> linarith
  have a2 := abs_le.mp (rnd_le hu0 h2 hb)
  have h3 : uR * (1 + 9 * uR) ≤ (1 + 1 / 1000) * uR := by nlinarith
  rw [pow_two, abs_le]
  constructor <;> linarith

/-- `|y| ≤ |x| + 1` for a rounded moderate `x` -/
theorem rnd_abs {x y M : ℝ} (h : Rnd uR eR x y) (hM : |x| ≤ M) (hM' : M ≤ 2 ^ 30) : |y| ≤ M + 1 := by
  have hu := uR_le
  have he := eR_le_uR
  have hM0 : 0 ≤ M := le_trans (abs_nonneg x) hM
  have a := abs_le.mp (rnd_le uR_nonneg h hM)
  have b := abs_le.mp hM
  have : uR * M ≤ 1 / 2 := by nlinarith [uR_nonneg]
  have := uR_nonneg
  rw [abs_le]
  constructor <;> linarith

/-! ### refined last stage (the errors of `qr` and `qr²` scale with `|qr|`) -/

/-- `qr = 1 − √oq2`, error relative to `s` and `|1 − s|` -/
theorem q_err' {s st qt : ℝ} (hs0 : 0 ≤ s) (hs1 : s ≤ 1 + 1 / 2 ^ 21)
    (h : |st - s| ≤ (3 + 4 / 10) * uR * s + tR) (hq : Rnd uR eR (1 - st) qt) :
    |qt - (1 - s)| ≤ uR * ((3 + 4 / 10) * s + |1 - s|) + uR / 2 ^ 20 := by
  have hu0 := uR_nonneg
  have hu := uR_le
  have he0 := eR_nonneg
  have he := eR_le_uR
  have ht0 := tR_nonneg
  have ht := tR_le_uR
  have hb : |1 - st| ≤ |1 - s| + ((3 + 4 / 10) * uR * s + tR) := by
    have e : 1 - st = (1 - s) + (s - st) := by ring
    rw [e]
    refine le_trans (abs_add_le _ _) ?_
    rw [abs_sub_comm s st]
    linarith
  have hg0 : 0 ≤ |1 - s| := abs_nonneg _
  generalize |1 - s| = g at *
  have a := abs_le.mp h
  have a2 := abs_le.mp (rnd_le hu0 hq hb)
  have hus : 0 ≤ uR * s := mul_nonneg hu0 hs0
  have h1 : uR * (uR * s) ≤ uR / 2 ^ 50 := by nlinarith
  have h2 : uR * tR ≤ tR := by nlinarith
  rw [abs_le]
  constructor <;> nlinarith

/-- `qr²` -/
theorem q2_err' {q qt q2 s g : ℝ} (hg0 : 0 ≤ g) (hg1 : g ≤ 1) (hq : |q| ≤ g) (hs2 : s ≤ 2)
    (h : |qt - q| ≤ uR * ((3 + 4 / 10) * s + g) + uR / 2 ^ 20) (h2 : Rnd uR eR (qt * qt) q2) :
    |q2 - q ^ 2| ≤ uR * ((6 + 8 / 10) * (s * g) + 3 * (g * g)) + uR / 2 ^ 10 := by
  have hu0 := uR_nonneg
  have hu := uR_le
  have he0 := eR_nonneg
  have he := eR_le_uR
  obtain ⟨d, hd⟩ : ∃ d, qt = q + d := ⟨qt - q, by ring⟩
  have hd' : |d| ≤ uR * ((3 + 4 / 10) * s + g) + uR / 2 ^ 20 := by rw [hd] at h; simpa using h
  have hE8 : uR * ((3 + 4 / 10) * s + g) + uR / 2 ^ 20 ≤ 8 * uR := by nlinarith
  have hE0 : 0 ≤ uR * ((3 + 4 / 10) * s + g) + uR / 2 ^ 20 := le_trans (abs_nonneg d) hd'
  have hqd : |q * d| ≤ g * (uR * ((3 + 4 / 10) * s + g) + uR / 2 ^ 20) := by
    rw [abs_mul]
    exact mul_le_mul hq hd' (abs_nonneg d) hg0
  have hdd : d * d ≤ uR / 2 ^ 40 := by
    have := abs_le.mp (le_trans hd' hE8)
    nlinarith
  have hdd0 : 0 ≤ d * d := mul_self_nonneg d
  have qd := abs_le.mp hqd
  have hqq : q * q ≤ g * g := by
    have := abs_le.mp hq; nlinarith
  have hqq0 : 0 ≤ q * q := mul_self_nonneg q
  have hgg1 : g * g ≤ 1 := by nlinarith
  have hgE : g * (uR * ((3 + 4 / 10) * s + g) + uR / 2 ^ 20) ≤ 8 * uR := by nlinarith
  have e1 : qt * qt = q * q + 2 * (q * d) + d * d := by rw [hd]; ring
  have hb : |qt * qt| ≤ g * g + 17 * uR := by
    rw [e1, abs_le]; constructor <;> linarith
  have a2 := abs_le.mp (rnd_le hu0 h2 hb)
  have h3 : uR * (17 * uR) ≤ uR / 2 ^ 40 := by nlinarith
  have hug : uR * g ≤ uR := by nlinarith
  rw [pow_two, abs_le]
  constructor <;> nlinarith

/-- the final sum -/
theorem final_err' {P s pq q2 Rt : ℝ} (hP0 : 0 ≤ P) (hs0 : 0 ≤ s) (hK : P + s ^ 2 ≤ 1 + 1 / 2 ^ 20)
    (hs1 : s ≤ 1 + 1 / 2 ^ 21)
    (hp : |pq - P| ≤ (3 + 6 / 10) * uR * P + 4 * eR)
    (hq2 : |q2 - (1 - s) ^ 2| ≤ uR * ((6 + 8 / 10) * (s * |1 - s|) + 3 * (|1 - s| * |1 - s|)) + uR / 2 ^ 10)
    (h : Rnd uR eR (pq + q2) Rt) :
    |Rt - (P + (1 - s) ^ 2)| ≤ 9 * uR := by
  have hu0 := uR_nonneg
  have hu := uR_le
  have he0 := eR_nonneg
  have he := eR_le_uR
  have hgg : |1 - s| * |1 - s| = (1 - s) ^ 2 := by rw [abs_mul_abs_self, pow_two]
  have hg0 : 0 ≤ |1 - s| := abs_nonneg _
  have hg1 : |1 - s| ≤ 1 := by rw [abs_le]; constructor <;> linarith
  -- the polynomial inequality
  have key : (4 + 6 / 10) * P + (6 + 8 / 10) * (s * |1 - s|) + 4 * (|1 - s| * |1 - s|) ≤ 8 + 7 / 10 := by
    rcases le_total s 1 with h1 | h1
    · rw [abs_of_nonneg (by linarith : 0 ≤ 1 - s)]
      nlinarith
    · rw [abs_of_nonpos (by linarith : 1 - s ≤ 0)]
      nlinarith
  have hsg0 : 0 ≤ s * |1 - s| := mul_nonneg hs0 hg0
  have hsg2 : s * |1 - s| ≤ 2 := by nlinarith
  rw [← hgg] at hq2 ⊢
  have hG1 : |1 - s| * |1 - s| ≤ 1 := by nlinarith
  have hG0 : 0 ≤ |1 - s| * |1 - s| := mul_nonneg hg0 hg0
  generalize |1 - s| * |1 - s| = G at *
  generalize s * |1 - s| = H at *
  have hP1 : P ≤ 1 + 1 / 2 ^ 20 := by nlinarith [pow_two_nonneg s]
  have a := abs_le.mp hp
  have b := abs_le.mp hq2
  have huP : uR * P ≤ uR * (1 + 1 / 2 ^ 20) := mul_le_mul_of_nonneg_left hP1 hu0
  have huP0 : 0 ≤ uR * P := mul_nonneg hu0 hP0
  have huH0 : 0 ≤ uR * H := mul_nonneg hu0 hsg0
  have huH : uR * H ≤ uR * 2 := mul_le_mul_of_nonneg_left hsg2 hu0
  have huG0 : 0 ≤ uR * G := mul_nonneg hu0 hG0
  have huG : uR * G ≤ uR := by nlinarith
  have hb : |pq + q2| ≤ P + G + 22 * uR := by
    rw [abs_le]; constructor <;> nlinarith
  have c := abs_le.mp (rnd_le hu0 h hb)
  have hk := mul_le_mul_of_nonneg_left key hu0
  have h3 : uR * (22 * uR) ≤ uR / 2 ^ 40 := by nlinarith
  rw [abs_le]
  constructor <;> nlinarith

/-! ### the float computation -/

/-- `1 + uv·uv` -/
def den (uv : F64) : F64 := F64.one + uv * uv
/-- `x·x / (1 + uv·uv)` -/
def quo (x uv : F64) : F64 := x * x / den uv
def oq2 (uv along w : F64) : F64 := along * along + quo w uv
def qr (uv along w : F64) : F64 := F64.one - F64.sqrt (oq2 uv along w)

theorem edgeDistance_eq (ij uv along w : F64) :
    edgeDistance ij uv along w = chordAngleFromSquaredLength (quo ij uv + qr uv along w * qr uv along w) := rfl

theorem den_spec (uv : F64) (huv : Fin uv) (buv : |val uv| ≤ 1) :
    Fin (den uv) ∧ |val (den uv) - (1 + val uv ^ 2)| ≤ (3 / 2 + 1 / 100) * uR * (1 + val uv ^ 2) := by
  have h1f : Fin F64.one := by decide
  have h1v : val F64.one = 1 := FE2.val_one'
  have hv2 : val uv ^ 2 ≤ 1 := by have := abs_le.mp buv; nlinarith
  have hv20 : 0 ≤ val uv ^ 2 := pow_two_nonneg _
  have mv : |val uv * val uv| ≤ 1 := by rw [← pow_two, abs_of_nonneg hv20]; exact hv2
  obtain ⟨f1, r1, _⟩ := mulS huv huv (le_trans mv (by norm_num))
  have g1 := rnd_abs r1 mv (by norm_num)
  have m2 : |val F64.one + val (uv * uv)| ≤ 3 := by
    rw [h1v]; have := abs_le.mp g1; rw [abs_le]; constructor <;> linarith
  obtain ⟨f2, r2, _⟩ := addS h1f f1 (le_trans m2 (by norm_num))
  rw [h1v] at r2
  exact ⟨f2, den_err buv r1 r2⟩

theorem quo_spec (x uv : F64) (hx : Fin x) (huv : Fin uv) (buv : |val uv| ≤ 1) (h4 : val x ^ 2 ≤ 4) :
    Fin (quo x uv) ∧ 0 ≤ val (quo x uv) ∧
    |val (quo x uv) - val x ^ 2 / (1 + val uv ^ 2)| ≤ (3 + 6 / 10) * uR * (val x ^ 2 / (1 + val uv ^ 2)) + 4 * eR := by
  obtain ⟨f2, hDt⟩ := den_spec uv huv buv
  have hD1 : 1 ≤ 1 + val uv ^ 2 := by have := pow_two_nonneg (val uv); linarith
  have hDlo := den_lo hD1 hDt
  have ma : |val x * val x| ≤ 4 := by rw [← pow_two, abs_of_nonneg (pow_two_nonneg _)]; exact h4
  obtain ⟨f3, r3, n3⟩ := mulS hx hx (le_trans ma (by norm_num))
  have g3 := rnd_abs r3 ma (by norm_num)
  obtain ⟨f4, r4, n4⟩ := divS f3 f2 hDlo (le_trans g3 (by norm_num))
  rw [← pow_two] at r3
  exact ⟨f4, n4 (n3 (mul_self_nonneg _)), quot_err (pow_two_nonneg _) hD1 hDt r3 r4⟩

theorem oq2_spec (uv along w : F64) (huv : Fin uv) (hal : Fin along) (hw : Fin w) (buv : |val uv| ≤ 1)
    (hl1 : val along ^ 2 ≤ 2) (hB1 : val w ^ 2 / (1 + val uv ^ 2) ≤ 2) :
    Fin (oq2 uv along w) ∧ 0 ≤ val (oq2 uv along w) ∧
    |val (oq2 uv along w) - (val along ^ 2 + val w ^ 2 / (1 + val uv ^ 2))|
      ≤ (4 + 7 / 10) * uR * (val along ^ 2 + val w ^ 2 / (1 + val uv ^ 2)) + 7 * eR := by
  have hu0 := uR_nonneg
  have hu := uR_le
  have he0 := eR_nonneg
  have he := eR_le_uR
  have hv2 : val uv ^ 2 ≤ 1 := by have := abs_le.mp buv; nlinarith
  have hv20 : 0 ≤ val uv ^ 2 := pow_two_nonneg _
  have hD0 : 0 < 1 + val uv ^ 2 := by linarith
  have hB0 : 0 ≤ val w ^ 2 / (1 + val uv ^ 2) := div_nonneg (pow_two_nonneg _) hD0.le
  have hl0 : 0 ≤ val along ^ 2 := pow_two_nonneg _
  have hw4 : val w ^ 2 ≤ 4 := by
    rw [div_le_iff₀ hD0] at hB1; nlinarith
  have ml : |val along * val along| ≤ 2 := by
    rw [← pow_two, abs_of_nonneg hl0]; linarith
  obtain ⟨f5, r5, n5⟩ := mulS hal hal (le_trans ml (by norm_num))
  have g5 := rnd_abs r5 ml (by norm_num)
  obtain ⟨f7, nB, eB⟩ := quo_spec w uv hw huv buv hw4
  have nl : 0 ≤ val (along * along) := n5 (mul_self_nonneg _)
  have gB : |val (quo w uv)| ≤ 3 := by
    have b := abs_le.mp eB
    have : uR * (val w ^ 2 / (1 + val uv ^ 2)) ≤ uR * 2 := mul_le_mul_of_nonneg_left hB1 hu0
    rw [abs_le]; constructor <;> nlinarith
  have ms : |val (along * along) + val (quo w uv)| ≤ 6 := by
    have a := abs_le.mp g5
    have b := abs_le.mp gB
    rw [abs_le]; constructor <;> linarith
  obtain ⟨f8, r8, n8⟩ := addS f5 f7 (le_trans ms (by norm_num))
  exact ⟨f8, n8 (by linarith), sum_err hB0 r5 eB r8⟩

theorem qr_spec (uv along w : F64) (huv : Fin uv) (hal : Fin along) (hw : Fin w) (buv : |val uv| ≤ 1)
    (hO1 : val along ^ 2 + val w ^ 2 / (1 + val uv ^ 2) ≤ 1 + 1 / 2 ^ 20) :
    Fin (qr uv along w) ∧ |1 - Real.sqrt (val along ^ 2 + val w ^ 2 / (1 + val uv ^ 2))| ≤ 1 ∧
    |val (qr uv along w) - (1 - Real.sqrt (val along ^ 2 + val w ^ 2 / (1 + val uv ^ 2)))|
      ≤ (4 + 42 / 100) * uR ∧
    |val (qr uv along w) - (1 - Real.sqrt (val along ^ 2 + val w ^ 2 / (1 + val uv ^ 2)))|
      ≤ uR * ((3 + 4 / 10) * Real.sqrt (val along ^ 2 + val w ^ 2 / (1 + val uv ^ 2))
          + |1 - Real.sqrt (val along ^ 2 + val w ^ 2 / (1 + val uv ^ 2))|) + uR / 2 ^ 20 := by
  have h1f : Fin F64.one := by decide
  have h1v : val F64.one = 1 := FE2.val_one'
  have hu0 := uR_nonneg
  have hu := uR_le
  have hv20 : 0 ≤ val uv ^ 2 := pow_two_nonneg _
  have hD0 : 0 < 1 + val uv ^ 2 := by linarith
  have hB0 : 0 ≤ val w ^ 2 / (1 + val uv ^ 2) := div_nonneg (pow_two_nonneg _) hD0.le
  have hl0 : 0 ≤ val along ^ 2 := pow_two_nonneg _
  have hO0 : 0 ≤ val along ^ 2 + val w ^ 2 / (1 + val uv ^ 2) := by linarith
  obtain ⟨f8, nO, eO⟩ := oq2_spec uv along w huv hal hw buv (by linarith) (by linarith)
  generalize val along ^ 2 + val w ^ 2 / (1 + val uv ^ 2) = O at *
  have hs0 : 0 ≤ Real.sqrt O := Real.sqrt_nonneg _
  have hs1 : Real.sqrt O ≤ 1 + 1 / 2 ^ 21 := by
    rw [Real.sqrt_le_iff]
    refine ⟨by norm_num, le_trans hO1 (by norm_num)⟩
  obtain ⟨f9, n9, lo9, hi9⟩ := sqrtS _ f8 nO
  have eS' := sqrt_err hO0 eO n9 lo9 hi9
  have eS := st_bound hs1 eS'
  have m10 : |val F64.one - val (F64.sqrt (oq2 uv along w))| ≤ 1 := by
    rw [h1v]
    generalize val (F64.sqrt (oq2 uv along w)) = st at *
    have := abs_le.mp eS; rw [abs_le]; constructor <;> linarith
  obtain ⟨f10, r10, _⟩ := subS h1f f9 (le_trans m10 (by norm_num))
  rw [h1v] at r10
  obtain ⟨hq1, eq⟩ := q_err hs0 hs1 n9 eS r10
  exact ⟨f10, hq1, eq, q_err' hs0 hs1 eS' r10⟩

theorem edge_all (ij uv along w : F64) (hij : Fin ij) (huv : Fin uv) (hal : Fin along) (hw : Fin w)
    (buv : |val uv| ≤ 1)
    (bsum : val ij ^ 2 / (1 + val uv ^ 2) + val along ^ 2 + val w ^ 2 / (1 + val uv ^ 2) ≤ 1 + 1 / 2 ^ 20) :
    Fin (edgeDistance ij uv along w) ∧ 0 ≤ val (edgeDistance ij uv along w) ∧
    val (edgeDistance ij uv along w) ≤ 3 ∧
    |val (edgeDistance ij uv along w) - edgeReal (val ij) (val uv) (val along) (val w)| ≤ 9 * uR := by
  have hu0 := uR_nonneg
  have hu := uR_le
  have he0 := eR_nonneg
  have he := eR_le_uR
  have hv2 : val uv ^ 2 ≤ 1 := by have := abs_le.mp buv; nlinarith
  have hv20 : 0 ≤ val uv ^ 2 := pow_two_nonneg _
  have hD0 : 0 < 1 + val uv ^ 2 := by linarith
  have hP0 : 0 ≤ val ij ^ 2 / (1 + val uv ^ 2) := div_nonneg (pow_two_nonneg _) hD0.le
  have hB0 : 0 ≤ val w ^ 2 / (1 + val uv ^ 2) := div_nonneg (pow_two_nonneg _) hD0.le
  have hl0 : 0 ≤ val along ^ 2 := pow_two_nonneg _
  have hP1 : val ij ^ 2 / (1 + val uv ^ 2) ≤ 1 + 1 / 2 ^ 20 := by linarith
  have ha4 : val ij ^ 2 ≤ 4 := by
    rw [div_le_iff₀ hD0] at hP1; nlinarith
  have hO0 : 0 ≤ val along ^ 2 + val w ^ 2 / (1 + val uv ^ 2) := by linarith
  have hO1 : val along ^ 2 + val w ^ 2 / (1 + val uv ^ 2) ≤ 1 + 1 / 2 ^ 20 := by linarith
  have hs0 : 0 ≤ Real.sqrt (val along ^ 2 + val w ^ 2 / (1 + val uv ^ 2)) := Real.sqrt_nonneg _
  have hs1 : Real.sqrt (val along ^ 2 + val w ^ 2 / (1 + val uv ^ 2)) ≤ 1 + 1 / 2 ^ 21 := by
    rw [Real.sqrt_le_iff]
    refine ⟨by norm_num, le_trans hO1 (by norm_num)⟩
  have hK : val ij ^ 2 / (1 + val uv ^ 2) + Real.sqrt (val along ^ 2 + val w ^ 2 / (1 + val uv ^ 2)) ^ 2
      ≤ 1 + 1 / 2 ^ 20 := by
    rw [Real.sq_sqrt hO0]; linarith
  obtain ⟨f4, npq, epq⟩ := quo_spec ij uv hij huv buv ha4
  obtain ⟨f10, hq1, eq, eq'⟩ := qr_spec uv along w huv hal hw buv hO1
  unfold edgeReal
  rw [edgeDistance_eq]
  generalize val ij ^ 2 / (1 + val uv ^ 2) = P at *
  generalize Real.sqrt (val along ^ 2 + val w ^ 2 / (1 + val uv ^ 2)) = s at *
  generalize qr uv along w = Q at *
  generalize quo ij uv = PQ at *
  have hqq : (1 - s) ^ 2 ≤ 1 := by have := abs_le.mp hq1; nlinarith
  have hqq0 : 0 ≤ (1 - s) ^ 2 := pow_two_nonneg _
  have m11 : |val Q * val Q| ≤ 4 := by
    have a := abs_le.mp eq
    have b := abs_le.mp hq1
    rw [abs_mul_self]
    nlinarith
  obtain ⟨f11, r11, n11⟩ := mulS f10 f10 (le_trans m11 (by norm_num))
  have eq2 := q2_err hq1 eq r11
  have eq2' := q2_err' (abs_nonneg _) hq1 (le_refl _) (by linarith) eq' r11
  have nq2 := n11 (mul_self_nonneg _)
  have m12 : |val PQ + val (Q * Q)| ≤ 4 := by
    have a := abs_le.mp epq
    have b := abs_le.mp eq2
    have : uR * P ≤ uR * (1 + 1 / 2 ^ 20) := mul_le_mul_of_nonneg_left hP1 hu0
    rw [abs_le]; constructor <;> nlinarith
  obtain ⟨f12, r12, n12⟩ := addS f4 f11 (le_trans m12 (by norm_num))
  have eR12 := final_err' hP0 hs0 hK hs1 epq eq2' r12
  have n12' := n12 (by linarith)
  have hR3 : val (PQ + Q * Q) ≤ 3 := by
    have a := abs_le.mp eR12
    linarith
  rw [clamp_id f12 (by linarith)]
  exact ⟨f12, n12', hR3, eR12⟩

end EdgeErr

/-- absolute error bound of `edgeDistance` -/
noncomputable def edgeErr : ℝ := 9 * uR

/-- **`edgeDistance`** of a unit-ish target: finite and within `9·2^-53` of the exact value -/
theorem edgeDistance_err (ij uv along w : F64) (hij : Fin ij) (huv : Fin uv) (hal : Fin along) (hw : Fin w)
    (buv : |val uv| ≤ 1)
    (bsum : val ij ^ 2 / (1 + val uv ^ 2) + val along ^ 2 + val w ^ 2 / (1 + val uv ^ 2) ≤ 1 + 1 / 2 ^ 20) :
    Fin (edgeDistance ij uv along w) ∧
    |val (edgeDistance ij uv along w) - edgeReal (val ij) (val uv) (val along) (val w)| ≤ edgeErr := by
  obtain ⟨f, _, _, e⟩ := EdgeErr.edge_all ij uv along w hij huv hal hw buv bsum
  exact ⟨f, e⟩

/-- by-products: the result is non-negative, at most 3 (the clamp at 4 does not fire) -/
theorem edgeDistance_range (ij uv along w : F64) (hij : Fin ij) (huv : Fin uv) (hal : Fin along) (hw : Fin w)
    (buv : |val uv| ≤ 1)
    (bsum : val ij ^ 2 / (1 + val uv ^ 2) + val along ^ 2 + val w ^ 2 / (1 + val uv ^ 2) ≤ 1 + 1 / 2 ^ 20) :
    0 ≤ val (edgeDistance ij uv along w) ∧ val (edgeDistance ij uv along w) ≤ 3 := by
  obtain ⟨_, n, h3, _⟩ := EdgeErr.edge_all ij uv along w hij huv hal hw buv bsum
  exact ⟨n, h3⟩

/-- non-vacuity: the hypotheses hold for `ij = uv = along = w = 1/2` -/
example : Fin (⟨0x3FE0000000000000⟩ : F64) ∧ |val (⟨0x3FE0000000000000⟩ : F64)| ≤ 1 ∧
    val (⟨0x3FE0000000000000⟩ : F64) ^ 2 / (1 + val (⟨0x3FE0000000000000⟩ : F64) ^ 2)
      + val (⟨0x3FE0000000000000⟩ : F64) ^ 2
      + val (⟨0x3FE0000000000000⟩ : F64) ^ 2 / (1 + val (⟨0x3FE0000000000000⟩ : F64) ^ 2) ≤ 1 + 1 / 2 ^ 20 := by
  have ht : toInt (⟨0x3FE0000000000000⟩ : F64) = 2 ^ 1073 := by decide +kernel
  have hv : val (⟨0x3FE0000000000000⟩ : F64) = 1 / 2 := by
    unfold val; rw [ht]; push_cast
    rw [pow_succ 2 1073]; field_simp
  refine ⟨by decide, ?_, ?_⟩
  · rw [hv]; norm_num [abs_le]
  · rw [hv]; norm_num

end S2Proofs.C12Dist
