/-
  C12Dist.Attained — ATTAINED: the value of `Cell.Distance` is (within the error) the squared distance to a point of
  the cell, on its boundary unless the value is the literal `0` of the interior case.  UNCONDITIONAL after repair D58:

  * edge branches: with the margin `m = 32·dblError` in `uEdgeIsClosest` / `vEdgeIsClosest` a float "yes" implies that
    the exact tangential quantities are beyond `±(m − 17u) = ±14u` (`Ctx.vClosest_lo` …), in particular they have the
    right strict signs: the four edge clauses of the former proviso `ExactOK` are THEOREMS (`edge_tests_exact`);
  * interior branch: the clause "float `inside` ⇒ exact inside" of the former proviso is NOT a theorem (the float sign
    tests are only within `1.02u` of the exact ones) but it is not needed: the clamp argument
    (`InsideRobust.inside_point_robust`) gives a point of the cell within `6.12u + (|t|−1)²`;
  * vertex branch: never needed a proviso.

  For the code BEFORE the repair the edge clauses were necessary and failed: `Counter.lean` (on `OldModel.lean`).
-/
import S2Proofs.C12Dist.Lower
import S2Proofs.C12Dist.InsideRobust

namespace S2Proofs.C12Dist
open S2 S2.CellM S2Proofs.FloatErr S2Proofs.F64Order S2Proofs.C16Acc

/-- the four edge clauses of the former proviso `ExactOK`: for each float edge condition that is true the two exact
    tangential quantities have the right strict signs -/
def EdgeTestsExact (c : Cell) (t : V3) : Prop :=
  ((F64.lt (dirs c t).dir00 fzero && vEdgeIsClosest c t false) = true →
      0 < vTan (rectOf c).u0 (rectOf c).v0 (ofV t) ∧ vTan (rectOf c).u0 (rectOf c).v1 (ofV t) < 0) ∧
  ((F64.gt (dirs c t).dir01 fzero && vEdgeIsClosest c t true) = true →
      0 < vTan (rectOf c).u1 (rectOf c).v0 (ofV t) ∧ vTan (rectOf c).u1 (rectOf c).v1 (ofV t) < 0) ∧
  ((F64.lt (dirs c t).dir10 fzero && uEdgeIsClosest c t false) = true →
      0 < uTan (rectOf c).v0 (rectOf c).u0 (ofV t) ∧ uTan (rectOf c).v0 (rectOf c).u1 (ofV t) < 0) ∧
  ((F64.gt (dirs c t).dir11 fzero && uEdgeIsClosest c t true) = true →
      0 < uTan (rectOf c).v1 (rectOf c).u0 (ofV t) ∧ uTan (rectOf c).v1 (rectOf c).u1 (ofV t) < 0)

/-- the interior clause of the former proviso (float `inside` ⇒ exact inside).  NOT a theorem, and no longer a
    hypothesis of anything: kept to state precisely what `ExactOK` consisted of. -/
def InsideExact (c : Cell) (t : V3) : Prop := (dirs c t).inside = true → ExInside (rectOf c) (ofV t)

/-- the former proviso of ATTAINED (package c12dist) = edge clauses ∧ interior clause -/
def ExactOK (c : Cell) (t : V3) : Prop := EdgeTestsExact c t ∧ InsideExact c t

/-- **after repair D58 the edge clauses hold for every cell and target of the context**: a float "yes" of a tangential
    test with margin means the exact quantity is beyond `14·u` on the right side -/
theorem edge_tests_exact {c : Cell} {t : V3} (X : Ctx c t) : EdgeTestsExact c t := by
  have hu := uR_pos
  refine ⟨fun h => ?_, fun h => ?_, fun h => ?_, fun h => ?_⟩
  · rw [Bool.and_eq_true] at h
    obtain ⟨h1, h2⟩ := X.vClosest_lo.1 h.2
    exact ⟨by linarith, by linarith⟩
  · rw [Bool.and_eq_true] at h
    obtain ⟨h1, h2⟩ := X.vClosest_hi.1 h.2
    exact ⟨by linarith, by linarith⟩
  · rw [Bool.and_eq_true] at h
    obtain ⟨h1, h2⟩ := X.uClosest_lo.1 h.2
    exact ⟨by linarith, by linarith⟩
  · rw [Bool.and_eq_true] at h
    obtain ⟨h1, h2⟩ := X.uClosest_hi.1 h.2
    exact ⟨by linarith, by linarith⟩

namespace Attained

/-- `edgeReal` on the exact frame coordinates of an edge `u = const` is at most `|t|² + 1` -/
theorem edgeReal_le_u (u : ℝ) (t : R3) :
    edgeReal (t.x - t.z * u) u t.y (u * t.x + t.z) ≤ t.norm2 + 1 := by
  rw [edgeReal_eq, frame_norm_u]
  have := Real.sqrt_nonneg (t.y ^ 2 + (u * t.x + t.z) ^ 2 / (1 + u ^ 2))
  linarith

theorem edgeReal_le_v (v : ℝ) (t : R3) :
    edgeReal (t.y - t.z * v) v t.x (v * t.y + t.z) ≤ t.norm2 + 1 := by
  rw [edgeReal_eq, frame_norm_v]
  have := Real.sqrt_nonneg (t.x ^ 2 + (v * t.y + t.z) ^ 2 / (1 + v ^ 2))
  linarith

/-- pure real: the end of an edge branch -/
theorem edge_close {x d e E m n2 : ℝ} (h : |x - e| ≤ E) (hd : d = e) (he : e ≤ n2 + 1)
    (hn : n2 ≤ 1 + 1 / 2 ^ 21) (hm : 0 ≤ m) (V : ℝ) :
    |x - min 4 d| ≤ max E V + m := by
  have h4 : d ≤ 4 := by
    have : (1 : ℝ) + 1 / 2 ^ 21 + 1 ≤ 4 := by norm_num
    linarith
  rw [min_eq_right h4, hd]
  have := le_max_left E V
  linarith

/-- pure real: the end of the interior branch -/
theorem inside_close {d m δ E V : ℝ} (hd0 : 0 ≤ d) (hd : d ≤ m + δ) (hδ : δ ≤ V) :
    |(0 : ℝ) - min 4 d| ≤ max E V + m := by
  have h1 : 0 ≤ min 4 d := le_min (by norm_num) hd0
  have h2 : min 4 d ≤ d := min_le_right _ _
  have h3 := le_max_right E V
  rw [zero_sub, abs_neg, abs_of_nonneg h1]
  linarith

/-- a unit vertex lies on the boundary -/
theorem vhat_onBoundary (r : RRect) (hr : r.OK) (a b : ℝ) (ha : a = r.u0 ∨ a = r.u1) (hb : r.v0 ≤ b ∧ b ≤ r.v1) :
    OnBoundary r (vhat a b) := by
  have hain : r.u0 ≤ a ∧ a ≤ r.u1 := by
    have := hr.u_lt
    rcases ha with h | h <;> rw [h] <;> constructor <;> linarith
  refine ⟨vhat_inCell r hr a b hain hb, ?_⟩
  have e : (vhat a b).x = a * (vhat a b).z := by
    rw [Cover.vhat_eq]; unfold R3.smul; simp only; ring
  rcases ha with h | h
  · left; rw [e, h]
  · right; left; rw [e, h]

end Attained

open Attained

/-- the vertex branch needs no proviso -/
theorem vertex_branch_attained {c : Cell} {t : V3} (X : Ctx c t) :
    ∃ q : R3, OnBoundary (rectOf c) q ∧
      |val (minChord (vertexChordDist2 c t false false)
          [vertexChordDist2 c t true false, vertexChordDist2 c t false true, vertexChordDist2 c t true true])
        - min 4 (dist2 (ofV t) q)| ≤ vertErr := by
  obtain ⟨f00, _, _, e00⟩ := X.vertex_val false false
  obtain ⟨f10, _, _, e10⟩ := X.vertex_val true false
  obtain ⟨f01, _, _, e01⟩ := X.vertex_val false true
  obtain ⟨f11, _, _, e11⟩ := X.vertex_val true true
  simp only [if_true, Bool.false_eq_true, if_false] at e00 e10 e01 e11
  obtain ⟨hmem, -⟩ := minChord4 _ _ _ _ f00 f10 f01 f11
  have hr := X.ok
  have hv0 : (rectOf c).v0 ≤ (rectOf c).v0 ∧ (rectOf c).v0 ≤ (rectOf c).v1 := ⟨le_refl _, hr.v_lt.le⟩
  have hv1 : (rectOf c).v0 ≤ (rectOf c).v1 ∧ (rectOf c).v1 ≤ (rectOf c).v1 := ⟨hr.v_lt.le, le_refl _⟩
  rcases hmem with h | h | h | h <;> rw [h]
  · exact ⟨_, vhat_onBoundary _ hr _ _ (Or.inl rfl) hv0, e00⟩
  · exact ⟨_, vhat_onBoundary _ hr _ _ (Or.inr rfl) hv0, e10⟩
  · exact ⟨_, vhat_onBoundary _ hr _ _ (Or.inl rfl) hv1, e01⟩
  · exact ⟨_, vhat_onBoundary _ hr _ _ (Or.inr rfl) hv1, e11⟩

/-- **ATTAINED, face frame — no proviso.** -/
theorem distUVW_attained {eE : ℝ} (HE : EdgeSpec eE) {c : Cell} {t : V3} (X : Ctx c t) (bl : 1 / 2 ≤ (ofV t).norm2) :
    ∃ q : R3, InCell (rectOf c) q ∧ (OnBoundary (rectOf c) q ∨ distUVW c t = fzero) ∧
      |val (distUVW c t) - min 4 (dist2 (ofV t) q)| ≤ max (eE + 27 * uR) vertErr + ((ofV t).norm - 1) ^ 2 := by
  obtain ⟨xL, xR, xB, xT⟩ := edge_tests_exact X
  have hm : 0 ≤ ((ofV t).norm - 1) ^ 2 := sq_nonneg _
  unfold distUVW
  simp only
  by_cases cL : (F64.lt (dirs c t).dir00 fzero && vEdgeIsClosest c t false) = true
  · rw [if_pos cL]
    obtain ⟨_, er⟩ := X.edgeL_val HE
    obtain ⟨q, hb, hd⟩ := edge_attained_L (rectOf c) X.ok (ofV t) (xL cL).1 (xL cL).2
    refine ⟨q, hb.1, Or.inl hb, edge_close er hd ?_ X.bn hm _⟩
    rw [edgeReal_neg, mul_comm (rectOf c).u0]
    have := edgeReal_le_u (rectOf c).u0 (ofV t)
    unfold sL; rw [mul_comm (ofV t).x]; exact this
  rw [if_neg cL]
  by_cases cR : (F64.gt (dirs c t).dir01 fzero && vEdgeIsClosest c t true) = true
  · rw [if_pos cR]
    obtain ⟨_, er⟩ := X.edgeR_val HE
    obtain ⟨q, hb, hd⟩ := edge_attained_R (rectOf c) X.ok (ofV t) (xR cR).1 (xR cR).2
    exact ⟨q, hb.1, Or.inl hb, edge_close er hd (edgeReal_le_u (rectOf c).u1 (ofV t)) X.bn hm _⟩
  rw [if_neg cR]
  by_cases cB : (F64.lt (dirs c t).dir10 fzero && uEdgeIsClosest c t false) = true
  · rw [if_pos cB]
    obtain ⟨_, er⟩ := X.edgeB_val HE
    obtain ⟨q, hb, hd⟩ := edge_attained_B (rectOf c) X.ok (ofV t) (xB cB).1 (xB cB).2
    refine ⟨q, hb.1, Or.inl hb, edge_close er hd ?_ X.bn hm _⟩
    rw [edgeReal_neg]
    exact edgeReal_le_v (rectOf c).v0 (ofV t)
  rw [if_neg cB]
  by_cases cT : (F64.gt (dirs c t).dir11 fzero && uEdgeIsClosest c t true) = true
  · rw [if_pos cT]
    obtain ⟨_, er⟩ := X.edgeT_val HE
    obtain ⟨q, hb, hd⟩ := edge_attained_T (rectOf c) X.ok (ofV t) (xT cT).1 (xT cT).2
    exact ⟨q, hb.1, Or.inl hb, edge_close er hd (edgeReal_le_v (rectOf c).v1 (ofV t)) X.bn hm _⟩
  rw [if_neg cT]
  by_cases cI : (dirs c t).inside = true
  · rw [if_pos cI]
    -- float `inside`: none of the four float sign tests fired; the exact quantities are within 1.02·u
    unfold Dirs.inside at cI
    simp only [Bool.and_eq_true, Bool.not_eq_true'] at cI
    obtain ⟨⟨⟨n1, n2⟩, n3⟩, n4⟩ := cI
    have hu := uR_nonneg
    have hus := uR_small
    obtain ⟨q, hq, hd0, hd⟩ := inside_point_robust (rectOf c) X.ok X.gu (ofV t) ((102 / 100) * uR)
      (by linarith) (by unfold uR; norm_num)
      (by have := X.signL.2 n1; linarith) (X.signR.2 n2) (by have := X.signB.2 n3; linarith) (X.signT.2 n4)
      bl (by have := X.bn; have : (1 : ℝ) + 1 / 2 ^ 21 ≤ 2 := by norm_num
             linarith)
    refine ⟨q, hq, Or.inr rfl, ?_⟩
    rw [val_fzero]
    refine inside_close (δ := 6 * ((102 / 100) * uR)) hd0 (by linarith) ?_
    unfold vertErr; linarith
  rw [if_neg cI]
  obtain ⟨q, hb, he⟩ := vertex_branch_attained X
  refine ⟨q, hb.1, Or.inl hb, ?_⟩
  have := le_max_right (eE + 27 * uR) vertErr
  linarith

end S2Proofs.C12Dist
