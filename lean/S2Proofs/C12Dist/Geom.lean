/-
  C12Dist.Geom — the real-analysis core of the edge and interior cases of `Cell.distanceInternal`.

  For an edge `u = u₀` of the cell (inward normal `n = (1,0,−u₀)`, `D = |n|² = 1+u₀²`) a vector `t` is written in the
  orthonormal frame  n/√D, (0,1,0), (u₀,0,1)/√D :
        s = t·n = t.x − u₀ t.z,   y = t.y,   w = u₀ t.x + t.z,     |t|² = s²/D + y² + w²/D .
  `edge_core` : for a unit `q` with `q·n ≥ 0`:   t·q ≤ √(y² + w²/D) + max(s,0).
  Hence (`edge_lower`) every point of the cell is at squared distance ≥ edgeReal − 2·max(s,0) from `t`: the value of
  `edgeDistance` is a lower bound as soon as the SIGN test of the edge is (nearly) right — the tangential tests
  `vEdgeIsClosest` are not needed for this direction.
  `edge_attained` : if the two tangential tests hold exactly, the value is the distance to a point of that edge.
-/
import S2Proofs.C12Dist.Spec
import Mathlib.Tactic.Linarith
import Mathlib.Tactic.Ring
import Mathlib.Tactic.Positivity
import Mathlib.Tactic.FieldSimp
import Mathlib.Analysis.Real.Sqrt

namespace S2Proofs.C12Dist
open S2Proofs.C16Acc

/-- Cauchy–Schwarz in the plane with a weight: `a·a' + b·b'/D ≤ √(a² + b²/D)·√(a'² + b'²/D)` -/
theorem cs2 (D a b a' b' : ℝ) (hD : 0 < D) :
    a * a' + b * b' / D ≤ Real.sqrt (a ^ 2 + b ^ 2 / D) * Real.sqrt (a' ^ 2 + b' ^ 2 / D) := by
  have h1 : 0 ≤ a ^ 2 + b ^ 2 / D := by positivity
  have h2 : 0 ≤ a' ^ 2 + b' ^ 2 / D := by positivity
  rw [← Real.sqrt_mul h1]
  apply Real.le_sqrt_of_sq_le
  have key : (a ^ 2 + b ^ 2 / D) * (a' ^ 2 + b' ^ 2 / D) - (a * a' + b * b' / D) ^ 2
      = (a * b' - a' * b) ^ 2 / D := by
    field_simp; ring
  have : 0 ≤ (a * b' - a' * b) ^ 2 / D := by positivity
  linarith

/-- the core inequality of an edge (see the header) -/
theorem edge_core (D s w y sq wq yq : ℝ) (hD : 1 ≤ D) (hsq : 0 ≤ sq)
    (hq : yq ^ 2 + (sq ^ 2 + wq ^ 2) / D = 1) :
    (s * sq + w * wq) / D + y * yq ≤ Real.sqrt (y ^ 2 + w ^ 2 / D) + max s 0 := by
  have hD0 : 0 < D := by linarith
  have h1 : y * yq + w * wq / D ≤ Real.sqrt (y ^ 2 + w ^ 2 / D) * Real.sqrt (yq ^ 2 + wq ^ 2 / D) :=
    cs2 D y w yq wq hD0
  have hsqD : 0 ≤ sq ^ 2 / D := by positivity
  have h2 : yq ^ 2 + wq ^ 2 / D ≤ 1 := by
    have : yq ^ 2 + wq ^ 2 / D = 1 - sq ^ 2 / D := by
      have := hq; field_simp at this ⊢; linarith
    linarith
  have h3 : Real.sqrt (yq ^ 2 + wq ^ 2 / D) ≤ 1 := by
    rw [show (1 : ℝ) = Real.sqrt 1 by simp]; exact Real.sqrt_le_sqrt h2
  have h4 : 0 ≤ Real.sqrt (y ^ 2 + w ^ 2 / D) := Real.sqrt_nonneg _
  have h5 : Real.sqrt (y ^ 2 + w ^ 2 / D) * Real.sqrt (yq ^ 2 + wq ^ 2 / D) ≤ Real.sqrt (y ^ 2 + w ^ 2 / D) := by
    nlinarith [Real.sqrt_nonneg (yq ^ 2 + wq ^ 2 / D)]
  -- the normal part
  have h6 : s * sq / D ≤ max s 0 := by
    have hsq2 : sq ^ 2 ≤ D := by
      have hy : 0 ≤ yq ^ 2 := by positivity
      have hw : 0 ≤ wq ^ 2 / D := by positivity
      have : sq ^ 2 / D ≤ 1 := by
        have : sq ^ 2 / D = 1 - yq ^ 2 - wq ^ 2 / D := by
          have := hq; field_simp at this ⊢; linarith
        linarith
      rwa [div_le_one hD0] at this
    have hsqD' : sq ≤ D := by nlinarith
    rcases le_total s 0 with hs | hs
    · have : s * sq / D ≤ 0 := by
        apply div_nonpos_of_nonpos_of_nonneg _ (le_of_lt hD0)
        exact mul_nonpos_of_nonpos_of_nonneg hs hsq
      exact le_trans this (le_max_right _ _)
    · have : s * sq / D ≤ s := by
        rw [div_le_iff₀ hD0]
        exact mul_le_mul_of_nonneg_left hsqD' hs
      exact le_trans this (le_max_left _ _)
  have e : (s * sq + w * wq) / D + y * yq = s * sq / D + (y * yq + w * wq / D) := by
    field_simp; ring
  rw [e]
  linarith

/-- `edgeReal` on the exact frame coordinates is `|t|² + 1 − 2·√oq2` -/
theorem edgeReal_eq (s u y w : ℝ) :
    edgeReal s u y w = (s ^ 2 / (1 + u ^ 2) + y ^ 2 + w ^ 2 / (1 + u ^ 2)) + 1
      - 2 * Real.sqrt (y ^ 2 + w ^ 2 / (1 + u ^ 2)) := by
  unfold edgeReal
  have h : 0 ≤ y ^ 2 + w ^ 2 / (1 + u ^ 2) := by positivity
  have := Real.sq_sqrt h
  nlinarith [this]

/-! ### the four edges: frame identities -/

/-- frame identity, edges `u = const`: `|t|² = s²/D + y² + w²/D` -/
theorem frame_norm_u (u : ℝ) (t : R3) :
    (t.x - t.z * u) ^ 2 / (1 + u ^ 2) + t.y ^ 2 + (u * t.x + t.z) ^ 2 / (1 + u ^ 2) = t.norm2 := by
  have hD : (1 + u ^ 2) ≠ 0 := by positivity
  unfold R3.norm2; field_simp; ring

/-- frame identity, edges `v = const` -/
theorem frame_norm_v (v : ℝ) (t : R3) :
    (t.y - t.z * v) ^ 2 / (1 + v ^ 2) + t.x ^ 2 + (v * t.y + t.z) ^ 2 / (1 + v ^ 2) = t.norm2 := by
  have hD : (1 + v ^ 2) ≠ 0 := by positivity
  unfold R3.norm2; field_simp; ring

theorem frame_dot_u (u : ℝ) (t q : R3) :
    R3.dot t q = ((t.x - t.z * u) * (q.x - q.z * u) + (u * t.x + t.z) * (u * q.x + q.z)) / (1 + u ^ 2) + t.y * q.y := by
  have hD : (1 + u ^ 2) ≠ 0 := by positivity
  unfold R3.dot; field_simp; ring

theorem frame_dot_v (v : ℝ) (t q : R3) :
    R3.dot t q = ((t.y - t.z * v) * (q.y - q.z * v) + (v * t.y + t.z) * (v * q.y + q.z)) / (1 + v ^ 2) + t.x * q.x := by
  have hD : (1 + v ^ 2) ≠ 0 := by positivity
  unfold R3.dot; field_simp; ring

/-- one edge `u = const`, the cell on the side `σ·(q.x − u q.z) ≥ 0` (σ = 1: left edge, σ = −1: right edge):
    `t·q ≤ √oq2 + max(σ·s, 0)`. -/
theorem edge_dot_le_u (u σ : ℝ) (hσ : σ = 1 ∨ σ = -1) (t q : R3) (hq : q.norm2 = 1)
    (hside : 0 ≤ σ * (q.x - q.z * u)) :
    R3.dot t q ≤ Real.sqrt (t.y ^ 2 + (u * t.x + t.z) ^ 2 / (1 + u ^ 2)) + max (σ * (t.x - t.z * u)) 0 := by
  have hD : (1 : ℝ) ≤ 1 + u ^ 2 := by nlinarith [sq_nonneg u]
  have hσ2 : σ * σ = 1 := by rcases hσ with h | h <;> rw [h] <;> norm_num
  have hn := frame_norm_u u q
  rw [hq] at hn
  have hq' : q.y ^ 2 + ((σ * (q.x - q.z * u)) ^ 2 + (u * q.x + q.z) ^ 2) / (1 + u ^ 2) = 1 := by
    have : (σ * (q.x - q.z * u)) ^ 2 = (q.x - q.z * u) ^ 2 := by
      rw [mul_pow, pow_two σ, hσ2, one_mul]
    rw [this]
    have hD0 : (1 + u ^ 2) ≠ 0 := by positivity
    field_simp at hn ⊢; linarith
  have h := edge_core (1 + u ^ 2) (σ * (t.x - t.z * u)) (u * t.x + t.z) t.y (σ * (q.x - q.z * u)) (u * q.x + q.z) q.y
    hD hside hq'
  rw [frame_dot_u u t q]
  have e : σ * (t.x - t.z * u) * (σ * (q.x - q.z * u)) = (t.x - t.z * u) * (q.x - q.z * u) := by
    calc σ * (t.x - t.z * u) * (σ * (q.x - q.z * u)) = (σ * σ) * ((t.x - t.z * u) * (q.x - q.z * u)) := by ring
      _ = (t.x - t.z * u) * (q.x - q.z * u) := by rw [hσ2, one_mul]
  rw [e] at h
  exact h

theorem edge_dot_le_v (v σ : ℝ) (hσ : σ = 1 ∨ σ = -1) (t q : R3) (hq : q.norm2 = 1)
    (hside : 0 ≤ σ * (q.y - q.z * v)) :
    R3.dot t q ≤ Real.sqrt (t.x ^ 2 + (v * t.y + t.z) ^ 2 / (1 + v ^ 2)) + max (σ * (t.y - t.z * v)) 0 := by
  have hD : (1 : ℝ) ≤ 1 + v ^ 2 := by nlinarith [sq_nonneg v]
  have hσ2 : σ * σ = 1 := by rcases hσ with h | h <;> rw [h] <;> norm_num
  have hn := frame_norm_v v q
  rw [hq] at hn
  have hq' : q.x ^ 2 + ((σ * (q.y - q.z * v)) ^ 2 + (v * q.y + q.z) ^ 2) / (1 + v ^ 2) = 1 := by
    have : (σ * (q.y - q.z * v)) ^ 2 = (q.y - q.z * v) ^ 2 := by
      rw [mul_pow, pow_two σ, hσ2, one_mul]
    rw [this]
    have hD0 : (1 + v ^ 2) ≠ 0 := by positivity
    field_simp at hn ⊢; linarith
  have h := edge_core (1 + v ^ 2) (σ * (t.y - t.z * v)) (v * t.y + t.z) t.x (σ * (q.y - q.z * v)) (v * q.y + q.z) q.x
    hD hside hq'
  rw [frame_dot_v v t q]
  have e : σ * (t.y - t.z * v) * (σ * (q.y - q.z * v)) = (t.y - t.z * v) * (q.y - q.z * v) := by
    calc σ * (t.y - t.z * v) * (σ * (q.y - q.z * v)) = (σ * σ) * ((t.y - t.z * v) * (q.y - q.z * v)) := by ring
      _ = (t.y - t.z * v) * (q.y - q.z * v) := by rw [hσ2, one_mul]
  rw [e] at h
  exact h

/-! ### lower bounds: every cell point is at least `edgeReal − 2·max(outward part, 0)` away -/

/-- left edge (`dir00`): for every cell point, `dist² ≥ edgeReal(−sL, u0, t.y, u0 t.x + t.z) − 2·max(sL, 0)` -/
theorem edge_lower_L (r : RRect) (t q : R3) (hq : InCell r q) :
    edgeReal (-(sL r t)) r.u0 t.y (r.u0 * t.x + t.z) - 2 * max (sL r t) 0 ≤ dist2 t q := by
  obtain ⟨hn, _, h1, _, _, _⟩ := hq
  have h := edge_dot_le_u r.u0 1 (Or.inl rfl) t q hn (by linarith)
  rw [edgeReal_eq, dist2_eq, hn, neg_sq]
  unfold sL
  have := frame_norm_u r.u0 t
  rw [one_mul] at h
  linarith

/-- right edge (`dir01`) -/
theorem edge_lower_R (r : RRect) (t q : R3) (hq : InCell r q) :
    edgeReal (sR r t) r.u1 t.y (r.u1 * t.x + t.z) - 2 * max (-(sR r t)) 0 ≤ dist2 t q := by
  obtain ⟨hn, _, _, h1, _, _⟩ := hq
  have h := edge_dot_le_u r.u1 (-1) (Or.inr rfl) t q hn (by linarith)
  rw [edgeReal_eq, dist2_eq, hn]
  unfold sR
  have := frame_norm_u r.u1 t
  have e : -1 * (t.x - t.z * r.u1) = -(t.x - t.z * r.u1) := by ring
  rw [e] at h
  linarith

/-- bottom edge (`dir10`) -/
theorem edge_lower_B (r : RRect) (t q : R3) (hq : InCell r q) :
    edgeReal (-(sB r t)) r.v0 t.x (r.v0 * t.y + t.z) - 2 * max (sB r t) 0 ≤ dist2 t q := by
  obtain ⟨hn, _, _, _, h1, _⟩ := hq
  have h := edge_dot_le_v r.v0 1 (Or.inl rfl) t q hn (by linarith)
  rw [edgeReal_eq, dist2_eq, hn, neg_sq]
  unfold sB
  have := frame_norm_v r.v0 t
  rw [one_mul] at h
  linarith

/-- top edge (`dir11`) -/
theorem edge_lower_T (r : RRect) (t q : R3) (hq : InCell r q) :
    edgeReal (sT r t) r.v1 t.x (r.v1 * t.y + t.z) - 2 * max (-(sT r t)) 0 ≤ dist2 t q := by
  obtain ⟨hn, _, _, _, _, h1⟩ := hq
  have h := edge_dot_le_v r.v1 (-1) (Or.inr rfl) t q hn (by linarith)
  rw [edgeReal_eq, dist2_eq, hn]
  unfold sT
  have := frame_norm_v r.v1 t
  have e : -1 * (t.y - t.z * r.v1) = -(t.y - t.z * r.v1) := by ring
  rw [e] at h
  linarith

/-! ### attained: when the tangential tests hold exactly, `edgeReal` is the distance to a point of that edge -/

/-- an edge `u = const` between `v0 < v1`: if `vTan u v0 t > 0 > vTan u v1 t` the projection of `t` onto the edge plane,
    normalised, is a point `q = q.z·(u, b, 1)` with `v0 ≤ b ≤ v1`, and `t·q = √oq2`. -/
theorem edge_point_u (u v0 v1 : ℝ) (t : R3) (hv : v0 < v1) (h0 : 0 < vTan u v0 t) (h1 : vTan u v1 t < 0) :
    ∃ q : R3, q.norm2 = 1 ∧ 0 < q.z ∧ q.x = u * q.z ∧ v0 * q.z ≤ q.y ∧ q.y ≤ v1 * q.z ∧
      R3.dot t q = Real.sqrt (t.y ^ 2 + (u * t.x + t.z) ^ 2 / (1 + u ^ 2)) := by
  set D := 1 + u ^ 2 with hD
  set w := u * t.x + t.z with hw
  have hD0 : 0 < D := by positivity
  have e0 : vTan u v0 t = D * t.y - v0 * w := by unfold vTan; rw [hD, hw]; ring
  have e1 : vTan u v1 t = D * t.y - v1 * w := by unfold vTan; rw [hD, hw]; ring
  rw [e0] at h0; rw [e1] at h1
  have hwpos : 0 < w := by
    have h : 0 < (v1 - v0) * w := by nlinarith
    by_contra hc
    have : (v1 - v0) * w ≤ 0 := mul_nonpos_of_nonneg_of_nonpos (by linarith) (not_lt.1 hc)
    linarith
  set ρ := Real.sqrt (t.y ^ 2 + w ^ 2 / D) with hρ
  have hρ2 : ρ ^ 2 = t.y ^ 2 + w ^ 2 / D := Real.sq_sqrt (by positivity)
  have hρpos : 0 < ρ := by
    apply Real.sqrt_pos.2
    have : 0 < w ^ 2 / D := by positivity
    nlinarith [sq_nonneg t.y]
  refine ⟨⟨u * w / D / ρ, t.y / ρ, w / D / ρ⟩, ?_, ?_, ?_, ?_, ?_, ?_⟩
  · unfold R3.norm2
    simp only
    have : (u * w / D / ρ) ^ 2 + (t.y / ρ) ^ 2 + (w / D / ρ) ^ 2 = (t.y ^ 2 + w ^ 2 / D) / ρ ^ 2 := by
      rw [hD]; field_simp; ring
    rw [this, hρ2]; exact div_self (by rw [← hρ2]; positivity)
  · simp only; positivity
  · simp only; field_simp
  · simp only
    rw [show v0 * (w / D / ρ) = (v0 * w / D) / ρ by ring]
    apply div_le_div_of_nonneg_right _ (le_of_lt hρpos)
    rw [div_le_iff₀ hD0]; linarith
  · simp only
    rw [show v1 * (w / D / ρ) = (v1 * w / D) / ρ by ring]
    apply div_le_div_of_nonneg_right _ (le_of_lt hρpos)
    rw [le_div_iff₀ hD0]; linarith
  · unfold R3.dot
    simp only
    have : t.x * (u * w / D / ρ) + t.y * (t.y / ρ) + t.z * (w / D / ρ) = (t.y ^ 2 + w ^ 2 / D) / ρ := by
      rw [hw]; field_simp; ring
    rw [this, ← hρ2, pow_two, mul_div_assoc, div_self (ne_of_gt hρpos), mul_one]

theorem edge_point_v (v u0 u1 : ℝ) (t : R3) (hu : u0 < u1) (h0 : 0 < uTan v u0 t) (h1 : uTan v u1 t < 0) :
    ∃ q : R3, q.norm2 = 1 ∧ 0 < q.z ∧ q.y = v * q.z ∧ u0 * q.z ≤ q.x ∧ q.x ≤ u1 * q.z ∧
      R3.dot t q = Real.sqrt (t.x ^ 2 + (v * t.y + t.z) ^ 2 / (1 + v ^ 2)) := by
  -- swap the roles of x and y
  have h0' : 0 < vTan v u0 ⟨t.y, t.x, t.z⟩ := by unfold vTan; unfold uTan at h0; simp only; linarith
  have h1' : vTan v u1 ⟨t.y, t.x, t.z⟩ < 0 := by unfold vTan; unfold uTan at h1; simp only; linarith
  obtain ⟨q, a1, a2, a3, a4, a5, a6⟩ := edge_point_u v u0 u1 ⟨t.y, t.x, t.z⟩ hu h0' h1'
  refine ⟨⟨q.y, q.x, q.z⟩, ?_, a2, a3, a4, a5, ?_⟩
  · unfold R3.norm2 at a1 ⊢; simp only; linarith
  · unfold R3.dot at a6 ⊢; simp only at a6 ⊢; rw [← a6]; ring

theorem edge_attained_L (r : RRect) (hr : r.OK) (t : R3) (h0 : 0 < vTan r.u0 r.v0 t) (h1 : vTan r.u0 r.v1 t < 0) :
    ∃ q, OnBoundary r q ∧ dist2 t q = edgeReal (-(sL r t)) r.u0 t.y (r.u0 * t.x + t.z) := by
  obtain ⟨q, a1, a2, a3, a4, a5, a6⟩ := edge_point_u r.u0 r.v0 r.v1 t hr.v_lt h0 h1
  refine ⟨q, ⟨⟨a1, a2, by rw [a3], ?_, a4, a5⟩, Or.inl a3⟩, ?_⟩
  · rw [a3]; exact mul_le_mul_of_nonneg_right (le_of_lt hr.u_lt) (le_of_lt a2)
  · rw [edgeReal_eq, dist2_eq, a1, a6, neg_sq]
    unfold sL
    have := frame_norm_u r.u0 t
    linarith

theorem edge_attained_R (r : RRect) (hr : r.OK) (t : R3) (h0 : 0 < vTan r.u1 r.v0 t) (h1 : vTan r.u1 r.v1 t < 0) :
    ∃ q, OnBoundary r q ∧ dist2 t q = edgeReal (sR r t) r.u1 t.y (r.u1 * t.x + t.z) := by
  obtain ⟨q, a1, a2, a3, a4, a5, a6⟩ := edge_point_u r.u1 r.v0 r.v1 t hr.v_lt h0 h1
  refine ⟨q, ⟨⟨a1, a2, ?_, by rw [a3], a4, a5⟩, Or.inr (Or.inl a3)⟩, ?_⟩
  · rw [a3]; exact mul_le_mul_of_nonneg_right (le_of_lt hr.u_lt) (le_of_lt a2)
  · rw [edgeReal_eq, dist2_eq, a1, a6]
    unfold sR
    have := frame_norm_u r.u1 t
    linarith

theorem edge_attained_B (r : RRect) (hr : r.OK) (t : R3) (h0 : 0 < uTan r.v0 r.u0 t) (h1 : uTan r.v0 r.u1 t < 0) :
    ∃ q, OnBoundary r q ∧ dist2 t q = edgeReal (-(sB r t)) r.v0 t.x (r.v0 * t.y + t.z) := by
  obtain ⟨q, a1, a2, a3, a4, a5, a6⟩ := edge_point_v r.v0 r.u0 r.u1 t hr.u_lt h0 h1
  refine ⟨q, ⟨⟨a1, a2, a4, a5, by rw [a3], ?_⟩, Or.inr (Or.inr (Or.inl a3))⟩, ?_⟩
  · rw [a3]; exact mul_le_mul_of_nonneg_right (le_of_lt hr.v_lt) (le_of_lt a2)
  · rw [edgeReal_eq, dist2_eq, a1, a6, neg_sq]
    unfold sB
    have := frame_norm_v r.v0 t
    linarith

theorem edge_attained_T (r : RRect) (hr : r.OK) (t : R3) (h0 : 0 < uTan r.v1 r.u0 t) (h1 : uTan r.v1 r.u1 t < 0) :
    ∃ q, OnBoundary r q ∧ dist2 t q = edgeReal (sT r t) r.v1 t.x (r.v1 * t.y + t.z) := by
  obtain ⟨q, a1, a2, a3, a4, a5, a6⟩ := edge_point_v r.v1 r.u0 r.u1 t hr.u_lt h0 h1
  refine ⟨q, ⟨⟨a1, a2, a4, a5, ?_, by rw [a3]⟩, Or.inr (Or.inr (Or.inr a3))⟩, ?_⟩
  · rw [a3]; exact mul_le_mul_of_nonneg_right (le_of_lt hr.v_lt) (le_of_lt a2)
  · rw [edgeReal_eq, dist2_eq, a1, a6]
    unfold sT
    have := frame_norm_v r.v1 t
    linarith

/-! ### the interior case -/

/-- when the four sign tests pass exactly, the direction of `t` is a point of the cell, at distance `| |t| − 1 |` -/
theorem inside_point (r : RRect) (hr : r.OK) (t : R3) (hI : ExInside r t) (ht : 0 < t.norm2) :
    ∃ q, InCell r q ∧ dist2 t q = (t.norm - 1) ^ 2 := by
  obtain ⟨h1, h2, h3, h4⟩ := hI
  unfold sL at h1; unfold sR at h2; unfold sB at h3; unfold sT at h4
  have hz0 : 0 ≤ t.z := by
    have : 0 ≤ t.z * (r.u1 - r.u0) := by nlinarith
    have hu := hr.u_lt
    by_contra hneg
    have hneg' : t.z < 0 := not_le.1 hneg
    nlinarith
  have hz : 0 < t.z := by
    rcases lt_or_eq_of_le hz0 with h | h
    · exact h
    · exfalso
      rw [← h] at h1 h2 h3 h4
      have hx : t.x = 0 := by linarith
      have hy : t.y = 0 := by linarith
      unfold R3.norm2 at ht; rw [hx, hy, ← h] at ht; simp at ht
  have hn : 0 < t.norm := Real.sqrt_pos.2 ht
  have hn2 : t.norm ^ 2 = t.norm2 := t.norm_sq
  refine ⟨R3.smul (1 / t.norm) t, ⟨?_, ?_, ?_, ?_, ?_, ?_⟩, ?_⟩
  · rw [R3.norm2_smul, ← hn2]; field_simp
  · unfold R3.smul; simp only; positivity
  · unfold R3.smul; simp only
    rw [show r.u0 * (1 / t.norm * t.z) = 1 / t.norm * (t.z * r.u0) by ring]
    exact mul_le_mul_of_nonneg_left (by linarith) (by positivity)
  · unfold R3.smul; simp only
    rw [show r.u1 * (1 / t.norm * t.z) = 1 / t.norm * (t.z * r.u1) by ring]
    exact mul_le_mul_of_nonneg_left (by linarith) (by positivity)
  · unfold R3.smul; simp only
    rw [show r.v0 * (1 / t.norm * t.z) = 1 / t.norm * (t.z * r.v0) by ring]
    exact mul_le_mul_of_nonneg_left (by linarith) (by positivity)
  · unfold R3.smul; simp only
    rw [show r.v1 * (1 / t.norm * t.z) = 1 / t.norm * (t.z * r.v1) by ring]
    exact mul_le_mul_of_nonneg_left (by linarith) (by positivity)
  · rw [dist2_eq, R3.norm2_smul, ← hn2]
    have : R3.dot t (R3.smul (1 / t.norm) t) = t.norm := by
      unfold R3.dot R3.smul; simp only
      have : t.x * (1 / t.norm * t.x) + t.y * (1 / t.norm * t.y) + t.z * (1 / t.norm * t.z) = t.norm2 / t.norm := by
        unfold R3.norm2; field_simp
      rw [this, ← hn2, pow_two, mul_div_assoc, div_self (ne_of_gt hn), mul_one]
    rw [this]; field_simp; ring

end S2Proofs.C12Dist
