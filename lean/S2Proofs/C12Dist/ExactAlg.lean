/-
  C12Dist.ExactAlg — the case analysis of `Cell.distanceInternal` is geometrically right IN EXACT ARITHMETIC.

  `distExact r T` is the algorithm of `distanceInternal` (toInterior = true) evaluated on real numbers: the four edge
  tests in the code's order, the interior test, otherwise the minimum over the four vertices.
  `distExact_correct` : for a unit target it is exactly the minimum of `|T − q|²` over the cell, and it is attained.
-/
import S2Proofs.C12Dist.Cover
import S2Proofs.C12Dist.Geom

namespace S2Proofs.C12Dist
open S2Proofs.C16Acc
open Classical

/-- `distanceInternal` over the reals -/
noncomputable def distExact (r : RRect) (T : R3) : ℝ :=
  if ExL r T then edgeReal (-(sL r T)) r.u0 T.y (r.u0 * T.x + T.z)
  else if ExR r T then edgeReal (sR r T) r.u1 T.y (r.u1 * T.x + T.z)
  else if ExB r T then edgeReal (-(sB r T)) r.v0 T.x (r.v0 * T.y + T.z)
  else if ExT r T then edgeReal (sT r T) r.v1 T.x (r.v1 * T.y + T.z)
  else if ExInside r T then 0
  else T.norm2 + 1 - 2 * maxVertexDot r T

theorem maxVertexDot_attained (r : RRect) (hr : r.OK) (T : R3) :
    ∃ q, OnBoundary r q ∧ dist2 T q = T.norm2 + 1 - 2 * maxVertexDot r T := by
  have hu := hr.u_lt
  have hv := hr.v_lt
  have bd : ∀ a b, (r.u0 ≤ a ∧ a ≤ r.u1) → (r.v0 ≤ b ∧ b ≤ r.v1) → (a = r.u0 ∨ a = r.u1) →
      OnBoundary r (vhat a b) := by
    intro a b ha hb hab
    refine ⟨vhat_inCell r hr a b ha hb, ?_⟩
    have hx : (vhat a b).x = a * (vhat a b).z := by unfold vhat R3.smul; simp only; ring
    rcases hab with h | h
    · left; rw [hx, h]
    · right; left; rw [hx, h]
  have e : ∀ a b, dist2 T (vhat a b) = T.norm2 + 1 - 2 * R3.dot T (vhat a b) := by
    intro a b; rw [dist2_eq, Cover.vhat_norm2]
  unfold maxVertexDot
  rcases max_cases (max (R3.dot T (vhat r.u0 r.v0)) (R3.dot T (vhat r.u1 r.v0)))
      (max (R3.dot T (vhat r.u0 r.v1)) (R3.dot T (vhat r.u1 r.v1))) with ⟨h, _⟩ | ⟨h, _⟩
  · rw [h]
    rcases max_cases (R3.dot T (vhat r.u0 r.v0)) (R3.dot T (vhat r.u1 r.v0)) with ⟨h', _⟩ | ⟨h', _⟩
    · rw [h']; exact ⟨_, bd _ _ ⟨le_refl _, le_of_lt hu⟩ ⟨le_refl _, le_of_lt hv⟩ (Or.inl rfl), e _ _⟩
    · rw [h']; exact ⟨_, bd _ _ ⟨le_of_lt hu, le_refl _⟩ ⟨le_refl _, le_of_lt hv⟩ (Or.inr rfl), e _ _⟩
  · rw [h]
    rcases max_cases (R3.dot T (vhat r.u0 r.v1)) (R3.dot T (vhat r.u1 r.v1)) with ⟨h', _⟩ | ⟨h', _⟩
    · rw [h']; exact ⟨_, bd _ _ ⟨le_refl _, le_of_lt hu⟩ ⟨le_of_lt hv, le_refl _⟩ (Or.inl rfl), e _ _⟩
    · rw [h']; exact ⟨_, bd _ _ ⟨le_of_lt hu, le_refl _⟩ ⟨le_of_lt hv, le_refl _⟩ (Or.inr rfl), e _ _⟩

/-- **The case split of `distanceInternal` is right in exact arithmetic**: for a unit target the value is a lower
    bound of the distance to every point of the cell, and it is attained at a point of the cell. -/
theorem distExact_correct (r : RRect) (hr : r.OK) (T : R3) (hT : T.norm2 = 1) :
    (∀ q, InCell r q → distExact r T ≤ dist2 T q) ∧ (∃ q, InCell r q ∧ dist2 T q = distExact r T) := by
  unfold distExact
  by_cases hL : ExL r T
  · rw [if_pos hL]
    refine ⟨fun q hq => ?_, ?_⟩
    · have := edge_lower_L r T q hq
      rw [max_eq_right (le_of_lt hL.1)] at this; linarith
    · obtain ⟨q, hb, e⟩ := edge_attained_L r hr T hL.2.1 hL.2.2
      exact ⟨q, hb.1, e⟩
  rw [if_neg hL]
  by_cases hR : ExR r T
  · rw [if_pos hR]
    refine ⟨fun q hq => ?_, ?_⟩
    · have := edge_lower_R r T q hq
      rw [max_eq_right (by linarith [hR.1])] at this; linarith
    · obtain ⟨q, hb, e⟩ := edge_attained_R r hr T hR.2.1 hR.2.2
      exact ⟨q, hb.1, e⟩
  rw [if_neg hR]
  by_cases hB : ExB r T
  · rw [if_pos hB]
    refine ⟨fun q hq => ?_, ?_⟩
    · have := edge_lower_B r T q hq
      rw [max_eq_right (le_of_lt hB.1)] at this; linarith
    · obtain ⟨q, hb, e⟩ := edge_attained_B r hr T hB.2.1 hB.2.2
      exact ⟨q, hb.1, e⟩
  rw [if_neg hB]
  by_cases hT' : ExT r T
  · rw [if_pos hT']
    refine ⟨fun q hq => ?_, ?_⟩
    · have := edge_lower_T r T q hq
      rw [max_eq_right (by linarith [hT'.1])] at this; linarith
    · obtain ⟨q, hb, e⟩ := edge_attained_T r hr T hT'.2.1 hT'.2.2
      exact ⟨q, hb.1, e⟩
  rw [if_neg hT']
  by_cases hI : ExInside r T
  · rw [if_pos hI]
    refine ⟨fun q _ => by unfold dist2; exact R3.norm2_nonneg _, ?_⟩
    obtain ⟨q, hq, e⟩ := inside_point r hr T hI (by rw [hT]; norm_num)
    refine ⟨q, hq, ?_⟩
    have : T.norm = 1 := by unfold R3.norm; rw [hT]; simp
    rw [e, this]; ring
  rw [if_neg hI]
  refine ⟨fun q hq => ?_, ?_⟩
  · have := vertex_cover r hr T q hq hI hL hR hB hT'
    rw [dist2_eq, hq.1]; linarith
  · obtain ⟨q, hb, e⟩ := maxVertexDot_attained r hr T
    exact ⟨q, hb.1, e⟩

end S2Proofs.C12Dist
