/-
  S2Proofs.EdgeNbrAll — assembly: `edgeNeighbors` of every valid cell = the four cells of the table `nbrSq`;
  they are valid, of the same level, pairwise distinct, disjoint from the cell, and each shares an edge with it on
  the cube; the successor along the curve (`nextWrap`) is one of them.
-/
import S2Proofs.EdgeNbrGeom
import S2Proofs.Properties.C01
open S2 S2.CellID S2.Hilbert S2.STUV
set_option linter.unusedVariables false
set_option linter.unusedSimpArgs false
namespace S2Proofs.C01W

/-- `n` is the level-k cell described by the triple `t = (face, I, J)` -/
def IsSqT (n : CellID) (k : Nat) (t : Nat × Nat × Nat) : Prop := IsSq n k t.1 t.2.1 t.2.2

theorem nbrSq_ne_self (f I J N d : Nat) (hf : f < 6) (hd : d < 4) (hI : I ≤ N) (hJ : J ≤ N) :
    nbrSq f I J N d ≠ (f, I, J) := by
  interval_cases d <;> unfold nbrSq <;> simp only [] <;> split_ifs <;>
    simp only [ne_eq, Prod.mk.injEq, not_and] <;> omega

theorem nbrSq_inj (f I J N d d' : Nat) (hf : f < 6) (hd : d < 4) (hd' : d' < 4) (hI : I ≤ N) (hJ : J ≤ N)
    (hne : d ≠ d') : nbrSq f I J N d ≠ nbrSq f I J N d' := by
  interval_cases d <;> interval_cases d' <;> first | (exfalso; exact hne rfl) | skip
  all_goals (unfold nbrSq; simp only []; split_ifs <;> simp only [ne_eq, Prod.mk.injEq, not_and] <;> omega)

theorem nbrSq_bounds (f I J N d : Nat) (hf : f < 6) (hd : d < 4) (hI : I ≤ N) (hJ : J ≤ N) :
    (nbrSq f I J N d).1 < 6 ∧ (nbrSq f I J N d).2.1 ≤ N ∧ (nbrSq f I J N d).2.2 ≤ N := by
  interval_cases d <;> unfold nbrSq <;> simp only [] <;> split_ifs <;> simp only [] <;> omega

section
variable {L : Nat} (hL : L = 30)
include hL

theorem IsSq.self (id : CellID) (k : Nat) (h : IsCell id k) : IsSq id k (face id) (sqI id k) (sqJ id k) :=
  ⟨h, rfl, rfl, rfl⟩

theorem sq_le (id : CellID) (k : Nat) (h : IsCell id k) : sqI id k ≤ 2^k - 1 ∧ sqJ id k ≤ 2^k - 1 := by
  obtain ⟨g1, g2, g3, _, _⟩ := faceIJOrientation_leaf_in_cell hL id k h
  unfold sqI sqJ
  exact ⟨(sq_arith k _ h.k_le g2).1, (sq_arith k _ h.k_le g3).1⟩

/-- `edgeNeighbors` of ANY valid cell: the four cells of the table -/
theorem edgeNeighbors_all (id : CellID) (k : Nat) (h : IsCell id k) :
    ∃ n0 n1 n2 n3, edgeNeighbors id = [n0, n1, n2, n3] ∧
      IsSqT n0 k (nbrSq (face id) (sqI id k) (sqJ id k) (2^k - 1) 0) ∧
      IsSqT n1 k (nbrSq (face id) (sqI id k) (sqJ id k) (2^k - 1) 1) ∧
      IsSqT n2 k (nbrSq (face id) (sqI id k) (sqJ id k) (2^k - 1) 2) ∧
      IsSqT n3 k (nbrSq (face id) (sqI id k) (sqJ id k) (2^k - 1) 3) := by
  obtain ⟨g1, g2, g3, _, _⟩ := faceIJOrientation_leaf_in_cell hL id k h
  rw [edgeNeighbors_eq]
  unfold edgeNbrArgs sqI sqJ IsSqT
  rw [h.level_eq, sizeIJ_eq, g1]
  simp only [List.map_cons, List.map_nil]
  exact ⟨_, _, _, _, rfl,
    nbr_dir0 hL (face id) _ _ k h.face_lt6 g2 g3 h.k_le,
    nbr_dir1 hL (face id) _ _ k h.face_lt6 g2 g3 h.k_le,
    nbr_dir2 hL (face id) _ _ k h.face_lt6 g2 g3 h.k_le,
    nbr_dir3 hL (face id) _ _ k h.face_lt6 g2 g3 h.k_le⟩

/-- a table neighbour shares an edge with the cell (cube boxes) -/
theorem nbr_sharesEdge (id n : CellID) (k d : Nat) (h : IsCell id k) (hd : d < 4)
    (hn : IsSqT n k (nbrSq (face id) (sqI id k) (sqJ id k) (2^k - 1) d)) :
    boxMeet (cubeBox id) (cubeBox n) = some 1 := by
  obtain ⟨cn, fn, in', jn⟩ := hn
  obtain ⟨b1, b2⟩ := sq_le hL id k h
  rw [cubeBox_cell hL id k h, cubeBox_cell hL n k cn, fn, in', jn]
  have hKS := pow_split k h.k_le
  have hS := Nat.two_pow_pos (30-k)
  interval_cases d
  · exact nbr_box0 (face id) _ _ _ _ h.face_lt6 hKS hS b1 b2
  · exact nbr_box1 (face id) _ _ _ _ h.face_lt6 hKS hS b1 b2
  · exact nbr_box2 (face id) _ _ _ _ h.face_lt6 hKS hS b1 b2
  · exact nbr_box3 (face id) _ _ _ _ h.face_lt6 hKS hS b1 b2

omit hL in
theorem isSqT_ne {a b : CellID} {k : Nat} {t t' : Nat × Nat × Nat} (ha : IsSqT a k t) (hb : IsSqT b k t')
    (hne : t ≠ t') : a ≠ b := by
  rintro rfl
  obtain ⟨_, f1, i1, j1⟩ := ha
  obtain ⟨_, f2, i2, j2⟩ := hb
  apply hne
  obtain ⟨x, y, z⟩ := t
  obtain ⟨x', y', z'⟩ := t'
  simp only at f1 i1 j1 f2 i2 j2
  rw [← f1, ← i1, ← j1, f2, i2, j2]

omit hL in
theorem disjoint_of_ne {n id : CellID} {k : Nat} (hn : IsCell n k) (h : IsCell id k) (hne : n ≠ id) :
    isValid n = true ∧ level n = k ∧ intersects n id = false := by
  have hvn : isValid n = true := (isValid_iff n).mpr ⟨k, hn⟩
  have hv : isValid id = true := (isValid_iff id).mpr ⟨k, h⟩
  refine ⟨hvn, hn.level_eq, ?_⟩
  obtain ⟨x1, x2⟩ := same_level_ne hn h hne
  rw [Bool.eq_false_iff]; intro hint
  rcases (S2Proofs.C01.intersects_iff_contains n id hvn hv).mp hint with hc | hc
  · rw [x1] at hc; cases hc
  · rw [x2] at hc; cases hc

/-- the successor along the curve is an edge neighbour (all cells, all levels, all six face transitions,
    wrap from face 5 to face 0) -/
theorem nextWrap_mem_edgeNeighbors (id : CellID) (k : Nat) (h : IsCell id k) :
    nextWrap id ∈ edgeNeighbors id := by
  obtain ⟨n0, n1, n2, n3, he, s0, s1, s2, s3⟩ := edgeNeighbors_all hL id k h
  obtain ⟨b1, b2⟩ := sq_le hL id k h
  rw [he]
  have hk := h.k_le
  have hKpos := Nat.two_pow_pos k
  by_cases hf : face (next id) = face id
  · -- same face
    have hadj := next_adjacent hL id k h hf
    obtain ⟨hn, hlow⟩ := h.next_low
    have hlt : id.toNat + 2^(61 - 2*k) < 6 * 2^61 := by
      rw [face_toNat, face_toNat, hn] at hf
      have := h.face_lt
      omega
    have hc : IsCell (next id) k := h.next_isCell hlt
    have hw : nextWrap id = next id := by
      apply UInt64.toNat_inj.mp
      rw [h.nextWrap_toNat, hn, Nat.mod_eq_of_lt hlt]
    rw [hw]
    have hs : IsSq (next id) k (face id) (sqI (next id) k) (sqJ (next id) k) := ⟨hc, hf, rfl, rfl⟩
    obtain ⟨c1, c2⟩ := sq_le hL (next id) k hc
    change Adj (sqI id k) (sqJ id k) (sqI (next id) k) (sqJ (next id) k) at hadj
    unfold IsSqT nbrSq at s0 s1 s2 s3
    simp only at s0 s1 s2 s3
    rcases hadj with ⟨e1, e2⟩ | ⟨e1, e2⟩ | ⟨e1, e2⟩ | ⟨e1, e2⟩
    · rw [if_pos (by omega)] at s1
      simp only at s1
      rw [← e1, ← e2] at s1
      rw [isSq_unique hL hs s1]; simp
    · rw [if_pos (by omega)] at s3
      simp only at s3
      have : sqI id k - 1 = sqI (next id) k := by omega
      rw [this, ← e2] at s3
      rw [isSq_unique hL hs s3]; simp
    · rw [if_pos (by omega)] at s2
      simp only at s2
      rw [← e1, ← e2] at s2
      rw [isSq_unique hL hs s2]; simp
    · rw [if_pos (by omega)] at s0
      simp only at s0
      have : sqJ id k - 1 = sqJ (next id) k := by omega
      rw [this, ← e1] at s0
      rw [isSq_unique hL hs s0]; simp
  · -- one of the six face transitions
    obtain ⟨t1, t2, tc, tf, t3, t4⟩ := last_cell_facts hL id k h hf
    have hs : IsSq (nextWrap id) k ((face id + 1) % 6) 0 0 := ⟨tc, tf, t3, t4⟩
    unfold IsSqT nbrSq at s1 s2
    simp only at s1 s2
    rcases Nat.mod_two_eq_zero_or_one (face id) with hp | hp
    · rw [hp, exit_vals.1, Nat.one_mul] at t1
      rw [hp, exit_vals.2.1, Nat.zero_mul] at t2
      rw [if_neg (by omega), if_pos hp] at s1
      simp only at s1
      rw [t2] at s1
      rw [isSq_unique hL hs s1]; simp
    · rw [hp, exit_vals.2.2.1, Nat.zero_mul] at t1
      rw [hp, exit_vals.2.2.2, Nat.one_mul] at t2
      rw [if_neg (by omega), if_neg (by omega)] at s2
      simp only at s2
      rw [t1] at s2
      rw [isSq_unique hL hs s2]; simp

end
end S2Proofs.C01W
