/-
  C17Pairs.CrossClosest — the crossing branch of `EdgePairClosestPoints`: the point `Intersection(a0,a1,b0,b1)` (accuracy: C16,
  package c16acc) in C17's vocabulary:

      onArc_of_coords      a non-zero vector of the plane of (a, b) with non-negative coordinates normalises to an arc point
      ecc_onArcs           the judge's exact crossing `IA.exactCrossingClosed` lies on BOTH arcs
      crossing_point_near  under the hypotheses of C16's `intersection_accurate`: `Intersection(…)` is non-zero and within squared
                           chord `128u²` of a common point of the two arcs
-/
import S2Proofs.C17Pairs.Closest
import S2Proofs.Properties.C16_Accuracy
import S2Proofs.C17Pairs.CrossWeak
import S2Proofs.ExactSignLaws

set_option linter.unusedSimpArgs false
set_option linter.unusedVariables false

namespace S2Proofs.C17Pairs
open S2 S2.Exact S2.EdgeNum S2Proofs.F64Order S2Proofs.FloatErr S2Proofs.C17Err S2Proofs.C17Err.R3 S2Proofs.C17

/-- a non-zero vector `R` of the plane of the non-degenerate edge `(a, b)` with non-negative coordinates in the basis
    `a, b` normalises to a point of the arc -/
theorem onArc_of_coords {R a b : R3} (h0 : R.dot (a.cross b) = 0) (hN : 0 < (a.cross b).n2)
    (hα : R.dot ((a.cross b).cross b) ≤ 0) (hβ : 0 ≤ R.dot ((a.cross b).cross a)) (hR : 0 < R.len) :
    OnArc a b (comb (1 / R.len) R 0 R) := by
  obtain ⟨bx, by', bz⟩ := basis_expand a b R
  rw [h0] at bx by' bz
  simp only [zero_mul, add_zero] at bx by' bz
  obtain ⟨N, hNd⟩ : ∃ N, N = (a.cross b).n2 := ⟨_, rfl⟩
  obtain ⟨α, hαd⟩ : ∃ α, α = -(R.dot ((a.cross b).cross b)) := ⟨_, rfl⟩
  obtain ⟨β, hβd⟩ : ∃ β, β = R.dot ((a.cross b).cross a) := ⟨_, rfl⟩
  rw [← hNd, ← hαd, ← hβd] at bx by' bz
  rw [← hNd] at hN
  rw [← hβd] at hβ
  have hα0 : 0 ≤ α := by rw [hαd]; linarith
  have hne : N ≠ 0 := hN.ne'
  refine onArc_of_cone (s := α / N) (t := β / N) (div_nonneg hα0 hN.le) (div_nonneg hβ hN.le) ?_ hR
  apply r3_ext
  · show R.x = α / N * a.x + β / N * b.x
    field_simp; linarith
  · show R.y = α / N * a.y + β / N * b.y
    field_simp; linarith
  · show R.z = α / N * a.z + β / N * b.z
    field_simp; linarith

/-- an exact integer vector as a real vector -/
def ofIR (X : IV3) : R3 := ⟨(X.x : ℝ), (X.y : ℝ), (X.z : ℝ)⟩

theorem cone_of_dets {a0 a1 : V3} {Y : IV3} (hperp : Y.dot ((ofV3 a0).cross (ofV3 a1)) = 0)
    (hN : 0 < ((ofV3 a0).cross (ofV3 a1)).norm2)
    (h1 : 0 ≤ det3 (ofV3 a0) Y ((ofV3 a0).cross (ofV3 a1))) (h2 : 0 ≤ det3 Y (ofV3 a1) ((ofV3 a0).cross (ofV3 a1)))
    (hY : 0 < (ofIR Y).len) : OnArc (vecR a0) (vecR a1) (comb (1 / (ofIR Y).len) (ofIR Y) 0 (ofIR Y)) := by
  have hS : (0 : ℝ) < 2 ^ 1074 := by positivity
  have e0 : (ofIR Y).dot ((vecR a0).cross (vecR a1))
      = ((Y.dot ((ofV3 a0).cross (ofV3 a1)) : ℤ) : ℝ) / (2 ^ 1074) ^ 2 := by
    unfold ofIR R3.dot R3.cross vecR IV3.dot IV3.cross ofV3 FloatErr.val
    push_cast; field_simp; ring
  have eN : ((vecR a0).cross (vecR a1)).n2 = (((((ofV3 a0).cross (ofV3 a1)).norm2) : ℤ) : ℝ) / (2 ^ 1074) ^ 4 := by
    unfold R3.n2 R3.dot R3.cross vecR IV3.norm2 IV3.dot IV3.cross ofV3 FloatErr.val
    push_cast; field_simp; ring
  have eα : (ofIR Y).dot (((vecR a0).cross (vecR a1)).cross (vecR a1))
      = -((det3 Y (ofV3 a1) ((ofV3 a0).cross (ofV3 a1)) : ℤ) : ℝ) / (2 ^ 1074) ^ 3 := by
    unfold ofIR R3.dot R3.cross vecR det3 IV3.dot IV3.cross ofV3 FloatErr.val
    push_cast; field_simp; ring
  have eβ : (ofIR Y).dot (((vecR a0).cross (vecR a1)).cross (vecR a0))
      = ((det3 (ofV3 a0) Y ((ofV3 a0).cross (ofV3 a1)) : ℤ) : ℝ) / (2 ^ 1074) ^ 3 := by
    unfold ofIR R3.dot R3.cross vecR det3 IV3.dot IV3.cross ofV3 FloatErr.val
    push_cast; field_simp; ring
  apply onArc_of_coords _ _ _ _ hY
  · rw [e0, hperp]; simp
  · rw [eN]; exact div_pos (by exact_mod_cast hN) (by positivity)
  · rw [eα]
    have : (0 : ℝ) ≤ ((det3 Y (ofV3 a1) ((ofV3 a0).cross (ofV3 a1)) : ℤ) : ℝ) := by exact_mod_cast h2
    have := div_nonneg this (by positivity : (0 : ℝ) ≤ (2 ^ 1074) ^ 3)
    rw [neg_div]; linarith
  · rw [eβ]
    exact div_nonneg (by exact_mod_cast h1) (by positivity)

theorem iv3_norm2_pos_of_not_zero {X : IV3} (h : X.isZero = false) : 0 < X.norm2 := by
  unfold IV3.isZero at h
  unfold IV3.norm2 IV3.dot
  have hx := mul_self_nonneg X.x
  have hy := mul_self_nonneg X.y
  have hz := mul_self_nonneg X.z
  by_contra hc
  have h0 : X.x * X.x + (X.y * X.y + X.z * X.z) = 0 := by omega
  have ex : X.x = 0 := by nlinarith
  have ey : X.y = 0 := by nlinarith
  have ez : X.z = 0 := by nlinarith
  simp [ex, ey, ez] at h

/-- **the judge's exact crossing point lies on both arcs** -/
theorem ecc_onArcs {a0 a1 b0 b1 : V3} {X : IV3}
    (hX : IA.exactCrossingClosed (ofV3 a0) (ofV3 a1) (ofV3 b0) (ofV3 b1) = some X) :
    0 < (ofIR X).len ∧
    OnArc (vecR a0) (vecR a1) (comb (1 / (ofIR X).len) (ofIR X) 0 (ofIR X)) ∧
    OnArc (vecR b0) (vecR b1) (comb (1 / (ofIR X).len) (ofIR X) 0 (ofIR X)) := by
  obtain ⟨hz, hok, hY⟩ := S2Proofs.C16Acc.ecc_result hX
  unfold S2Proofs.C16Acc.okC at hok
  simp only [Bool.and_eq_true, decide_eq_true_eq] at hok
  obtain ⟨⟨⟨k1, k2⟩, k3⟩, k4⟩ := hok
  have hraw := iv3_norm2_pos_of_not_zero hz
  unfold S2Proofs.C16Acc.rawX at hraw hY
  set NA := (ofV3 a0).cross (ofV3 a1) with hNA
  set NB := (ofV3 b0).cross (ofV3 b1) with hNB
  -- X ⊥ NA, NB ; NA, NB ≠ 0 ; X ≠ 0
  have hXn : 0 < X.norm2 := by
    rcases hY with ⟨e, _⟩ | ⟨e, _⟩
    · rw [e]; exact hraw
    · rw [e]
      have : (NA.cross NB).neg.norm2 = (NA.cross NB).norm2 := by unfold IV3.neg IV3.norm2 IV3.dot; ring
      rw [this]; exact hraw
  have hpA : X.dot NA = 0 := by
    rcases hY with ⟨e, _⟩ | ⟨e, _⟩ <;> rw [e] <;> simp only [IV3.neg, IV3.dot, IV3.cross] <;> ring
  have hpB : X.dot NB = 0 := by
    rcases hY with ⟨e, _⟩ | ⟨e, _⟩ <;> rw [e] <;> simp only [IV3.neg, IV3.dot, IV3.cross] <;> ring
  have hNApos : 0 < NA.norm2 := by
    by_contra hc
    have h0 : NA.norm2 = 0 := by
      have : 0 ≤ NA.norm2 := by unfold IV3.norm2 IV3.dot; nlinarith [mul_self_nonneg NA.x, mul_self_nonneg NA.y, mul_self_nonneg NA.z]
      omega
    have hx : NA.x = 0 ∧ NA.y = 0 ∧ NA.z = 0 := by
      unfold IV3.norm2 IV3.dot at h0
      refine ⟨by nlinarith [mul_self_nonneg NA.x, mul_self_nonneg NA.y, mul_self_nonneg NA.z],
        by nlinarith [mul_self_nonneg NA.x, mul_self_nonneg NA.y, mul_self_nonneg NA.z],
        by nlinarith [mul_self_nonneg NA.x, mul_self_nonneg NA.y, mul_self_nonneg NA.z]⟩
    have : (NA.cross NB).norm2 = 0 := by
      unfold IV3.norm2 IV3.dot IV3.cross; rw [hx.1, hx.2.1, hx.2.2]; ring
    omega
  have hNBpos : 0 < NB.norm2 := by
    by_contra hc
    have h0 : NB.norm2 = 0 := by
      have : 0 ≤ NB.norm2 := by unfold IV3.norm2 IV3.dot; nlinarith [mul_self_nonneg NB.x, mul_self_nonneg NB.y, mul_self_nonneg NB.z]
      omega
    have hx : NB.x = 0 ∧ NB.y = 0 ∧ NB.z = 0 := by
      unfold IV3.norm2 IV3.dot at h0
      refine ⟨by nlinarith [mul_self_nonneg NB.x, mul_self_nonneg NB.y, mul_self_nonneg NB.z],
        by nlinarith [mul_self_nonneg NB.x, mul_self_nonneg NB.y, mul_self_nonneg NB.z],
        by nlinarith [mul_self_nonneg NB.x, mul_self_nonneg NB.y, mul_self_nonneg NB.z]⟩
    have : (NA.cross NB).norm2 = 0 := by
      unfold IV3.norm2 IV3.dot IV3.cross; rw [hx.1, hx.2.1, hx.2.2]; ring
    omega
  have hlen : 0 < (ofIR X).len := by
    rw [len_pos_iff]
    have e : (ofIR X).n2 = ((X.norm2 : ℤ) : ℝ) := by
      unfold ofIR R3.n2 R3.dot IV3.norm2 IV3.dot; push_cast; ring
    rw [e]; exact_mod_cast hXn
  exact ⟨hlen, cone_of_dets hpA hNApos k1 k2 hlen, cone_of_dets hpB hNBpos k3 k4 hlen⟩

theorem num128 : (1 - 64 * uR ^ 2) ^ 2 ≤ 1 - 64 * uR ^ 2 := by unfold uR; norm_num

/-- **the point returned by the crossing branch** (hypotheses of C16's `intersection_accurate`): non-zero, and within squared
    chord `128u²` of a common point of the two arcs -/
theorem crossing_point_near (a0 a1 b0 b1 : V3) (hc : S2Proofs.C16.InContract a0 a1 b0 b1)
    (hna : S2Proofs.C16Acc.NotAntipodal a0 a1) (hnb : S2Proofs.C16Acc.NotAntipodal b0 b1)
    (hside : S2Proofs.C16.StableSideIfAccepted a0 a1 b0 b1)
    (X : IV3) (hX : IA.exactCrossingClosed (ofV3 a0) (ofV3 a1) (ofV3 b0) (ofV3 b1) = some X) :
    0 < len (intersection a0 a1 b0 b1) ∧
    ∃ P, OnArc (vecR a0) (vecR a1) P ∧ OnArc (vecR b0) (vecR b1) P ∧
      dirChordP (intersection a0 a1 b0 b1) P ≤ 128 * uR ^ 2 := by
  obtain ⟨_, _, hs, hd, hu⟩ := S2Proofs.C16.intersection_accurate a0 a1 b0 b1 hc hna hnb hside X hX
  obtain ⟨hRl, hA, hB⟩ := ecc_onArcs hX
  obtain ⟨r, hr⟩ : ∃ r, r = intersection a0 a1 b0 b1 := ⟨_, rfl⟩
  rw [← hr] at hs hd hu ⊢
  obtain ⟨R, hRd⟩ : ∃ R, R = ofIR X := ⟨_, rfl⟩
  rw [← hRd] at hRl hA hB
  -- into C17Err.R3
  have ed : S2Proofs.C16Acc.R3.dot (S2Proofs.C16Acc.ofV r) (S2Proofs.C16Acc.ofI X) = (vecR r).dot R := by
    rw [hRd]; unfold S2Proofs.C16Acc.R3.dot S2Proofs.C16Acc.ofV S2Proofs.C16Acc.ofI ofIR R3.dot vecR; rfl
  have ec : (S2Proofs.C16Acc.R3.cross (S2Proofs.C16Acc.ofV r) (S2Proofs.C16Acc.ofI X)).norm2 = ((vecR r).cross R).n2 := by
    rw [hRd]
    unfold S2Proofs.C16Acc.R3.cross S2Proofs.C16Acc.R3.norm2 S2Proofs.C16Acc.ofV S2Proofs.C16Acc.ofI ofIR R3.cross
      R3.n2 R3.dot vecR
    ring
  have er : (S2Proofs.C16Acc.ofV r).norm2 = (vecR r).n2 := by
    unfold S2Proofs.C16Acc.R3.norm2 S2Proofs.C16Acc.ofV R3.n2 R3.dot vecR; ring
  have eX : (S2Proofs.C16Acc.ofI X).norm2 = R.n2 := by
    rw [hRd]; unfold S2Proofs.C16Acc.R3.norm2 S2Proofs.C16Acc.ofI ofIR R3.n2 R3.dot; ring
  unfold S2Proofs.C16Acc.R3.SinLe at hs
  rw [ec, er, eX] at hs
  rw [ed] at hd
  rw [er] at hu
  have hu0 := uR_nonneg
  have hrn : 0 < (vecR r).n2 := by
    have := (abs_le.mp hu).1
    have : 20 * uR ≤ 1 / 2 := by unfold uR; norm_num
    linarith
  have hrl : 0 < len r := by rw [← vecR_len]; exact len_pos_iff.mpr hrn
  refine ⟨hrl, comb (1 / R.len) R 0 R, hA, hB, ?_⟩
  -- the cosine
  unfold dirChordP
  rw [dot_normalise]
  set lr := len r with hlr
  set lR := R.len with hlR
  set D := (vecR r).dot R with hD
  have e1 : (vecR r).n2 = lr * lr := by rw [hlr, ← vecR_len, R3.len_sq]
  have e2 : R.n2 = lR * lR := by rw [hlR, R3.len_sq]
  -- D² ≥ (1 − 64u²)·lr²·lR²
  have hD2 : (1 - 64 * uR ^ 2) * (lr * lR) ^ 2 ≤ D * D := by
    have h1 : ((vecR r).cross R).n2 ≤ (8 * uR) ^ 2 * (lr * lr) * (lR * lR) := by rw [← e1, ← e2]; exact hs
    have h2 : ((vecR r).cross R).n2 = (lr * lr) * (lR * lR) - D * D := by rw [R3.lagrange, e1, e2]
    nlinarith
  have hprod : 0 < lr * lR := mul_pos hrl hRl
  -- c = D/(lr lR) ≥ 1 − 64u²
  have hc1 : (1 - 64 * uR ^ 2) * (lr * lR) ≤ D := by
    by_contra hcon
    have hcon := not_le.mp hcon
    have hpos : 0 ≤ (1 - 64 * uR ^ 2) * (lr * lR) := by
      apply mul_nonneg _ hprod.le
      unfold uR; norm_num
    have := mul_self_lt_mul_self hd.le hcon
    have h3 : ((1 - 64 * uR ^ 2) * (lr * lR)) * ((1 - 64 * uR ^ 2) * (lr * lR))
        = (1 - 64 * uR ^ 2) ^ 2 * (lr * lR) ^ 2 := by ring
    have h4 := mul_le_mul_of_nonneg_right num128 (sq_nonneg (lr * lR))
    linarith
  have e3 : D / lR / lr = D / (lr * lR) := by field_simp
  rw [e3]
  have hc2 : 1 - 64 * uR ^ 2 ≤ D / (lr * lR) := by rw [le_div_iff₀ hprod]; exact hc1
  linarith

/-! ### the two bridges: existence of the judge's crossing; `C17.UnitPt ⇒ C16.UnitPt` -/

theorem isZero_false_of_norm2_pos {X : IV3} (h : 0 < X.norm2) : X.isZero = false := by
  cases hz : X.isZero
  · rfl
  · exfalso
    unfold IV3.isZero at hz
    simp only [Bool.and_eq_true, beq_iff_eq] at hz
    obtain ⟨⟨ex, ey⟩, ez⟩ := hz
    unfold IV3.norm2 IV3.dot at h
    rw [ex, ey, ez] at h
    omega

/-- **`CrossingSign == Cross` on different great circles ⇒ the judge's exact crossing exists** (one of `±(a0×a1)×(b0×b1)`
    passes the four closed-arc tests) -/
theorem ecc_exists {a0 a1 b0 b1 : V3} (ha0 : S2Proofs.C02Err.Unitish a0) (ha1 : S2Proofs.C02Err.Unitish a1)
    (hb0 : S2Proofs.C02Err.Unitish b0) (hb1 : S2Proofs.C02Err.Unitish b1)
    (hd : CirclesDifferZ a0 a1 b0 b1) (hc : crosses a0 a1 b0 b1 = true) :
    ∃ X, IA.exactCrossingClosed (ofV3 a0) (ofV3 a1) (ofV3 b0) (ofV3 b1) = some X := by
  obtain ⟨s1, s2, s3⟩ := crosses_signs hc
  obtain ⟨w0, z0⟩ := rs_weak ha0 ha1 hb0
  obtain ⟨w1, z1⟩ := rs_weak ha0 ha1 hb1
  obtain ⟨w2, z2⟩ := rs_weak hb0 hb1 ha1
  obtain ⟨w3, z3⟩ := rs_weak hb0 hb1 ha0
  rw [s1] at w1
  rw [s2] at w2
  rw [s3] at w3
  have hrange : Pred.robustSign a0 a1 b0 = -1 ∨ Pred.robustSign a0 a1 b0 = 0 ∨ Pred.robustSign a0 a1 b0 = 1 := by
    rw [S2Proofs.C02StableErr.robustSign_exact a0 a1 b0 ha0 ha1 hb0]
    exact S2Proofs.ExactLaws.E_range ha0.1 ha1.1 hb0.1
  obtain ⟨s, hs⟩ : ∃ s, s = Pred.robustSign a0 a1 b0 := ⟨_, rfl⟩
  rw [← hs] at w0 w1 w2 w3 hrange z0
  obtain ⟨NA, hNA⟩ : ∃ NA, NA = (ofV3 a0).cross (ofV3 a1) := ⟨_, rfl⟩
  obtain ⟨NB, hNB⟩ : ∃ NB, NB = (ofV3 b0).cross (ofV3 b1) := ⟨_, rfl⟩
  -- the four closed-arc determinants of W = NA×NB in terms of P0, P1, Q0, Q1
  have d1 : det3 (ofV3 a0) (NA.cross NB) NA = det3 (ofV3 b0) (ofV3 b1) (ofV3 a0) * NA.norm2 := by
    rw [hNA, hNB]; unfold det3 IV3.norm2 IV3.dot IV3.cross; ring
  have d2 : det3 (NA.cross NB) (ofV3 a1) NA = -(det3 (ofV3 b0) (ofV3 b1) (ofV3 a1) * NA.norm2) := by
    rw [hNA, hNB]; unfold det3 IV3.norm2 IV3.dot IV3.cross; ring
  have d3 : det3 (ofV3 b0) (NA.cross NB) NB = -(det3 (ofV3 a0) (ofV3 a1) (ofV3 b0) * NB.norm2) := by
    rw [hNA, hNB]; unfold det3 IV3.norm2 IV3.dot IV3.cross; ring
  have d4 : det3 (NA.cross NB) (ofV3 b1) NB = det3 (ofV3 a0) (ofV3 a1) (ofV3 b1) * NB.norm2 := by
    rw [hNA, hNB]; unfold det3 IV3.norm2 IV3.dot IV3.cross; ring
  have n1 : det3 (ofV3 a0) (NA.cross NB).neg NA = -det3 (ofV3 a0) (NA.cross NB) NA := by
    unfold det3 IV3.neg IV3.dot IV3.cross; ring
  have n2 : det3 (NA.cross NB).neg (ofV3 a1) NA = -det3 (NA.cross NB) (ofV3 a1) NA := by
    unfold det3 IV3.neg IV3.dot IV3.cross; ring
  have n3 : det3 (ofV3 b0) (NA.cross NB).neg NB = -det3 (ofV3 b0) (NA.cross NB) NB := by
    unfold det3 IV3.neg IV3.dot IV3.cross; ring
  have n4 : det3 (NA.cross NB).neg (ofV3 b1) NB = -det3 (NA.cross NB) (ofV3 b1) NB := by
    unfold det3 IV3.neg IV3.dot IV3.cross; ring
  have hNA0 : 0 ≤ NA.norm2 := by
    unfold IV3.norm2 IV3.dot; nlinarith [mul_self_nonneg NA.x, mul_self_nonneg NA.y, mul_self_nonneg NA.z]
  have hNB0 : 0 ≤ NB.norm2 := by
    unfold IV3.norm2 IV3.dot; nlinarith [mul_self_nonneg NB.x, mul_self_nonneg NB.y, mul_self_nonneg NB.z]
  have hz : (S2Proofs.C16Acc.rawX (ofV3 a0) (ofV3 a1) (ofV3 b0) (ofV3 b1)).isZero = false := by
    apply isZero_false_of_norm2_pos
    unfold S2Proofs.C16Acc.rawX; exact hd
  rw [S2Proofs.C16Acc.ecc_eq]
  unfold S2Proofs.C16Acc.core
  rw [hz]
  simp only [Bool.false_eq_true, if_false]
  have hcase : S2Proofs.C16Acc.okC (ofV3 a0) (ofV3 a1) (ofV3 b0) (ofV3 b1)
        (S2Proofs.C16Acc.rawX (ofV3 a0) (ofV3 a1) (ofV3 b0) (ofV3 b1)) = true ∨
      S2Proofs.C16Acc.okC (ofV3 a0) (ofV3 a1) (ofV3 b0) (ofV3 b1)
        (S2Proofs.C16Acc.rawX (ofV3 a0) (ofV3 a1) (ofV3 b0) (ofV3 b1)).neg = true := by
    unfold S2Proofs.C16Acc.okC S2Proofs.C16Acc.rawX
    rw [← hNA, ← hNB]
    simp only [Bool.and_eq_true, decide_eq_true_eq]
    rw [n1, n2, n3, n4, d1, d2, d3, d4]
    rcases hrange with h | h | h
    · -- s = −1 :  P0 ≤ 0, P1 ≥ 0, Q1 ≤ 0, Q0 ≥ 0
      left
      rw [h] at w0 w1 w2 w3
      refine ⟨⟨⟨?_, ?_⟩, ?_⟩, ?_⟩
      · exact mul_nonneg (by omega) hNA0
      · have := mul_nonneg (show (0 : ℤ) ≤ -det3 (ofV3 b0) (ofV3 b1) (ofV3 a1) by omega) hNA0
        linarith
      · have := mul_nonneg (show (0 : ℤ) ≤ -det3 (ofV3 a0) (ofV3 a1) (ofV3 b0) by omega) hNB0
        linarith
      · exact mul_nonneg (by omega) hNB0
    · -- s = 0 : all four determinants vanish
      have e0 := z0 h
      have h1' : Pred.robustSign a0 a1 b1 = 0 := by rw [s1, ← hs, h]; rfl
      have h2' : Pred.robustSign b0 b1 a1 = 0 := by rw [s2, ← hs, h]
      have h3' : Pred.robustSign b0 b1 a0 = 0 := by rw [s3, ← hs, h]; rfl
      have e1 := z1 h1'
      have e2 := z2 h2'
      have e3 := z3 h3'
      left
      rw [e0, e1, e2, e3]
      simp
    · right
      rw [h] at w0 w1 w2 w3
      refine ⟨⟨⟨?_, ?_⟩, ?_⟩, ?_⟩
      · have := mul_nonneg (show (0 : ℤ) ≤ -det3 (ofV3 b0) (ofV3 b1) (ofV3 a0) by omega) hNA0
        linarith
      · have := mul_nonneg (show (0 : ℤ) ≤ det3 (ofV3 b0) (ofV3 b1) (ofV3 a1) by omega) hNA0
        linarith
      · have := mul_nonneg (show (0 : ℤ) ≤ det3 (ofV3 a0) (ofV3 a1) (ofV3 b0) by omega) hNB0
        linarith
      · have := mul_nonneg (show (0 : ℤ) ≤ -det3 (ofV3 a0) (ofV3 a1) (ofV3 b1) by omega) hNB0
        linarith
  rcases hcase with hp | hq
  · rw [hp]
    simp only [Bool.true_and, if_true]
    split_ifs <;> exact ⟨_, rfl⟩
  · rw [hq]
    simp only [Bool.and_true]
    split_ifs <;> exact ⟨_, rfl⟩

/-- c17err's domain is inside C16's contract domain (`|p| ∈ 1 ± 2·dblEpsilon`) -/
theorem c16unitPt_of_unitPt {p : V3} (h : UnitPt p) : S2Proofs.C16.UnitPt p := by
  obtain ⟨hf, lo, hi⟩ := h
  refine ⟨hf, ?_, ?_⟩
  all_goals
    rw [show (ofV3 p).norm2 = n2Z p by unfold n2Z IV3.norm2 IV3.dot ofV3; ring]
    rw [n2_int] at lo hi
  · have hS : (0 : ℝ) < (2 ^ 1074) ^ 2 := by positivity
    have hd1 : delta0 ≤ 1 / 2 ^ 52 := delta0_le
    have hd0 := delta0_nonneg
    have hk : ((10 ^ 31 - 4440892098500626 : ℝ)) ^ 2 / 10 ^ 62 ≤ (1 - delta0) ^ 2 := by
      have h1 : (10 ^ 31 - 4440892098500626 : ℝ) / 10 ^ 31 ≤ 1 - delta0 := by
        have : (10 ^ 31 - 4440892098500626 : ℝ) / 10 ^ 31 ≤ 1 - 1 / 2 ^ 52 := by norm_num
        linarith
      have h0 : (0 : ℝ) ≤ (10 ^ 31 - 4440892098500626 : ℝ) / 10 ^ 31 := by norm_num
      have := mul_le_mul h1 h1 h0 (by linarith)
      have e : ((10 ^ 31 - 4440892098500626 : ℝ)) ^ 2 / 10 ^ 62
          = (10 ^ 31 - 4440892098500626 : ℝ) / 10 ^ 31 * ((10 ^ 31 - 4440892098500626 : ℝ) / 10 ^ 31) := by norm_num
      rw [e]; nlinarith
    have h2 := (le_div_iff₀ hS).mp (le_trans hk lo)
    have h3 : (((10 ^ 31 - 4440892098500626 : ℤ) ^ 2 * ((scale : ℕ) : ℤ) ^ 2 : ℤ) : ℝ) ≤ ((n2Z p * 10 ^ 62 : ℤ) : ℝ) := by
      unfold scale
      push_cast
      have e : ((10 ^ 31 - 4440892098500626 : ℝ)) ^ 2 / 10 ^ 62 * (2 ^ 1074) ^ 2 * 10 ^ 62
          = (10 ^ 31 - 4440892098500626 : ℝ) ^ 2 * (2 ^ 1074) ^ 2 := by field_simp
      have := mul_le_mul_of_nonneg_right h2 (by positivity : (0 : ℝ) ≤ 10 ^ 62)
      linarith
    exact_mod_cast h3
  · have hS : (0 : ℝ) < (2 ^ 1074) ^ 2 := by positivity
    have hd1 : delta0 ≤ 1 / 2 ^ 52 := delta0_le
    have hd0 := delta0_nonneg
    have hk : (1 + delta0) ^ 2 ≤ ((10 ^ 31 + 4440892098500626 : ℝ)) ^ 2 / 10 ^ 62 := by
      have h1 : 1 + delta0 ≤ (10 ^ 31 + 4440892098500626 : ℝ) / 10 ^ 31 := by
        have : (1 : ℝ) + 1 / 2 ^ 52 ≤ (10 ^ 31 + 4440892098500626 : ℝ) / 10 ^ 31 := by norm_num
        linarith
      have := mul_le_mul h1 h1 (by linarith) (by norm_num)
      have e : ((10 ^ 31 + 4440892098500626 : ℝ)) ^ 2 / 10 ^ 62
          = (10 ^ 31 + 4440892098500626 : ℝ) / 10 ^ 31 * ((10 ^ 31 + 4440892098500626 : ℝ) / 10 ^ 31) := by norm_num
      rw [e]; nlinarith
    have h2 := (div_le_iff₀ hS).mp (le_trans hi hk)
    have h3 : ((n2Z p * 10 ^ 62 : ℤ) : ℝ) ≤ (((10 ^ 31 + 4440892098500626 : ℤ) ^ 2 * ((scale : ℕ) : ℤ) ^ 2 : ℤ) : ℝ) := by
      unfold scale
      push_cast
      have e : ((10 ^ 31 + 4440892098500626 : ℝ)) ^ 2 / 10 ^ 62 * (2 ^ 1074) ^ 2 * 10 ^ 62
          = (10 ^ 31 + 4440892098500626 : ℝ) ^ 2 * (2 ^ 1074) ^ 2 := by field_simp
      have := mul_le_mul_of_nonneg_right h2 (by positivity : (0 : ℝ) ≤ 10 ^ 62)
      linarith
    exact_mod_cast h3

end S2Proofs.C17Pairs
