/-
  C17Pairs.ArcBasics — pure ℝ³ helpers for the edge-pair geometry (on top of `C17Err.Geom`):
    * triangle inequality for `comb`, symmetry of `OnArc` / `InWedgeR`, normalisation of a cone point onto the arc;
    * `arc_nonwedge`   the non-unit form of `arc_unit`: outside the wedge of `ab` no arc point is nearer to `x` than an endpoint;
    * `enter3`         the 1-D lemma: moving from `Q` (where three linear functionals are positive) towards `b` one
                       reaches a point where all three are still ≥ 0 and either the point is `b` or one of them vanishes.
-/
import S2Proofs.C17Err.Geom

set_option linter.unusedSimpArgs false
set_option linter.unusedVariables false

namespace S2Proofs.C17Pairs
open S2Proofs.C17Err S2Proofs.C17Err.R3

theorem len_pos_iff {u : R3} : 0 < u.len ↔ 0 < u.n2 := by
  unfold R3.len; exact Real.sqrt_pos

theorem len_eq_one {u : R3} (h : u.n2 = 1) : u.len = 1 := by
  unfold R3.len; rw [h]; exact Real.sqrt_one

theorem len_le_of_sq {u : R3} {L : ℝ} (hL : 0 ≤ L) (h : u.n2 ≤ L * L) : u.len ≤ L := by
  unfold R3.len
  rw [show L = Real.sqrt (L * L) from (Real.sqrt_mul_self hL).symm]
  exact Real.sqrt_le_sqrt h

/-- triangle inequality for a non-negative combination -/
theorem comb_len_le {s t : ℝ} (hs : 0 ≤ s) (ht : 0 ≤ t) (u v : R3) :
    (comb s u t v).len ≤ s * u.len + t * v.len := by
  apply len_le_of_sq (add_nonneg (mul_nonneg hs (len_nonneg u)) (mul_nonneg ht (len_nonneg v)))
  rw [comb_n2]
  have h1 := (abs_le.mp (abs_dot_le u v)).2
  have h2 : 2 * (s * t) * u.dot v ≤ 2 * (s * t) * (u.len * v.len) :=
    mul_le_mul_of_nonneg_left h1 (by positivity)
  have e1 := len_sq u
  have e2 := len_sq v
  nlinarith

theorem onArc_symm {a b P : R3} (h : OnArc a b P) : OnArc b a P := by
  obtain ⟨s, t, hs, ht, rfl, hn⟩ := h
  refine ⟨t, s, ht, hs, ?_, ?_⟩
  · unfold comb; simp only [R3.mk.injEq]; refine ⟨by ring, by ring, by ring⟩
  · exact hn

theorem inWedge_symm {x a b : R3} (h : InWedgeR x a b) : InWedgeR x b a := by
  obtain ⟨h1, h2⟩ := h
  have e1 : x.dot ((b.cross a).cross b) = -(x.dot ((a.cross b).cross b)) := by unfold dot cross; ring
  have e2 : x.dot ((b.cross a).cross a) = -(x.dot ((a.cross b).cross a)) := by unfold dot cross; ring
  constructor
  · rw [e1]; linarith
  · rw [e2]; linarith

/-- a non-zero point of the cone `{s·a + t·b}` normalises to a point of the arc -/
theorem onArc_of_cone {a b R : R3} {s t : ℝ} (hs : 0 ≤ s) (ht : 0 ≤ t) (hR : R = comb s a t b) (h0 : 0 < R.len) :
    OnArc a b (comb (1 / R.len) R 0 R) := by
  refine ⟨s / R.len, t / R.len, div_nonneg hs h0.le, div_nonneg ht h0.le, ?_, ?_⟩
  · have hne : R.len ≠ 0 := h0.ne'
    generalize R.len = L at *
    rw [hR]; unfold comb; simp only [R3.mk.injEq]
    refine ⟨by field_simp; ring, by field_simp; ring, by field_simp; ring⟩
  · rw [comb_n2, ← len_sq R]
    have : R.len ≠ 0 := h0.ne'
    field_simp; ring

theorem dot_normalise (x R : R3) : x.dot (comb (1 / R.len) R 0 R) = x.dot R / R.len := by
  rw [dot_comb]; ring

/-- an endpoint direction is on the arc -/
theorem onArc_left' (a b : R3) (ha : 0 < a.len) : OnArc a b (comb (1 / a.len) a 0 a) := by
  refine ⟨1 / a.len, 0, by positivity, le_refl _, ?_, ?_⟩
  · unfold comb; simp
  · rw [comb_n2, ← len_sq a]
    have : a.len ≠ 0 := ha.ne'
    field_simp; ring

theorem onArc_right' (a b : R3) (hb : 0 < b.len) : OnArc a b (comb (1 / b.len) b 0 b) :=
  onArc_symm (onArc_left' b a hb)

/-- **outside the wedge the nearest arc point is an endpoint** (general non-zero `a`, `b`) -/
theorem arc_nonwedge {x a b P : R3} (ha : 0 < a.len) (hb : 0 < b.len) (hP : OnArc a b P)
    (hw : ¬ InWedgeR x a b) : x.dot P ≤ max (x.dot a / a.len) (x.dot b / b.len) := by
  obtain ⟨s, t, hs, ht, hPe, hP1⟩ := hP
  set A := comb (1 / a.len) a 0 a with hA
  set B := comb (1 / b.len) b 0 b with hB
  have hA1 : A.n2 = 1 := (onArc_left' a b ha).choose_spec.choose_spec.2.2.2
  have hB1 : B.n2 = 1 := (onArc_right' a b hb).choose_spec.choose_spec.2.2.2
  have ha0 : a.len ≠ 0 := ha.ne'
  have hb0 : b.len ≠ 0 := hb.ne'
  have hPAB : OnArc A B P := by
    refine ⟨s * a.len, t * b.len, mul_nonneg hs ha.le, mul_nonneg ht hb.le, ?_, hP1⟩
    rw [hPe, hA, hB]
    unfold comb
    simp only [R3.mk.injEq]
    refine ⟨by field_simp; ring, by field_simp; ring, by field_simp; ring⟩
  have eA : x.dot A = x.dot a / a.len := by rw [hA, dot_normalise]
  have eB : x.dot B = x.dot b / b.len := by rw [hB, dot_normalise]
  have eAB : A.dot B = a.dot b / (a.len * b.len) := by
    rw [hA, hB]; unfold comb dot; field_simp; ring
  have hnw : ¬ (0 < x.dot B - A.dot B * x.dot A ∧ 0 < x.dot A - A.dot B * x.dot B) := by
    intro hc
    apply hw
    obtain ⟨c1, c2⟩ := hc
    rw [eA, eB, eAB] at c1 c2
    constructor
    · rw [wedge_dot_a, ← len_sq a]
      have e : x.dot b / b.len - a.dot b / (a.len * b.len) * (x.dot a / a.len)
          = (x.dot b * (a.len * a.len) - x.dot a * a.dot b) / (a.len * a.len * b.len) := by
        field_simp
      rw [e] at c1
      have hpos : 0 < a.len * a.len * b.len := mul_pos (mul_pos ha ha) hb
      exact (div_pos_iff_of_pos_right hpos).mp c1
    · rw [wedge_dot_b, ← len_sq b]
      have e : x.dot a / a.len - a.dot b / (a.len * b.len) * (x.dot b / b.len)
          = (x.dot a * (b.len * b.len) - x.dot b * a.dot b) / (a.len * b.len * b.len) := by
        field_simp
      rw [e] at c2
      have hpos : 0 < a.len * b.len * b.len := mul_pos (mul_pos ha hb) hb
      have := (div_pos_iff_of_pos_right hpos).mp c2
      linarith
  have hmax := arc_unit hA1 hB1 hPAB hnw
  rw [eA, eB] at hmax
  exact hmax

/-! ### the 1-D entry lemma -/

/-- one functional: on the segment from `p` (value at the far end) to `q > 0` (value at `Q`) -/
theorem enter1 (p q : ℝ) (hq : 0 < q) :
    ∃ β : ℝ, 0 ≤ β ∧ β < 1 ∧ (β = 0 ∨ (1 - β) * p + β * q = 0) ∧
      ∀ β' : ℝ, β ≤ β' → β' ≤ 1 → 0 ≤ (1 - β') * p + β' * q := by
  by_cases hp : 0 ≤ p
  · refine ⟨0, le_refl _, by norm_num, Or.inl rfl, ?_⟩
    intro β' h0 h1
    exact add_nonneg (mul_nonneg (by linarith) hp) (mul_nonneg h0 hq.le)
  · have hp' : p < 0 := not_le.mp hp
    have hd : 0 < q - p := by linarith
    refine ⟨-p / (q - p), div_nonneg (by linarith) hd.le, ?_, Or.inr ?_, ?_⟩
    · rw [div_lt_one hd]; linarith
    · field_simp; ring
    · intro β' h0 h1
      have h2 : -p ≤ β' * (q - p) := by
        have := (div_le_iff₀ hd).mp h0
        linarith
      nlinarith

/-- three functionals -/
theorem enter3 (p1 p2 p3 q1 q2 q3 : ℝ) (h1 : 0 < q1) (h2 : 0 < q2) (h3 : 0 < q3) :
    ∃ β : ℝ, 0 ≤ β ∧ β < 1 ∧
      0 ≤ (1 - β) * p1 + β * q1 ∧ 0 ≤ (1 - β) * p2 + β * q2 ∧ 0 ≤ (1 - β) * p3 + β * q3 ∧
      (β = 0 ∨ (1 - β) * p1 + β * q1 = 0 ∨ (1 - β) * p2 + β * q2 = 0 ∨ (1 - β) * p3 + β * q3 = 0) := by
  obtain ⟨β1, a1, b1, c1, d1⟩ := enter1 p1 q1 h1
  obtain ⟨β2, a2, b2, c2, d2⟩ := enter1 p2 q2 h2
  obtain ⟨β3, a3, b3, c3, d3⟩ := enter1 p3 q3 h3
  have key : ∀ β : ℝ, β1 ≤ β → β2 ≤ β → β3 ≤ β → β < 1 → 0 ≤ β →
      (β = 0 ∨ (1 - β) * p1 + β * q1 = 0 ∨ (1 - β) * p2 + β * q2 = 0 ∨ (1 - β) * p3 + β * q3 = 0) →
      ∃ β : ℝ, 0 ≤ β ∧ β < 1 ∧
      0 ≤ (1 - β) * p1 + β * q1 ∧ 0 ≤ (1 - β) * p2 + β * q2 ∧ 0 ≤ (1 - β) * p3 + β * q3 ∧
      (β = 0 ∨ (1 - β) * p1 + β * q1 = 0 ∨ (1 - β) * p2 + β * q2 = 0 ∨ (1 - β) * p3 + β * q3 = 0) :=
    fun β g1 g2 g3 gl g0 hz => ⟨β, g0, gl, d1 β g1 gl.le, d2 β g2 gl.le, d3 β g3 gl.le, hz⟩
  rcases le_total β1 β2 with h12 | h12
  · rcases le_total β2 β3 with h23 | h23
    · exact key β3 (le_trans h12 h23) h23 (le_refl _) b3 a3
        (c3.elim Or.inl (fun h => Or.inr (Or.inr (Or.inr h))))
    · exact key β2 h12 (le_refl _) h23 b2 a2 (c2.elim Or.inl (fun h => Or.inr (Or.inr (Or.inl h))))
  · rcases le_total β1 β3 with h13 | h13
    · exact key β3 h13 (le_trans h12 h13) (le_refl _) b3 a3
        (c3.elim Or.inl (fun h => Or.inr (Or.inr (Or.inr h))))
    · exact key β1 (le_refl _) h12 h13 b1 a1 (c1.elim Or.inl (fun h => Or.inr (Or.inl h)))

end S2Proofs.C17Pairs
