/-
  C17Pairs.MaxFloat — float glue for `UpdateMaxDistance` (model `S2.EdgeNum.updateMaxDistance`, candidate value
  `C17.maxCandidate`), on top of c17err's bounds.

      maxEndpoint_spec      the larger endpoint chord `dist0` is within `k1·D + k2 ≤ MaxPointError(dist0)` of the true one
      maxCandidate_far      branch taken (`beyondRightAngle`):  |cand − trueMaxDist2| ≤ allowedError(−x,a,b) + 5u
      maxCandidate_near     branch not taken AND x within 90° of both endpoints:  |cand − trueMaxDist2| ≤ MaxPointError(cand)
      near_branch_class     branch not taken ⇒ the true larger endpoint chord is ≤ 2 + 2^-51
  so the only inputs not covered are those where the branch is skipped although the farther endpoint is (by at most 2^-51 in
  squared chord) beyond 90° — the class `maxdist-rightangle` of finding F10/D41, shrunk to one ulp by the repair.
-/
import S2Proofs.C17Pairs.MaxDist
import S2Proofs.Properties.C17_Error

set_option linter.unusedSimpArgs false
set_option linter.unusedVariables false

namespace S2Proofs.C17Pairs
open S2 S2.Exact S2.EdgeNum S2Proofs.F64Order S2Proofs.FloatErr S2Proofs.C17Err S2Proofs.C17Err.R3 S2Proofs.C17

theorem fz_facts' : Fin fz ∧ val fz = 0 := by
  have h : Fin fz ∧ toInt fz = 0 := by decide
  refine ⟨h.1, ?_⟩; unfold val; rw [h.2]; simp

theorem f2_facts : Fin f2 ∧ val f2 = 2 := by
  have h : Fin f2 ∧ toInt f2 = 2 * 2 ^ 1074 := by decide +kernel
  refine ⟨h.1, ?_⟩
  unfold val; rw [h.2]; push_cast; field_simp

/-- `ChordAngleBetweenPoints` against the true chord of the directions -/
theorem chordBetween_spec {x a : V3} (hx : UnitPt x) (ha : UnitPt a) :
    Fin (chordBetween x a) ∧ 0 ≤ val (chordBetween x a) ∧ val (chordBetween x a) ≤ 4 ∧
    0 ≤ dirChord2 x a ∧ dirChord2 x a ≤ 4 ∧
    |val (chordBetween x a) - dirChord2 x a| ≤ k1 * dirChord2 x a + k2 := by
  obtain ⟨fn, nn, d0, d4, e⟩ := vertex_one delta0_nonneg (le_refl _) hx ha
  obtain ⟨f4f, f4v⟩ := f4_facts
  obtain ⟨fm, vm⟩ := val_fmin f4f fn
  have hv : val (chordBetween x a) = min (val (x.sub a).norm2) 4 := by
    unfold chordBetween; rw [vm, f4v, min_comm]
  refine ⟨fm, ?_, ?_, d0, d4, ?_⟩
  · rw [hv]; exact le_min nn (by norm_num)
  · rw [hv]; exact min_le_right _ _
  · rw [hv]; exact e

theorem max_core {ra rb DA DB : ℝ} (hA : |ra - DA| ≤ k1 * DA + k2) (hB : |rb - DB| ≤ k1 * DB + k2) :
    |max ra rb - max DA DB| ≤ k1 * max DA DB + k2 := by
  have hk := k1_nonneg
  obtain ⟨a1, a2⟩ := abs_le.mp hA
  obtain ⟨b1, b2⟩ := abs_le.mp hB
  have mA : k1 * DA ≤ k1 * max DA DB := mul_le_mul_of_nonneg_left (le_max_left _ _) hk
  have mB : k1 * DB ≤ k1 * max DA DB := mul_le_mul_of_nonneg_left (le_max_right _ _) hk
  rw [abs_le]
  constructor
  · rcases le_total DA DB with h | h
    · rw [max_eq_right h] at mB ⊢
      have : rb ≤ max ra rb := le_max_right _ _
      linarith
    · rw [max_eq_left h] at mA ⊢
      have : ra ≤ max ra rb := le_max_left _ _
      linarith
  · have h1 : ra ≤ max DA DB + (k1 * max DA DB + k2) := by
      have := le_max_left DA DB; linarith
    have h2 : rb ≤ max DA DB + (k1 * max DA DB + k2) := by
      have := le_max_right DA DB; linarith
    have := max_le h1 h2
    linarith

/-- the true larger endpoint chord -/
noncomputable def maxEndpointTrue (x a b : V3) : ℝ := max (dirChord2 x a) (dirChord2 x b)

/-- **the larger endpoint chord as computed** -/
theorem maxEndpoint_spec {x a b : V3} (hx : UnitPt x) (ha : UnitPt a) (hb : UnitPt b) :
    Fin (maxEndpointChord x a b) ∧ 0 ≤ val (maxEndpointChord x a b) ∧ val (maxEndpointChord x a b) ≤ 4 ∧
    |val (maxEndpointChord x a b) - maxEndpointTrue x a b| ≤ k1 * maxEndpointTrue x a b + k2 ∧
    Fin (maxPointError (maxEndpointChord x a b)) ∧
    k1 * maxEndpointTrue x a b + k2 ≤ val (maxPointError (maxEndpointChord x a b)) := by
  obtain ⟨fa, na, a4, da0, da4, ea⟩ := chordBetween_spec hx ha
  obtain ⟨fb, nb, b4, db0, db4, eb⟩ := chordBetween_spec hx hb
  have hv : Fin (maxEndpointChord x a b) ∧
      val (maxEndpointChord x a b) = max (val (chordBetween x a)) (val (chordBetween x b)) := by
    unfold maxEndpointChord
    simp only
    by_cases h : F64.gt (chordBetween x b) (chordBetween x a) = true
    · rw [if_pos h]
      have := (gt_val fb fa).mp h
      exact ⟨fb, by rw [max_eq_right this.le]⟩
    · rw [if_neg h]
      have : ¬ (val (chordBetween x a) < val (chordBetween x b)) := fun hc => h ((gt_val fb fa).mpr hc)
      exact ⟨fa, by rw [max_eq_left (not_lt.mp this)]⟩
  obtain ⟨fm, vm⟩ := hv
  have h0 : 0 ≤ val (maxEndpointChord x a b) := by rw [vm]; exact le_trans na (le_max_left _ _)
  have h4 : val (maxEndpointChord x a b) ≤ 4 := by rw [vm]; exact max_le a4 b4
  have herr : |val (maxEndpointChord x a b) - maxEndpointTrue x a b| ≤ k1 * maxEndpointTrue x a b + k2 := by
    rw [vm]; exact max_core ea eb
  have hD0 : 0 ≤ maxEndpointTrue x a b := le_trans da0 (le_max_left _ _)
  have hD4 : maxEndpointTrue x a b ≤ 4 := max_le da4 db4
  obtain ⟨fe, he⟩ := bound_le_maxPointError fm h0 h4 hD0 hD4 herr
  exact ⟨fm, h0, h4, herr, fe, he⟩

/-- **NEAR BRANCH** (`UpdateMaxDistance` keeps the larger endpoint chord): if the direction of `x` is within 90° of both
    endpoints the returned candidate is within its own `MaxPointError` of the true maximum over the arc. -/
theorem maxCandidate_near_bound {x a b : V3} (hx : UnitPt x) (ha : UnitPt a) (hb : UnitPt b)
    (hbr : beyondRightAngle x a b = false) (hacute : maxEndpointTrue x a b ≤ 2) :
    Fin (maxCandidate x a b) ∧
    |val (maxCandidate x a b) - trueMaxDist2 x a b| ≤ val (maxPointError (maxCandidate x a b)) := by
  rw [maxCandidate_near x a b hbr]
  obtain ⟨fm, _, _, herr, _, he⟩ := maxEndpoint_spec hx ha hb
  have h0 : dirChord2 x a ≤ 2 := le_trans (le_max_left _ _) hacute
  have h1 : dirChord2 x b ≤ 2 := le_trans (le_max_right _ _) hacute
  rw [trueMaxDist2_of_acute hx.1 hx.len_pos ha.len_pos hb.len_pos h0 h1]
  exact ⟨fm, le_trans herr he⟩

/-- upper bound of the float `MaxPointError` (crude) -/
theorem maxPointError_small {c : F64} (hc : Fin c) (h0 : 0 ≤ val c) (h4 : val c ≤ 4) :
    Fin (maxPointError c) ∧ |val (maxPointError c)| ≤ 21 := by
  obtain ⟨f1, v1, f2, v2⟩ := mpC_facts
  have hc1 : 0 ≤ val mpC1 := by rw [v1]; positivity
  have hc1' : val mpC1 ≤ 1 := by rw [v1]; norm_num
  have hc2 : 0 ≤ val mpC2 := by rw [v2]; positivity
  have hc2' : val mpC2 ≤ 1 := by rw [v2]; norm_num
  have m1 : |val mpC1 * val c| ≤ 4 := by
    rw [abs_of_nonneg (mul_nonneg hc1 h0)]; nlinarith
  obtain ⟨ft, _, bt⟩ := mul_step stdModel f1 hc m1 (by norm_num)
  have m2 : |val (mpC1 * c) + val mpC2| ≤ 10 := by
    have := abs_add_le (val (mpC1 * c)) (val mpC2)
    rw [abs_of_nonneg hc2] at this; linarith
  obtain ⟨fs, _, bs⟩ := add_step stdModel ft f2 m2 (by norm_num)
  exact ⟨fs, by unfold maxPointError; linarith⟩

theorem fin_not_inf {c : F64} (hc : Fin c) : c.isInf = false := by
  unfold F64Order.Fin at hc
  unfold F64.isInf
  simp [hc]

/-- **the class left open by the near branch**: when `UpdateMaxDistance` does not go through the antipode, the true larger
    endpoint chord is at most `2 + 2^-51` — i.e. the farther endpoint is within 90° up to one ulp of the squared chord. -/
theorem near_branch_class {x a b : V3} (hx : UnitPt x) (ha : UnitPt a) (hb : UnitPt b)
    (hbr : beyondRightAngle x a b = false) : maxEndpointTrue x a b ≤ 2 + 1 / 2 ^ 51 := by
  obtain ⟨fm, h0, h4, herr, fe, he⟩ := maxEndpoint_spec hx ha hb
  obtain ⟨fz', vz⟩ := fz_facts'
  obtain ⟨f2f, f2v⟩ := f2_facts
  obtain ⟨f4f, f4v⟩ := f4_facts
  set c := maxEndpointChord x a b with hc
  set e := maxPointError c with he'
  obtain ⟨_, be⟩ := maxPointError_small fm h0 h4
  have hsum : |val c + val e| ≤ 25 := by
    have := abs_add_le (val c) (val e)
    rw [abs_of_nonneg h0] at this; linarith
  obtain ⟨fs, rs, _⟩ := add_step stdModel fm fe hsum (by norm_num)
  -- the expanded chord
  have hexp : chordExpanded c e = F64.fmax fz (F64.fmin f4 (c + e)) := by
    unfold chordExpanded
    have h1 : F64.lt c fz = false := by
      cases h : F64.lt c fz
      · rfl
      · have := (lt_val fm fz').mp h
        rw [vz] at this; linarith
    rw [h1, fin_not_inf fm]
    simp
    rfl
  obtain ⟨fmn, vmn⟩ := val_fmin f4f fs
  obtain ⟨fmx, vmx⟩ := val_fmax fz' fmn
  unfold beyondRightAngle at hbr
  rw [← hc, ← he', hexp] at hbr
  have hle : val (F64.fmax fz (F64.fmin f4 (c + e))) ≤ 2 := by
    by_contra hcon
    have := (gt_val fmx f2f).mpr (by rw [f2v]; exact not_le.mp hcon)
    rw [this] at hbr; cases hbr
  rw [vmx, vmn, vz, f4v] at hle
  have hs2 : val (c + e) ≤ 2 := by
    by_contra hcon
    have hcon := not_le.mp hcon
    have : (2 : ℝ) < min 4 (val (c + e)) := lt_min (by norm_num) hcon
    have := lt_of_lt_of_le this (le_max_right 0 _)
    linarith
  -- c + e ≤ 2/(1−u)
  have hpos : 0 ≤ val c + val e := by
    have hD0 : 0 ≤ maxEndpointTrue x a b := by
      obtain ⟨_, _, _, da0, _, _⟩ := chordBetween_spec hx ha
      exact le_trans da0 (le_max_left _ _)
    have := mul_nonneg k1_nonneg hD0
    have := k2_nonneg
    linarith
  unfold Rnd at rs
  rw [abs_of_nonneg hpos, add_zero] at rs
  obtain ⟨r1, _⟩ := abs_le.mp rs
  have hce : (val c + val e) * (1 - uR) ≤ 2 := by linarith
  have hD : maxEndpointTrue x a b ≤ val c + val e := by
    obtain ⟨l1, _⟩ := abs_le.mp herr
    linarith
  have hu : (0 : ℝ) < 1 - uR := by unfold uR; norm_num
  have h3 : maxEndpointTrue x a b * (1 - uR) ≤ 2 := le_trans (mul_le_mul_of_nonneg_right hD hu.le) hce
  have h5 : (2 + 1 / 2 ^ 51 : ℝ) * (1 - uR) ≥ 2 := by unfold uR; norm_num
  by_contra hcon
  have hcon := not_le.mp hcon
  have := mul_lt_mul_of_pos_right hcon hu
  linarith

/-! ### the branch through the antipode -/

theorem r3_bounds : 1 ≤ r3 ∧ r3 ≤ 2 := by
  have h1 := r3_lo
  have h2 := r3_hi
  constructor <;> linarith

/-- crude size of the documented interior bound -/
theorem docInterior_le {b : ℝ} (h0 : 0 ≤ b) (h1 : b ≤ 1) : 0 ≤ docInterior b ∧ docInterior b ≤ 100 * uR := by
  obtain ⟨r1, r2⟩ := r3_bounds
  have hr0 : 0 < r3 := r3_pos
  set a := Real.sqrt (b * (2 - b)) with ha
  have ha0 : 0 ≤ a := Real.sqrt_nonneg _
  have ha1 : a ≤ 1 := by
    rw [ha, show (1 : ℝ) = Real.sqrt 1 from Real.sqrt_one.symm]
    apply Real.sqrt_le_sqrt
    nlinarith
  have hdiv : 16 / r3 ≤ 16 := by rw [div_le_iff₀ hr0]; linarith
  have hdiv0 : 0 ≤ 16 / r3 := div_nonneg (by norm_num) hr0.le
  have hu := uR_nonneg
  have hu1 : uR ≤ 1 / 2 ^ 53 := by unfold uR; exact le_refl _
  unfold docInterior
  rw [← ha]
  have t1 : 0 ≤ (5 / 2 + 2 * r3 + 17 / 2 * a) * a := mul_nonneg (by positivity) ha0
  have t1' : (5 / 2 + 2 * r3 + 17 / 2 * a) * a ≤ 15 * 1 :=
    mul_le_mul (by nlinarith) ha1 ha0 (by norm_num)
  have t2 : 0 ≤ (2 + 2 * r3 / 3 + 13 / 2 * (1 - b)) * b := mul_nonneg (by nlinarith) h0
  have t2' : (2 + 2 * r3 / 3 + 13 / 2 * (1 - b)) * b ≤ 10 * 1 :=
    mul_le_mul (by nlinarith) h1 h0 (by norm_num)
  have t3 : 0 ≤ (23 + 16 / r3) * (2 * uR) := mul_nonneg (by linarith) (by linarith)
  have t3' : (23 + 16 / r3) * (2 * uR) ≤ 39 * (2 * uR) := mul_le_mul_of_nonneg_right (by linarith) (by linarith)
  constructor
  · exact mul_nonneg (by linarith) (by linarith)
  · have : ((5 / 2 + 2 * r3 + 17 / 2 * a) * a + (2 + 2 * r3 / 3 + 13 / 2 * (1 - b)) * b + (23 + 16 / r3) * (2 * uR))
        ≤ 50 := by
      have : 39 * (2 * uR) ≤ 1 := by unfold uR; norm_num
      linarith
    have := mul_le_mul_of_nonneg_right this (show (0 : ℝ) ≤ 2 * uR by linarith)
    linarith

theorem gcDist2_range (x a b : V3) (hx : 0 < len x) (hn : 0 < ((vecR a).cross (vecR b)).len) :
    0 ≤ gcDist2 x a b ∧ gcDist2 x a b ≤ 2 := by
  unfold gcDist2
  set n := (vecR a).cross (vecR b) with hnd
  have h1 : 0 ≤ (n.cross (vecR x)).len / (n.len * len x) := div_nonneg (R3.len_nonneg _) (mul_pos hn hx).le
  have h2 : (n.cross (vecR x)).len / (n.len * len x) ≤ 1 := by
    rw [div_le_one (mul_pos hn hx)]
    apply len_le_of_sq (mul_pos hn hx).le
    rw [R3.lagrange]
    have e1 := R3.len_sq n
    have e2 : len x * len x = (vecR x).n2 := C17Err.len_sq x
    have : n.len * len x * (n.len * len x) = (n.len * n.len) * (len x * len x) := by ring
    rw [this, e1, e2]
    have := mul_self_nonneg (n.dot (vecR x))
    linarith
  constructor <;> linarith

/-- size of `allowedError` -/
theorem allowedError_small {x a b : V3} (hx : UnitPt x) (ha : UnitPt a) (hb : UnitPt b) (hE : EdgeOK a b) :
    0 ≤ allowedError x a b ∧ allowedError x a b ≤ 200 * uR := by
  unfold allowedError
  split_ifs with hbr
  · obtain ⟨g0, g2⟩ := gcDist2_range x a b hx.len_pos (edgeOK_normal_pos hE)
    obtain ⟨q0, q1⟩ := docInterior_le (b := gcDist2 x a b / 2) (by linarith) (by linarith)
    exact ⟨q0, by have := uR_nonneg; linarith⟩
  · have hbr' : interiorBranch x a b = false := by cases h : interiorBranch x a b <;> simp_all
    rw [chord_by_branch, if_neg hbr, fval_eq_val]
    obtain ⟨fc, h4, herr, fe, hle⟩ := vertexDist_spec delta0_nonneg (le_refl _) hx ha hb
    have h0 : 0 ≤ val (vertexDist x a b) := by
      obtain ⟨fa, na, _, _, _⟩ := vertex_one delta0_nonneg (le_refl _) hx ha
      obtain ⟨fb, nb, _, _, _⟩ := vertex_one delta0_nonneg (le_refl _) hx hb
      obtain ⟨fm, vm⟩ := val_fmin fa fb
      obtain ⟨_, vc⟩ := val_chordFromLen2 fm
      unfold vertexDist
      rw [vc, vm]
      exact le_min (le_min na nb) (by norm_num)
    constructor
    · have := abs_nonneg (val (vertexDist x a b) - min (dirChord2 x a) (dirChord2 x b))
      linarith
    · -- MaxPointError(c) ≤ (4.5 eps c + 16 eps²)(1+u)² small
      obtain ⟨f1, v1, f2, v2⟩ := mpC_facts
      have hc1 : 0 ≤ val mpC1 := by rw [v1]; positivity
      have hc2 : 0 ≤ val mpC2 := by rw [v2]; positivity
      have m1 : |val mpC1 * val (vertexDist x a b)| ≤ 4 := by
        rw [abs_of_nonneg (mul_nonneg hc1 h0)]
        have : val mpC1 ≤ 1 := by rw [v1]; norm_num
        nlinarith
      obtain ⟨ft, rt, bt⟩ := mul_step stdModel f1 fc m1 (by norm_num)
      have m2 : |val (mpC1 * vertexDist x a b) + val mpC2| ≤ 10 := by
        have := abs_add_le (val (mpC1 * vertexDist x a b)) (val mpC2)
        have : val mpC2 ≤ 1 := by rw [v2]; norm_num
        rw [abs_of_nonneg hc2] at *; linarith
      obtain ⟨fs, rs, _⟩ := add_step stdModel ft f2 m2 (by norm_num)
      unfold Rnd at rt rs
      rw [abs_of_nonneg (mul_nonneg hc1 h0)] at rt
      obtain ⟨_, t2⟩ := abs_le.mp rt
      have hprod : val mpC1 * val (vertexDist x a b) ≤ 5066549580220651 / 2 ^ 102 * 4 := by
        rw [v1]; exact mul_le_mul_of_nonneg_left h4 (by positivity)
      have he := eR_le250
      have hu := uR_nonneg
      have hu1 : uR ≤ 1 := uR_le_one
      have hT : val (mpC1 * vertexDist x a b) ≤ 5066549580220651 / 2 ^ 102 * 4 * 2 + 1 / 2 ^ 250 := by
        have : uR * (val mpC1 * val (vertexDist x a b)) ≤ 1 * (5066549580220651 / 2 ^ 102 * 4) :=
          mul_le_mul hu1 hprod (mul_nonneg hc1 h0) (by norm_num)
        linarith
      have hT0 : -(1 / 2 ^ 250) ≤ val (mpC1 * vertexDist x a b) := by
        obtain ⟨t1, _⟩ := abs_le.mp rt
        have : 0 ≤ val mpC1 * val (vertexDist x a b) * (1 - uR) := mul_nonneg (mul_nonneg hc1 h0) (by linarith)
        linarith
      have hsum0 : 0 ≤ val (mpC1 * vertexDist x a b) + val mpC2 := by
        have : (1 : ℝ) / 2 ^ 250 ≤ val mpC2 := by rw [v2]; norm_num
        linarith
      rw [abs_of_nonneg hsum0, add_zero] at rs
      obtain ⟨_, s2⟩ := abs_le.mp rs
      have hS : val (mpC1 * vertexDist x a b) + val mpC2 ≤ 5066549580220651 / 2 ^ 102 * 4 * 2 + 1 / 2 ^ 250 + 9007199252710212 / 2 ^ 153 := by
        rw [v2]; linarith
      have : val (maxPointError (vertexDist x a b))
          ≤ 2 * (5066549580220651 / 2 ^ 102 * 4 * 2 + 1 / 2 ^ 250 + 9007199252710212 / 2 ^ 153) := by
        have h9 : uR * (val (mpC1 * vertexDist x a b) + val mpC2)
            ≤ 1 * (5066549580220651 / 2 ^ 102 * 4 * 2 + 1 / 2 ^ 250 + 9007199252710212 / 2 ^ 153) :=
          mul_le_mul hu1 hS hsum0 (by norm_num)
        show val (mpC1 * vertexDist x a b + mpC2) ≤ _
        linarith
      have hfin : 2 * (5066549580220651 / 2 ^ 102 * 4 * 2 + 1 / 2 ^ 250 + 9007199252710212 / 2 ^ 153) ≤ 200 * uR := by
        unfold uR; norm_num
      linarith

/-- **FAR BRANCH** (`UpdateMaxDistance` goes through the antipode): the candidate `4 − dist(−x, ab)` is within
    `allowedError(−x, a, b) + 5u` of the true maximum over the arc (the `5u` covers the rounding of the subtraction). -/
theorem maxCandidate_far_bound {x a b : V3} (hx : UnitPt x) (ha : UnitPt a) (hb : UnitPt b) (hE : EdgeOK a b)
    (hM : WedgeMargin (negV x) a b) (hbr : beyondRightAngle x a b = true) :
    Fin (maxCandidate x a b) ∧
    |val (maxCandidate x a b) - trueMaxDist2 x a b| ≤ allowedError (negV x) a b + 5 * uR := by
  have hnx : UnitPt (negV x) := unitWithin_negV hx
  rw [maxCandidate_antipode_chord x a b hbr]
  show Fin (f4 - distanceFromSegmentChord (negV x) a b) ∧
    |val (f4 - distanceFromSegmentChord (negV x) a b) - trueMaxDist2 x a b| ≤ _
  set d := distanceFromSegmentChord (negV x) a b with hd
  have herr := distanceWithinMaxError_of_margin (negV x) a b hnx ha hb hE hM
  rw [← hd, fval_eq_val] at herr
  obtain ⟨al0, al1⟩ := allowedError_small hnx ha hb hE
  have hfd : Fin d := by
    by_cases hb' : interiorBranch (negV x) a b = true
    · exact (interior_case_within_documented (negV x) a b hnx ha hb hE hb').1
    · have hb'' : interiorBranch (negV x) a b = false := by cases h : interiorBranch (negV x) a b <;> simp_all
      exact (vertex_case_within_maxPointError (negV x) a b hnx ha hb hb'').1
  -- the true distance from the antipode lies in [0, 4]
  have hT : 0 ≤ trueDist2 (negV x) a b ∧ trueDist2 (negV x) a b ≤ 4 := by
    obtain ⟨P, hP, e⟩ := trueDist2_attained hnx.len_pos ha.len_pos hb.len_pos (x := negV x) (a := a) (b := b)
    rw [← e]
    have hP1 : P.n2 = 1 := hP.choose_spec.choose_spec.2.2.2
    have hcs := abs_dot_le (vecR (negV x)) P
    rw [len_eq_one hP1, mul_one, vecR_len] at hcs
    obtain ⟨c1, c2⟩ := abs_le.mp hcs
    unfold dirChordP
    have hl := hnx.len_pos
    have q1 : (vecR (negV x)).dot P / len (negV x) ≤ 1 := by rw [div_le_one hl]; exact c2
    have q2 : -1 ≤ (vecR (negV x)).dot P / len (negV x) := by rw [le_div_iff₀ hl]; linarith
    constructor <;> linarith
  obtain ⟨f4f, f4v⟩ := f4_facts
  obtain ⟨e1, e2⟩ := abs_le.mp herr
  have hu : uR ≤ 1 / 2 ^ 53 := by unfold uR; exact le_refl _
  have hu0 := uR_nonneg
  have hdv : -1 ≤ val d ∧ val d ≤ 5 := by
    have : 200 * uR ≤ 1 := by unfold uR; norm_num
    constructor <;> linarith [hT.1, hT.2]
  have hM' : |val f4 - val d| ≤ 8 := by
    rw [f4v, abs_le]; constructor <;> linarith [hdv.1, hdv.2]
  obtain ⟨fs, rs, _⟩ := sub_step stdModel f4f hfd hM' (by norm_num)
  refine ⟨fs, ?_⟩
  unfold Rnd at rs
  rw [add_zero, f4v] at rs
  unfold trueMaxDist2
  have h5 : |(4 : ℝ) - val d| ≤ 5 := by rw [abs_le]; constructor <;> linarith [hdv.1, hdv.2]
  have h6 : uR * |(4 : ℝ) - val d| ≤ uR * 5 := mul_le_mul_of_nonneg_left h5 hu0
  obtain ⟨r1, r2⟩ := abs_le.mp rs
  rw [abs_le]
  constructor <;> linarith

end S2Proofs.C17Pairs
