/-
  C17Pairs.MaxPair — `updateEdgePairMaxDistance` through the antipode rule (package c17pairs2).

  Exact:   negating x  ⇔  negating the edge:  trueDist2 (−x) a b = trueDist2 x (−a) (−b)
           pairMax4 (the largest of the four `trueMaxDist2`) = 4 − pairMin4 a0 a1 (−b0) (−b1)
           truePairMaxDist2 := 4 − truePairDist2 a0 a1 (−b0) (−b1) IS the maximum of chord² over arc A × arc B
  Float:   the chain of four `UpdateMaxDistance` returns max(old, four candidates); each candidate is within `maxSlack` of its
           `trueMaxDist2` outside the one-ulp class of c17pairs (`maxDistanceWithinBound_partial`)
-/
import S2Proofs.C17Pairs.TouchLink
import S2Proofs.Properties.C17_PairsFloat

set_option linter.unusedSimpArgs false
set_option linter.unusedVariables false

namespace S2Proofs.C17Pairs
open S2 S2.Exact S2.EdgeNum S2Proofs.F64Order S2Proofs.FloatErr S2Proofs.C17Err S2Proofs.C17Err.R3 S2Proofs.C17

/-! ### negation in ℝ³ -/

def negR (Q : R3) : R3 := ⟨-Q.x, -Q.y, -Q.z⟩

theorem negR_negR (Q : R3) : negR (negR Q) = Q := by
  unfold negR; apply r3_ext <;> simp

theorem negR_n2 (Q : R3) : (negR Q).n2 = Q.n2 := by unfold negR R3.n2 R3.dot; ring

theorem negR_len (Q : R3) : (negR Q).len = Q.len := by unfold R3.len; rw [negR_n2]

theorem onArc_negR {a b Q : R3} (h : OnArc a b Q) : OnArc (negR a) (negR b) (negR Q) := by
  obtain ⟨s, t, hs, ht, hQ, h1⟩ := h
  refine ⟨s, t, hs, ht, ?_, by rw [negR_n2]; exact h1⟩
  rw [hQ]; unfold negR comb; simp only [R3.mk.injEq]
  refine ⟨by ring, by ring, by ring⟩

theorem vecR_negV {x : V3} (hx : Fin3 x) : vecR (negV x) = negR (vecR x) := by
  obtain ⟨_, v1, v2, v3⟩ := negV_facts hx
  unfold vecR negR; simp only [R3.mk.injEq]
  exact ⟨v1, v2, v3⟩

theorem chordPQ_negR (P Q : R3) : chordPQ P (negR Q) = 4 - chordPQ P Q := by
  unfold chordPQ negR R3.dot; ring

theorem notAntipodal_negR {a b : R3} (h : NotAntipodal a b) : NotAntipodal (negR a) (negR b) := by
  unfold NotAntipodal at h ⊢
  have e1 : ((negR a).cross (negR b)).n2 = (a.cross b).n2 := by unfold negR R3.n2 R3.dot R3.cross; ring
  have e2 : (negR a).dot (negR b) = a.dot b := by unfold negR R3.dot; ring
  rw [e1, e2]; exact h

/-! ### the point-to-arc distance under negation -/

theorem inWedge_neg {x a b : V3} (hx : Fin3 x) (ha : Fin3 a) (hb : Fin3 b) :
    InWedge (negV x) a b ↔ InWedge x (negV a) (negV b) := by
  unfold InWedge InWedgeR
  rw [vecR_negV hx, vecR_negV ha, vecR_negV hb]
  have e1 : (negR (vecR x)).dot (((vecR a).cross (vecR b)).cross (vecR a))
      = (vecR x).dot (((negR (vecR a)).cross (negR (vecR b))).cross (negR (vecR a))) := by
    unfold negR R3.dot R3.cross; ring
  have e2 : (negR (vecR x)).dot (((vecR a).cross (vecR b)).cross (vecR b))
      = (vecR x).dot (((negR (vecR a)).cross (negR (vecR b))).cross (negR (vecR b))) := by
    unfold negR R3.dot R3.cross; ring
  rw [e1, e2]

theorem gcDist2_neg {x a b : V3} (hx : Fin3 x) (ha : Fin3 a) (hb : Fin3 b) :
    gcDist2 (negV x) a b = gcDist2 x (negV a) (negV b) := by
  unfold gcDist2
  rw [vecR_negV hx, vecR_negV ha, vecR_negV hb, len_negV hx]
  have e1 : (negR (vecR a)).cross (negR (vecR b)) = (vecR a).cross (vecR b) := by
    unfold negR R3.cross; apply r3_ext <;> (simp only; ring)
  have e2 : (((vecR a).cross (vecR b)).cross (negR (vecR x))).len = (((vecR a).cross (vecR b)).cross (vecR x)).len := by
    unfold R3.len
    congr 1
    unfold negR R3.n2 R3.dot R3.cross; ring
  rw [e1, e2]

theorem dirChord2_negV_right {x : V3} (a : V3) (ha : Fin3 a) : dirChord2 x (negV a) = 4 - dirChord2 x a := by
  rw [dirChord2_comm, dirChord2_negV ha, dirChord2_comm]

/-- **negating the point ⇔ negating the edge** -/
theorem trueDist2_neg {x a b : V3} (hx : Fin3 x) (ha : Fin3 a) (hb : Fin3 b) :
    trueDist2 (negV x) a b = trueDist2 x (negV a) (negV b) := by
  unfold trueDist2
  by_cases hw : InWedge (negV x) a b
  · rw [if_pos hw, if_pos ((inWedge_neg hx ha hb).mp hw), gcDist2_neg hx ha hb]
  · rw [if_neg hw, if_neg (fun h => hw ((inWedge_neg hx ha hb).mpr h)),
      dirChord2_negV hx, dirChord2_negV hx, dirChord2_negV_right a ha, dirChord2_negV_right b hb]

/-! ### the exact maximum over a pair of arcs -/

/-- the largest of the four endpoint-to-arc MAXIMUM distances -/
noncomputable def pairMax4 (a0 a1 b0 b1 : V3) : ℝ :=
  max (max (trueMaxDist2 a0 b0 b1) (trueMaxDist2 a1 b0 b1)) (max (trueMaxDist2 b0 a0 a1) (trueMaxDist2 b1 a0 a1))

theorem pairMax4_eq {a0 a1 b0 b1 : V3} (ha0 : Fin3 a0) (ha1 : Fin3 a1) (hb0 : Fin3 b0) (hb1 : Fin3 b1) :
    pairMax4 a0 a1 b0 b1 = 4 - pairMin4 a0 a1 (negV b0) (negV b1) := by
  unfold pairMax4 pairMin4 trueMaxDist2
  rw [trueDist2_neg ha0 hb0 hb1, trueDist2_neg ha1 hb0 hb1, max_sub_sub_left, max_sub_sub_left, max_sub_sub_left]

/-- **the exact maximum squared chord distance between two arcs**: `4 −` the minimum distance between arc A and the
    antipodal image of arc B -/
noncomputable def truePairMaxDist2 (a0 a1 b0 b1 : V3) : ℝ := 4 - truePairDist2 a0 a1 (negV b0) (negV b1)

theorem truePairMaxDist2_is_max {a0 a1 b0 b1 : V3} (ha0 : UnitPt a0) (ha1 : UnitPt a1) (hb0 : UnitPt b0) (hb1 : UnitPt b1)
    (hB : NotAntipodal (vecR b0) (vecR b1)) :
    (∀ P Q, OnArc (vecR a0) (vecR a1) P → OnArc (vecR b0) (vecR b1) Q → chordPQ P Q ≤ truePairMaxDist2 a0 a1 b0 b1) ∧
    (∃ P Q, OnArc (vecR a0) (vecR a1) P ∧ OnArc (vecR b0) (vecR b1) Q ∧ chordPQ P Q = truePairMaxDist2 a0 a1 b0 b1) := by
  have hn0 : UnitPt (negV b0) := unitWithin_negV hb0
  have hn1 : UnitPt (negV b1) := unitWithin_negV hb1
  have hB' : NotAntipodal (vecR (negV b0)) (vecR (negV b1)) := by
    rw [vecR_negV hb0.1, vecR_negV hb1.1]; exact notAntipodal_negR hB
  obtain ⟨hlow, P, Q, hP, hQ, e⟩ := truePairDist2_min ha0.len_pos ha1.len_pos hn0.len_pos hn1.len_pos hB'
  unfold truePairMaxDist2
  constructor
  · intro P Q hP hQ
    have hQ' : OnArc (vecR (negV b0)) (vecR (negV b1)) (negR Q) := by
      rw [vecR_negV hb0.1, vecR_negV hb1.1]; exact onArc_negR hQ
    have := hlow P (negR Q) hP hQ'
    rw [chordPQ_negR] at this
    linarith
  · refine ⟨P, negR Q, hP, ?_, ?_⟩
    · rw [vecR_negV hb0.1, vecR_negV hb1.1] at hQ
      have := onArc_negR hQ
      rw [negR_negR, negR_negR] at this
      exact this
    · rw [chordPQ_negR, e]

/-! ### the float chain -/

theorem edgePairMax_four_threshold (a0 a1 b0 b1 : V3) (m : F64) (h : F64.feq m f4 = true) :
    updateEdgePairMaxDistance a0 a1 b0 b1 m = (f4, false) := by
  unfold updateEdgePairMaxDistance; simp [h]

theorem edgePairMax_crossing (a0 a1 b0 b1 : V3) (m : F64) (h : F64.feq m f4 = false)
    (hc : crosses a0 a1 (negV b0) (negV b1) = true) : updateEdgePairMaxDistance a0 a1 b0 b1 m = (f4, true) := by
  unfold negV at hc
  unfold updateEdgePairMaxDistance; simp [h, hc]

theorem edgePairMax_no_crossing (a0 a1 b0 b1 : V3) (m : F64) (h : F64.feq m f4 = false)
    (hc : crosses a0 a1 (negV b0) (negV b1) = false) :
    updateEdgePairMaxDistance a0 a1 b0 b1 m =
      let r1 := updateMaxDistance a0 b0 b1 m
      let r2 := updateMaxDistance a1 b0 b1 r1.1
      let r3 := updateMaxDistance b0 a0 a1 r2.1
      let r4 := updateMaxDistance b1 a0 a1 r3.1
      (r4.1, r1.2 || r2.2 || r3.2 || r4.2) := by
  unfold negV at hc
  unfold updateEdgePairMaxDistance; simp [h, hc]

/-- one step: finite, and the value is the larger of the old value and the candidate -/
theorem maxStep {x a b : V3} {m : F64} (hm : Fin m) (hc : Fin (maxCandidate x a b)) :
    Fin (updateMaxDistance x a b m).1 ∧
    val (updateMaxDistance x a b m).1 = max (val m) (val (maxCandidate x a b)) := by
  have hv := updateMaxDistance_value x a b m hm hc
  rw [fval_eq_val, fval_eq_val, fval_eq_val] at hv
  refine ⟨?_, hv⟩
  rw [updateMaxDistance_eq]
  split_ifs
  · exact hc
  · exact hm

/-- the hypotheses of `maxDistanceWithinBound_partial` for one call -/
structure MaxCallOK (x a b : V3) : Prop where
  hx : UnitPt x
  ha : UnitPt a
  hb : UnitPt b
  hE : EdgeOK a b
  hM : WedgeMargin (negV x) a b
  hcls : ¬ (beyondRightAngle x a b = false ∧ 2 < maxEndpointTrue x a b)

/-- the slack of one call -/
noncomputable def maxSlack (x a b : V3) : ℝ :=
  max (allowedError (negV x) a b + 5 * uR) (val (maxPointError (maxCandidate x a b)))

theorem maxCall_bound {x a b : V3} (h : MaxCallOK x a b) :
    Fin (maxCandidate x a b) ∧ |val (maxCandidate x a b) - trueMaxDist2 x a b| ≤ maxSlack x a b := by
  obtain ⟨hx, ha, hb, hE, hM, hcls⟩ := h
  have hb' := maxDistanceWithinBound_partial x a b hx ha hb hE hM hcls
  rw [fval_eq_val, fval_eq_val] at hb'
  refine ⟨?_, hb'⟩
  cases hbr : beyondRightAngle x a b
  · have hac : maxEndpointTrue x a b ≤ 2 := by
      by_contra hc
      exact hcls ⟨hbr, not_le.mp hc⟩
    exact (maxCandidate_near_bound hx ha hb hbr hac).1
  · exact (maxCandidate_far_bound hx ha hb hE hM hbr).1

noncomputable def pairMaxSlack (a0 a1 b0 b1 : V3) : ℝ :=
  max (max (maxSlack a0 b0 b1) (maxSlack a1 b0 b1)) (max (maxSlack b0 a0 a1) (maxSlack b1 a0 a1))

theorem max5_core {m c1 c2 c3 c4 T1 T2 T3 T4 S : ℝ} (h1 : |c1 - T1| ≤ S) (h2 : |c2 - T2| ≤ S) (h3 : |c3 - T3| ≤ S)
    (h4 : |c4 - T4| ≤ S) :
    |max (max (max (max m c1) c2) c3) c4 - max m (max (max T1 T2) (max T3 T4))| ≤ S := by
  obtain ⟨l1, u1⟩ := abs_le.mp h1
  obtain ⟨l2, u2⟩ := abs_le.mp h2
  obtain ⟨l3, u3⟩ := abs_le.mp h3
  obtain ⟨l4, u4⟩ := abs_le.mp h4
  have hS : 0 ≤ S := le_trans (abs_nonneg _) h1
  set R := max (max (max (max m c1) c2) c3) c4 with hR
  set T := max m (max (max T1 T2) (max T3 T4)) with hT
  have r0 : m ≤ R := le_trans (le_trans (le_trans (le_max_left _ _) (le_max_left _ _)) (le_max_left _ _)) (le_max_left _ _)
  have r1 : c1 ≤ R := le_trans (le_trans (le_trans (le_max_right _ _) (le_max_left _ _)) (le_max_left _ _)) (le_max_left _ _)
  have r2 : c2 ≤ R := le_trans (le_trans (le_max_right _ _) (le_max_left _ _)) (le_max_left _ _)
  have r3 : c3 ≤ R := le_trans (le_max_right _ _) (le_max_left _ _)
  have r4 : c4 ≤ R := le_max_right _ _
  have t0 : m ≤ T := le_max_left _ _
  have t1 : T1 ≤ T := le_trans (le_trans (le_max_left _ _) (le_max_left _ _)) (le_max_right _ _)
  have t2 : T2 ≤ T := le_trans (le_trans (le_max_right _ _) (le_max_left _ _)) (le_max_right _ _)
  have t3 : T3 ≤ T := le_trans (le_trans (le_max_left _ _) (le_max_right _ _)) (le_max_right _ _)
  have t4 : T4 ≤ T := le_trans (le_trans (le_max_right _ _) (le_max_right _ _)) (le_max_right _ _)
  rw [abs_le]
  constructor
  · have : T ≤ R + S := by
      rw [hT]
      refine max_le (by linarith) (max_le (max_le (by linarith) (by linarith)) (max_le (by linarith) (by linarith)))
    linarith
  · have : R ≤ T + S := by
      rw [hR]
      refine max_le (max_le (max_le (max_le (by linarith) (by linarith)) (by linarith)) (by linarith)) (by linarith)
    linarith

/-- **the chain of four `UpdateMaxDistance`** (non-crossing case of `updateEdgePairMaxDistance`, finite threshold ≠ 4) -/
theorem maxChain_bound {a0 a1 b0 b1 : V3} (h1 : MaxCallOK a0 b0 b1) (h2 : MaxCallOK a1 b0 b1) (h3 : MaxCallOK b0 a0 a1)
    (h4 : MaxCallOK b1 a0 a1) {m : F64} (hm : Fin m) (hz : F64.feq m f4 = false)
    (hc : crosses a0 a1 (negV b0) (negV b1) = false) :
    Fin (updateEdgePairMaxDistance a0 a1 b0 b1 m).1 ∧
    val m ≤ val (updateEdgePairMaxDistance a0 a1 b0 b1 m).1 ∧
    |val (updateEdgePairMaxDistance a0 a1 b0 b1 m).1 - max (val m) (pairMax4 a0 a1 b0 b1)| ≤ pairMaxSlack a0 a1 b0 b1 := by
  rw [edgePairMax_no_crossing a0 a1 b0 b1 m hz hc]
  simp only
  obtain ⟨fc1, e1⟩ := maxCall_bound h1
  obtain ⟨fc2, e2⟩ := maxCall_bound h2
  obtain ⟨fc3, e3⟩ := maxCall_bound h3
  obtain ⟨fc4, e4⟩ := maxCall_bound h4
  obtain ⟨f1, v1⟩ := maxStep (x := a0) (a := b0) (b := b1) hm fc1
  obtain ⟨f2, v2⟩ := maxStep (x := a1) (a := b0) (b := b1) f1 fc2
  obtain ⟨f3, v3⟩ := maxStep (x := b0) (a := a0) (b := a1) f2 fc3
  obtain ⟨f4', v4⟩ := maxStep (x := b1) (a := a0) (b := a1) f3 fc4
  rw [v4, v3, v2, v1]
  have s1 : maxSlack a0 b0 b1 ≤ pairMaxSlack a0 a1 b0 b1 := le_trans (le_max_left _ _) (le_max_left _ _)
  have s2 : maxSlack a1 b0 b1 ≤ pairMaxSlack a0 a1 b0 b1 := le_trans (le_max_right _ _) (le_max_left _ _)
  have s3 : maxSlack b0 a0 a1 ≤ pairMaxSlack a0 a1 b0 b1 := le_trans (le_max_left _ _) (le_max_right _ _)
  have s4 : maxSlack b1 a0 a1 ≤ pairMaxSlack a0 a1 b0 b1 := le_trans (le_max_right _ _) (le_max_right _ _)
  refine ⟨f4', ?_, ?_⟩
  · exact le_trans (le_trans (le_trans (le_max_left _ _) (le_max_left _ _)) (le_max_left _ _)) (le_max_left _ _)
  · unfold pairMax4
    exact max5_core (le_trans e1 s1) (le_trans e2 s2) (le_trans e3 s3) (le_trans e4 s4)

/-- `CrossingSign(a0,a1,−b0,−b1) ≠ Cross` ⇒ the exact maximum is the largest of the four endpoint maxima -/
theorem noncrossing_max_eq {a0 a1 b0 b1 : V3} (ha0 : UnitPt a0) (ha1 : UnitPt a1) (hb0 : UnitPt b0) (hb1 : UnitPt b1)
    (hc : crosses a0 a1 (negV b0) (negV b1) = false) : truePairMaxDist2 a0 a1 b0 b1 = pairMax4 a0 a1 b0 b1 := by
  unfold truePairMaxDist2
  rw [noncrossing_true_eq ha0 ha1 (unitWithin_negV hb0) (unitWithin_negV hb1) hc, pairMax4_eq ha0.1 ha1.1 hb0.1 hb1.1]

/-- `CrossingSign(a0,a1,−b0,−b1) == Cross` with four non-vanishing determinants: some point of arc A is antipodal to a
    point of arc B, the exact maximum is 4 and the code returns exactly `(4, true)` -/
theorem crossing_max {a0 a1 b0 b1 : V3} (ha0 : UnitPt a0) (ha1 : UnitPt a1) (hb0 : UnitPt b0) (hb1 : UnitPt b1)
    (hg : GenericPair a0 a1 (negV b0) (negV b1)) {m : F64} (hz : F64.feq m f4 = false)
    (hc : crosses a0 a1 (negV b0) (negV b1) = true) :
    updateEdgePairMaxDistance a0 a1 b0 b1 m = (f4, true) ∧ val f4 = 4 ∧ truePairMaxDist2 a0 a1 b0 b1 = 4 := by
  refine ⟨edgePairMax_crossing a0 a1 b0 b1 m hz hc, f4_facts.2, ?_⟩
  have hp := crosses_proper (unitish_of_unitPt ha0) (unitish_of_unitPt ha1) (unitish_of_unitPt (unitWithin_negV hb0))
    (unitish_of_unitPt (unitWithin_negV hb1)) hg hc
  have := (properCross_zero a0 a1 (negV b0) (negV b1) (properCross_of_int hp)).2
  unfold truePairMaxDist2
  rw [this]; ring

end S2Proofs.C17Pairs
