/-
  C17Pairs.MaxDist — the maximum distance from a point to an arc, through the antipode (exact geometry):

      negV x               = x·(−1), exactly the negated vector (float negation is exact)
      trueMaxDist2 x a b   = 4 − trueDist2 (−x) a b
      trueMaxDist2_is_max  it IS the maximum of the squared chord from the direction of x over the arc
      trueMaxDist2_of_acute  if x is within 90° of BOTH endpoints the maximum is the larger endpoint chord
-/
import S2Proofs.C17Pairs.PairDist
import S2Proofs.C16Acc.Bridge

set_option linter.unusedSimpArgs false
set_option linter.unusedVariables false

namespace S2Proofs.C17Pairs
open S2 S2.Exact S2.EdgeNum S2Proofs.F64Order S2Proofs.FloatErr S2Proofs.C17Err S2Proofs.C17Err.R3

/-- the antipode as the code forms it: `Point{x.Mul(-1)}` -/
def negV (x : V3) : V3 := x.mul fNegOne

theorem negV_facts {x : V3} (hx : Fin3 x) :
    Fin3 (negV x) ∧ val (negV x).x = -val x.x ∧ val (negV x).y = -val x.y ∧ val (negV x).z = -val x.z := by
  obtain ⟨h1, h2, h3⟩ := hx
  obtain ⟨f1, v1⟩ := S2Proofs.C16Acc.mul_negOne h1
  obtain ⟨f2, v2⟩ := S2Proofs.C16Acc.mul_negOne h2
  obtain ⟨f3, v3⟩ := S2Proofs.C16Acc.mul_negOne h3
  exact ⟨⟨f1, f2, f3⟩, v1, v2, v3⟩

theorem n2_negV {x : V3} (hx : Fin3 x) : C17Err.n2 (negV x) = C17Err.n2 x := by
  obtain ⟨_, v1, v2, v3⟩ := negV_facts hx
  unfold C17Err.n2; rw [v1, v2, v3]; ring

theorem len_negV {x : V3} (hx : Fin3 x) : len (negV x) = len x := by
  unfold C17Err.len; rw [n2_negV hx]

theorem dotR_negV {x : V3} (hx : Fin3 x) (p : V3) : dotR (negV x) p = -dotR x p := by
  obtain ⟨_, v1, v2, v3⟩ := negV_facts hx
  unfold dotR; rw [v1, v2, v3]; ring

theorem vecR_negV_dot {x : V3} (hx : Fin3 x) (P : R3) : (vecR (negV x)).dot P = -((vecR x).dot P) := by
  obtain ⟨_, v1, v2, v3⟩ := negV_facts hx
  unfold vecR R3.dot; simp only; rw [v1, v2, v3]; ring

theorem unitWithin_negV {δ : ℝ} {x : V3} (hx : UnitWithin δ x) : UnitWithin δ (negV x) := by
  obtain ⟨hf, h1, h2⟩ := hx
  refine ⟨(negV_facts hf).1, ?_, ?_⟩
  · rw [n2_negV hf]; exact h1
  · rw [n2_negV hf]; exact h2

/-- chord to the antipode: `chord²(−X, A) = 4 − chord²(X, A)` -/
theorem dirChord2_negV {x : V3} (hx : Fin3 x) (a : V3) : dirChord2 (negV x) a = 4 - dirChord2 x a := by
  unfold dirChord2; rw [dotR_negV hx, len_negV hx]; ring

theorem dirChordP_negV {x : V3} (hx : Fin3 x) (P : R3) : dirChordP (negV x) P = 4 - dirChordP x P := by
  unfold dirChordP; rw [vecR_negV_dot hx, len_negV hx]; ring

/-- **the exact maximum squared chord distance from the direction of `x` to the arc `ab`** -/
noncomputable def trueMaxDist2 (x a b : V3) : ℝ := 4 - trueDist2 (negV x) a b

/-- **`trueMaxDist2` is the maximum of the squared chord over the arc** (the antipode rule, exactly) -/
theorem trueMaxDist2_is_max {x a b : V3} (hf : Fin3 x) (hx : 0 < len x) (ha : 0 < len a) (hb : 0 < len b) :
    (∀ P, OnArc (vecR a) (vecR b) P → dirChordP x P ≤ trueMaxDist2 x a b) ∧
    (∃ P, OnArc (vecR a) (vecR b) P ∧ dirChordP x P = trueMaxDist2 x a b) := by
  have hx' : 0 < len (negV x) := by rw [len_negV hf]; exact hx
  unfold trueMaxDist2
  constructor
  · intro P hP
    have h := trueDist2_le hx' ha hb hP
    rw [dirChordP_negV hf] at h
    linarith
  · obtain ⟨P, hP, e⟩ := trueDist2_attained hx' ha hb (x := negV x) (a := a) (b := b)
    refine ⟨P, hP, ?_⟩
    rw [dirChordP_negV hf] at e
    linarith

/-- a point within 90° of both endpoints is at least as near to every arc point as to the farther endpoint -/
theorem acute_arc {x a b P : R3} (ha : 0 < a.len) (hb : 0 < b.len) (hP : OnArc a b P)
    (h0 : 0 ≤ x.dot a) (h1 : 0 ≤ x.dot b) : min (x.dot a / a.len) (x.dot b / b.len) ≤ x.dot P := by
  obtain ⟨s, t, hs, ht, rfl, hn⟩ := hP
  rw [dot_comb]
  have htri := comb_len_le hs ht a b
  rw [len_eq_one hn] at htri
  set m := min (x.dot a / a.len) (x.dot b / b.len) with hm
  have hm0 : 0 ≤ m := le_min (div_nonneg h0 ha.le) (div_nonneg h1 hb.le)
  have e0 : m * a.len ≤ x.dot a := by
    have : m ≤ x.dot a / a.len := min_le_left _ _
    rwa [le_div_iff₀ ha] at this
  have e1 : m * b.len ≤ x.dot b := by
    have : m ≤ x.dot b / b.len := min_le_right _ _
    rwa [le_div_iff₀ hb] at this
  have g0 : s * (m * a.len) ≤ s * x.dot a := mul_le_mul_of_nonneg_left e0 hs
  have g1 : t * (m * b.len) ≤ t * x.dot b := mul_le_mul_of_nonneg_left e1 ht
  have g2 : m * 1 ≤ m * (s * a.len + t * b.len) := mul_le_mul_of_nonneg_left htri hm0
  nlinarith

/-- **within 90° of both endpoints the maximum is the larger endpoint chord** -/
theorem trueMaxDist2_of_acute {x a b : V3} (hf : Fin3 x) (hx : 0 < len x) (ha : 0 < len a) (hb : 0 < len b)
    (h0 : dirChord2 x a ≤ 2) (h1 : dirChord2 x b ≤ 2) :
    trueMaxDist2 x a b = max (dirChord2 x a) (dirChord2 x b) := by
  have hx' : 0 < len (negV x) := by rw [len_negV hf]; exact hx
  apply le_antisymm
  · -- every arc point is at most as far as the farther endpoint
    obtain ⟨P, hP, e⟩ := (trueMaxDist2_is_max (x := x) (a := a) (b := b) hf hx ha hb).2
    rw [← e]
    have hd0 : 0 ≤ dotR x a := by
      unfold dirChord2 at h0
      have : 0 ≤ 2 * dotR x a / (len x * len a) := by linarith
      have hp : 0 < len x * len a := mul_pos hx ha
      have := (div_nonneg_iff.mp this)
      rcases this with ⟨h, _⟩ | ⟨_, h⟩
      · linarith
      · linarith
    have hd1 : 0 ≤ dotR x b := by
      unfold dirChord2 at h1
      have : 0 ≤ 2 * dotR x b / (len x * len b) := by linarith
      have hp : 0 < len x * len b := mul_pos hx hb
      have := (div_nonneg_iff.mp this)
      rcases this with ⟨h, _⟩ | ⟨_, h⟩
      · linarith
      · linarith
    have hac := acute_arc (x := vecR x) (show 0 < (vecR a).len from ha) (show 0 < (vecR b).len from hb) hP hd0 hd1
    unfold dirChordP
    have e2 : ∀ p : V3, dirChord2 x p = 2 - 2 * ((vecR x).dot (vecR p) / (vecR p).len / len x) := by
      intro p; unfold dirChord2; rw [vecR_dot, vecR_len]; ring_nf
    rw [e2 a, e2 b]
    have hdiv : min ((vecR x).dot (vecR a) / (vecR a).len) ((vecR x).dot (vecR b) / (vecR b).len) / len x
        ≤ (vecR x).dot P / len x := div_le_div_of_nonneg_right hac hx.le
    rcases le_total ((vecR x).dot (vecR a) / (vecR a).len) ((vecR x).dot (vecR b) / (vecR b).len) with h | h
    · rw [min_eq_left h] at hdiv
      exact le_trans (by linarith) (le_max_left _ _)
    · rw [min_eq_right h] at hdiv
      exact le_trans (by linarith) (le_max_right _ _)
  · have h := trueDist2_le_endpoints hx' ha hb (x := negV x) (a := a) (b := b)
    rw [dirChord2_negV hf, dirChord2_negV hf] at h
    unfold trueMaxDist2
    have ha' := le_trans h (min_le_left _ _)
    have hb' := le_trans h (min_le_right _ _)
    exact max_le (by linarith) (by linarith)

end S2Proofs.C17Pairs
