/-
  C17Pairs.PairDist — the exact squared chord distance between two great-circle arcs given by float endpoints:

      pairMin4 a0 a1 b0 b1   = the least of the four point-to-arc distances `trueDist2` (c17err's closed form)
      ArcsMeet a0 a1 b0 b1   = the two arcs have a common point
      truePairDist2          = 0 if the arcs meet, else pairMin4

      pairMin4_le            ∀ P on arc A, Q on arc B :  the arcs meet  ∨  pairMin4 ≤ chord²(P, Q)
      pairMin4_attained      ∃ P on A, Q on B : chord²(P, Q) = pairMin4
      proper_cross_meets     opposite-side + orientation conditions on the four determinants ⇒ the arcs meet
-/
import S2Proofs.C17Pairs.PairCore
import S2Proofs.C17Err.TrueDist

set_option linter.unusedSimpArgs false
set_option linter.unusedVariables false

namespace S2Proofs.C17Pairs
open S2 S2.Exact S2Proofs.F64Order S2Proofs.FloatErr S2Proofs.C17Err S2Proofs.C17Err.R3

/-- squared chord between two unit vectors -/
def chordPQ (P Q : R3) : ℝ := 2 - 2 * P.dot Q

theorem chordPQ_nonneg {P Q : R3} (hP : P.n2 = 1) (hQ : Q.n2 = 1) : 0 ≤ chordPQ P Q := by
  unfold chordPQ
  have h := cs P Q
  rw [hP, hQ] at h
  nlinarith

theorem chordPQ_self {P : R3} (hP : P.n2 = 1) : chordPQ P P = 0 := by
  unfold chordPQ; have : P.dot P = 1 := hP; rw [this]; ring

/-- **the least of the four endpoint-to-arc distances** -/
noncomputable def pairMin4 (a0 a1 b0 b1 : V3) : ℝ :=
  min (min (trueDist2 a0 b0 b1) (trueDist2 a1 b0 b1)) (min (trueDist2 b0 a0 a1) (trueDist2 b1 a0 a1))

/-- the two arcs have a common point -/
def ArcsMeet (a0 a1 b0 b1 : V3) : Prop := ArcsMeetR (vecR a0) (vecR a1) (vecR b0) (vecR b1)

open Classical in
/-- **the exact squared chord distance between the arcs** -/
noncomputable def truePairDist2 (a0 a1 b0 b1 : V3) : ℝ :=
  if ArcsMeet a0 a1 b0 b1 then 0 else pairMin4 a0 a1 b0 b1

theorem vecR_len' (p : V3) : (vecR p).len = len p := rfl

/-- every point of the other arc is at least `trueDist2` away from an endpoint: the cosine form -/
theorem endpoint_cos {x a b : V3} (hx : 0 < len x) (ha : 0 < len a) (hb : 0 < len b) {P : R3}
    (hP : OnArc (vecR a) (vecR b) P) : (vecR x).dot P ≤ (1 - trueDist2 x a b / 2) * (vecR x).len := by
  have h := trueDist2_le hx ha hb hP
  unfold dirChordP at h
  rw [vecR_len']
  have : (vecR x).dot P / len x ≤ 1 - trueDist2 x a b / 2 := by linarith
  rwa [div_le_iff₀ hx] at this

/-- **lower bound**: two arc points are never nearer than the nearest endpoint-to-arc distance, unless the arcs meet -/
theorem pairMin4_le {a0 a1 b0 b1 : V3} (ha0 : 0 < len a0) (ha1 : 0 < len a1) (hb0 : 0 < len b0) (hb1 : 0 < len b1)
    (hB : NotAntipodal (vecR b0) (vecR b1))
    {P Q : R3} (hP : OnArc (vecR a0) (vecR a1) P) (hQ : OnArc (vecR b0) (vecR b1) Q) :
    ArcsMeet a0 a1 b0 b1 ∨ pairMin4 a0 a1 b0 b1 ≤ chordPQ P Q := by
  set c := 1 - pairMin4 a0 a1 b0 b1 / 2 with hc
  have m1 : pairMin4 a0 a1 b0 b1 ≤ trueDist2 a0 b0 b1 := le_trans (min_le_left _ _) (min_le_left _ _)
  have m2 : pairMin4 a0 a1 b0 b1 ≤ trueDist2 a1 b0 b1 := le_trans (min_le_left _ _) (min_le_right _ _)
  have m3 : pairMin4 a0 a1 b0 b1 ≤ trueDist2 b0 a0 a1 := le_trans (min_le_right _ _) (min_le_left _ _)
  have m4 : pairMin4 a0 a1 b0 b1 ≤ trueDist2 b1 a0 a1 := le_trans (min_le_right _ _) (min_le_right _ _)
  have key : ∀ {x a b : V3}, 0 < len x → 0 < len a → 0 < len b → pairMin4 a0 a1 b0 b1 ≤ trueDist2 x a b →
      ∀ P, OnArc (vecR a) (vecR b) P → (vecR x).dot P ≤ c * (vecR x).len := by
    intro x a b hx ha hb hm P hP
    have h := endpoint_cos hx ha hb hP
    have h2 : (1 - trueDist2 x a b / 2) * (vecR x).len ≤ c * (vecR x).len :=
      mul_le_mul_of_nonneg_right (by rw [hc]; linarith) (R3.len_nonneg _)
    linarith
  rcases pair_core (c := c) (show 0 < (vecR a0).len from ha0) (show 0 < (vecR a1).len from ha1)
      (show 0 < (vecR b0).len from hb0) (show 0 < (vecR b1).len from hb1) hB hP hQ (key ha0 hb0 hb1 m1) (key ha1 hb0 hb1 m2)
      (key hb0 ha0 ha1 m3) (key hb1 ha0 ha1 m4) with h | h
  · exact Or.inl h
  · right
    unfold chordPQ
    rw [hc] at h
    linarith

/-- the chord from an endpoint direction to an arc point, as `chordPQ` -/
theorem dirChordP_eq (x : V3) (hx : 0 < len x) (P : R3) :
    dirChordP x P = chordPQ (comb (1 / len x) (vecR x) 0 (vecR x)) P := by
  unfold dirChordP chordPQ
  have hne : len x ≠ 0 := hx.ne'
  have e : (comb (1 / len x) (vecR x) 0 (vecR x)).dot P = (vecR x).dot P / len x := by
    unfold comb R3.dot; simp only; field_simp; ring
  rw [e]

/-- **attained**: some pair of arc points realises `pairMin4` (one of them an endpoint) -/
theorem pairMin4_attained {a0 a1 b0 b1 : V3} (ha0 : 0 < len a0) (ha1 : 0 < len a1) (hb0 : 0 < len b0)
    (hb1 : 0 < len b1) :
    ∃ P Q, OnArc (vecR a0) (vecR a1) P ∧ OnArc (vecR b0) (vecR b1) Q ∧ chordPQ P Q = pairMin4 a0 a1 b0 b1 := by
  have symm : ∀ P Q : R3, chordPQ P Q = chordPQ Q P := by intro P Q; unfold chordPQ; rw [dot_comm]
  obtain ⟨P1, hP1, e1⟩ := trueDist2_attained ha0 hb0 hb1
  obtain ⟨P2, hP2, e2⟩ := trueDist2_attained ha1 hb0 hb1
  obtain ⟨P3, hP3, e3⟩ := trueDist2_attained hb0 ha0 ha1
  obtain ⟨P4, hP4, e4⟩ := trueDist2_attained hb1 ha0 ha1
  rw [dirChordP_eq a0 ha0] at e1
  rw [dirChordP_eq a1 ha1] at e2
  rw [dirChordP_eq b0 hb0, symm] at e3
  rw [dirChordP_eq b1 hb1, symm] at e4
  unfold pairMin4
  rcases le_total (min (trueDist2 a0 b0 b1) (trueDist2 a1 b0 b1)) (min (trueDist2 b0 a0 a1) (trueDist2 b1 a0 a1)) with h | h
  · rw [min_eq_left h]
    rcases le_total (trueDist2 a0 b0 b1) (trueDist2 a1 b0 b1) with g | g
    · rw [min_eq_left g]; exact ⟨_, P1, onArc_left a0 a1 ha0, hP1, e1⟩
    · rw [min_eq_right g]; exact ⟨_, P2, onArc_right a0 a1 ha1, hP2, e2⟩
  · rw [min_eq_right h]
    rcases le_total (trueDist2 b0 a0 a1) (trueDist2 b1 a0 a1) with g | g
    · rw [min_eq_left g]; exact ⟨P3, _, hP3, onArc_left b0 b1 hb0, e3⟩
    · rw [min_eq_right g]; exact ⟨P4, _, hP4, onArc_right b0 b1 hb1, e4⟩

/-- **`truePairDist2` is the minimum of the squared chord over the two arcs** -/
theorem truePairDist2_min {a0 a1 b0 b1 : V3} (ha0 : 0 < len a0) (ha1 : 0 < len a1) (hb0 : 0 < len b0)
    (hb1 : 0 < len b1) (hB : NotAntipodal (vecR b0) (vecR b1)) :
    (∀ P Q, OnArc (vecR a0) (vecR a1) P → OnArc (vecR b0) (vecR b1) Q → truePairDist2 a0 a1 b0 b1 ≤ chordPQ P Q) ∧
    (∃ P Q, OnArc (vecR a0) (vecR a1) P ∧ OnArc (vecR b0) (vecR b1) Q ∧ chordPQ P Q = truePairDist2 a0 a1 b0 b1) := by
  unfold truePairDist2
  split_ifs with hm
  · constructor
    · intro P Q hP hQ
      exact chordPQ_nonneg hP.choose_spec.choose_spec.2.2.2 hQ.choose_spec.choose_spec.2.2.2
    · obtain ⟨X, h1, h2⟩ := hm
      exact ⟨X, X, h1, h2, chordPQ_self h1.choose_spec.choose_spec.2.2.2⟩
  · constructor
    · intro P Q hP hQ
      rcases pairMin4_le ha0 ha1 hb0 hb1 hB hP hQ with h | h
      · exact absurd h hm
      · exact h
    · exact pairMin4_attained ha0 ha1 hb0 hb1

/-! ### proper crossing ⇒ the arcs meet -/

/-- the four determinants: `b0`, `b1` strictly on opposite sides of the plane of `A`; `a0`, `a1` strictly on opposite
    sides of the plane of `B`; and the orientation condition that excludes the antipodal crossing -/
def ProperCrossR (a0 a1 b0 b1 : R3) : Prop :=
  b0.dot (a0.cross a1) * b1.dot (a0.cross a1) < 0 ∧ a0.dot (b0.cross b1) * a1.dot (b0.cross b1) < 0 ∧
  0 < a0.dot (b0.cross b1) * b1.dot (a0.cross a1)

theorem proper_cross_meets {a0 a1 b0 b1 : R3} (h : ProperCrossR a0 a1 b0 b1) : ArcsMeetR a0 a1 b0 b1 := by
  obtain ⟨h1, h2, h3⟩ := h
  set p0 := b0.dot (a0.cross a1) with hp0
  set p1 := b1.dot (a0.cross a1) with hp1
  set q0 := a0.dot (b0.cross b1) with hq0
  set q1 := a1.dot (b0.cross b1) with hq1
  -- non-degeneracy
  have hnA : 0 < (a0.cross a1).n2 := by
    rcases (n2_nonneg (a0.cross a1)).lt_or_eq with h | h
    · exact h
    · exfalso
      have hx : (a0.cross a1).x = 0 ∧ (a0.cross a1).y = 0 ∧ (a0.cross a1).z = 0 := by
        unfold R3.n2 R3.dot at h
        have q1 := mul_self_nonneg (a0.cross a1).x
        have q2 := mul_self_nonneg (a0.cross a1).y
        have q3 := mul_self_nonneg (a0.cross a1).z
        refine ⟨mul_self_eq_zero.mp (by linarith), mul_self_eq_zero.mp (by linarith), mul_self_eq_zero.mp (by linarith)⟩
      have : p0 = 0 := by rw [hp0]; unfold R3.dot; rw [hx.1, hx.2.1, hx.2.2]; ring
      rw [this] at h1; simp at h1
  have ha0 : 0 < a0.n2 := by
    rcases (n2_nonneg a0).lt_or_eq with h | h
    · exact h
    · exfalso
      have hx : a0.x = 0 ∧ a0.y = 0 ∧ a0.z = 0 := by
        unfold R3.n2 R3.dot at h
        have q1 := mul_self_nonneg a0.x
        have q2 := mul_self_nonneg a0.y
        have q3 := mul_self_nonneg a0.z
        refine ⟨mul_self_eq_zero.mp (by linarith), mul_self_eq_zero.mp (by linarith), mul_self_eq_zero.mp (by linarith)⟩
      have : q0 = 0 := by rw [hq0]; unfold R3.dot; rw [hx.1, hx.2.1, hx.2.2]; ring
      rw [this] at h2; simp at h2
  have ha1 : 0 < a1.n2 := by
    rcases (n2_nonneg a1).lt_or_eq with h | h
    · exact h
    · exfalso
      have hx : a1.x = 0 ∧ a1.y = 0 ∧ a1.z = 0 := by
        unfold R3.n2 R3.dot at h
        have q1 := mul_self_nonneg a1.x
        have q2 := mul_self_nonneg a1.y
        have q3 := mul_self_nonneg a1.z
        refine ⟨mul_self_eq_zero.mp (by linarith), mul_self_eq_zero.mp (by linarith), mul_self_eq_zero.mp (by linarith)⟩
      have : q1 = 0 := by rw [hq1]; unfold R3.dot; rw [hx.1, hx.2.1, hx.2.2]; ring
      rw [this] at h2; simp at h2
  -- the vector identity  (a0×a1)×(b0×b1)
  have idx : ∀ k : ℝ, (comb (k * -q1) a0 (k * q0) a1) = (comb (k * p1) b0 (k * -p0) b1) := by
    intro k
    rw [hp0, hp1, hq0, hq1]
    unfold comb R3.dot R3.cross
    simp only [R3.mk.injEq]
    refine ⟨by ring, by ring, by ring⟩
  have build : ∀ k : ℝ, 0 < k * -q1 → 0 ≤ k * q0 → 0 ≤ k * p1 → 0 ≤ k * -p0 → ArcsMeetR a0 a1 b0 b1 := by
    intro k g1 g2 g3 g4
    set X := comb (k * -q1) a0 (k * q0) a1 with hX
    have hXpos : 0 < X.len := by
      rw [len_pos_iff, hX]
      exact cone_pos g1 g2 ha0 ha1 (Or.inl hnA)
    exact ⟨comb (1 / X.len) X 0 X, onArc_of_cone g1.le g2 hX hXpos, onArc_of_cone g3 g4 (by rw [hX]; exact idx k) hXpos⟩
  rcases lt_trichotomy q0 0 with hq | hq | hq
  · -- q0 < 0 : q1 > 0, p1 < 0, p0 > 0 ; k = −1
    have g1 : 0 < q1 := by
      by_contra hc
      have := mul_nonneg_of_nonpos_of_nonpos hq.le (not_lt.mp hc)
      linarith
    have g3 : p1 < 0 := by
      by_contra hc
      have := mul_nonpos_of_nonpos_of_nonneg hq.le (not_lt.mp hc)
      linarith
    have g4 : 0 < p0 := by
      by_contra hc
      have := mul_nonneg_of_nonpos_of_nonpos (not_lt.mp hc) g3.le
      linarith
    exact build (-1) (by linarith) (by linarith) (by linarith) (by linarith)
  · rw [hq] at h2; simp at h2
  · have g1 : q1 < 0 := by
      by_contra hc
      have := mul_nonneg hq.le (not_lt.mp hc)
      linarith
    have g3 : 0 < p1 := by
      by_contra hc
      have := mul_nonpos_of_nonneg_of_nonpos hq.le (not_lt.mp hc)
      linarith
    have g4 : p0 < 0 := by
      by_contra hc
      have := mul_nonneg (not_lt.mp hc) g3.le
      linarith
    exact build 1 (by linarith) (by linarith) (by linarith) (by linarith)

end S2Proofs.C17Pairs
