/-
  C17Pairs.CrossLink — `CrossingSign(a0,a1,b0,b1) == Cross` (model `EdgeNum.crosses`, RobustSign = exact sign by C02/C03)
  implies the four-determinant crossing pattern `ProperCrossZ`, when none of the four determinants vanishes.
-/
import S2Proofs.Properties.C17_Pairs
import S2Proofs.Properties.C02_StableError

set_option linter.unusedSimpArgs false
set_option linter.unusedVariables false

namespace S2Proofs.C17Pairs
open S2 S2.Exact S2.Pred S2.EdgeNum S2Proofs.F64Order S2Proofs.C02Err S2Proofs.C17

/-- the three sign equalities tested by `CrossingSign` on the `Cross` path -/
theorem crosses_signs {a b c d : V3} (h : crosses a b c d = true) :
    robustSign a b d = -(robustSign a b c) ∧ robustSign c d b = robustSign a b c ∧
    robustSign c d a = -(robustSign a b c) := by
  unfold crosses Contain.crossingSign at h
  simp only [Contain.floatGeo] at h
  by_cases q1 : robustSign a b d = -robustSign a b c
  · by_cases q2 : robustSign c d b = robustSign a b c
    · by_cases q3 : robustSign c d a = -robustSign a b c
      · exact ⟨q1, q2, q3⟩
      · exfalso; split_ifs at h <;> simp_all
    · exfalso; split_ifs at h <;> simp_all
  · exfalso; split_ifs at h <;> simp_all

/-- none of the four determinants of the pair vanishes -/
def GenericPair (a0 a1 b0 b1 : V3) : Prop :=
  det3 (ofV3 a0) (ofV3 a1) (ofV3 b0) ≠ 0 ∧ det3 (ofV3 a0) (ofV3 a1) (ofV3 b1) ≠ 0 ∧
  det3 (ofV3 b0) (ofV3 b1) (ofV3 a0) ≠ 0 ∧ det3 (ofV3 b0) (ofV3 b1) (ofV3 a1) ≠ 0

instance (a0 a1 b0 b1 : V3) : Decidable (GenericPair a0 a1 b0 b1) := by unfold GenericPair; infer_instance

theorem rs_det {a b c : V3} (ha : Unitish a) (hb : Unitish b) (hc : Unitish c)
    (h : det3 (ofV3 a) (ofV3 b) (ofV3 c) ≠ 0) : robustSign a b c = Int.sign (det3 (ofV3 a) (ofV3 b) (ofV3 c)) := by
  rw [S2Proofs.C02StableErr.robustSign_exact a b c ha hb hc]
  have hne : detSign a b c ≠ 0 := by
    unfold detSign sgn
    intro h0
    exact h (Int.sign_eq_zero_iff_zero.mp h0)
  rw [S2Proofs.C02.exactDecision_of_det_ne a b c ha.1 hb.1 hc.1 hne]
  rfl

theorem mul_neg_of_sign {x y : Int} (hy : y ≠ 0) (h : Int.sign x = -Int.sign y) : x * y < 0 := by
  rcases lt_trichotomy y 0 with hy' | hy' | hy'
  · rw [Int.sign_eq_neg_one_of_neg hy'] at h
    have : 0 < x := Int.sign_eq_one_iff_pos.mp (by simpa using h)
    exact mul_neg_of_pos_of_neg this hy'
  · exact absurd hy' hy
  · rw [Int.sign_eq_one_of_pos hy'] at h
    have : x < 0 := Int.sign_eq_neg_one_iff_neg.mp h
    exact mul_neg_of_neg_of_pos this hy'

theorem mul_pos_of_sign {x y : Int} (hy : y ≠ 0) (h : Int.sign x = Int.sign y) : 0 < x * y := by
  rcases lt_trichotomy y 0 with hy' | hy' | hy'
  · rw [Int.sign_eq_neg_one_of_neg hy'] at h
    have : x < 0 := Int.sign_eq_neg_one_iff_neg.mp h
    exact mul_pos_of_neg_of_neg this hy'
  · exact absurd hy' hy
  · rw [Int.sign_eq_one_of_pos hy'] at h
    have : 0 < x := Int.sign_eq_one_iff_pos.mp h
    exact mul_pos this hy'

/-- **`CrossingSign == Cross` on generic unit-ish points is the proper crossing of the two arcs** -/
theorem crosses_proper {a0 a1 b0 b1 : V3} (ha0 : Unitish a0) (ha1 : Unitish a1) (hb0 : Unitish b0) (hb1 : Unitish b1)
    (hg : GenericPair a0 a1 b0 b1) (hc : crosses a0 a1 b0 b1 = true) : ProperCrossZ a0 a1 b0 b1 := by
  obtain ⟨g1, g2, g3, g4⟩ := hg
  obtain ⟨s1, s2, s3⟩ := crosses_signs hc
  rw [rs_det ha0 ha1 hb1 g2, rs_det ha0 ha1 hb0 g1] at s1
  rw [rs_det hb0 hb1 ha1 g4, rs_det ha0 ha1 hb0 g1] at s2
  rw [rs_det hb0 hb1 ha0 g3, rs_det ha0 ha1 hb0 g1] at s3
  -- cyclic forms used by `ProperCrossZ`
  have c1 : (ofV3 b0).dot ((ofV3 a0).cross (ofV3 a1)) = det3 (ofV3 a0) (ofV3 a1) (ofV3 b0) := by
    unfold det3 IV3.dot IV3.cross; ring
  have c2 : (ofV3 b1).dot ((ofV3 a0).cross (ofV3 a1)) = det3 (ofV3 a0) (ofV3 a1) (ofV3 b1) := by
    unfold det3 IV3.dot IV3.cross; ring
  have c3 : (ofV3 a0).dot ((ofV3 b0).cross (ofV3 b1)) = det3 (ofV3 b0) (ofV3 b1) (ofV3 a0) := by
    unfold det3 IV3.dot IV3.cross; ring
  have c4 : (ofV3 a1).dot ((ofV3 b0).cross (ofV3 b1)) = det3 (ofV3 b0) (ofV3 b1) (ofV3 a1) := by
    unfold det3 IV3.dot IV3.cross; ring
  unfold ProperCrossZ
  rw [c1, c2, c3, c4]
  refine ⟨?_, ?_, ?_⟩
  · have := mul_neg_of_sign g1 s1
    rw [mul_comm]; exact this
  · have h : Int.sign (det3 (ofV3 b0) (ofV3 b1) (ofV3 a0)) = -Int.sign (det3 (ofV3 b0) (ofV3 b1) (ofV3 a1)) := by
      rw [s3, s2]
    exact mul_neg_of_sign g4 h
  · have h : Int.sign (det3 (ofV3 b0) (ofV3 b1) (ofV3 a0)) = Int.sign (det3 (ofV3 a0) (ofV3 a1) (ofV3 b1)) := by
      rw [s3, s1]
    exact mul_pos_of_sign g2 h

end S2Proofs.C17Pairs
