/-
  C17Pairs.ProjFinal — `Project(x, a, b)` against the exact point-to-arc distance (package c17pairs2).

      project_interior   interior branch (both float sign tests pass), x in the exact wedge, x NOT within ≈ 5° of the pole of the
                         edge (`¬ NearPole`, the complement of the known class D39): the returned point is non-zero, within squared
                         chord 2^-40 of a point of the arc, and its distance from x is within 2^-40 of the exact distance
      project_vertex     vertex branch (a sign test fails), x outside the exact wedge: the returned point IS an endpoint and
                         its distance from x is within 2^-46 of the exact distance
-/
import S2Proofs.C17Pairs.ProjFloat
import S2Proofs.C17Pairs.Closest
import S2Proofs.C16Acc.Norm

set_option linter.unusedSimpArgs false
set_option linter.unusedVariables false

namespace S2Proofs.C17Pairs
open S2 S2.Exact S2.Pred S2.EdgeNum S2Proofs.F64Order S2Proofs.FloatErr S2Proofs.C17Err S2Proofs.C17Err.R3 S2Proofs.C17

/-- the tolerance (squared chord) of the interior branch of `Project` outside the class `NearPole` -/
noncomputable def projTol : ℝ := 1 / 2 ^ 40

theorem projR_double {x C n : R3} (hn : 0 < n.n2) (cx : C.x = 2 * n.x) (cy : C.y = 2 * n.y) (cz : C.z = 2 * n.z) :
    projR x C = projR x n := by
  have hC : C.n2 = 4 * n.n2 := by unfold R3.n2 R3.dot; rw [cx, cy, cz]; ring
  have hd : x.dot C = 2 * x.dot n := by unfold R3.dot; rw [cx, cy, cz]; ring
  have hne : n.n2 ≠ 0 := hn.ne'
  unfold projR comb
  rw [hC, hd, cx, cy, cz]
  simp only [R3.mk.injEq]
  refine ⟨by field_simp; ring, by field_simp; ring, by field_simp; ring⟩

theorem toR3_len (v : S2Proofs.C16Acc.R3) : (⟨v.x, v.y, v.z⟩ : R3).len = v.norm := by
  unfold R3.len S2Proofs.C16Acc.R3.norm
  congr 1
  unfold R3.n2 R3.dot S2Proofs.C16Acc.R3.norm2
  ring

theorem ofV_norm (p : V3) : (S2Proofs.C16Acc.ofV p).norm = (vecR p).len := by
  rw [← toR3_len]; rfl

theorem num56 : (3 : ℝ) * (32 * uR * (32 * uR)) ≤ 56 * uR * (56 * uR) := by unfold uR; norm_num
theorem num58 {w : ℝ} (hw : w ≤ 1 / 2 ^ 100) : 56 * uR + (uR + w) * (101 / 100) ≤ 58 * uR := by
  have h1 : (uR + w) * (101 / 100) ≤ (uR + 1 / 2 ^ 100) * (101 / 100) :=
    mul_le_mul_of_nonneg_right (by linarith) (by norm_num)
  have h2 : 56 * uR + (uR + 1 / 2 ^ 100) * (101 / 100) ≤ 58 * uR := by unfold uR; norm_num
  linarith
theorem w500 : (1 : ℝ) / 2 ^ 500 ≤ 1 / 2 ^ 100 :=
  one_div_le_one_div_of_le (by positivity) (pow_le_pow_right₀ (by norm_num) (by norm_num))
theorem lx12 {lx P : ℝ} (hP0 : 0 ≤ P) (h8 : lx * lx ≤ 128 * (P * P)) : lx ≤ 12 * P := by
  by_contra hc
  have hc := not_le.mp hc
  have h1 := mul_self_lt_mul_self (by linarith : 0 ≤ 12 * P) hc
  have h2 := mul_self_nonneg P
  nlinarith
theorem numTol : 8 * (58 * uR) * 12 ≤ 1 / 2 ^ 40 * (1 - 1 / 2 ^ 52) := by unfold uR; norm_num
theorem num116 : 2 * (58 * uR) ≤ (1 - 1 / 2 ^ 52) / 12 := by unfold uR; norm_num

/-- **INTERIOR BRANCH of `Project`**, outside the class `NearPole` -/
theorem project_interior {x a b : V3} (hx : UnitPt x) (ha : UnitPt a) (hb : UnitPt b) (hE : EdgeOK a b)
    (hnp : ¬ NearPole x a b) (hw : InWedge x a b)
    (htest : (Pred.sign (pointCross a b) a (projRaw x a b) && Pred.sign (projRaw x a b) b (pointCross a b)) = true) :
    0 < len (project x a b) ∧
    (∃ P, OnArc (vecR a) (vecR b) P ∧ dirChordP (project x a b) P ≤ projTol) ∧
    |dirChord2 x (project x a b) - trueDist2 x a b| ≤ projTol := by
  rw [project_eq, if_pos htest]
  obtain ⟨hd0, hlx0, hlx⟩ := unit_len delta0_nonneg (le_refl _) hx
  obtain ⟨fp, ex, ey, ez⟩ := projRaw_spec hx ha hb hE
  set p := projRaw x a b with hpd
  set C := vC a b with hCd
  set n := (vecR a).cross (vecR b) with hnd
  set lx := len x with hlxd
  have hlxlo : 1 - 1 / 2 ^ 52 ≤ lx := by
    have := (abs_le.mp hd0).1
    have := delta0_le
    linarith
  obtain ⟨c1, c2, c3⟩ := vC_two a b
  rw [← hCd, ← hnd] at c1 c2 c3
  have hLC := S2Proofs.C08World.edge_LC hE
  rw [← hCd] at hLC
  have hLCpos : 0 < C.len := lt_of_lt_of_le (by positivity) hLC
  have hCn2 : 0 < C.n2 := len_pos_iff.mp hLCpos
  have hn2 : 0 < n.n2 := by
    have : C.n2 = 4 * n.n2 := by unfold R3.n2 R3.dot; rw [c1, c2, c3]; ring
    linarith
  set ps := projR (vecR x) C with hpsd
  set P := ps.len with hPd
  have hu0 := uR_nonneg
  -- P ≥ lx/12
  have hPLC : P * C.len = (C.cross (vecR x)).len := projR_len hCn2
  have hP12 : lx ≤ 12 * P := by
    have h1 : n.n2 * (vecR x).n2 ≤ (n.cross (vecR x)).n2 * 2 ^ 7 := by
      unfold NearPole at hnp; rw [← hnd] at hnp; exact not_lt.mp hnp
    have h2 : (C.cross (vecR x)).n2 = 4 * (n.cross (vecR x)).n2 := by
      unfold R3.n2 R3.dot R3.cross; simp only; rw [c1, c2, c3]; ring
    have h3 : C.n2 = 4 * n.n2 := by unfold R3.n2 R3.dot; rw [c1, c2, c3]; ring
    have h4 : ps.n2 * C.n2 = (C.cross (vecR x)).n2 := projR_n2 hCn2
    have h5 : (vecR x).n2 = lx * lx := by rw [← R3.len_sq]; rfl
    have h6 : ps.n2 = P * P := (R3.len_sq ps).symm
    -- lx² ≤ 128·P²
    have h7 : lx * lx * n.n2 ≤ 128 * (P * P) * n.n2 := by
      have : P * P * (4 * n.n2) = 4 * (n.cross (vecR x)).n2 := by rw [← h6, ← h3, h4, h2]
      rw [h5] at h1
      have e7 : (2 : ℝ) ^ 7 = 128 := by norm_num
      rw [e7] at h1
      linarith
    have h8 : lx * lx ≤ 128 * (P * P) := le_of_mul_le_mul_right h7 hn2
    exact lx12 (R3.len_nonneg ps) h8
  have hPpos : 0 < P := by linarith
  have hPle : P ≤ lx := by
    have := projR_len_le (x := vecR x) hCn2
    rw [vecR_len] at this; exact this
  -- δ = p − ps
  set δ : R3 := R3.sub (vecR p) ps with hδd
  have hδ : δ.len ≤ 56 * uR := by
    apply len_le_of_sq (by linarith)
    have qx : δ.x * δ.x ≤ 32 * uR * (32 * uR) := by
      have : |δ.x| ≤ 32 * uR := ex
      have := abs_mul_le_mul this this
      rwa [abs_mul_self] at this
    have qy : δ.y * δ.y ≤ 32 * uR * (32 * uR) := by
      have : |δ.y| ≤ 32 * uR := ey
      have := abs_mul_le_mul this this
      rwa [abs_mul_self] at this
    have qz : δ.z * δ.z ≤ 32 * uR * (32 * uR) := by
      have : |δ.z| ≤ 32 * uR := ez
      have := abs_mul_le_mul this this
      rwa [abs_mul_self] at this
    have := num56
    show δ.x * δ.x + δ.y * δ.y + δ.z * δ.z ≤ _
    linarith
  have hpvec : vecR p = comb 1 ps 1 δ := by
    rw [hδd]; unfold comb R3.sub; apply r3_ext <;> (simp only; ring)
  -- |p| ≤ 1.01, |p| ≥ 1/13
  have hplen1 : (vecR p).len ≤ P + 56 * uR := by
    have := comb_len_le (s := 1) (t := 1) (by norm_num) (by norm_num) ps δ
    rw [← hpvec] at this; linarith
  have hplen : (vecR p).len ≤ 101 / 100 := by
    have : (1 : ℝ) + 1 / 2 ^ 52 + 56 * uR ≤ 101 / 100 := by unfold uR; norm_num
    linarith
  obtain ⟨px, py, pz⟩ := comp_le_len (vecR p)
  have b14 : (101 : ℝ) / 100 ≤ 2 ^ 14 := by norm_num
  have m1 : |val p.x| ≤ 2 ^ 14 := le_trans px (le_trans hplen b14)
  have m2 : |val p.y| ≤ 2 ^ 14 := le_trans py (le_trans hplen b14)
  have m3 : |val p.z| ≤ 2 ^ 14 := le_trans pz (le_trans hplen b14)
  have hplo : P - 56 * uR ≤ (vecR p).len := by
    have := len_sub_abs (vecR p) ps
    have := (abs_le.mp this).1
    linarith
  have hp13 : 1 / 13 ≤ (vecR p).len := by
    have : (1 : ℝ) / 13 ≤ (1 - 1 / 2 ^ 52) / 12 - 56 * uR := by unfold uR; norm_num
    linarith
  -- the float squared norm of p is not tiny
  obtain ⟨fn2, hn2err⟩ := S2Proofs.C16Acc.norm2_wide p fp ⟨m1, m2, m3⟩
  have hS : (S2Proofs.C16Acc.ofV p).norm2 = (vecR p).len * (vecR p).len := by
    rw [R3.len_sq]; unfold S2Proofs.C16Acc.R3.norm2 S2Proofs.C16Acc.ofV R3.n2 R3.dot vecR; ring
  have hnlo : 1 / 2 ^ 1022 ≤ val p.norm2 := by
    have h1 := (abs_le.mp hn2err).1
    have h2 : (1 : ℝ) / 13 * (1 / 13) ≤ (S2Proofs.C16Acc.ofV p).norm2 := by
      rw [hS]; exact mul_le_mul hp13 hp13 (by norm_num) (le_trans (by norm_num) hp13)
    have h3 : rhoU uR ≤ 1 / 2 := by
      have := S2Proofs.C16Acc.rhoU_le3
      have : (3 + 1 / 1000) * uR ≤ 1 / 2 := by unfold uR; norm_num
      linarith
    have h4 : 4 * eR ≤ 1 / 2 ^ 500 := S2Proofs.C16Acc.four_eR_le
    have h5 : (1 : ℝ) / 2 ^ 1022 ≤ 1 / 2 ^ 20 :=
      one_div_le_one_div_of_le (by positivity) (pow_le_pow_right₀ (by norm_num) (by norm_num))
    have h6 : (1 : ℝ) / 2 ^ 500 ≤ 1 / 2 ^ 20 :=
      one_div_le_one_div_of_le (by positivity) (pow_le_pow_right₀ (by norm_num) (by norm_num))
    have h7 : rhoU uR * (S2Proofs.C16Acc.ofV p).norm2 ≤ 1 / 2 * (S2Proofs.C16Acc.ofV p).norm2 :=
      mul_le_mul_of_nonneg_right h3 (S2Proofs.C16Acc.R3.norm2_nonneg _)
    have h8 : (1 : ℝ) / 2 ^ 20 + 1 / 2 ^ 20 ≤ 1 / 2 * (1 / 13 * (1 / 13)) := by norm_num
    linarith
  have hfeq : F64.feq p.norm2 (F64.zero false) = false := by
    cases hq : F64.feq p.norm2 (F64.zero false)
    · rfl
    · exfalso
      have hz : Fin (F64.zero false) := by decide
      have := (feq_iff fn2 hz).mp hq
      have h0 : toInt (F64.zero false) = 0 := by decide
      rw [h0] at this
      have hv : val p.norm2 = 0 := by unfold FloatErr.val; rw [this]; simp
      rw [hv] at hnlo
      have : (0 : ℝ) < 1 / 2 ^ 1022 := by positivity
      linarith
  rw [S2Proofs.C16Acc.normalize_eq p hfeq]
  obtain ⟨_, _, fq, _, _, s, ν, hs0, hsn, heq, hν⟩ := S2Proofs.C16Acc.scaleSpec p fp m1 m2 m3 hnlo
  set q := p.mul (F64.one / F64.sqrt p.norm2) with hqd
  -- into C17Err.R3
  set ν' : R3 := ⟨ν.x, ν.y, ν.z⟩ with hν'd
  have hν' : ν'.len ≤ (uR + 1 / 2 ^ 500) * (vecR p).len := by
    rw [toR3_len, ← ofV_norm]; exact hν
  set ε : R3 := comb 1 δ 1 ν' with hεd
  set w : R3 := comb 1 ps 1 ε with hwd
  have hqw : vecR q = comb s w 0 w := by
    have hx' := congrArg S2Proofs.C16Acc.R3.x heq
    have hy' := congrArg S2Proofs.C16Acc.R3.y heq
    have hz' := congrArg S2Proofs.C16Acc.R3.z heq
    unfold S2Proofs.C16Acc.ofV S2Proofs.C16Acc.R3.smul S2Proofs.C16Acc.R3.add at hx' hy' hz'
    simp only at hx' hy' hz'
    have e1 : (vecR p).x = ps.x + δ.x := by rw [hpvec]; unfold comb; simp
    have e2 : (vecR p).y = ps.y + δ.y := by rw [hpvec]; unfold comb; simp
    have e3 : (vecR p).z = ps.z + δ.z := by rw [hpvec]; unfold comb; simp
    apply r3_ext
    · show val q.x = s * (1 * ps.x + 1 * (1 * δ.x + 1 * ν.x)) + 0 * _
      rw [hx']; show s * ((vecR p).x + ν.x) = _; rw [e1]; ring
    · show val q.y = s * (1 * ps.y + 1 * (1 * δ.y + 1 * ν.y)) + 0 * _
      rw [hy']; show s * ((vecR p).y + ν.y) = _; rw [e2]; ring
    · show val q.z = s * (1 * ps.z + 1 * (1 * δ.z + 1 * ν.z)) + 0 * _
      rw [hz']; show s * ((vecR p).z + ν.z) = _; rw [e3]; ring
  have hε : ε.len ≤ 58 * uR := by
    have h1 := comb_len_le (s := 1) (t := 1) (by norm_num) (by norm_num) δ ν'
    have h2 : (uR + 1 / 2 ^ 500) * (vecR p).len ≤ (uR + 1 / 2 ^ 500) * (101 / 100) :=
      mul_le_mul_of_nonneg_left hplen (by positivity)
    have := num58 w500
    linarith
  have hxp : (vecR x).dot ps = ps.n2 := x_dot_projR hCn2
  have h2e : 2 * (58 * uR) ≤ P := by
    have := num116
    have : (1 - 1 / 2 ^ 52) / 12 ≤ P := by linarith
    linarith
  have hPlex : P ≤ (vecR x).len := by rw [vecR_len]; exact hPle
  obtain ⟨hW0, hcos, hcos2⟩ := proj_core hxp hwd hε hPpos h2e hPlex (by linarith)
  rw [vecR_len] at hcos
  -- q = s·w
  have hqlen : len q = s * w.len := by
    have : (vecR q).n2 = (s * w.len) * (s * w.len) := by
      rw [hqw, comb_n2, ← R3.len_sq w]; ring
    have h0 : 0 ≤ s * w.len := mul_nonneg hs0.le hW0.le
    rw [← vecR_len]
    unfold R3.len
    rw [this]; exact Real.sqrt_mul_self h0
  have hqpos : 0 < len q := by rw [hqlen]; exact mul_pos hs0 hW0
  -- the tolerance
  have htol : 4 * (58 * uR) / P ≤ projTol / 2 := by
    unfold projTol
    rw [div_le_iff₀ hPpos]
    have := numTol
    have h1 : (1 - 1 / 2 ^ 52) ≤ 12 * P := by linarith
    have h2 : (1 : ℝ) / 2 ^ 40 * (1 - 1 / 2 ^ 52) ≤ 1 / 2 ^ 40 * (12 * P) :=
      mul_le_mul_of_nonneg_left h1 (by positivity)
    linarith
  have htpos : 0 < projTol := by unfold projTol; positivity
  refine ⟨hqpos, ?_, ?_⟩
  · -- the arc point: the normalised exact projection
    obtain ⟨hpl, hon⟩ := wedge_proj_onArc (show InWedgeR (vecR x) (vecR a) (vecR b) from hw)
    rw [← hnd, ← projR_double hn2 c1 c2 c3, ← hpsd, ← hPd] at hon hpl
    refine ⟨_, hon, ?_⟩
    unfold dirChordP
    rw [hqw, hqlen]
    have e1 : (comb s w 0 w).dot (comb (1 / P) ps 0 ps) / (s * w.len) = w.dot ps / (w.len * P) := by
      rw [dot_comb]
      have : (comb s w 0 w).dot ps = s * w.dot ps := by
        rw [dot_comm, dot_comb, dot_comm]; ring
      rw [this]
      field_simp
      ring
    rw [e1]
    have h2 : 2 * (58 * uR) / P ≤ projTol / 4 := by
      have : 2 * (58 * uR) / P = (4 * (58 * uR) / P) / 2 := by ring
      linarith
    have hcos2' : 1 - 2 * (58 * uR) / P ≤ w.dot ps / (w.len * P) := hcos2
    linarith
  · have htd : trueDist2 x a b = gcDist2 x a b := by unfold trueDist2; rw [if_pos hw]
    rw [htd, gc_eq x a b hlx0 hLCpos]
    have hρ : (C.cross (vecR x)).len / (lx * C.len) = P / lx := by
      rw [← hPLC]; field_simp
    rw [hρ]
    have hdc : dirChord2 x q = 2 - 2 * ((vecR x).dot w / (lx * w.len)) := by
      unfold dirChord2
      rw [hqlen]
      have : dotR x q = s * (vecR x).dot w := by
        rw [← vecR_dot, hqw, dot_comb]; ring
      rw [this]
      have hne : C17Err.len x ≠ 0 := hlx0.ne'
      show 2 - 2 * (s * (vecR x).dot w) / (C17Err.len x * (s * w.len))
        = 2 - 2 * ((vecR x).dot w / (C17Err.len x * w.len))
      field_simp
    rw [hdc]
    have hcos' : |(vecR x).dot w / (lx * w.len) - P / lx| ≤ 4 * (58 * uR) / P := hcos
    have e : 2 - 2 * ((vecR x).dot w / (lx * w.len)) - (2 - 2 * (P / lx))
        = -2 * ((vecR x).dot w / (lx * w.len) - P / lx) := by ring
    rw [e, abs_mul]
    have : |(-2 : ℝ)| = 2 := by norm_num
    rw [this]
    linarith

/-- **VERTEX BRANCH of `Project`** (a float sign test fails) for `x` outside the exact wedge: the returned point is an endpoint
    of the edge, and it is the nearer one up to `74u ≤ 2^-46` -/
theorem project_vertex {x a b : V3} (hx : UnitPt x) (ha : UnitPt a) (hb : UnitPt b)
    (hnw : ¬ InWedge x a b)
    (htest : (Pred.sign (pointCross a b) a (projRaw x a b) && Pred.sign (projRaw x a b) b (pointCross a b)) = false) :
    (project x a b = a ∨ project x a b = b) ∧ |dirChord2 x (project x a b) - trueDist2 x a b| ≤ 1 / 2 ^ 46 := by
  rw [project_eq, if_neg (by rw [htest]; exact Bool.false_ne_true)]
  obtain ⟨fa, na, a0, a4, ea⟩ := vertex_one delta0_nonneg (le_refl _) hx ha
  obtain ⟨fb, nb, b0, b4, eb⟩ := vertex_one delta0_nonneg (le_refl _) hx hb
  have ka := S2Proofs.C08World.vertexK_le a0 a4
  have kb := S2Proofs.C08World.vertexK_le b0 b4
  have htd : trueDist2 x a b = min (dirChord2 x a) (dirChord2 x b) := by unfold trueDist2; rw [if_neg hnw]
  rw [htd]
  obtain ⟨ea1, ea2⟩ := abs_le.mp ea
  obtain ⟨eb1, eb2⟩ := abs_le.mp eb
  have h74 : 37 * uR + 37 * uR ≤ 1 / 2 ^ 46 := by unfold uR; norm_num
  have hu0 := uR_nonneg
  by_cases hle : F64.le (x.sub a).norm2 (x.sub b).norm2 = true
  · rw [if_pos hle]
    refine ⟨Or.inl rfl, ?_⟩
    have hv := (le_val fa fb).mp hle
    have hmin : min (val (x.sub a).norm2) 4 ≤ min (val (x.sub b).norm2) 4 := min_le_min hv (le_refl _)
    rcases le_total (dirChord2 x a) (dirChord2 x b) with h | h
    · rw [min_eq_left h, sub_self, abs_zero]; positivity
    · rw [min_eq_right h, abs_le]
      constructor <;> linarith
  · rw [if_neg hle]
    refine ⟨Or.inr rfl, ?_⟩
    have hv : val (x.sub b).norm2 < val (x.sub a).norm2 := by
      by_contra hc
      exact hle ((le_val fa fb).mpr (not_lt.mp hc))
    have hmin : min (val (x.sub b).norm2) 4 ≤ min (val (x.sub a).norm2) 4 := min_le_min hv.le (le_refl _)
    rcases le_total (dirChord2 x a) (dirChord2 x b) with h | h
    · rw [min_eq_left h, abs_le]
      constructor <;> linarith
    · rw [min_eq_right h, sub_self, abs_zero]; positivity

/-- integer form of the complement of `NearPole` -/
def FarFromPoleZ (x a b : V3) : Prop :=
  ((ofV3 a).cross (ofV3 b)).norm2 * (ofV3 x).norm2 ≤ (((ofV3 a).cross (ofV3 b)).cross (ofV3 x)).norm2 * 2 ^ 7

instance (x a b : V3) : Decidable (FarFromPoleZ x a b) := by unfold FarFromPoleZ; infer_instance

theorem not_nearPole_of_int {x a b : V3} (h : FarFromPoleZ x a b) : ¬ NearPole x a b := by
  unfold NearPole
  rw [not_lt]
  have e1 : ((vecR a).cross (vecR b)).n2 * (vecR x).n2
      = ((((ofV3 a).cross (ofV3 b)).norm2 * (ofV3 x).norm2 : ℤ) : ℝ) / (2 ^ 1074) ^ 6 := by
    unfold R3.n2 R3.dot R3.cross vecR IV3.norm2 IV3.dot IV3.cross ofV3 FloatErr.val
    push_cast; field_simp; ring
  have e2 : (((vecR a).cross (vecR b)).cross (vecR x)).n2 * 2 ^ 7
      = (((((ofV3 a).cross (ofV3 b)).cross (ofV3 x)).norm2 * 2 ^ 7 : ℤ) : ℝ) / (2 ^ 1074) ^ 6 := by
    unfold R3.n2 R3.dot R3.cross vecR IV3.norm2 IV3.dot IV3.cross ofV3 FloatErr.val
    push_cast; field_simp; ring
  rw [e1, e2]
  exact div_le_div_of_nonneg_right (by exact_mod_cast h) (by positivity)

end S2Proofs.C17Pairs
