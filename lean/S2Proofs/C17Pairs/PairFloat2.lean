/-
  C17Pairs.PairFloat2 — the float chain of `updateEdgePairMinDistance` WITHOUT the hypothesis `noEarlyExit`
  and for the threshold `+Inf` (package c17pairs2):

    unitish_of_unitPt   c17err's domain `UnitPt` (| |p| − 1 | ≤ 2^-52 − 2^-80) implies C02's `Unitish` (| |p|² − 1 | ≤ 2^-16)
    step_fin            one call `UpdateMinDistance(x,a,b,m)`, finite `m ≥ 0`, ALL exits of `interiorDist`: result finite, ≥ 0,
                        ≤ m, ≥ min(m, true − lowSlack), ≤ true + highSlack   (highSlack = max(allowedError, 40u): the 40u is
                        c08world's `earlyExit_bound` for the exit `xDotC2 > c2·m`)
    step_inf            `UpdateMinDistance(x,a,b,+Inf)` = (the always-computed distance, true) on the domain
    chain_fin, chain_inf   the chain of four for a finite threshold / for `+Inf`
-/
import S2Proofs.C17Pairs.PairFloat
import S2Proofs.C17Pairs.CrossLink
import S2Proofs.EdgeQuery.PointEdgeNum

set_option linter.unusedSimpArgs false
set_option linter.unusedVariables false

namespace S2Proofs.C17Pairs
open S2 S2.Exact S2.EdgeNum S2Proofs.F64Order S2Proofs.FloatErr S2Proofs.C17Err S2Proofs.C17Err.R3 S2Proofs.C17

/-! ### (1) the bridge `UnitPt → Unitish` -/

theorem norm2I_eq_n2Z (p : V3) : S2Proofs.FloatErr.norm2I p = n2Z p := by
  unfold S2Proofs.FloatErr.norm2I n2Z IV3.norm2 IV3.dot ofV3
  ring

/-- **c17err's domain is inside C02's domain**: `UnitPt p` (norm within `2^-52 − 2^-80` of 1) implies `Unitish p`
    (squared norm within `2^-16` of 1). -/
theorem unitish_of_unitPt {p : V3} (h : UnitPt p) : S2Proofs.C02Err.Unitish p := by
  obtain ⟨hf, lo, hi⟩ := h
  refine ⟨hf, ?_⟩
  rw [norm2I_eq_n2Z]
  rw [n2_int] at lo hi
  have hS : (0 : ℝ) < (2 ^ 1074) ^ 2 := by positivity
  have hd0 : (0 : ℝ) ≤ delta0 := delta0_nonneg
  have hd1 : delta0 ≤ 1 / 2 ^ 52 := delta0_le
  have hlo : (1 : ℝ) - 1 / 2 ^ 16 ≤ (1 - delta0) ^ 2 := by nlinarith
  have hhi : (1 + delta0) ^ 2 ≤ (1 : ℝ) + 1 / 2 ^ 16 := by nlinarith
  have h1 : ((n2Z p : ℝ) - (2 ^ 1074) ^ 2) * 2 ^ 16 ≤ (2 ^ 1074) ^ 2 := by
    have := (div_le_iff₀ hS).mp (le_trans hi hhi)
    nlinarith
  have h2 : -((n2Z p : ℝ) - (2 ^ 1074) ^ 2) * 2 ^ 16 ≤ (2 ^ 1074) ^ 2 := by
    have := (le_div_iff₀ hS).mp (le_trans hlo lo)
    nlinarith
  have h3 : |(n2Z p : ℝ) - (2 ^ 1074) ^ 2| * 2 ^ 16 ≤ (2 ^ 1074) ^ 2 := by
    rcases abs_cases ((n2Z p : ℝ) - (2 ^ 1074) ^ 2) with ⟨e, _⟩ | ⟨e, _⟩ <;> rw [e] <;> assumption
  have h4 : ((|n2Z p - ((scale : ℕ) : ℤ) ^ 2| * 2 ^ 16 : ℤ) : ℝ) ≤ (((scale : ℕ) : ℤ) ^ 2 : ℤ) := by
    unfold scale
    push_cast
    have e : (2 : ℝ) ^ 16 = 65536 := by norm_num
    rw [e] at h3
    exact h3
  exact_mod_cast h4

/-! ### (2) one call, all exits -/

/-- the slack of the UPPER bound of one call: the documented bound of the always-computed value, or `40u` when the call
    leaves `interiorDist` through `xDotC2 > c2·minDist` -/
noncomputable def highSlack (x a b : V3) : ℝ := max (allowedError x a b) (40 * uR)

theorem earlyExit_eq (x a b : V3) (m : F64) : earlyExit x a b m = S2Proofs.C08World.earlyExit x a b m := rfl

theorem gcDist2_le_trueDist2 {x a b : V3} (hx : UnitPt x) (ha : UnitPt a) (hb : UnitPt b) (hE : EdgeOK a b) :
    gcDist2 x a b ≤ trueDist2 x a b := by
  unfold trueDist2
  split_ifs with hw
  · exact le_refl _
  · exact gcDist2_le_endpoints x a b hx.len_pos ha.len_pos hb.len_pos (edgeOK_normal_pos hE)

/-- a threshold the library passes: a non-negative finite chord angle or `+Inf` -/
def LimOK (m : F64) : Prop := (Fin m ∧ 0 ≤ val m) ∨ m = F64.inf false

/-- the returned value is never negative (for an admissible threshold) -/
theorem step_nonneg {x a b : V3} (h : CallOK x a b) {m : F64} (hm : Fin m) (h0 : 0 ≤ val m) :
    0 ≤ val (updateMinDistance x a b m false).1 := by
  obtain ⟨hx, ha, hb, hE, hM⟩ := h
  have hc := S2Proofs.C08World.updateMin_contract x a b hx ha hb hE hM m (Or.inl ⟨hm, h0⟩)
  change ((updateMinDistance x a b m false).2 = true → _) ∧ ((updateMinDistance x a b m false).2 = false → _) at hc
  cases hfl : (updateMinDistance x a b m false).2
  · rw [S2Proofs.C17.updateMinDistance_false_unchanged x a b m hfl]; exact h0
  · exact (hc.1 hfl).2.1

/-- **one call, finite threshold, every exit** -/
theorem step_fin {x a b : V3} (h : CallOK x a b) {m : F64} (hm : Fin m) (h0 : 0 ≤ val m) :
    Fin (updateMinDistance x a b m false).1 ∧
    0 ≤ val (updateMinDistance x a b m false).1 ∧
    val (updateMinDistance x a b m false).1 ≤ val m ∧
    min (val m) (trueDist2 x a b - lowSlack x a b) ≤ val (updateMinDistance x a b m false).1 ∧
    val (updateMinDistance x a b m false).1 ≤ trueDist2 x a b + highSlack x a b := by
  obtain ⟨f, u, l, g⟩ := step_bound h hm
  refine ⟨f, step_nonneg h hm h0, u, l, ?_⟩
  have hA : allowedError x a b ≤ highSlack x a b := le_max_left _ _
  have hB : 40 * uR ≤ highSlack x a b := le_max_right _ _
  cases hee : earlyExit x a b m
  · have := g hee; linarith
  · obtain ⟨hx, ha, hb, hE, hM⟩ := h
    have h1 := S2Proofs.C08World.earlyExit_bound x a b hx ha hb hE m hm h0 (by rw [← earlyExit_eq]; exact hee)
    have h2 := gcDist2_le_trueDist2 hx ha hb hE
    linarith

/-- **the threshold `+Inf`**: the call returns the always-computed distance and `true` -/
theorem step_inf {x a b : V3} (h : CallOK x a b) :
    updateMinDistance x a b (F64.inf false) false = (distanceFromSegmentChord x a b, true) := by
  obtain ⟨hx, ha, hb, hE, hM⟩ := h
  obtain ⟨fI, _⟩ := interior_value delta0_nonneg (le_refl _) hx ha hb hE
  obtain ⟨fV, _⟩ := vertexDist_spec delta0_nonneg (le_refl _) hx ha hb
  have hD := chord_by_branch x a b
  rcases step_cases x a b (F64.inf false) with ⟨hr, hib, _⟩ | ⟨hr, hwhy⟩
  · rw [hr, hD, if_pos hib]
  · rw [hr, S2Proofs.C08World.ge_inf_false fV]
    simp only [Bool.false_eq_true, if_false]
    rcases hwhy with h | h | h
    · rw [hD, h]; simp
    · rw [earlyExit_eq, S2Proofs.C08World.earlyExit_inf x a b hx ha hb hE] at h; cases h
    · rw [S2Proofs.C08World.ge_inf_false fI] at h; cases h

/-- the always-computed distance on the domain: finite, ≥ 0, within `allowedError` of the true distance -/
theorem always_bound {x a b : V3} (h : CallOK x a b) :
    Fin (distanceFromSegmentChord x a b) ∧ 0 ≤ val (distanceFromSegmentChord x a b) ∧
    |val (distanceFromSegmentChord x a b) - trueDist2 x a b| ≤ allowedError x a b := by
  have hs := step_inf h
  obtain ⟨hx, ha, hb, hE, hM⟩ := h
  have herr := distanceWithinMaxError_of_margin x a b hx ha hb hE hM
  rw [fval_eq_val] at herr
  have hc := S2Proofs.C08World.updateMin_contract x a b hx ha hb hE hM (F64.inf false) (Or.inr rfl)
  have hs' : updateMinDistancePub x a b (F64.inf false) = (distanceFromSegmentChord x a b, true) := hs
  rw [hs'] at hc
  obtain ⟨f, n, _⟩ := hc.1 rfl
  exact ⟨f, n, herr⟩

/-! ### the chain of four -/

noncomputable def pairHigh2 (a0 a1 b0 b1 : V3) : ℝ :=
  max (max (highSlack a0 b0 b1) (highSlack a1 b0 b1)) (max (highSlack b0 a0 a1) (highSlack b1 a0 a1))

theorem pairHigh2_eq (a0 a1 b0 b1 : V3) : pairHigh2 a0 a1 b0 b1 = max (pairHigh a0 a1 b0 b1) (40 * uR) := by
  unfold pairHigh2 pairHigh highSlack
  rw [max_max_max_comm (allowedError a0 b0 b1) (40 * uR) (allowedError a1 b0 b1) (40 * uR), max_self,
    max_max_max_comm (allowedError b0 a0 a1) (40 * uR) (allowedError b1 a0 a1) (40 * uR), max_self,
    max_max_max_comm (max (allowedError a0 b0 b1) (allowedError a1 b0 b1)) (40 * uR)
      (max (allowedError b0 a0 a1) (allowedError b1 a0 a1)) (40 * uR), max_self]

/-- `pairMin4` is one of the four point-to-arc distances -/
theorem pairMin4_cases (a0 a1 b0 b1 : V3) :
    pairMin4 a0 a1 b0 b1 = trueDist2 a0 b0 b1 ∨ pairMin4 a0 a1 b0 b1 = trueDist2 a1 b0 b1 ∨
    pairMin4 a0 a1 b0 b1 = trueDist2 b0 a0 a1 ∨ pairMin4 a0 a1 b0 b1 = trueDist2 b1 a0 a1 := by
  unfold pairMin4
  rcases le_total (min (trueDist2 a0 b0 b1) (trueDist2 a1 b0 b1)) (min (trueDist2 b0 a0 a1) (trueDist2 b1 a0 a1)) with h | h
  · rw [min_eq_left h]
    rcases le_total (trueDist2 a0 b0 b1) (trueDist2 a1 b0 b1) with g | g
    · rw [min_eq_left g]; exact Or.inl rfl
    · rw [min_eq_right g]; exact Or.inr (Or.inl rfl)
  · rw [min_eq_right h]
    rcases le_total (trueDist2 b0 a0 a1) (trueDist2 b1 a0 a1) with g | g
    · rw [min_eq_left g]; exact Or.inr (Or.inr (Or.inl rfl))
    · rw [min_eq_right g]; exact Or.inr (Or.inr (Or.inr rfl))

/-- the four facts about the pair quantities used by the chains -/
theorem pair_facts (a0 a1 b0 b1 : V3) :
    (pairMin4 a0 a1 b0 b1 ≤ trueDist2 a0 b0 b1 ∧ pairMin4 a0 a1 b0 b1 ≤ trueDist2 a1 b0 b1 ∧
     pairMin4 a0 a1 b0 b1 ≤ trueDist2 b0 a0 a1 ∧ pairMin4 a0 a1 b0 b1 ≤ trueDist2 b1 a0 a1) ∧
    (lowSlack a0 b0 b1 ≤ pairLow a0 a1 b0 b1 ∧ lowSlack a1 b0 b1 ≤ pairLow a0 a1 b0 b1 ∧
     lowSlack b0 a0 a1 ≤ pairLow a0 a1 b0 b1 ∧ lowSlack b1 a0 a1 ≤ pairLow a0 a1 b0 b1) ∧
    (highSlack a0 b0 b1 ≤ pairHigh2 a0 a1 b0 b1 ∧ highSlack a1 b0 b1 ≤ pairHigh2 a0 a1 b0 b1 ∧
     highSlack b0 a0 a1 ≤ pairHigh2 a0 a1 b0 b1 ∧ highSlack b1 a0 a1 ≤ pairHigh2 a0 a1 b0 b1) :=
  ⟨⟨le_trans (min_le_left _ _) (min_le_left _ _), le_trans (min_le_left _ _) (min_le_right _ _),
    le_trans (min_le_right _ _) (min_le_left _ _), le_trans (min_le_right _ _) (min_le_right _ _)⟩,
   ⟨le_trans (le_max_left _ _) (le_max_left _ _), le_trans (le_max_right _ _) (le_max_left _ _),
    le_trans (le_max_left _ _) (le_max_right _ _), le_trans (le_max_right _ _) (le_max_right _ _)⟩,
   ⟨le_trans (le_max_left _ _) (le_max_left _ _), le_trans (le_max_right _ _) (le_max_left _ _),
    le_trans (le_max_left _ _) (le_max_right _ _), le_trans (le_max_right _ _) (le_max_right _ _)⟩⟩

/-- **the chain of four, finite threshold `m ≥ 0`, `m ≠ 0`, no hypothesis on the exits** -/
theorem chain_fin {a0 a1 b0 b1 : V3} (h1 : CallOK a0 b0 b1) (h2 : CallOK a1 b0 b1) (h3 : CallOK b0 a0 a1)
    (h4 : CallOK b1 a0 a1) {m : F64} (hm : Fin m) (h0 : 0 ≤ val m) (hz : F64.feq m fz = false)
    (hc : crosses a0 a1 b0 b1 = false) :
    Fin (updateEdgePairMinDistance a0 a1 b0 b1 m).1 ∧
    0 ≤ val (updateEdgePairMinDistance a0 a1 b0 b1 m).1 ∧
    val (updateEdgePairMinDistance a0 a1 b0 b1 m).1 ≤ val m ∧
    min (val m) (pairMin4 a0 a1 b0 b1 - pairLow a0 a1 b0 b1) ≤ val (updateEdgePairMinDistance a0 a1 b0 b1 m).1 ∧
    val (updateEdgePairMinDistance a0 a1 b0 b1 m).1 ≤ pairMin4 a0 a1 b0 b1 + pairHigh2 a0 a1 b0 b1 := by
  rw [edgePair_no_crossing a0 a1 b0 b1 m hz hc]
  simp only
  obtain ⟨f1, n1, u1, l1, g1⟩ := step_fin h1 hm h0
  obtain ⟨f2, n2, u2, l2, g2⟩ := step_fin h2 f1 n1
  obtain ⟨f3, n3, u3, l3, g3⟩ := step_fin h3 f2 n2
  obtain ⟨f4, n4, u4, l4, g4⟩ := step_fin h4 f3 n3
  set r1 := updateMinDistance a0 b0 b1 m false with hr1
  set r2 := updateMinDistance a1 b0 b1 r1.1 false with hr2
  set r3 := updateMinDistance b0 a0 a1 r2.1 false with hr3
  set r4 := updateMinDistance b1 a0 a1 r3.1 false with hr4
  obtain ⟨⟨m1, m2, m3, m4⟩, ⟨s1, s2, s3, s4⟩, ⟨t1, t2, t3, t4⟩⟩ := pair_facts a0 a1 b0 b1
  refine ⟨f4, n4, by linarith, ?_, ?_⟩
  · by_contra hcon
    have hcon := not_le.mp hcon
    have c1 : val r4.1 < val m := lt_of_lt_of_le hcon (min_le_left _ _)
    have c2 : val r4.1 < pairMin4 a0 a1 b0 b1 - pairLow a0 a1 b0 b1 := lt_of_lt_of_le hcon (min_le_right _ _)
    rcases min_le_iff.mp l4 with q4 | q4
    · rcases min_le_iff.mp l3 with q3 | q3
      · rcases min_le_iff.mp l2 with q2 | q2
        · rcases min_le_iff.mp l1 with q1 | q1
          · linarith
          · linarith
        · linarith
      · linarith
    · linarith
  · rcases pairMin4_cases a0 a1 b0 b1 with e | e | e | e <;> rw [e] <;> linarith

/-- **the chain of four for the threshold `+Inf`** (the usual "compute the distance" call) -/
theorem chain_inf {a0 a1 b0 b1 : V3} (h1 : CallOK a0 b0 b1) (h2 : CallOK a1 b0 b1) (h3 : CallOK b0 a0 a1)
    (h4 : CallOK b1 a0 a1) (hc : crosses a0 a1 b0 b1 = false) :
    Fin (updateEdgePairMinDistance a0 a1 b0 b1 (F64.inf false)).1 ∧
    0 ≤ val (updateEdgePairMinDistance a0 a1 b0 b1 (F64.inf false)).1 ∧
    (updateEdgePairMinDistance a0 a1 b0 b1 (F64.inf false)).2 = true ∧
    pairMin4 a0 a1 b0 b1 - pairLow a0 a1 b0 b1 ≤ val (updateEdgePairMinDistance a0 a1 b0 b1 (F64.inf false)).1 ∧
    val (updateEdgePairMinDistance a0 a1 b0 b1 (F64.inf false)).1 ≤ pairMin4 a0 a1 b0 b1 + pairHigh2 a0 a1 b0 b1 := by
  have hz : F64.feq (F64.inf false) fz = false := by decide
  rw [edgePair_no_crossing a0 a1 b0 b1 _ hz hc]
  simp only
  rw [step_inf h1]
  obtain ⟨f1, n1, e1⟩ := always_bound h1
  simp only [Bool.true_or]
  obtain ⟨f2, n2, u2, l2, g2⟩ := step_fin h2 f1 n1
  obtain ⟨f3, n3, u3, l3, g3⟩ := step_fin h3 f2 n2
  obtain ⟨f4, n4, u4, l4, g4⟩ := step_fin h4 f3 n3
  set d1 := distanceFromSegmentChord a0 b0 b1 with hd1
  set r2 := updateMinDistance a1 b0 b1 d1 false with hr2
  set r3 := updateMinDistance b0 a0 a1 r2.1 false with hr3
  set r4 := updateMinDistance b1 a0 a1 r3.1 false with hr4
  obtain ⟨⟨m1, m2, m3, m4⟩, ⟨s1, s2, s3, s4⟩, ⟨t1, t2, t3, t4⟩⟩ := pair_facts a0 a1 b0 b1
  obtain ⟨e1l, e1u⟩ := abs_le.mp e1
  have hA1 : allowedError a0 b0 b1 ≤ lowSlack a0 b0 b1 := le_max_left _ _
  have hA2 : allowedError a0 b0 b1 ≤ highSlack a0 b0 b1 := le_max_left _ _
  refine ⟨f4, n4, trivial, ?_, ?_⟩
  · by_contra hcon
    have c2 := not_le.mp hcon
    rcases min_le_iff.mp l4 with q4 | q4
    · rcases min_le_iff.mp l3 with q3 | q3
      · rcases min_le_iff.mp l2 with q2 | q2
        · linarith
        · linarith
      · linarith
    · linarith
  · rcases pairMin4_cases a0 a1 b0 b1 with e | e | e | e <;> rw [e] <;> linarith

end S2Proofs.C17Pairs
