/-
  C17Pairs.ProjScalar — scalar real-analysis lemmas for the float evaluation of `Project`'s un-normalised point
      p = x − c·(x·c / |c|²)          (c = PointCross(a, b), one component at a time)

      chainA        the rounded quotient t = fl(fl(x·c)/fl(|c|²)) :  |cᵢ·t − cᵢ·D/Lc²| ≤ 7.1u  and  |cᵢ·t| ≤ 1.01, |d/c2| ≤ 2^36
      chainB        one component of p against xᵢ − cᵢ·D/Lc²  (10.5u)
      planeChange   replacing the computed normal c by the exact one C (|c − C| ≤ η|C|):  |cᵢ·D/Lc² − Cᵢ·DC/LC²| ≤ 18u
-/
import S2Proofs.FloatErr.StdModel
import Mathlib.Tactic.Linarith
import Mathlib.Tactic.Positivity
import Mathlib.Tactic.FieldSimp
import Mathlib.Tactic.Ring

set_option linter.unusedSimpArgs false
set_option linter.unusedVariables false

namespace S2Proofs.C17Pairs
open S2Proofs.FloatErr

theorem abs_mul_le_mul {a b A B : ℝ} (ha : |a| ≤ A) (hb : |b| ≤ B) : |a * b| ≤ A * B := by
  rw [abs_mul]
  exact mul_le_mul ha hb (abs_nonneg _) (le_trans (abs_nonneg _) ha)

/-! numeric facts (no context) -/
theorem nA1 : (1 + 8 * uR) * (1 - 301 / 100 * uR) ≥ 1 + 4 * uR := by unfold uR; norm_num
theorem nA2 : (8 : ℝ) * (1 - 301 / 100 * uR) ≥ 7 := by unfold uR; norm_num
theorem nA3 : 0 < 1 - 301 / 100 * uR := by unfold uR; norm_num
theorem nA4 : 301 / 100 * uR * (1 + 8 * uR) ≤ 302 / 100 * uR := by unfold uR; norm_num
theorem nA5 : 301 / 100 * uR * 8 ≤ 1 := by unfold uR; norm_num
theorem nA6 : uR * (1 + 8 * uR) ≤ 11 / 10 * uR := by unfold uR; norm_num
theorem nA7 : uR * 8 ≤ 9 := by unfold uR; norm_num
theorem nA8 : (26 : ℝ) * (1 / 2 ^ 200) ≤ 1 / 2 ^ 150 * (1 / 2 ^ 35) := by norm_num
theorem nA9 : 72 / 10 * uR * (1 + 1 / 2 ^ 52) + 1 / 2 ^ 150 ≤ 73 / 10 * uR := by unfold uR; norm_num
theorem nA10 : 73 / 10 * uR + (1 + 1 / 2 ^ 52) ≤ 101 / 100 := by unfold uR; norm_num
theorem nA11 : (1 + 8 * uR) * (1 + 1 / 2 ^ 52) ≤ 2 := by unfold uR; norm_num
theorem nA12 : (8 : ℝ) * (1 / 2 ^ 200) ≤ 1 / 2 ^ 70 := by norm_num
theorem nA13 : (2 : ℝ) ^ 35 * (1 / 2 ^ 35) = 1 := by norm_num
theorem nA14 : (1 : ℝ) / 2 ^ 35 * (1 / 2 ^ 35) = 1 / 2 ^ 70 := by norm_num

/-- the exact quotient `q = d / c2` scaled by `Lc²` -/
theorem chainA1 {e lx Lc D d c2 Y : ℝ} (he0 : 0 ≤ e) (hlL : 0 < lx * Lc) (hLL : 0 < Lc * Lc)
    (hD : |D| ≤ lx * Lc) (hd : |d - D| ≤ 301 / 100 * uR * (lx * Lc) + 7 * e)
    (hc2 : |c2 - Lc * Lc| ≤ 301 / 100 * uR * (Lc * Lc)) (hc2pos : 0 < c2)
    (hY : Y = d / c2 * (Lc * Lc)) :
    |Y| ≤ (1 + 8 * uR) * (lx * Lc) + 8 * e ∧ |Y - D| ≤ 61 / 10 * uR * (lx * Lc) + 8 * e := by
  have hu0 : 0 ≤ uR := uR_nonneg
  obtain ⟨q, hq⟩ : ∃ q, q = d / c2 := ⟨_, rfl⟩
  rw [← hq] at hY
  have hqc : q * c2 = d := by rw [hq]; field_simp
  have e2 : |Y| = |q| * (Lc * Lc) := by rw [hY, abs_mul, abs_of_pos hLL]
  have hdY : |d - Y| ≤ 301 / 100 * uR * |Y| := by
    have e1 : d - Y = q * (c2 - Lc * Lc) := by rw [hY, ← hqc]; ring
    rw [e1, abs_mul, e2]
    have := mul_le_mul_of_nonneg_left hc2 (abs_nonneg q)
    have a : |q| * (301 / 100 * uR * (Lc * Lc)) = 301 / 100 * uR * (|q| * (Lc * Lc)) := by ring
    linarith
  have hdabs : |d| ≤ (1 + 4 * uR) * (lx * Lc) + 7 * e := by
    have h1 : |d| ≤ |d - D| + |D| := by
      have := abs_add_le (d - D) D
      rwa [sub_add_cancel] at this
    have h2 : 301 / 100 * uR * (lx * Lc) ≤ 4 * uR * (lx * Lc) :=
      mul_le_mul_of_nonneg_right (by linarith) hlL.le
    have a : (1 + 4 * uR) * (lx * Lc) = lx * Lc + 4 * uR * (lx * Lc) := by ring
    linarith
  have hYabs : |Y| ≤ (1 + 8 * uR) * (lx * Lc) + 8 * e := by
    have h1 : |Y| ≤ |d - Y| + |d| := by
      have := abs_sub_abs_le_abs_sub Y d
      rw [abs_sub_comm Y d] at this; linarith
    have h3 : (1 - 301 / 100 * uR) * |Y| ≤ (1 + 4 * uR) * (lx * Lc) + 7 * e := by
      have a : (1 - 301 / 100 * uR) * |Y| = |Y| - 301 / 100 * uR * |Y| := by ring
      linarith
    have hk := nA1
    have hk2 := nA2
    have hpos := nA3
    have b1 : (1 + 4 * uR) * (lx * Lc) ≤ ((1 + 8 * uR) * (1 - 301 / 100 * uR)) * (lx * Lc) :=
      mul_le_mul_of_nonneg_right hk hlL.le
    have b2 : 7 * e ≤ (8 * (1 - 301 / 100 * uR)) * e := mul_le_mul_of_nonneg_right hk2 he0
    have b3 : (1 - 301 / 100 * uR) * |Y| ≤ (1 - 301 / 100 * uR) * ((1 + 8 * uR) * (lx * Lc) + 8 * e) := by
      have a : (1 - 301 / 100 * uR) * ((1 + 8 * uR) * (lx * Lc) + 8 * e)
          = ((1 + 8 * uR) * (1 - 301 / 100 * uR)) * (lx * Lc) + (8 * (1 - 301 / 100 * uR)) * e := by ring
      linarith
    exact le_of_mul_le_mul_left b3 hpos
  refine ⟨hYabs, ?_⟩
  have h1 : |Y - D| ≤ |d - Y| + |d - D| := by
    have e1 : Y - D = -(d - Y) + (d - D) := by ring
    rw [e1]
    have := abs_add_le (-(d - Y)) (d - D)
    rwa [abs_neg] at this
  have h2 : 301 / 100 * uR * |Y| ≤ 301 / 100 * uR * ((1 + 8 * uR) * (lx * Lc) + 8 * e) :=
    mul_le_mul_of_nonneg_left hYabs (by linarith)
  have h3 : 301 / 100 * uR * ((1 + 8 * uR) * (lx * Lc) + 8 * e) ≤ 302 / 100 * uR * (lx * Lc) + e := by
    have c1 := mul_le_mul_of_nonneg_right nA4 hlL.le
    have c2' := mul_le_mul_of_nonneg_right nA5 he0
    have a : 301 / 100 * uR * ((1 + 8 * uR) * (lx * Lc) + 8 * e)
        = 301 / 100 * uR * (1 + 8 * uR) * (lx * Lc) + 301 / 100 * uR * 8 * e := by ring
    linarith
  have h4 : 301 / 100 * uR * (lx * Lc) + 302 / 100 * uR * (lx * Lc) ≤ 61 / 10 * uR * (lx * Lc) := by
    have a : 301 / 100 * uR * (lx * Lc) + 302 / 100 * uR * (lx * Lc) = 603 / 100 * (uR * (lx * Lc)) := by ring
    have b : 61 / 10 * uR * (lx * Lc) = 61 / 10 * (uR * (lx * Lc)) := by ring
    have c : 0 ≤ uR * (lx * Lc) := mul_nonneg hu0 hlL.le
    linarith
  linarith

/-- the rounded quotient `t` scaled by `Lc²` -/
theorem chainA2 {e lx Lc D d c2 t Y : ℝ} (he0 : 0 ≤ e) (hlL : 0 < lx * Lc) (hLL : 0 < Lc * Lc) (hL9 : Lc * Lc ≤ 9)
    (hY : Y = d / c2 * (Lc * Lc))
    (hYabs : |Y| ≤ (1 + 8 * uR) * (lx * Lc) + 8 * e) (hYD : |Y - D| ≤ 61 / 10 * uR * (lx * Lc) + 8 * e)
    (ht : |t - d / c2| ≤ uR * |d / c2| + e) :
    |t * (Lc * Lc) - D| ≤ 72 / 10 * uR * (lx * Lc) + 26 * e := by
  have hu0 : 0 ≤ uR := uR_nonneg
  obtain ⟨q, hq⟩ : ∃ q, q = d / c2 := ⟨_, rfl⟩
  rw [← hq] at hY ht
  have e2 : |Y| = |q| * (Lc * Lc) := by rw [hY, abs_mul, abs_of_pos hLL]
  have hZY : |t * (Lc * Lc) - Y| ≤ uR * |Y| + 9 * e := by
    have e1 : t * (Lc * Lc) - Y = (t - q) * (Lc * Lc) := by rw [hY]; ring
    rw [e1, abs_mul, abs_of_pos hLL, e2]
    have h1 := mul_le_mul_of_nonneg_right ht hLL.le
    have h3 : e * (Lc * Lc) ≤ e * 9 := mul_le_mul_of_nonneg_left hL9 he0
    have a : (uR * |q| + e) * (Lc * Lc) = uR * (|q| * (Lc * Lc)) + e * (Lc * Lc) := by ring
    linarith
  have h1 : |t * (Lc * Lc) - D| ≤ |t * (Lc * Lc) - Y| + |Y - D| := by
    have e1 : t * (Lc * Lc) - D = (t * (Lc * Lc) - Y) + (Y - D) := by ring
    rw [e1]; exact abs_add_le _ _
  have h2 : uR * |Y| ≤ uR * ((1 + 8 * uR) * (lx * Lc) + 8 * e) := mul_le_mul_of_nonneg_left hYabs hu0
  have h3 : uR * ((1 + 8 * uR) * (lx * Lc) + 8 * e) ≤ 11 / 10 * uR * (lx * Lc) + 9 * e := by
    have c1 := mul_le_mul_of_nonneg_right nA6 hlL.le
    have c2' := mul_le_mul_of_nonneg_right nA7 he0
    have a : uR * ((1 + 8 * uR) * (lx * Lc) + 8 * e) = uR * (1 + 8 * uR) * (lx * Lc) + uR * 8 * e := by ring
    linarith
  have a : 11 / 10 * uR * (lx * Lc) + 61 / 10 * uR * (lx * Lc) = 72 / 10 * uR * (lx * Lc) := by ring
  linarith

/-- the quotient `t = fl(d / c2)`, `d ≈ D = x·c`, `c2 ≈ Lc²`, against `D / Lc²`, multiplied by a component `|ci| ≤ Lc` -/
theorem chainA {e lx Lc D d c2 t ci : ℝ} (he0 : 0 ≤ e) (he : e ≤ 1 / 2 ^ 200)
    (hlx0 : 0 < lx) (hlx : lx ≤ 1 + 1 / 2 ^ 52) (hLc : 1 / 2 ^ 35 ≤ Lc) (hLc3 : Lc ≤ 3)
    (hD : |D| ≤ lx * Lc) (hd : |d - D| ≤ 301 / 100 * uR * (lx * Lc) + 7 * e)
    (hc2 : |c2 - Lc * Lc| ≤ 301 / 100 * uR * (Lc * Lc)) (hc2pos : 0 < c2)
    (ht : |t - d / c2| ≤ uR * |d / c2| + e) (hci : |ci| ≤ Lc) :
    |ci * t - ci * (D / (Lc * Lc))| ≤ 73 / 10 * uR ∧ |ci * t| ≤ 101 / 100 ∧ |d / c2| ≤ 2 ^ 37 := by
  have hu0 : 0 ≤ uR := uR_nonneg
  have hLcpos : 0 < Lc := lt_of_lt_of_le (by positivity) hLc
  have hLL : 0 < Lc * Lc := mul_pos hLcpos hLcpos
  have hlL : 0 < lx * Lc := mul_pos hlx0 hLcpos
  have hL9 : Lc * Lc ≤ 9 := by
    have := mul_le_mul hLc3 hLc3 hLcpos.le (by norm_num : (0 : ℝ) ≤ 3)
    linarith
  obtain ⟨Y, hY⟩ : ∃ Y, Y = d / c2 * (Lc * Lc) := ⟨_, rfl⟩
  obtain ⟨hYabs, hYD⟩ := chainA1 he0 hlL hLL hD hd hc2 hc2pos hY
  have hZD := chainA2 he0 hlL hLL hL9 hY hYabs hYD ht
  obtain ⟨g, hg⟩ : ∃ g, g = D / (Lc * Lc) := ⟨_, rfl⟩
  rw [← hg]
  have hgL : g * (Lc * Lc) = D := by rw [hg]; field_simp
  have key : |ci * t - ci * g| * Lc ≤ |t * (Lc * Lc) - D| := by
    have e1 : ci * t - ci * g = ci * (t - g) := by ring
    have e2 : t * (Lc * Lc) - D = (t - g) * (Lc * Lc) := by rw [← hgL]; ring
    rw [e1, e2, abs_mul, abs_mul, abs_of_pos hLL]
    have := mul_le_mul_of_nonneg_right hci (mul_nonneg (abs_nonneg (t - g)) hLcpos.le)
    have a : |ci| * |t - g| * Lc = |ci| * (|t - g| * Lc) := by ring
    have b : Lc * (|t - g| * Lc) = |t - g| * (Lc * Lc) := by ring
    linarith
  have hetiny : 26 * e ≤ 1 / 2 ^ 150 * Lc := by
    have h2 : 26 * e ≤ 26 * (1 / 2 ^ 200) := by linarith
    have h3 : (1 : ℝ) / 2 ^ 150 * (1 / 2 ^ 35) ≤ 1 / 2 ^ 150 * Lc :=
      mul_le_mul_of_nonneg_left hLc (by positivity)
    have := nA8
    linarith
  have hmain : |ci * t - ci * g| ≤ 72 / 10 * uR * lx + 1 / 2 ^ 150 := by
    have h1 : |ci * t - ci * g| * Lc ≤ (72 / 10 * uR * lx + 1 / 2 ^ 150) * Lc := by
      have a : (72 / 10 * uR * lx + 1 / 2 ^ 150) * Lc = 72 / 10 * uR * (lx * Lc) + 1 / 2 ^ 150 * Lc := by ring
      linarith
    exact le_of_mul_le_mul_right h1 hLcpos
  have hlx' : 72 / 10 * uR * lx ≤ 72 / 10 * uR * (1 + 1 / 2 ^ 52) := mul_le_mul_of_nonneg_left hlx (by linarith)
  have hcg : |ci * g| ≤ lx := by
    have h1 : |ci * g| * Lc ≤ lx * Lc := by
      rw [abs_mul]
      have e1 : |g| * (Lc * Lc) = |D| := by rw [← hgL, abs_mul, abs_of_pos hLL]
      have h2 : |ci| * |g| * Lc ≤ Lc * |g| * Lc :=
        mul_le_mul_of_nonneg_right (mul_le_mul_of_nonneg_right hci (abs_nonneg g)) hLcpos.le
      have a : Lc * |g| * Lc = |g| * (Lc * Lc) := by ring
      linarith
    exact le_of_mul_le_mul_right h1 hLcpos
  have hfin : |ci * t - ci * g| ≤ 73 / 10 * uR := by
    have := nA9
    linarith
  refine ⟨hfin, ?_, ?_⟩
  · have h1 : |ci * t| ≤ |ci * t - ci * g| + |ci * g| := by
      have := abs_add_le (ci * t - ci * g) (ci * g)
      rwa [sub_add_cancel] at this
    have := nA10
    linarith
  · have e2 : |Y| = |d / c2| * (Lc * Lc) := by rw [hY, abs_mul, abs_of_pos hLL]
    have h1 : |d / c2| * (Lc * Lc) ≤ 2 ^ 37 * (Lc * Lc) := by
      rw [← e2]
      have a1 : (1 + 8 * uR) * (lx * Lc) + 8 * e ≤ 2 * Lc + 8 * e := by
        have h5 : (1 + 8 * uR) * lx ≤ (1 + 8 * uR) * (1 + 1 / 2 ^ 52) := mul_le_mul_of_nonneg_left hlx (by linarith)
        have h6 := nA11
        have h7 : (1 + 8 * uR) * lx * Lc ≤ 2 * Lc := mul_le_mul_of_nonneg_right (by linarith) hLcpos.le
        have a : (1 + 8 * uR) * (lx * Lc) = (1 + 8 * uR) * lx * Lc := by ring
        linarith
      have a2 : 2 * Lc + 8 * e ≤ 2 ^ 37 * (Lc * Lc) := by
        have b1 : (1 : ℝ) ≤ 2 ^ 35 * Lc := by
          have := mul_le_mul_of_nonneg_left hLc (by positivity : (0 : ℝ) ≤ 2 ^ 35)
          have e3 := nA13
          linarith
        have b2 : 1 * (2 * Lc) ≤ 2 ^ 35 * Lc * (2 * Lc) := mul_le_mul_of_nonneg_right b1 (by linarith)
        have b2' : 2 ^ 35 * Lc * (2 * Lc) = 2 ^ 36 * (Lc * Lc) := by ring
        have b3 : 8 * e ≤ 1 / 2 ^ 70 := by
          have := nA12
          linarith
        have b4 : (1 : ℝ) / 2 ^ 70 ≤ Lc * Lc := by
          have := mul_le_mul hLc hLc (by positivity) hLcpos.le
          have e4 := nA14
          linarith
        have b5 : 1 * (Lc * Lc) ≤ 2 ^ 36 * (Lc * Lc) := mul_le_mul_of_nonneg_right (by norm_num) hLL.le
        have b6 : (2 : ℝ) ^ 37 * (Lc * Lc) = 2 ^ 36 * (Lc * Lc) + 2 ^ 36 * (Lc * Lc) := by ring
        linarith
      linarith
    exact le_of_mul_le_mul_right h1 hLL

/-- one component of `p = fl(x − fl(c·t))` against `xᵢ − G*`, given the product `G = cᵢ·t` is within `a` of `G*` -/
theorem chainB {e lx G Gs xi mi pi a : ℝ} (he0 : 0 ≤ e) (he : e ≤ 1 / 2 ^ 200) (hlx : lx ≤ 1 + 1 / 2 ^ 52)
    (hG : |G| ≤ 101 / 100) (hGs : |G - Gs| ≤ a) (hxi : |xi| ≤ lx)
    (hmi : |mi - G| ≤ uR * |G| + e) (hpi : |pi - (xi - mi)| ≤ uR * |xi - mi| + 0) :
    |pi - (xi - Gs)| ≤ a + 32 / 10 * uR := by
  have hu : uR = 1 / 2 ^ 53 := rfl
  have hu0 : 0 ≤ uR := uR_nonneg
  have h1 : |mi - G| ≤ 102 / 100 * uR := by
    have : uR * |G| ≤ uR * (101 / 100) := mul_le_mul_of_nonneg_left hG hu0
    have : e ≤ 1 / 100 * uR := by
      have : (1 : ℝ) / 2 ^ 200 ≤ 1 / 100 * uR := by rw [hu]; norm_num
      linarith
    linarith
  have h2 : |mi| ≤ 102 / 100 := by
    have : |mi| ≤ |mi - G| + |G| := by
      have := abs_add_le (mi - G) G
      rwa [sub_add_cancel] at this
    have : 102 / 100 * uR ≤ 1 / 100 := by rw [hu]; norm_num
    linarith
  have h3 : |xi - mi| ≤ 21 / 10 := by
    have := abs_sub xi mi
    have : (1 : ℝ) + 1 / 2 ^ 52 + 102 / 100 ≤ 21 / 10 := by norm_num
    linarith
  have h4 : |pi - (xi - mi)| ≤ 21 / 10 * uR := by
    have := mul_le_mul_of_nonneg_left h3 hu0
    linarith
  have e1 : pi - (xi - Gs) = (pi - (xi - mi)) - (mi - G) - (G - Gs) := by ring
  rw [e1]
  have t1 := abs_sub (pi - (xi - mi) - (mi - G)) (G - Gs)
  have t2 := abs_sub (pi - (xi - mi)) (mi - G)
  linarith

/-- **change of plane**: the coefficient computed with the float normal `c` against the one of the exact normal `C` -/
theorem planeChange {η lx Lc LC D DC ci Ci : ℝ} (hη0 : 0 ≤ η) (hη : η ≤ 44642 / 10000 * uR)
    (hlx0 : 0 < lx) (hlx : lx ≤ 1 + 1 / 2 ^ 52) (hLc : 0 < Lc) (hLC : 0 < LC)
    (hL : |Lc - LC| ≤ η * LC) (hD : |D| ≤ lx * Lc) (hDC : |DC| ≤ lx * LC) (hDD : |D - DC| ≤ lx * (η * LC))
    (hci : |ci| ≤ Lc) (hCi : |Ci| ≤ LC) (hcC : |ci - Ci| ≤ η * LC) :
    |ci * (D / (Lc * Lc)) - Ci * (DC / (LC * LC))| ≤ 18 * uR := by
  have hu : uR = 1 / 2 ^ 53 := rfl
  have hu0 : 0 ≤ uR := uR_nonneg
  have hηs : η ≤ 1 / 2 ^ 50 := by
    have : (44642 : ℝ) / 10000 * uR ≤ 1 / 2 ^ 50 := by rw [hu]; norm_num
    linarith
  obtain ⟨l1, l2⟩ := abs_le.mp hL
  have hLL : 0 < Lc * Lc := mul_pos hLc hLc
  have hCC : 0 < LC * LC := mul_pos hLC hLC
  -- LC ≤ κ·Lc
  have hκ : LC ≤ (1 + 2 * η) * Lc := by
    have h1 : LC * (1 - η) ≤ Lc := by nlinarith
    have h2 : (1 + 2 * η) * (1 - η) ≥ 1 := by nlinarith
    have h3 : LC ≤ LC * ((1 + 2 * η) * (1 - η)) := by nlinarith
    nlinarith
  set g := D / (Lc * Lc) with hg
  set gC := DC / (LC * LC) with hgC
  have hgL : g * (Lc * Lc) = D := by rw [hg]; field_simp
  have hgCL : gC * (LC * LC) = DC := by rw [hgC]; field_simp
  -- |g|·Lc ≤ lx
  have hg1 : |g| * Lc ≤ lx := by
    have e1 : |g| * (Lc * Lc) = |D| := by rw [← hgL, abs_mul, abs_of_pos hLL]
    have h1 : |g| * Lc * Lc ≤ lx * Lc := by nlinarith
    exact le_of_mul_le_mul_right h1 hLc
  have hg2 : |g| * LC ≤ (1 + 2 * η) * lx := by
    have h1 : |g| * LC ≤ |g| * ((1 + 2 * η) * Lc) := mul_le_mul_of_nonneg_left hκ (abs_nonneg g)
    have h2 : |g| * ((1 + 2 * η) * Lc) = (1 + 2 * η) * (|g| * Lc) := by ring
    have h3 : (1 + 2 * η) * (|g| * Lc) ≤ (1 + 2 * η) * lx := mul_le_mul_of_nonneg_left hg1 (by linarith)
    linarith
  -- term 1
  have t1 : |(ci - Ci) * g| ≤ η * ((1 + 2 * η) * lx) := by
    rw [abs_mul]
    have h1 : |ci - Ci| * |g| ≤ η * LC * |g| := mul_le_mul_of_nonneg_right hcC (abs_nonneg g)
    have h2 : η * LC * |g| = η * (|g| * LC) := by ring
    have h3 : η * (|g| * LC) ≤ η * ((1 + 2 * η) * lx) := mul_le_mul_of_nonneg_left hg2 hη0
    linarith
  -- term 2 :  (g − gC)·LC² = g·(LC² − Lc²) + (D − DC)
  have e2 : (g - gC) * (LC * LC) = g * (LC * LC - Lc * Lc) + (D - DC) := by
    rw [← hgL, ← hgCL]; ring
  have hsq : |LC * LC - Lc * Lc| ≤ η * LC * (LC + Lc) := by
    have e3 : LC * LC - Lc * Lc = (LC - Lc) * (LC + Lc) := by ring
    rw [e3, abs_mul, abs_of_pos (by linarith : 0 < LC + Lc)]
    have : |LC - Lc| ≤ η * LC := by rw [abs_sub_comm]; exact hL
    exact mul_le_mul_of_nonneg_right this (by linarith)
  have t2a : |(g - gC) * (LC * LC)| ≤ η * LC * ((2 + 2 * η) * lx) + lx * (η * LC) := by
    rw [e2]
    have h1 := abs_add_le (g * (LC * LC - Lc * Lc)) (D - DC)
    have h2 : |g * (LC * LC - Lc * Lc)| ≤ |g| * (η * LC * (LC + Lc)) := by
      rw [abs_mul]; exact mul_le_mul_of_nonneg_left hsq (abs_nonneg g)
    have h3 : |g| * (η * LC * (LC + Lc)) = η * LC * (|g| * LC + |g| * Lc) := by ring
    have h4 : η * LC * (|g| * LC + |g| * Lc) ≤ η * LC * ((2 + 2 * η) * lx) := by
      apply mul_le_mul_of_nonneg_left _ (mul_nonneg hη0 hLC.le)
      linarith
    linarith
  have t2 : |Ci * (g - gC)| ≤ η * ((3 + 2 * η) * lx) := by
    have h1 : |Ci * (g - gC)| * LC ≤ |(g - gC) * (LC * LC)| := by
      rw [abs_mul, abs_mul, abs_of_pos hCC]
      have := mul_le_mul_of_nonneg_right hCi (mul_nonneg (abs_nonneg (g - gC)) hLC.le)
      nlinarith
    have h2 : |Ci * (g - gC)| * LC ≤ (η * ((3 + 2 * η) * lx)) * LC := by
      have : η * LC * ((2 + 2 * η) * lx) + lx * (η * LC) = (η * ((3 + 2 * η) * lx)) * LC := by ring
      linarith
    exact le_of_mul_le_mul_right h2 hLC
  have e4 : ci * g - Ci * gC = (ci - Ci) * g + Ci * (g - gC) := by ring
  rw [e4]
  have h5 := abs_add_le ((ci - Ci) * g) (Ci * (g - gC))
  have h6 : η * ((1 + 2 * η) * lx) + η * ((3 + 2 * η) * lx) = η * ((4 + 4 * η) * lx) := by ring
  have h7 : η * ((4 + 4 * η) * lx) ≤ 18 * uR := by
    have a1 : (4 + 4 * η) * lx ≤ (4 + 4 * (1 / 2 ^ 50)) * (1 + 1 / 2 ^ 52) :=
      mul_le_mul (by linarith) hlx hlx0.le (by positivity)
    have a2 : η * ((4 + 4 * η) * lx) ≤ (44642 / 10000 * uR) * ((4 + 4 * (1 / 2 ^ 50)) * (1 + 1 / 2 ^ 52)) :=
      mul_le_mul hη a1 (mul_nonneg (by linarith) hlx0.le) (by linarith)
    have a3 : (44642 / 10000 * uR) * ((4 + 4 * (1 / 2 ^ 50)) * (1 + 1 / 2 ^ 52)) ≤ 18 * uR := by rw [hu]; norm_num
    linarith
  linarith

end S2Proofs.C17Pairs
