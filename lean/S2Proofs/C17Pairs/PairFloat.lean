/-
  C17Pairs.PairFloat — float glue for `updateEdgePairMinDistance` (non-crossing case): one step of the chain
  `UpdateMinDistance(x, a, b, m)` against the true point-to-arc distance, and the chain of four.
-/
import S2Proofs.C17Pairs.MaxFloat

set_option linter.unusedSimpArgs false
set_option linter.unusedVariables false

namespace S2Proofs.C17Pairs
open S2 S2.Exact S2.EdgeNum S2Proofs.F64Order S2Proofs.FloatErr S2Proofs.C17Err S2Proofs.C17Err.R3 S2Proofs.C17

/-- the early exit of `interiorDist`: `xDotC2 > c2 * minDist` (taken BEFORE the wedge test) -/
def earlyExit (x a b : V3) (m : F64) : Bool :=
  F64.gt (x.dot (pointCross a b) * x.dot (pointCross a b)) ((pointCross a b).norm2 * m)

/-- **the three ways `UpdateMinDistance(x,a,b,m)` can end** -/
theorem step_cases (x a b : V3) (m : F64) :
    (updateMinDistance x a b m false = (interiorVal x a b, true) ∧ interiorBranch x a b = true ∧
        F64.ge (interiorVal x a b) m = false) ∨
    (updateMinDistance x a b m false
        = (if F64.ge (vertexDist x a b) m = true then (m, false) else (vertexDist x a b, true)) ∧
      (interiorBranch x a b = false ∨ earlyExit x a b m = true ∨ F64.ge (interiorVal x a b) m = true)) := by
  rw [interiorBranch_eq]
  unfold updateMinDistance interiorDist prefilterRejects wedgeA wedgeB interiorVal vertexDist earlyExit
  simp only [Bool.not_false, Bool.true_and]
  split_ifs <;> simp_all <;> (rcases ‹_ ∨ _› with h | h <;> simp [h])

/-- the hypotheses of c17err's two-sided theorem for one point-to-edge call -/
structure CallOK (x a b : V3) : Prop where
  hx : UnitPt x
  ha : UnitPt a
  hb : UnitPt b
  hE : EdgeOK a b
  hM : WedgeMargin x a b

/-- the slack of the LOWER bound of one call: the documented bound of the always-computed value, or `MaxPointError` of
    the vertex value (the value `UpdateMinDistance` returns when its interior test exits early) -/
noncomputable def lowSlack (x a b : V3) : ℝ :=
  max (allowedError x a b) (val (maxPointError (vertexDist x a b)))

/-- **one step of the chain**: `UpdateMinDistance(x, a, b, m)` for a finite threshold `m` -/
theorem step_bound {x a b : V3} (h : CallOK x a b) {m : F64} (hm : Fin m) :
    Fin (updateMinDistance x a b m false).1 ∧
    val (updateMinDistance x a b m false).1 ≤ val m ∧
    min (val m) (trueDist2 x a b - lowSlack x a b) ≤ val (updateMinDistance x a b m false).1 ∧
    (earlyExit x a b m = false →
      val (updateMinDistance x a b m false).1 ≤ trueDist2 x a b + allowedError x a b) := by
  obtain ⟨hx, ha, hb, hE, hM⟩ := h
  have herr := distanceWithinMaxError_of_margin x a b hx ha hb hE hM
  rw [fval_eq_val] at herr
  obtain ⟨e1, e2⟩ := abs_le.mp herr
  have hD := chord_by_branch x a b
  -- the vertex value
  obtain ⟨fV, _, hVerr, _, hVle⟩ := vertexDist_spec delta0_nonneg (le_refl _) hx ha hb
  have hVlow : trueDist2 x a b - val (maxPointError (vertexDist x a b)) ≤ val (vertexDist x a b) := by
    have h1 := (abs_le.mp hVerr).1
    have h2 := trueDist2_le_endpoints hx.len_pos ha.len_pos hb.len_pos (x := x) (a := a) (b := b)
    linarith
  have hL1 : allowedError x a b ≤ lowSlack x a b := le_max_left _ _
  have hL2 : val (maxPointError (vertexDist x a b)) ≤ lowSlack x a b := le_max_right _ _
  have hfD : Fin (distanceFromSegmentChord x a b) := by
    by_cases hb' : interiorBranch x a b = true
    · exact (interior_case_within_documented x a b hx ha hb hE hb').1
    · have hb'' : interiorBranch x a b = false := by cases h : interiorBranch x a b <;> simp_all
      exact (vertex_case_within_maxPointError x a b hx ha hb hb'').1
  rcases step_cases x a b m with ⟨hr, hib, hge⟩ | ⟨hr, hwhy⟩
  · -- the interior value is returned
    rw [hr]
    rw [if_pos hib] at hD
    rw [hD] at hfD e1 e2
    have hlt : val (interiorVal x a b) < val m := by
      by_contra hc
      have := (ge_val hfD hm).mpr (not_lt.mp hc)
      rw [this] at hge; cases hge
    refine ⟨hfD, hlt.le, ?_, fun _ => by linarith⟩
    exact le_trans (min_le_right _ _) (by linarith)
  · rw [hr]
    -- the always-computed value against m, when no early exit
    have hup : earlyExit x a b m = false → F64.ge (vertexDist x a b) m = true →
        val m ≤ trueDist2 x a b + allowedError x a b := by
      intro hee hgv
      have hmV := (ge_val fV hm).mp hgv
      by_cases hib : interiorBranch x a b = true
      · rw [if_pos hib] at hD
        rw [hD] at hfD e1 e2
        rcases hwhy with h | h | h
        · rw [hib] at h; cases h
        · rw [hee] at h; cases h
        · have := (ge_val hfD hm).mp h
          linarith
      · rw [if_neg hib] at hD
        rw [hD] at e2
        linarith
    have hupV : earlyExit x a b m = false → F64.ge (vertexDist x a b) m = false →
        val (vertexDist x a b) ≤ trueDist2 x a b + allowedError x a b := by
      intro hee hgv
      have hVm : val (vertexDist x a b) < val m := by
        by_contra hc
        have := (ge_val fV hm).mpr (not_lt.mp hc)
        rw [this] at hgv; cases hgv
      by_cases hib : interiorBranch x a b = true
      · rw [if_pos hib] at hD
        rw [hD] at hfD e1 e2
        rcases hwhy with h | h | h
        · rw [hib] at h; cases h
        · rw [hee] at h; cases h
        · have := (ge_val hfD hm).mp h
          linarith
      · rw [if_neg hib] at hD
        rw [hD] at e2
        linarith
    by_cases hgv : F64.ge (vertexDist x a b) m = true
    · rw [if_pos hgv]
      exact ⟨hm, le_refl _, min_le_left _ _, fun hee => hup hee hgv⟩
    · have hgv' : F64.ge (vertexDist x a b) m = false := by cases h : F64.ge (vertexDist x a b) m <;> simp_all
      rw [if_neg hgv]
      have hVm : val (vertexDist x a b) < val m := by
        by_contra hc
        have := (ge_val fV hm).mpr (not_lt.mp hc)
        exact hgv this
      refine ⟨fV, hVm.le, ?_, fun hee => hupV hee hgv'⟩
      exact le_trans (min_le_right _ _) (by linarith)

/-- none of the four calls leaves `interiorDist` through the early exit `xDotC2 > c2·minDist` -/
def noEarlyExit (a0 a1 b0 b1 : V3) (m : F64) : Bool :=
  !earlyExit a0 b0 b1 m && !earlyExit a1 b0 b1 (edgeChain a0 a1 b0 b1 m).1.1 &&
  !earlyExit b0 a0 a1 (edgeChain a0 a1 b0 b1 m).2.1.1 && !earlyExit b1 a0 a1 (edgeChain a0 a1 b0 b1 m).2.2.1.1

noncomputable def pairLow (a0 a1 b0 b1 : V3) : ℝ :=
  max (max (lowSlack a0 b0 b1) (lowSlack a1 b0 b1)) (max (lowSlack b0 a0 a1) (lowSlack b1 a0 a1))

noncomputable def pairHigh (a0 a1 b0 b1 : V3) : ℝ :=
  max (max (allowedError a0 b0 b1) (allowedError a1 b0 b1)) (max (allowedError b0 a0 a1) (allowedError b1 a0 a1))

/-- **the chain of four** (non-crossing case of `updateEdgePairMinDistance`, finite threshold `m ≠ 0`) -/
theorem chain_bound {a0 a1 b0 b1 : V3} (h1 : CallOK a0 b0 b1) (h2 : CallOK a1 b0 b1) (h3 : CallOK b0 a0 a1)
    (h4 : CallOK b1 a0 a1) {m : F64} (hm : Fin m) (hz : F64.feq m fz = false) (hc : crosses a0 a1 b0 b1 = false) :
    Fin (updateEdgePairMinDistance a0 a1 b0 b1 m).1 ∧
    val (updateEdgePairMinDistance a0 a1 b0 b1 m).1 ≤ val m ∧
    min (val m) (pairMin4 a0 a1 b0 b1 - pairLow a0 a1 b0 b1) ≤ val (updateEdgePairMinDistance a0 a1 b0 b1 m).1 ∧
    (noEarlyExit a0 a1 b0 b1 m = true →
      val (updateEdgePairMinDistance a0 a1 b0 b1 m).1 ≤ pairMin4 a0 a1 b0 b1 + pairHigh a0 a1 b0 b1) := by
  rw [edgePair_no_crossing a0 a1 b0 b1 m hz hc]
  unfold noEarlyExit edgeChain
  simp only
  obtain ⟨f1, u1, l1, g1⟩ := step_bound h1 hm
  obtain ⟨f2, u2, l2, g2⟩ := step_bound h2 f1
  obtain ⟨f3, u3, l3, g3⟩ := step_bound h3 f2
  obtain ⟨f4, u4, l4, g4⟩ := step_bound h4 f3
  set r1 := updateMinDistance a0 b0 b1 m false with hr1
  set r2 := updateMinDistance a1 b0 b1 r1.1 false with hr2
  set r3 := updateMinDistance b0 a0 a1 r2.1 false with hr3
  set r4 := updateMinDistance b1 a0 a1 r3.1 false with hr4
  -- the four true values and slacks against the pair quantities
  have m1 : pairMin4 a0 a1 b0 b1 ≤ trueDist2 a0 b0 b1 := le_trans (min_le_left _ _) (min_le_left _ _)
  have m2 : pairMin4 a0 a1 b0 b1 ≤ trueDist2 a1 b0 b1 := le_trans (min_le_left _ _) (min_le_right _ _)
  have m3 : pairMin4 a0 a1 b0 b1 ≤ trueDist2 b0 a0 a1 := le_trans (min_le_right _ _) (min_le_left _ _)
  have m4 : pairMin4 a0 a1 b0 b1 ≤ trueDist2 b1 a0 a1 := le_trans (min_le_right _ _) (min_le_right _ _)
  have s1 : lowSlack a0 b0 b1 ≤ pairLow a0 a1 b0 b1 := le_trans (le_max_left _ _) (le_max_left _ _)
  have s2 : lowSlack a1 b0 b1 ≤ pairLow a0 a1 b0 b1 := le_trans (le_max_right _ _) (le_max_left _ _)
  have s3 : lowSlack b0 a0 a1 ≤ pairLow a0 a1 b0 b1 := le_trans (le_max_left _ _) (le_max_right _ _)
  have s4 : lowSlack b1 a0 a1 ≤ pairLow a0 a1 b0 b1 := le_trans (le_max_right _ _) (le_max_right _ _)
  have t1 : allowedError a0 b0 b1 ≤ pairHigh a0 a1 b0 b1 := le_trans (le_max_left _ _) (le_max_left _ _)
  have t2 : allowedError a1 b0 b1 ≤ pairHigh a0 a1 b0 b1 := le_trans (le_max_right _ _) (le_max_left _ _)
  have t3 : allowedError b0 a0 a1 ≤ pairHigh a0 a1 b0 b1 := le_trans (le_max_left _ _) (le_max_right _ _)
  have t4 : allowedError b1 a0 a1 ≤ pairHigh a0 a1 b0 b1 := le_trans (le_max_right _ _) (le_max_right _ _)
  refine ⟨f4, by linarith, ?_, ?_⟩
  · -- lower bound
    by_contra hcon
    have hcon := not_le.mp hcon
    have c1 : val r4.1 < val m := lt_of_lt_of_le hcon (min_le_left _ _)
    have c2 : val r4.1 < pairMin4 a0 a1 b0 b1 - pairLow a0 a1 b0 b1 := lt_of_lt_of_le hcon (min_le_right _ _)
    rcases min_le_iff.mp l4 with q4 | q4
    · rcases min_le_iff.mp l3 with q3 | q3
      · rcases min_le_iff.mp l2 with q2 | q2
        · rcases min_le_iff.mp l1 with q1 | q1
          · linarith
          · linarith
        · linarith
      · linarith
    · linarith
  · -- upper bound
    intro hne
    simp only [Bool.and_eq_true, Bool.not_eq_true'] at hne
    obtain ⟨⟨⟨n1, n2⟩, n3⟩, n4⟩ := hne
    have b1' := g1 n1
    have b2' := g2 n2
    have b3' := g3 n3
    have b4' := g4 n4
    -- pairMin4 is one of the four
    have hone : pairMin4 a0 a1 b0 b1 = trueDist2 a0 b0 b1 ∨ pairMin4 a0 a1 b0 b1 = trueDist2 a1 b0 b1 ∨
        pairMin4 a0 a1 b0 b1 = trueDist2 b0 a0 a1 ∨ pairMin4 a0 a1 b0 b1 = trueDist2 b1 a0 a1 := by
      unfold pairMin4
      rcases le_total (min (trueDist2 a0 b0 b1) (trueDist2 a1 b0 b1)) (min (trueDist2 b0 a0 a1) (trueDist2 b1 a0 a1)) with h | h
      · rw [min_eq_left h]
        rcases le_total (trueDist2 a0 b0 b1) (trueDist2 a1 b0 b1) with g | g
        · rw [min_eq_left g]; exact Or.inl rfl
        · rw [min_eq_right g]; exact Or.inr (Or.inl rfl)
      · rw [min_eq_right h]
        rcases le_total (trueDist2 b0 a0 a1) (trueDist2 b1 a0 a1) with g | g
        · rw [min_eq_left g]; exact Or.inr (Or.inr (Or.inl rfl))
        · rw [min_eq_right g]; exact Or.inr (Or.inr (Or.inr rfl))
    rcases hone with e | e | e | e <;> rw [e] <;> linarith

end S2Proofs.C17Pairs
