/-
  C17Pairs.PairCore — the geometric core of `updateEdgePairMinDistance` (pure ℝ³).

  Two arcs `A = a0a1`, `B = b0b1` (cones `{s·a0 + t·a1}`, `{s·b0 + t·b1}`, unit points).  Let `c` be any number that
  bounds the cosine between each of the four ENDPOINTS and every point of the other arc.  Then for every pair of arc
  points `P ∈ A`, `Q ∈ B`:   the arcs have a common point,  or  `P·Q ≤ c`                       (`pair_core`).

  Proof.  `P·Q ≤ max over A of (·Q)`.  If `Q` is outside the open wedge of `A` that maximum is at an endpoint of `A`
  (`arc_nonwedge`) and `â_i·Q ≤ c`.  If `Q` is inside the wedge the maximum is `|n×Q|/|n|` (`gc_lower`), `n = a0×a1`, i.e.
  the cosine of the latitude of `Q` over the plane of `A`; say `Q·n > 0`.  The part of `B` inside the closed trihedral cone
  `K = cone(a0, a1, n)` (wedge ∩ upper half space) is a sub-arc `R1 R2 ∋ Q` (`enter3`); the height `Q·n/|Q|` is a concave
  function along a sub-arc on which it is ≥ 0, so `Q` is at least as high as the lower of `R1`, `R2`; and each end `R` is
     – an endpoint `b_j` strictly inside the wedge:  its latitude cosine is attained on `A` (`wedge_attained`), so ≤ c;
     – on a meridian face `R·(n×a_i) = 0`:            its latitude cosine IS `R̂·â_i` ≤ c  (`R̂ ∈ B`);
     – on the face `R·n = 0`:                         `R̂` lies on `A` — the arcs have a common point.
-/
import S2Proofs.C17Pairs.ArcBasics

set_option linter.unusedSimpArgs false
set_option linter.unusedVariables false

namespace S2Proofs.C17Pairs
open S2Proofs.C17Err S2Proofs.C17Err.R3

/-- the edge is not a pair of antipodal directions: the cone `{s·a + t·b}` meets `0` only at `s = t = 0` -/
def NotAntipodal (a b : R3) : Prop := 0 < (a.cross b).n2 ∨ 0 < a.dot b

theorem cone_pos {a b : R3} {s t : ℝ} (hs : 0 < s) (ht : 0 ≤ t) (ha : 0 < a.n2) (hb : 0 < b.n2)
    (hab : NotAntipodal a b) : 0 < (comb s a t b).n2 := by
  rw [comb_n2]
  rcases hab with h | h
  · rw [lagrange] at h
    have e : (s * s * a.n2 + 2 * (s * t) * a.dot b + t * t * b.n2) * b.n2
        = s * s * (a.n2 * b.n2 - a.dot b * a.dot b) + (s * a.dot b + t * b.n2) ^ 2 := by ring
    have h1 : 0 < s * s * (a.n2 * b.n2 - a.dot b * a.dot b) := mul_pos (mul_pos hs hs) h
    have h2 : 0 < (s * s * a.n2 + 2 * (s * t) * a.dot b + t * t * b.n2) * b.n2 := by
      rw [e]; have := sq_nonneg (s * a.dot b + t * b.n2); linarith
    exact (pos_iff_pos_of_mul_pos h2).mpr hb
  · have h1 : 0 < s * s * a.n2 := mul_pos (mul_pos hs hs) ha
    have h2 : 0 ≤ 2 * (s * t) * a.dot b := mul_nonneg (mul_nonneg (by norm_num) (mul_nonneg hs.le ht)) h.le
    have h3 : 0 ≤ t * t * b.n2 := mul_nonneg (mul_self_nonneg t) hb.le
    linarith

/-! ### identities in the basis `a0, a1, n = a0×a1` -/

theorem basis_expand (a0 a1 R : R3) :
    (a0.cross a1).n2 * R.x = (-(R.dot ((a0.cross a1).cross a1))) * a0.x + (R.dot ((a0.cross a1).cross a0)) * a1.x
        + (R.dot (a0.cross a1)) * (a0.cross a1).x ∧
    (a0.cross a1).n2 * R.y = (-(R.dot ((a0.cross a1).cross a1))) * a0.y + (R.dot ((a0.cross a1).cross a0)) * a1.y
        + (R.dot (a0.cross a1)) * (a0.cross a1).y ∧
    (a0.cross a1).n2 * R.z = (-(R.dot ((a0.cross a1).cross a1))) * a0.z + (R.dot ((a0.cross a1).cross a0)) * a1.z
        + (R.dot (a0.cross a1)) * (a0.cross a1).z := by
  unfold n2 dot cross
  refine ⟨by ring, by ring, by ring⟩

/-- Pythagoras in the orthogonal basis `a0, n, n×a0` -/
theorem face_pyth0 (a0 a1 R : R3) :
    R.n2 * a0.n2 * (a0.cross a1).n2
      = (R.dot a0) ^ 2 * (a0.cross a1).n2 + (R.dot (a0.cross a1)) ^ 2 * a0.n2
        + (R.dot ((a0.cross a1).cross a0)) ^ 2 := by
  unfold n2 dot cross; ring

theorem face_pyth1 (a0 a1 R : R3) :
    R.n2 * a1.n2 * (a0.cross a1).n2
      = (R.dot a1) ^ 2 * (a0.cross a1).n2 + (R.dot (a0.cross a1)) ^ 2 * a1.n2
        + (R.dot ((a0.cross a1).cross a1)) ^ 2 := by
  unfold n2 dot cross; ring

theorem face_sign0 (a0 a1 R : R3) :
    (-(R.dot ((a0.cross a1).cross a1))) * a0.n2
      = R.dot a0 * (a0.cross a1).n2 - a0.dot a1 * R.dot ((a0.cross a1).cross a0) := by
  unfold n2 dot cross; ring

theorem face_sign1 (a0 a1 R : R3) :
    (R.dot ((a0.cross a1).cross a0)) * a1.n2
      = R.dot a1 * (a0.cross a1).n2 + a0.dot a1 * R.dot ((a0.cross a1).cross a1) := by
  unfold n2 dot cross; ring

theorem le_of_sq_le {x y : ℝ} (hy : 0 ≤ y) (h : x * x ≤ y * y) : x ≤ y := by
  by_contra hc
  have hc := not_le.mp hc
  nlinarith

/-- a point `R` of the cone of `B` on a meridian face of the wedge of `A`: its latitude cosine over the plane of `A` is its
    cosine to that endpoint of `A` -/
theorem face_bound {a n R : R3} {c : ℝ} (hRpos : 0 < R.len) (ha : 0 < a.len) (hn : 0 < n.len)
    (hpyth : R.n2 * a.n2 * n.n2 = (R.dot a) ^ 2 * n.n2 + (R.dot n) ^ 2 * a.n2)
    (hsign : 0 ≤ R.dot a)
    (hA : a.dot R ≤ c * a.len * R.len) :
    (n.cross R).len ≤ c * (n.len * R.len) := by
  have hl := lagrange n R
  have e1 := len_sq a
  have e2 := len_sq n
  have e3 := len_sq R
  have hsq : ((n.cross R).len * a.len) * ((n.cross R).len * a.len) = (R.dot a * n.len) * (R.dot a * n.len) := by
    have : ((n.cross R).len * a.len) * ((n.cross R).len * a.len)
        = ((n.cross R).len * (n.cross R).len) * (a.len * a.len) := by ring
    rw [this, len_sq, e1, hl]
    have e4 : n.dot R = R.dot n := dot_comm n R
    rw [e4]
    have : (R.dot a * n.len) * (R.dot a * n.len) = (R.dot a) ^ 2 * (n.len * n.len) := by ring
    rw [this, e2]
    nlinarith
  have h1 : (n.cross R).len * a.len ≤ R.dot a * n.len :=
    le_of_sq_le (mul_nonneg hsign hn.le) (le_of_eq hsq)
  have e5 : R.dot a = a.dot R := dot_comm R a
  rw [e5] at h1
  have h2 : a.dot R * n.len ≤ c * a.len * R.len * n.len := mul_le_mul_of_nonneg_right hA hn.le
  have h3 : (n.cross R).len * a.len ≤ (c * (n.len * R.len)) * a.len := by nlinarith
  exact le_of_mul_le_mul_right h3 ha

/-- the bound a cone point `R` of `B` has to satisfy -/
def LatBound (a0 a1 R : R3) (c : ℝ) : Prop :=
  ((a0.cross a1).cross R).len ≤ c * ((a0.cross a1).len * R.len)

/-- **an end of the sub-arc of `B` inside the closed wedge of `A`** -/
theorem endpoint_bound {a0 a1 b0 b1 R : R3} {c : ℝ}
    (ha0 : 0 < a0.len) (ha1 : 0 < a1.len) (hn : 0 < (a0.cross a1).len)
    (hRpos : 0 < R.len) (hRB : OnArc b0 b1 (comb (1 / R.len) R 0 R))
    (hw0 : 0 ≤ R.dot ((a0.cross a1).cross a0)) (hw1 : 0 ≤ -(R.dot ((a0.cross a1).cross a1)))
    (hA0 : ∀ P, OnArc b0 b1 P → a0.dot P ≤ c * a0.len)
    (hA1 : ∀ P, OnArc b0 b1 P → a1.dot P ≤ c * a1.len)
    (hcase : R.dot ((a0.cross a1).cross a0) = 0 ∨ -(R.dot ((a0.cross a1).cross a1)) = 0 ∨ R.dot (a0.cross a1) = 0 ∨
      ((0 < R.dot ((a0.cross a1).cross a0) ∧ 0 < -(R.dot ((a0.cross a1).cross a1))) ∧
        ∀ P, OnArc a0 a1 P → R.dot P ≤ c * R.len)) :
    (∃ X, OnArc a0 a1 X ∧ OnArc b0 b1 X) ∨ LatBound a0 a1 R c := by
  set n := a0.cross a1 with hnd
  have hn2 : 0 < n.n2 := len_pos_iff.mp hn
  have hRlen0 : R.len ≠ 0 := hRpos.ne'
  have hdotR : ∀ a : R3, (∀ P, OnArc b0 b1 P → a.dot P ≤ c * a.len) → a.dot R ≤ c * a.len * R.len := by
    intro a h
    have := h _ hRB
    rw [dot_normalise, div_le_iff₀ hRpos] at this
    exact this
  rcases hcase with h | h | h | ⟨⟨h1, h2⟩, hB⟩
  · -- face w0 = 0
    right
    have hp := face_pyth0 a0 a1 R
    rw [← hnd, h] at hp
    have hs := face_sign0 a0 a1 R
    rw [← hnd, h] at hs
    have hsign : 0 ≤ R.dot a0 := by
      have : 0 ≤ R.dot a0 * n.n2 := by
        have := mul_nonneg hw1 (n2_nonneg a0)
        linarith
      exact nonneg_of_mul_nonneg_left this hn2
    exact face_bound hRpos ha0 hn (by rw [hp]; ring) hsign (hdotR a0 hA0)
  · -- face w1 = 0
    right
    have h' : R.dot (n.cross a1) = 0 := by linarith
    have hp := face_pyth1 a0 a1 R
    rw [← hnd, h'] at hp
    have hs := face_sign1 a0 a1 R
    rw [← hnd, h'] at hs
    have hsign : 0 ≤ R.dot a1 := by
      have : 0 ≤ R.dot a1 * n.n2 := by
        have := mul_nonneg hw0 (n2_nonneg a1)
        linarith
      exact nonneg_of_mul_nonneg_left this hn2
    exact face_bound hRpos ha1 hn (by rw [hp]; ring) hsign (hdotR a1 hA1)
  · -- face h = 0: R is in the cone of A
    left
    refine ⟨comb (1 / R.len) R 0 R, ?_, hRB⟩
    obtain ⟨ex, ey, ez⟩ := basis_expand a0 a1 R
    rw [← hnd, h] at ex ey ez
    have hne : n.n2 ≠ 0 := hn2.ne'
    apply onArc_of_cone (s := -(R.dot (n.cross a1)) / n.n2) (t := R.dot (n.cross a0) / n.n2)
      (div_nonneg hw1 hn2.le) (div_nonneg hw0 hn2.le) _ hRpos
    cases R with
    | mk rx ry rz =>
      unfold comb
      simp only [R3.mk.injEq]
      simp only at ex ey ez
      refine ⟨?_, ?_, ?_⟩
      · field_simp; linarith
      · field_simp; linarith
      · field_simp; linarith
  · -- strictly inside the wedge: the latitude cosine is attained on A
    right
    have hw : InWedgeR R a0 a1 := ⟨h1, by linarith⟩
    obtain ⟨P, hP, hPe⟩ := wedge_attained hw
    have := hB P hP
    unfold LatBound
    rw [← hPe]
    have : R.dot P * n.len ≤ c * R.len * n.len := mul_le_mul_of_nonneg_right this hn.le
    linarith

/-- concavity of the height along a sub-arc: `Q` is a non-negative combination of `R1`, `R2` (up to the factor `K > 0`),
    both ends have latitude cosine ≤ c and non-negative height; then so has `Q` -/
theorem lat_concave {n R1 R2 Q : R3} {c k1 k2 K : ℝ} (hn : 0 < n.len) (hQ1 : Q.n2 = 1)
    (hk1 : 0 ≤ k1) (hk2 : 0 ≤ k2) (hK : 0 < K)
    (hx : k1 * R1.x + k2 * R2.x = K * Q.x) (hy : k1 * R1.y + k2 * R2.y = K * Q.y)
    (hz : k1 * R1.z + k2 * R2.z = K * Q.z)
    (hR1 : 0 < R1.len) (hR2 : 0 < R2.len)
    (hh1 : 0 ≤ R1.dot n) (hh2 : 0 ≤ R2.dot n)
    (hb1 : (n.cross R1).len ≤ c * (n.len * R1.len)) (hb2 : (n.cross R2).len ≤ c * (n.len * R2.len)) :
    (n.cross Q).len ≤ c * n.len := by
  have hc0 : 0 ≤ c := by
    have h0 : 0 ≤ c * (n.len * R1.len) := le_trans (len_nonneg _) hb1
    exact nonneg_of_mul_nonneg_left h0 (mul_pos hn hR1)
  have hlQ := lagrange n Q
  rw [hQ1, mul_one] at hlQ
  have eN := len_sq n
  by_cases hc1 : 1 ≤ c
  · apply len_le_of_sq (mul_nonneg hc0 hn.le)
    rw [hlQ]
    have : n.len * n.len ≤ c * n.len * (c * n.len) := by
      have : 1 * (n.len * n.len) ≤ c * c * (n.len * n.len) :=
        mul_le_mul_of_nonneg_right (by nlinarith) (mul_self_nonneg _)
      linarith
    have := mul_self_nonneg (n.dot Q)
    linarith
  · have hc1' : c < 1 := not_le.mp hc1
    set κ := Real.sqrt (1 - c * c) with hκ
    have hκ0 : 0 ≤ κ := Real.sqrt_nonneg _
    have hκsq : κ * κ = 1 - c * c := Real.mul_self_sqrt (by nlinarith)
    -- each end is at least κ high
    have high : ∀ R : R3, 0 ≤ R.dot n → (n.cross R).len ≤ c * (n.len * R.len) → κ * (n.len * R.len) ≤ R.dot n := by
      intro R hh hb
      apply le_of_sq_le hh
      have hl := lagrange n R
      have e1 := len_sq R
      have e2 := len_sq (n.cross R)
      have hb2' : (n.cross R).len * (n.cross R).len ≤ (c * (n.len * R.len)) * (c * (n.len * R.len)) :=
        mul_self_le_mul_self (len_nonneg _) hb
      rw [e2, hl] at hb2'
      have e3 : n.dot R = R.dot n := dot_comm n R
      rw [e3] at hb2'
      have : κ * (n.len * R.len) * (κ * (n.len * R.len)) = (κ * κ) * ((n.len * n.len) * (R.len * R.len)) := by ring
      rw [this, hκsq, eN, e1]
      have : c * (n.len * R.len) * (c * (n.len * R.len)) = c * c * ((n.len * n.len) * (R.len * R.len)) := by ring
      rw [this, eN, e1] at hb2'
      nlinarith
    have g1 := high R1 hh1 hb1
    have g2 := high R2 hh2 hb2
    -- K·Q = k1 R1 + k2 R2
    have hcomb : (comb k1 R1 k2 R2).n2 = K * K := by
      have : (comb k1 R1 k2 R2) = ⟨K * Q.x, K * Q.y, K * Q.z⟩ := by
        unfold comb; simp only [R3.mk.injEq]; exact ⟨hx, hy, hz⟩
      rw [this]
      have : (⟨K * Q.x, K * Q.y, K * Q.z⟩ : R3).n2 = K * K * Q.n2 := by unfold n2 dot; ring
      rw [this, hQ1, mul_one]
    have hcl : (comb k1 R1 k2 R2).len = K := by
      unfold R3.len; rw [hcomb]; exact Real.sqrt_mul_self hK.le
    have htri := comb_len_le hk1 hk2 R1 R2
    rw [hcl] at htri
    have hdot : K * Q.dot n = k1 * R1.dot n + k2 * R2.dot n := by
      unfold dot
      have : K * (Q.x * n.x + Q.y * n.y + Q.z * n.z) = (K * Q.x) * n.x + (K * Q.y) * n.y + (K * Q.z) * n.z := by ring
      rw [this, ← hx, ← hy, ← hz]; ring
    have hQhigh : κ * n.len ≤ Q.dot n := by
      have h1 : k1 * (κ * (n.len * R1.len)) ≤ k1 * R1.dot n := mul_le_mul_of_nonneg_left g1 hk1
      have h2 : k2 * (κ * (n.len * R2.len)) ≤ k2 * R2.dot n := mul_le_mul_of_nonneg_left g2 hk2
      have h3 : κ * n.len * K ≤ κ * n.len * (k1 * R1.len + k2 * R2.len) :=
        mul_le_mul_of_nonneg_left htri (mul_nonneg hκ0 hn.le)
      have h4 : (κ * n.len) * K ≤ (Q.dot n) * K := by nlinarith
      exact le_of_mul_le_mul_right h4 hK
    apply len_le_of_sq (mul_nonneg hc0 hn.le)
    rw [hlQ]
    have e3 : n.dot Q = Q.dot n := dot_comm n Q
    rw [e3]
    have h5 : (κ * n.len) * (κ * n.len) ≤ Q.dot n * Q.dot n :=
      mul_self_le_mul_self (mul_nonneg hκ0 hn.le) hQhigh
    have : (κ * n.len) * (κ * n.len) = (κ * κ) * (n.len * n.len) := by ring
    rw [this, hκsq, eN] at h5
    have : c * n.len * (c * n.len) = c * c * (n.len * n.len) := by ring
    rw [this, eN]
    have e9 : (1 - c * c) * n.n2 = n.n2 - c * c * n.n2 := by ring
    rw [e9] at h5
    linarith

/-- one end of the sub-arc: moving from `Q` towards `b` inside the cone of `B = (b, b')` -/
theorem sub_arc_end {a0 a1 b b' Q : R3} {c σ τ : ℝ}
    (ha0 : 0 < a0.len) (ha1 : 0 < a1.len) (hb : 0 < b.len) (hb' : 0 < b'.len) (hB : NotAntipodal b b')
    (hσ : 0 ≤ σ) (hτ : 0 ≤ τ) (hQx : Q.x = σ * b.x + τ * b'.x) (hQy : Q.y = σ * b.y + τ * b'.y)
    (hQz : Q.z = σ * b.z + τ * b'.z)
    (hw0 : 0 < Q.dot ((a0.cross a1).cross a0)) (hw1 : 0 < -(Q.dot ((a0.cross a1).cross a1)))
    (hh : 0 < Q.dot (a0.cross a1))
    (hA0 : ∀ P, OnArc b b' P → a0.dot P ≤ c * a0.len)
    (hA1 : ∀ P, OnArc b b' P → a1.dot P ≤ c * a1.len)
    (hB0 : ∀ P, OnArc a0 a1 P → b.dot P ≤ c * b.len) :
    (∃ X, OnArc a0 a1 X ∧ OnArc b b' X) ∨
    ∃ (R : R3) (β : ℝ), 0 ≤ β ∧ β < 1 ∧ R = comb (1 - β) b β Q ∧ 0 < R.len ∧ 0 ≤ R.dot (a0.cross a1) ∧
      LatBound a0 a1 R c := by
  set n := a0.cross a1 with hnd
  have hnpos : 0 < n.len := by
    have := (wedge_nondeg (x := Q) (a := a0) (b := a1) ⟨hw0, by linarith⟩).1
    exact len_pos_iff.mpr this
  obtain ⟨β, hβ0, hβ1, f1, f2, f3, hz⟩ :=
    enter3 (b.dot (n.cross a0)) (-(b.dot (n.cross a1))) (b.dot n)
      (Q.dot (n.cross a0)) (-(Q.dot (n.cross a1))) (Q.dot n) hw0 hw1 hh
  set R := comb (1 - β) b β Q with hR
  have dR : ∀ v : R3, R.dot v = (1 - β) * b.dot v + β * Q.dot v := by
    intro v; rw [dot_comm, hR, dot_comb, dot_comm v b, dot_comm v Q]
  have e1 : R.dot (n.cross a0) = (1 - β) * b.dot (n.cross a0) + β * Q.dot (n.cross a0) := dR _
  have e2 : -(R.dot (n.cross a1)) = (1 - β) * -(b.dot (n.cross a1)) + β * -(Q.dot (n.cross a1)) := by
    rw [dR]; ring
  have e3 : R.dot n = (1 - β) * b.dot n + β * Q.dot n := dR _
  -- R in the cone of B, non-zero
  have hRc : R = comb ((1 - β) + β * σ) b (β * τ) b' := by
    rw [hR]; unfold comb; simp only [R3.mk.injEq]
    rw [hQx, hQy, hQz]
    refine ⟨by ring, by ring, by ring⟩
  have hs : 0 < (1 - β) + β * σ := by
    have : 0 ≤ β * σ := mul_nonneg hβ0 hσ
    linarith
  have ht : 0 ≤ β * τ := mul_nonneg hβ0 hτ
  have hRpos : 0 < R.len := by
    rw [len_pos_iff, hRc]
    exact cone_pos hs ht (len_pos_iff.mp hb) (len_pos_iff.mp hb') hB
  have hRB : OnArc b b' (comb (1 / R.len) R 0 R) := onArc_of_cone hs.le ht hRc hRpos
  have hcase : R.dot (n.cross a0) = 0 ∨ -(R.dot (n.cross a1)) = 0 ∨ R.dot n = 0 ∨
      ((0 < R.dot (n.cross a0) ∧ 0 < -(R.dot (n.cross a1))) ∧ ∀ P, OnArc a0 a1 P → R.dot P ≤ c * R.len) := by
    rcases hz with h | h | h | h
    · -- β = 0 : R = b
      have hRb : R = b := by
        rw [hR, h]; unfold comb; cases b; simp
      by_cases q1 : R.dot (n.cross a0) = 0
      · exact Or.inl q1
      by_cases q2 : -(R.dot (n.cross a1)) = 0
      · exact Or.inr (Or.inl q2)
      refine Or.inr (Or.inr (Or.inr ⟨⟨?_, ?_⟩, ?_⟩))
      · rw [e1]; rw [e1] at q1; exact lt_of_le_of_ne f1 (Ne.symm q1)
      · rw [e2]; rw [e2] at q2; exact lt_of_le_of_ne f2 (Ne.symm q2)
      · rw [hRb]; exact hB0
    · exact Or.inl (by rw [e1]; exact h)
    · exact Or.inr (Or.inl (by rw [e2]; exact h))
    · exact Or.inr (Or.inr (Or.inl (by rw [e3]; exact h)))
  rcases endpoint_bound ha0 ha1 hnpos hRpos hRB (by rw [e1]; exact f1) (by rw [e2]; exact f2) hA0 hA1 hcase with h | h
  · exact Or.inl h
  · exact Or.inr ⟨R, β, hβ0, hβ1, rfl, hRpos, by rw [e3]; exact f3, h⟩

/-- **the wedge case**: `Q ∈ B` strictly inside the wedge of `A`, above the plane of `A` -/
theorem wedge_case_pos {a0 a1 b0 b1 Q : R3} {c : ℝ}
    (ha0 : 0 < a0.len) (ha1 : 0 < a1.len) (hb0 : 0 < b0.len) (hb1 : 0 < b1.len) (hB : NotAntipodal b0 b1)
    (hQ : OnArc b0 b1 Q) (hw : InWedgeR Q a0 a1) (hh : 0 < Q.dot (a0.cross a1))
    (hA0 : ∀ P, OnArc b0 b1 P → a0.dot P ≤ c * a0.len)
    (hA1 : ∀ P, OnArc b0 b1 P → a1.dot P ≤ c * a1.len)
    (hB0 : ∀ P, OnArc a0 a1 P → b0.dot P ≤ c * b0.len)
    (hB1 : ∀ P, OnArc a0 a1 P → b1.dot P ≤ c * b1.len) :
    (∃ X, OnArc a0 a1 X ∧ OnArc b0 b1 X) ∨ ((a0.cross a1).cross Q).len ≤ c * (a0.cross a1).len := by
  obtain ⟨σ, τ, hσ, hτ, hQe, hQ1⟩ := hQ
  obtain ⟨w0, w1⟩ := hw
  have hQx : Q.x = σ * b0.x + τ * b1.x := by rw [hQe]; rfl
  have hQy : Q.y = σ * b0.y + τ * b1.y := by rw [hQe]; rfl
  have hQz : Q.z = σ * b0.z + τ * b1.z := by rw [hQe]; rfl
  have hnpos : 0 < (a0.cross a1).len :=
    len_pos_iff.mpr (wedge_nondeg (x := Q) (a := a0) (b := a1) ⟨w0, w1⟩).1
  -- towards b0
  rcases sub_arc_end ha0 ha1 hb0 hb1 hB hσ hτ hQx hQy hQz w0 (by linarith) hh hA0 hA1 hB0 with h | h
  · exact Or.inl h
  obtain ⟨R1, β, hβ0, hβ1, hR1, hR1pos, hR1h, hR1b⟩ := h
  -- towards b1
  have hB' : NotAntipodal b1 b0 := by
    rcases hB with h | h
    · left
      have : (b1.cross b0).n2 = (b0.cross b1).n2 := by unfold n2 dot cross; ring
      rw [this]; exact h
    · right; rw [dot_comm]; exact h
  rcases sub_arc_end (b := b1) (b' := b0) (σ := τ) (τ := σ) ha0 ha1 hb1 hb0 hB' hτ hσ
      (by rw [hQx]; ring) (by rw [hQy]; ring) (by rw [hQz]; ring) w0 (by linarith) hh
      (fun P hP => hA0 P (onArc_symm hP)) (fun P hP => hA1 P (onArc_symm hP)) hB1 with h | h
  · obtain ⟨X, h1, h2⟩ := h
    exact Or.inl ⟨X, h1, onArc_symm h2⟩
  obtain ⟨R2, γ, hγ0, hγ1, hR2, hR2pos, hR2h, hR2b⟩ := h
  right
  have u1 : 0 < 1 - β := by linarith
  have u2 : 0 < 1 - γ := by linarith
  have hK : 0 < 1 + σ / (1 - β) * β + τ / (1 - γ) * γ := by
    have : 0 ≤ σ / (1 - β) * β := mul_nonneg (div_nonneg hσ u1.le) hβ0
    have : 0 ≤ τ / (1 - γ) * γ := mul_nonneg (div_nonneg hτ u2.le) hγ0
    linarith
  have u1' : (1 - β) ≠ 0 := u1.ne'
  have u2' : (1 - γ) ≠ 0 := u2.ne'
  have hlc := lat_concave (n := a0.cross a1) (R1 := R1) (R2 := R2) (Q := Q) (c := c)
    (k1 := σ / (1 - β)) (k2 := τ / (1 - γ)) (K := 1 + σ / (1 - β) * β + τ / (1 - γ) * γ)
    hnpos hQ1 (div_nonneg hσ u1.le) (div_nonneg hτ u2.le) hK
    (by rw [hR1, hR2]; unfold comb; simp only; rw [hQx]; field_simp; ring)
    (by rw [hR1, hR2]; unfold comb; simp only; rw [hQy]; field_simp; ring)
    (by rw [hR1, hR2]; unfold comb; simp only; rw [hQz]; field_simp; ring)
    hR1pos hR2pos hR1h hR2h hR1b hR2b
  exact hlc

theorem onArc_perp' {a b P : R3} (h : OnArc a b P) : P.dot (a.cross b) = 0 := by
  obtain ⟨s, t, _, _, rfl, _⟩ := h
  unfold comb dot cross; ring

/-- the two arcs have a common point -/
def ArcsMeetR (a0 a1 b0 b1 : R3) : Prop := ∃ X, OnArc a0 a1 X ∧ OnArc b0 b1 X

/-- **the edge-pair theorem (pure geometry)**: if `c` bounds the cosine between each of the four endpoints and every
    point of the other arc, then it bounds the cosine between ANY two points of the two arcs — unless the arcs meet. -/
theorem pair_core {a0 a1 b0 b1 P Q : R3} {c : ℝ}
    (ha0 : 0 < a0.len) (ha1 : 0 < a1.len) (hb0 : 0 < b0.len) (hb1 : 0 < b1.len) (hB : NotAntipodal b0 b1)
    (hP : OnArc a0 a1 P) (hQ : OnArc b0 b1 Q)
    (hA0 : ∀ P, OnArc b0 b1 P → a0.dot P ≤ c * a0.len)
    (hA1 : ∀ P, OnArc b0 b1 P → a1.dot P ≤ c * a1.len)
    (hB0 : ∀ P, OnArc a0 a1 P → b0.dot P ≤ c * b0.len)
    (hB1 : ∀ P, OnArc a0 a1 P → b1.dot P ≤ c * b1.len) :
    ArcsMeetR a0 a1 b0 b1 ∨ P.dot Q ≤ c := by
  have hP1 : P.n2 = 1 := hP.choose_spec.choose_spec.2.2.2
  by_cases hw : InWedgeR Q a0 a1
  · -- inside the wedge
    have hperp := onArc_perp' hP
    have hnn := (wedge_nondeg hw).1
    rcases lt_trichotomy (Q.dot (a0.cross a1)) 0 with hh | hh | hh
    · -- below the plane: swap a0, a1
      have hh' : 0 < Q.dot (a1.cross a0) := by
        have : Q.dot (a1.cross a0) = -(Q.dot (a0.cross a1)) := by unfold dot cross; ring
        rw [this]; linarith
      rcases wedge_case_pos ha1 ha0 hb0 hb1 hB hQ (inWedge_symm hw) hh' hA1 hA0
          (fun P hP => hB0 P (onArc_symm hP)) (fun P hP => hB1 P (onArc_symm hP)) with h | h
      · obtain ⟨X, h1, h2⟩ := h
        exact Or.inl ⟨X, onArc_symm h1, h2⟩
      · right
        have hperp' : P.dot (a1.cross a0) = 0 := onArc_perp' (onArc_symm hP)
        have hg := gc_lower Q (a1.cross a0) P hP1 hperp'
        have hnpos : 0 < (a1.cross a0).len := by
          rw [len_pos_iff]
          have : (a1.cross a0).n2 = (a0.cross a1).n2 := by unfold n2 dot cross; ring
          rw [this]; exact hnn
        have h2 : Q.dot P * (a1.cross a0).len ≤ c * (a1.cross a0).len := le_trans hg h
        rw [dot_comm]
        exact le_of_mul_le_mul_right h2 hnpos
    · -- in the plane of A and in its wedge: Q is on A
      left
      refine ⟨Q, ?_, hQ⟩
      obtain ⟨ex, ey, ez⟩ := basis_expand a0 a1 Q
      rw [hh] at ex ey ez
      obtain ⟨w0, w1⟩ := hw
      have hne : (a0.cross a1).n2 ≠ 0 := hnn.ne'
      refine ⟨-(Q.dot ((a0.cross a1).cross a1)) / (a0.cross a1).n2, Q.dot ((a0.cross a1).cross a0) / (a0.cross a1).n2,
        div_nonneg (by linarith) hnn.le, div_nonneg w0.le hnn.le, ?_, hQ.choose_spec.choose_spec.2.2.2⟩
      cases Q with
      | mk qx qy qz =>
        unfold comb
        simp only [R3.mk.injEq]
        simp only at ex ey ez
        refine ⟨?_, ?_, ?_⟩
        · field_simp; linarith
        · field_simp; linarith
        · field_simp; linarith
    · rcases wedge_case_pos ha0 ha1 hb0 hb1 hB hQ hw hh hA0 hA1 hB0 hB1 with h | h
      · exact Or.inl h
      · right
        have hg := gc_lower Q (a0.cross a1) P hP1 hperp
        have hnpos : 0 < (a0.cross a1).len := len_pos_iff.mpr hnn
        have h2 : Q.dot P * (a0.cross a1).len ≤ c * (a0.cross a1).len := le_trans hg h
        rw [dot_comm]
        exact le_of_mul_le_mul_right h2 hnpos
  · -- outside the wedge: an endpoint of A
    right
    have h := arc_nonwedge ha0 ha1 hP hw
    have h0 := hA0 Q hQ
    have h1 := hA1 Q hQ
    have e0 : Q.dot a0 / a0.len ≤ c := by rw [div_le_iff₀ ha0, dot_comm]; exact h0
    have e1 : Q.dot a1 / a1.len ≤ c := by rw [div_le_iff₀ ha1, dot_comm]; exact h1
    rw [dot_comm]
    exact le_trans h (max_le e0 e1)

end S2Proofs.C17Pairs
