/-
  C17Pairs.SlackNum — a numeric upper bound of the slacks of the edge-pair minimum:
      mpe_le          the float `MaxPointError(c)` of a chord `c ∈ [0,4]` is ≤ 200u
      pairLow_le, pairHigh2_le      ≤ 200u = 200·2^-53 ≈ 2.2e-14   (crude: 37u / 52u are the sharp values, see c08world)
-/
import S2Proofs.C17Pairs.PairFloat2

set_option linter.unusedSimpArgs false
set_option linter.unusedVariables false

namespace S2Proofs.C17Pairs
open S2 S2.Exact S2.EdgeNum S2Proofs.F64Order S2Proofs.FloatErr S2Proofs.C17Err S2Proofs.C17Err.R3 S2Proofs.C17

theorem mpe_le {c : F64} (fc : Fin c) (h0 : 0 ≤ val c) (h4 : val c ≤ 4) : val (maxPointError c) ≤ 200 * uR := by
  obtain ⟨f1, v1, f2, v2⟩ := mpC_facts
  have hc1 : 0 ≤ val mpC1 := by rw [v1]; positivity
  have hc2 : 0 ≤ val mpC2 := by rw [v2]; positivity
  have m1 : |val mpC1 * val c| ≤ 4 := by
    rw [abs_of_nonneg (mul_nonneg hc1 h0)]
    have : val mpC1 ≤ 1 := by rw [v1]; norm_num
    nlinarith
  obtain ⟨ft, rt, bt⟩ := mul_step stdModel f1 fc m1 (by norm_num)
  have m2 : |val (mpC1 * c) + val mpC2| ≤ 10 := by
    have := abs_add_le (val (mpC1 * c)) (val mpC2)
    have : val mpC2 ≤ 1 := by rw [v2]; norm_num
    rw [abs_of_nonneg hc2] at *; linarith
  obtain ⟨fs, rs, _⟩ := add_step stdModel ft f2 m2 (by norm_num)
  unfold Rnd at rt rs
  rw [abs_of_nonneg (mul_nonneg hc1 h0)] at rt
  obtain ⟨_, t2⟩ := abs_le.mp rt
  have hprod : val mpC1 * val c ≤ 5066549580220651 / 2 ^ 102 * 4 := by
    rw [v1]; exact mul_le_mul_of_nonneg_left h4 (by positivity)
  have he := eR_le250
  have hu := uR_nonneg
  have hu1 : uR ≤ 1 := uR_le_one
  have hT : val (mpC1 * c) ≤ 5066549580220651 / 2 ^ 102 * 4 * 2 + 1 / 2 ^ 250 := by
    have : uR * (val mpC1 * val c) ≤ 1 * (5066549580220651 / 2 ^ 102 * 4) :=
      mul_le_mul hu1 hprod (mul_nonneg hc1 h0) (by norm_num)
    linarith
  have hT0 : -(1 / 2 ^ 250) ≤ val (mpC1 * c) := by
    obtain ⟨t1, _⟩ := abs_le.mp rt
    have : 0 ≤ val mpC1 * val c * (1 - uR) := mul_nonneg (mul_nonneg hc1 h0) (by linarith)
    linarith
  have hsum0 : 0 ≤ val (mpC1 * c) + val mpC2 := by
    have : (1 : ℝ) / 2 ^ 250 ≤ val mpC2 := by rw [v2]; norm_num
    linarith
  rw [abs_of_nonneg hsum0, add_zero] at rs
  obtain ⟨_, s2⟩ := abs_le.mp rs
  have hS : val (mpC1 * c) + val mpC2 ≤ 5066549580220651 / 2 ^ 102 * 4 * 2 + 1 / 2 ^ 250 + 9007199252710212 / 2 ^ 153 := by
    rw [v2]; linarith
  have : val (maxPointError c)
      ≤ 2 * (5066549580220651 / 2 ^ 102 * 4 * 2 + 1 / 2 ^ 250 + 9007199252710212 / 2 ^ 153) := by
    have h9 : uR * (val (mpC1 * c) + val mpC2)
        ≤ 1 * (5066549580220651 / 2 ^ 102 * 4 * 2 + 1 / 2 ^ 250 + 9007199252710212 / 2 ^ 153) :=
      mul_le_mul hu1 hS hsum0 (by norm_num)
    show val (mpC1 * c + mpC2) ≤ _
    linarith
  have hfin : 2 * (5066549580220651 / 2 ^ 102 * 4 * 2 + 1 / 2 ^ 250 + 9007199252710212 / 2 ^ 153) ≤ 200 * uR := by
    unfold uR; norm_num
  linarith

theorem lowSlack_le {x a b : V3} (h : CallOK x a b) : lowSlack x a b ≤ 200 * uR := by
  obtain ⟨hx, ha, hb, hE, hM⟩ := h
  obtain ⟨fV, v4, _⟩ := vertexDist_spec delta0_nonneg (le_refl _) hx ha hb
  have v0 : 0 ≤ val (vertexDist x a b) := by
    obtain ⟨fa, na, _⟩ := vertex_one delta0_nonneg (le_refl _) hx ha
    obtain ⟨fb, nb, _⟩ := vertex_one delta0_nonneg (le_refl _) hx hb
    obtain ⟨fm, vm⟩ := val_fmin fa fb
    obtain ⟨_, vc⟩ := val_chordFromLen2 fm
    unfold vertexDist
    rw [vc, vm]
    exact le_min (le_min na nb) (by norm_num)
  exact max_le (allowedError_small hx ha hb hE).2 (mpe_le fV v0 v4)

theorem highSlack_le {x a b : V3} (h : CallOK x a b) : highSlack x a b ≤ 200 * uR := by
  obtain ⟨hx, ha, hb, hE, hM⟩ := h
  have : 40 * uR ≤ 200 * uR := by have := uR_nonneg; linarith
  exact max_le (allowedError_small hx ha hb hE).2 this

theorem pairLow_le {a0 a1 b0 b1 : V3} (h1 : CallOK a0 b0 b1) (h2 : CallOK a1 b0 b1) (h3 : CallOK b0 a0 a1)
    (h4 : CallOK b1 a0 a1) : pairLow a0 a1 b0 b1 ≤ 200 * uR :=
  max_le (max_le (lowSlack_le h1) (lowSlack_le h2)) (max_le (lowSlack_le h3) (lowSlack_le h4))

theorem pairHigh2_le {a0 a1 b0 b1 : V3} (h1 : CallOK a0 b0 b1) (h2 : CallOK a1 b0 b1) (h3 : CallOK b0 a0 a1)
    (h4 : CallOK b1 a0 a1) : pairHigh2 a0 a1 b0 b1 ≤ 200 * uR :=
  max_le (max_le (highSlack_le h1) (highSlack_le h2)) (max_le (highSlack_le h3) (highSlack_le h4))

end S2Proofs.C17Pairs
