/-
  C17Pairs.TouchGeom — pure ℝ³: two great-circle arcs (closed cones of two non-zero vectors) that have a common point
  either CROSS PROPERLY (the four-determinant pattern `ProperCrossR`, converse of `proper_cross_meets`) or the direction
  of one of the four endpoints lies on the other arc (`EndpointOnOtherR`): touching arcs, shared vertices, collinear
  overlap, degenerate edges.

      meet_cases            ArcsMeetR ⇒ ProperCrossR ∨ EndpointOnOtherR
      touch_pairMin4_zero   arcs of float points that meet without the proper-crossing pattern: pairMin4 = 0
-/
import S2Proofs.C17Pairs.PairDist
import Mathlib.Tactic.LinearCombination

set_option linter.unusedSimpArgs false
set_option linter.unusedVariables false

namespace S2Proofs.C17Pairs
open S2 S2.Exact S2Proofs.F64Order S2Proofs.FloatErr S2Proofs.C17Err S2Proofs.C17Err.R3

theorem r3_ext {u v : R3} (hx : u.x = v.x) (hy : u.y = v.y) (hz : u.z = v.z) : u = v := by
  cases u; cases v; simp_all

theorem n2_zero_comps {u : R3} (h : u.n2 = 0) : u.x = 0 ∧ u.y = 0 ∧ u.z = 0 := by
  unfold R3.n2 R3.dot at h
  have q1 := mul_self_nonneg u.x
  have q2 := mul_self_nonneg u.y
  have q3 := mul_self_nonneg u.z
  exact ⟨mul_self_eq_zero.mp (by linarith), mul_self_eq_zero.mp (by linarith), mul_self_eq_zero.mp (by linarith)⟩

/-- the unit vector `P = c·a` (`c ≥ 0`) is the direction of `a` -/
theorem dir_of_ray {a b P : R3} {c : ℝ} (hc : 0 ≤ c) (hP : P = comb c a 0 b) (hP1 : P.n2 = 1) :
    comb (1 / a.len) a 0 a = P := by
  have hn : c * c * a.n2 = 1 := by
    rw [hP, comb_n2] at hP1; linarith
  have hal : 0 < a.n2 := by
    by_contra h
    have : a.n2 = 0 := le_antisymm (not_lt.mp h) (n2_nonneg a)
    rw [this] at hn; simp at hn
  have hl : 0 < a.len := len_pos_iff.mpr hal
  have h2 : (c * a.len) * (c * a.len) = 1 := by
    have := len_sq a
    calc (c * a.len) * (c * a.len) = c * c * (a.len * a.len) := by ring
      _ = 1 := by rw [this, hn]
  have h1 : c * a.len = 1 := by
    rcases mul_self_eq_one_iff.mp h2 with h | h
    · exact h
    · have := mul_nonneg hc hl.le; linarith
  have hc' : 1 / a.len = c := by
    rw [div_eq_iff hl.ne']; linarith
  rw [hc', hP]
  unfold comb
  simp only [R3.mk.injEq]
  refine ⟨by ring, by ring, by ring⟩

/-- the direction of one of the four endpoints lies on the other arc -/
def EndpointOnOtherR (a0 a1 b0 b1 : R3) : Prop :=
  OnArc b0 b1 (comb (1 / a0.len) a0 0 a0) ∨ OnArc b0 b1 (comb (1 / a1.len) a1 0 a1) ∨
  OnArc a0 a1 (comb (1 / b0.len) b0 0 b0) ∨ OnArc a0 a1 (comb (1 / b1.len) b1 0 b1)

theorem endpointOnOther_swap {a0 a1 b0 b1 : R3} (h : EndpointOnOtherR b0 b1 a0 a1) : EndpointOnOtherR a0 a1 b0 b1 := by
  rcases h with h | h | h | h
  · exact Or.inr (Or.inr (Or.inl h))
  · exact Or.inr (Or.inr (Or.inr h))
  · exact Or.inl h
  · exact Or.inr (Or.inl h)

/-- a unit vector of the cone of two PARALLEL vectors is the direction of one of them -/
theorem parallel_dir {a0 a1 X : R3} {s t : ℝ} (hs : 0 ≤ s) (ht : 0 ≤ t) (hX : X = comb s a0 t a1) (hX1 : X.n2 = 1)
    (ha0 : 0 < a0.len) (ha1 : 0 < a1.len) (hn : (a0.cross a1).n2 = 0) :
    comb (1 / a0.len) a0 0 a0 = X ∨ comb (1 / a1.len) a1 0 a1 = X := by
  obtain ⟨cx, cy, cz⟩ := n2_zero_comps hn
  unfold R3.cross at cx cy cz
  simp only at cx cy cz
  have hN0 : 0 < a0.n2 := len_pos_iff.mp ha0
  have hN1 : 0 < a1.n2 := len_pos_iff.mp ha1
  set N0 := a0.n2 with hN0d
  set N1 := a1.n2 with hN1d
  set d := a0.dot a1 with hd
  -- N0·a1 = d·a0 ,  N1·a0 = d·a1
  have e1x : N0 * a1.x = d * a0.x := by rw [hN0d, hd]; unfold R3.n2 R3.dot; linear_combination a0.z * cy - a0.y * cz
  have e1y : N0 * a1.y = d * a0.y := by rw [hN0d, hd]; unfold R3.n2 R3.dot; linear_combination a0.x * cz - a0.z * cx
  have e1z : N0 * a1.z = d * a0.z := by rw [hN0d, hd]; unfold R3.n2 R3.dot; linear_combination a0.y * cx - a0.x * cy
  have e2x : N1 * a0.x = d * a1.x := by rw [hN1d, hd]; unfold R3.n2 R3.dot; linear_combination a1.y * cz - a1.z * cy
  have e2y : N1 * a0.y = d * a1.y := by rw [hN1d, hd]; unfold R3.n2 R3.dot; linear_combination a1.z * cx - a1.x * cz
  have e2z : N1 * a0.z = d * a1.z := by rw [hN1d, hd]; unfold R3.n2 R3.dot; linear_combination a1.x * cy - a1.y * cx
  have hXx : X.x = s * a0.x + t * a1.x := by rw [hX]; rfl
  have hXy : X.y = s * a0.y + t * a1.y := by rw [hX]; rfl
  have hXz : X.z = s * a0.z + t * a1.z := by rw [hX]; rfl
  set c0 := s * N0 + t * d with hc0
  have f0x : N0 * X.x = c0 * a0.x := by rw [hXx, hc0]; linear_combination t * e1x
  have f0y : N0 * X.y = c0 * a0.y := by rw [hXy, hc0]; linear_combination t * e1y
  have f0z : N0 * X.z = c0 * a0.z := by rw [hXz, hc0]; linear_combination t * e1z
  rcases le_or_gt 0 c0 with hc | hc
  · left
    apply dir_of_ray (c := c0 / N0) (b := a0) (div_nonneg hc hN0.le) _ hX1
    apply r3_ext
    · show X.x = c0 / N0 * a0.x + 0 * a0.x
      field_simp; linarith
    · show X.y = c0 / N0 * a0.y + 0 * a0.y
      field_simp; linarith
    · show X.z = c0 / N0 * a0.z + 0 * a0.z
      field_simp; linarith
  · right
    have hdneg : d < 0 := by
      by_contra hcon
      have h1 : 0 ≤ s * N0 := mul_nonneg hs hN0.le
      have h2 : 0 ≤ t * d := mul_nonneg ht (not_lt.mp hcon)
      linarith
    have hpos : 0 < c0 * d := mul_pos_of_neg_of_neg hc hdneg
    have hNN : 0 < N0 * N1 := mul_pos hN0 hN1
    apply dir_of_ray (c := c0 * d / (N0 * N1)) (b := a1) (div_nonneg hpos.le hNN.le) _ hX1
    apply r3_ext
    · show X.x = c0 * d / (N0 * N1) * a1.x + 0 * a1.x
      field_simp; linear_combination N1 * f0x + c0 * e2x
    · show X.y = c0 * d / (N0 * N1) * a1.y + 0 * a1.y
      field_simp; linear_combination N1 * f0y + c0 * e2y
    · show X.z = c0 * d / (N0 * N1) * a1.z + 0 * a1.z
      field_simp; linear_combination N1 * f0z + c0 * e2z

theorem div_comb {D v p q P Q : ℝ} (hD : D ≠ 0) (h : D * v = P * p + Q * q) : v = P / D * p + Q / D * q := by
  rw [div_mul_eq_mul_div, div_mul_eq_mul_div, ← add_div, eq_div_iff hD]
  linarith

/-- the sign analysis of the coplanar case (coordinates `(αi, βi)` of `bi` in the basis `a0, a1`) -/
theorem coplanar_signs {α0 β0 α1 β1 s' t' Δ : ℝ} (hs' : 0 < s') (ht' : 0 < t')
    (hu : 0 < s' * α0 + t' * α1) (hw : 0 < s' * β0 + t' * β1) (hΔ : Δ = α0 * β1 - α1 * β0) (hΔ0 : Δ ≠ 0) :
    (0 ≤ α0 ∧ 0 ≤ β0) ∨ (0 ≤ α1 ∧ 0 ≤ β1) ∨ (0 ≤ β1 * Δ ∧ β0 * Δ ≤ 0) ∨ (α1 * Δ ≤ 0 ∧ 0 ≤ α0 * Δ) := by
  by_contra hcon
  push Not at hcon
  obtain ⟨h1, h2, h3, h4⟩ := hcon
  rcases lt_or_gt_of_ne hΔ0 with hneg | hpos
  · -- Δ < 0
    have k3 : β1 ≤ 0 → β0 < 0 := by
      intro hb
      have := h3 (mul_nonneg_of_nonpos_of_nonpos hb hneg.le)
      by_contra hc
      have := mul_nonpos_of_nonneg_of_nonpos (not_lt.mp hc) hneg.le
      linarith
    have k4 : 0 ≤ α1 → 0 < α0 := by
      intro ha
      have := h4 (mul_nonpos_of_nonneg_of_nonpos ha hneg.le)
      by_contra hc
      have := mul_nonneg_of_nonpos_of_nonpos (not_lt.mp hc) hneg.le
      linarith
    rcases le_or_gt 0 α1 with ha1 | ha1
    · have a0p := k4 ha1
      have b0n := h1 a0p.le
      have b1n := h2 ha1
      have := mul_neg_of_pos_of_neg hs' b0n
      have := mul_neg_of_pos_of_neg ht' b1n
      linarith
    · have a0p : 0 < α0 := by
        by_contra hc
        have := mul_nonpos_of_nonneg_of_nonpos hs'.le (not_lt.mp hc)
        have := mul_neg_of_pos_of_neg ht' ha1
        linarith
      have b0n := h1 a0p.le
      have b1p : 0 < β1 := by
        by_contra hc
        have := mul_neg_of_pos_of_neg hs' b0n
        have := mul_nonpos_of_nonneg_of_nonpos ht'.le (not_lt.mp hc)
        linarith
      have e : β1 * (s' * α0 + t' * α1) - α1 * (s' * β0 + t' * β1) = s' * Δ := by rw [hΔ]; ring
      have q1 := mul_pos b1p hu
      have q2 := mul_neg_of_neg_of_pos ha1 hw
      have q3 := mul_neg_of_pos_of_neg hs' hneg
      linarith
  · -- Δ > 0
    have k3 : 0 ≤ β1 → 0 < β0 := by
      intro hb
      have := h3 (mul_nonneg hb hpos.le)
      by_contra hc
      have := mul_nonpos_of_nonpos_of_nonneg (not_lt.mp hc) hpos.le
      linarith
    have k4 : α1 ≤ 0 → α0 < 0 := by
      intro ha
      have := h4 (mul_nonpos_of_nonpos_of_nonneg ha hpos.le)
      by_contra hc
      have := mul_nonneg (not_lt.mp hc) hpos.le
      linarith
    rcases le_or_gt 0 α0 with ha0 | ha0
    · have b0n := h1 ha0
      have a1p : 0 < α1 := by
        by_contra hc
        have := k4 (not_lt.mp hc)
        linarith
      have b1n := h2 a1p.le
      have := mul_neg_of_pos_of_neg hs' b0n
      have := mul_neg_of_pos_of_neg ht' b1n
      linarith
    · have a1p : 0 < α1 := by
        by_contra hc
        have := mul_neg_of_pos_of_neg hs' ha0
        have := mul_nonpos_of_nonneg_of_nonpos ht'.le (not_lt.mp hc)
        linarith
      have b1n := h2 a1p.le
      have b0p : 0 < β0 := by
        by_contra hc
        have := mul_nonpos_of_nonneg_of_nonpos hs'.le (not_lt.mp hc)
        have := mul_neg_of_pos_of_neg ht' b1n
        linarith
      have e : β0 * (s' * α0 + t' * α1) - α0 * (s' * β0 + t' * β1) = -(t' * Δ) := by rw [hΔ]; ring
      have q1 := mul_pos b0p hu
      have q2 := mul_neg_of_neg_of_pos ha0 hw
      have q3 := mul_pos ht' hpos
      linarith

/-- **the coplanar case**: `b0`, `b1` lie in the plane of the non-degenerate edge `a0a1`, the edge `b0b1` is not
    degenerate and the arcs have a common point in the relative interior of both -/
theorem coplanar_touch {a0 a1 b0 b1 X : R3} {s t s' t' : ℝ} (hs : 0 < s) (ht : 0 < t) (hs' : 0 < s') (ht' : 0 < t')
    (hXa : X = comb s a0 t a1) (hXb : X = comb s' b0 t' b1)
    (ha0 : 0 < a0.len) (ha1 : 0 < a1.len) (hb0 : 0 < b0.len) (hb1 : 0 < b1.len)
    (hnA : 0 < (a0.cross a1).n2) (hnB : 0 < (b0.cross b1).n2)
    (hp0 : b0.dot (a0.cross a1) = 0) (hp1 : b1.dot (a0.cross a1) = 0) : EndpointOnOtherR a0 a1 b0 b1 := by
  obtain ⟨x0, y0, z0⟩ := basis_expand a0 a1 b0
  obtain ⟨x1, y1, z1⟩ := basis_expand a0 a1 b1
  rw [hp0] at x0 y0 z0
  rw [hp1] at x1 y1 z1
  set N := (a0.cross a1).n2 with hN
  set α0 := -(b0.dot ((a0.cross a1).cross a1)) with hα0
  set β0 := b0.dot ((a0.cross a1).cross a0) with hβ0
  set α1 := -(b1.dot ((a0.cross a1).cross a1)) with hα1
  set β1 := b1.dot ((a0.cross a1).cross a0) with hβ1
  simp only [zero_mul, add_zero] at x0 y0 z0 x1 y1 z1
  set Δ := α0 * β1 - α1 * β0 with hΔ
  -- the coordinates of X
  have hXx : comb s a0 t a1 = comb s' b0 t' b1 := by rw [← hXa, hXb]
  have hu : s' * α0 + t' * α1 = s * N := by
    have k1 : -((comb s' b0 t' b1).dot ((a0.cross a1).cross a1)) = s' * α0 + t' * α1 := by
      rw [hα0, hα1]; unfold comb R3.dot R3.cross; ring
    have k2 : -((comb s a0 t a1).dot ((a0.cross a1).cross a1)) = s * N := by
      rw [hN]; unfold comb R3.n2 R3.dot R3.cross; ring
    rw [← k1, ← hXx, k2]
  have hw : s' * β0 + t' * β1 = t * N := by
    have k1 : (comb s' b0 t' b1).dot ((a0.cross a1).cross a0) = s' * β0 + t' * β1 := by
      rw [hβ0, hβ1]; unfold comb R3.dot R3.cross; ring
    have k2 : (comb s a0 t a1).dot ((a0.cross a1).cross a0) = t * N := by
      rw [hN]; unfold comb R3.n2 R3.dot R3.cross; ring
    rw [← k1, ← hXx, k2]
  have hu' : 0 < s' * α0 + t' * α1 := by rw [hu]; exact mul_pos hs hnA
  have hw' : 0 < s' * β0 + t' * β1 := by rw [hw]; exact mul_pos ht hnA
  -- N²·(b0×b1) = Δ·(a0×a1)
  have cxx : N * N * (b0.cross b1).x = Δ * (a0.cross a1).x := by
    rw [hΔ]; unfold R3.cross; simp only
    linear_combination (N * b1.z) * y0 + (α0 * a0.y + β0 * a1.y) * z1 - (N * b1.y) * z0 - (α0 * a0.z + β0 * a1.z) * y1
  have cyy : N * N * (b0.cross b1).y = Δ * (a0.cross a1).y := by
    rw [hΔ]; unfold R3.cross; simp only
    linear_combination (N * b1.x) * z0 + (α0 * a0.z + β0 * a1.z) * x1 - (N * b1.z) * x0 - (α0 * a0.x + β0 * a1.x) * z1
  have czz : N * N * (b0.cross b1).z = Δ * (a0.cross a1).z := by
    rw [hΔ]; unfold R3.cross; simp only
    linear_combination (N * b1.y) * x0 + (α0 * a0.x + β0 * a1.x) * y1 - (N * b1.x) * y0 - (α0 * a0.y + β0 * a1.y) * x1
  have hΔ0 : Δ ≠ 0 := by
    intro h0
    rw [h0, zero_mul] at cxx cyy czz
    have hNN : N * N ≠ 0 := (mul_pos hnA hnA).ne'
    have ex := (mul_eq_zero.mp cxx).resolve_left hNN
    have ey := (mul_eq_zero.mp cyy).resolve_left hNN
    have ez := (mul_eq_zero.mp czz).resolve_left hNN
    have : (b0.cross b1).n2 = 0 := by
      show (b0.cross b1).x * (b0.cross b1).x + (b0.cross b1).y * (b0.cross b1).y + (b0.cross b1).z * (b0.cross b1).z = 0
      rw [ex, ey, ez]; ring
    linarith
  have hΔΔ : 0 < Δ * Δ := by
    rcases lt_or_gt_of_ne hΔ0 with h | h
    · exact mul_pos_of_neg_of_neg h h
    · exact mul_pos h h
  rcases coplanar_signs hs' ht' hu' hw' hΔ hΔ0 with ⟨c1, c2⟩ | ⟨c1, c2⟩ | ⟨c1, c2⟩ | ⟨c1, c2⟩
  · -- b0 in the cone of A
    right; right; left
    refine onArc_of_cone (s := α0 / N) (t := β0 / N) (div_nonneg c1 hnA.le) (div_nonneg c2 hnA.le) ?_ hb0
    apply r3_ext
    · show b0.x = α0 / N * a0.x + β0 / N * a1.x
      field_simp; linarith
    · show b0.y = α0 / N * a0.y + β0 / N * a1.y
      field_simp; linarith
    · show b0.z = α0 / N * a0.z + β0 / N * a1.z
      field_simp; linarith
  · right; right; right
    refine onArc_of_cone (s := α1 / N) (t := β1 / N) (div_nonneg c1 hnA.le) (div_nonneg c2 hnA.le) ?_ hb1
    apply r3_ext
    · show b1.x = α1 / N * a0.x + β1 / N * a1.x
      field_simp; linarith
    · show b1.y = α1 / N * a0.y + β1 / N * a1.y
      field_simp; linarith
    · show b1.z = α1 / N * a0.z + β1 / N * a1.z
      field_simp; linarith
  · -- a0 in the cone of B :  Δ·a0 = N·(β1·b0 − β0·b1)
    left
    refine onArc_of_cone (s := N * (β1 * Δ) / (Δ * Δ)) (t := N * (-(β0 * Δ)) / (Δ * Δ))
      (div_nonneg (mul_nonneg hnA.le c1) hΔΔ.le) (div_nonneg (mul_nonneg hnA.le (by linarith)) hΔΔ.le) ?_ ha0
    apply r3_ext
    · exact div_comb hΔΔ.ne' (by linear_combination (-β1 * Δ) * x0 + (β0 * Δ) * x1 + (Δ * a0.x) * hΔ)
    · exact div_comb hΔΔ.ne' (by linear_combination (-β1 * Δ) * y0 + (β0 * Δ) * y1 + (Δ * a0.y) * hΔ)
    · exact div_comb hΔΔ.ne' (by linear_combination (-β1 * Δ) * z0 + (β0 * Δ) * z1 + (Δ * a0.z) * hΔ)
  · -- a1 in the cone of B :  Δ·a1 = N·(−α1·b0 + α0·b1)
    right; left
    refine onArc_of_cone (s := N * (-(α1 * Δ)) / (Δ * Δ)) (t := N * (α0 * Δ) / (Δ * Δ))
      (div_nonneg (mul_nonneg hnA.le (by linarith)) hΔΔ.le) (div_nonneg (mul_nonneg hnA.le c2) hΔΔ.le) ?_ ha1
    apply r3_ext
    · exact div_comb hΔΔ.ne' (by linear_combination (α1 * Δ) * x0 + (-α0 * Δ) * x1 + (Δ * a1.x) * hΔ)
    · exact div_comb hΔΔ.ne' (by linear_combination (α1 * Δ) * y0 + (-α0 * Δ) * y1 + (Δ * a1.y) * hΔ)
    · exact div_comb hΔΔ.ne' (by linear_combination (α1 * Δ) * z0 + (-α0 * Δ) * z1 + (Δ * a1.z) * hΔ)

/-- **two arcs with a common point either cross properly or the direction of an endpoint of one lies on the other** -/
theorem meet_cases {a0 a1 b0 b1 : R3} (ha0 : 0 < a0.len) (ha1 : 0 < a1.len) (hb0 : 0 < b0.len) (hb1 : 0 < b1.len)
    (h : ArcsMeetR a0 a1 b0 b1) : ProperCrossR a0 a1 b0 b1 ∨ EndpointOnOtherR a0 a1 b0 b1 := by
  obtain ⟨X, hA, hB⟩ := h
  have hA' := hA
  have hB' := hB
  obtain ⟨s, t, hs, ht, hXa, hX1⟩ := hA
  obtain ⟨s', t', hs', ht', hXb, _⟩ := hB
  -- a vanishing coefficient: X is the direction of an endpoint
  rcases hs.eq_or_lt with hs0 | hspos
  · right; right; left
    have hd : comb (1 / a1.len) a1 0 a1 = X := by
      apply dir_of_ray (c := t) (b := a0) ht _ hX1
      rw [hXa, ← hs0]; unfold comb; simp only [R3.mk.injEq]; refine ⟨by ring, by ring, by ring⟩
    rw [hd]; exact hB'
  rcases ht.eq_or_lt with ht0 | htpos
  · right; left
    have hd : comb (1 / a0.len) a0 0 a0 = X := by
      apply dir_of_ray (c := s) (b := a1) hs _ hX1
      rw [hXa, ← ht0]
    rw [hd]; exact hB'
  rcases hs'.eq_or_lt with hs0 | hs'pos
  · right; right; right; right
    have hd : comb (1 / b1.len) b1 0 b1 = X := by
      apply dir_of_ray (c := t') (b := b0) ht' _ hX1
      rw [hXb, ← hs0]; unfold comb; simp only [R3.mk.injEq]; refine ⟨by ring, by ring, by ring⟩
    rw [hd]; exact hA'
  rcases ht'.eq_or_lt with ht0 | ht'pos
  · right; right; right; left
    have hd : comb (1 / b0.len) b0 0 b0 = X := by
      apply dir_of_ray (c := s') (b := b1) hs' _ hX1
      rw [hXb, ← ht0]
    rw [hd]; exact hA'
  -- degenerate edges
  by_cases hnA : (a0.cross a1).n2 = 0
  · right
    rcases parallel_dir hs ht hXa hX1 ha0 ha1 hnA with h | h
    · left; rw [h]; exact hB'
    · right; left; rw [h]; exact hB'
  by_cases hnB : (b0.cross b1).n2 = 0
  · right
    rcases parallel_dir hs' ht' hXb hX1 hb0 hb1 hnB with h | h
    · right; right; left; rw [h]; exact hA'
    · right; right; right; rw [h]; exact hA'
  have hnA' : 0 < (a0.cross a1).n2 := lt_of_le_of_ne (n2_nonneg _) (Ne.symm hnA)
  have hnB' : 0 < (b0.cross b1).n2 := lt_of_le_of_ne (n2_nonneg _) (Ne.symm hnB)
  have heq : comb s a0 t a1 = comb s' b0 t' b1 := by rw [← hXa, hXb]
  have e1 : s' * b0.dot (a0.cross a1) + t' * b1.dot (a0.cross a1) = 0 := by
    have k1 : (comb s' b0 t' b1).dot (a0.cross a1) = s' * b0.dot (a0.cross a1) + t' * b1.dot (a0.cross a1) := by
      unfold comb R3.dot R3.cross; ring
    have k2 : (comb s a0 t a1).dot (a0.cross a1) = 0 := by unfold comb R3.dot R3.cross; ring
    rw [← k1, ← heq, k2]
  have e2 : s * a0.dot (b0.cross b1) + t * a1.dot (b0.cross b1) = 0 := by
    have k1 : (comb s a0 t a1).dot (b0.cross b1) = s * a0.dot (b0.cross b1) + t * a1.dot (b0.cross b1) := by
      unfold comb R3.dot R3.cross; ring
    have k2 : (comb s' b0 t' b1).dot (b0.cross b1) = 0 := by unfold comb R3.dot R3.cross; ring
    rw [← k1, heq, k2]
  have e3 : s' * a1.dot (b0.cross b1) = -(s * b1.dot (a0.cross a1)) := by
    have k1 : ((comb s a0 t a1).cross b1).dot a1 = -(s * b1.dot (a0.cross a1)) := by
      unfold comb R3.dot R3.cross; ring
    have k2 : ((comb s' b0 t' b1).cross b1).dot a1 = s' * a1.dot (b0.cross b1) := by
      unfold comb R3.dot R3.cross; ring
    rw [← k1, ← k2, heq]
  set p0 := b0.dot (a0.cross a1) with hp0
  set p1 := b1.dot (a0.cross a1) with hp1
  set q0 := a0.dot (b0.cross b1) with hq0
  set q1 := a1.dot (b0.cross b1) with hq1
  -- coplanar arcs
  by_cases hp : p0 = 0
  · right
    have hp1z : p1 = 0 := by
      rw [hp, mul_zero, zero_add] at e1
      exact (mul_eq_zero.mp e1).resolve_left ht'pos.ne'
    exact coplanar_touch hspos htpos hs'pos ht'pos hXa hXb ha0 ha1 hb0 hb1 hnA' hnB' hp hp1z
  by_cases hq : q0 = 0
  · right
    have hq1z : q1 = 0 := by
      rw [hq, mul_zero, zero_add] at e2
      exact (mul_eq_zero.mp e2).resolve_left htpos.ne'
    exact endpointOnOther_swap (coplanar_touch hs'pos ht'pos hspos htpos hXb hXa hb0 hb1 ha0 ha1 hnB' hnA' hq hq1z)
  -- the generic case: proper crossing
  left
  have hpp : 0 < p0 * p0 := by
    rcases lt_or_gt_of_ne hp with h | h
    · exact mul_pos_of_neg_of_neg h h
    · exact mul_pos h h
  have hqq : 0 < q0 * q0 := by
    rcases lt_or_gt_of_ne hq with h | h
    · exact mul_pos_of_neg_of_neg h h
    · exact mul_pos h h
  have f1 : t' * (p0 * p1) = -(s' * (p0 * p0)) := by linear_combination p0 * e1
  have f2 : t * (q0 * q1) = -(s * (q0 * q0)) := by linear_combination q0 * e2
  have f3 : s * (t * p1 - s' * q0) = 0 := by linear_combination (-s') * e2 + t * e3
  have f4 : t * p1 = s' * q0 := by
    have := (mul_eq_zero.mp f3).resolve_left hspos.ne'
    linarith
  have f5 : t * (q0 * p1) = s' * (q0 * q0) := by linear_combination q0 * f4
  refine ⟨?_, ?_, ?_⟩
  · by_contra hc
    have h1 := mul_nonneg ht'pos.le (not_lt.mp hc)
    have h2 := mul_pos hs'pos hpp
    linarith
  · by_contra hc
    have h1 := mul_nonneg htpos.le (not_lt.mp hc)
    have h2 := mul_pos hspos hqq
    linarith
  · by_contra hc
    have h1 := mul_nonpos_of_nonneg_of_nonpos htpos.le (not_lt.mp hc)
    have h2 := mul_pos hs'pos hqq
    linarith

/-! ### consequences for arcs of float points -/

theorem trueDist2_nonneg {x a b : V3} (hx : 0 < len x) (ha : 0 < len a) (hb : 0 < len b) : 0 ≤ trueDist2 x a b := by
  obtain ⟨P, hP, e⟩ := trueDist2_attained hx ha hb (x := x) (a := a) (b := b)
  rw [← e]
  have hP1 : P.n2 = 1 := hP.choose_spec.choose_spec.2.2.2
  have hcs := abs_dot_le (vecR x) P
  rw [len_eq_one hP1, mul_one, vecR_len] at hcs
  obtain ⟨c1, c2⟩ := abs_le.mp hcs
  unfold dirChordP
  have q1 : (vecR x).dot P / len x ≤ 1 := by rw [div_le_one hx]; exact c2
  linarith

/-- a point whose direction lies on the arc has distance 0 from it -/
theorem trueDist2_zero_of_onArc {x a b : V3} (hx : 0 < len x) (ha : 0 < len a) (hb : 0 < len b)
    (h : OnArc (vecR a) (vecR b) (comb (1 / len x) (vecR x) 0 (vecR x))) : trueDist2 x a b = 0 := by
  apply le_antisymm _ (trueDist2_nonneg hx ha hb)
  have h1 := trueDist2_le hx ha hb h
  have e : dirChordP x (comb (1 / len x) (vecR x) 0 (vecR x)) = 0 := by
    unfold dirChordP
    rw [dot_comb]
    have : (vecR x).dot (vecR x) = len x * len x := by rw [C17Err.len_sq]; rfl
    rw [this]
    field_simp
    ring
  linarith

theorem pairMin4_nonneg {a0 a1 b0 b1 : V3} (ha0 : 0 < len a0) (ha1 : 0 < len a1) (hb0 : 0 < len b0)
    (hb1 : 0 < len b1) : 0 ≤ pairMin4 a0 a1 b0 b1 :=
  le_min (le_min (trueDist2_nonneg ha0 hb0 hb1) (trueDist2_nonneg ha1 hb0 hb1))
    (le_min (trueDist2_nonneg hb0 ha0 ha1) (trueDist2_nonneg hb1 ha0 ha1))

/-- the direction of an endpoint lies on the other arc (float-point vocabulary) -/
def EndpointOnOther (a0 a1 b0 b1 : V3) : Prop := EndpointOnOtherR (vecR a0) (vecR a1) (vecR b0) (vecR b1)

theorem pairMin4_zero_of_endpoint {a0 a1 b0 b1 : V3} (ha0 : 0 < len a0) (ha1 : 0 < len a1) (hb0 : 0 < len b0)
    (hb1 : 0 < len b1) (h : EndpointOnOther a0 a1 b0 b1) : pairMin4 a0 a1 b0 b1 = 0 := by
  apply le_antisymm _ (pairMin4_nonneg ha0 ha1 hb0 hb1)
  unfold pairMin4
  rcases h with h | h | h | h
  · rw [← trueDist2_zero_of_onArc ha0 hb0 hb1 h]
    exact le_trans (min_le_left _ _) (min_le_left _ _)
  · rw [← trueDist2_zero_of_onArc ha1 hb0 hb1 h]
    exact le_trans (min_le_left _ _) (min_le_right _ _)
  · rw [← trueDist2_zero_of_onArc hb0 ha0 ha1 h]
    exact le_trans (min_le_right _ _) (min_le_left _ _)
  · rw [← trueDist2_zero_of_onArc hb1 ha0 ha1 h]
    exact le_trans (min_le_right _ _) (min_le_right _ _)

/-- **touching arcs**: the arcs meet but not in the proper-crossing pattern ⇒ an endpoint direction lies on the other
    arc, and the least of the four endpoint-to-arc distances is 0 (so `truePairDist2 = pairMin4` also when the arcs meet
    without crossing properly) -/
theorem touch_pairMin4_zero {a0 a1 b0 b1 : V3} (ha0 : 0 < len a0) (ha1 : 0 < len a1) (hb0 : 0 < len b0)
    (hb1 : 0 < len b1) (hm : ArcsMeet a0 a1 b0 b1)
    (hnp : ¬ ProperCrossR (vecR a0) (vecR a1) (vecR b0) (vecR b1)) :
    EndpointOnOther a0 a1 b0 b1 ∧ pairMin4 a0 a1 b0 b1 = 0 := by
  rcases meet_cases (a0 := vecR a0) (a1 := vecR a1) (b0 := vecR b0) (b1 := vecR b1) ha0 ha1 hb0 hb1 hm with h | h
  · exact absurd h hnp
  · exact ⟨h, pairMin4_zero_of_endpoint ha0 ha1 hb0 hb1 h⟩

/-- without a proper crossing the exact edge-pair distance IS `pairMin4` -/
theorem truePairDist2_eq_pairMin4 {a0 a1 b0 b1 : V3} (ha0 : 0 < len a0) (ha1 : 0 < len a1) (hb0 : 0 < len b0)
    (hb1 : 0 < len b1) (hnp : ¬ ProperCrossR (vecR a0) (vecR a1) (vecR b0) (vecR b1)) :
    truePairDist2 a0 a1 b0 b1 = pairMin4 a0 a1 b0 b1 := by
  unfold truePairDist2
  split_ifs with hm
  · exact (touch_pairMin4_zero ha0 ha1 hb0 hb1 hm hnp).2.symm
  · rfl

end S2Proofs.C17Pairs
