/-
  C17Pairs.CrossWeak — `CrossingSign == Cross` WITH vanishing determinants (the answer of the symbolic perturbation):
  if the two great circles are different (`(a0×a1)×(b0×b1) ≠ 0`), the closed arcs have a common point.

  Only fact used about `RobustSign`: it is the sign of the determinant whenever the determinant is not 0 (`rs_det`).
  The perturbed signs of a `Cross` answer are  s(a0a1b1) = −s, s(b0b1a1) = s, s(b0b1a0) = −s  with s = s(a0a1b0); the TRUE
  determinants therefore satisfy the WEAK crossing pattern, and the vector  W = (a0×a1)×(b0×b1) = q0·a1 − q1·a0 = p1·b0 − p0·b1
  (or its negative) lies in both closed cones.
-/
import S2Proofs.C17Pairs.TouchLink

set_option linter.unusedSimpArgs false
set_option linter.unusedVariables false

namespace S2Proofs.C17Pairs
open S2 S2.Exact S2.Pred S2.EdgeNum S2Proofs.F64Order S2Proofs.C02Err S2Proofs.C17 S2Proofs.C17Err S2Proofs.C17Err.R3

/-- **weak crossing pattern ⇒ the closed arcs meet** (pure ℝ³) -/
theorem weak_cross_meets {a0 a1 b0 b1 : R3} {σ : ℝ} (hσ : σ ≠ 0)
    (h1 : 0 ≤ σ * b1.dot (a0.cross a1)) (h0 : σ * b0.dot (a0.cross a1) ≤ 0)
    (g1 : σ * a1.dot (b0.cross b1) ≤ 0) (g0 : 0 ≤ σ * a0.dot (b0.cross b1))
    (hW : 0 < ((a0.cross a1).cross (b0.cross b1)).n2) : ArcsMeetR a0 a1 b0 b1 := by
  set p0 := b0.dot (a0.cross a1) with hp0
  set p1 := b1.dot (a0.cross a1) with hp1
  set q0 := a0.dot (b0.cross b1) with hq0
  set q1 := a1.dot (b0.cross b1) with hq1
  set X := comb (σ * -q1) a0 (σ * q0) a1 with hX
  have hXb : X = comb (σ * p1) b0 (σ * -p0) b1 := by
    rw [hX, hp0, hp1, hq0, hq1]
    unfold comb R3.dot R3.cross
    simp only [R3.mk.injEq]
    refine ⟨by ring, by ring, by ring⟩
  have hXn : X.n2 = σ * σ * ((a0.cross a1).cross (b0.cross b1)).n2 := by
    rw [hX, hq0, hq1]
    unfold comb R3.n2 R3.dot R3.cross
    ring
  have hσσ : 0 < σ * σ := by
    rcases lt_or_gt_of_ne hσ with h | h
    · exact mul_pos_of_neg_of_neg h h
    · exact mul_pos h h
  have hXpos : 0 < X.len := by
    rw [len_pos_iff, hXn]; exact mul_pos hσσ hW
  exact ⟨comb (1 / X.len) X 0 X,
    onArc_of_cone (s := σ * -q1) (t := σ * q0) (by linarith) g0 hX hXpos,
    onArc_of_cone (s := σ * p1) (t := σ * -p0) h1 (by linarith) hXb hXpos⟩

/-- what `RobustSign` says about the true determinant: never the opposite sign; 0 only for a vanishing determinant -/
theorem rs_weak {a b c : V3} (ha : Unitish a) (hb : Unitish b) (hc : Unitish c) :
    0 ≤ robustSign a b c * det3 (ofV3 a) (ofV3 b) (ofV3 c) ∧
    (robustSign a b c = 0 → det3 (ofV3 a) (ofV3 b) (ofV3 c) = 0) := by
  by_cases hD : det3 (ofV3 a) (ofV3 b) (ofV3 c) = 0
  · rw [hD]; exact ⟨by simp, fun _ => rfl⟩
  · rw [rs_det ha hb hc hD]
    rcases lt_or_gt_of_ne hD with h | h
    · rw [Int.sign_eq_neg_one_of_neg h]
      exact ⟨by omega, fun h0 => by omega⟩
    · rw [Int.sign_eq_one_of_pos h]
      exact ⟨by omega, fun h0 => by omega⟩

/-- the two great circles are different (and neither edge is degenerate): `(a0×a1)×(b0×b1) ≠ 0`, integer form -/
def CirclesDifferZ (a0 a1 b0 b1 : V3) : Prop :=
  0 < (((ofV3 a0).cross (ofV3 a1)).cross ((ofV3 b0).cross (ofV3 b1))).norm2

instance (a0 a1 b0 b1 : V3) : Decidable (CirclesDifferZ a0 a1 b0 b1) := by unfold CirclesDifferZ; infer_instance

theorem circlesDiffer_real {a0 a1 b0 b1 : V3} (h : CirclesDifferZ a0 a1 b0 b1) :
    0 < (((vecR a0).cross (vecR a1)).cross ((vecR b0).cross (vecR b1))).n2 := by
  have e : (((vecR a0).cross (vecR a1)).cross ((vecR b0).cross (vecR b1))).n2
      = (((((ofV3 a0).cross (ofV3 a1)).cross ((ofV3 b0).cross (ofV3 b1))).norm2 : ℤ) : ℝ) / (2 ^ 1074) ^ 8 := by
    unfold R3.n2 R3.dot R3.cross vecR IV3.norm2 IV3.dot IV3.cross ofV3 FloatErr.val
    push_cast; field_simp; ring
  rw [e]
  exact div_pos (by exact_mod_cast h) (by positivity)

/-- **`CrossingSign == Cross` on different great circles ⇒ the closed arcs have a common point**, whatever determinants
    vanish (the symbolic perturbation never reports a crossing of arcs that do not at least touch) -/
theorem crosses_meets {a0 a1 b0 b1 : V3} (ha0 : Unitish a0) (ha1 : Unitish a1) (hb0 : Unitish b0) (hb1 : Unitish b1)
    (hd : CirclesDifferZ a0 a1 b0 b1) (hc : crosses a0 a1 b0 b1 = true) : ArcsMeet a0 a1 b0 b1 := by
  obtain ⟨s1, s2, s3⟩ := crosses_signs hc
  obtain ⟨w0, z0⟩ := rs_weak ha0 ha1 hb0
  obtain ⟨w1, z1⟩ := rs_weak ha0 ha1 hb1
  obtain ⟨w2, z2⟩ := rs_weak hb0 hb1 ha1
  obtain ⟨w3, z3⟩ := rs_weak hb0 hb1 ha0
  rw [s1] at w1 z1
  rw [s2] at w2 z2
  rw [s3] at w3 z3
  set s := robustSign a0 a1 b0 with hs
  have c1 : (ofV3 b0).dot ((ofV3 a0).cross (ofV3 a1)) = det3 (ofV3 a0) (ofV3 a1) (ofV3 b0) := by
    unfold det3 IV3.dot IV3.cross; ring
  have c2 : (ofV3 b1).dot ((ofV3 a0).cross (ofV3 a1)) = det3 (ofV3 a0) (ofV3 a1) (ofV3 b1) := by
    unfold det3 IV3.dot IV3.cross; ring
  have c3 : (ofV3 a0).dot ((ofV3 b0).cross (ofV3 b1)) = det3 (ofV3 b0) (ofV3 b1) (ofV3 a0) := by
    unfold det3 IV3.dot IV3.cross; ring
  have c4 : (ofV3 a1).dot ((ofV3 b0).cross (ofV3 b1)) = det3 (ofV3 b0) (ofV3 b1) (ofV3 a1) := by
    unfold det3 IV3.dot IV3.cross; ring
  rw [← c1] at w0 z0
  rw [← c2] at w1 z1
  rw [← c4] at w2 z2
  rw [← c3] at w3 z3
  set P0 := (ofV3 b0).dot ((ofV3 a0).cross (ofV3 a1)) with hP0
  set P1 := (ofV3 b1).dot ((ofV3 a0).cross (ofV3 a1)) with hP1
  set Q0 := (ofV3 a0).dot ((ofV3 b0).cross (ofV3 b1)) with hQ0
  set Q1 := (ofV3 a1).dot ((ofV3 b0).cross (ofV3 b1)) with hQ1
  have hWr := circlesDiffer_real hd
  have hS3 : (0 : ℝ) < (2 ^ 1074) ^ 3 := by positivity
  -- the perturbed sign is not 0
  have hs0 : s ≠ 0 := by
    intro h0
    have e0 := z0 h0
    have e1 := z1 (by rw [h0]; rfl)
    have e2 := z2 h0
    have e3 := z3 (by rw [h0]; rfl)
    -- then W = 0
    have hW0 : (((ofV3 a0).cross (ofV3 a1)).cross ((ofV3 b0).cross (ofV3 b1))).norm2 = 0 := by
      have ex : ((ofV3 a0).cross (ofV3 a1)).cross ((ofV3 b0).cross (ofV3 b1))
          = ⟨Q0 * (ofV3 a1).x - Q1 * (ofV3 a0).x, Q0 * (ofV3 a1).y - Q1 * (ofV3 a0).y,
             Q0 * (ofV3 a1).z - Q1 * (ofV3 a0).z⟩ := by
        rw [hQ0, hQ1]
        unfold IV3.dot IV3.cross
        simp only [IV3.mk.injEq]
        refine ⟨by ring, by ring, by ring⟩
      rw [ex, e2, e3]
      unfold IV3.norm2 IV3.dot
      ring
    unfold CirclesDifferZ at hd
    omega
  have hσ : (-(s : ℝ)) ≠ 0 := by
    intro h
    apply hs0
    have : (s : ℝ) = 0 := by linarith
    exact_mod_cast this
  unfold ArcsMeet
  apply weak_cross_meets (σ := -(s : ℝ)) hσ _ _ _ _ hWr
  · rw [det_int b1 a0 a1]
    have : (0 : ℝ) ≤ ((-s * P1 : ℤ) : ℝ) := by exact_mod_cast w1
    push_cast at this
    have e : -(s : ℝ) * ((P1 : ℝ) / (2 ^ 1074) ^ 3) = (-(s : ℝ) * (P1 : ℝ)) / (2 ^ 1074) ^ 3 := by ring
    rw [e]; exact div_nonneg this hS3.le
  · rw [det_int b0 a0 a1]
    have : (0 : ℝ) ≤ ((s * P0 : ℤ) : ℝ) := by exact_mod_cast w0
    push_cast at this
    have e : -(s : ℝ) * ((P0 : ℝ) / (2 ^ 1074) ^ 3) = -(((s : ℝ) * (P0 : ℝ)) / (2 ^ 1074) ^ 3) := by ring
    rw [e]
    have := div_nonneg this hS3.le
    linarith
  · rw [det_int a1 b0 b1]
    have : (0 : ℝ) ≤ ((s * Q1 : ℤ) : ℝ) := by exact_mod_cast w2
    push_cast at this
    have e : -(s : ℝ) * ((Q1 : ℝ) / (2 ^ 1074) ^ 3) = -(((s : ℝ) * (Q1 : ℝ)) / (2 ^ 1074) ^ 3) := by ring
    rw [e]
    have := div_nonneg this hS3.le
    linarith
  · rw [det_int a0 b0 b1]
    have : (0 : ℝ) ≤ ((-s * Q0 : ℤ) : ℝ) := by exact_mod_cast w3
    push_cast at this
    have e : -(s : ℝ) * ((Q0 : ℝ) / (2 ^ 1074) ^ 3) = (-(s : ℝ) * (Q0 : ℝ)) / (2 ^ 1074) ^ 3 := by ring
    rw [e]; exact div_nonneg this hS3.le

end S2Proofs.C17Pairs
