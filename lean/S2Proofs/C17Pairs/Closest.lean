/-
  C17Pairs.Closest — `EdgePairClosestPoints` (package c17pairs2):

      closestVertex_spec    non-crossing case: the vertex chosen by the chain (`closestVertex`, the last call that returned
                            `true`) has a TRUE distance to the other arc within `pairLow + pairHigh2` of the exact edge-pair
                            distance `pairMin4`
      closestPoints_cases   the shape of the result: `(x, x)` with `x = Intersection` when `CrossingSign == Cross`, else the chosen
                            vertex paired with its `Project` on the other edge
      class predicates      `NearPole` (D39/D40: the vertex is within ≈ 5° of the pole of the other edge),
                            `BothNearlyAntipodal` (D38/D55)
-/
import S2Proofs.C17Pairs.PairFloat2
import S2Proofs.C17Pairs.TouchLink

set_option linter.unusedSimpArgs false
set_option linter.unusedVariables false

namespace S2Proofs.C17Pairs
open S2 S2.Exact S2.EdgeNum S2Proofs.F64Order S2Proofs.FloatErr S2Proofs.C17Err S2Proofs.C17Err.R3 S2Proofs.C17

/-- a call that returns `true` returns a value not below `true distance − lowSlack` -/
theorem step_true_lower {x a b : V3} (h : CallOK x a b) {m : F64} (hm : Fin m) (h0 : 0 ≤ val m)
    (hfl : (updateMinDistance x a b m false).2 = true) :
    trueDist2 x a b - lowSlack x a b ≤ val (updateMinDistance x a b m false).1 := by
  obtain ⟨f, _, _, l, _⟩ := step_fin h hm h0
  have hlt := (lt_val f hm).mp (updateMinDistance_true_lt x a b m f hm hfl)
  rcases min_le_iff.mp l with q | q
  · linarith
  · exact q

/-- the exact point-to-arc distance of the vertex with index `i` (0: a0, 1: a1 against B; 2: b0, 3: b1 against A) -/
noncomputable def vertexTrue (a0 a1 b0 b1 : V3) (i : Nat) : ℝ :=
  match i with
  | 0 => trueDist2 a0 b0 b1
  | 1 => trueDist2 a1 b0 b1
  | 2 => trueDist2 b0 a0 a1
  | _ => trueDist2 b1 a0 a1

theorem pairMin4_le_vertexTrue (a0 a1 b0 b1 : V3) (i : Nat) : pairMin4 a0 a1 b0 b1 ≤ vertexTrue a0 a1 b0 b1 i := by
  obtain ⟨⟨m1, m2, m3, m4⟩, _⟩ := pair_facts a0 a1 b0 b1
  unfold vertexTrue
  split <;> assumption

/-- **the vertex chosen by `EdgePairClosestPoints` realises the exact edge-pair distance up to `pairLow + pairHigh2`** -/
theorem closestVertex_spec {a0 a1 b0 b1 : V3} (h1 : CallOK a0 b0 b1) (h2 : CallOK a1 b0 b1) (h3 : CallOK b0 a0 a1)
    (h4 : CallOK b1 a0 a1) :
    closestVertex a0 a1 b0 b1 ≤ 3 ∧
    vertexTrue a0 a1 b0 b1 (closestVertex a0 a1 b0 b1)
      ≤ pairMin4 a0 a1 b0 b1 + (pairLow a0 a1 b0 b1 + pairHigh2 a0 a1 b0 b1) := by
  obtain ⟨f1, n1, e1⟩ := always_bound h1
  obtain ⟨f2, n2, u2, l2, g2⟩ := step_fin h2 f1 n1
  obtain ⟨f3, n3, u3, l3, g3⟩ := step_fin h3 f2 n2
  obtain ⟨f4, n4, u4, l4, g4⟩ := step_fin h4 f3 n3
  have t2 := step_true_lower h2 f1 n1
  have t3 := step_true_lower h3 f2 n2
  have t4 := step_true_lower h4 f3 n3
  have k2 := updateMinDistance_false_unchanged a1 b0 b1 (distanceFromSegmentChord a0 b0 b1)
  have k3 := updateMinDistance_false_unchanged b0 a0 a1
    (updateMinDistance a1 b0 b1 (distanceFromSegmentChord a0 b0 b1) false).1
  have k4 := updateMinDistance_false_unchanged b1 a0 a1
    (updateMinDistance b0 a0 a1 (updateMinDistance a1 b0 b1 (distanceFromSegmentChord a0 b0 b1) false).1 false).1
  unfold closestVertex updateMinDistancePub
  simp only
  change (if (updateMinDistance b1 a0 a1 (updateMinDistance b0 a0 a1 (updateMinDistance a1 b0 b1
      (distanceFromSegmentChord a0 b0 b1) false).1 false).1 false).2 = true then 3 else
    if (updateMinDistance b0 a0 a1 (updateMinDistance a1 b0 b1 (distanceFromSegmentChord a0 b0 b1) false).1 false).2 = true
      then 2 else
    if (updateMinDistance a1 b0 b1 (distanceFromSegmentChord a0 b0 b1) false).2 = true then 1 else 0) ≤ 3 ∧
    vertexTrue a0 a1 b0 b1 (if (updateMinDistance b1 a0 a1 (updateMinDistance b0 a0 a1 (updateMinDistance a1 b0 b1
      (distanceFromSegmentChord a0 b0 b1) false).1 false).1 false).2 = true then 3 else
    if (updateMinDistance b0 a0 a1 (updateMinDistance a1 b0 b1 (distanceFromSegmentChord a0 b0 b1) false).1 false).2 = true
      then 2 else
    if (updateMinDistance a1 b0 b1 (distanceFromSegmentChord a0 b0 b1) false).2 = true then 1 else 0) ≤ _
  set d1 := distanceFromSegmentChord a0 b0 b1 with hd1
  set r2 := updateMinDistance a1 b0 b1 d1 false with hr2
  set r3 := updateMinDistance b0 a0 a1 r2.1 false with hr3
  set r4 := updateMinDistance b1 a0 a1 r3.1 false with hr4
  obtain ⟨⟨m1, m2, m3, m4⟩, ⟨s1, s2, s3, s4⟩, ⟨w1, w2, w3, w4⟩⟩ := pair_facts a0 a1 b0 b1
  obtain ⟨e1l, e1u⟩ := abs_le.mp e1
  have hA1 : allowedError a0 b0 b1 ≤ lowSlack a0 b0 b1 := le_max_left _ _
  have hA2 : allowedError a0 b0 b1 ≤ highSlack a0 b0 b1 := le_max_left _ _
  -- the final value is not above pairMin4 + pairHigh2
  have hR : val r4.1 ≤ pairMin4 a0 a1 b0 b1 + pairHigh2 a0 a1 b0 b1 := by
    rcases pairMin4_cases a0 a1 b0 b1 with e | e | e | e <;> rw [e] <;> linarith
  by_cases q4 : r4.2 = true
  · rw [if_pos q4]
    refine ⟨le_refl _, ?_⟩
    have := t4 q4
    show trueDist2 b1 a0 a1 ≤ _
    linarith
  · rw [if_neg q4]
    have q4' : r4.2 = false := by cases h : r4.2 <;> simp_all
    have e4 : val r4.1 = val r3.1 := by rw [k4 q4']
    by_cases q3 : r3.2 = true
    · rw [if_pos q3]
      refine ⟨by norm_num, ?_⟩
      have := t3 q3
      show trueDist2 b0 a0 a1 ≤ _
      linarith
    · rw [if_neg q3]
      have q3' : r3.2 = false := by cases h : r3.2 <;> simp_all
      have e3 : val r3.1 = val r2.1 := by rw [k3 q3']
      by_cases q2 : r2.2 = true
      · rw [if_pos q2]
        refine ⟨by norm_num, ?_⟩
        have := t2 q2
        show trueDist2 a1 b0 b1 ≤ _
        linarith
      · rw [if_neg q2]
        have q2' : r2.2 = false := by cases h : r2.2 <;> simp_all
        have e2 : val r2.1 = val d1 := by rw [k2 q2']
        refine ⟨by norm_num, ?_⟩
        show trueDist2 a0 b0 b1 ≤ _
        linarith

/-- **the shape of the result of `EdgePairClosestPoints`** -/
theorem closestPoints_cases (a0 a1 b0 b1 : V3) :
    (crosses a0 a1 b0 b1 = true ∧
      edgePairClosestPoints a0 a1 b0 b1 = (intersection a0 a1 b0 b1, intersection a0 a1 b0 b1)) ∨
    (crosses a0 a1 b0 b1 = false ∧
      ((closestVertex a0 a1 b0 b1 = 0 ∧ edgePairClosestPoints a0 a1 b0 b1 = (a0, project a0 b0 b1)) ∨
       (closestVertex a0 a1 b0 b1 = 1 ∧ edgePairClosestPoints a0 a1 b0 b1 = (a1, project a1 b0 b1)) ∨
       (closestVertex a0 a1 b0 b1 = 2 ∧ edgePairClosestPoints a0 a1 b0 b1 = (project b0 a0 a1, b0)) ∨
       (3 ≤ closestVertex a0 a1 b0 b1 ∧ edgePairClosestPoints a0 a1 b0 b1 = (project b1 a0 a1, b1)))) := by
  unfold edgePairClosestPoints
  cases hc : crosses a0 a1 b0 b1
  · right
    refine ⟨rfl, ?_⟩
    simp only [Bool.false_eq_true, if_false]
    rcases hcv : closestVertex a0 a1 b0 b1 with _ | _ | _ | n
    · left; exact ⟨rfl, rfl⟩
    · right; left; exact ⟨rfl, rfl⟩
    · right; right; left; exact ⟨rfl, rfl⟩
    · right; right; right; exact ⟨by omega, rfl⟩
  · left
    exact ⟨rfl, by simp⟩

/-! ### the known classes in which the returned points are NOT accurate -/

/-- D39 / D40 (`project-nearpole`, `ee-closest-nearpole`): the direction of `x` is within ≈ 5° of the pole of the edge `ab`:
    `sin²∠(x, a×b) < 2^-7` -/
def NearPole (x a b : V3) : Prop :=
  (((vecR a).cross (vecR b)).cross (vecR x)).n2 * 2 ^ 7 < ((vecR a).cross (vecR b)).n2 * (vecR x).n2

/-- D40: some vertex of one edge is near the pole of the other edge -/
def SomeVertexNearPole (a0 a1 b0 b1 : V3) : Prop :=
  NearPole a0 b0 b1 ∨ NearPole a1 b0 b1 ∨ NearPole b0 a0 a1 ∨ NearPole b1 a0 a1

/-- the edge is within `2^-20` rad of antipodal: `|a+b|² < 2^-40·|a|²` -/
def NearlyAntipodal (a b : V3) : Prop :=
  (comb 1 (vecR a) 1 (vecR b)).n2 * 2 ^ 40 < (vecR a).n2

/-- D38 / D55 (`hemi-antipodal`, `ee-closest-antipodal-edges`): BOTH edges are nearly antipodal -/
def BothNearlyAntipodal (a0 a1 b0 b1 : V3) : Prop := NearlyAntipodal a0 a1 ∧ NearlyAntipodal b0 b1

end S2Proofs.C17Pairs
