/-
  C17Pairs.ProjCore — the real-analysis core of `Project(x, a, b)` (interior branch), pure ℝ³:

      projR x n          the orthogonal projection of x on the plane ⊥ n :  x − n·(x·n)/|n|²
      projR_*            identities: ⊥ n, x·p = |p|², |p|²·|n|² = |n×x|², |p| ≤ |x|
      proj_core          a vector w = p + ε with |ε| ≤ e ≤ |p|/2 has, against x, the cosine |p|/|x| up to 4e/|p|,
                         and against p the cosine ≥ 1 − 2e/|p|
      wedge_proj_onArc   for x in the wedge of (a, b) the normalised projection on the plane of a, b is a point of the arc
-/
import S2Proofs.C17Pairs.TouchGeom

set_option linter.unusedSimpArgs false
set_option linter.unusedVariables false

namespace S2Proofs.C17Pairs
open S2Proofs.C17Err S2Proofs.C17Err.R3

/-- orthogonal projection of `x` on the plane perpendicular to `n` -/
noncomputable def projR (x n : R3) : R3 := comb 1 x (-(x.dot n) / n.n2) n

theorem projR_dot_n {x n : R3} (hn : 0 < n.n2) : (projR x n).dot n = 0 := by
  unfold projR
  rw [dot_comm, dot_comb]
  have : n.dot n = n.n2 := rfl
  rw [this, dot_comm n x]
  field_simp
  ring

theorem x_dot_projR {x n : R3} (hn : 0 < n.n2) : x.dot (projR x n) = (projR x n).n2 := by
  have h := projR_dot_n (x := x) hn
  have e : (projR x n).n2 = (projR x n).dot (comb 1 x (-(x.dot n) / n.n2) n) := rfl
  rw [e, dot_comb, h, mul_zero, add_zero, one_mul, dot_comm]

theorem projR_n2 {x n : R3} (hn : 0 < n.n2) : (projR x n).n2 * n.n2 = (n.cross x).n2 := by
  unfold projR
  rw [comb_n2, lagrange]
  have e1 : n.dot n = n.n2 := rfl
  have e2 : x.dot x = x.n2 := rfl
  have hne : n.n2 ≠ 0 := hn.ne'
  rw [dot_comm n x]
  field_simp
  ring

theorem projR_len_le {x n : R3} (hn : 0 < n.n2) : (projR x n).len ≤ x.len := by
  apply len_le_of_sq (R3.len_nonneg x)
  rw [R3.len_sq]
  have h := projR_n2 (x := x) hn
  rw [lagrange] at h
  have h2 : (projR x n).n2 * n.n2 ≤ x.n2 * n.n2 := by
    rw [h]; have := mul_self_nonneg (n.dot x); nlinarith
  exact le_of_mul_le_mul_right h2 hn

theorem projR_len {x n : R3} (hn : 0 < n.n2) : (projR x n).len * n.len = (n.cross x).len := by
  have h := projR_n2 (x := x) hn
  have h0 : 0 ≤ (projR x n).len * n.len := mul_nonneg (R3.len_nonneg _) (R3.len_nonneg _)
  have e : ((projR x n).len * n.len) * ((projR x n).len * n.len) = (n.cross x).len * (n.cross x).len := by
    rw [R3.len_sq (n.cross x), ← h, ← R3.len_sq (projR x n), ← R3.len_sq n]; ring
  exact (mul_self_inj h0 (R3.len_nonneg _)).mp e

/-- **the core**: a perturbed projection against `x` and against the exact projection -/
theorem proj_core {x p w ε : R3} {e : ℝ} (hxp : x.dot p = p.n2) (hw : w = comb 1 p 1 ε) (hε : ε.len ≤ e)
    (hp0 : 0 < p.len) (hP : 2 * e ≤ p.len) (hple : p.len ≤ x.len) (he : 0 ≤ e) :
    0 < w.len ∧ |x.dot w / (x.len * w.len) - p.len / x.len| ≤ 4 * e / p.len ∧
    1 - 2 * e / p.len ≤ w.dot p / (w.len * p.len) := by
  set P := p.len with hPd
  set W := w.len with hWd
  set lx := x.len with hlx
  have hlx0 : 0 < lx := lt_of_lt_of_le hp0 hple
  have hPP : p.n2 = P * P := (R3.len_sq p).symm
  -- |W − P| ≤ e
  have hW1 : W ≤ P + e := by
    have := comb_len_le (s := 1) (t := 1) (by norm_num) (by norm_num) p ε
    rw [← hw] at this; linarith
  have hpw : p.dot w = P * P + p.dot ε := by
    rw [hw, dot_comb]; have : p.dot p = p.n2 := rfl; rw [this, hPP]; ring
  have hpe : |p.dot ε| ≤ P * e := by
    have := abs_dot_le p ε
    have h2 : P * ε.len ≤ P * e := mul_le_mul_of_nonneg_left hε hp0.le
    linarith
  have hpwle : p.dot w ≤ P * W := le_trans (le_abs_self _) (abs_dot_le p w)
  have hW2 : P ≤ W + e := by
    have h1 := (abs_le.mp hpe).1
    have h2 : P * P ≤ P * (W + e) := by nlinarith
    exact le_of_mul_le_mul_left h2 hp0
  have hWpos : 0 < W := by
    by_contra hc
    have : W ≤ 0 := not_lt.mp hc
    have hW0 : 0 ≤ W := R3.len_nonneg w
    have : P ≤ e := by linarith
    linarith
  have hWhalf : P ≤ 2 * W := by linarith
  -- x·w
  have hxw : x.dot w = P * P + x.dot ε := by
    rw [hw, dot_comb, hxp, hPP]; ring
  have hxe : |x.dot ε| ≤ lx * e := by
    have := abs_dot_le x ε
    have h2 : lx * ε.len ≤ lx * e := mul_le_mul_of_nonneg_left hε hlx0.le
    linarith
  refine ⟨hWpos, ?_, ?_⟩
  · have hden : 0 < lx * W := mul_pos hlx0 hWpos
    have e1 : x.dot w / (lx * W) - P / lx = (x.dot w - P * W) / (lx * W) := by
      field_simp
    rw [e1, abs_div, abs_of_pos hden, div_le_div_iff₀ hden hp0]
    have hnum : |x.dot w - P * W| ≤ (P + lx) * e := by
      rw [hxw]
      have e2 : P * P + x.dot ε - P * W = P * (P - W) + x.dot ε := by ring
      rw [e2]
      have h1 : |P * (P - W)| ≤ P * e := by
        rw [abs_mul, abs_of_pos hp0]
        exact mul_le_mul_of_nonneg_left (abs_le.mpr ⟨by linarith, by linarith⟩) hp0.le
      have := abs_add_le (P * (P - W)) (x.dot ε)
      linarith
    have h3 : (P + lx) * e * P ≤ 4 * e * (lx * W) := by
      have a1 : (P + lx) * e * P ≤ (2 * lx) * e * P :=
        mul_le_mul_of_nonneg_right (mul_le_mul_of_nonneg_right (by linarith) he) hp0.le
      have a2 : (2 * lx) * e * P ≤ (2 * lx) * e * (2 * W) :=
        mul_le_mul_of_nonneg_left hWhalf (mul_nonneg (by linarith) he)
      nlinarith
    have h4 : |x.dot w - P * W| * P ≤ (P + lx) * e * P := mul_le_mul_of_nonneg_right hnum hp0.le
    linarith
  · have hden : 0 < W * P := mul_pos hWpos hp0
    rw [le_div_iff₀ hden]
    have e1 : (1 - 2 * e / P) * (W * P) = (P - 2 * e) * W := by field_simp
    rw [e1, dot_comm, hpw]
    have h1 := (abs_le.mp hpe).1
    have h2 : (P - 2 * e) * W ≤ (P - 2 * e) * (P + e) := mul_le_mul_of_nonneg_left hW1 (by linarith)
    nlinarith

/-- for `x` in the wedge of `(a, b)` the normalised projection on the plane of `a, b` is a point of the arc -/
theorem wedge_proj_onArc {x a b : R3} (h : InWedgeR x a b) :
    0 < (projR x (a.cross b)).len ∧
    OnArc a b (comb (1 / (projR x (a.cross b)).len) (projR x (a.cross b)) 0 (projR x (a.cross b))) := by
  obtain ⟨hn, hw⟩ := wedge_nondeg h
  obtain ⟨h1, h2⟩ := h
  set n := a.cross b with hnd
  set N := n.n2 with hN
  have hpl : 0 < (projR x n).len := by
    rw [len_pos_iff]
    have := projR_n2 (x := x) hn
    by_contra hc
    have h0 : (projR x n).n2 = 0 := le_antisymm (not_lt.mp hc) (n2_nonneg _)
    rw [h0, zero_mul] at this
    linarith
  refine ⟨hpl, ?_⟩
  have hpp := plane_part x a b
  rw [← hnd] at hpp
  refine onArc_of_cone (s := -(x.dot (n.cross b)) / N) (t := x.dot (n.cross a) / N)
    (div_nonneg (by linarith) hn.le) (div_nonneg h1.le hn.le) ?_ hpl
  have hx := congrArg R3.x hpp
  have hy := congrArg R3.y hpp
  have hz := congrArg R3.z hpp
  unfold comb at hx hy hz
  simp only at hx hy hz
  have hne : N ≠ 0 := hn.ne'
  apply r3_ext
  · show 1 * x.x + -(x.dot n) / N * n.x = -(x.dot (n.cross b)) / N * a.x + x.dot (n.cross a) / N * b.x
    field_simp
    linarith
  · show 1 * x.y + -(x.dot n) / N * n.y = -(x.dot (n.cross b)) / N * a.y + x.dot (n.cross a) / N * b.y
    field_simp
    linarith
  · show 1 * x.z + -(x.dot n) / N * n.z = -(x.dot (n.cross b)) / N * a.z + x.dot (n.cross a) / N * b.z
    field_simp
    linarith

end S2Proofs.C17Pairs
