/-
  C17Pairs.ProjMargin — the two float sign tests of `Project`
        Sign(aXb, a, p) = ((p × aXb)·a > 0),     Sign(p, b, aXb) = ((aXb × p)·b > 0)        (p = projRaw x a b)
  decide the exact wedge of the edge whenever both exact wedge functionals of x exceed `67u·|a×b|`:

      cross_chain55      float cross product of two vectors with coordinates ≤ 5 (error vector)
      triple_float       float triple product (u × v)·w
      proj_tests         the two float test values against  2·x·((a×b)×a)  and  −2·x·((a×b)×b)  :  error ≤ 133u·|a×b|
      projDecisionExact_of_margin
-/
import S2Proofs.C17Pairs.ProjFinal
import S2Proofs.C17Err.Wedge

set_option linter.unusedSimpArgs false
set_option linter.unusedVariables false

namespace S2Proofs.C17Pairs
open S2 S2.Exact S2.Pred S2.EdgeNum S2Proofs.F64Order S2Proofs.FloatErr S2Proofs.C17Err S2Proofs.C17Err.R3 S2Proofs.C17

/-- float cross product of two vectors with coordinates ≤ 5: the error VECTOR -/
theorem cross_chain55 (u v : V3) (hu : Fin3 u) (hv : Fin3 v) (mu : Coord5 u) (mv : Coord5 v) :
    Fin3 (u.cross v) ∧
    (R3.sub (vecR (u.cross v)) ((vecR u).cross (vecR v))).len
      ≤ 22 / 10 * uR * ((vecR u).len * (vecR v).len) + 8 * eR := by
  obtain ⟨hc1, hc2, hc3⟩ := hu
  obtain ⟨hx1, hx2, hx3⟩ := hv
  obtain ⟨mc1, mc2, mc3⟩ := mu
  obtain ⟨mx1, mx2, mx3⟩ := mv
  obtain ⟨f1, _, r23, r32, rx1⟩ := cross_step5 stdModel hc2 hx3 hc3 hx2 mc2 mx3 mc3 mx2
  obtain ⟨f2, _, r31, r13, rx2⟩ := cross_step5 stdModel hc3 hx1 hc1 hx3 mc3 mx1 mc1 mx3
  obtain ⟨f3, _, r12, r21, rx3⟩ := cross_step5 stdModel hc1 hx2 hc2 hx1 mc1 mx2 mc2 mx1
  have hu0 := uR_nonneg
  have he := eR_nonneg
  have c1 := cross_comp hu0 r23 r32 rx1
  have c2 := cross_comp hu0 r31 r13 rx2
  have c3 := cross_comp hu0 r12 r21 rx3
  refine ⟨⟨f1, f2, f3⟩, ?_⟩
  obtain ⟨X, hX⟩ : ∃ X, X = (vecR u).cross (vecR v) := ⟨_, rfl⟩
  rw [← hX]
  have hXsq : X.x ^ 2 + X.y ^ 2 + X.z ^ 2 ≤ X.len ^ 2 := by rw [n2_sq, sq, R3.len_sq]
  have hcsq : (vecR u).x ^ 2 + (vecR u).y ^ 2 + (vecR u).z ^ 2 ≤ (vecR u).len ^ 2 := by
    rw [n2_sq, sq, R3.len_sq]
  have hxsq : (vecR v).x ^ 2 + (vecR v).y ^ 2 + (vecR v).z ^ 2 ≤ (vecR v).len ^ 2 := by
    rw [n2_sq, sq, R3.len_sq]
  have hvec := cross_err_vec (u := uR) (k := uR * (1 + uR)) (g := 2 * (1 + uR) * eR) hu0
    (mul_nonneg hu0 (by linarith)) (mul_nonneg (mul_nonneg (by norm_num) (by linarith)) he)
    (R3.len_nonneg X) (R3.len_nonneg _) (R3.len_nonneg (vecR v)) hXsq hcsq hxsq
    (c1 := val (u.cross v).x) (c2 := val (u.cross v).y) (c3 := val (u.cross v).z)
    (X1 := X.x) (X2 := X.y) (X3 := X.z) (by rw [hX]; exact c1) (by rw [hX]; exact c2) (by rw [hX]; exact c3)
  have e : (R3.sub (vecR (u.cross v)) X).n2
      = (val (u.cross v).x - X.x) ^ 2 + (val (u.cross v).y - X.y) ^ 2 + (val (u.cross v).z - X.z) ^ 2 := by
    unfold R3.sub R3.n2 R3.dot vecR; ring
  have hLx : X.len ≤ (vecR u).len * (vecR v).len := by rw [hX]; exact cross_len_le _ _
  have hB := Bv_le hLx (R3.len_nonneg (vecR u)) (R3.len_nonneg (vecR v))
  have hB0 : 0 ≤ uR * X.len + uR * (1 + uR) * (2 / r3 * ((vecR u).len * (vecR v).len)) + 2 * (2 * (1 + uR) * eR) := by
    have h23 : 0 ≤ 2 / r3 := div_nonneg (by norm_num) r3_pos.le
    have t1 : 0 ≤ uR * X.len := mul_nonneg hu0 (R3.len_nonneg _)
    have t2 : 0 ≤ uR * (1 + uR) * (2 / r3 * ((vecR u).len * (vecR v).len)) :=
      mul_nonneg (mul_nonneg hu0 (by linarith))
        (mul_nonneg h23 (mul_nonneg (R3.len_nonneg _) (R3.len_nonneg _)))
    have t3 : 0 ≤ 2 * (2 * (1 + uR) * eR) :=
      mul_nonneg (by norm_num) (mul_nonneg (mul_nonneg (by norm_num) (by linarith)) he)
    linarith
  have := len_le_of_n2 hB0 (by rw [e]; exact hvec)
  linarith

theorem num53 : (301 / 100 * uR) * (1 + 1 / 2 ^ 40) + 22 / 10 * uR ≤ 53 / 10 * uR := by unfold uR; norm_num

/-- **the float triple product** `(u × v)·w` (coordinates ≤ 5, `|u|·|v| ≤ 4`, `|w| ≤ 2`) -/
theorem triple_float (u v w : V3) (hu : Fin3 u) (hv : Fin3 v) (hw : Fin3 w) (mu : Coord5 u) (mv : Coord5 v)
    (mw : Coord5 w) (hsize : (vecR u).len * (vecR v).len ≤ 4) (hw2 : (vecR w).len ≤ 2) :
    Fin ((u.cross v).dot w) ∧
    |val ((u.cross v).dot w) - ((vecR u).cross (vecR v)).dot (vecR w)|
      ≤ 53 / 10 * uR * ((vecR u).len * (vecR v).len * (vecR w).len) + 40 * eR := by
  obtain ⟨fcx, hev⟩ := cross_chain55 u v hu hv mu mv
  have hu0 := uR_nonneg
  have he := eR_nonneg
  obtain ⟨X, hX⟩ : ∃ X, X = (vecR u).cross (vecR v) := ⟨_, rfl⟩
  obtain ⟨L, hL⟩ : ∃ L, L = (vecR u).len * (vecR v).len := ⟨_, rfl⟩
  obtain ⟨Lw, hLw⟩ : ∃ Lw, Lw = (vecR w).len := ⟨_, rfl⟩
  rw [← hX, ← hL] at hev
  rw [← hX, ← hL, ← hLw]
  rw [← hL] at hsize
  rw [← hLw] at hw2
  have hL0 : 0 ≤ L := by rw [hL]; exact mul_nonneg (R3.len_nonneg _) (R3.len_nonneg _)
  have hLw0 : 0 ≤ Lw := by rw [hLw]; exact R3.len_nonneg _
  have hXl : X.len ≤ L := by rw [hX, hL]; exact cross_len_le _ _
  -- the float cross product: length and coordinates
  have hBs : 22 / 10 * uR * L + 8 * eR ≤ 1 / 2 ^ 40 * L + 8 * eR := by
    have : 22 / 10 * uR ≤ 1 / 2 ^ 40 := by unfold uR; norm_num
    have := mul_le_mul_of_nonneg_right this hL0
    linarith
  have hvl : (vecR (u.cross v)).len ≤ (1 + 1 / 2 ^ 40) * L + 8 * eR := by
    have h1 := len_sub_le (vecR (u.cross v)) X
    have h2 := (abs_le.mp h1).2
    have e : (1 + 1 / 2 ^ 40 : ℝ) * L = L + 1 / 2 ^ 40 * L := by ring
    linarith
  have hv5 : (vecR (u.cross v)).len ≤ 5 := by
    have h1 : (1 + 1 / 2 ^ 40 : ℝ) * L ≤ (1 + 1 / 2 ^ 40) * 4 := mul_le_mul_of_nonneg_left hsize (by norm_num)
    have h2 : 8 * eR ≤ 1 / 2 := by
      have := S2Proofs.C08World.eR_le_200
      have : (8 : ℝ) * (1 / 2 ^ 200) ≤ 1 / 2 := by norm_num
      linarith
    have h3 : (1 + 1 / 2 ^ 40 : ℝ) * 4 ≤ 9 / 2 := by norm_num
    linarith
  obtain ⟨vx, vy, vz⟩ := comp_le_len (vecR (u.cross v))
  have mcx : Coord5 (u.cross v) := ⟨le_trans vx hv5, le_trans vy hv5, le_trans vz hv5⟩
  obtain ⟨fd, hdot⟩ := dot_chain5 (u.cross v) w fcx hw mcx mw
  refine ⟨fd, ?_⟩
  rw [← hLw] at hdot
  -- exact part
  have hex : |(vecR (u.cross v)).dot (vecR w) - X.dot (vecR w)| ≤ (22 / 10 * uR * L + 8 * eR) * Lw := by
    have e : (vecR (u.cross v)).dot (vecR w) - X.dot (vecR w) = (R3.sub (vecR (u.cross v)) X).dot (vecR w) := by
      rw [dot_sub_left]
    rw [e]
    have := R3.abs_dot_le (R3.sub (vecR (u.cross v)) X) (vecR w)
    rw [← hLw] at this
    exact le_trans this (mul_le_mul_of_nonneg_right hev hLw0)
  have hρ : fU uR + gU uR ≤ 301 / 100 * uR := by
    have h1 := S2Proofs.C16Acc.rhoU_le3
    unfold rhoU at h1
    have : (3 + 1 / 1000 : ℝ) * uR ≤ 301 / 100 * uR := mul_le_mul_of_nonneg_right (by norm_num) hu0
    linarith
  have hhU : hU uR * eR ≤ 7 * eR := by
    apply mul_le_mul_of_nonneg_right _ he
    unfold hU uR; norm_num
  have h1 : (fU uR + gU uR) * ((vecR (u.cross v)).len * Lw)
      ≤ 301 / 100 * uR * (((1 + 1 / 2 ^ 40) * L + 8 * eR) * Lw) :=
    mul_le_mul hρ (mul_le_mul_of_nonneg_right hvl hLw0) (mul_nonneg (R3.len_nonneg _) hLw0) (by linarith)
  have htri := abs_sub_le (val ((u.cross v).dot w)) ((vecR (u.cross v)).dot (vecR w)) (X.dot (vecR w))
  -- collect
  have c1 : 301 / 100 * uR * (((1 + 1 / 2 ^ 40) * L + 8 * eR) * Lw) + (22 / 10 * uR * L + 8 * eR) * Lw
      = ((301 / 100 * uR) * (1 + 1 / 2 ^ 40) + 22 / 10 * uR) * (L * Lw) + (301 / 100 * uR * 8 + 8) * (eR * Lw) := by ring
  have c2 : ((301 / 100 * uR) * (1 + 1 / 2 ^ 40) + 22 / 10 * uR) * (L * Lw) ≤ 53 / 10 * uR * (L * Lw) :=
    mul_le_mul_of_nonneg_right num53 (mul_nonneg hL0 hLw0)
  have c3 : (301 / 100 * uR * 8 + 8) * (eR * Lw) ≤ 9 * (eR * 2) := by
    have a : 301 / 100 * uR * 8 + 8 ≤ 9 := by unfold uR; norm_num
    have b : eR * Lw ≤ eR * 2 := mul_le_mul_of_nonneg_left hw2 he
    exact mul_le_mul a b (mul_nonneg he hLw0) (by norm_num)
  linarith

/-! ### the exact level -/

theorem cross_sub_right (w u v : R3) : w.cross (R3.sub u v) = R3.sub (w.cross u) (w.cross v) := by
  unfold R3.sub R3.cross; apply r3_ext <;> (simp only; ring)

/-- the exact first test value: `(ps × C)·a = 2·x·((a×b)×a)` for `ps` the projection of `x` on the plane ⊥ `C = 2(a×b)` -/
theorem test1_exact {x a n C : R3} (hn : 0 < C.n2) (c1 : C.x = 2 * n.x) (c2 : C.y = 2 * n.y) (c3 : C.z = 2 * n.z) :
    ((projR x C).cross C).dot a = 2 * x.dot (n.cross a) := by
  have hne : C.n2 ≠ 0 := hn.ne'
  unfold projR comb R3.cross R3.dot
  simp only
  rw [c1, c2, c3]
  ring

theorem test2_exact {x b n C : R3} (hn : 0 < C.n2) (c1 : C.x = 2 * n.x) (c2 : C.y = 2 * n.y) (c3 : C.z = 2 * n.z) :
    (C.cross (projR x C)).dot b = -(2 * x.dot (n.cross b)) := by
  unfold projR comb R3.cross R3.dot
  simp only
  rw [c1, c2, c3]
  ring

/-- replacing `(p, c)` by `(ps, C)` in a triple product -/
theorem triple_change {p ps c C a : R3} {e1 e2 : ℝ} (h1 : (R3.sub p ps).len ≤ e1) (h2 : (R3.sub c C).len ≤ e2) :
    |(p.cross c).dot a - (ps.cross C).dot a| ≤ e1 * c.len * a.len + ps.len * e2 * a.len := by
  have e : (p.cross c).dot a - (ps.cross C).dot a
      = ((R3.sub p ps).cross c).dot a + (ps.cross (R3.sub c C)).dot a := by
    unfold R3.sub R3.cross R3.dot; ring
  rw [e]
  have t1 := R3.abs_dot_le ((R3.sub p ps).cross c) a
  have t2 := R3.abs_dot_le (ps.cross (R3.sub c C)) a
  have l1 := cross_len_le (R3.sub p ps) c
  have l2 := cross_len_le ps (R3.sub c C)
  have a0 := R3.len_nonneg a
  have m1 : ((R3.sub p ps).cross c).len * a.len ≤ e1 * c.len * a.len := by
    apply mul_le_mul_of_nonneg_right _ a0
    exact le_trans l1 (mul_le_mul_of_nonneg_right h1 (R3.len_nonneg c))
  have m2 : (ps.cross (R3.sub c C)).len * a.len ≤ ps.len * e2 * a.len := by
    apply mul_le_mul_of_nonneg_right _ a0
    exact le_trans l2 (mul_le_mul_of_nonneg_left h2 (R3.len_nonneg ps))
  have := abs_add_le (((R3.sub p ps).cross c).dot a) ((ps.cross (R3.sub c C)).dot a)
  linarith

theorem triple_change' {p ps c C b : R3} {e1 e2 : ℝ} (h1 : (R3.sub p ps).len ≤ e1) (h2 : (R3.sub c C).len ≤ e2) :
    |(c.cross p).dot b - (C.cross ps).dot b| ≤ e1 * c.len * b.len + ps.len * e2 * b.len := by
  have e : (c.cross p).dot b - (C.cross ps).dot b = -((p.cross c).dot b - (ps.cross C).dot b) := by
    unfold R3.cross R3.dot; ring
  rw [e, abs_neg]
  exact triple_change h1 h2

/-! ### the un-normalised point as a vector -/

theorem projRaw_vec {x a b : V3} (hx : UnitPt x) (ha : UnitPt a) (hb : UnitPt b) (hE : EdgeOK a b) :
    Fin3 (projRaw x a b) ∧ Coord5 (projRaw x a b) ∧
    (R3.sub (vecR (projRaw x a b)) (projR (vecR x) (vC a b))).len ≤ 56 * uR ∧
    (vecR (projRaw x a b)).len ≤ 101 / 100 := by
  obtain ⟨_, hlx0, hlx⟩ := unit_len delta0_nonneg (le_refl _) hx
  obtain ⟨fp, ex, ey, ez⟩ := projRaw_spec hx ha hb hE
  have hLC := S2Proofs.C08World.edge_LC hE
  have hLCpos : 0 < (vC a b).len := lt_of_lt_of_le (by positivity) hLC
  have hCn2 : 0 < (vC a b).n2 := len_pos_iff.mp hLCpos
  have hu0 := uR_nonneg
  obtain ⟨δ, hδd⟩ : ∃ δ, δ = R3.sub (vecR (projRaw x a b)) (projR (vecR x) (vC a b)) := ⟨_, rfl⟩
  rw [← hδd]
  have hδ : δ.len ≤ 56 * uR := by
    apply len_le_of_sq (by linarith)
    have qx : δ.x * δ.x ≤ 32 * uR * (32 * uR) := by
      have : |δ.x| ≤ 32 * uR := by rw [hδd]; exact ex
      have := abs_mul_le_mul this this
      rwa [abs_mul_self] at this
    have qy : δ.y * δ.y ≤ 32 * uR * (32 * uR) := by
      have : |δ.y| ≤ 32 * uR := by rw [hδd]; exact ey
      have := abs_mul_le_mul this this
      rwa [abs_mul_self] at this
    have qz : δ.z * δ.z ≤ 32 * uR * (32 * uR) := by
      have : |δ.z| ≤ 32 * uR := by rw [hδd]; exact ez
      have := abs_mul_le_mul this this
      rwa [abs_mul_self] at this
    have := num56
    show δ.x * δ.x + δ.y * δ.y + δ.z * δ.z ≤ _
    linarith
  have hPle : (projR (vecR x) (vC a b)).len ≤ len x := by
    have := projR_len_le (x := vecR x) hCn2
    rw [vecR_len] at this; exact this
  have hplen : (vecR (projRaw x a b)).len ≤ 101 / 100 := by
    have h1 := len_sub_le (vecR (projRaw x a b)) (projR (vecR x) (vC a b))
    rw [← hδd] at h1
    have h2 := (abs_le.mp h1).2
    have : (1 : ℝ) + 1 / 2 ^ 52 + 56 * uR ≤ 101 / 100 := by unfold uR; norm_num
    linarith
  obtain ⟨px, py, pz⟩ := comp_le_len (vecR (projRaw x a b))
  have b5 : (101 : ℝ) / 100 ≤ 5 := by norm_num
  exact ⟨fp, ⟨le_trans px (le_trans hplen b5), le_trans py (le_trans hplen b5), le_trans pz (le_trans hplen b5)⟩,
    hδ, hplen⟩

theorem num66 : 53 / 10 * uR * (101 / 100 * (1 + 1 / 2 ^ 40) * (1 + 1 / 2 ^ 52))
    + 56 * uR * (1 + 1 / 2 ^ 40) * (1 + 1 / 2 ^ 52)
    + (1 + 1 / 2 ^ 52) * (44642 / 10000 * uR) * (1 + 1 / 2 ^ 52) + 1 / 2 ^ 100 ≤ 66 * uR := by
  unfold uR; norm_num

/-- scalar collection of the error terms of one test -/
theorem test_scalar {f E0 E Lp Lc LC La Lps η : ℝ} (hLC : 1 / 2 ^ 34 ≤ LC) (hLp0 : 0 ≤ Lp) (hLp : Lp ≤ 101 / 100)
    (hLc0 : 0 ≤ Lc) (hLc : Lc ≤ (1 + 1 / 2 ^ 40) * LC) (hLa0 : 0 ≤ La) (hLa : La ≤ 1 + 1 / 2 ^ 52)
    (hLps0 : 0 ≤ Lps) (hLps : Lps ≤ 1 + 1 / 2 ^ 52) (hη0 : 0 ≤ η) (hη : η ≤ 44642 / 10000 * uR)
    (h1 : |f - E0| ≤ 53 / 10 * uR * (Lp * Lc * La) + 40 * eR)
    (h2 : |E0 - E| ≤ 56 * uR * Lc * La + Lps * (η * LC) * La) :
    |f - E| ≤ 66 * uR * LC := by
  have hu0 := uR_nonneg
  have hLCpos : 0 < LC := lt_of_lt_of_le (by positivity) hLC
  have htri := abs_sub_le f E0 E
  have a1 : Lp * Lc * La ≤ 101 / 100 * ((1 + 1 / 2 ^ 40) * LC) * (1 + 1 / 2 ^ 52) :=
    mul_le_mul (mul_le_mul hLp hLc hLc0 (by norm_num)) hLa hLa0
      (mul_nonneg (by norm_num) (mul_nonneg (by norm_num) hLCpos.le))
  have a2 : Lc * La ≤ ((1 + 1 / 2 ^ 40) * LC) * (1 + 1 / 2 ^ 52) :=
    mul_le_mul hLc hLa hLa0 (mul_nonneg (by norm_num) hLCpos.le)
  have a3 : Lps * (η * LC) * La ≤ (1 + 1 / 2 ^ 52) * (44642 / 10000 * uR * LC) * (1 + 1 / 2 ^ 52) :=
    mul_le_mul (mul_le_mul hLps (mul_le_mul_of_nonneg_right hη hLCpos.le) (mul_nonneg hη0 hLCpos.le) (by norm_num))
      hLa hLa0 (mul_nonneg (by norm_num) (mul_nonneg (mul_nonneg (by norm_num) hu0) hLCpos.le))
  have b1 : 53 / 10 * uR * (Lp * Lc * La) ≤ 53 / 10 * uR * (101 / 100 * ((1 + 1 / 2 ^ 40) * LC) * (1 + 1 / 2 ^ 52)) :=
    mul_le_mul_of_nonneg_left a1 (by linarith)
  have b2 : 56 * uR * Lc * La ≤ 56 * uR * (((1 + 1 / 2 ^ 40) * LC) * (1 + 1 / 2 ^ 52)) := by
    have := mul_le_mul_of_nonneg_left a2 (by linarith : (0 : ℝ) ≤ 56 * uR)
    have e : 56 * uR * Lc * La = 56 * uR * (Lc * La) := by ring
    linarith
  have b3 : 40 * eR ≤ 1 / 2 ^ 100 * LC := by
    have h200 := S2Proofs.C08World.eR_le_200
    have h3 : (40 : ℝ) * (1 / 2 ^ 200) ≤ 1 / 2 ^ 100 * (1 / 2 ^ 34) := by norm_num
    have h4 : (1 : ℝ) / 2 ^ 100 * (1 / 2 ^ 34) ≤ 1 / 2 ^ 100 * LC := mul_le_mul_of_nonneg_left hLC (by positivity)
    linarith
  have c := mul_le_mul_of_nonneg_right num66 hLCpos.le
  have e : (53 / 10 * uR * (101 / 100 * (1 + 1 / 2 ^ 40) * (1 + 1 / 2 ^ 52))
      + 56 * uR * (1 + 1 / 2 ^ 40) * (1 + 1 / 2 ^ 52)
      + (1 + 1 / 2 ^ 52) * (44642 / 10000 * uR) * (1 + 1 / 2 ^ 52) + 1 / 2 ^ 100) * LC
      = 53 / 10 * uR * (101 / 100 * ((1 + 1 / 2 ^ 40) * LC) * (1 + 1 / 2 ^ 52))
        + 56 * uR * (((1 + 1 / 2 ^ 40) * LC) * (1 + 1 / 2 ^ 52))
        + (1 + 1 / 2 ^ 52) * (44642 / 10000 * uR * LC) * (1 + 1 / 2 ^ 52) + 1 / 2 ^ 100 * LC := by ring
  linarith

/-- **the two float test values of `Project`** against the exact wedge functionals of `x` -/
theorem proj_tests {x a b : V3} (hx : UnitPt x) (ha : UnitPt a) (hb : UnitPt b) (hE : EdgeOK a b) :
    Fin (((projRaw x a b).cross (pointCross a b)).dot a) ∧
    Fin (((pointCross a b).cross (projRaw x a b)).dot b) ∧
    |val (((projRaw x a b).cross (pointCross a b)).dot a)
        - 2 * (vecR x).dot (((vecR a).cross (vecR b)).cross (vecR a))| ≤ 66 * uR * (vC a b).len ∧
    |val (((pointCross a b).cross (projRaw x a b)).dot b)
        - -(2 * (vecR x).dot (((vecR a).cross (vecR b)).cross (vecR b)))| ≤ 66 * uR * (vC a b).len := by
  have hδ1 : delta0 ≤ 1 := le_trans delta0_le (by norm_num)
  obtain ⟨_, hlx0, hlx⟩ := unit_len delta0_nonneg (le_refl _) hx
  obtain ⟨_, hla0, hla⟩ := unit_len delta0_nonneg (le_refl _) ha
  obtain ⟨_, hlb0, hlb⟩ := unit_len delta0_nonneg (le_refl _) hb
  obtain ⟨fc, mc, hvec⟩ := pcRaw_spec delta0_nonneg (le_refl _) ha hb hE
  have hpc := pointCross_eq delta0_nonneg (le_refl _) ha hb hE
  obtain ⟨fp, mp, hδ, hplen⟩ := projRaw_vec hx ha hb hE
  have hLC := S2Proofs.C08World.edge_LC hE
  have hLC3 := vC_len_le delta0_nonneg (le_refl _) ha hb
  have hXlen : 0 < (vecR x).len := by rw [vecR_len]; exact hlx0
  obtain ⟨hLc, hLc3, _⟩ := dir_theta hLC hLC3 hXlen hvec
  have hLCpos : 0 < (vC a b).len := lt_of_lt_of_le (by positivity) hLC
  have hCn2 : 0 < (vC a b).n2 := len_pos_iff.mp hLCpos
  obtain ⟨c1, c2, c3⟩ := vC_two a b
  rw [hpc]
  have hcC : (R3.sub (vecR (pcRaw a b)) (vC a b)).len ≤ etaC * (vC a b).len :=
    len_le_of_n2 (mul_nonneg etaC_pos.le hLCpos.le) hvec
  have hLcLC : (vecR (pcRaw a b)).len ≤ (1 + 1 / 2 ^ 40) * (vC a b).len := by
    have h1 := len_sub_le (vecR (pcRaw a b)) (vC a b)
    have h2 := (abs_le.mp h1).2
    have h3 : etaC * (vC a b).len ≤ 1 / 2 ^ 40 * (vC a b).len := mul_le_mul_of_nonneg_right etaC_le_40 hLCpos.le
    linarith
  have ma5 : Coord5 a := by
    obtain ⟨m1, m2, m3⟩ := ha.coord2 delta0_nonneg hδ1
    exact ⟨by linarith, by linarith, by linarith⟩
  have mb5 : Coord5 b := by
    obtain ⟨m1, m2, m3⟩ := hb.coord2 delta0_nonneg hδ1
    exact ⟨by linarith, by linarith, by linarith⟩
  have hsize : (vecR (projRaw x a b)).len * (vecR (pcRaw a b)).len ≤ 4 := by
    have := mul_le_mul hplen hLc3 (R3.len_nonneg _) (by norm_num : (0 : ℝ) ≤ 101 / 100)
    linarith
  have hsize' : (vecR (pcRaw a b)).len * (vecR (projRaw x a b)).len ≤ 4 := by rw [mul_comm]; exact hsize
  have hla2 : (vecR a).len ≤ 2 := by rw [vecR_len]; linarith [show (1 : ℝ) / 2 ^ 52 ≤ 1 by norm_num]
  have hlb2 : (vecR b).len ≤ 2 := by rw [vecR_len]; linarith [show (1 : ℝ) / 2 ^ 52 ≤ 1 by norm_num]
  obtain ⟨f1, t1⟩ := triple_float (projRaw x a b) (pcRaw a b) a fp fc ha.1 mp mc ma5 hsize hla2
  obtain ⟨f2, t2⟩ := triple_float (pcRaw a b) (projRaw x a b) b fc fp hb.1 mc mp mb5 hsize' hlb2
  have hps : (projR (vecR x) (vC a b)).len ≤ 1 + 1 / 2 ^ 52 := by
    have := projR_len_le (x := vecR x) hCn2
    rw [vecR_len] at this; linarith
  have g1 := triple_change (a := vecR a) hδ hcC
  have g2 := triple_change' (b := vecR b) hδ hcC
  rw [test1_exact hCn2 c1 c2 c3] at g1
  rw [test2_exact hCn2 c1 c2 c3] at g2
  refine ⟨f1, f2, ?_, ?_⟩
  · refine test_scalar hLC (R3.len_nonneg _) hplen (R3.len_nonneg _) hLcLC (R3.len_nonneg (vecR a))
      (by rw [vecR_len]; exact hla) (R3.len_nonneg _) hps etaC_pos.le etaC_le t1 ?_
    have e : (projR (vecR x) (vC a b)).len * etaC * (vC a b).len * (vecR a).len
        = (projR (vecR x) (vC a b)).len * (etaC * (vC a b).len) * (vecR a).len := by ring
    have e' : 56 * uR * (vecR (pcRaw a b)).len * (vecR a).len = 56 * uR * (vecR (pcRaw a b)).len * (vecR a).len := rfl
    linarith
  · refine test_scalar (E0 := ((vecR (pcRaw a b)).cross (vecR (projRaw x a b))).dot (vecR b))
      hLC (R3.len_nonneg _) hplen (R3.len_nonneg _) hLcLC (R3.len_nonneg (vecR b))
      (by rw [vecR_len]; exact hlb) (R3.len_nonneg _) hps etaC_pos.le etaC_le ?_ ?_
    · have e : (vecR (pcRaw a b)).len * (vecR (projRaw x a b)).len * (vecR b).len
          = (vecR (projRaw x a b)).len * (vecR (pcRaw a b)).len * (vecR b).len := by ring
      rw [← e]; exact t2
    · have e : (projR (vecR x) (vC a b)).len * etaC * (vC a b).len * (vecR b).len
          = (projR (vecR x) (vC a b)).len * (etaC * (vC a b).len) * (vecR b).len := by ring
      linarith

/-- **margin of the two tests of `Project`**: both exact wedge functionals of `x` exceed `66u·|a×b|` in absolute value -/
def ProjMargin (x a b : V3) : Prop :=
  66 * uR * ((vecR a).cross (vecR b)).len < |(vecR x).dot (((vecR a).cross (vecR b)).cross (vecR a))| ∧
  66 * uR * ((vecR a).cross (vecR b)).len < |(vecR x).dot (((vecR a).cross (vecR b)).cross (vecR b))|

theorem sign_agree {f E B : ℝ} (h : |f - E| ≤ B) (hB : B < |E|) : (0 < f ↔ 0 < E) := by
  obtain ⟨h1, h2⟩ := abs_le.mp h
  constructor
  · intro hf
    by_contra hc
    have : |E| = -E := abs_of_nonpos (not_lt.mp hc)
    linarith
  · intro hE
    have : |E| = E := abs_of_pos hE
    linarith

/-- **the float tests of `Project` decide the exact wedge under the margin** -/
theorem projDecision_of_margin {x a b : V3} (hx : UnitPt x) (ha : UnitPt a) (hb : UnitPt b) (hE : EdgeOK a b)
    (hM : ProjMargin x a b) :
    (Pred.sign (pointCross a b) a (projRaw x a b) && Pred.sign (projRaw x a b) b (pointCross a b)) = true
      ↔ InWedge x a b := by
  obtain ⟨f1, f2, e1, e2⟩ := proj_tests hx ha hb hE
  obtain ⟨m1, m2⟩ := hM
  obtain ⟨c1, c2, c3⟩ := vC_two a b
  have hL : (vC a b).len = 2 * ((vecR a).cross (vecR b)).len := len_double c1 c2 c3
  rw [hL] at e1 e2
  have hz : Fin fzero := by decide
  have hzv : val fzero = 0 := by
    have : toInt fzero = 0 := by decide
    unfold FloatErr.val; rw [this]; simp
  have s1 := sign_agree e1 (by
    rw [abs_mul, abs_of_pos (by norm_num : (0 : ℝ) < 2)]
    linarith)
  have s2 := sign_agree e2 (by
    rw [abs_neg, abs_mul, abs_of_pos (by norm_num : (0 : ℝ) < 2)]
    linarith)
  unfold InWedge InWedgeR Pred.sign
  rw [Bool.and_eq_true, gt_val f1 hz, gt_val f2 hz, hzv, s1, s2]
  constructor
  · rintro ⟨h1, h2⟩
    exact ⟨by linarith, by linarith⟩
  · rintro ⟨h1, h2⟩
    exact ⟨by linarith, by linarith⟩

/-! ### decidable form of the margin -/

/-- integer form of `ProjMargin`: `66²·|a×b|²·2^(4·1074) < (x·((a×b)×a))²·2^106` and the same with `b` -/
def ProjMarginZ (x a b : V3) : Prop :=
  66 ^ 2 * ((ofV3 a).cross (ofV3 b)).norm2 * ((2 : ℤ) ^ 1074) ^ 4
    < ((ofV3 x).dot (((ofV3 a).cross (ofV3 b)).cross (ofV3 a))) ^ 2 * 2 ^ 106 ∧
  66 ^ 2 * ((ofV3 a).cross (ofV3 b)).norm2 * ((2 : ℤ) ^ 1074) ^ 4
    < ((ofV3 x).dot (((ofV3 a).cross (ofV3 b)).cross (ofV3 b))) ^ 2 * 2 ^ 106

instance (x a b : V3) : Decidable (ProjMarginZ x a b) := by unfold ProjMarginZ; infer_instance

theorem lt_abs_of_sq_lt {A E : ℝ} (hA : 0 ≤ A) (h : A * A < E * E) : A < |E| := by
  by_contra hc
  have hc := not_lt.mp hc
  have h1 : |E| * |E| ≤ A * A := mul_le_mul hc hc (abs_nonneg _) hA
  rw [abs_mul_abs_self] at h1
  linarith

theorem projMargin_of_int {x a b : V3} (h : ProjMarginZ x a b) : ProjMargin x a b := by
  obtain ⟨h1, h2⟩ := h
  have eN : ((vecR a).cross (vecR b)).n2 = (((((ofV3 a).cross (ofV3 b)).norm2) : ℤ) : ℝ) / (2 ^ 1074) ^ 4 := by
    unfold R3.n2 R3.dot R3.cross vecR IV3.norm2 IV3.dot IV3.cross ofV3 FloatErr.val
    push_cast; field_simp; ring
  have eA : (vecR x).dot (((vecR a).cross (vecR b)).cross (vecR a))
      = ((((ofV3 x).dot (((ofV3 a).cross (ofV3 b)).cross (ofV3 a))) : ℤ) : ℝ) / (2 ^ 1074) ^ 4 := by
    unfold R3.dot R3.cross vecR IV3.dot IV3.cross ofV3 FloatErr.val
    push_cast; field_simp; ring
  have eB : (vecR x).dot (((vecR a).cross (vecR b)).cross (vecR b))
      = ((((ofV3 x).dot (((ofV3 a).cross (ofV3 b)).cross (ofV3 b))) : ℤ) : ℝ) / (2 ^ 1074) ^ 4 := by
    unfold R3.dot R3.cross vecR IV3.dot IV3.cross ofV3 FloatErr.val
    push_cast; field_simp; ring
  have hS : (0 : ℝ) < (2 ^ 1074) ^ 4 := by positivity
  have hu0 := uR_nonneg
  have key : ∀ W : ℤ, 66 ^ 2 * ((ofV3 a).cross (ofV3 b)).norm2 * ((2 : ℤ) ^ 1074) ^ 4 < W ^ 2 * 2 ^ 106 →
      66 * uR * ((vecR a).cross (vecR b)).len < |(W : ℝ) / (2 ^ 1074) ^ 4| := by
    intro W hW
    apply lt_abs_of_sq_lt (mul_nonneg (mul_nonneg (by norm_num) hu0) (R3.len_nonneg _))
    have e1 : 66 * uR * ((vecR a).cross (vecR b)).len * (66 * uR * ((vecR a).cross (vecR b)).len)
        = 66 ^ 2 * uR ^ 2 * ((vecR a).cross (vecR b)).n2 := by
      rw [← R3.len_sq]; ring
    rw [e1, eN]
    have hW' : ((66 ^ 2 * ((ofV3 a).cross (ofV3 b)).norm2 * ((2 : ℤ) ^ 1074) ^ 4 : ℤ) : ℝ)
        < ((W ^ 2 * 2 ^ 106 : ℤ) : ℝ) := by exact_mod_cast hW
    push_cast at hW'
    have e2 : (W : ℝ) / (2 ^ 1074) ^ 4 * ((W : ℝ) / (2 ^ 1074) ^ 4)
        = (W : ℝ) ^ 2 * 2 ^ 106 / ((2 ^ 1074) ^ 4 * (2 ^ 1074) ^ 4 * 2 ^ 106) := by
      field_simp
    have e3 : 66 ^ 2 * uR ^ 2 * ((((ofV3 a).cross (ofV3 b)).norm2 : ℝ) / (2 ^ 1074) ^ 4)
        = 66 ^ 2 * (((ofV3 a).cross (ofV3 b)).norm2 : ℝ) * (2 ^ 1074) ^ 4 / ((2 ^ 1074) ^ 4 * (2 ^ 1074) ^ 4 * 2 ^ 106) := by
      unfold uR
      field_simp
    rw [e2, e3]
    have n1 : (66 : ℝ) ^ 2 = 4356 := by norm_num
    have n2 : (2 : ℝ) ^ 106 = 81129638414606681695789005144064 := by norm_num
    rw [n1, n2]
    exact div_lt_div_of_pos_right hW' (by positivity)
  constructor
  · rw [eA]; exact key _ h1
  · rw [eB]; exact key _ h2

end S2Proofs.C17Pairs
