/-
  C17Pairs.ProjFloat — the float evaluation of `Project`'s un-normalised point
      projRaw x a b = x − c·(x·c / |c|²),  c = PointCross(a, b)
  against the exact orthogonal projection of `x` on the plane of `a, b`:  every coordinate within `32u`.
-/
import S2Proofs.C17Pairs.ProjScalar
import S2Proofs.C17Pairs.ProjCore
import S2Proofs.EdgeQuery.PointEdgeNum

set_option linter.unusedSimpArgs false
set_option linter.unusedVariables false

namespace S2Proofs.C17Pairs
open S2 S2.Exact S2.Pred S2.EdgeNum S2Proofs.F64Order S2Proofs.FloatErr S2Proofs.C17Err S2Proofs.C17Err.R3 S2Proofs.C17

/-! ### division with a quotient up to `2^40` -/

theorem big40Q : (2 : ℚ) ^ 40 < 2 ^ 1024 - 2 ^ 970 := by
  have e1 : (2 : ℚ) ^ 1024 = 2 ^ 970 * 2 ^ 54 := by rw [← pow_add]
  have e2 : (2 : ℚ) ^ 970 = 2 ^ 40 * 2 ^ 930 := by rw [← pow_add]
  have p1 : (1 : ℚ) ≤ 2 ^ 930 := one_le_pow₀ (by norm_num)
  have p2 : (0 : ℚ) < 2 ^ 40 := by positivity
  have p3 : (2 : ℚ) ≤ 2 ^ 54 - 1 := by norm_num
  have e3 : (2 : ℚ) ^ 1024 - 2 ^ 970 = 2 ^ 40 * 2 ^ 930 * (2 ^ 54 - 1) := by rw [e1, e2]; ring
  rw [e3]
  generalize (2 : ℚ) ^ 40 = P at p2 ⊢
  generalize (2 : ℚ) ^ 930 = Q' at p1 ⊢
  generalize (2 : ℚ) ^ 54 - 1 = R at p3 ⊢
  have h1 : P * 1 * 2 ≤ P * Q' * R :=
    mul_le_mul (mul_le_mul_of_nonneg_left p1 p2.le) p3 (by norm_num) (by positivity)
  linarith

theorem div_step_wide {x y : F64} (hx : Fin x) (hy : Fin y) (hy0 : val y ≠ 0) (hq : |val x / val y| ≤ 2 ^ 40) :
    Fin (x / y) ∧ Rnd uR eR (val x / val y) (val (x / y)) := by
  have hz : y.isZero = false := isZero_false_of_val_ne hy0
  have hR := F64Round.isRound_div hx hy hz
  set Q : ℚ := F64Round.val x / F64Round.val y with hQ
  have hQr : ((Q : ℚ) : ℝ) = val x / val y := by
    rw [hQ]; push_cast; rw [← val_cast, ← val_cast]
  have hq' : |Q| ≤ 2 ^ 40 := by
    have : ((|Q| : ℚ) : ℝ) ≤ (((2 : ℚ) ^ 40 : ℚ) : ℝ) := by
      rw [Rat.cast_abs, hQr]; push_cast; exact hq
    exact_mod_cast this
  have hfin : Fin (F64.div x y) := hR.fin_of_lt (lt_of_le_of_lt hq' big40Q)
  exact ⟨hfin, S2Proofs.C08World.div_step_fin hx hy hy0 hfin⟩

/-! ### vector helpers -/

theorem comp_le_len (v : R3) : |v.x| ≤ v.len ∧ |v.y| ≤ v.len ∧ |v.z| ≤ v.len := by
  have qx := sq_nonneg v.x
  have qy := sq_nonneg v.y
  have qz := sq_nonneg v.z
  unfold R3.len
  refine ⟨Real.abs_le_sqrt ?_, Real.abs_le_sqrt ?_, Real.abs_le_sqrt ?_⟩ <;>
    (unfold R3.n2 R3.dot; nlinarith)

theorem len_sub_abs (c C : R3) : |c.len - C.len| ≤ (R3.sub c C).len := by
  have h1 : c.len ≤ C.len + (R3.sub c C).len := by
    have := comb_len_le (s := 1) (t := 1) (by norm_num) (by norm_num) C (R3.sub c C)
    have e : comb 1 C 1 (R3.sub c C) = c := by
      unfold comb R3.sub; apply r3_ext <;> (simp only; ring)
    rw [e] at this; linarith
  have h2 : C.len ≤ c.len + (R3.sub c C).len := by
    have := comb_len_le (s := 1) (t := 1) (by norm_num) (by norm_num) c (R3.sub C c)
    have e : comb 1 c 1 (R3.sub C c) = C := by
      unfold comb R3.sub; apply r3_ext <;> (simp only; ring)
    have e2 : (R3.sub C c).len = (R3.sub c C).len := by
      unfold R3.len; congr 1; unfold R3.sub R3.n2 R3.dot; ring
    rw [e, e2] at this; linarith
  rw [abs_le]; constructor <;> linarith

/-! ### one coordinate -/

theorem projRaw_comp {xi ci t : F64} {lx Lc LC η D DC d c2 Ci : ℝ}
    (fx : Fin xi) (fc : Fin ci) (ft : Fin t)
    (hlx0 : 0 < lx) (hlx : lx ≤ 1 + 1 / 2 ^ 52) (hLc : 1 / 2 ^ 35 ≤ Lc) (hLc3 : Lc ≤ 3) (hLC : 0 < LC)
    (hη0 : 0 ≤ η) (hη : η ≤ 44642 / 10000 * uR) (hL : |Lc - LC| ≤ η * LC)
    (hD : |D| ≤ lx * Lc) (hDC : |DC| ≤ lx * LC) (hDD : |D - DC| ≤ lx * (η * LC))
    (hd : |d - D| ≤ 301 / 100 * uR * (lx * Lc) + 7 * eR)
    (hc2 : |c2 - Lc * Lc| ≤ 301 / 100 * uR * (Lc * Lc)) (hc2pos : 0 < c2)
    (ht : |val t - d / c2| ≤ uR * |d / c2| + eR)
    (hxi : |val xi| ≤ lx) (hci : |val ci| ≤ Lc) (hCi : |Ci| ≤ LC) (hcC : |val ci - Ci| ≤ η * LC) :
    Fin (xi - t * ci) ∧ |val (xi - t * ci) - (val xi - Ci * (DC / (LC * LC)))| ≤ 32 * uR := by
  have hLcpos : 0 < Lc := lt_of_lt_of_le (by positivity) hLc
  have he200 : eR ≤ 1 / 2 ^ 200 := S2Proofs.C08World.eR_le_200
  obtain ⟨hA1, hA2, _⟩ := chainA eR_nonneg he200 hlx0 hlx hLc hLc3 hD hd hc2 hc2pos ht hci
  have hM : |val t * val ci| ≤ 101 / 100 := by rw [mul_comm]; exact hA2
  obtain ⟨fm, rm, bm⟩ := mul_step stdModel ft fc hM (by norm_num)
  have hxm : |val xi - val (t * ci)| ≤ 6 := by
    have := abs_sub (val xi) (val (t * ci))
    have h1 : lx ≤ 2 := by linarith [show (1 : ℝ) / 2 ^ 52 ≤ 1 by norm_num]
    linarith
  obtain ⟨fp, rp, _⟩ := sub_step stdModel fx fm hxm (by norm_num)
  refine ⟨fp, ?_⟩
  unfold Rnd at rm rp
  have rm' : |val (t * ci) - val ci * val t| ≤ uR * |val ci * val t| + eR := by
    rw [mul_comm (val ci) (val t)]; exact rm
  have hB := chainB (G := val ci * val t) (Gs := val ci * (D / (Lc * Lc))) (a := 73 / 10 * uR)
    eR_nonneg he200 hlx hA2 hA1 hxi rm' rp
  have hP := planeChange hη0 hη hlx0 hlx hLcpos hLC hL hD hDC hDD hci hCi hcC
  have e1 : val (xi - t * ci) - (val xi - Ci * (DC / (LC * LC)))
      = (val (xi - t * ci) - (val xi - val ci * (D / (Lc * Lc))))
        - (val ci * (D / (Lc * Lc)) - Ci * (DC / (LC * LC))) := by ring
  rw [e1]
  have := abs_sub (val (xi - t * ci) - (val xi - val ci * (D / (Lc * Lc))))
    (val ci * (D / (Lc * Lc)) - Ci * (DC / (LC * LC)))
  have hu0 := uR_nonneg
  linarith

/-! ### the three coordinates -/

/-- the un-normalised point of `Project` -/
def projRaw (x a b : V3) : V3 :=
  x.sub ((pointCross a b).mul (x.dot (pointCross a b) / (pointCross a b).norm2))

theorem project_eq (x a b : V3) :
    project x a b =
      if (sign (pointCross a b) a (projRaw x a b) && sign (projRaw x a b) b (pointCross a b)) = true
        then (projRaw x a b).normalize
      else if F64.le (x.sub a).norm2 (x.sub b).norm2 = true then a else b := by
  unfold project projRaw
  simp only

theorem etaC_le : etaC ≤ 44642 / 10000 * uR := by
  have h1 := etaC_theta
  have h2 := theta0_le
  have h3 := etaC_pos
  nlinarith

/-- **the float point `projRaw x a b` against the exact projection of `x` on the plane of `a, b`** -/
theorem projRaw_spec {x a b : V3} (hx : UnitPt x) (ha : UnitPt a) (hb : UnitPt b) (hE : EdgeOK a b) :
    Fin3 (projRaw x a b) ∧
    |val (projRaw x a b).x - (projR (vecR x) (vC a b)).x| ≤ 32 * uR ∧
    |val (projRaw x a b).y - (projR (vecR x) (vC a b)).y| ≤ 32 * uR ∧
    |val (projRaw x a b).z - (projR (vecR x) (vC a b)).z| ≤ 32 * uR := by
  have hδ1 : delta0 ≤ 1 := le_trans delta0_le (by norm_num)
  obtain ⟨_, hlx0, hlx⟩ := unit_len delta0_nonneg (le_refl _) hx
  obtain ⟨fc, mc, hvec⟩ := pcRaw_spec delta0_nonneg (le_refl _) ha hb hE
  have hpc := pointCross_eq delta0_nonneg (le_refl _) ha hb hE
  have hLC := S2Proofs.C08World.edge_LC hE
  have hLC3 := vC_len_le delta0_nonneg (le_refl _) ha hb
  have hXlen : 0 < (vecR x).len := by rw [vecR_len]; exact hlx0
  obtain ⟨hLc, hLc3, _⟩ := dir_theta hLC hLC3 hXlen hvec
  have mx := hx.coord2 delta0_nonneg hδ1
  have mx5 : Coord5 x := ⟨by linarith [mx.1], by linarith [mx.2.1], by linarith [mx.2.2]⟩
  unfold projRaw
  rw [hpc]
  set c := pcRaw a b with hcd
  set C := vC a b with hCd
  set lx := len x with hlxd
  set Lc := (vecR c).len with hLcd
  set LC := C.len with hLCd
  have hLCpos : 0 < LC := lt_of_lt_of_le (by positivity) hLC
  have hη0 : 0 ≤ etaC := etaC_pos.le
  -- |c − C| ≤ η·LC
  have hDv : (R3.sub (vecR c) C).len ≤ etaC * LC := by
    apply len_le_of_sq (mul_nonneg hη0 hLCpos.le)
    have : (etaC * LC) ^ 2 = etaC * LC * (etaC * LC) := by ring
    rw [← this]; exact hvec
  have hL : |Lc - LC| ≤ etaC * LC := le_trans (len_sub_abs (vecR c) C) hDv
  obtain ⟨dx, dy, dz⟩ := comp_le_len (R3.sub (vecR c) C)
  obtain ⟨cx, cy, cz⟩ := comp_le_len (vecR c)
  obtain ⟨Cx, Cy, Cz⟩ := comp_le_len C
  obtain ⟨xx, xy, xz⟩ := comp_le_len (vecR x)
  rw [vecR_len] at xx xy xz
  -- the exact dot products
  set D := (vecR x).dot (vecR c) with hDd
  set DC := (vecR x).dot C with hDCd
  have hD : |D| ≤ lx * Lc := by
    have := abs_dot_le (vecR x) (vecR c); rw [vecR_len] at this; exact this
  have hDC : |DC| ≤ lx * LC := by
    have := abs_dot_le (vecR x) C; rw [vecR_len] at this; exact this
  have hDD : |D - DC| ≤ lx * (etaC * LC) := by
    have e : D - DC = (vecR x).dot (R3.sub (vecR c) C) := by
      rw [hDd, hDCd]; unfold R3.dot R3.sub; ring
    rw [e]
    have := abs_dot_le (vecR x) (R3.sub (vecR c) C)
    rw [vecR_len] at this
    exact le_trans this (mul_le_mul_of_nonneg_left hDv hlx0.le)
  -- the float dot product and squared norm
  obtain ⟨fd, hd0⟩ := dot_chain5 x c hx.1 fc mx5 mc
  obtain ⟨fc2, c2pos, hw, hg⟩ := c2_chain c fc mc hLc
  have hρ : fU uR + gU uR ≤ 301 / 100 * uR := by
    have h1 : rhoU uR ≤ (3 + 1 / 2 ^ 40) * uR := by
      have := tinyT_nonneg; linarith
    have h2 : (3 + 1 / 2 ^ 40 : ℝ) * uR ≤ 301 / 100 * uR := mul_le_mul_of_nonneg_right (by norm_num) uR_nonneg
    unfold rhoU at h1; linarith
  have hhU : hU uR * eR ≤ 7 * eR := by
    apply mul_le_mul_of_nonneg_right _ eR_nonneg
    unfold hU uR; norm_num
  have hd : |val (x.dot c) - D| ≤ 301 / 100 * uR * (lx * Lc) + 7 * eR := by
    rw [vecR_len] at hd0
    have : (fU uR + gU uR) * (lx * Lc) ≤ 301 / 100 * uR * (lx * Lc) :=
      mul_le_mul_of_nonneg_right hρ (mul_nonneg hlx0.le (R3.len_nonneg _))
    linarith
  have hLcpos : 0 < Lc := lt_of_lt_of_le (by positivity) hLc
  have hLL : 0 < Lc * Lc := mul_pos hLcpos hLcpos
  have hc2 : |val c.norm2 - Lc * Lc| ≤ 301 / 100 * uR * (Lc * Lc) := by
    have e : val c.norm2 - Lc * Lc = (val c.norm2 / (Lc * Lc) - 1) * (Lc * Lc) := by field_simp
    rw [e, abs_mul, abs_of_pos hLL]
    have h1 : |val c.norm2 / (Lc * Lc) - 1| ≤ 301 / 100 * uR := by
      have h2 : (3 + 1 / 2 ^ 40 : ℝ) * uR ≤ 301 / 100 * uR := mul_le_mul_of_nonneg_right (by norm_num) uR_nonneg
      linarith
    exact mul_le_mul_of_nonneg_right h1 hLL.le
  -- the quotient
  have hq : |val (x.dot c) / val c.norm2| ≤ 2 ^ 40 := by
    obtain ⟨Y, hY⟩ : ∃ Y, Y = val (x.dot c) / val c.norm2 * (Lc * Lc) := ⟨_, rfl⟩
    have hlL : 0 < lx * Lc := mul_pos hlx0 hLcpos
    obtain ⟨hYabs, _⟩ := chainA1 eR_nonneg hlL hLL hD hd hc2 c2pos hY
    have e2 : |Y| = |val (x.dot c) / val c.norm2| * (Lc * Lc) := by rw [hY, abs_mul, abs_of_pos hLL]
    have h1 : |val (x.dot c) / val c.norm2| * (Lc * Lc) ≤ 2 ^ 40 * (Lc * Lc) := by
      rw [← e2]
      have b1 : (1 : ℝ) ≤ 2 ^ 35 * Lc := by
        have := mul_le_mul_of_nonneg_left hLc (by positivity : (0 : ℝ) ≤ 2 ^ 35)
        have e3 := nA13
        linarith
      have a1 : (1 + 8 * uR) * (lx * Lc) ≤ 2 * Lc := by
        have h5 : (1 + 8 * uR) * lx ≤ (1 + 8 * uR) * (1 + 1 / 2 ^ 52) :=
          mul_le_mul_of_nonneg_left hlx (by have := uR_nonneg; linarith)
        have h6 := nA11
        have h7 : (1 + 8 * uR) * lx * Lc ≤ 2 * Lc := mul_le_mul_of_nonneg_right (by linarith) hLcpos.le
        have a : (1 + 8 * uR) * (lx * Lc) = (1 + 8 * uR) * lx * Lc := by ring
        linarith
      have b2 : 1 * (2 * Lc) ≤ 2 ^ 35 * Lc * (2 * Lc) := mul_le_mul_of_nonneg_right b1 (by linarith)
      have b2' : 2 ^ 35 * Lc * (2 * Lc) = 2 ^ 36 * (Lc * Lc) := by ring
      have b3 : 8 * eR ≤ 1 / 2 ^ 70 := by
        have := nA12
        have := S2Proofs.C08World.eR_le_200
        linarith
      have b4 : (1 : ℝ) / 2 ^ 70 ≤ Lc * Lc := by
        have := mul_le_mul hLc hLc (by positivity) hLcpos.le
        have e4 := nA14
        linarith
      have b5 : (2 ^ 36 + 1 : ℝ) * (Lc * Lc) ≤ 2 ^ 40 * (Lc * Lc) := mul_le_mul_of_nonneg_right (by norm_num) hLL.le
      have b6 : (2 ^ 36 + 1 : ℝ) * (Lc * Lc) = 2 ^ 36 * (Lc * Lc) + Lc * Lc := by ring
      linarith
    exact le_of_mul_le_mul_right h1 hLL
  obtain ⟨ft, rt⟩ := div_step_wide fd fc2 c2pos.ne' hq
  unfold Rnd at rt
  set t := x.dot c / c.norm2 with htd
  -- C.n2 = LC²
  have hCn2 : C.n2 = LC * LC := (R3.len_sq C).symm
  have hη := etaC_le
  obtain ⟨f1, e1⟩ := projRaw_comp (xi := x.x) (ci := c.x) (t := t) (Ci := C.x) hx.1.1 fc.1 ft hlx0 hlx hLc hLc3 hLCpos
    hη0 hη hL hD hDC hDD hd hc2 c2pos rt xx cx Cx
    (le_trans dx hDv : |val c.x - C.x| ≤ etaC * LC)
  obtain ⟨f2, e2⟩ := projRaw_comp (xi := x.y) (ci := c.y) (t := t) (Ci := C.y) hx.1.2.1 fc.2.1 ft hlx0 hlx hLc hLc3 hLCpos
    hη0 hη hL hD hDC hDD hd hc2 c2pos rt xy cy Cy
    (le_trans dy hDv : |val c.y - C.y| ≤ etaC * LC)
  obtain ⟨f3, e3⟩ := projRaw_comp (xi := x.z) (ci := c.z) (t := t) (Ci := C.z) hx.1.2.2 fc.2.2 ft hlx0 hlx hLc hLc3 hLCpos
    hη0 hη hL hD hDC hDD hd hc2 c2pos rt xz cz Cz
    (le_trans dz hDv : |val c.z - C.z| ≤ etaC * LC)
  have hne : LC * LC ≠ 0 := (mul_pos hLCpos hLCpos).ne'
  refine ⟨⟨f1, f2, f3⟩, ?_, ?_, ?_⟩
  · have e : (projR (vecR x) C).x = val x.x - C.x * (DC / (LC * LC)) := by
      unfold projR comb; simp only; rw [hCn2]
      show 1 * val x.x + -DC / (LC * LC) * C.x = _
      field_simp
      ring
    rw [e]; exact e1
  · have e : (projR (vecR x) C).y = val x.y - C.y * (DC / (LC * LC)) := by
      unfold projR comb; simp only; rw [hCn2]
      show 1 * val x.y + -DC / (LC * LC) * C.y = _
      field_simp
      ring
    rw [e]; exact e2
  · have e : (projR (vecR x) C).z = val x.z - C.z * (DC / (LC * LC)) := by
      unfold projR comb; simp only; rw [hCn2]
      show 1 * val x.z + -DC / (LC * LC) * C.z = _
      field_simp
      ring
    rw [e]; exact e3

end S2Proofs.C17Pairs
