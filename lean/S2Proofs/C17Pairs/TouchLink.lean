/-
  C17Pairs.TouchLink — the link between the model's `crosses` (= `CrossingSign == Cross`, RobustSign exact by C02/C03)
  and the four-determinant pattern, in the direction needed for TOUCHING arcs:

      proper_crosses        ProperCrossZ (all four determinants ≠ 0, crossing pattern) on unit-ish points ⇒ crosses = true
      properCrossZ_of_real  ProperCrossR of the real vectors ⇒ ProperCrossZ
      not_proper_of_not_crosses   crosses = false ⇒ ¬ ProperCrossR   (contrapositive, on `UnitPt`)
      noncrossing_true_eq   crosses = false ⇒ truePairDist2 = pairMin4  (arcs that meet while `crosses = false` touch: an endpoint
                            direction lies on the other arc and pairMin4 = 0)
      onArc_of_int          decidable sufficient form of "the direction of x lies on the arc ab"
-/
import S2Proofs.C17Pairs.TouchGeom
import S2Proofs.C17Pairs.PairFloat2

set_option linter.unusedSimpArgs false
set_option linter.unusedVariables false

namespace S2Proofs.C17Pairs
open S2 S2.Exact S2.Pred S2.EdgeNum S2Proofs.F64Order S2Proofs.C02Err S2Proofs.C17 S2Proofs.C17Err S2Proofs.C17Err.R3

theorem sign_neg_of_mul_neg {x y : Int} (h : x * y < 0) : Int.sign x = -Int.sign y := by
  rcases lt_trichotomy y 0 with hy | hy | hy
  · have hx : 0 < x := by
      by_contra hc
      have := mul_nonneg_of_nonpos_of_nonpos (not_lt.mp hc) hy.le
      omega
    rw [Int.sign_eq_neg_one_of_neg hy, Int.sign_eq_one_of_pos hx]; rfl
  · rw [hy, mul_zero] at h; omega
  · have hx : x < 0 := by
      by_contra hc
      have := mul_nonneg (not_lt.mp hc) hy.le
      omega
    rw [Int.sign_eq_one_of_pos hy, Int.sign_eq_neg_one_of_neg hx]

theorem sign_eq_of_mul_pos {x y : Int} (h : 0 < x * y) : Int.sign x = Int.sign y := by
  rcases lt_trichotomy y 0 with hy | hy | hy
  · have hx : x < 0 := by
      by_contra hc
      have := mul_nonpos_of_nonneg_of_nonpos (not_lt.mp hc) hy.le
      omega
    rw [Int.sign_eq_neg_one_of_neg hy, Int.sign_eq_neg_one_of_neg hx]
  · rw [hy, mul_zero] at h; omega
  · have hx : 0 < x := by
      by_contra hc
      have := mul_nonpos_of_nonpos_of_nonneg (not_lt.mp hc) hy.le
      omega
    rw [Int.sign_eq_one_of_pos hy, Int.sign_eq_one_of_pos hx]

theorem ofV3_ne_of_det_ne {a b c : V3} (h : det3 (ofV3 a) (ofV3 b) (ofV3 c) ≠ 0) :
    ofV3 a ≠ ofV3 b ∧ ofV3 a ≠ ofV3 c ∧ ofV3 b ≠ ofV3 c := by
  refine ⟨fun e => h ?_, fun e => h ?_, fun e => h ?_⟩
  · rw [e]; unfold det3 IV3.dot IV3.cross; ring
  · rw [e]; unfold det3 IV3.dot IV3.cross; ring
  · rw [e]; unfold det3 IV3.dot IV3.cross; ring

/-- **the four-determinant crossing pattern on unit-ish points makes `CrossingSign` answer `Cross`** -/
theorem proper_crosses {a0 a1 b0 b1 : V3} (ha0 : Unitish a0) (ha1 : Unitish a1) (hb0 : Unitish b0) (hb1 : Unitish b1)
    (h : ProperCrossZ a0 a1 b0 b1) : crosses a0 a1 b0 b1 = true := by
  obtain ⟨h1, h2, h3⟩ := h
  have c1 : (ofV3 b0).dot ((ofV3 a0).cross (ofV3 a1)) = det3 (ofV3 a0) (ofV3 a1) (ofV3 b0) := by
    unfold det3 IV3.dot IV3.cross; ring
  have c2 : (ofV3 b1).dot ((ofV3 a0).cross (ofV3 a1)) = det3 (ofV3 a0) (ofV3 a1) (ofV3 b1) := by
    unfold det3 IV3.dot IV3.cross; ring
  have c3 : (ofV3 a0).dot ((ofV3 b0).cross (ofV3 b1)) = det3 (ofV3 b0) (ofV3 b1) (ofV3 a0) := by
    unfold det3 IV3.dot IV3.cross; ring
  have c4 : (ofV3 a1).dot ((ofV3 b0).cross (ofV3 b1)) = det3 (ofV3 b0) (ofV3 b1) (ofV3 a1) := by
    unfold det3 IV3.dot IV3.cross; ring
  rw [c1, c2] at h1
  rw [c3, c4] at h2
  rw [c3, c2] at h3
  set P0 := det3 (ofV3 a0) (ofV3 a1) (ofV3 b0) with hP0
  set P1 := det3 (ofV3 a0) (ofV3 a1) (ofV3 b1) with hP1
  set Q0 := det3 (ofV3 b0) (ofV3 b1) (ofV3 a0) with hQ0
  set Q1 := det3 (ofV3 b0) (ofV3 b1) (ofV3 a1) with hQ1
  have g1 : P0 ≠ 0 := fun e => by rw [e, zero_mul] at h1; omega
  have g2 : P1 ≠ 0 := fun e => by rw [e, mul_zero] at h1; omega
  have g3 : Q0 ≠ 0 := fun e => by rw [e, zero_mul] at h2; omega
  have g4 : Q1 ≠ 0 := fun e => by rw [e, mul_zero] at h2; omega
  -- no two of the relevant points coincide
  obtain ⟨n01, n0b0, n1b0⟩ := ofV3_ne_of_det_ne (a := a0) (b := a1) (c := b0) g1
  obtain ⟨_, n0b1, n1b1⟩ := ofV3_ne_of_det_ne (a := a0) (b := a1) (c := b1) g2
  obtain ⟨nb, _, _⟩ := ofV3_ne_of_det_ne (a := b0) (b := b1) (c := a0) g3
  have feqF : ∀ {u v : V3}, Unitish u → Unitish v → ofV3 u ≠ ofV3 v → V3.feq u v = false := by
    intro u v hu hv hne
    cases hq : V3.feq u v
    · rfl
    · exact absurd ((v3feq_iff hu.1 hv.1).mp hq) hne
  -- the signs
  have s1 : robustSign a0 a1 b0 = Int.sign P0 := rs_det ha0 ha1 hb0 g1
  have s2 : robustSign a0 a1 b1 = Int.sign P1 := rs_det ha0 ha1 hb1 g2
  have s3 : robustSign b0 b1 a0 = Int.sign Q0 := rs_det hb0 hb1 ha0 g3
  have s4 : robustSign b0 b1 a1 = Int.sign Q1 := rs_det hb0 hb1 ha1 g4
  have r1 : Int.sign P0 = -Int.sign P1 := sign_neg_of_mul_neg h1
  have r2 : Int.sign Q0 = -Int.sign Q1 := sign_neg_of_mul_neg h2
  have r3 : Int.sign Q0 = Int.sign P1 := sign_eq_of_mul_pos h3
  unfold crosses Contain.crossingSign
  simp only [Contain.floatGeo, feqF ha0 hb0 n0b0, feqF ha0 hb1 n0b1, feqF ha1 hb0 n1b0, feqF ha1 hb1 n1b1,
    feqF ha0 ha1 n01, feqF hb0 hb1 nb, Bool.or_self, Bool.false_eq_true, if_false, s1, s2, s3, s4]
  have e1 : (Int.sign P1 != -Int.sign P0) = false := by rw [r1]; simp
  have e2 : (-Int.sign Q1 != -Int.sign P0) = false := by rw [r1, ← r3, r2]; simp
  have e3 : (Int.sign Q0 != -Int.sign P0) = false := by rw [r1, r3]; simp
  simp only [e1, e2, e3, Bool.false_eq_true, if_false]

/-- the real pattern implies the integer pattern (the converse of `properCross_of_int`) -/
theorem properCrossZ_of_real {a0 a1 b0 b1 : V3} (h : ProperCrossR (vecR a0) (vecR a1) (vecR b0) (vecR b1)) :
    ProperCrossZ a0 a1 b0 b1 := by
  obtain ⟨h1, h2, h3⟩ := h
  rw [det_int b0 a0 a1, det_int b1 a0 a1] at h1
  rw [det_int a0 b0 b1, det_int a1 b0 b1] at h2
  rw [det_int a0 b0 b1, det_int b1 a0 a1] at h3
  have hpp : (0 : ℝ) < (2 ^ 1074) ^ 3 * (2 ^ 1074) ^ 3 := by positivity
  have key : ∀ I J : ℤ, ((I : ℝ) / (2 ^ 1074) ^ 3) * ((J : ℝ) / (2 ^ 1074) ^ 3)
      = ((I * J : ℤ) : ℝ) / ((2 ^ 1074) ^ 3 * (2 ^ 1074) ^ 3) := by
    intro I J; push_cast; field_simp
  rw [key] at h1 h2 h3
  refine ⟨?_, ?_, ?_⟩
  · have : (((ofV3 b0).dot ((ofV3 a0).cross (ofV3 a1)) * (ofV3 b1).dot ((ofV3 a0).cross (ofV3 a1)) : ℤ) : ℝ) < 0 := by
      by_contra hc
      have := div_nonneg (not_lt.mp hc) hpp.le
      linarith
    exact_mod_cast this
  · have : (((ofV3 a0).dot ((ofV3 b0).cross (ofV3 b1)) * (ofV3 a1).dot ((ofV3 b0).cross (ofV3 b1)) : ℤ) : ℝ) < 0 := by
      by_contra hc
      have := div_nonneg (not_lt.mp hc) hpp.le
      linarith
    exact_mod_cast this
  · have := (div_pos_iff_of_pos_right hpp).mp h3
    exact_mod_cast this

/-- **`crosses = false` excludes the proper crossing** (on c17err's domain) -/
theorem not_proper_of_not_crosses {a0 a1 b0 b1 : V3} (ha0 : UnitPt a0) (ha1 : UnitPt a1) (hb0 : UnitPt b0) (hb1 : UnitPt b1)
    (hc : crosses a0 a1 b0 b1 = false) : ¬ ProperCrossR (vecR a0) (vecR a1) (vecR b0) (vecR b1) := by
  intro hp
  have := proper_crosses (unitish_of_unitPt ha0) (unitish_of_unitPt ha1) (unitish_of_unitPt hb0) (unitish_of_unitPt hb1)
    (properCrossZ_of_real hp)
  rw [this] at hc; cases hc

/-- **arcs that meet while `CrossingSign ≠ Cross` touch**: the direction of an endpoint lies on the other arc, the least
    endpoint-to-arc distance is 0 -/
theorem touching_of_not_crosses {a0 a1 b0 b1 : V3} (ha0 : UnitPt a0) (ha1 : UnitPt a1) (hb0 : UnitPt b0) (hb1 : UnitPt b1)
    (hc : crosses a0 a1 b0 b1 = false) (hm : ArcsMeet a0 a1 b0 b1) :
    EndpointOnOther a0 a1 b0 b1 ∧ pairMin4 a0 a1 b0 b1 = 0 :=
  touch_pairMin4_zero ha0.len_pos ha1.len_pos hb0.len_pos hb1.len_pos hm (not_proper_of_not_crosses ha0 ha1 hb0 hb1 hc)

/-- **`crosses = false` ⇒ the exact edge-pair distance is the least of the four endpoint-to-arc distances** — with NO
    hypothesis that the arcs are disjoint -/
theorem noncrossing_true_eq {a0 a1 b0 b1 : V3} (ha0 : UnitPt a0) (ha1 : UnitPt a1) (hb0 : UnitPt b0) (hb1 : UnitPt b1)
    (hc : crosses a0 a1 b0 b1 = false) : truePairDist2 a0 a1 b0 b1 = pairMin4 a0 a1 b0 b1 :=
  truePairDist2_eq_pairMin4 ha0.len_pos ha1.len_pos hb0.len_pos hb1.len_pos (not_proper_of_not_crosses ha0 ha1 hb0 hb1 hc)

/-! ### decidable form of "the direction of x lies on the arc ab" -/

/-- `x` lies in the plane of the non-degenerate edge `ab` and has non-negative coordinates in the basis `a, b` -/
def OnArcZ (x a b : V3) : Prop :=
  (ofV3 x).dot ((ofV3 a).cross (ofV3 b)) = 0 ∧ 0 < ((ofV3 a).cross (ofV3 b)).norm2 ∧
  (ofV3 x).dot (((ofV3 a).cross (ofV3 b)).cross (ofV3 b)) ≤ 0 ∧
  0 ≤ (ofV3 x).dot (((ofV3 a).cross (ofV3 b)).cross (ofV3 a))

instance (x a b : V3) : Decidable (OnArcZ x a b) := by unfold OnArcZ; infer_instance

theorem onArc_of_int {x a b : V3} (hx : 0 < len x) (h : OnArcZ x a b) :
    OnArc (vecR a) (vecR b) (comb (1 / len x) (vecR x) 0 (vecR x)) := by
  obtain ⟨h0, hN, hα, hβ⟩ := h
  have hS : (0 : ℝ) < 2 ^ 1074 := by positivity
  -- the real quantities from the integer ones
  have e0 : (vecR x).dot ((vecR a).cross (vecR b)) = ((((ofV3 x).dot ((ofV3 a).cross (ofV3 b))) : ℤ) : ℝ) / (2 ^ 1074) ^ 3 :=
    det_int x a b
  have eN : ((vecR a).cross (vecR b)).n2 = (((((ofV3 a).cross (ofV3 b)).norm2) : ℤ) : ℝ) / (2 ^ 1074) ^ 4 := by
    unfold R3.n2 R3.dot R3.cross vecR IV3.norm2 IV3.dot IV3.cross ofV3 FloatErr.val
    push_cast; field_simp; ring
  have eα : (vecR x).dot (((vecR a).cross (vecR b)).cross (vecR b))
      = ((((ofV3 x).dot (((ofV3 a).cross (ofV3 b)).cross (ofV3 b))) : ℤ) : ℝ) / (2 ^ 1074) ^ 4 := by
    unfold R3.dot R3.cross vecR IV3.dot IV3.cross ofV3 FloatErr.val
    push_cast; field_simp; ring
  have eβ : (vecR x).dot (((vecR a).cross (vecR b)).cross (vecR a))
      = ((((ofV3 x).dot (((ofV3 a).cross (ofV3 b)).cross (ofV3 a))) : ℤ) : ℝ) / (2 ^ 1074) ^ 4 := by
    unfold R3.dot R3.cross vecR IV3.dot IV3.cross ofV3 FloatErr.val
    push_cast; field_simp; ring
  have r0 : (vecR x).dot ((vecR a).cross (vecR b)) = 0 := by rw [e0, h0]; simp
  have rN : 0 < ((vecR a).cross (vecR b)).n2 := by rw [eN]; exact div_pos (by exact_mod_cast hN) (by positivity)
  have rα : (vecR x).dot (((vecR a).cross (vecR b)).cross (vecR b)) ≤ 0 := by
    rw [eα]; exact div_nonpos_of_nonpos_of_nonneg (by exact_mod_cast hα) (by positivity)
  have rβ : 0 ≤ (vecR x).dot (((vecR a).cross (vecR b)).cross (vecR a)) := by
    rw [eβ]; exact div_nonneg (by exact_mod_cast hβ) (by positivity)
  obtain ⟨bx, by', bz⟩ := basis_expand (vecR a) (vecR b) (vecR x)
  rw [r0] at bx by' bz
  simp only [zero_mul, add_zero] at bx by' bz
  set N := ((vecR a).cross (vecR b)).n2 with hNd
  set α := -((vecR x).dot (((vecR a).cross (vecR b)).cross (vecR b))) with hαd
  set β := (vecR x).dot (((vecR a).cross (vecR b)).cross (vecR a)) with hβd
  refine onArc_of_cone (s := α / N) (t := β / N) (div_nonneg (by linarith) rN.le) (div_nonneg rβ rN.le) ?_
    (show 0 < (vecR x).len from hx)
  apply r3_ext
  · show (vecR x).x = α / N * (vecR a).x + β / N * (vecR b).x
    field_simp; linarith
  · show (vecR x).y = α / N * (vecR a).y + β / N * (vecR b).y
    field_simp; linarith
  · show (vecR x).z = α / N * (vecR a).z + β / N * (vecR b).z
    field_simp; linarith

end S2Proofs.C17Pairs
