/-
  Soundness of the static analysis `chk` of S2.DecoderIR with respect to the interpreter `exec`.
  Helper lemmas for property C15.
-/
import S2.DecoderIR
namespace S2Proofs.DecoderIRSound
open S2.DecoderIR

/-! ### satisfaction of an abstract state -/

def SatB (env : Env) (bnd : List (Var × Int × Int)) : Prop :=
  ∀ p ∈ bnd, p.2.1 ≤ get env p.1 ∧ get env p.1 ≤ p.2.2
def SatL (env : Env) (lts : List (Var × Var)) : Prop :=
  ∀ p ∈ lts, get env p.1 < get env p.2
def SatP (s : St) (pend : List Expr) : Prop :=
  s.err = false → ∀ c ∈ pend, eval false s.env c = 0
def Sat (s : St) (a : Abs) : Prop := SatB s.env a.bnd ∧ SatL s.env a.lts ∧ SatP s a.pend

def Frame (xs : List Var) (s s' : St) : Prop := ∀ x, x ∉ xs → get s'.env x = get s.env x

theorem Frame.refl (xs : List Var) (s : St) : Frame xs s s := fun _ _ => rfl
theorem Frame.trans {xs : List Var} {s₁ s₂ s₃ : St} (h₁ : Frame xs s₁ s₂) (h₂ : Frame xs s₂ s₃) :
    Frame xs s₁ s₃ := fun x hx => (h₂ x hx).trans (h₁ x hx)
theorem Frame.mono {xs ys : List Var} {s s' : St} (h : Frame xs s s') (hsub : ∀ x, x ∈ xs → x ∈ ys) :
    Frame ys s s' := fun x hx => h x (fun hm => hx (hsub x hm))

theorem sat_empty (s : St) : Sat s Abs.empty := by
  refine ⟨?_, ?_, ?_⟩ <;> intro <;> simp [Abs.empty] at *

theorem look_sound {env : Env} {a : Abs} (h : SatB env a.bnd) {x : Var} {lo hi : Int}
    (hl : a.look x = some (lo, hi)) : lo ≤ get env x ∧ get env x ≤ hi := by
  unfold Abs.look at hl
  split at hl
  · rename_i p hp
    have hm := List.mem_of_find?_eq_some hp
    have hx := List.find?_some hp
    simp at hx
    have := h p hm
    simp at hl
    rw [hl] at this
    rw [← hx]; exact this
  · cases hl

/-- Key frame lemma: facts about variables outside `xs` survive any change confined to `xs`. -/
theorem sat_killAll_frame {s s' : St} {a : Abs} {xs : List Var} (h : Sat s a) (hf : Frame xs s s') :
    Sat s' (a.killAll xs).clearPend := by
  obtain ⟨hb, hl, _⟩ := h
  refine ⟨?_, ?_, ?_⟩
  · intro p hp
    simp [Abs.killAll, Abs.clearPend] at hp
    have hx : p.1 ∉ xs := by simpa using hp.2
    rw [hf _ hx]; exact hb p hp.1
  · intro p hp
    simp [Abs.killAll, Abs.clearPend] at hp
    have h1 : p.1 ∉ xs := by simpa using hp.2.1
    have h2 : p.2 ∉ xs := by simpa using hp.2.2
    rw [hf _ h1, hf _ h2]; exact hl p hp.1
  · intro _ c hc; simp [Abs.killAll, Abs.clearPend] at hc

theorem sat_clearPend {s : St} {a : Abs} (h : Sat s a) : Sat s a.clearPend :=
  ⟨h.1, h.2.1, by intro _ c hc; simp [Abs.clearPend] at hc⟩

/-- assigning `x := v` with a sound interval. -/
theorem sat_setB {s : St} {a : Abs} {x : Var} {v : Int} {r : Option (Int × Int)} (h : Sat s a)
    (hr : ∀ lo hi, r = some (lo, hi) → lo ≤ v ∧ v ≤ hi) (s' : St) (henv : s'.env = set s.env x v) :
    Sat s' (a.setB x r).clearPend := by
  have hfr : Frame [x] s s' := by
    intro y hy; rw [henv, get_set]; simp at hy; simp [hy]
  have hk := sat_killAll_frame h hfr
  unfold Abs.setB
  cases r with
  | none => simpa [Abs.kill, Abs.clearPend] using hk
  | some p =>
    obtain ⟨lo, hi⟩ := p
    refine ⟨?_, ?_, ?_⟩
    · intro q hq
      simp [Abs.clearPend] at hq
      rcases hq with rfl | hq
      · simp [henv, get_set]; exact hr lo hi rfl
      · exact hk.1 q (by simpa [Abs.kill, Abs.clearPend] using hq)
    · exact hk.2.1
    · intro _ c hc; simp [Abs.clearPend] at hc

theorem sat_addB {s : St} {a : Abs} {x : Var} {lo hi : Int} (h : Sat s a)
    (hv : lo ≤ get s.env x ∧ get s.env x ≤ hi) : Sat s (a.addB x lo hi) := by
  refine ⟨?_, h.2.1, h.2.2⟩
  intro q hq
  simp [Abs.addB] at hq
  rcases hq with rfl | hq
  · exact hv
  · exact h.1 q hq

/-! ### integer facts -/

theorem b2i_range (b : Bool) : 0 ≤ b2i b ∧ b2i b ≤ 1 := by cases b <;> simp [b2i]

theorem conv_range (t : Ty) (ht : t ≠ .f64) (v : Int) : t.lo ≤ conv t v ∧ conv t v ≤ t.hi := by
  cases t <;> simp [conv, Ty.lo, Ty.hi, wrapU, wrapS] at * <;> (try split) <;> omega

theorem conv_id (t : Ty) (ht : t ≠ .f64) (hb : t ≠ .bool) (v : Int) (h1 : t.lo ≤ v) (h2 : v ≤ t.hi) :
    conv t v = v := by
  cases t <;> simp [conv, Ty.lo, Ty.hi, wrapU, wrapS] at * <;> (try split) <;> omega

theorem ivalConv_sound (t : Ty) (r : Option (Int × Int)) (v : Int)
    (hv : ∀ lo hi, r = some (lo, hi) → lo ≤ v ∧ v ≤ hi) (lo hi : Int)
    (h : ivalConv t r = some (lo, hi)) : lo ≤ conv t v ∧ conv t v ≤ hi := by
  unfold ivalConv at h
  split at h
  · cases h
  · rename_i ht
    have hr := conv_range t (fun h => ht (Or.inl h)) v
    rcases r with _ | ⟨l0, h0⟩
    · simp at h; obtain ⟨rfl, rfl⟩ := h; exact hr
    · simp only at h
      split at h
      · rename_i hc
        simp at h; obtain ⟨rfl, rfl⟩ := h
        have := hv _ _ rfl
        rw [conv_id t (fun h => ht (Or.inl h)) hc.2.2 v (by omega) (by omega)]; exact this
      · simp at h; obtain ⟨rfl, rfl⟩ := h; exact hr

theorem ivalBin_sound (op : BinOp) (rx ry : Option (Int × Int)) (vx vy : Int)
    (hx : ∀ lo hi, rx = some (lo, hi) → lo ≤ vx ∧ vx ≤ hi)
    (hy : ∀ lo hi, ry = some (lo, hi) → lo ≤ vy ∧ vy ≤ hi) (lo hi : Int)
    (h : ivalBin op rx ry = some (lo, hi)) : lo ≤ evalBin op vx vy ∧ evalBin op vx vy ≤ hi := by
  cases op
  case add =>
    rcases rx with _ | ⟨l1, h1⟩ <;> rcases ry with _ | ⟨l2, h2⟩ <;> simp [ivalBin] at h
    have := hx _ _ rfl; have := hy _ _ rfl; simp [evalBin]; omega
  case sub =>
    rcases rx with _ | ⟨l1, h1⟩ <;> rcases ry with _ | ⟨l2, h2⟩ <;> simp [ivalBin] at h
    have := hx _ _ rfl; have := hy _ _ rfl; simp [evalBin]; omega
  case mul =>
    rcases rx with _ | ⟨l1, h1⟩ <;> rcases ry with _ | ⟨l2, h2⟩ <;> simp [ivalBin] at h
    obtain ⟨hc, rfl, rfl⟩ := h
    have hX := hx _ _ rfl; have hY := hy _ _ rfl
    simp only [evalBin]
    constructor
    · exact Int.mul_le_mul hX.1 hY.1 hc.2 (by omega)
    · exact Int.mul_le_mul hX.2 hY.2 (by omega) (by omega)
  case div =>
    rcases rx with _ | ⟨l1, h1⟩ <;> rcases ry with _ | ⟨l2, h2⟩ <;> simp [ivalBin] at h
    obtain ⟨hc, rfl, rfl⟩ := h
    have hX := hx _ _ rfl; have hY := hy _ _ rfl
    have hb : vy = l2 := by omega
    simp only [evalBin, hb]
    rw [Int.tdiv_eq_ediv_of_nonneg (by omega)]
    exact ⟨Int.ediv_le_ediv (by omega) hX.1, Int.ediv_le_ediv (by omega) hX.2⟩
  case mod =>
    rcases rx with _ | ⟨l1, h1⟩ <;> rcases ry with _ | ⟨l2, h2⟩ <;> simp [ivalBin] at h
    obtain ⟨hc, rfl, rfl⟩ := h
    have hX := hx _ _ rfl; have hY := hy _ _ rfl
    have hb : vy = l2 := by omega
    simp only [evalBin, hb]
    rw [Int.tmod_eq_emod_of_nonneg (by omega)]
    have h1 := Int.emod_nonneg vx (show l2 ≠ 0 by omega)
    have h2 := Int.emod_lt_of_pos vx (show 0 < l2 by omega)
    omega
  case band => simp [ivalBin] at h
  all_goals (simp [ivalBin] at h; obtain ⟨rfl, rfl⟩ := h; simp only [evalBin]; exact b2i_range _)

theorem ival_sound {env : Env} {a : Abs} (h : SatB env a.bnd) (err : Bool) :
    ∀ (e : Expr) (lo hi : Int), ival a e = some (lo, hi) → lo ≤ eval err env e ∧ eval err env e ≤ hi := by
  intro e
  induction e with
  | lit n => intro lo hi hi'; simp [ival] at hi'; simp [eval]; omega
  | var x => intro lo hi hi'; simp [ival] at hi'; simpa [eval] using look_sound h hi'
  | conv t e ih =>
    intro lo hi hi'
    simp only [eval]
    simp only [ival] at hi'
    exact ivalConv_sound t _ _ (fun l h e => ih l h e) lo hi hi'
  | bin op x y ihx ihy =>
    intro lo hi hi'
    simp only [eval]
    simp only [ival] at hi'
    exact ivalBin_sound op _ _ _ _ (fun l h e => ihx l h e) (fun l h e => ihy l h e) lo hi hi'
  | lnot a _ => intro lo hi hi'; simp [ival] at hi'; obtain ⟨rfl, rfl⟩ := hi'; simp only [eval]; exact b2i_range _
  | cellIDValid a _ => intro lo hi hi'; simp [ival] at hi'; obtain ⟨rfl, rfl⟩ := hi'; simp only [eval]; exact b2i_range _
  | errNil => intro lo hi hi'; simp [ival] at hi'; obtain ⟨rfl, rfl⟩ := hi'; simp only [eval]; exact b2i_range _
  | errSet => intro lo hi hi'; simp [ival] at hi'; obtain ⟨rfl, rfl⟩ := hi'; simp only [eval]; exact b2i_range _

theorem b2i_zero {p : Prop} [Decidable p] (h : b2i (decide p) = 0) : ¬ p := by
  by_cases hp : p <;> simp [b2i, hp] at h ⊢

theorem refineNot_sound {env : Env} (err : Bool) (c : Expr) (a : Abs) :
    SatB env a.bnd → SatL env a.lts → eval err env c = 0 →
    SatB env (refineNot a c).bnd ∧ SatL env (refineNot a c).lts ∧ (refineNot a c).pend = a.pend := by
  fun_induction refineNot a c <;> intro hb hl hc
  all_goals try (exact ⟨hb, hl, rfl⟩)
  case case1 a x e l1 h1 l2 h2 hlk hiv =>
    have h1' := (ival_sound hb err e _ _ hiv)
    have h2' := look_sound hb hlk
    have := b2i_zero (by simpa [eval, evalBin] using hc)
    refine ⟨?_, hl, rfl⟩
    intro q hq; simp [Abs.addB] at hq
    rcases hq with rfl | hq
    · simp only; omega
    · exact hb q hq
  case case3 a x y =>
    have := b2i_zero (by simpa [eval, evalBin] using hc)
    refine ⟨hb, ?_, rfl⟩
    intro q hq; simp at hq
    rcases hq with rfl | hq
    · simp only; omega
    · exact hl q hq
  case case4 a x e l1 h1 l2 h2 hlk hiv =>
    have h1' := (ival_sound hb err e _ _ hiv)
    have h2' := look_sound hb hlk
    have := b2i_zero (by simpa [eval, evalBin] using hc)
    refine ⟨?_, hl, rfl⟩
    intro q hq; simp [Abs.addB] at hq
    rcases hq with rfl | hq
    · simp only; omega
    · exact hb q hq
  case case6 a x e l1 h1 l2 h2 hlk hiv =>
    have h1' := (ival_sound hb err e _ _ hiv)
    have h2' := look_sound hb hlk
    have := b2i_zero (by simpa [eval, evalBin] using hc)
    refine ⟨?_, hl, rfl⟩
    intro q hq; simp [Abs.addB] at hq
    rcases hq with rfl | hq
    · simp only; omega
    · exact hb q hq
  case case8 a c₁ c₂ ih2 ih1 =>
    have hcc : eval err env c₁ = 0 ∧ eval err env c₂ = 0 := by
      simp only [eval, evalBin, b2i] at hc
      split at hc
      · omega
      · rename_i hn; simpa using hn
    obtain ⟨hc1, hc2⟩ := hcc
    obtain ⟨a1, a2, a3⟩ := ih2 hb hl hc1
    obtain ⟨b1, b2, b3⟩ := ih1 a1 a2 hc2
    exact ⟨b1, b2, b3.trans a3⟩

/-! ### post-condition of one statement -/

def Post (cfg : Cfg) (xs : List Var) (a' : Abs) (B : Nat) (s : St) : Out → Prop
  | .cont s' => Sat s' a' ∧ Frame xs s s' ∧ s'.allocd ≤ s.allocd + B
  | .retn s' => Frame xs s s' ∧ s'.allocd ≤ s.allocd + B
  | .panic _ => False
  | .hang => False
  | .allocTooLarge => cfg.memCap < s.allocd + B

theorem Post.mono {cfg : Cfg} {xs ys : List Var} {a' : Abs} {B B' : Nat} {s : St} {o : Out}
    (h : Post cfg xs a' B s o) (hsub : ∀ x, x ∈ xs → x ∈ ys) (hB : B ≤ B') : Post cfg ys a' B' s o := by
  cases o with
  | cont s' => exact ⟨h.1, h.2.1.mono hsub, by have := h.2.2; omega⟩
  | retn s' => exact ⟨h.1.mono hsub, by have := h.2; omega⟩
  | panic w => exact h
  | hang => exact h
  | allocTooLarge => simp only [Post] at h ⊢; omega

/-- run `o` from an intermediate state `s₁` reached from `s`. -/
theorem Post.chain {cfg : Cfg} {ys : List Var} {a' : Abs} {b₁ b₂ : Nat} {s s₁ : St} {o : Out}
    (hf : Frame ys s s₁) (ha : s₁.allocd ≤ s.allocd + b₁) (h : Post cfg ys a' b₂ s₁ o) :
    Post cfg ys a' (b₁ + b₂) s o := by
  cases o with
  | cont s' => exact ⟨h.1, hf.trans h.2.1, by have := h.2.2; omega⟩
  | retn s' => exact ⟨hf.trans h.1, by have := h.2; omega⟩
  | panic w => exact h
  | hang => exact h
  | allocTooLarge => simp only [Post] at h ⊢; omega

/-- replace the abstract post-state of a fall-through by the havocked pre-state. -/
theorem Post.havoc {cfg : Cfg} {xs : List Var} {a a' : Abs} {B : Nat} {s : St} {o : Out}
    (hs : Sat s a) (h : Post cfg xs a' B s o) : Post cfg xs (a.killAll xs).clearPend B s o := by
  cases o with
  | cont s' => exact ⟨sat_killAll_frame hs h.2.1, h.2.1, h.2.2⟩
  | retn s' => exact h
  | panic w => exact h
  | hang => exact h
  | allocTooLarge => exact h

theorem iterLoop_sound (cfg : Cfg) (f : St → Out) (i : Var) (xs : List Var) (a aout : Abs) (bb : Nat)
    (hi : Int) (s₀ : St) (hs₀ : Sat s₀ a)
    (hf : ∀ s, Sat s (((a.killAll (i :: xs)).clearPend).addB i 0 hi) → Post cfg xs aout bb s (f s)) :
    ∀ (k j : Nat) (s : St), j + k ≤ hi.toNat → Frame (i :: xs) s₀ s →
      Post cfg (i :: xs) (a.killAll (i :: xs)).clearPend (k * bb) s (iterLoop f i k j s) := by
  intro k
  induction k with
  | zero =>
    intro j s _ hfr
    simp only [iterLoop]
    exact ⟨sat_killAll_frame hs₀ hfr, Frame.refl _ _, by omega⟩
  | succ k ih =>
    intro j s hjk hfr
    simp only [iterLoop]
    have hfr_i : Frame (i :: xs) s ({ s with env := set s.env i j } : St) := by
      intro x hx; simp at hx; simp [get_set, hx.1]
    have hsat_i : Sat ({ s with env := set s.env i j } : St) (((a.killAll (i :: xs)).clearPend).addB i 0 hi) := by
      apply sat_addB (sat_killAll_frame hs₀ (hfr.trans hfr_i))
      simp [get_set]; omega
    have hP := hf _ hsat_i
    generalize hfo : f { s with env := set s.env i j } = o at hP
    cases o with
    | cont s' =>
      simp only
      have hfr' : Frame (i :: xs) s s' := hfr_i.trans (hP.2.1.mono (fun x hx => List.mem_cons_of_mem _ hx))
      have := ih (j + 1) s' (by omega) (hfr.trans hfr')
      have hc := Post.chain hfr' (by simpa using hP.2.2) this
      rw [Nat.succ_mul, Nat.add_comm]; exact hc
    | retn s' =>
      simp only
      exact ⟨hfr_i.trans (hP.1.mono (fun x hx => List.mem_cons_of_mem _ hx)),
        by have := hP.2; simp at this; rw [Nat.succ_mul]; omega⟩
    | panic w => exact hP
    | hang => exact hP
    | allocTooLarge => simp only [Post] at hP ⊢; rw [Nat.succ_mul]; omega

theorem invariantBnd_eval {xs : List Var} {bnd : Expr} (h : invariantBnd xs bnd = true) {s s' : St}
    (hf : Frame xs s s') : eval s'.err s'.env bnd = eval s.err s.env bnd := by
  cases bnd <;> simp [invariantBnd] at h
  · simp [eval]
  · rename_i b; simp only [eval]; exact hf b h

theorem iterWhile_sound (cfg : Cfg) (f : St → Out) (x : Var) (bnd inc : Expr) (xs : List Var) (a a₁ : Abs)
    (bb : Nat) (lx hb li hi' : Int) (s₀ : St) (hs₀ : Sat s₀ a) (hx : x ∉ xs)
    (hbnd : invariantBnd (x :: xs) bnd = true) (hB : eval s₀.err s₀.env bnd ≤ hb)
    (hf : ∀ s, Sat s (((a.killAll (x :: xs)).clearPend).addB x lx (hb - 1)) → Post cfg xs a₁ bb s (f s))
    (hinc : ival a₁ inc = some (li, hi')) (hli : 1 ≤ li) (hov : hb - 1 + hi' ≤ maxInt64)
    (hlx : -maxInt64 ≤ lx) :
    ∀ (fuel : Nat) (s : St), Frame (x :: xs) s₀ s → lx ≤ get s.env x →
      (eval s₀.err s₀.env bnd - get s.env x).toNat ≤ fuel →
      Post cfg (x :: xs) (a.killAll (x :: xs)).clearPend
        ((eval s₀.err s₀.env bnd - get s.env x).toNat * bb) s (iterWhile f x bnd inc fuel s) := by
  intro fuel
  induction fuel with
  | zero =>
    intro s hfr hlo hfu
    unfold iterWhile
    rw [invariantBnd_eval hbnd hfr]
    split
    · omega
    · exact ⟨sat_killAll_frame hs₀ hfr, Frame.refl _ _, by omega⟩
  | succ k ih =>
    intro s hfr hlo hfu
    unfold iterWhile
    rw [invariantBnd_eval hbnd hfr]
    split
    · rename_i hlt
      simp only
      have hsat : Sat s (((a.killAll (x :: xs)).clearPend).addB x lx (hb - 1)) :=
        sat_addB (sat_killAll_frame hs₀ hfr) ⟨hlo, by omega⟩
      have hP := hf s hsat
      generalize hfo : f s = o at hP
      cases o with
      | cont s' =>
        simp only
        have hxs : get s'.env x = get s.env x := hP.2.1 x hx
        have hv := ival_sound hP.1.1 s'.err inc _ _ hinc
        have hconv : conv .int (get s'.env x + eval s'.err s'.env inc) = get s'.env x + eval s'.err s'.env inc := by
          apply conv_id _ (by decide) (by decide)
          · simp only [Ty.lo]; simp only [maxInt64] at hov hlx; omega
          · simp only [Ty.hi]; simp only [maxInt64] at hov hlx; omega
        rw [hconv]
        split
        · omega
        · have hfr1 : Frame (x :: xs) s s' := hP.2.1.mono (fun y hy => List.mem_cons_of_mem _ hy)
          have hfr2 : Frame (x :: xs) s' ({ s' with env := set s'.env x (get s'.env x + eval s'.err s'.env inc) } : St) := by
            intro y hy; simp at hy; simp [get_set, hy.1]
          have hgx : get ({ s' with env := set s'.env x (get s'.env x + eval s'.err s'.env inc) } : St).env x
              = get s'.env x + eval s'.err s'.env inc := by simp [get_set]
          have hrec := ih _ (hfr.trans (hfr1.trans hfr2)) (by rw [hgx]; omega) (by rw [hgx]; omega)
          have hc := Post.chain (hfr1.trans hfr2) (b₁ := bb) (by simpa using hP.2.2) hrec
          refine hc.mono (fun _ h => h) ?_
          rw [hgx]
          have h1 : (eval s₀.err s₀.env bnd - (get s'.env x + eval s'.err s'.env inc)).toNat + 1
              ≤ (eval s₀.err s₀.env bnd - get s.env x).toNat := by omega
          calc bb + (eval s₀.err s₀.env bnd - (get s'.env x + eval s'.err s'.env inc)).toNat * bb
              = ((eval s₀.err s₀.env bnd - (get s'.env x + eval s'.err s'.env inc)).toNat + 1) * bb := by
                rw [Nat.succ_mul, Nat.add_comm]
            _ ≤ _ := Nat.mul_le_mul_right _ h1
      | retn s' =>
        simp only
        refine ⟨hP.1.mono (fun y hy => List.mem_cons_of_mem _ hy), ?_⟩
        have h1 : 1 ≤ (eval s₀.err s₀.env bnd - get s.env x).toNat := by omega
        have := Nat.mul_le_mul_right bb h1
        have := hP.2
        omega
      | panic w => exact hP
      | hang => exact hP
      | allocTooLarge =>
        simp only [Post] at hP ⊢
        have h1 : 1 ≤ (eval s₀.err s₀.env bnd - get s.env x).toNat := by omega
        have := Nat.mul_le_mul_right bb h1
        omega
    · exact ⟨sat_killAll_frame hs₀ hfr, Frame.refl _ _, by omega⟩

/-! ### reads -/

theorem conv_range' (t : Ty) (v : Int) : t.lo ≤ conv t v ∧ conv t v ≤ t.hi := by
  cases t <;> simp [conv, Ty.lo, Ty.hi, wrapU, wrapS] <;> (try split) <;> omega

theorem readUvarintAux_lt : ∀ (k x sft : Nat) (inp : List UInt8), x < 2 ^ 64 →
    (readUvarintAux k x sft inp).1 < 2 ^ 64 := by
  intro k
  induction k with
  | zero => intro x sft inp hx; simpa [readUvarintAux] using hx
  | succ k ih =>
    intro x sft inp hx
    cases inp with
    | nil => simpa [readUvarintAux] using hx
    | cons b r =>
      simp only [readUvarintAux]
      split
      · split
        · exact hx
        · exact Nat.mod_lt _ (by decide)
      · exact ih _ _ _ (Nat.mod_lt _ (by decide))

theorem readRaw_range (t : Ty) (inp : List UInt8) : t.lo ≤ (readRaw t inp).1 ∧ (readRaw t inp).1 ≤ t.hi := by
  unfold readRaw
  split
  · have := readUvarintAux_lt 10 0 0 inp (by decide)
    simp only [Ty.lo, Ty.hi]
    generalize readUvarintAux 10 0 0 inp = r at this
    obtain ⟨v, ok, rest⟩ := r
    simp only at this ⊢
    omega
  · rename_i t' hne
    simp only
    split
    · cases t <;> simp [Ty.lo, Ty.hi]
    · simp only
      split
      · have := b2i_range (decide (conv Ty.i8 ((leNat (List.take Ty.bool.width inp) : Nat) : Int) = 1))
        simpa [Ty.lo, Ty.hi] using this
      · exact conv_range' _ _

theorem doRead_spec (t : Ty) (x : Var) (s : St) :
    ∃ v, t.lo ≤ v ∧ v ≤ t.hi ∧ (doRead t x s).env = set s.env x v ∧ (doRead t x s).allocd = s.allocd := by
  unfold doRead
  split
  · exact ⟨0, by cases t <;> simp [Ty.lo], by cases t <;> simp [Ty.hi], rfl, rfl⟩
  · have := readRaw_range t s.inp
    generalize readRaw t s.inp = r at this
    obtain ⟨v, ok, rest⟩ := r
    exact ⟨v, this.1, this.2, rfl, rfl⟩

/-! ### the main soundness theorem -/

theorem pendOf_spec {c c' : Expr} (h : pendOf c = some c') : c = Expr.bin BinOp.land c' Expr.errNil := by
  unfold pendOf at h
  split at h
  · simp at h; rw [h]
  · cases h

theorem land_errNil_zero {env : Env} {d : Expr}
    (h : eval false env (Expr.bin BinOp.land d Expr.errNil) = 0) : eval false env d = 0 := by
  simp only [eval, evalBin, b2i] at h
  by_cases hd : eval false env d = 0
  · exact hd
  · exfalso; simp [hd] at h

theorem foldl_refineNot_sat {env : Env} (cs : List Expr) : ∀ (a : Abs), SatB env a.bnd → SatL env a.lts →
    (∀ c ∈ cs, eval false env c = 0) →
    SatB env (cs.foldl refineNot a).bnd ∧ SatL env (cs.foldl refineNot a).lts ∧ (cs.foldl refineNot a).pend = a.pend := by
  induction cs with
  | nil => intro a hb hl _; exact ⟨hb, hl, rfl⟩
  | cons c r ih =>
    intro a hb hl hc
    obtain ⟨h1, h2, h3⟩ := refineNot_sound false c a hb hl (hc c (by simp))
    obtain ⟨g1, g2, g3⟩ := ih (refineNot a c) h1 h2 (fun c' hc' => hc c' (by simp [hc']))
    exact ⟨g1, g2, g3.trans h3⟩

theorem chk_sound (cfg : Cfg) : ∀ (p : Stmt) (a a' : Abs) (B : Nat) (s : St),
    chk a p = some (a', B) → Sat s a → Post cfg (defs p) a' B s (exec cfg p s) := by
  intro p
  induction p with
  | skip =>
    intro a a' B s h hs; simp [chk] at h; obtain ⟨rfl, rfl⟩ := h
    exact ⟨hs, Frame.refl _ _, by simp [exec]⟩
  | seq p q ihp ihq =>
    intro a a' B s h hs
    simp only [chk] at h
    split at h
    · rename_i a₁ b₁ h₁
      split at h
      · rename_i a₂ b₂ h₂
        simp at h; obtain ⟨rfl, rfl⟩ := h
        have hP := ihp a a₁ b₁ s h₁ hs
        simp only [exec, defs]
        generalize exec cfg p s = o at hP
        cases o with
        | cont s₁ =>
          simp only
          have hQ := ihq a₁ a₂ b₂ s₁ h₂ hP.1
          exact Post.chain (hP.2.1.mono (fun _ hx => List.mem_append_left _ hx)) hP.2.2 (hQ.mono (fun _ hx => List.mem_append_right _ hx) (Nat.le_refl _))
        | retn s₁ => exact ⟨hP.1.mono (fun _ hx => List.mem_append_left _ hx), by have := hP.2; omega⟩
        | panic w => exact hP
        | hang => exact hP
        | allocTooLarge => simp only [Post] at hP ⊢; omega
      · cases h
    · cases h
  | read t x =>
    intro a a' B s h hs; simp [chk] at h; obtain ⟨rfl, rfl⟩ := h
    obtain ⟨v, h1, h2, henv, hal⟩ := doRead_spec t x s
    simp only [exec, defs]
    refine ⟨sat_setB hs (fun lo hi e => by cases e; exact ⟨h1, h2⟩) _ henv, ?_, by omega⟩
    intro y hy; rw [henv, get_set]; simp at hy; simp [hy]
  | failIfErr =>
    intro a a' B s h hs; simp [chk] at h; obtain ⟨rfl, rfl⟩ := h
    simp only [exec, defs]
    split
    · exact ⟨Frame.refl _ _, by omega⟩
    · rename_i he
      have he' : s.err = false := by simpa using he
      obtain ⟨g1, g2, g3⟩ := foldl_refineNot_sat (env := s.env) a.pend a.clearPend hs.1 hs.2.1 (hs.2.2 he')
      exact ⟨⟨g1, g2, by rw [g3]; intro _ c hc; simp [Abs.clearPend] at hc⟩, Frame.refl _ _, by omega⟩
  | failIf c =>
    intro a a' B s h hs
    simp only [chk] at h
    split at h
    · simp at h; obtain ⟨rfl, rfl⟩ := h
      simp only [exec, defs]
      split
      · exact ⟨fun _ _ => rfl, by simp⟩
      · rename_i hc
        have hc' : eval s.err s.env c = 0 := by simpa using hc
        obtain ⟨g1, g2, g3⟩ := refineNot_sound s.err c a hs.1 hs.2.1 hc'
        exact ⟨⟨g1, g2, by rw [g3]; exact hs.2.2⟩, Frame.refl _ _, by omega⟩
    · cases h
  | errIf c =>
    intro a a' B s h hs
    simp only [chk] at h
    split at h
    · simp only [exec, defs]
      split at h
      · rename_i c' hpo
        have hceq := pendOf_spec hpo
        simp at h; obtain ⟨rfl, rfl⟩ := h
        split
        · exact ⟨⟨hs.1, hs.2.1, by intro he; simp at he⟩, fun _ _ => rfl, by simp⟩
        · rename_i hc
          refine ⟨⟨hs.1, hs.2.1, ?_⟩, Frame.refl _ _, by omega⟩
          intro he d hd
          simp at hd
          rcases hd with rfl | hd
          · have hc' : eval s.err s.env c = 0 := by simpa using hc
            rw [he, hceq] at hc'
            exact land_errNil_zero hc'
          · exact hs.2.2 he d hd
      · simp at h; obtain ⟨rfl, rfl⟩ := h
        split
        · exact ⟨⟨hs.1, hs.2.1, by intro he; simp at he⟩, fun _ _ => rfl, by simp⟩
        · exact ⟨hs, Frame.refl _ _, by omega⟩
    · cases h
  | assign x e =>
    intro a a' B s h hs
    simp only [chk] at h
    split at h
    · simp at h; obtain ⟨rfl, rfl⟩ := h
      simp only [exec, defs]
      refine ⟨sat_setB hs (fun lo hi he => ival_sound hs.1 s.err e lo hi he) _ rfl, ?_, by simp⟩
      intro y hy; simp at hy; simp [get_set, hy]
    · cases h
  | alloc x n sz =>
    intro a a' B s h hs
    simp only [chk] at h
    split at h
    · split at h
      · rename_i lo hi hiv
        split at h
        · rename_i hc
          simp at hc
          simp at h; obtain ⟨rfl, rfl⟩ := h
          have hv := ival_sound hs.1 s.err n lo hi hiv
          have hle : (eval s.err s.env n).toNat * sz ≤ hi.toNat * sz :=
            Nat.mul_le_mul_right _ (by omega)
          simp only [exec, defs, doAlloc]
          split
          · omega
          · split
            · omega
            · split
              · simp only [Post]; omega
              · refine ⟨sat_setB hs (fun l h he => by cases he; exact hv) _ rfl, ?_, by simp; omega⟩
                intro y hy; simp at hy; simp [get_set, hy]
        · cases h
      · cases h
    · cases h
  | append x sz =>
    intro a a' B s h hs
    simp [chk] at h; obtain ⟨rfl, rfl⟩ := h
    simp only [exec, defs]
    by_cases hcap : s.allocd + appendCharge sz > cfg.memCap
    · rw [if_pos hcap]; simp only [Post]; omega
    · rw [if_neg hcap]
      refine ⟨sat_setB hs ?_ _ rfl, ?_, by simp⟩
      · intro lo hi he
        split at he
        · rename_i l h hl
          simp at he; obtain ⟨rfl, rfl⟩ := he
          have := look_sound hs.1 hl; omega
        · cases he
      · intro y hy; simp at hy; simp [get_set, hy]
  | index x i =>
    intro a a' B s h hs
    simp only [chk] at h
    split at h
    · rename_i j
      split at h
      · rename_i lo hh hl
        split at h
        · rename_i hc
          simp at hc
          simp at h; obtain ⟨rfl, rfl⟩ := h
          have h1 := look_sound hs.1 hl
          have h2 := hs.2.1 (j, x) hc.2
          simp only [exec, defs]
          have hnp : ¬ (eval s.err s.env (Expr.var j) < 0 ∨ eval s.err s.env (Expr.var j) ≥ get s.env x) := by
            simp only [eval]; simp at h2; omega
          rw [if_neg hnp]
          exact ⟨hs, Frame.refl _ _, by omega⟩
        · cases h
      · cases h
    · cases h
  | loop i n body ih =>
    intro a a' B s h hs
    simp only [chk] at h
    split at h
    · split at h
      · rename_i lo hi hiv
        split at h
        · rename_i aout bb hb
          simp at h; obtain ⟨rfl, rfl⟩ := h
          have hv := ival_sound hs.1 s.err n lo hi hiv
          simp only [exec, defs]
          have := iterLoop_sound cfg (exec cfg body) i (defs body) a aout bb hi s hs
            (fun s' hs' => ih _ _ _ s' hb hs') (eval s.err s.env n).toNat 0 s (by omega) (Frame.refl _ _)
          exact this.mono (fun _ h => h) (Nat.mul_le_mul_right _ (by omega))
        · cases h
      · cases h
    · cases h
  | whileLt x bnd body inc ih =>
    intro a a' B s h hs
    simp only [chk] at h
    split at h
    · rename_i hc
      simp at hc
      obtain ⟨⟨⟨hok1, hok2⟩, hinv⟩, hxn⟩ := hc
      split at h
      · rename_i lb hb lx hx hivb hlk
        split at h
        · rename_i a₁ bb hbody
          split at h
          · rename_i li hi' hinc
            split at h
            · rename_i hc2
              simp at hc2
              simp at h; obtain ⟨rfl, rfl⟩ := h
              have hvb := ival_sound hs.1 s.err bnd _ _ hivb
              have hvx := look_sound hs.1 hlk
              simp only [exec, defs]
              have := iterWhile_sound cfg (exec cfg body) x bnd inc (defs body) a a₁ bb lx hb li hi' s hs
                (by simpa using hxn) hinv hvb.2 (fun s' hs' => ih _ _ _ s' hbody hs') hinc hc2.1.1 hc2.1.2 hc2.2
                (eval s.err s.env bnd - get s.env x).toNat s (Frame.refl _ _) hvx.1 (Nat.le_refl _)
              exact this.mono (fun _ h => h) (Nat.mul_le_mul_right _ (by omega))
            · cases h
          · cases h
        · cases h
      · cases h
    · cases h
  | ite c t e iht ihe =>
    intro a a' B s h hs
    simp only [chk] at h
    split at h
    · split at h
      · rename_i a₁ b₁ a₂ b₂ h₁ h₂
        simp at h; obtain ⟨rfl, rfl⟩ := h
        simp only [exec, defs]
        split
        · exact ((iht _ _ _ s h₁ hs).mono (ys := defs t ++ defs e) (fun _ hx => List.mem_append_left _ hx) (Nat.le_max_left _ _)).havoc hs
        · exact ((ihe _ _ _ s h₂ hs).mono (ys := defs t ++ defs e) (fun _ hx => List.mem_append_right _ hx) (Nat.le_max_right _ _)).havoc hs
      · cases h
    · cases h
  | call name body ih =>
    intro a a' B s h hs
    simp only [chk] at h
    split at h
    · rename_i a₁ b h₁
      simp at h; obtain ⟨rfl, rfl⟩ := h
      have hP := ih _ _ _ s h₁ hs
      simp only [exec, defs]
      generalize exec cfg body s = o at hP
      cases o with
      | cont s' => exact ⟨sat_killAll_frame hs hP.2.1, hP.2.1, hP.2.2⟩
      | retn s' => exact ⟨sat_killAll_frame hs hP.1, hP.1, hP.2⟩
      | panic w => exact hP
      | hang => exact hP
      | allocTooLarge => exact hP
    · cases h
  | callByValue name body ih =>
    intro a a' B s h hs
    simp only [chk] at h
    split at h
    · rename_i a₁ b h₁
      simp at h; obtain ⟨rfl, rfl⟩ := h
      have hP := ih _ _ _ s h₁ hs
      simp only [exec, defs]
      generalize exec cfg body s = o at hP
      cases o with
      | cont s' =>
        have hf : Frame (defs body) s ({ s' with err := s.err, lost := s'.lost || (s'.err && !s.err) } : St) := hP.2.1
        exact ⟨sat_killAll_frame hs hf, hf, hP.2.2⟩
      | retn s' =>
        have hf : Frame (defs body) s ({ s' with err := s.err, lost := s'.lost || (s'.err && !s.err) } : St) := hP.1
        exact ⟨sat_killAll_frame hs hf, hf, hP.2⟩
      | panic w => exact hP
      | hang => exact hP
      | allocTooLarge => exact hP
    · cases h
  | «opaque» name =>
    intro a a' B s h hs; simp [chk] at h; obtain ⟨rfl, rfl⟩ := h
    exact ⟨hs, Frame.refl _ _, by simp [exec]⟩
  | ret =>
    intro a a' B s h hs; simp [chk] at h; obtain ⟨rfl, rfl⟩ := h
    exact ⟨Frame.refl _ _, by simp [exec]⟩

/-! ### no error is dropped when no callee takes the decoder by value -/

def LostOK (s : St) : Out → Prop
  | .cont s' => s'.lost = s.lost
  | .retn s' => s'.lost = s.lost
  | _ => True

theorem LostOK.trans {s s₁ : St} {o : Out} (h₁ : s₁.lost = s.lost) (h : LostOK s₁ o) : LostOK s o := by
  cases o <;> simp_all [LostOK]

theorem iterLoop_lost (f : St → Out) (i : Var) (hf : ∀ s, LostOK s (f s)) :
    ∀ (k j : Nat) (s : St), LostOK s (iterLoop f i k j s) := by
  intro k
  induction k with
  | zero => intro j s; simp [iterLoop, LostOK]
  | succ k ih =>
    intro j s
    simp only [iterLoop]
    have h := hf { s with env := set s.env i j }
    generalize f { s with env := set s.env i j } = o at h
    cases o with
    | cont s' => exact LostOK.trans (by simpa [LostOK] using h) (ih (j + 1) s')
    | retn s' => simpa [LostOK] using h
    | panic w => trivial
    | hang => trivial
    | allocTooLarge => trivial

theorem iterWhile_lost (f : St → Out) (x : Var) (bnd inc : Expr) (hf : ∀ s, LostOK s (f s)) :
    ∀ (fuel : Nat) (s : St), LostOK s (iterWhile f x bnd inc fuel s) := by
  intro fuel
  induction fuel with
  | zero => intro s; unfold iterWhile; split <;> simp [LostOK]
  | succ k ih =>
    intro s
    unfold iterWhile
    split
    · simp only
      have h := hf s
      generalize f s = o at h
      cases o with
      | cont s' =>
        simp only
        split
        · trivial
        · exact LostOK.trans (by simpa [LostOK] using h) (ih _)
      | retn s' => simpa [LostOK] using h
      | panic w => trivial
      | hang => trivial
      | allocTooLarge => trivial
    · simp [LostOK]

theorem exec_lost (cfg : Cfg) : ∀ (p : Stmt), ErrPropagated p = true → ∀ s, LostOK s (exec cfg p s) := by
  intro p
  induction p with
  | seq a b iha ihb =>
    intro h s
    simp [ErrPropagated] at h
    simp only [exec]
    have h1 := iha h.1 s
    generalize exec cfg a s = o at h1
    cases o with
    | cont s' => exact LostOK.trans (by simpa [LostOK] using h1) (ihb h.2 s')
    | retn s' => simpa [LostOK] using h1
    | panic w => trivial
    | hang => trivial
    | allocTooLarge => trivial
  | loop i n body ih =>
    intro h s; simp [ErrPropagated] at h; simp only [exec]
    exact iterLoop_lost _ _ (ih h) _ _ _
  | whileLt x bnd body inc ih =>
    intro h s; simp [ErrPropagated] at h; simp only [exec]
    exact iterWhile_lost _ _ _ _ (ih h) _ _
  | ite c t e iht ihe =>
    intro h s; simp [ErrPropagated] at h; simp only [exec]
    split
    · exact iht h.1 s
    · exact ihe h.2 s
  | call name body ih =>
    intro h s; simp [ErrPropagated] at h; simp only [exec]
    have h1 := ih h s
    generalize exec cfg body s = o at h1
    cases o <;> simp_all [LostOK]
  | callByValue name body ih => intro h; simp [ErrPropagated] at h
  | read t x => intro _ s; simp only [exec, LostOK, doRead]; split <;> rfl
  | alloc x n sz => intro _ s; simp only [exec, doAlloc]; split <;> (try split) <;> (try split) <;> simp [LostOK]
  | append x sz => intro _ s; simp only [exec]; split <;> simp [LostOK]
  | index x i => intro _ s; simp only [exec]; split <;> simp [LostOK]
  | failIfErr => intro _ s; simp only [exec]; split <;> simp [LostOK]
  | failIf c => intro _ s; simp only [exec]; split <;> simp [LostOK]
  | errIf c => intro _ s; simp only [exec]; split <;> simp [LostOK]
  | skip => intro _ s; simp [exec, LostOK]
  | assign x e => intro _ s; simp [exec, LostOK]
  | «opaque» name => intro _ s; simp [exec, LostOK]
  | ret => intro _ s; simp [exec, LostOK]

end S2Proofs.DecoderIRSound
