/-
  S2Proofs.CU.FindExtra — further facts about `S2.Intersect.find`: shape of the result entries,
  disjointness, exact coverage, and the "empty entry" oddity (a concrete instance).
-/
import S2Proofs.CU.FindMain
open S2 S2.CellID S2.CellUnion S2.Intersect
namespace S2Proofs.FindP

theorem mem_covAt_lt (cus : List CU) (τ i : Nat) (h : i ∈ covAt cus τ) : i < cus.length := by
  unfold covAt at h
  obtain ⟨⟨cu, j⟩, hp, rfl⟩ := List.mem_map.mp h
  have := List.mem_zipIdx (List.mem_filter.mp hp).1
  omega

/-- Shape of the result: every entry's cell union is normalized, its index list is strictly increasing
    with all indices `< cus.length` (and has ≥ 2 members by `find_correct`), and distinct entries have
    distinct index lists. -/
theorem find_shape (cus : List CU) (hv : ∀ cu ∈ cus, AllValid cu) :
    (∀ r ∈ find cus, isNormalizedCU r.cells = true ∧ r.indices.Pairwise (· < ·) ∧
        ∀ i ∈ r.indices, i < cus.length) ∧
    (find cus).Pairwise (fun a b => a.indices ≠ b.indices) := by
  obtain ⟨hgood, _⟩ := overlaps_spec cus hv
  obtain ⟨g1, _, g3⟩ := group_spec (cellUnionsToOverlaps cus)
  refine ⟨fun r hr => ?_, g3⟩
  obtain ⟨cells, hcells, ⟨o, ho, e⟩, hall⟩ := g1 r hr
  have hvc : AllValid cells := by
    intro c hc
    obtain ⟨o', ho', _, hco⟩ := hall c hc
    exact ((isNormalizedCU_iff _).mp (tiles_spec (hgood o' ho')).1).1 c hco
  obtain ⟨κ, hκ⟩ := (hgood o ho).2.2.2.2.2.2
  refine ⟨by rw [hcells]; exact normalize_isNormalized' cells hvc, ?_, ?_⟩
  · rw [← e, hκ]; exact (gHyp cus hv).covSorted κ
  · intro i hi
    rw [← e, hκ] at hi
    exact mem_covAt_lt cus κ i hi

example : ∀ cu ∈ [[(3 : CellID)], [3, 5], [3, 5], [5]], AllValid cu := by
  intro cu hcu
  simp only [List.mem_cons, List.not_mem_nil, or_false] at hcu
  rcases hcu with rfl | rfl | rfl | rfl <;> exact ((isValidCU_iff _).mp (by decide)).1

/-- Exact coverage: a leaf lies in some result entry iff at least two unions cover it. -/
theorem find_covers_iff (cus : List CU) (hv : ∀ cu ∈ cus, AllValid cu) (x : Nat) (hx : x % 2 = 1) :
    (∃ r ∈ find cus, coversLeaf r.cells x = true) ↔ 2 ≤ (coveringAt cus x).length := by
  obtain ⟨h1, h2⟩ := find_correct_stmt cus hv
  obtain ⟨h3, h4⟩ := h2 x hx
  constructor
  · rintro ⟨r, hr, hc⟩
    rw [← h3 r hr hc]; exact h1 r hr
  · intro h
    obtain ⟨r, hr, _, hc⟩ := h4 h
    exact ⟨r, hr, hc⟩

/-- Disjointness: two DIFFERENT entries (different positions of the result list) never share a leaf. -/
theorem find_disjoint (cus : List CU) (hv : ∀ cu ∈ cus, AllValid cu) :
    (find cus).Pairwise (fun a b => ∀ x, x % 2 = 1 →
      ¬ (coversLeaf a.cells x = true ∧ coversLeaf b.cells x = true)) := by
  obtain ⟨_, h2⟩ := find_correct_stmt cus hv
  have hp := (find_shape cus hv).2
  refine hp.imp_of_mem ?_
  intro a b ha hb hne x hx ⟨h1, h2'⟩
  obtain ⟨h3, _⟩ := h2 x hx
  exact hne ((h3 a ha h1).trans (h3 b hb h2').symm)

/-! ### the oddity: an entry with an EMPTY cell union

Unions 1 and 2 cover the leaves 3 and 5, union 0 ends at leaf 3, union 3 starts at leaf 5.  After the
end limit at leaf 3 the open set is {1,2} with `lastStart = next 3 = 5`; the start limit at leaf 5 then
emits the overlap `({1,2}, start = 5, end = prev 5 = 3)`, which is empty.  `Find` therefore returns an
entry for the index set {1,2} whose cell union is empty.  (Harmless for `Find_correct`; the Go code
behaves the same: it returns an `Intersection{Indices: [1 2], Intersection: nil-or-empty}`.) -/

/-- stable insertion, to evaluate `List.mergeSort` (which is defined by well-founded recursion and
    does not reduce in the kernel) -/
def insStable {α} (le : α → α → Bool) (a : α) : List α → List α
  | [] => [a]
  | b :: t => if le a b then a :: b :: t else b :: insStable le a t

def isort {α} (le : α → α → Bool) (l : List α) : List α := l.foldr (insStable le) []

theorem insStable_append {α} (le : α → α → Bool) (a : α) (l₁ l₂ : List α)
    (h1 : ∀ b ∈ l₁, (!le a b) = true) (h2 : ∀ b ∈ l₂, le a b = true) :
    insStable le a (l₁ ++ l₂) = l₁ ++ a :: l₂ := by
  induction l₁ with
  | nil =>
    cases l₂ with
    | nil => rfl
    | cons b t => simp [insStable, h2 b (List.mem_cons_self ..)]
  | cons b t ih =>
    have hb : le a b = false := by simpa using h1 b (List.mem_cons_self ..)
    simp only [List.cons_append, insStable, hb, Bool.false_eq_true, if_false]
    rw [ih (fun c hc => h1 c (List.mem_cons_of_mem _ hc))]

/-- `mergeSort` is the stable insertion sort, for a transitive total comparison -/
theorem mergeSort_eq_isort {α} (le : α → α → Bool)
    (htrans : ∀ a b c, le a b = true → le b c = true → le a c = true)
    (htotal : ∀ a b, (le a b || le b a) = true) (l : List α) : l.mergeSort le = isort le l := by
  induction l with
  | nil => simp [isort]
  | cons a l ih =>
    obtain ⟨l₁, l₂, e1, e2, h3⟩ := List.mergeSort_cons htrans htotal a l
    have hs := List.pairwise_mergeSort htrans htotal (a :: l)
    rw [e1] at hs
    have h2 : ∀ b ∈ l₂, le a b = true :=
      (List.pairwise_cons.mp (List.pairwise_append.mp hs).2.1).1
    rw [e1]
    show _ = insStable le a (isort le l)
    rw [← ih, e2, insStable_append le a l₁ l₂ h3 h2]

example : isort (fun a b : Nat => decide (a ≤ b)) [3, 1, 2] = [1, 2, 3] := by decide

/-- the four unions of the oddity -/
def oddCus : List CU := [[3], [3, 5], [3, 5], [5]]

theorem allLims_of_normalized (cus : List CU) (h : ∀ cu ∈ cus, isNormalizedCU cu = true) :
    allLims cus = (cus.zipIdx.map fun p => cellUnionToIntervalLimits p.1 p.2).flatten := by
  unfold allLims
  congr 1
  apply List.map_congr_left
  rintro ⟨cu, i⟩ hp
  have hm : cu ∈ cus := mem_of_getElem? (List.mem_zipIdx_iff_getElem?.mp hp)
  simp only
  rw [normalize_fix cu (h cu hm)]

theorem oddCus_overlaps : cellUnionsToOverlaps oddCus =
    [{ indices := [0, 1, 2], start := 3, «end» := 3 }, { indices := [1, 2], start := 5, «end» := 3 },
     { indices := [1, 2, 3], start := 5, «end» := 5 }] := by
  rw [cellUnionsToOverlaps_eq, allLims_of_normalized oddCus (by decide)]
  unfold collapseLimits
  rw [mergeSort_eq_isort limitLE limitLE_trans limitLE_total]
  decide

theorem oddCus_valid : ∀ cu ∈ oddCus, AllValid cu := fun cu hcu =>
  ((isNormalizedCU_iff cu).mp ((by decide : ∀ cu ∈ oddCus, isNormalizedCU cu = true) cu hcu)).1

/-- non-vacuity of `GoodOv` (hypothesis of `tiles_spec`): all three overlaps of the oddity instance,
    including the empty one `({1,2}, start 5, end 3)` -/
example : ∀ o ∈ cellUnionsToOverlaps oddCus, GoodOv (covAt oddCus) o :=
  (overlaps_spec oddCus oddCus_valid).1

/-- THE ODDITY: `find` on four valid, normalized unions returns an entry (index set {1,2}) whose cell
    union is empty. -/
theorem find_empty_entry :
    (∀ cu ∈ oddCus, isNormalizedCU cu = true) ∧
    ∃ r ∈ find oddCus, r.indices = [1, 2] ∧ r.cells = [] := by
  refine ⟨by decide, ⟨{ indices := [1, 2], cells := normalize [] }, ?_, rfl, normalize_nil⟩⟩
  unfold find
  rw [oddCus_overlaps]
  unfold overlapsToIntersections
  rw [List.mem_mergeSort]
  have hset : ([{ indices := [0, 1, 2], start := 3, «end» := 3 }, { indices := [1, 2], start := 5, «end» := 3 },
      { indices := [1, 2, 3], start := 5, «end» := 5 }] : List Overlap).foldl (fun s o => addOverlap o s) [] =
      [{ indices := [0, 1, 2], cells := [3] }, { indices := [1, 2], cells := [] },
       { indices := [1, 2, 3], cells := [5] }] := by decide
  simp only [hset]
  exact List.mem_map.mpr ⟨{ indices := [1, 2], cells := [] }, by simp, rfl⟩

theorem lexLE_total : ∀ a b : List Nat, (lexLE a b || lexLE b a) = true
  | [], _ => by simp [lexLE]
  | _ :: _, [] => by simp [lexLE]
  | a :: as, b :: bs => by
    have ih := lexLE_total as bs
    simp only [lexLE, Bool.or_eq_true, Bool.and_eq_true, decide_eq_true_eq, beq_iff_eq] at ih ⊢
    rcases Nat.lt_trichotomy a b with h | h | h
    · exact Or.inl (Or.inl h)
    · subst h; rcases ih with ih | ih
      · exact Or.inl (Or.inr ⟨rfl, ih⟩)
      · exact Or.inr (Or.inr ⟨rfl, ih⟩)
    · exact Or.inr (Or.inl h)

theorem lexLE_trans : ∀ a b c : List Nat, lexLE a b = true → lexLE b c = true → lexLE a c = true
  | [], _, _ => by simp [lexLE]
  | _ :: _, [], _ => by simp [lexLE]
  | _ :: _, _ :: _, [] => by simp [lexLE]
  | a :: as, b :: bs, c :: cs => by
    have ih := lexLE_trans as bs cs
    simp only [lexLE, Bool.or_eq_true, Bool.and_eq_true, decide_eq_true_eq, beq_iff_eq] at ih ⊢
    rintro (h1 | ⟨rfl, h1⟩) (h2 | ⟨rfl, h2⟩)
    · exact Or.inl (by omega)
    · exact Or.inl h1
    · exact Or.inl h2
    · exact Or.inr ⟨rfl, ih h1 h2⟩

/-- the complete result on the oddity instance -/
theorem find_oddCus : find oddCus =
    [{ indices := [0, 1, 2], cells := [3] }, { indices := [1, 2], cells := [] },
     { indices := [1, 2, 3], cells := [5] }] := by
  unfold find
  rw [oddCus_overlaps]
  unfold overlapsToIntersections
  rw [mergeSort_eq_isort _ (fun a b c => lexLE_trans a.indices b.indices c.indices)
    (fun a b => lexLE_total a.indices b.indices)]
  have hset : ([{ indices := [0, 1, 2], start := 3, «end» := 3 }, { indices := [1, 2], start := 5, «end» := 3 },
      { indices := [1, 2, 3], start := 5, «end» := 5 }] : List Overlap).foldl (fun s o => addOverlap o s) [] =
      [{ indices := [0, 1, 2], cells := [3] }, { indices := [1, 2], cells := [] },
       { indices := [1, 2, 3], cells := [5] }] := by decide
  simp only [hset, List.map_cons, List.map_nil]
  rw [normalize_fix [3] (by decide), normalize_nil,
    normalize_fix [5] (by decide)]
  decide

/-- The result list is ordered by index list (the model's determinization of Go's map order); with
    `find_shape` (distinct index lists) the order is strict, so the result is a canonical list. -/
theorem find_sorted (cus : List CU) :
    (find cus).Pairwise (fun a b => lexLE a.indices b.indices = true) := by
  unfold find overlapsToIntersections
  exact List.pairwise_mergeSort (fun a b c => lexLE_trans a.indices b.indices c.indices)
    (fun a b => lexLE_total a.indices b.indices) _

/-! ### a kernel-evaluable formula for `find` (used for concrete instances) -/

/-- the overlaps, with `mergeSort` replaced by the stable insertion sort and without the (identity)
    normalization of already normalized inputs -/
def overlapsEval (cus : List CU) : List Overlap :=
  intervalOverlaps (collapseSorted (isort limitLE
    (cus.zipIdx.map fun p => cellUnionToIntervalLimits p.1 p.2).flatten))

/-- the grouped overlaps before the final normalization and sort -/
def groupsEval (cus : List CU) : List Intersection :=
  (overlapsEval cus).foldl (fun s o => addOverlap o s) []

/-- If the inputs are normalized and the grouped tiles happen to be normalized already, `find` is
    `groupsEval` sorted by index list — an expression that `decide` can evaluate. -/
theorem find_eval (cus : List CU) (hn : ∀ cu ∈ cus, isNormalizedCU cu = true)
    (hc : ∀ e ∈ groupsEval cus, isNormalizedCU e.cells = true) :
    find cus = isort (fun a b => lexLE a.indices b.indices) (groupsEval cus) := by
  have hO : cellUnionsToOverlaps cus = overlapsEval cus := by
    rw [cellUnionsToOverlaps_eq, allLims_of_normalized cus hn]
    unfold collapseLimits overlapsEval
    rw [mergeSort_eq_isort limitLE limitLE_trans limitLE_total]
  unfold find overlapsToIntersections
  rw [hO, mergeSort_eq_isort _ (fun a b c => lexLE_trans a.indices b.indices c.indices)
    (fun a b => lexLE_total a.indices b.indices)]
  congr 1
  show (groupsEval cus).map _ = groupsEval cus
  conv_rhs => rw [← List.map_id (groupsEval cus)]
  apply List.map_congr_left
  intro e he
  show ({ e with cells := normalize e.cells } : Intersection) = e
  rw [normalize_fix e.cells (hc e he)]

/-- The example of the Go doc comment of `Find`, with leaf `k` of the picture = leaf id `2k+1`:
      0: |====|  ==|    |      1: |==  |   =|=== |      2: |====|====|  ==|
    X = {0,1,2} on leaves 0,1,7;  Y = {0,2} on leaves 2,3,6;  Z = {1,2} on leaf 10. -/
def docCus : List CU := [[4, 13, 15], [1, 3, 15, 17, 19, 21], [4, 12, 21, 23]]

theorem find_docCus : find docCus =
    [{ indices := [0, 1, 2], cells := [1, 3, 15] }, { indices := [0, 2], cells := [5, 7, 13] },
     { indices := [1, 2], cells := [21] }] := by
  rw [find_eval docCus (by decide) (by decide)]
  decide

/-- the oddity instance again, through `find_eval` -/
example : (∀ cu ∈ oddCus, isNormalizedCU cu = true) ∧
    (∀ e ∈ groupsEval oddCus, isNormalizedCU e.cells = true) ∧
    find oddCus = [{ indices := [0, 1, 2], cells := [3] }, { indices := [1, 2], cells := [] },
     { indices := [1, 2, 3], cells := [5] }] :=
  ⟨by decide, by decide, by rw [find_eval oddCus (by decide) (by decide)]; decide⟩

end S2Proofs.FindP
