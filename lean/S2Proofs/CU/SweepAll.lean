/-
  S2Proofs.CU.SweepAll — sweeping ALL ranges with a range iterator and ONE contents iterator
  (the canonical client loop, model `sweepIter`):

  * `sweepIter_plain_outs`, `sweepIter_nonEmpty_outs`  the reports of `sweepIter` are those of `sweep` on
        all positions / on the non-empty positions (any index);
  * `sweep_all_perm`, `sweepIter_all_perm`  (contract) all reports together are a permutation of the
        indexed pairs: every `(cell, label)` pair is reported exactly as often as it was added.
-/
import S2Proofs.CU.CellIndexMaximal
import S2Proofs.CU.RangeIter
open S2 S2.CellID S2.CellIndex
namespace S2Proofs.CIdx
open S2Proofs.RIter

/-! ### `sweepIter` in terms of `visited` and `sweep` -/

abbrev Obs3 := CellID × CellID × List Pair

def stepIt (st : ContentsIter × List Obs3) (r : RangeIter) : ContentsIter × List Obs3 :=
  ((st.1.visit r).1, (r.startID, r.limitID, (st.1.visit r).2) :: st.2)

theorem sweepIter_go_eq : ∀ (fuel : Nat) (r : RangeIter) (c : ContentsIter) (acc : List Obs3),
    sweepIter.go fuel r c acc = ((visited fuel r).foldl stepIt (c, acc)).2 := by
  intro fuel
  induction fuel with
  | zero => intro r c acc; rfl
  | succ f ih =>
    intro r c acc
    unfold sweepIter.go visited
    by_cases hd : r.done
    · simp [hd]
    · simp only [hd, Bool.false_eq_true, if_false, List.foldl_cons]
      rw [ih]
      rfl

theorem visit_congr (c : ContentsIter) (r r' : RangeIter) (h1 : r.startID = r'.startID)
    (h2 : r.contents = r'.contents) : c.visit r = c.visit r' := by
  unfold ContentsIter.visit ContentsIter.startUnion
  rw [h1, h2]

def stepSw (ix : Index) (st : ContentsIter × List (List Pair)) (p : Nat) : ContentsIter × List (List Pair) :=
  ((st.1.visit (rangeAt ix p)).1, (st.1.visit (rangeAt ix p)).2 :: st.2)

theorem sweep_eq_fold (ix : Index) (ps : List Nat) :
    sweep ix ps = (ps.foldl (stepSw ix) (ContentsIter.new ix, [])).2.reverse := rfl

theorem fold_it_sw (ix : Index) (r0 : RangeIter) (h0 : r0.rn = ix.ranges) : ∀ (ps : List Nat)
    (c : ContentsIter) (acc1 : List Obs3) (acc2 : List (List Pair)), acc1.map (·.2.2) = acc2 →
    ((ps.map fun (i : Nat) => { r0 with pos := (i : Int) }).foldl stepIt (c, acc1)).1 =
        (ps.foldl (stepSw ix) (c, acc2)).1 ∧
    ((ps.map fun (i : Nat) => { r0 with pos := (i : Int) }).foldl stepIt (c, acc1)).2.map (·.2.2) =
        (ps.foldl (stepSw ix) (c, acc2)).2 := by
  intro ps
  induction ps with
  | nil => intro c acc1 acc2 h; exact ⟨rfl, h⟩
  | cons p ps ih =>
    intro c acc1 acc2 h
    simp only [List.map_cons, List.foldl_cons]
    have hv : c.visit { r0 with pos := (p : Int) } = c.visit (rangeAt ix p) := by
      apply visit_congr
      · simp [RangeIter.startID, rangeAt, RangeIter.new, h0]
      · simp [RangeIter.contents, rangeAt, RangeIter.new, h0]
    have e1 : stepIt (c, acc1) { r0 with pos := (p : Int) } =
        ((c.visit (rangeAt ix p)).1, (({ r0 with pos := (p : Int) } : RangeIter).startID,
          ({ r0 with pos := (p : Int) } : RangeIter).limitID, (c.visit (rangeAt ix p)).2) :: acc1) := by
      simp only [stepIt, hv]
    rw [e1]
    exact ih _ _ _ (by simp [h])

/-- the plain loop visits the positions `q, q+1, …, size-2` -/
theorem visited_plain : ∀ (fuel : Nat) (c : RangeIter) (q : Nat), c.nonEmpty = false → c.pos = (q : Int) →
    c.rn.size - 1 - q ≤ fuel →
    visited fuel c = (List.range' q (c.rn.size - 1 - q)).map (fun (i : Nat) => { c with pos := (i : Int) }) := by
  intro fuel
  induction fuel with
  | zero =>
    intro c q _ _ hf
    have : c.rn.size - 1 - q = 0 := by omega
    simp [visited, this]
  | succ f ih =>
    intro c q hne hq hf
    unfold visited
    by_cases hd : c.rn.size - 1 - q = 0
    · have : c.done = true := by rw [done_iff]; omega
      simp [this, hd]
    · have hnd : c.done = false := by
        have : ¬ (c.done = true) := by rw [done_iff]; omega
        simpa using this
      simp only [hnd, Bool.false_eq_true, if_false]
      have e : c.rn.size - 1 - q = (c.rn.size - 1 - (q + 1)) + 1 := by omega
      rw [e, List.range'_succ, List.map_cons, next_plain c hne]
      have := ih { c with pos := c.pos + 1 } (q + 1) hne (by simp [hq]) (by simp; omega)
      simp only at this
      rw [this]
      congr 1
      cases c; simp_all

/-- plain range iterator + one contents iterator over all ranges = `sweep` on all positions -/
theorem sweepIter_plain_outs (ix : Index) :
    (sweepIter ix false).map (·.2.2) = sweep ix (List.range (ix.ranges.size - 1)) := by
  unfold sweepIter
  simp only [Bool.false_eq_true, if_false]
  rw [sweepIter_go_eq, begin_plain _ rfl,
    visited_plain _ _ 0 rfl rfl (by show ix.ranges.size - 1 - 0 ≤ ix.ranges.size; omega)]
  have hr : List.range' 0 (ix.ranges.size - 1) = List.range (ix.ranges.size - 1) := by
    rw [List.range_eq_range']
  simp only [RangeIter.new, Nat.sub_zero]
  rw [hr, List.map_reverse, sweep_eq_fold]
  congr 1
  exact (fold_it_sw ix ({ rn := ix.ranges, pos := 0, nonEmpty := false }) rfl _ _ [] [] rfl).2

/-- non-empty range iterator + one contents iterator = `sweep` on the non-empty positions -/
theorem sweepIter_nonEmpty_outs (ix : Index) (hsz : 1 ≤ ix.ranges.size) :
    (sweepIter ix true).map (·.2.2) = sweep ix (nePositions ix.ranges) := by
  unfold sweepIter
  simp only [if_true]
  rw [sweepIter_go_eq, visited_nonEmpty ix hsz, List.map_reverse, sweep_eq_fold]
  congr 1
  exact (fold_it_sw ix (RangeIter.newNonEmpty ix) rfl _ _ [] [] rfl).2

/-! ### everything is reported exactly once -/

/-- (contract) every indexed pair lies on the chain of some range; that range is non-empty -/
theorem cell_in_some_range (cells : List Pair) (h : CellsOK cells) (c : Pair) (hc : c ∈ cells) :
    ∃ p, p + 1 < (build cells).ranges.size ∧ (build cells).ranges[p]!.contents ≠ -1 ∧
      inCell (build cells).ranges[p]!.startID.toNat c = true := by
  obtain ⟨hsz, hfirst, hlast, _⟩ := build_ends cells h
  have hv := (h c hc).1
  have f := valid_facts hv
  have hhi := valid_hi_lt hv
  have hodd : (rangeMin c.1).toNat % 2 = 1 := f.1
  have hle : (rangeMin c.1).toNat ≤ (rangeMax c.1).toNat := by show lo c.1 ≤ hi c.1; omega
  obtain ⟨p, _, hp, ha, hb⟩ := seekPos_inside (build_sorted cells) (rangeMin c.1)
    (by rw [hfirst, UInt64.le_iff_toNat_le, firstLeaf_toNat]; omega)
    (by rw [hlast, UInt64.lt_iff_toNat_lt, endLeaf_toNat]; have : (rangeMax c.1).toNat < 6 * 2^61 := hhi; omega)
  rw [UInt64.le_iff_toNat_le] at ha
  rw [UInt64.lt_iff_toNat_lt] at hb
  have hch := build_chained cells h
  have hR := hch.get p (by rw [obsList_length]; omega)
  rw [obsList_get cells p (by omega), obsList_get cells (p+1) (by omega)] at hR
  have hs := build_start_odd cells h p (by omega)
  have hsl : (build cells).ranges[p]!.startID.toNat < (build cells).ranges[p+1]!.startID.toNat := by omega
  have h1 := hR (rangeMin c.1).toNat hodd ha hb
  have h2 := hR (build cells).ranges[p]!.startID.toNat hs (Nat.le_refl _) hsl
  simp only at h1 h2
  have hin : c ∈ pairsAt cells (rangeMin c.1).toNat := by
    rw [pairsAt_eq, List.mem_filter]
    exact ⟨hc, by simp [inCell, hle]⟩
  have hin2 : c ∈ pairsAt cells (build cells).ranges[p]!.startID.toNat :=
    h2.mem_iff.mp (h1.mem_iff.mpr hin)
  have hstk : c ∈ pairsOf (stk (build cells).tree (build cells).ranges[p]!.contents) := h1.mem_iff.mpr hin
  refine ⟨p, hp, ?_, ?_⟩
  · intro he
    rw [he, stk_neg _ _ (by omega)] at hstk
    simp [pairsOf] at hstk
  · rw [pairsAt_eq, List.mem_filter] at hin2
    exact hin2.2

theorem range_pairwise_le (n : Nat) : (List.range n).Pairwise (· ≤ ·) :=
  (List.pairwise_lt_range).imp (fun h => Nat.le_of_lt h)

/-- (contract) ONE contents iterator over ALL ranges in order: the reports together are a permutation of
    the indexed pairs -/
theorem sweep_all_perm (cells : List Pair) (h : CellsOK cells) :
    (sweep (build cells) (List.range ((build cells).ranges.size - 1))).flatten.Perm cells := by
  have hsorted := build_ranges_sorted cells
  have hlt : ∀ a, a + 1 < (build cells).ranges.size →
      (build cells).ranges[a]!.startID.toNat < (build cells).ranges[a+1]!.startID.toNat := by
    intro a ha
    have := (List.pairwise_iff_getElem.mp hsorted) a (a+1) (by simp [starts]; omega) (by simp [starts]; exact ha) (by omega)
    simp only [starts, List.getElem_map, Array.getElem_toList] at this
    rw [getElem!_pos _ a (by omega), getElem!_pos _ (a+1) ha]
    exact this
  have := sweep_increasing cells h (List.range ((build cells).ranges.size - 1))
    (fun p => (build cells).ranges[p]!.startID.toNat) (range_pairwise_le _)
    (by
      intro p hp
      rw [List.mem_range] at hp
      exact ⟨by omega, build_start_odd cells h p (by omega), Nat.le_refl _, hlt p (by omega)⟩)
  refine this.trans ?_
  rw [List.filter_eq_self.mpr]
  intro c hc
  obtain ⟨p, hp, _, hin⟩ := cell_in_some_range cells h c hc
  rw [List.any_eq_true]
  exact ⟨p, by rw [List.mem_range]; omega, hin⟩

/-- the same when only the non-empty ranges are visited -/
theorem sweep_nonEmpty_perm (cells : List Pair) (h : CellsOK cells) :
    (sweep (build cells) (nePositions (build cells).ranges)).flatten.Perm cells := by
  have hsorted := build_ranges_sorted cells
  have hlt : ∀ a, a + 1 < (build cells).ranges.size →
      (build cells).ranges[a]!.startID.toNat < (build cells).ranges[a+1]!.startID.toNat := by
    intro a ha
    have := (List.pairwise_iff_getElem.mp hsorted) a (a+1) (by simp [starts]; omega) (by simp [starts]; exact ha) (by omega)
    simp only [starts, List.getElem_map, Array.getElem_toList] at this
    rw [getElem!_pos _ a (by omega), getElem!_pos _ (a+1) ha]
    exact this
  have := sweep_increasing cells h (nePositions (build cells).ranges)
    (fun p => (build cells).ranges[p]!.startID.toNat) ((range_pairwise_le _).filter _)
    (by
      intro p hp
      have hp' := List.mem_range.mp (List.mem_of_mem_filter hp)
      exact ⟨by omega, build_start_odd cells h p (by omega), Nat.le_refl _, hlt p (by omega)⟩)
  refine this.trans ?_
  rw [List.filter_eq_self.mpr]
  intro c hc
  obtain ⟨p, hp, hne, hin⟩ := cell_in_some_range cells h c hc
  rw [List.any_eq_true]
  refine ⟨p, ?_, hin⟩
  unfold nePositions
  rw [List.mem_filter, List.mem_range]
  exact ⟨by omega, by simpa using hne⟩

/-- (contract) the canonical client loop (range iterator `Begin … Done`, plain or non-empty, with one
    contents iterator): every indexed `(cell, label)` pair is reported exactly as often as it was added -/
theorem sweepIter_all_perm (cells : List Pair) (h : CellsOK cells) (nonEmpty : Bool) :
    ((sweepIter (build cells) nonEmpty).map (·.2.2)).flatten.Perm cells := by
  cases nonEmpty with
  | false => rw [sweepIter_plain_outs]; exact sweep_all_perm cells h
  | true =>
    rw [sweepIter_nonEmpty_outs _ (by have := (build_ends cells h).1; omega)]
    exact sweep_nonEmpty_perm cells h

end S2Proofs.CIdx
