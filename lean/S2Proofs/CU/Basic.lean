/-
  S2Proofs.CU.Basic — leaf-set semantics of cell unions and the structural
  lemmas behind property C11 (normal form, binary search, set operations).
-/
import S2.CellUnion
import S2Proofs.CellIDLemmas
import S2Proofs.SiblingLemmas
open S2 S2.CellID S2.CellUnion
namespace S2Proofs

/-- first / last leaf id covered by a cell (as natural numbers) -/
abbrev lo (c : CellID) : Nat := (rangeMin c).toNat
abbrev hi (c : CellID) : Nat := (rangeMax c).toNat

/-! ### level-free facts about valid cells -/

theorem valid_facts {c : CellID} (h : isValid c = true) :
    lo c % 2 = 1 ∧ hi c % 2 = 1 ∧ lo c ≤ c.toNat ∧ c.toNat ≤ hi c ∧ lo c + hi c = 2 * c.toNat := by
  obtain ⟨k, hk⟩ := (isValid_iff c).mp h
  show (rangeMin c).toNat % 2 = 1 ∧ (rangeMax c).toNat % 2 = 1 ∧ (rangeMin c).toNat ≤ c.toNat ∧
    c.toNat ≤ (rangeMax c).toNat ∧ (rangeMin c).toNat + (rangeMax c).toNat = 2 * c.toNat
  rw [hk.rangeMin_eq, hk.rangeMax_eq]
  obtain ⟨hk30, hf, hlow⟩ := hk
  interval_cases k <;> cell_omega

/-- containment of valid cells is inclusion of leaf ranges -/
theorem IsCell.contains_range {x y : CellID} {k j : Nat} (hx : IsCell x k) (hy : IsCell y j) :
    contains x y = true ↔ lo x ≤ lo y ∧ hi y ≤ hi x := by
  show contains x y = true ↔ (rangeMin x).toNat ≤ (rangeMin y).toNat ∧ (rangeMax y).toNat ≤ (rangeMax x).toNat
  rw [contains_iff, hx.rangeMin_eq, hx.rangeMax_eq, hy.rangeMin_eq, hy.rangeMax_eq]
  by_cases hkj : k ≤ j
  · obtain ⟨hb, hne, hadd⟩ := hy.finer_facts k hkj
    obtain ⟨hk, hf, hlow⟩ := hx
    have hpos := Nat.two_pow_pos (60 - 2*j)
    interval_cases k <;> cell_omega
  · have hz := hy.coarser_facts k (by omega) hx.k_le
    have hpw : 2^(60 - 2*k) * 4 ≤ 2^(60 - 2*j) := by
      have : 2^(60 - 2*k + 2) ≤ 2^(60 - 2*j) := Nat.pow_le_pow_right (by omega) (by have := hx.k_le; omega)
      rw [Nat.pow_add] at this; simpa using this
    have hyb : 2^(60 - 2*j) ≤ y.toNat := by
      have := Nat.mod_le y.toNat (2^(61 - 2*j)); rw [hy.low] at this; exact this
    obtain ⟨hk, hf, hlow⟩ := hx
    interval_cases k <;> cell_omega

theorem contains_range {x y : CellID} (hx : isValid x = true) (hy : isValid y = true) :
    contains x y = true ↔ lo x ≤ lo y ∧ hi y ≤ hi x := by
  obtain ⟨k, hk⟩ := (isValid_iff x).mp hx
  obtain ⟨j, hj⟩ := (isValid_iff y).mp hy
  exact hk.contains_range hj

/-- two valid cells: nested or disjoint, in terms of ranges -/
theorem nested_or_disjoint {x y : CellID} (hx : isValid x = true) (hy : isValid y = true) :
    (lo x ≤ lo y ∧ hi y ≤ hi x) ∨ (lo y ≤ lo x ∧ hi x ≤ hi y) ∨ hi x < lo y ∨ hi y < lo x := by
  obtain ⟨k, hk⟩ := (isValid_iff x).mp hx
  obtain ⟨j, hj⟩ := (isValid_iff y).mp hy
  rcases hk.nested_or_disjoint hj with h | h | h | h
  · exact Or.inl ((hk.contains_range hj).mp h)
  · exact Or.inr (Or.inl ((hj.contains_range hk).mp h))
  · exact Or.inr (Or.inr (Or.inl h))
  · exact Or.inr (Or.inr (Or.inr h))

/-- a valid cell is determined by its leaf range -/
theorem eq_of_range_eq {x y : CellID} (hx : isValid x = true) (hy : isValid y = true)
    (h1 : lo x = lo y) (h2 : hi x = hi y) : x = y := by
  have fx := valid_facts hx
  have fy := valid_facts hy
  apply UInt64.toNat_inj.mp
  omega

end S2Proofs
