/-
  S2Proofs.CU.Denormalize — correctness of `childrenAtLevel` (the `ChildBeginAtLevel … Next …
  ChildEndAtLevel` loop), of `denormalize` (Go `CellUnion.Denormalize`) and the closed form of
  `leafCellsCovered`.
-/
import S2Proofs.CU.Search
import Mathlib.Tactic.Ring
import Mathlib.Tactic.Linarith
open S2 S2.CellID S2.CellUnion
namespace S2Proofs

/-! ### arithmetic of two levels `k ≤ lvl` -/

/-- `2^(60-2k) = 4^(lvl-k) · 2^(60-2·lvl)` and `2^(61-2·lvl) = 2 · 2^(60-2·lvl)` -/
theorem pow_split (k lvl : Nat) (hk : k ≤ lvl) (hl : lvl ≤ 30) :
    2^(60 - 2*k) = 4^(lvl - k) * 2^(60 - 2*lvl) ∧ 2^(61 - 2*lvl) = 2 * 2^(60 - 2*lvl) ∧
    2^(61 - 2*k) = 4^(lvl - k) * 2^(61 - 2*lvl) := by
  have e4 : (4:Nat)^(lvl - k) = 2^(2*(lvl - k)) := by
    rw [show (4:Nat) = 2^2 from rfl, ← Nat.pow_mul]
  refine ⟨?_, ?_, ?_⟩
  · rw [e4, ← Nat.pow_add]; congr 1; omega
  · rw [show 61 - 2*lvl = (60 - 2*lvl) + 1 by omega, Nat.pow_succ]; ring
  · rw [e4, ← Nat.pow_add]; congr 1; omega

theorem IsCell.add_lsb_le {x : CellID} {k : Nat} (h : IsCell x k) :
    2^(60 - 2*k) ≤ x.toNat ∧ x.toNat + 2^(60 - 2*k) ≤ 6 * 2^61 := by
  obtain ⟨hk, hf, hlow⟩ := h
  interval_cases k <;> cell_omega

/-- the `t`-th descendant of `id` at level `lvl`, as a word -/
def descAt (id : CellID) (lvl t : Nat) : CellID :=
  childBeginAtLevel id lvl + UInt64.ofNat t * (lsbForLevel lvl <<< 1)

theorem childrenAtLevel_eq (id : CellID) (lvl : Nat) :
    childrenAtLevel id lvl = (List.range (4 ^ (lvl - level id))).map (descAt id lvl) := rfl

theorem IsCell.descAt_toNat {id : CellID} {k lvl t : Nat} (h : IsCell id k) (hk : k ≤ lvl) (hl : lvl ≤ 30)
    (ht : t < 4^(lvl - k)) :
    (descAt id lvl t).toNat = id.toNat - 2^(60 - 2*k) + 2^(60 - 2*lvl) + t * 2^(61 - 2*lvl) := by
  obtain ⟨e1, e2, e3⟩ := pow_split k lvl hk hl
  obtain ⟨hge, hle⟩ := h.add_lsb_le
  have hlsb := h.lsb_eq
  have hx := id.toNat_lt
  have hLpos := Nat.two_pow_pos (60 - 2*lvl)
  have hL60 : 2^(60 - 2*lvl) ≤ 2^60 := Nat.pow_le_pow_right (by omega) (by omega)
  have hD : 4^(lvl - k) ≤ 4^30 := Nat.pow_le_pow_right (by omega) (by omega)
  have hstep : (lsbForLevel lvl <<< 1).toNat = 2^(61 - 2*lvl) := by
    rw [UInt64.toNat_shiftLeft, lsbForLevel_toNat lvl hl, one_toNat, Nat.shiftLeft_eq, e2]
    simp only [Nat.reduceMod, Nat.pow_one]
    rw [Nat.mod_eq_of_lt (by omega)]; ring
  have ht' : (UInt64.ofNat t).toNat = t := by
    rw [UInt64.toNat_ofNat']; exact Nat.mod_eq_of_lt (by norm_num at hD ⊢; omega)
  have hmul : (t + 1) * 2^(61 - 2*lvl) ≤ 4^(lvl - k) * 2^(61 - 2*lvl) :=
    Nat.mul_le_mul_right _ ht
  rw [Nat.add_mul, Nat.one_mul, ← e3] at hmul
  have hk61 : 2^(61 - 2*k) = 2 * 2^(60 - 2*k) := by
    rw [show 61 - 2*k = (60 - 2*k) + 1 by omega, Nat.pow_succ]; ring
  unfold descAt childBeginAtLevel
  rw [UInt64.toNat_add, UInt64.toNat_add, UInt64.toNat_sub, UInt64.toNat_mul, hlsb, hstep, ht',
    lsbForLevel_toNat lvl hl]
  generalize t * 2^(61 - 2*lvl) = X at *
  generalize 2^(61 - 2*lvl) = S at *
  generalize 2^(60 - 2*lvl) = L at *
  generalize 2^(60 - 2*k) = P at *
  generalize 2^(61 - 2*k) = P2 at *
  omega

theorem IsCell.descAt_isCell {id : CellID} {k lvl t : Nat} (h : IsCell id k) (hk : k ≤ lvl) (hl : lvl ≤ 30)
    (ht : t < 4^(lvl - k)) : IsCell (descAt id lvl t) lvl := by
  obtain ⟨e1, e2, e3⟩ := pow_split k lvl hk hl
  obtain ⟨hge, hle⟩ := h.add_lsb_le
  have hLpos := Nat.two_pow_pos (60 - 2*lvl)
  have hmul : (t + 1) * 2^(61 - 2*lvl) ≤ 4^(lvl - k) * 2^(61 - 2*lvl) :=
    Nat.mul_le_mul_right _ ht
  rw [Nat.add_mul, Nat.one_mul, ← e3] at hmul
  have hk61 : 2^(61 - 2*k) = 2 * 2^(60 - 2*k) := by
    rw [show 61 - 2*k = (60 - 2*k) + 1 by omega, Nat.pow_succ]; ring
  refine ⟨hl, ?_, ?_⟩ <;> rw [h.descAt_toNat hk hl ht]
  · generalize t * 2^(61 - 2*lvl) = X at *
    omega
  · -- id.toNat - P is a multiple of 2^(61-2k) = 4^d · S
    have hdm := Nat.div_add_mod id.toNat (2^(61 - 2*k))
    rw [h.low] at hdm
    have e : id.toNat - 2^(60 - 2*k) + 2^(60 - 2*lvl) + t * 2^(61 - 2*lvl)
        = 2^(60 - 2*lvl) + (4^(lvl - k) * (id.toNat / 2^(61 - 2*k)) + t) * 2^(61 - 2*lvl) := by
      have : (4^(lvl - k) * (id.toNat / 2^(61 - 2*k)) + t) * 2^(61 - 2*lvl)
          = 4^(lvl - k) * 2^(61 - 2*lvl) * (id.toNat / 2^(61 - 2*k)) + t * 2^(61 - 2*lvl) := by ring
      rw [this, ← e3]; omega
    rw [e, Nat.add_mul_mod_self_right]
    exact Nat.mod_eq_of_lt (by omega)

/-- leaf range of the `t`-th descendant -/
theorem IsCell.descAt_range {id : CellID} {k lvl t : Nat} (h : IsCell id k) (hk : k ≤ lvl) (hl : lvl ≤ 30)
    (ht : t < 4^(lvl - k)) :
    lo (descAt id lvl t) = lo id + t * 2^(61 - 2*lvl) ∧
    hi (descAt id lvl t) + 2 = lo id + (t + 1) * 2^(61 - 2*lvl) := by
  have hc := h.descAt_isCell hk hl ht
  obtain ⟨e1, e2, e3⟩ := pow_split k lvl hk hl
  obtain ⟨hge, hle⟩ := h.add_lsb_le
  have hLpos := Nat.two_pow_pos (60 - 2*lvl)
  show (rangeMin _).toNat = (rangeMin _).toNat + _ ∧ (rangeMax _).toNat + 2 = (rangeMin _).toNat + _
  rw [hc.rangeMin_eq, hc.rangeMax_eq, h.rangeMin_eq, h.descAt_toNat hk hl ht, Nat.add_mul, Nat.one_mul]
  generalize t * 2^(61 - 2*lvl) = X at *
  omega

/-- `hi id + 2 = lo id + 4^(lvl-k) · 2^(61-2·lvl)` -/
theorem IsCell.range_len {id : CellID} {k : Nat} (h : IsCell id k) :
    hi id + 2 = lo id + 2^(61 - 2*k) := by
  obtain ⟨hge, hle⟩ := h.add_lsb_le
  have hk := h.k_le
  have hk61 : 2^(61 - 2*k) = 2 * 2^(60 - 2*k) := by
    rw [show 61 - 2*k = (60 - 2*k) + 1 by omega, Nat.pow_succ]; ring
  have hpos := Nat.two_pow_pos (60 - 2*k)
  show (rangeMax _).toNat + 2 = (rangeMin _).toNat + _
  rw [h.rangeMin_eq, h.rangeMax_eq]
  omega

/-! ### `childrenAtLevel` -/

/-- GOAL 1.  For a level-`k` cell `id` and `k ≤ lvl ≤ 30`, `childrenAtLevel id lvl` consists of level-`lvl`
    cells only, and its leaves are exactly the leaves of `id`. -/
theorem IsCell.childrenAtLevel_spec {id : CellID} {k lvl : Nat} (h : IsCell id k) (hk : k ≤ lvl) (hl : lvl ≤ 30) :
    (∀ c ∈ childrenAtLevel id lvl, IsCell c lvl) ∧
    (∀ n, n % 2 = 1 → (Covers (childrenAtLevel id lvl) n ↔ lo id ≤ n ∧ n ≤ hi id)) := by
  obtain ⟨e1, e2, e3⟩ := pow_split k lvl hk hl
  have hlen := h.range_len
  have hLpos := Nat.two_pow_pos (60 - 2*lvl)
  rw [childrenAtLevel_eq, h.level_eq]
  constructor
  · intro c hc
    obtain ⟨t, ht, rfl⟩ := List.mem_map.mp hc
    exact h.descAt_isCell hk hl (List.mem_range.mp ht)
  · intro n hn
    unfold Covers
    constructor
    · rintro ⟨c, hc, h1, h2⟩
      obtain ⟨t, ht, rfl⟩ := List.mem_map.mp hc
      have ht := List.mem_range.mp ht
      obtain ⟨r1, r2⟩ := h.descAt_range hk hl ht
      have hmul : (t + 1) * 2^(61 - 2*lvl) ≤ 4^(lvl - k) * 2^(61 - 2*lvl) :=
        Nat.mul_le_mul_right _ ht
      rw [← e3] at hmul
      have : t * 2^(61 - 2*lvl) ≤ (t + 1) * 2^(61 - 2*lvl) := Nat.mul_le_mul_right _ (by omega)
      omega
    · rintro ⟨h1, h2⟩
      have hSpos : 0 < 2^(61 - 2*lvl) := Nat.two_pow_pos _
      have ht : (n - lo id) / 2^(61 - 2*lvl) < 4^(lvl - k) := by
        rw [Nat.div_lt_iff_lt_mul hSpos, ← e3]; omega
      obtain ⟨r1, r2⟩ := h.descAt_range hk hl ht
      refine ⟨_, List.mem_map.mpr ⟨_, List.mem_range.mpr ht, rfl⟩, ?_, ?_⟩
      · rw [r1]
        have := Nat.div_mul_le_self (n - lo id) (2^(61 - 2*lvl))
        omega
      · have hlt : n - lo id < ((n - lo id) / 2^(61 - 2*lvl) + 1) * 2^(61 - 2*lvl) := by
          have := Nat.lt_succ_iff.mpr (Nat.le_refl ((n - lo id) / 2^(61 - 2*lvl)))
          rw [← Nat.div_lt_iff_lt_mul hSpos]; omega
        have hev : ((n - lo id) / 2^(61 - 2*lvl) + 1) * 2^(61 - 2*lvl)
            = 2 * (((n - lo id) / 2^(61 - 2*lvl) + 1) * 2^(60 - 2*lvl)) := by rw [e2]; ring
        have hlo := (valid_facts h.valid).1
        generalize ((n - lo id) / 2^(61 - 2*lvl) + 1) * 2^(61 - 2*lvl) = Y at *
        omega

/-! ### `denormalize` -/

theorem covers_flatMap (l : CU) (f : CellID → CU) (n : Nat) :
    Covers (l.flatMap f) n ↔ ∃ c ∈ l, Covers (f c) n := by
  unfold Covers
  constructor
  · rintro ⟨x, hx, h⟩
    obtain ⟨c, hc, hxc⟩ := List.mem_flatMap.mp hx
    exact ⟨c, hc, x, hxc, h⟩
  · rintro ⟨c, hc, x, hxc, h⟩
    exact ⟨x, List.mem_flatMap.mpr ⟨c, hc, hxc⟩, h⟩

/-- the level at which `Denormalize` re-expresses a cell of level `lvl` (Go: `newLevel`) -/
def denormLevel (lvl minLevel levelMod : Nat) : Nat :=
  let newLevel := if lvl < minLevel then minLevel else lvl
  if levelMod > 1 then
    let nl := newLevel + (maxLevel - (newLevel - minLevel)) % levelMod
    if nl > maxLevel then maxLevel else nl
  else newLevel

/-- the pieces by which `Denormalize` replaces one cell -/
def denormPieces (minLevel levelMod : Nat) (id : CellID) : CU :=
  if denormLevel (level id) minLevel levelMod == level id then [id]
  else childrenAtLevel id (denormLevel (level id) minLevel levelMod)

theorem denormalize_eq (cu : CU) (minLevel levelMod : Nat) :
    denormalize cu minLevel levelMod = cu.flatMap (denormPieces minLevel levelMod) := rfl

/-- Arithmetic of `newLevel` under the Go contract (`minLevel ≤ 30`, `1 ≤ levelMod ≤ 3`):
    it is the least level `≥ max lvl minLevel` with `(level - minLevel) % levelMod = 0`, capped at 30. -/
theorem denormLevel_facts (lvl minLevel levelMod : Nat) (hl : lvl ≤ 30) (hmin : minLevel ≤ 30)
    (hmod : 1 ≤ levelMod ∧ levelMod ≤ 3) :
    lvl ≤ denormLevel lvl minLevel levelMod ∧ minLevel ≤ denormLevel lvl minLevel levelMod ∧
    denormLevel lvl minLevel levelMod ≤ 30 ∧
    ((denormLevel lvl minLevel levelMod - minLevel) % levelMod = 0 ∨ denormLevel lvl minLevel levelMod = 30) ∧
    (∀ j, lvl ≤ j → minLevel ≤ j → ((j - minLevel) % levelMod = 0 ∨ j = 30) →
      denormLevel lvl minLevel levelMod ≤ j) := by
  unfold denormLevel
  simp only [maxLevel]
  obtain ⟨h1, h3⟩ := hmod
  have : levelMod = 1 ∨ levelMod = 2 ∨ levelMod = 3 := by omega
  rcases this with rfl | rfl | rfl
  · simp only [Nat.lt_irrefl, gt_iff_lt, ↓reduceIte, Nat.mod_one]
    split <;> (refine ⟨?_, ?_, ?_, ?_, ?_⟩ <;> first | omega | exact Or.inl trivial)
  · simp only [gt_iff_lt, show 1 < 2 by omega, ↓reduceIte]
    split <;> split <;> (refine ⟨?_, ?_, ?_, ?_, ?_⟩ <;> omega)
  · simp only [gt_iff_lt, show 1 < 3 by omega, ↓reduceIte]
    split <;> split <;> (refine ⟨?_, ?_, ?_, ?_, ?_⟩ <;> omega)

/-- one cell: its pieces are cells of level `denormLevel`, with the same leaves -/
theorem IsCell.denormPieces_spec {id : CellID} {k : Nat} (h : IsCell id k) (minLevel levelMod : Nat)
    (hmin : minLevel ≤ 30) (hmod : 1 ≤ levelMod ∧ levelMod ≤ 3) :
    (∀ c ∈ denormPieces minLevel levelMod id, IsCell c (denormLevel k minLevel levelMod)) ∧
    (∀ n, n % 2 = 1 → (Covers (denormPieces minLevel levelMod id) n ↔ lo id ≤ n ∧ n ≤ hi id)) := by
  obtain ⟨f1, f2, f3, f4, _⟩ := denormLevel_facts k minLevel levelMod h.k_le hmin hmod
  unfold denormPieces
  rw [h.level_eq]
  by_cases he : denormLevel k minLevel levelMod = k
  · rw [he]
    simp only [beq_self_eq_true, ↓reduceIte, List.mem_singleton]
    refine ⟨fun c hc => hc ▸ h, fun n _ => ?_⟩
    rw [covers_cons]
    have := covers_nil n
    tauto
  · have : (denormLevel k minLevel levelMod == k) = false := by simpa using he
    rw [this]
    simp only [Bool.false_eq_true, ↓reduceIte]
    exact h.childrenAtLevel_spec f1 f3

/-- GOAL 2.  `Denormalize(minLevel, levelMod)` under its contract `minLevel ≤ MaxLevel`, `1 ≤ levelMod ≤ 3`:
    the result consists of valid cells, covers exactly the same leaves, and every resulting cell has
    level `≥ minLevel` with `(level - minLevel)` a multiple of `levelMod`, except that cells may be
    stopped at the maximum level 30 (the "until … the maximum level is reached" clause of the Go doc). -/
theorem denormalize_spec (cu : CU) (minLevel levelMod : Nat) (hv : AllValid cu) (hmin : minLevel ≤ 30)
    (hmod : 1 ≤ levelMod ∧ levelMod ≤ 3) :
    AllValid (denormalize cu minLevel levelMod) ∧
    (∀ n, n % 2 = 1 → (Covers (denormalize cu minLevel levelMod) n ↔ Covers cu n)) ∧
    (∀ c ∈ denormalize cu minLevel levelMod,
      minLevel ≤ level c ∧ ((level c - minLevel) % levelMod = 0 ∨ level c = 30)) := by
  rw [denormalize_eq]
  refine ⟨?_, ?_, ?_⟩
  · intro c hc
    obtain ⟨id, hid, hc⟩ := List.mem_flatMap.mp hc
    obtain ⟨k, hk⟩ := (isValid_iff id).mp (hv id hid)
    exact ((hk.denormPieces_spec minLevel levelMod hmin hmod).1 c hc).valid
  · intro n hn
    rw [covers_flatMap]
    constructor
    · rintro ⟨id, hid, h⟩
      obtain ⟨k, hk⟩ := (isValid_iff id).mp (hv id hid)
      exact ⟨id, hid, ((hk.denormPieces_spec minLevel levelMod hmin hmod).2 n hn).mp h⟩
    · rintro ⟨id, hid, h⟩
      obtain ⟨k, hk⟩ := (isValid_iff id).mp (hv id hid)
      exact ⟨id, hid, ((hk.denormPieces_spec minLevel levelMod hmin hmod).2 n hn).mpr h⟩
  · intro c hc
    obtain ⟨id, hid, hc⟩ := List.mem_flatMap.mp hc
    obtain ⟨k, hk⟩ := (isValid_iff id).mp (hv id hid)
    have hcell := (hk.denormPieces_spec minLevel levelMod hmin hmod).1 c hc
    obtain ⟨f1, f2, f3, f4, _⟩ := denormLevel_facts k minLevel levelMod hk.k_le hmin hmod
    rw [hcell.level_eq]
    exact ⟨f2, f4⟩

/-- provenance of every output cell: it is a descendant, at level `denormLevel`, of an input cell
    (and by `denormLevel_facts` that level is the least admissible one) -/
theorem denormalize_mem (cu : CU) (minLevel levelMod : Nat) (hv : AllValid cu) (hmin : minLevel ≤ 30)
    (hmod : 1 ≤ levelMod ∧ levelMod ≤ 3) :
    ∀ c ∈ denormalize cu minLevel levelMod, ∃ id ∈ cu,
      level c = denormLevel (level id) minLevel levelMod ∧ lo id ≤ lo c ∧ hi c ≤ hi id := by
  intro c hc
  rw [denormalize_eq] at hc
  obtain ⟨id, hid, hc⟩ := List.mem_flatMap.mp hc
  obtain ⟨k, hk⟩ := (isValid_iff id).mp (hv id hid)
  obtain ⟨s1, s2⟩ := hk.denormPieces_spec minLevel levelMod hmin hmod
  have hcell := s1 c hc
  have fc := valid_facts hcell.valid
  refine ⟨id, hid, by rw [hcell.level_eq, hk.level_eq], ?_, ?_⟩
  · exact ((s2 (lo c) fc.1).mp ⟨c, hc, Nat.le_refl _, by omega⟩).1
  · exact ((s2 (hi c) fc.2.1).mp ⟨c, hc, by omega, Nat.le_refl _⟩).2

/-! ### `leafCellsCovered` -/

theorem foldl_add_eq_sum {α} (g : α → Nat) : ∀ (l : List α) (a : Nat),
    l.foldl (fun n c => n + g c) a = a + (l.map g).sum := by
  intro l
  induction l with
  | nil => intro a; simp
  | cons x xs ih => intro a; rw [List.foldl_cons, ih, List.map_cons, List.sum_cons]; omega

/-- number of leaves (odd positions) of one cell -/
theorem IsCell.leaf_count {c : CellID} {k : Nat} (h : IsCell c k) :
    1 <<< ((maxLevel - level c) <<< 1) = (hi c - lo c) / 2 + 1 ∧ (hi c - lo c) / 2 + 1 = 4^(30 - k) := by
  have hlen := h.range_len
  have hk := h.k_le
  obtain ⟨e1, e2, e3⟩ := pow_split k 30 hk (Nat.le_refl _)
  have e4 : (1:Nat) <<< ((maxLevel - level c) <<< 1) = 4^(30 - k) := by
    rw [h.level_eq, Nat.shiftLeft_eq, Nat.shiftLeft_eq, Nat.one_mul, Nat.pow_one, Nat.mul_comm, Nat.pow_mul]
    rfl
  rw [e4]
  have : (hi c - lo c) / 2 + 1 = 4^(30 - k) := by
    have z1 : 2^(61 - 2*30) = 2 := rfl
    rw [z1] at e3
    have hpos : 0 < 4^(30 - k) := Nat.pow_pos (by omega)
    omega
  exact ⟨this.symm, this⟩

/-- GOAL 3.  `LeafCellsCovered` is the sum over the cells of the number of odd positions in their range. -/
theorem leafCellsCovered_eq_sum (cu : CU) (hv : AllValid cu) :
    leafCellsCovered cu = (cu.map fun c => (hi c - lo c) / 2 + 1).sum := by
  unfold leafCellsCovered
  rw [foldl_add_eq_sum, Nat.zero_add]
  congr 1
  apply List.map_congr_left
  intro c hc
  obtain ⟨k, hk⟩ := (isValid_iff c).mp (hv c hc)
  exact hk.leaf_count.1

/-- number of odd positions in `[a, b]` for odd `a ≤ b` -/
theorem odd_count (a b : Nat) (ha : a % 2 = 1) (hb : b % 2 = 1) (h : a ≤ b) :
    ((List.range (b + 1)).filter (fun n => decide (a ≤ n ∧ n % 2 = 1))).length = (b - a) / 2 + 1 := by
  have key : ∀ m, ((List.range (a + 2*m + 1)).filter (fun n => decide (a ≤ n ∧ n % 2 = 1))).length = m + 1 := by
    intro m
    induction m with
    | zero =>
      rw [Nat.mul_zero, Nat.add_zero, List.range_succ, List.filter_append]
      have : (List.range a).filter (fun n => decide (a ≤ n ∧ n % 2 = 1)) = [] := by
        rw [List.filter_eq_nil_iff]
        intro x hx
        have := List.mem_range.mp hx
        simp; omega
      rw [this]
      simp [ha]
    | succ m ih =>
      rw [show a + 2*(m+1) + 1 = (a + 2*m + 1) + 1 + 1 by omega, List.range_succ, List.range_succ,
        List.filter_append, List.filter_append, List.length_append, List.length_append, ih]
      have h1 : ¬ (a ≤ a + 2*m + 1 ∧ (a + 2*m + 1) % 2 = 1) := by omega
      have h2 : (a ≤ a + 2*m + 1 + 1 ∧ (a + 2*m + 1 + 1) % 2 = 1) := by omega
      simp [h1, h2]
  have := key ((b - a) / 2)
  rw [show a + 2 * ((b - a) / 2) + 1 = b + 1 by omega] at this
  exact this

/-! ### order: `denormalize` maps valid (sorted, disjoint) unions to valid unions -/

theorem IsCell.childrenAtLevel_sorted {id : CellID} {k lvl : Nat} (h : IsCell id k) (hk : k ≤ lvl) (hl : lvl ≤ 30) :
    Sorted (childrenAtLevel id lvl) := by
  rw [childrenAtLevel_eq, h.level_eq]
  unfold Sorted
  rw [List.pairwise_map]
  refine List.Pairwise.imp_of_mem ?_ (List.pairwise_lt_range (n := 4^(lvl - k)))
  intro t t' ht ht' hlt
  obtain ⟨_, r2⟩ := h.descAt_range hk hl (List.mem_range.mp ht)
  obtain ⟨r1', _⟩ := h.descAt_range hk hl (List.mem_range.mp ht')
  have : (t + 1) * 2^(61 - 2*lvl) ≤ t' * 2^(61 - 2*lvl) := Nat.mul_le_mul_right _ hlt
  omega

theorem sorted_flatMap (f : CellID → CU) : ∀ (l : CU), Sorted l → (∀ c ∈ l, Sorted (f c)) →
    (∀ c ∈ l, ∀ x ∈ f c, lo c ≤ lo x ∧ hi x ≤ hi c) → Sorted (l.flatMap f) := by
  intro l
  induction l with
  | nil => intro _ _ _; simp [Sorted]
  | cons a rest ih =>
    intro hs h1 h2
    have hs' := List.pairwise_cons.mp hs
    rw [List.flatMap_cons]
    unfold Sorted
    rw [List.pairwise_append]
    refine ⟨h1 a (List.mem_cons_self ..), ?_, ?_⟩
    · exact ih hs'.2 (fun c hc => h1 c (List.mem_cons_of_mem _ hc)) (fun c hc => h2 c (List.mem_cons_of_mem _ hc))
    · intro x hx y hy
      obtain ⟨c, hc, hy⟩ := List.mem_flatMap.mp hy
      have a1 := h2 a (List.mem_cons_self ..) x hx
      have a2 := h2 c (List.mem_cons_of_mem _ hc) y hy
      have a3 : hi a < lo c := hs'.1 c hc
      omega

theorem IsCell.denormPieces_sorted {id : CellID} {k : Nat} (h : IsCell id k) (minLevel levelMod : Nat)
    (hmin : minLevel ≤ 30) (hmod : 1 ≤ levelMod ∧ levelMod ≤ 3) :
    Sorted (denormPieces minLevel levelMod id) := by
  obtain ⟨f1, f2, f3, f4, _⟩ := denormLevel_facts k minLevel levelMod h.k_le hmin hmod
  unfold denormPieces
  rw [h.level_eq]
  split
  · simp [Sorted]
  · exact h.childrenAtLevel_sorted f1 f3

/-- `Denormalize` keeps a valid union valid (increasing, pairwise disjoint leaf ranges). -/
theorem denormalize_sorted (cu : CU) (minLevel levelMod : Nat) (hv : AllValid cu) (hs : Sorted cu)
    (hmin : minLevel ≤ 30) (hmod : 1 ≤ levelMod ∧ levelMod ≤ 3) :
    Sorted (denormalize cu minLevel levelMod) := by
  rw [denormalize_eq]
  apply sorted_flatMap _ _ hs
  · intro c hc
    obtain ⟨k, hk⟩ := (isValid_iff c).mp (hv c hc)
    exact hk.denormPieces_sorted minLevel levelMod hmin hmod
  · intro c hc x hx
    obtain ⟨k, hk⟩ := (isValid_iff c).mp (hv c hc)
    obtain ⟨s1, s2⟩ := hk.denormPieces_spec minLevel levelMod hmin hmod
    have fx := valid_facts (s1 x hx).valid
    exact ⟨((s2 (lo x) fx.1).mp ⟨x, hx, Nat.le_refl _, by omega⟩).1,
      ((s2 (hi x) fx.2.1).mp ⟨x, hx, by omega, Nat.le_refl _⟩).2⟩

theorem denormalize_isValidCU (cu : CU) (minLevel levelMod : Nat) (h : isValidCU cu = true)
    (hmin : minLevel ≤ 30) (hmod : 1 ≤ levelMod ∧ levelMod ≤ 3) :
    isValidCU (denormalize cu minLevel levelMod) = true := by
  obtain ⟨hv, hs⟩ := (isValidCU_iff cu).mp h
  exact (isValidCU_iff _).mpr ⟨(denormalize_spec cu minLevel levelMod hv hmin hmod).1,
    denormalize_sorted cu minLevel levelMod hv hs hmin hmod⟩

/-! ### `leafCellsCovered` counts the covered leaves -/

theorem countP_or_disjoint {α} (p q : α → Bool) : ∀ (l : List α), (∀ x ∈ l, ¬ (p x = true ∧ q x = true)) →
    l.countP (fun x => p x || q x) = l.countP p + l.countP q := by
  intro l
  induction l with
  | nil => intro _; simp
  | cons a rest ih =>
    intro h
    have h0 := h a (List.mem_cons_self ..)
    rw [List.countP_cons, List.countP_cons, List.countP_cons, ih (fun x hx => h x (List.mem_cons_of_mem _ hx))]
    cases hp : p a <;> cases hq : q a <;> simp_all <;> omega

/-- number of odd positions of `[a, b]` below any bound `N > b` -/
theorem odd_count_lt (a b N : Nat) (ha : a % 2 = 1) (hb : b % 2 = 1) (h : a ≤ b) (hN : b < N) :
    (List.range N).countP (fun n => decide (n % 2 = 1) && (decide (a ≤ n) && decide (n ≤ b))) = (b - a) / 2 + 1 := by
  obtain ⟨m, rfl⟩ : ∃ m, N = (b + 1) + m := ⟨N - (b + 1), by omega⟩
  rw [List.range_add, List.countP_append, ← odd_count a b ha hb h, List.countP_eq_length_filter,
    List.countP_eq_length_filter]
  have e1 : ((List.range m).map (b + 1 + ·)).filter
      (fun n => decide (n % 2 = 1) && (decide (a ≤ n) && decide (n ≤ b))) = [] := by
    rw [List.filter_eq_nil_iff]
    intro x hx
    obtain ⟨y, _, rfl⟩ := List.mem_map.mp hx
    simp; omega
  rw [e1, List.length_nil, Nat.add_zero]
  congr 1
  apply List.filter_congr
  intro x hx
  have := List.mem_range.mp hx
  by_cases h1 : a ≤ x <;> by_cases h2 : x % 2 = 1 <;> simp [h1, h2]
  all_goals omega

/-- `LeafCellsCovered` of a valid union (valid ids, increasing, pairwise disjoint) is the number of leaf
    positions (odd `n`) that the union covers. -/
theorem leafCellsCovered_eq_count : ∀ (cu : CU), AllValid cu → Sorted cu → ∀ (N : Nat), (∀ c ∈ cu, hi c < N) →
    leafCellsCovered cu = (List.range N).countP (fun n => decide (n % 2 = 1) && coversLeaf cu n) := by
  intro cu
  induction cu with
  | nil => intro _ _ N _; simp [leafCellsCovered, coversLeaf]
  | cons c rest ih =>
    intro hv hs N hN
    have hv' : AllValid rest := fun x hx => hv x (List.mem_cons_of_mem _ hx)
    have hs' := List.pairwise_cons.mp hs
    have fc := valid_facts (hv c (List.mem_cons_self ..))
    have e : (fun n => decide (n % 2 = 1) && coversLeaf (c :: rest) n)
        = (fun n => (decide (n % 2 = 1) && (decide (lo c ≤ n) && decide (n ≤ hi c))) ||
            (decide (n % 2 = 1) && coversLeaf rest n)) := by
      funext n
      unfold coversLeaf
      rw [List.any_cons, Bool.and_or_distrib_left]
    rw [e, countP_or_disjoint, ← ih hv' hs'.2 N (fun x hx => hN x (List.mem_cons_of_mem _ hx)),
      odd_count_lt (lo c) (hi c) N fc.1 fc.2.1 (by omega) (hN c (List.mem_cons_self ..)),
      leafCellsCovered_eq_sum _ hv, leafCellsCovered_eq_sum _ hv', List.map_cons, List.sum_cons]
    intro n _ ⟨h1, h2⟩
    simp only [Bool.and_eq_true, decide_eq_true_eq] at h1 h2
    obtain ⟨x, hx, hx1, hx2⟩ := (coversLeaf_iff rest n).mp h2.2
    have : hi c < lo x := hs'.1 x hx
    omega

/-- all leaf positions lie below `6 · 2^61` -/
theorem leafCellsCovered_eq_count' (cu : CU) (hv : AllValid cu) (hs : Sorted cu) :
    leafCellsCovered cu = (List.range (6 * 2^61)).countP (fun n => decide (n % 2 = 1) && coversLeaf cu n) := by
  apply leafCellsCovered_eq_count cu hv hs
  intro c hc
  obtain ⟨k, hk⟩ := (isValid_iff c).mp (hv c hc)
  obtain ⟨hge, hle⟩ := hk.add_lsb_le
  have hpos := Nat.two_pow_pos (60 - 2*k)
  show (rangeMax c).toNat < _
  rw [hk.rangeMax_eq]; omega

/-- `Denormalize` does not change `LeafCellsCovered` of a valid union. -/
theorem leafCellsCovered_denormalize (cu : CU) (minLevel levelMod : Nat) (hv : AllValid cu) (hs : Sorted cu)
    (hmin : minLevel ≤ 30) (hmod : 1 ≤ levelMod ∧ levelMod ≤ 3) :
    leafCellsCovered (denormalize cu minLevel levelMod) = leafCellsCovered cu := by
  obtain ⟨dv, dc, _⟩ := denormalize_spec cu minLevel levelMod hv hmin hmod
  rw [leafCellsCovered_eq_count' cu hv hs,
    leafCellsCovered_eq_count' _ dv (denormalize_sorted cu minLevel levelMod hv hs hmin hmod)]
  apply List.countP_congr
  intro n _
  by_cases hn : n % 2 = 1
  · have := (coversLeaf_eq_iff (denormalize cu minLevel levelMod) cu n).mpr (dc n hn)
    simp [hn, this]
  · simp [hn]

/-! ### non-vacuity -/

-- face 0 (level 0) with minLevel 1: replaced by its four children
example : denormalize [0x1000000000000000] 1 1 =
    [0x0400000000000000, 0x0c00000000000000, 0x1400000000000000, 0x1c00000000000000] := by decide
-- levelMod 2, minLevel 0: a level-1 cell goes to level 2 (4 cells), a face cell stays
example : denormalize [0x0400000000000000, 0x3000000000000000] 0 2 =
    [0x0100000000000000, 0x0300000000000000, 0x0500000000000000, 0x0700000000000000, 0x3000000000000000] ∧
    level (0x0100000000000000 : CellID) = 2 := by decide
-- the `level = 30` escape clause is needed: minLevel 29, levelMod 3, a leaf cell stays at level 30
example : denormalize [0x1000000000000001] 29 3 = [0x1000000000000001] ∧
    level (0x1000000000000001 : CellID) = 30 ∧ (30 - 29) % 3 ≠ 0 ∧ isValid (0x1000000000000001 : CellID) = true := by
  decide
example : leafCellsCovered [0x0400000000000000, 0x3000000000000000] = 4^29 + 4^30 := by decide


/-! ### fidelity of the list model to the Go loop `for ci := begin; ci != end; ci = ci.Next()` -/

theorem descAt_zero (id : CellID) (lvl : Nat) : descAt id lvl 0 = childBeginAtLevel id lvl := by
  unfold descAt
  rw [show UInt64.ofNat 0 = 0 from rfl, UInt64.zero_mul, UInt64.add_zero]

theorem IsCell.descAt_succ {id : CellID} {k lvl t : Nat} (h : IsCell id k) (hk : k ≤ lvl) (hl : lvl ≤ 30)
    (ht : t < 4^(lvl - k)) : descAt id lvl (t + 1) = next (descAt id lvl t) := by
  have hc := h.descAt_isCell hk hl ht
  have hlsb : lsb (descAt id lvl t) = lsbForLevel lvl := by
    apply UInt64.toNat_inj.mp
    rw [hc.lsb_eq, lsbForLevel_toNat lvl hl]
  unfold next
  rw [hlsb]
  unfold descAt
  rw [UInt64.ofNat_add, show UInt64.ofNat 1 = 1 from rfl, UInt64.add_mul, UInt64.one_mul, UInt64.add_assoc]

theorem IsCell.descAt_end {id : CellID} {k lvl : Nat} (h : IsCell id k) (hk : k ≤ lvl) (hl : lvl ≤ 30) :
    (childEndAtLevel id lvl).toNat = id.toNat + 2^(60 - 2*k) + 2^(60 - 2*lvl) ∧
    ∀ t, t < 4^(lvl - k) → descAt id lvl t ≠ childEndAtLevel id lvl := by
  obtain ⟨e1, e2, e3⟩ := pow_split k lvl hk hl
  obtain ⟨hge, hle⟩ := h.add_lsb_le
  have hL60 : 2^(60 - 2*lvl) ≤ 2^60 := Nat.pow_le_pow_right (by omega) (by omega)
  have hLpos := Nat.two_pow_pos (60 - 2*lvl)
  have hk61 : 2^(61 - 2*k) = 2 * 2^(60 - 2*k) := by
    rw [show 61 - 2*k = (60 - 2*k) + 1 by omega, Nat.pow_succ]; ring
  have hend : (childEndAtLevel id lvl).toNat = id.toNat + 2^(60 - 2*k) + 2^(60 - 2*lvl) := by
    unfold childEndAtLevel
    rw [UInt64.toNat_add, UInt64.toNat_add, h.lsb_eq, lsbForLevel_toNat lvl hl]
    omega
  refine ⟨hend, ?_⟩
  intro t ht heq
  have := congrArg UInt64.toNat heq
  rw [h.descAt_toNat hk hl ht, hend] at this
  have hmul : (t + 1) * 2^(61 - 2*lvl) ≤ 4^(lvl - k) * 2^(61 - 2*lvl) :=
    Nat.mul_le_mul_right _ ht
  rw [Nat.add_mul, Nat.one_mul, ← e3] at hmul
  generalize t * 2^(61 - 2*lvl) = X at *
  omega

/-- after the last cell the Go loop reaches `ChildEndAtLevel` and stops -/
theorem IsCell.descAt_last {id : CellID} {k lvl : Nat} (h : IsCell id k) (hk : k ≤ lvl) (hl : lvl ≤ 30) :
    next (descAt id lvl (4^(lvl - k) - 1)) = childEndAtLevel id lvl := by
  obtain ⟨e1, e2, e3⟩ := pow_split k lvl hk hl
  obtain ⟨hge, hle⟩ := h.add_lsb_le
  have hpos : 0 < 4^(lvl - k) := Nat.pow_pos (by omega)
  have ht : 4^(lvl - k) - 1 < 4^(lvl - k) := by omega
  have hL60 : 2^(60 - 2*lvl) ≤ 2^60 := Nat.pow_le_pow_right (by omega) (by omega)
  have hSpos := Nat.two_pow_pos (61 - 2*lvl)
  have hk61 : 2^(61 - 2*k) = 2 * 2^(60 - 2*k) := by
    rw [show 61 - 2*k = (60 - 2*k) + 1 by omega, Nat.pow_succ]; ring
  have hle' : 1 * 2^(61 - 2*lvl) ≤ 4^(lvl - k) * 2^(61 - 2*lvl) := Nat.mul_le_mul_right _ hpos
  apply UInt64.toNat_inj.mp
  rw [(h.descAt_isCell hk hl ht).next_toNat, (h.descAt_end hk hl).1, h.descAt_toNat hk hl ht, Nat.sub_mul]
  rw [Nat.one_mul, ← e3] at *
  omega

end S2Proofs
