/-
  S2Proofs.CU.Normalize — correctness of `normalize` (sort, containment pruning, cascading
  sibling collapse): leaf set preserved, output in normal form.
-/
import S2Proofs.CU.Unique
open S2 S2.CellID S2.CellUnion
namespace S2Proofs

theorem covers_cons (x : CellID) (l : CU) (n : Nat) :
    Covers (x :: l) n ↔ (lo x ≤ n ∧ n ≤ hi x) ∨ Covers l n := by
  unfold Covers; simp

theorem covers_nil (n : Nat) : ¬ Covers [] n := by unfold Covers; simp

theorem covers_append (a b : CU) (n : Nat) : Covers (a ++ b) n ↔ Covers a n ∨ Covers b n := by
  unfold Covers; simp only [List.mem_append]
  constructor
  · rintro ⟨c, hc | hc, h⟩
    · exact Or.inl ⟨c, hc, h⟩
    · exact Or.inr ⟨c, hc, h⟩
  · rintro (⟨c, hc, h⟩ | ⟨c, hc, h⟩)
    · exact ⟨c, Or.inl hc, h⟩
    · exact ⟨c, Or.inr hc, h⟩

theorem covers_reverse (a : CU) (n : Nat) : Covers a.reverse n ↔ Covers a n := by
  unfold Covers; simp

theorem covers_perm {a b : CU} (h : a.Perm b) (n : Nat) : Covers a n ↔ Covers b n := by
  unfold Covers
  constructor
  · rintro ⟨c, hc, h'⟩; exact ⟨c, h.mem_iff.mp hc, h'⟩
  · rintro ⟨c, hc, h'⟩; exact ⟨c, h.mem_iff.mpr hc, h'⟩

/-- the stack of `Normalize` (last accepted cell first) -/
def SortedRev (out : CU) : Prop := List.Pairwise (fun x y => hi y < lo x) out
def NoSibRev (out : CU) : Prop := ∀ a b c d, [d, c, b, a] <:+: out → areSiblings a b c d = false

theorem sorted_reverse (out : CU) : Sorted out.reverse ↔ SortedRev out := by
  unfold Sorted SortedRev; rw [List.pairwise_reverse]

theorem noSib_reverse (out : CU) : NoSib out.reverse ↔ NoSibRev out := by
  unfold NoSib NoSibRev
  constructor
  · intro h a b c d hin
    apply h
    have : [a, b, c, d] = [d, c, b, a].reverse := by simp
    rw [this, List.reverse_infix]; exact hin
  · intro h a b c d hin
    apply h
    have : [a, b, c, d] = [d, c, b, a].reverse := by simp
    rw [this, List.reverse_infix] at hin; exact hin

theorem allValid_reverse (out : CU) : AllValid out.reverse ↔ AllValid out := by
  unfold AllValid; simp

theorem NoSibRev.tail {x : CellID} {l : CU} (h : NoSibRev (x :: l)) : NoSibRev l := by
  intro a b c d hin
  exact h a b c d (List.infix_cons hin)

theorem NoSibRev.of_suffix {l l' : CU} (h : NoSibRev l) (hs : l' <:+ l) : NoSibRev l' := by
  intro a b c d hin
  exact h a b c d (List.IsInfix.trans hin hs.isInfix)

theorem noSibRev_cons_short {x : CellID} {l : CU} (h : NoSibRev l) (hl : l.length < 3) : NoSibRev (x :: l) := by
  intro a b c d hin
  rcases List.infix_cons_iff.mp hin with hp | hi'
  · have := hp.length_le; simp at this; omega
  · exact h a b c d hi'

/-- what a successful sibling test means for four sorted disjoint valid cells -/
theorem sib_collapse {a b c d : CellID} (hd : isValid d = true)
    (ha : isValid a = true) (hb : isValid b = true) (hc : isValid c = true)
    (hab : hi a < lo b) (hbc : hi b < lo c) (hcd : hi c < lo d) (h : areSiblings a b c d = true) :
    isValid (immediateParent d) = true ∧ lo (immediateParent d) = lo a ∧ hi (immediateParent d) = hi d ∧
      hi a + 2 = lo b ∧ hi b + 2 = lo c ∧ hi c + 2 = lo d := by
  obtain ⟨k, hk⟩ := (isValid_iff d).mp hd
  have fa := valid_facts ha
  have fb := valid_facts hb
  have fc := valid_facts hc
  have fd := valid_facts hd
  obtain ⟨hk1, ea, eb, ec, ed⟩ := areSiblings_sorted hk h (by omega) (by omega) (by omega)
  have hp : IsCell (parent d (k-1)) (k-1) := hk.parent_isCell (by omega)
  have hr := hp.children_ranges (by have := hk.k_le; omega)
  rw [← ea, ← eb, ← ec, ← ed] at hr
  rw [hk.immediateParent_eq (by omega)]
  exact ⟨hp.valid, hr.1.symm, hr.2.2.2.2.symm, hr.2.1, hr.2.2.1, hr.2.2.2.1⟩

theorem collapse_spec (out : CU) (ci : CellID) (hci : isValid ci = true) (hv : AllValid out)
    (hs : SortedRev out) (hn : NoSibRev out) (hlt : ∀ o ∈ out, hi o < lo ci) :
    AllValid (collapse out ci) ∧ SortedRev (collapse out ci) ∧ NoSibRev (collapse out ci) ∧
      (∀ n, n % 2 = 1 → (Covers (collapse out ci) n ↔ Covers (ci :: out) n)) ∧
      (∀ o ∈ collapse out ci, lo o ≤ lo ci) := by
  fun_induction collapse out ci with
  | case1 c b a rest ci hsib ih =>
    have hvc := hv c (by simp)
    have hvb := hv b (by simp)
    have hva := hv a (by simp)
    unfold SortedRev at hs
    have hs' := hs
    rw [List.pairwise_cons, List.pairwise_cons, List.pairwise_cons] at hs'
    have hcb := hs'.1 b (by simp)
    have hba := hs'.2.1 a (by simp)
    have hcd := hlt c (by simp)
    obtain ⟨hpv, hplo, hphi, g1, g2, g3⟩ := sib_collapse hci hva hvb hvc hba hcb hcd hsib
    have fa := valid_facts hva
    have fb := valid_facts hvb
    have fc := valid_facts hvc
    have fd := valid_facts hci
    have hvr : AllValid rest := fun o ho => hv o (by simp [ho])
    have hnr : NoSibRev rest := hn.tail.tail.tail
    have hltr : ∀ o ∈ rest, hi o < lo (immediateParent ci) := by
      intro o ho; rw [hplo]; exact hs'.2.2.1 o ho
    obtain ⟨r1, r2, r3, r4, r5⟩ := ih hpv hvr hs'.2.2.2 hnr hltr
    refine ⟨r1, r2, r3, ?_, ?_⟩
    · intro n hn
      rw [r4 n hn]
      simp only [covers_cons]
      have key : (lo (immediateParent ci) ≤ n ∧ n ≤ hi (immediateParent ci)) ↔
          ((lo ci ≤ n ∧ n ≤ hi ci) ∨ (lo c ≤ n ∧ n ≤ hi c) ∨ (lo b ≤ n ∧ n ≤ hi b) ∨ (lo a ≤ n ∧ n ≤ hi a)) := by
        omega
      rw [key]; simp only [or_assoc]
    · intro o ho
      have := r5 o ho
      omega
  | case2 c b a rest ci hsib =>
    have hsib' : areSiblings a b c ci = false := by simpa using hsib
    refine ⟨?_, ?_, ?_, fun n _ => Iff.rfl, ?_⟩
    · intro o ho
      rcases List.mem_cons.mp ho with rfl | ho
      · exact hci
      · exact hv o ho
    · unfold SortedRev; rw [List.pairwise_cons]; exact ⟨hlt, hs⟩
    · intro a' b' c' d' hin
      rcases List.infix_cons_iff.mp hin with hp | hi'
      · have h1 := List.cons_prefix_cons.mp hp
        have h2 := List.cons_prefix_cons.mp h1.2
        have h3 := List.cons_prefix_cons.mp h2.2
        have h4 := List.cons_prefix_cons.mp h3.2
        rw [h1.1, h2.1, h3.1, h4.1]; exact hsib'
      · exact hn _ _ _ _ hi'
    · intro o ho
      rcases List.mem_cons.mp ho with rfl | ho
      · exact Nat.le_refl _
      · have := hlt o ho
        have fo := valid_facts (hv o ho)
        omega
  | case3 out ci hnot =>
    have hlen : out.length < 3 := by
      match out, hnot with
      | [], _ => simp
      | [_], _ => simp
      | [_, _], _ => simp
      | c :: b :: a :: rest, hnot => exact absurd rfl (hnot c b a rest)
    refine ⟨?_, ?_, noSibRev_cons_short hn hlen, fun n _ => Iff.rfl, ?_⟩
    · intro o ho
      rcases List.mem_cons.mp ho with rfl | ho
      · exact hci
      · exact hv o ho
    · unfold SortedRev; rw [List.pairwise_cons]; exact ⟨hlt, hs⟩
    · intro o ho
      rcases List.mem_cons.mp ho with rfl | ho
      · exact Nat.le_refl _
      · have := hlt o ho
        have fo := valid_facts (hv o ho)
        omega

theorem mem_takeWhile_prop {α} (p : α → Bool) : ∀ (l : List α) (x : α), x ∈ l.takeWhile p → p x = true := by
  intro l
  induction l with
  | nil => intro x h; simp at h
  | cons a l ih =>
    intro x h
    by_cases ha : p a = true
    · rw [List.takeWhile_cons_of_pos ha] at h
      rcases List.mem_cons.mp h with rfl | h
      · exact ha
      · exact ih x h
    · rw [List.takeWhile_cons_of_neg ha] at h; simp at h

/-- invariant of the main loop: `m` is the id processed last -/
def Inv (out : CU) (m : Nat) : Prop :=
  AllValid out ∧ SortedRev out ∧ NoSibRev out ∧ ∀ o ∈ out, lo o ≤ m

/-- after popping the cells contained in `ci`, everything left lies strictly before `ci` -/
theorem dropWhile_left (ci : CellID) (hci : isValid ci = true) :
    ∀ (out : CU), AllValid out → SortedRev out → (∀ o ∈ out, lo o ≤ ci.toNat) →
      (∀ o ∈ out, ¬ (lo o ≤ lo ci ∧ hi ci ≤ hi o)) →
      ∀ o ∈ out.dropWhile (fun o => contains ci o), hi o < lo ci := by
  intro out
  induction out with
  | nil => intro _ _ _ _ o ho; simp at ho
  | cons x tl ih =>
    intro hv hs hle hnc o ho
    unfold SortedRev at hs
    rw [List.pairwise_cons] at hs
    by_cases hx : contains ci x = true
    · rw [List.dropWhile_cons_of_pos hx] at ho
      exact ih (fun c hc => hv c (List.mem_cons_of_mem _ hc)) hs.2
        (fun c hc => hle c (List.mem_cons_of_mem _ hc)) (fun c hc => hnc c (List.mem_cons_of_mem _ hc)) o ho
    · rw [List.dropWhile_cons_of_neg hx] at ho
      have hvx := hv x (List.mem_cons_self ..)
      have fx := valid_facts hvx
      have fc := valid_facts hci
      have hxl : hi x < lo ci := by
        rcases nested_or_disjoint hci hvx with h | h | h | h
        · exact absurd ((contains_range hci hvx).mpr h) hx
        · exact absurd h (hnc x (List.mem_cons_self ..))
        · have := hle x (List.mem_cons_self ..); omega
        · exact h
      rcases List.mem_cons.mp ho with rfl | ho
      · exact hxl
      · have := hs.1 o ho
        omega

theorem normStep_spec (out : CU) (m : Nat) (ci : CellID) (hI : Inv out m) (hci : isValid ci = true)
    (hm : m ≤ ci.toNat) :
    Inv (normStep out ci) ci.toNat ∧
      ∀ n, n % 2 = 1 → (Covers (normStep out ci) n ↔ Covers (ci :: out) n) := by
  obtain ⟨hv, hs, hn, hle⟩ := hI
  have fc := valid_facts hci
  have fromCollapse : ∀ (D : CU), D <:+ out → (∀ o ∈ D, hi o < lo ci) →
      (∀ n, Covers (ci :: D) n ↔ Covers (ci :: out) n) →
      Inv (collapse D ci) ci.toNat ∧ ∀ n, n % 2 = 1 → (Covers (collapse D ci) n ↔ Covers (ci :: out) n) := by
    intro D hsuf hlt hcov
    have hvD : AllValid D := fun o ho => hv o (hsuf.subset ho)
    have hsD : SortedRev D := List.Pairwise.sublist hsuf.sublist hs
    have hnD : NoSibRev D := hn.of_suffix hsuf
    obtain ⟨r1, r2, r3, r4, r5⟩ := collapse_spec D ci hci hvD hsD hnD hlt
    refine ⟨⟨r1, r2, r3, fun o ho => ?_⟩, fun n hn' => ?_⟩
    · have := r5 o ho; omega
    · rw [r4 n hn', hcov n]
  cases out with
  | nil =>
    have : normStep [] ci = collapse [] ci := rfl
    rw [this]
    exact fromCollapse [] (List.suffix_refl _) (by simp) (fun n => Iff.rfl)
  | cons last tl =>
    by_cases hcl : contains last ci = true
    · have : normStep (last :: tl) ci = last :: tl := by simp [normStep, hcl]
      rw [this]
      refine ⟨⟨hv, hs, hn, fun o ho => ?_⟩, fun n _ => ?_⟩
      · have := hle o ho; omega
      · have hr := (contains_range (hv last (List.mem_cons_self ..)) hci).mp hcl
        rw [covers_cons ci (last :: tl)]
        constructor
        · intro h; exact Or.inr h
        · rintro (h | h)
          · exact ⟨last, List.mem_cons_self .., by omega, by omega⟩
          · exact h
    · have : normStep (last :: tl) ci
          = collapse ((last :: tl).dropWhile (fun o => contains ci o)) ci := by simp [normStep, hcl]
      rw [this]
      have hvl := hv last (List.mem_cons_self ..)
      have fl := valid_facts hvl
      have hs' := hs
      unfold SortedRev at hs'
      rw [List.pairwise_cons] at hs'
      have hnc : ∀ o ∈ last :: tl, ¬ (lo o ≤ lo ci ∧ hi ci ≤ hi o) := by
        intro o ho h
        rcases List.mem_cons.mp ho with rfl | ho
        · exact hcl ((contains_range hvl hci).mpr h)
        · have := hs'.1 o ho
          have := hle last (List.mem_cons_self ..)
          omega
      apply fromCollapse _ (List.dropWhile_suffix _)
      · exact dropWhile_left ci hci _ hv hs (fun o ho => by have := hle o ho; omega) hnc
      · intro n
        rw [covers_cons ci (last :: tl), covers_cons ci (List.dropWhile _ _)]
        constructor
        · rintro (h | ⟨c, hc, h⟩)
          · exact Or.inl h
          · exact Or.inr ⟨c, (List.dropWhile_suffix _).subset hc, h⟩
        · rintro (h | ⟨c, hc, h⟩)
          · exact Or.inl h
          · have hsplit := List.takeWhile_append_dropWhile (p := fun o => contains ci o) (l := last :: tl)
            rw [← hsplit] at hc
            rcases List.mem_append.mp hc with hc | hc
            · have hcc := mem_takeWhile_prop _ _ _ hc
              have hcv : isValid c = true :=
                hv c (by rw [← hsplit]; exact List.mem_append_left _ hc)
              have := (contains_range hci hcv).mp hcc
              left; omega
            · exact Or.inr ⟨c, hc, h⟩

theorem foldl_normStep_spec : ∀ (l : CU) (out : CU) (m : Nat), Inv out m → AllValid l →
    List.Pairwise (fun a b : CellID => a.toNat ≤ b.toNat) l → (∀ x ∈ l, m ≤ x.toNat) →
    (∃ m', Inv (l.foldl normStep out) m') ∧
      ∀ n, n % 2 = 1 → (Covers (l.foldl normStep out) n ↔ Covers out n ∨ Covers l n) := by
  intro l
  induction l with
  | nil =>
    intro out m hI _ _ _
    exact ⟨⟨m, hI⟩, fun n _ => by simp [covers_nil]⟩
  | cons x l ih =>
    intro out m hI hv hs hm
    rw [List.pairwise_cons] at hs
    obtain ⟨hI', hc⟩ := normStep_spec out m x hI (hv x (List.mem_cons_self ..)) (hm x (List.mem_cons_self ..))
    obtain ⟨hm', hc'⟩ := ih (normStep out x) x.toNat hI' (fun c hc => hv c (List.mem_cons_of_mem _ hc)) hs.2 hs.1
    refine ⟨hm', fun n hn => ?_⟩
    rw [List.foldl_cons, hc' n hn, hc n hn]
    simp only [covers_cons]
    constructor
    · rintro ((h | h) | h)
      · exact Or.inr (Or.inl h)
      · exact Or.inl h
      · exact Or.inr (Or.inr h)
    · rintro (h | h | h)
      · exact Or.inl (Or.inr h)
      · exact Or.inl (Or.inl h)
      · exact Or.inr h

theorem sortIDs_perm (cu : CU) : (sortIDs cu).Perm cu := List.mergeSort_perm _ _

theorem sortIDs_sorted (cu : CU) : List.Pairwise (fun a b : CellID => a.toNat ≤ b.toNat) (sortIDs cu) := by
  have := List.pairwise_mergeSort (le := fun a b : CellID => decide (a ≤ b))
    (by intro a b c; simp only [decide_eq_true_eq, UInt64.le_iff_toNat_le]; omega)
    (by intro a b; simp only [Bool.or_eq_true, decide_eq_true_eq, UInt64.le_iff_toNat_le]; omega) cu
  unfold sortIDs
  refine List.Pairwise.imp ?_ this
  intro a b h
  simpa [UInt64.le_iff_toNat_le] using h

/-- `normalize` on valid input: normal form and same leaves -/
theorem normalize_spec (cu : CU) (hv : AllValid cu) :
    AllValid (normalize cu) ∧ Sorted (normalize cu) ∧ NoSib (normalize cu) ∧
      ∀ n, n % 2 = 1 → (Covers (normalize cu) n ↔ Covers cu n) := by
  have hperm := sortIDs_perm cu
  have hvs : AllValid (sortIDs cu) := fun c hc => hv c (hperm.mem_iff.mp hc)
  have hI0 : Inv [] 0 := ⟨by intro c hc; simp at hc, List.Pairwise.nil,
    by intro a b c d h; have := h.length_le; simp at this, by intro o ho; simp at ho⟩
  obtain ⟨⟨m', h1, h2, h3, _⟩, hc⟩ := foldl_normStep_spec (sortIDs cu) [] 0 hI0 hvs (sortIDs_sorted cu)
    (fun _ _ => Nat.zero_le _)
  unfold normalize normalizeSorted
  refine ⟨(allValid_reverse _).mpr h1, (sorted_reverse _).mpr h2, (noSib_reverse _).mpr h3, fun n hn => ?_⟩
  rw [covers_reverse, hc n hn, covers_perm hperm]
  simp [covers_nil]

/-- evaluating `sortIDs` on a concrete list: any sorted permutation is the result -/
theorem sortIDs_eq_of_perm {l s : CU} (hp : s.Perm l)
    (hs : List.Pairwise (fun a b : CellID => a.toNat ≤ b.toNat) s) : sortIDs l = s := by
  apply List.Perm.eq_of_pairwise (le := fun a b : CellID => a.toNat ≤ b.toNat) _ (sortIDs_sorted l) hs
    ((sortIDs_perm l).trans hp.symm)
  intro a b _ _ h1 h2
  exact UInt64.toNat_inj.mp (Nat.le_antisymm h1 h2)

theorem normalize_eq_of_perm {l s r : CU} (hp : s.Perm l)
    (hs : List.Pairwise (fun a b : CellID => a.toNat ≤ b.toNat) s) (hr : normalizeSorted s = r) :
    normalize l = r := by
  unfold normalize; rw [sortIDs_eq_of_perm hp hs, hr]

end S2Proofs
