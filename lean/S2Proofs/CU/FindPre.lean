/-
  S2Proofs.CU.FindPre — the facts about `normalize` and `fromRange` used by the `find` proof, in the
  `coversLeaf` vocabulary (thin wrappers of `normalize_spec`, `fromRange_spec'`, `normal_unique`; the
  same statements are property theorems in `S2Proofs/Properties/C11.lean`, re-derived here so that the
  `Find*` files do not depend on the property file).
-/
import S2Proofs.CellUnionLemmas
open S2 S2.CellID S2.CellUnion
namespace S2Proofs.FindP

theorem normalize_leaves' (cu : CU) (hv : AllValid cu) (n : Nat) (hn : n % 2 = 1) :
    coversLeaf (normalize cu) n = coversLeaf cu n := by
  rw [coversLeaf_eq_iff]
  exact (normalize_spec cu hv).2.2.2 n hn

theorem normalize_valid_sorted (cu : CU) (hv : AllValid cu) :
    AllValid (normalize cu) ∧ Sorted (normalize cu) :=
  ⟨(normalize_spec cu hv).1, (normalize_spec cu hv).2.1⟩

theorem normalize_isNormalized' (cu : CU) (hv : AllValid cu) : isNormalizedCU (normalize cu) = true := by
  have h := normalize_spec cu hv
  exact (isNormalizedCU_iff _).mpr ⟨h.1, h.2.1, h.2.2.1⟩

theorem normalize_fix (cu : CU) (h : isNormalizedCU cu = true) : normalize cu = cu := by
  obtain ⟨x1, x2, x3⟩ := (isNormalizedCU_iff cu).mp h
  have hn := normalize_spec cu x1
  exact normal_unique hn.1 hn.2.1 hn.2.2.1 x1 x2 x3 hn.2.2.2

theorem fromRange_tiles' (b e : CellID)
    (h : b.toNat % 2 = 1 ∧ e.toNat % 2 = 1 ∧ b.toNat ≤ e.toNat ∧ e.toNat ≤ 6 * 2^61 + 1) :
    isNormalizedCU (fromRange b e) = true ∧
      ∀ n, n % 2 = 1 → (coversLeaf (fromRange b e) n = true ↔ b.toNat ≤ n ∧ n < e.toNat) := by
  obtain ⟨h1, h2⟩ := fromRange_spec' h
  exact ⟨h1, fun n hn => by rw [coversLeaf_iff]; exact h2 n hn⟩

example : AllValid [(0x1400000000000000 : CellID), 0x0400000000000000] ∧
    isNormalizedCU [(0x0400000000000000 : CellID), 0x1400000000000000] = true ∧
    ((7 : CellID).toNat % 2 = 1 ∧ (35 : CellID).toNat % 2 = 1 ∧ (7 : CellID).toNat ≤ (35 : CellID).toNat ∧
      (35 : CellID).toNat ≤ 6 * 2^61 + 1) := by
  refine ⟨?_, by decide, by decide⟩
  intro c hc
  simp only [List.mem_cons, List.not_mem_nil, or_false] at hc
  rcases hc with rfl | rfl <;> decide

end S2Proofs.FindP
