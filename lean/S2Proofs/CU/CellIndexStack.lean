/-
  S2Proofs.CU.CellIndexStack — the stack walk of `CellIndex.Build`, abstractly.

  `absLoop` is `buildLoop` with the label tree replaced by an explicit stack of entries
  `(tree index, cellID, label)` (top first).  The main result `absLoop_chained` is the LIFO invariant:
  run on a delta list that is sorted by Go's comparator and consists of one push delta (at `rangeMin`)
  and one pop delta (at `rangeMax.Next()`) per indexed pair, the stack emitted for the group of start id
  `s` is — as a multiset — exactly the set of indexed pairs whose cell contains `x`, for EVERY leaf
  position `x` from `s` up to the next emitted start id.

  Invariant (`Inv`), for the still unprocessed deltas `rest`, the stack `S` and the ghost list `P` of
  pairs already popped:
    J  the start ids of the pop deltas in `rest` are exactly the end positions of the stack entries and
       of the pairs still to be pushed (so: the first pending pop belongs to the top of the stack);
    N  the stack is nested: every entry's cell is contained in the cells below it;
    K  every stack entry's push delta is ≤ every pending delta (ties: larger cells first);
    C  input pairs = stack + popped + still to be pushed (multiset).
-/
import S2Proofs.CU.CellIndex
import S2Proofs.CU.Basic
open S2 S2.CellID S2.CellIndex
namespace S2Proofs.CIdx

abbrev Pair := CellID × Int
/-- a stack entry: (index in the label tree, cell id, label) -/
abbrev Ent := Nat × CellID × Int

/-- one delta applied to the abstract stack; `T` is the current size of the label tree -/
def absStep (s : List Ent) (T : Nat) (d : Delta) : List Ent × Nat :=
  if d.label ≥ 0 then ((T, d.cellID, d.label) :: s, T + 1)
  else if d.cellID == sentinel then (s.tail, T)
  else (s, T)

/-- `buildLoop` on abstract stacks: the emitted `(startID, stack)` per group of equal start ids -/
def absLoop : List Delta → List Ent → Nat → List (CellID × List Ent)
  | [], _, _ => []
  | d :: rest, s, T =>
    match rest with
    | [] => [(d.startID, (absStep s T d).1)]
    | d' :: _ =>
      if d'.startID == d.startID then absLoop rest (absStep s T d).1 (absStep s T d).2
      else (d.startID, (absStep s T d).1) :: absLoop rest (absStep s T d).1 (absStep s T d).2

def pairsOf (s : List Ent) : List Pair := s.map (·.2)

/-- a relation holds between all neighbours of a list -/
def Chained {α : Type} (R : α → α → Prop) : List α → Prop
  | [] => True
  | [_] => True
  | a :: b :: l => R a b ∧ Chained R (b :: l)

theorem Chained.get {α : Type} {R : α → α → Prop} : ∀ {l : List α}, Chained R l →
    ∀ (i : Nat) (h : i + 1 < l.length), R l[i] l[i+1]
  | [], _, i, h => by simp at h
  | [_], _, i, h => by simp at h
  | a :: b :: l, hc, i, h => by
    cases i with
    | zero => exact hc.1
    | succ i =>
      have := Chained.get (l := b :: l) hc.2 i (by simpa using h)
      simpa using this

/-! ### bookkeeping functions on delta lists -/

def isPop (d : Delta) : Bool := decide (d.label < 0) && (d.cellID == sentinel)

/-- start ids of the pop deltas -/
def popPos (ds : List Delta) : List Nat := (ds.filter isPop).map (·.startID.toNat)

/-- the position at which a pair is popped: `RangeMax().Next()` -/
def endPos (p : Pair) : Nat := hi p.1 + 2

theorem popPos_cons (d : Delta) (r : List Delta) :
    popPos (d :: r) = if isPop d then d.startID.toNat :: popPos r else popPos r := by
  unfold popPos; by_cases h : isPop d <;> simp [h]

theorem pushed_cons (d : Delta) (r : List Delta) :
    pushed (d :: r) = if d.label ≥ 0 then (d.cellID, d.label) :: pushed r else pushed r := by
  unfold pushed; by_cases h : d.label ≥ 0 <;> simp [h]

theorem mem_pushed {q : Pair} {ds : List Delta} (h : q ∈ pushed ds) :
    ∃ d ∈ ds, d.label ≥ 0 ∧ q = (d.cellID, d.label) := by
  unfold pushed at h
  simp only [List.mem_map, List.mem_filter, decide_eq_true_eq] at h
  obtain ⟨d, ⟨hd, hl⟩, rfl⟩ := h
  exact ⟨d, hd, hl, rfl⟩

theorem mem_popPos {n : Nat} {ds : List Delta} (h : n ∈ popPos ds) :
    ∃ d ∈ ds, isPop d = true ∧ d.startID.toNat = n := by
  unfold popPos at h
  simp only [List.mem_map, List.mem_filter] at h
  obtain ⟨d, ⟨hd, hl⟩, rfl⟩ := h
  exact ⟨d, hd, hl, rfl⟩

/-- the contract on a push delta: a valid cell, pushed at its `RangeMin` -/
def DeltaOK (d : Delta) : Prop := d.label ≥ 0 → isValid d.cellID = true ∧ d.startID = rangeMin d.cellID

theorem sentinel_toNat : sentinel.toNat = 2^64 - 1 := by decide

theorem valid_lt {c : CellID} (h : isValid c = true) : c.toNat < 6 * 2^61 := by
  obtain ⟨k, hk⟩ := (isValid_iff c).mp h
  exact hk.face_lt

/-! ### the invariant -/

structure Inv (cells : List Pair) (rest : List Delta) (s : List Ent) (P : List Pair) (cur : Nat) : Prop where
  sorted : rest.Pairwise (fun a b => deltaLE a b = true)
  ok : ∀ d ∈ rest, DeltaOK d
  curle : ∀ d ∈ rest, cur ≤ d.startID.toNat
  J : (popPos rest).Perm ((pairsOf s).map endPos ++ (pushed rest).map endPos)
  K : ∀ e ∈ pairsOf s, ∀ d ∈ rest, deltaLE ⟨rangeMin e.1, e.1, e.2⟩ d = true
  N : (pairsOf s).Pairwise (fun a b => lo b.1 ≤ lo a.1 ∧ hi a.1 ≤ hi b.1)
  V : ∀ e ∈ pairsOf s, isValid e.1 = true ∧ lo e.1 ≤ cur
  X : ∀ p ∈ P, endPos p ≤ cur
  C : cells.Perm (pairsOf s ++ P ++ pushed rest)

theorem Inv.step_push {cells : List Pair} {d : Delta} {rest : List Delta} {s : List Ent} {P : List Pair}
    {cur : Nat} (h : Inv cells (d :: rest) s P cur) (T : Nat) (hl : d.label ≥ 0) :
    Inv cells rest ((T, d.cellID, d.label) :: s) P d.startID.toNat := by
  obtain ⟨hsorted, hok, hcur, hJ, hK, hN, hV, hX, hC⟩ := h
  have hs := List.pairwise_cons.mp hsorted
  obtain ⟨hvalid, hstart⟩ := hok d (by simp) hl
  have hnp : isPop d = false := by simp [isPop]; intro h; omega
  rw [popPos_cons, pushed_cons] at hJ
  simp only [hnp, hl, if_true] at hJ
  rw [pushed_cons] at hC
  simp only [hl, if_true] at hC
  have hcd := hcur d (by simp)
  have fc := valid_facts hvalid
  have hlo : d.startID.toNat = lo d.cellID := by rw [hstart]
  refine ⟨hs.2, fun d' hd' => hok d' (List.mem_cons_of_mem _ hd'),
    fun d' hd' => deltaLE_start _ _ (hs.1 d' hd'), ?_, ?_, ?_, ?_, fun p hp => by have := hX p hp; omega, ?_⟩
  · -- J
    simp only [pairsOf, List.map_cons, List.cons_append] at hJ ⊢
    exact hJ.trans List.perm_middle
  · -- K
    intro e he d' hd'
    simp only [pairsOf, List.map_cons, List.mem_cons] at he
    rcases he with rfl | he
    · have : (⟨rangeMin d.cellID, d.cellID, d.label⟩ : Delta) = d := by
        cases d; simp_all
      simp only [this]
      exact hs.1 d' hd'
    · exact hK e (by simpa [pairsOf] using he) d' (List.mem_cons_of_mem _ hd')
  · -- N : the new cell is inside every stack entry
    simp only [pairsOf, List.map_cons]
    refine List.pairwise_cons.mpr ⟨?_, hN⟩
    intro e he
    obtain ⟨hev, helo⟩ := hV e he
    have fe := valid_facts hev
    -- the pop of `e` is still pending, strictly after the current position
    have hmem : endPos e ∈ popPos rest := by
      apply hJ.mem_iff.mpr
      apply List.mem_append_left
      exact List.mem_map_of_mem he
    obtain ⟨d2, hd2, hp2, hs2⟩ := mem_popPos hmem
    have hle := hs.1 d2 hd2
    rw [deltaLE_iff, deltaLess_iff] at hle
    simp only [isPop, Bool.and_eq_true, decide_eq_true_eq, beq_iff_eq] at hp2
    have hsent : d2.cellID.toNat = 2^64 - 1 := by rw [hp2.2]; exact sentinel_toNat
    have hcl := valid_lt hvalid
    -- the tie-break of `e`'s push against the current push
    have hk := hK e he d (by simp)
    rw [deltaLE_iff, deltaLess_iff] at hk
    simp only at hk
    have hnd := nested_or_disjoint hvalid hev
    unfold endPos at hs2
    show lo e.1 ≤ lo d.cellID ∧ hi d.cellID ≤ hi e.1
    simp only [lo, hi] at *
    omega
  · -- V
    intro e he
    simp only [pairsOf, List.map_cons, List.mem_cons] at he
    rcases he with rfl | he
    · exact ⟨hvalid, by simp [hlo]⟩
    · have := hV e (by simpa [pairsOf] using he); exact ⟨this.1, by omega⟩
  · -- C
    simp only [pairsOf, List.map_cons, List.cons_append] at hC ⊢
    exact hC.trans List.perm_middle

theorem Inv.step_pop {cells : List Pair} {d : Delta} {rest : List Delta} {s : List Ent} {P : List Pair}
    {cur : Nat} (h : Inv cells (d :: rest) s P cur) (hp : isPop d = true) :
    ∃ t s0, s = t :: s0 ∧ Inv cells rest s0 (t.2 :: P) d.startID.toNat := by
  obtain ⟨hsorted, hok, hcur, hJ, hK, hN, hV, hX, hC⟩ := h
  have hs := List.pairwise_cons.mp hsorted
  have hl : ¬ d.label ≥ 0 := by
    simp only [isPop, Bool.and_eq_true, decide_eq_true_eq] at hp; omega
  rw [popPos_cons, pushed_cons] at hJ
  simp only [hp, hl, if_true, if_false] at hJ
  rw [pushed_cons] at hC
  simp only [hl, if_false] at hC
  have hcd := hcur d (by simp)
  -- every stack entry ends at or after the current position
  have hge : ∀ e ∈ pairsOf s, d.startID.toNat ≤ endPos e := by
    intro e he
    have hmem : endPos e ∈ d.startID.toNat :: popPos rest := by
      apply hJ.mem_iff.mpr
      apply List.mem_append_left
      exact List.mem_map_of_mem he
    rcases List.mem_cons.mp hmem with h | h
    · omega
    · obtain ⟨d2, hd2, _, hs2⟩ := mem_popPos h
      have := deltaLE_start _ _ (hs.1 d2 hd2); omega
  -- some stack entry ends exactly here
  have hex : ∃ e ∈ pairsOf s, endPos e = d.startID.toNat := by
    have hmem : d.startID.toNat ∈ (pairsOf s).map endPos ++ (pushed rest).map endPos :=
      hJ.mem_iff.mp (by simp)
    rcases List.mem_append.mp hmem with h | h
    · obtain ⟨e, he, hee⟩ := List.mem_map.mp h; exact ⟨e, he, hee⟩
    · exfalso
      obtain ⟨q, hq, hqe⟩ := List.mem_map.mp h
      obtain ⟨d2, hd2, hl2, rfl⟩ := mem_pushed hq
      obtain ⟨hv2, hst2⟩ := hok d2 (List.mem_cons_of_mem _ hd2) hl2
      have f2 := valid_facts hv2
      have := deltaLE_start _ _ (hs.1 d2 hd2)
      have e2 : d2.startID.toNat = lo d2.cellID := by rw [hst2]
      unfold endPos at hqe
      simp only at hqe
      omega
  obtain ⟨e0, he0, hee0⟩ := hex
  cases s with
  | nil => simp [pairsOf] at he0
  | cons t s0 =>
    refine ⟨t, s0, rfl, ?_⟩
    simp only [pairsOf, List.map_cons, List.cons_append] at hJ hN hC hge he0
    have hNc := List.pairwise_cons.mp hN
    have htop : endPos t.2 = d.startID.toNat := by
      have h1 := hge t.2 (by simp)
      rcases List.mem_cons.mp he0 with rfl | he0'
      · exact hee0
      · have := (hNc.1 e0 he0').2
        unfold endPos at *
        omega
    refine ⟨hs.2, fun d' hd' => hok d' (List.mem_cons_of_mem _ hd'),
      fun d' hd' => deltaLE_start _ _ (hs.1 d' hd'), ?_, ?_, hNc.2, ?_, ?_, ?_⟩
    · rw [htop] at hJ; exact hJ.cons_inv
    · intro e he d' hd'
      exact hK e (by simp only [pairsOf, List.map_cons]; exact List.mem_cons_of_mem _ he) d'
        (List.mem_cons_of_mem _ hd')
    · intro e he
      have := hV e (by simp only [pairsOf, List.map_cons]; exact List.mem_cons_of_mem _ he)
      exact ⟨this.1, by omega⟩
    · intro p hp'
      rcases List.mem_cons.mp hp' with rfl | hp'
      · omega
      · have := hX p hp'; omega
    · simp only [pairsOf]
      refine hC.trans ?_
      simp only [List.append_assoc, List.cons_append]
      exact (List.perm_middle (l₁ := List.map (·.2) s0) (a := t.2) (l₂ := P ++ pushed rest)).symm

theorem Inv.step_other {cells : List Pair} {d : Delta} {rest : List Delta} {s : List Ent} {P : List Pair}
    {cur : Nat} (h : Inv cells (d :: rest) s P cur) (hl : ¬ d.label ≥ 0) (hp : isPop d = false) :
    Inv cells rest s P d.startID.toNat := by
  obtain ⟨hsorted, hok, hcur, hJ, hK, hN, hV, hX, hC⟩ := h
  have hs := List.pairwise_cons.mp hsorted
  rw [popPos_cons, pushed_cons] at hJ
  simp only [hp, hl, if_false] at hJ
  rw [pushed_cons] at hC
  simp only [hl, if_false] at hC
  have hcd := hcur d (by simp)
  exact ⟨hs.2, fun d' hd' => hok d' (List.mem_cons_of_mem _ hd'),
    fun d' hd' => deltaLE_start _ _ (hs.1 d' hd'), by simpa using hJ,
    fun e he d' hd' => hK e he d' (List.mem_cons_of_mem _ hd'), hN,
    fun e he => ⟨(hV e he).1, by have := (hV e he).2; omega⟩,
    fun p hp' => by have := hX p hp'; omega, hC⟩

/-- one step of the abstract machine preserves the invariant -/
theorem Inv.step {cells : List Pair} {d : Delta} {rest : List Delta} {s : List Ent} {P : List Pair}
    {cur : Nat} (h : Inv cells (d :: rest) s P cur) (T : Nat) :
    ∃ P', Inv cells rest (absStep s T d).1 P' d.startID.toNat := by
  unfold absStep
  by_cases hl : d.label ≥ 0
  · simp only [hl, if_true]
    exact ⟨P, h.step_push T hl⟩
  · simp only [hl, if_false]
    by_cases hc : d.cellID == sentinel
    · simp only [hc, if_true]
      have hp : isPop d = true := by
        simp only [isPop, Bool.and_eq_true, decide_eq_true_eq]; exact ⟨by omega, hc⟩
      obtain ⟨t, s0, rfl, hi⟩ := h.step_pop hp
      exact ⟨_, hi⟩
    · simp only [hc]
      have hp : isPop d = false := by simp [isPop, hc]
      exact ⟨P, h.step_other hl hp⟩

/-- what the invariant says about the stack at a leaf position `x` between the current position and
    all pending deltas -/
theorem Inv.emit {cells : List Pair} {rest : List Delta} {s : List Ent} {P : List Pair} {cur : Nat}
    (h : Inv cells rest s P cur) (x : Nat) (hx : x % 2 = 1) (hcx : cur ≤ x)
    (hlt : ∀ d ∈ rest, x < d.startID.toNat) : (pairsOf s).Perm (pairsAt cells x) := by
  obtain ⟨hsorted, hok, hcur, hJ, hK, hN, hV, hX, hC⟩ := h
  unfold pairsAt
  have hf := hC.filter (fun (p : Pair) => decide ((rangeMin p.1).toNat ≤ x) && decide (x ≤ (rangeMax p.1).toNat))
  have e1 : (pairsOf s).filter (fun (p : Pair) => decide ((rangeMin p.1).toNat ≤ x) && decide (x ≤ (rangeMax p.1).toNat))
      = pairsOf s := by
    rw [List.filter_eq_self]
    intro e he
    obtain ⟨hev, helo⟩ := hV e he
    have fe := valid_facts hev
    have hmem : endPos e ∈ popPos rest := by
      apply hJ.mem_iff.mpr
      apply List.mem_append_left
      exact List.mem_map_of_mem he
    obtain ⟨d2, hd2, _, hs2⟩ := mem_popPos hmem
    have := hlt d2 hd2
    unfold endPos at hs2
    have h1 : (rangeMin e.1).toNat ≤ x := by show lo e.1 ≤ x; omega
    have h2 : x ≤ (rangeMax e.1).toNat := by show x ≤ hi e.1; omega
    simp [h1, h2]
  have e2 : P.filter (fun (p : Pair) => decide ((rangeMin p.1).toNat ≤ x) && decide (x ≤ (rangeMax p.1).toNat)) = [] := by
    rw [List.filter_eq_nil_iff]
    intro p hp
    have := hX p hp
    unfold endPos at this
    have h2 : ¬ x ≤ (rangeMax p.1).toNat := by show ¬ x ≤ hi p.1; omega
    simp [h2]
  have e3 : (pushed rest).filter (fun (p : Pair) => decide ((rangeMin p.1).toNat ≤ x) && decide (x ≤ (rangeMax p.1).toNat)) = [] := by
    rw [List.filter_eq_nil_iff]
    intro q hq
    obtain ⟨d2, hd2, hl2, rfl⟩ := mem_pushed hq
    obtain ⟨_, hst2⟩ := hok d2 hd2 hl2
    have := hlt d2 hd2
    rw [hst2] at this
    have h1 : ¬ (rangeMin d2.cellID).toNat ≤ x := by omega
    simp [h1]
  rw [List.filter_append, List.filter_append, e1, e2, e3, List.append_nil, List.append_nil] at hf
  have e4 : (fun (x_1 : Pair) => match x_1 with
      | (c, _) => decide ((rangeMin c).toNat ≤ x) && decide (x ≤ (rangeMax c).toNat)) =
      (fun (p : Pair) => decide ((rangeMin p.1).toNat ≤ x) && decide (x ≤ (rangeMax p.1).toNat)) := by
    funext ⟨c, l⟩; rfl
  rw [e4]
  exact hf.symm

/-- when all deltas are processed the stack is empty -/
theorem Inv.final_empty {cells : List Pair} {s : List Ent} {P : List Pair} {cur : Nat}
    (h : Inv cells [] s P cur) : s = [] := by
  have := h.J
  simp only [popPos, pushed, List.filter_nil, List.map_nil, List.append_nil] at this
  have h2 := this.symm.eq_nil
  simpa [pairsOf] using h2

/-! ### the loop -/

theorem absLoop_head (d : Delta) (rest : List Delta) : ∀ (s : List Ent) (T : Nat),
    ∃ st tl, absLoop (d :: rest) s T = (d.startID, st) :: tl := by
  induction rest generalizing d with
  | nil => intro s T; exact ⟨_, [], rfl⟩
  | cons d' rest' ih =>
    intro s T
    unfold absLoop
    simp only
    split
    · rename_i heq
      obtain ⟨st, tl, h⟩ := ih d' (absStep s T d).1 (absStep s T d).2
      have : d'.startID = d.startID := by simpa using heq
      exact ⟨st, tl, by rw [h, this]⟩
    · exact ⟨_, _, rfl⟩

/-- the relation between two consecutive emitted `(startID, stack)` entries demanded by the specification -/
def RangeOK (cells : List Pair) (a b : CellID × List Ent) : Prop :=
  ∀ x, x % 2 = 1 → a.1.toNat ≤ x → x < b.1.toNat → (pairsOf a.2).Perm (pairsAt cells x)

theorem absLoop_chained (cells : List Pair) (ds : List Delta) : ∀ (s : List Ent) (P : List Pair) (cur T : Nat),
    Inv cells ds s P cur → Chained (RangeOK cells) (absLoop ds s T) := by
  induction ds with
  | nil => intro s P cur T _; simp [absLoop, Chained]
  | cons d rest ih =>
    intro s P cur T h
    obtain ⟨P', h'⟩ := h.step T
    cases rest with
    | nil => simp [absLoop, Chained]
    | cons d' rest' =>
      unfold absLoop
      simp only
      split
      · exact ih _ _ _ _ h'
      · rename_i hne
        have hrec := ih _ _ _ (absStep s T d).2 h'
        obtain ⟨st, tl, htl⟩ := absLoop_head d' rest' (absStep s T d).1 (absStep s T d).2
        rw [htl] at hrec ⊢
        refine ⟨?_, hrec⟩
        intro x hx hlo hhi
        simp only at hlo hhi
        apply h'.emit x hx hlo
        intro d2 hd2
        rcases List.mem_cons.mp hd2 with rfl | hd2
        · exact hhi
        · have := deltaLE_start _ _ ((List.pairwise_cons.mp h'.sorted).1 d2 hd2)
          omega

/-- the last emitted stack is empty -/
theorem absLoop_last (cells : List Pair) (ds : List Delta) : ∀ (s : List Ent) (P : List Pair) (cur T : Nat),
    Inv cells ds s P cur → ∀ o ∈ (absLoop ds s T).getLast?, o.2 = [] := by
  induction ds with
  | nil => intro s P cur T _ o ho; simp [absLoop] at ho
  | cons d rest ih =>
    intro s P cur T h o ho
    obtain ⟨P', h'⟩ := h.step T
    cases rest with
    | nil =>
      simp only [absLoop, List.getLast?_singleton, Option.mem_def, Option.some.injEq] at ho
      subst ho
      exact h'.final_empty
    | cons d' rest' =>
      unfold absLoop at ho
      simp only at ho
      split at ho
      · exact ih _ _ _ _ h' o ho
      · obtain ⟨st, tl, htl⟩ := absLoop_head d' rest' (absStep s T d).1 (absStep s T d).2
        rw [htl, List.getLast?_cons_cons, ← htl] at ho
        exact ih _ _ _ _ h' o ho

end S2Proofs.CIdx
