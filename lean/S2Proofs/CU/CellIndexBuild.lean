/-
  S2Proofs.CU.CellIndexBuild — `CellIndex.Build` is correct.

  * `buildLoop_abs`   the concrete loop (label tree + `contents` index) simulates the abstract stack
                      machine `absLoop`: the parent chain of every emitted range node, read in the FINAL
                      tree, is the abstract stack at the moment of emission (holds for every input);
  * `inv_init`        the invariant of `CellIndexStack` holds initially for the sorted delta list of
                      any list of valid cells with labels ≥ 0;
  * `build_obs`, `build_chained`, `build_contents_correct` : the full statement
                      `CellIndex_contents_correct`.
-/
import S2Proofs.CU.CellIndexStack
open S2 S2.CellID S2.CellIndex
namespace S2Proofs.CIdx

/-! ### parent chains with node indices -/

/-- `chain` with the tree index of every node -/
def chainN (tree : Array TreeNode) : Nat → Int → List Ent
  | 0, _ => []
  | fuel+1, i =>
    if i < 0 then [] else
    let n := tree[i.toNat]!
    (i.toNat, n.cellID, n.label) :: chainN tree fuel n.parent

theorem chain_eq_chainN (t : Array TreeNode) : ∀ (fuel : Nat) (i : Int),
    chain t fuel i = pairsOf (chainN t fuel i) := by
  intro fuel
  induction fuel with
  | zero => intro i; rfl
  | succ f ih =>
    intro i
    unfold chain chainN
    by_cases h : i < 0
    · simp [h, pairsOf]
    · simp only [h, if_false, pairsOf, List.map_cons]
      rw [ih]; rfl

theorem chainN_neg (t : Array TreeNode) (fuel : Nat) (i : Int) (h : i < 0) : chainN t fuel i = [] := by
  cases fuel with
  | zero => rfl
  | succ f => simp [chainN, h]

/-- the stack denoted by a `contents` index: its parent chain (fuel-free form) -/
def stk (t : Array TreeNode) (i : Int) : List Ent := chainN t (i.toNat + 1) i

/-- `t'` extends `t` -/
def Ext (t t' : Array TreeNode) : Prop := t.size ≤ t'.size ∧ ∀ j, j < t.size → t'[j]! = t[j]!

theorem Ext.refl (t : Array TreeNode) : Ext t t := ⟨Nat.le_refl _, fun _ _ => rfl⟩

theorem Ext.trans {a b c : Array TreeNode} (h1 : Ext a b) (h2 : Ext b c) : Ext a c :=
  ⟨Nat.le_trans h1.1 h2.1, fun j hj => by rw [h2.2 j (by have := h1.1; omega), h1.2 j hj]⟩

theorem Ext.push (t : Array TreeNode) (n : TreeNode) : Ext t (t.push n) := by
  refine ⟨by simp, fun j hj => ?_⟩
  rw [getElem!_pos _ j (by simp; omega), getElem!_pos _ j hj, Array.getElem_push_lt hj]

/-- chains below `t.size` are the same in every extension of a well-formed tree, whatever the
    (sufficient) fuel -/
theorem chainN_ext (t t' : Array TreeNode) (hw : TreeWF t) (hext : Ext t t') :
    ∀ (n : Nat) (i : Int) (f1 f2 : Nat), i < (n : Int) → n ≤ t.size → i.toNat + 1 ≤ f1 → i.toNat + 1 ≤ f2 →
      chainN t' f1 i = chainN t f2 i := by
  intro n
  induction n with
  | zero =>
    intro i f1 f2 hi _ _ _
    rw [chainN_neg _ _ _ (by omega), chainN_neg _ _ _ (by omega)]
  | succ n ih =>
    intro i f1 f2 hi hn h1 h2
    by_cases hneg : i < 0
    · rw [chainN_neg _ _ _ hneg, chainN_neg _ _ _ hneg]
    · cases f1 with
      | zero => omega
      | succ f1 =>
        cases f2 with
        | zero => omega
        | succ f2 =>
          have hlt : i.toNat < t.size := by omega
          have hp := hw i.toNat hlt
          rw [chainN, chainN]
          simp only [hneg, if_false]
          rw [hext.2 _ hlt]
          congr 1
          obtain ⟨hp1, hp2⟩ := hp
          generalize t[i.toNat]!.parent = q at *
          by_cases hq : q < 0
          · rw [chainN_neg _ _ _ hq, chainN_neg _ _ _ hq]
          · exact ih q f1 f2 (by omega) (by omega) (by omega) (by omega)

theorem stk_ext {t t' : Array TreeNode} (hw : TreeWF t) (hext : Ext t t') (i : Int) (hi : i < (t.size : Int)) :
    stk t' i = stk t i :=
  chainN_ext t t' hw hext t.size i _ _ hi (Nat.le_refl _) (Nat.le_refl _) (Nat.le_refl _)

theorem chainN_eq_stk {t : Array TreeNode} (hw : TreeWF t) (i : Int) (hi : i < (t.size : Int)) (fuel : Nat)
    (hf : i.toNat + 1 ≤ fuel) : chainN t fuel i = stk t i :=
  chainN_ext t t hw (Ext.refl t) t.size i _ _ hi (Nat.le_refl _) hf (Nat.le_refl _)

theorem stk_neg (t : Array TreeNode) (i : Int) (h : i < 0) : stk t i = [] := chainN_neg _ _ _ h

theorem stk_cons {t : Array TreeNode} (hw : TreeWF t) (i : Int) (h0 : 0 ≤ i) (hi : i < (t.size : Int)) :
    stk t i = (i.toNat, t[i.toNat]!.cellID, t[i.toNat]!.label) :: stk t t[i.toNat]!.parent := by
  have hp := hw i.toNat (by omega)
  unfold stk
  rw [chainN]
  simp only [show ¬ i < 0 by omega, if_false]
  congr 1
  by_cases hq : t[i.toNat]!.parent < 0
  · rw [chainN_neg _ _ _ hq, chainN_neg _ _ _ hq]
  · exact chainN_ext t t hw (Ext.refl t) t.size _ _ _ (by omega) (Nat.le_refl _) (by omega) (Nat.le_refl _)

/-- the model's `chain` with the model's fuel is the stack -/
theorem chain_eq_stk {t : Array TreeNode} (hw : TreeWF t) (i : Int) (hi : i < (t.size : Int)) :
    chain t (t.size + 1) i = pairsOf (stk t i) := by
  rw [chain_eq_chainN, chainN_eq_stk hw i hi _ (by omega)]

/-! ### one delta -/

theorem applyDelta_abs (tree : Array TreeNode) (contents : Int) (d : Delta)
    (hw : TreeWF tree) (hc : -1 ≤ contents ∧ contents < (tree.size : Int)) :
    stk (applyDelta tree contents d).1 (applyDelta tree contents d).2 = (absStep (stk tree contents) tree.size d).1 ∧
    (applyDelta tree contents d).1.size = (absStep (stk tree contents) tree.size d).2 ∧
    Ext tree (applyDelta tree contents d).1 := by
  have hwf := applyDelta_wf tree contents d hw hc
  revert hwf
  unfold applyDelta absStep
  by_cases hl : d.label ≥ 0
  · simp only [hl, if_true]
    intro hwf
    refine ⟨?_, by simp, Ext.push _ _⟩
    have hext := Ext.push tree { cellID := d.cellID, label := d.label, parent := contents }
    rw [stk_cons hwf.1 _ (by omega) (by simp)]
    have e : (tree.push { cellID := d.cellID, label := d.label, parent := contents })[(tree.size : Int).toNat]!
        = { cellID := d.cellID, label := d.label, parent := contents } := by
      simp
    rw [e]
    simp only [Int.toNat_natCast]
    rw [stk_ext hw hext contents hc.2]
  · simp only [hl, if_false]
    by_cases hs : d.cellID == sentinel
    · simp only [hs, if_true]
      intro _
      refine ⟨?_, trivial, Ext.refl _⟩
      by_cases h0 : 0 ≤ contents
      · rw [stk_cons hw contents h0 hc.2]; rfl
      · have hm : contents = -1 := by omega
        subst hm
        rw [stk_neg tree (-1) (by omega)]
        simp only [List.tail_nil]
        apply stk_neg
        by_cases hsz : 0 < tree.size
        · have := hw 0 hsz
          simp only [show (-1 : Int).toNat = 0 from rfl]
          omega
        · rw [getElem!_neg tree _ (by simpa using hsz)]
          simp [default_parent]
    · have hs' : (d.cellID == sentinel) = false := by simpa using hs
      intro _
      rw [hs']
      exact ⟨rfl, rfl, Ext.refl _⟩

/-! ### the loop -/

/-- what is observable of a range node in the tree `t`: its start id and its stack -/
def obs (t : Array TreeNode) (r : RangeNode) : CellID × List Ent := (r.startID, stk t r.contents)

theorem buildLoop_abs (ds : List Delta) : ∀ (tree : Array TreeNode) (ranges : Array RangeNode) (contents : Int),
    TreeWF tree → (-1 ≤ contents ∧ contents < (tree.size : Int)) →
    Ext tree (buildLoop ds tree ranges contents).tree ∧
    ∃ rs, (buildLoop ds tree ranges contents).ranges.toList = ranges.toList ++ rs ∧
      rs.map (obs (buildLoop ds tree ranges contents).tree) = absLoop ds (stk tree contents) tree.size := by
  induction ds with
  | nil =>
    intro tree ranges contents _ _
    exact ⟨Ext.refl _, [], by simp [buildLoop], by simp [absLoop]⟩
  | cons d rest ih =>
    intro tree ranges contents hw hc
    obtain ⟨hw', hc'⟩ := applyDelta_wf tree contents d hw hc
    obtain ⟨hstk, hsz, hext⟩ := applyDelta_abs tree contents d hw hc
    cases rest with
    | nil =>
      unfold buildLoop absLoop
      simp only
      refine ⟨hext, [{ startID := d.startID, contents := (applyDelta tree contents d).2 }], by simp, ?_⟩
      simp only [List.map_cons, List.map_nil, obs, hstk]
    | cons d' rest' =>
      unfold buildLoop absLoop
      simp only
      split
      · obtain ⟨he, rs, hr, hm⟩ := ih (applyDelta tree contents d).1 ranges (applyDelta tree contents d).2 hw' hc'
        refine ⟨hext.trans he, rs, hr, ?_⟩
        rw [hm, hstk, hsz]
      · obtain ⟨he, rs, hr, hm⟩ := ih (applyDelta tree contents d).1
          (ranges.push { startID := d.startID, contents := (applyDelta tree contents d).2 })
          (applyDelta tree contents d).2 hw' hc'
        refine ⟨hext.trans he, { startID := d.startID, contents := (applyDelta tree contents d).2 } :: rs, ?_, ?_⟩
        · rw [hr]; simp
        · simp only [List.map_cons, hm, hstk, hsz, obs]
          rw [stk_ext hw' he _ hc'.2, hstk]

/-- For EVERY input: the observable content of the built index is the output of the abstract stack
    machine on the sorted deltas. -/
theorem build_obs (cells : List Pair) :
    (build cells).ranges.toList.map (obs (build cells).tree) = absLoop (sortDeltas (deltasOf cells)) [] 0 := by
  unfold build
  obtain ⟨_, rs, hr, hm⟩ := buildLoop_abs (sortDeltas (deltasOf cells)) #[] #[] (-1)
    (by intro i hi; simp at hi) (by simp)
  rw [hr]
  simpa [stk_neg] using hm

/-! ### the invariant holds initially -/

theorem valid_hi_lt {c : CellID} (h : isValid c = true) : hi c < 6 * 2^61 := by
  obtain ⟨k, hk⟩ := (isValid_iff c).mp h
  show (rangeMax c).toNat < _
  rw [hk.rangeMax_eq]
  obtain ⟨hk30, hf, hlow⟩ := hk
  interval_cases k <;> cell_omega

/-- `RangeMax().Next()` of a valid cell is two positions after its last leaf (no overflow) -/
theorem next_rangeMax_toNat {c : CellID} (h : isValid c = true) : (next (rangeMax c)).toNat = hi c + 2 := by
  have f := valid_facts h
  have hlt := valid_hi_lt h
  have hc : IsCell (rangeMax c) 30 := ⟨by omega, hlt, by simpa using f.2.1⟩
  rw [hc.next_toNat]
  show ((rangeMax c).toNat + 2 ^ (61 - 2 * 30)) % 2 ^ 64 = (rangeMax c).toNat + 2
  have : (rangeMax c).toNat < 6 * 2^61 := hlt
  omega

theorem firstLeaf_toNat : firstLeaf.toNat = 1 := by decide
theorem endLeaf_toNat : endLeaf.toNat = 6 * 2^61 + 1 := by decide

/-- the contract of `Add` -/
def CellsOK (cells : List Pair) : Prop := ∀ p ∈ cells, isValid p.1 = true ∧ 0 ≤ p.2

theorem popPos_append (a b : List Delta) : popPos (a ++ b) = popPos a ++ popPos b := by
  simp [popPos]

theorem pushed_append (a b : List Delta) : pushed (a ++ b) = pushed a ++ pushed b := by
  simp [pushed]

theorem popPos_deltasOf (cells : List Pair) (h : CellsOK cells) :
    popPos (deltasOf cells) = cells.map endPos := by
  unfold deltasOf
  rw [popPos_append]
  have h2 : popPos [ ({ startID := firstLeaf, cellID := 0, label := -1 } : Delta),
         { startID := endLeaf, cellID := 0, label := -1 } ] = [] := by
    simp [popPos, isPop, sentinel]
  rw [h2, List.append_nil]
  induction cells with
  | nil => simp [popPos]
  | cons p rest ih =>
    rw [List.flatMap_cons, popPos_append, ih (fun q hq => h q (List.mem_cons_of_mem _ hq))]
    obtain ⟨hv, hl⟩ := h p (by simp)
    obtain ⟨c, l⟩ := p
    simp only at hv hl
    have hl' : ¬ l < 0 := by omega
    simp [popPos, isPop, hl', endPos, next_rangeMax_toNat hv]

theorem mem_deltasOf {d : Delta} {cells : List Pair} (h : d ∈ deltasOf cells) :
    (∃ p ∈ cells, d = { startID := rangeMin p.1, cellID := p.1, label := p.2 }) ∨
    (∃ p ∈ cells, d = { startID := next (rangeMax p.1), cellID := sentinel, label := -1 }) ∨
    d = { startID := firstLeaf, cellID := 0, label := -1 } ∨ d = { startID := endLeaf, cellID := 0, label := -1 } := by
  unfold deltasOf at h
  simp only [List.mem_append, List.mem_flatMap, List.mem_cons, List.not_mem_nil, or_false] at h
  rcases h with ⟨p, hp, h | h⟩ | h | h
  · exact Or.inl ⟨p, hp, h⟩
  · exact Or.inr (Or.inl ⟨p, hp, h⟩)
  · exact Or.inr (Or.inr (Or.inl h))
  · exact Or.inr (Or.inr (Or.inr h))

/-- every start id of a delta lies in `[firstLeaf, endLeaf]` -/
theorem deltasOf_start_bounds {cells : List Pair} (h : CellsOK cells) {d : Delta} (hd : d ∈ deltasOf cells) :
    1 ≤ d.startID.toNat ∧ d.startID.toNat ≤ 6 * 2^61 + 1 := by
  rcases mem_deltasOf hd with ⟨p, hp, rfl⟩ | ⟨p, hp, rfl⟩ | rfl | rfl
  · have f := valid_facts (h p hp).1
    have := valid_hi_lt (h p hp).1
    show 1 ≤ lo p.1 ∧ lo p.1 ≤ _
    omega
  · have f := valid_facts (h p hp).1
    have := valid_hi_lt (h p hp).1
    simp only [next_rangeMax_toNat (h p hp).1]
    omega
  · simp [firstLeaf_toNat]
  · simp [endLeaf_toNat]

theorem inv_init (cells : List Pair) (h : CellsOK cells) :
    Inv cells (sortDeltas (deltasOf cells)) [] [] 0 := by
  have hperm := sortDeltas_perm (deltasOf cells)
  have hpushed : (pushed (sortDeltas (deltasOf cells))).Perm cells := by
    have := pushed_perm hperm
    rwa [pushed_deltasOf cells (fun p hp => (h p hp).2)] at this
  refine ⟨?_, ?_, fun _ _ => Nat.zero_le _, ?_, by simp [pairsOf], by simp [pairsOf], by simp [pairsOf],
    by simp, by simpa [pairsOf] using hpushed.symm⟩
  · exact List.pairwise_mergeSort (le := fun a b => !deltaLess b a) deltaLE_trans deltaLE_total _
  · intro d hd hl
    have hd' := hperm.mem_iff.mp hd
    rcases mem_deltasOf hd' with ⟨p, hp, rfl⟩ | ⟨p, hp, rfl⟩ | rfl | rfl
    · exact ⟨(h p hp).1, rfl⟩
    · simp at hl
    · simp at hl
    · simp at hl
  · simp only [pairsOf, List.map_nil, List.nil_append]
    have h1 : (popPos (sortDeltas (deltasOf cells))).Perm (popPos (deltasOf cells)) :=
      (hperm.filter _).map _
    rw [popPos_deltasOf cells h] at h1
    exact h1.trans (hpushed.map endPos).symm

/-! ### start ids of the emitted nodes -/

theorem absLoop_last_start (ds : List Delta) : ∀ (s : List Ent) (T : Nat),
    ∀ o ∈ (absLoop ds s T).getLast?, ∃ d ∈ ds.getLast?, o.1 = d.startID := by
  induction ds with
  | nil => intro s T o ho; simp [absLoop] at ho
  | cons d rest ih =>
    intro s T o ho
    cases rest with
    | nil =>
      simp only [absLoop, List.getLast?_singleton, Option.mem_def, Option.some.injEq] at ho
      subst ho
      exact ⟨d, by simp, rfl⟩
    | cons d' rest' =>
      unfold absLoop at ho
      simp only at ho
      split at ho
      · obtain ⟨dl, hdl, e⟩ := ih _ _ o ho
        exact ⟨dl, by simpa [List.getLast?_cons_cons] using hdl, e⟩
      · obtain ⟨st, tl, htl⟩ := absLoop_head d' rest' (absStep s T d).1 (absStep s T d).2
        rw [htl, List.getLast?_cons_cons, ← htl] at ho
        obtain ⟨dl, hdl, e⟩ := ih _ _ o ho
        exact ⟨dl, by simpa [List.getLast?_cons_cons] using hdl, e⟩

/-- the sorted delta list starts at `firstLeaf` and ends at `endLeaf` -/
theorem sortDeltas_ends (cells : List Pair) (h : CellsOK cells) :
    (∃ d rest, sortDeltas (deltasOf cells) = d :: rest ∧ d.startID = firstLeaf) ∧
    (∃ d, (sortDeltas (deltasOf cells)).getLast? = some d ∧ d.startID = endLeaf) := by
  have hperm := sortDeltas_perm (deltasOf cells)
  have hsorted := sortDeltas_sorted (deltasOf cells)
  have hfirst : ({ startID := firstLeaf, cellID := 0, label := -1 } : Delta) ∈ sortDeltas (deltasOf cells) :=
    hperm.mem_iff.mpr (by simp [deltasOf])
  have hend : ({ startID := endLeaf, cellID := 0, label := -1 } : Delta) ∈ sortDeltas (deltasOf cells) :=
    hperm.mem_iff.mpr (by simp [deltasOf])
  have hb : ∀ d ∈ sortDeltas (deltasOf cells), 1 ≤ d.startID.toNat ∧ d.startID.toNat ≤ 6 * 2^61 + 1 :=
    fun d hd => deltasOf_start_bounds h (hperm.mem_iff.mp hd)
  generalize sortDeltas (deltasOf cells) = L at *
  constructor
  · cases L with
    | nil => simp at hfirst
    | cons d rest =>
      refine ⟨d, rest, rfl, ?_⟩
      apply UInt64.toNat_inj.mp
      rw [firstLeaf_toNat]
      have h1 := (hb d (by simp)).1
      rcases List.mem_cons.mp hfirst with e | e
      · rw [← e]; exact firstLeaf_toNat
      · have := (List.pairwise_cons.mp hsorted).1 _ e
        simp only [firstLeaf_toNat] at this
        omega
  · rcases hL : L.getLast? with _ | dl
    · rw [List.getLast?_eq_none_iff] at hL; subst hL; simp at hend
    · refine ⟨dl, rfl, ?_⟩
      obtain ⟨ys, rfl⟩ := List.getLast?_eq_some_iff.mp hL
      apply UInt64.toNat_inj.mp
      rw [endLeaf_toNat]
      have h1 := (hb dl (by simp)).2
      rcases List.mem_append.mp hend with e | e
      · have := (List.pairwise_append.mp hsorted).2.2 _ e dl (by simp)
        simp only [endLeaf_toNat] at this
        omega
      · simp only [List.mem_singleton] at e
        rw [← e]; exact endLeaf_toNat

/-! ### the main theorems -/

/-- the observable list of the built index -/
def obsList (cells : List Pair) : List (CellID × List Ent) :=
  (build cells).ranges.toList.map (obs (build cells).tree)

theorem obsList_length (cells : List Pair) : (obsList cells).length = (build cells).ranges.size := by
  simp [obsList]

theorem obsList_get (cells : List Pair) (p : Nat) (hp : p < (build cells).ranges.size) :
    (obsList cells)[p]'(by rw [obsList_length]; exact hp) =
      ((build cells).ranges[p]!.startID, stk (build cells).tree (build cells).ranges[p]!.contents) := by
  simp only [obsList, List.getElem_map, Array.getElem_toList, obs]
  rw [getElem!_pos _ p hp]

/-- Under the contract of `Add` (valid cells, labels ≥ 0): between two consecutive range nodes, at
    every leaf position, the stack of the first node is the multiset of indexed pairs containing
    that position. -/
theorem build_chained (cells : List Pair) (h : CellsOK cells) :
    Chained (RangeOK cells) (obsList cells) := by
  unfold obsList
  rw [build_obs]
  exact absLoop_chained cells _ _ _ _ 0 (inv_init cells h)

/-- first node at `firstLeaf`, last node at `endLeaf` with empty contents, at least two nodes -/
theorem build_ends (cells : List Pair) (h : CellsOK cells) :
    2 ≤ (build cells).ranges.size ∧
    (build cells).ranges[0]!.startID = firstLeaf ∧
    (build cells).ranges[(build cells).ranges.size - 1]!.startID = endLeaf ∧
    stk (build cells).tree (build cells).ranges[(build cells).ranges.size - 1]!.contents = [] := by
  have hobs : obsList cells = absLoop (sortDeltas (deltasOf cells)) [] 0 := build_obs cells
  obtain ⟨⟨d0, rest, hL, hd0⟩, ⟨dl, hLl, hdl⟩⟩ := sortDeltas_ends cells h
  have hlen := obsList_length cells
  -- head
  obtain ⟨st, tl, hhead⟩ := absLoop_head d0 rest [] 0
  rw [← hL, ← hobs] at hhead
  have hpos : 0 < (build cells).ranges.size := by rw [← hlen, hhead]; simp
  have h0 := obsList_get cells 0 hpos
  have h0' : ((obsList cells)[0]'(by rw [hlen]; exact hpos)).1 = firstLeaf := by
    simp only [hhead, List.getElem_cons_zero, hd0]
  rw [h0] at h0'
  simp only at h0'
  -- last
  have hlastmem : (obsList cells).getLast? = (obsList cells)[(build cells).ranges.size - 1]? := by
    rw [List.getLast?_eq_getElem?, hlen]
  rw [List.getElem?_eq_getElem (by omega)] at hlastmem
  have hl := obsList_get cells ((build cells).ranges.size - 1) (by omega)
  obtain ⟨d, hd, he⟩ := absLoop_last_start (sortDeltas (deltasOf cells)) [] 0 _
    (by rw [← hobs]; exact hlastmem)
  rw [hLl] at hd
  simp only [Option.mem_def, Option.some.injEq] at hd
  subst hd
  have hem := absLoop_last cells (sortDeltas (deltasOf cells)) [] [] 0 0 (inv_init cells h) _
    (by rw [← hobs]; exact hlastmem)
  rw [hl] at he hem
  simp only at he hem
  refine ⟨?_, h0', he.trans hdl, hem⟩
  -- two nodes: first ≠ last start id
  by_cases h2 : 2 ≤ (build cells).ranges.size
  · exact h2
  · exfalso
    have : (build cells).ranges.size - 1 = 0 := by omega
    rw [this, h0', hdl] at he
    have := congrArg UInt64.toNat he
    rw [firstLeaf_toNat, endLeaf_toNat] at this
    omega

/-- labels: `sortDedup` does not depend on the order -/
theorem ins_lt {x y : Int} (ys : List Int) (h : x < y) : insertSorted x (y :: ys) = x :: y :: ys := by
  simp [insertSorted, h]
theorem ins_eq (y : Int) (ys : List Int) : insertSorted y (y :: ys) = y :: ys := by
  simp [insertSorted]
theorem ins_gt {x y : Int} (ys : List Int) (h : y < x) : insertSorted x (y :: ys) = y :: insertSorted x ys := by
  have h1 : ¬ x < y := by omega
  have h2 : ¬ x = y := by omega
  simp [insertSorted, h1, h2]

theorem insertSorted_comm (a b : Int) (l : List Int) :
    insertSorted a (insertSorted b l) = insertSorted b (insertSorted a l) := by
  induction l with
  | nil =>
    rcases Int.lt_trichotomy a b with h | h | h
    · simp [insertSorted, ins_lt, ins_gt, h]
    · subst h; rfl
    · simp [insertSorted, ins_lt, ins_gt, h]
  | cons y ys ih =>
    rcases Int.lt_trichotomy a y with h1 | h1 | h1 <;> rcases Int.lt_trichotomy b y with h2 | h2 | h2 <;>
      rcases Int.lt_trichotomy a b with h3 | h3 | h3 <;> (try omega)
    all_goals
      (try subst h1) <;> (try subst h2) <;> (try subst h3)
    all_goals simp [ins_lt, ins_eq, ins_gt, *]

theorem sortDedup_perm {l1 l2 : List Int} (h : l1.Perm l2) : sortDedup l1 = sortDedup l2 := by
  unfold sortDedup
  induction h with
  | nil => rfl
  | cons x _ ih => simp [ih]
  | swap x y l => simp only [List.foldr_cons]; exact insertSorted_comm _ _ _
  | trans _ _ ih1 ih2 => exact ih1.trans ih2

/-- **`CellIndex.Build` is correct** (the full statement `CellIndex_contents_correct`). -/
theorem build_contents_correct : CellIndex_contents_correct := by
  intro cells hcells ix
  have hix : ix = build cells := rfl
  clear_value ix
  subst hix
  have hok : CellsOK cells := hcells
  obtain ⟨hsz, hfirst, hlast, _⟩ := build_ends cells hok
  obtain ⟨hw, hcb⟩ := build_wf cells
  have hch := build_chained cells hok
  refine ⟨?_, ?_, ?_⟩
  · show (rangeList (build cells)).head?.map (·.1) = some firstLeaf
    unfold rangeList
    have e : (build cells).ranges.size - 1 = ((build cells).ranges.size - 2) + 1 := by omega
    rw [e, List.range_succ_eq_map]
    simp [hfirst]
  · show (rangeList (build cells)).getLast?.map (·.2.1) = some endLeaf
    unfold rangeList
    have e : (build cells).ranges.size - 1 = ((build cells).ranges.size - 2) + 1 := by omega
    rw [e, List.range_succ, List.map_append, List.getLast?_append]
    simp only [List.map_cons, List.map_nil, List.getLast?_singleton, Option.some_or, Option.map_some]
    have e2 : (build cells).ranges.size - 2 + 1 = (build cells).ranges.size - 1 := by omega
    rw [e2, hlast]
  · intro r hr x hx hlo hhi
    show (chain (build cells).tree ((build cells).tree.size + 1) r.2.2).Perm (pairsAt cells x) ∧
      sortDedup ((chain (build cells).tree ((build cells).tree.size + 1) r.2.2).map (·.2)) = labelsAt cells x
    unfold rangeList at hr
    simp only [List.mem_map, List.mem_range] at hr
    obtain ⟨p, hp, rfl⟩ := hr
    simp only at hlo hhi ⊢
    have hc := hcb (build cells).ranges[p]! (by
      rw [getElem!_pos _ p (by omega)]; exact Array.getElem_mem_toList _)
    have hR := hch.get p (by rw [obsList_length]; omega)
    rw [obsList_get cells p (by omega), obsList_get cells (p+1) (by omega)] at hR
    have hperm := hR x hx hlo hhi
    simp only at hperm
    rw [chain_eq_stk hw _ hc.2]
    exact ⟨hperm, sortDedup_perm (hperm.map _)⟩

end S2Proofs.CIdx
