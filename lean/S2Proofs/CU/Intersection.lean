/-
  S2Proofs.CU.Intersection — correctness of the skipping two-pointer loop of
  `CellUnionFromIntersection` (`intersectionRaw`) and of `intersection`.
-/
import S2Proofs.CU.Search
open S2 S2.CellID S2.CellUnion
namespace S2Proofs

/-! ### `lowerBound` (linear scan) -/

theorem lowerBound_go_spec (cu : CU) (e : Nat) (id : CellID) :
    ∀ (fuel i : Nat), i ≤ e → e - i ≤ fuel →
      i ≤ lowerBound.go cu.toArray e id fuel i ∧ lowerBound.go cu.toArray e id fuel i ≤ e ∧
      (∀ t, i ≤ t → t < lowerBound.go cu.toArray e id fuel i → cu[t]!.toNat < id.toNat) ∧
      (lowerBound.go cu.toArray e id fuel i < e →
        id.toNat ≤ cu[lowerBound.go cu.toArray e id fuel i]!.toNat) := by
  intro fuel
  induction fuel with
  | zero =>
    intro i hie hf
    unfold lowerBound.go
    exact ⟨hie, Nat.le_refl _, fun t h1 h2 => by omega, fun h => by omega⟩
  | succ fuel ih =>
    intro i hie hf
    unfold lowerBound.go
    by_cases hlt : i < e
    · simp only [hlt, ↓reduceIte, List.getElem!_toArray]
      by_cases hc : cu[i]! ≥ id
      · simp only [hc, ↓reduceIte]
        exact ⟨Nat.le_refl _, by omega, fun t h1 h2 => by omega,
          fun _ => UInt64.le_iff_toNat_le.mp hc⟩
      · simp only [hc, ↓reduceIte]
        have hc' : cu[i]!.toNat < id.toNat := by
          have hc2 := hc
          rw [ge_iff_le, UInt64.le_iff_toNat_le] at hc2
          omega
        obtain ⟨r1, r2, r3, r4⟩ := ih (i+1) (by omega) (by omega)
        refine ⟨by omega, r2, fun t h1 h2 => ?_, r4⟩
        by_cases h : t = i
        · subst h; exact hc'
        · exact r3 t (by omega) h2
    · simp only [hlt, ↓reduceIte]
      exact ⟨hie, Nat.le_refl _, fun t h1 h2 => by omega, fun h => by omega⟩

/-- `lowerBound a b e id` is the least index `t ∈ [b,e)` with `a[t] ≥ id`, or `e` -/
theorem lowerBound_spec (cu : CU) (b e : Nat) (id : CellID) (hbe : b ≤ e) :
    b ≤ lowerBound cu.toArray b e id ∧ lowerBound cu.toArray b e id ≤ e ∧
    (∀ t, b ≤ t → t < lowerBound cu.toArray b e id → cu[t]!.toNat < id.toNat) ∧
    (lowerBound cu.toArray b e id < e → id.toNat ≤ cu[lowerBound cu.toArray b e id]!.toNat) := by
  unfold lowerBound
  exact lowerBound_go_spec cu e id (e - b) b hbe (Nat.le_refl _)

/-! ### the intersection of two suffixes -/

/-- position `n` lies in a member of `X` at index `≥ i` and in a member of `Y` at index `≥ j` -/
def Meet (X Y : CU) (i j n : Nat) : Prop :=
  ∃ s t, i ≤ s ∧ s < X.length ∧ j ≤ t ∧ t < Y.length ∧
    lo X[s]! ≤ n ∧ n ≤ hi X[s]! ∧ lo Y[t]! ≤ n ∧ n ≤ hi Y[t]!

theorem meet_swap (X Y : CU) (i j n : Nat) : Meet X Y i j n ↔ Meet Y X j i n := by
  constructor
  · rintro ⟨s, t, h1, h2, h3, h4, h5, h6, h7, h8⟩; exact ⟨t, s, h3, h4, h1, h2, h7, h8, h5, h6⟩
  · rintro ⟨s, t, h1, h2, h3, h4, h5, h6, h7, h8⟩; exact ⟨t, s, h3, h4, h1, h2, h7, h8, h5, h6⟩

theorem meet_zero (X Y : CU) (n : Nat) : Meet X Y 0 0 n ↔ Covers X n ∧ Covers Y n := by
  constructor
  · rintro ⟨s, t, _, h2, _, h4, h5, h6, h7, h8⟩
    exact ⟨⟨X[s]!, (mem_iff_idx X _).mpr ⟨s, h2, rfl⟩, h5, h6⟩,
      ⟨Y[t]!, (mem_iff_idx Y _).mpr ⟨t, h4, rfl⟩, h7, h8⟩⟩
  · rintro ⟨⟨c, hc, c1, c2⟩, ⟨d, hd, d1, d2⟩⟩
    obtain ⟨s, hs, rfl⟩ := (mem_iff_idx X c).mp hc
    obtain ⟨t, ht, rfl⟩ := (mem_iff_idx Y d).mp hd
    exact ⟨s, t, Nat.zero_le _, hs, Nat.zero_le _, ht, c1, c2, d1, d2⟩

theorem meet_exit (X Y : CU) (i j n : Nat) (h : ¬ (i < X.length ∧ j < Y.length)) : ¬ Meet X Y i j n := by
  rintro ⟨s, t, h1, h2, h3, h4, _⟩
  exact h ⟨by omega, by omega⟩

/-- `X[i]` lies inside `Y[j]`: emit `X[i]` and advance `i` -/
theorem meet_emit {X Y : CU} (i j : Nat) (hi' : i < X.length) (hj' : j < Y.length)
    (h1 : lo Y[j]! ≤ lo X[i]!) (h2 : hi X[i]! ≤ hi Y[j]!) (n : Nat) :
    (lo X[i]! ≤ n ∧ n ≤ hi X[i]!) ∨ Meet X Y (i+1) j n ↔ Meet X Y i j n := by
  constructor
  · rintro (⟨a, b⟩ | ⟨s, t, h1, h2, h3, h4, h5⟩)
    · exact ⟨i, j, Nat.le_refl _, hi', Nat.le_refl _, hj', a, b, by omega, by omega⟩
    · exact ⟨s, t, by omega, h2, h3, h4, h5⟩
  · rintro ⟨s, t, g1, g2, g3, g4, g5, g6, g7⟩
    by_cases hs : s = i
    · subst hs; exact Or.inl ⟨g5, g6⟩
    · exact Or.inr ⟨s, t, by omega, g2, g3, g4, g5, g6, g7⟩

/-- all of `Y[j..j')` lie entirely before `X[i]`: they can be skipped -/
theorem meet_skip {X Y : CU} (hvx : AllValid X) (hsx : Sorted X) (i j j' : Nat) (hi' : i < X.length)
    (hjj : j ≤ j') (hskip : ∀ t, j ≤ t → t < j' → t < Y.length → hi Y[t]! < lo X[i]!) (n : Nat) :
    Meet X Y i j n ↔ Meet X Y i j' n := by
  obtain ⟨vx, dx⟩ := idx_facts hvx hsx
  constructor
  · rintro ⟨s, t, g1, g2, g3, g4, g5, g6, g7, g8⟩
    by_cases ht : t < j'
    · exfalso
      have := hskip t g3 ht g4
      have fi := valid_facts (vx i hi')
      by_cases hs : s = i
      · subst hs; omega
      · have := dx i s (by omega) g2
        omega
    · exact ⟨s, t, g1, g2, by omega, g4, g5, g6, g7, g8⟩
  · rintro ⟨s, t, g1, g2, g3, g4, g5⟩
    exact ⟨s, t, g1, g2, by omega, g4, g5⟩

/-! ### facts about two cells used in the branches -/

theorem cell_inside {a b : CellID} (ha : isValid a = true) (hb : isValid b = true)
    (h1 : lo b < lo a) (h2 : a.toNat ≤ hi b) : hi a ≤ hi b := by
  have fa := valid_facts ha
  have fb := valid_facts hb
  rcases nested_or_disjoint ha hb with h | h | h | h <;> omega

theorem cell_before {a b : CellID} (ha : isValid a = true) (hb : isValid b = true)
    (h1 : lo b < lo a) (h2 : hi b < a.toNat) : hi b < lo a := by
  have fa := valid_facts ha
  have fb := valid_facts hb
  rcases nested_or_disjoint ha hb with h | h | h | h <;> omega

/-- the skip branch: the new index is `> j`, `≤ |Y|`, and everything skipped lies before `X[i]` -/
theorem skip_facts {Y : CU} (hvy : AllValid Y) (hsy : Sorted Y) {a : CellID} (ha : isValid a = true)
    (j : Nat) (hj' : j < Y.length) (h1 : lo Y[j]! < lo a) (h2 : hi Y[j]! < a.toNat)
    (j' : Nat) (k1 : j + 1 ≤ j') (k2 : j' ≤ Y.length)
    (k3 : ∀ t, j + 1 ≤ t → t < j' → Y[t]!.toNat < lo a) :
    j + 1 ≤ (if a ≤ rangeMax Y[j' - 1]! then j' - 1 else j') ∧
    (if a ≤ rangeMax Y[j' - 1]! then j' - 1 else j') ≤ Y.length ∧
    ∀ t, j ≤ t → t < (if a ≤ rangeMax Y[j' - 1]! then j' - 1 else j') → hi Y[t]! < lo a := by
  obtain ⟨vy, dy⟩ := idx_facts hvy hsy
  have fa := valid_facts ha
  have hbefore : hi Y[j]! < lo a := cell_before ha (vy j hj') h1 h2
  -- every skipped cell other than the last one lies before `a`
  have hmid : ∀ t, j ≤ t → t < j' - 1 → hi Y[t]! < lo a := by
    intro t t1 t2
    by_cases htj : t = j
    · subst htj; exact hbefore
    · have := dy t (j' - 1) t2 (by omega)
      have := k3 (j' - 1) (by omega) (by omega)
      have fl := valid_facts (vy (j' - 1) (by omega))
      omega
  by_cases hc : a ≤ rangeMax Y[j' - 1]!
  · simp only [hc, ↓reduceIte]
    have hc' : a.toNat ≤ hi Y[j' - 1]! := UInt64.le_iff_toNat_le.mp hc
    refine ⟨?_, by omega, hmid⟩
    by_cases h : j' - 1 = j
    · rw [h] at hc'; omega
    · omega
  · simp only [hc, ↓reduceIte]
    have hc' : hi Y[j' - 1]! < a.toNat := by
      have hc2 := hc
      rw [UInt64.le_iff_toNat_le] at hc2
      have : hi Y[j' - 1]! = (rangeMax Y[j' - 1]!).toNat := rfl
      omega
    refine ⟨k1, k2, fun t t1 t2 => ?_⟩
    by_cases ht : t < j' - 1
    · exact hmid t t1 ht
    · have ht' : t = j' - 1 := by omega
      subst ht'
      by_cases htj : j' - 1 = j
      · rw [htj]; exact hbefore
      · have := k3 (j' - 1) (by omega) (by omega)
        have fl := valid_facts (vy (j' - 1) (by omega))
        exact cell_before ha (vy (j' - 1) (by omega)) (by omega) hc'

/-! ### the loop, branch by branch -/

section branches
variable (x y : Array CellID) (fuel i j : Nat) (acc : List CellID)

theorem go_exit (h : ¬ (i < x.size ∧ j < y.size)) :
    intersectionRaw.go x y (fuel+1) i j acc = acc := by
  rw [intersectionRaw.go]
  simp only [Bool.and_eq_true, decide_eq_true_eq, h, ↓reduceIte]

theorem go_x_emit (hi' : i < x.size) (hj' : j < y.size) (h1 : rangeMin y[j]! < rangeMin x[i]!)
    (h2 : x[i]! ≤ rangeMax y[j]!) :
    intersectionRaw.go x y (fuel+1) i j acc = intersectionRaw.go x y fuel (i+1) j (x[i]! :: acc) := by
  rw [intersectionRaw.go]
  simp only [hi', hj', decide_true, Bool.and_self, ↓reduceIte, gt_iff_lt, h1, h2]

theorem go_x_skip (hi' : i < x.size) (hj' : j < y.size) (h1 : rangeMin y[j]! < rangeMin x[i]!)
    (h2 : ¬ x[i]! ≤ rangeMax y[j]!) :
    intersectionRaw.go x y (fuel+1) i j acc = intersectionRaw.go x y fuel i
      (if x[i]! ≤ rangeMax y[lowerBound y (j+1) y.size (rangeMin x[i]!) - 1]!
        then lowerBound y (j+1) y.size (rangeMin x[i]!) - 1
        else lowerBound y (j+1) y.size (rangeMin x[i]!)) acc := by
  rw [intersectionRaw.go]
  simp only [hi', hj', decide_true, Bool.and_self, ↓reduceIte, gt_iff_lt, h1, h2]

theorem go_y_emit (hi' : i < x.size) (hj' : j < y.size) (h1 : ¬ rangeMin y[j]! < rangeMin x[i]!)
    (h1' : rangeMin x[i]! < rangeMin y[j]!) (h2 : y[j]! ≤ rangeMax x[i]!) :
    intersectionRaw.go x y (fuel+1) i j acc = intersectionRaw.go x y fuel i (j+1) (y[j]! :: acc) := by
  rw [intersectionRaw.go]
  simp only [hi', hj', decide_true, Bool.and_self, ↓reduceIte, gt_iff_lt, h1, h1', h2]

theorem go_y_skip (hi' : i < x.size) (hj' : j < y.size) (h1 : ¬ rangeMin y[j]! < rangeMin x[i]!)
    (h1' : rangeMin x[i]! < rangeMin y[j]!) (h2 : ¬ y[j]! ≤ rangeMax x[i]!) :
    intersectionRaw.go x y (fuel+1) i j acc = intersectionRaw.go x y fuel
      (if y[j]! ≤ rangeMax x[lowerBound x (i+1) x.size (rangeMin y[j]!) - 1]!
        then lowerBound x (i+1) x.size (rangeMin y[j]!) - 1
        else lowerBound x (i+1) x.size (rangeMin y[j]!)) j acc := by
  rw [intersectionRaw.go]
  simp only [hi', hj', decide_true, Bool.and_self, ↓reduceIte, gt_iff_lt, h1, h1', h2]

theorem go_eq_x (hi' : i < x.size) (hj' : j < y.size) (h1 : ¬ rangeMin y[j]! < rangeMin x[i]!)
    (h1' : ¬ rangeMin x[i]! < rangeMin y[j]!) (h2 : x[i]! < y[j]!) :
    intersectionRaw.go x y (fuel+1) i j acc = intersectionRaw.go x y fuel (i+1) j (x[i]! :: acc) := by
  rw [intersectionRaw.go]
  simp only [hi', hj', decide_true, Bool.and_self, ↓reduceIte, gt_iff_lt, h1, h1', h2]

theorem go_eq_y (hi' : i < x.size) (hj' : j < y.size) (h1 : ¬ rangeMin y[j]! < rangeMin x[i]!)
    (h1' : ¬ rangeMin x[i]! < rangeMin y[j]!) (h2 : ¬ x[i]! < y[j]!) :
    intersectionRaw.go x y (fuel+1) i j acc = intersectionRaw.go x y fuel i (j+1) (y[j]! :: acc) := by
  rw [intersectionRaw.go]
  simp only [hi', hj', decide_true, Bool.and_self, ↓reduceIte, gt_iff_lt, h1, h1', h2]

end branches

/-! ### the loop invariant -/

/-- what `go fuel i j acc` computes when the fuel suffices -/
def GoOK (X Y : CU) (fuel i j : Nat) (acc : List CellID) : Prop :=
  (∀ c ∈ intersectionRaw.go X.toArray Y.toArray fuel i j acc, c ∈ acc ∨ c ∈ X ∨ c ∈ Y) ∧
  (∀ n, Covers (intersectionRaw.go X.toArray Y.toArray fuel i j acc) n ↔ Covers acc n ∨ Meet X Y i j n) ∧
  ∀ extra, intersectionRaw.go X.toArray Y.toArray (fuel + extra) i j acc =
    intersectionRaw.go X.toArray Y.toArray fuel i j acc

theorem goOK_exit {X Y : CU} {fuel i j : Nat} {acc : List CellID}
    (h : ¬ (i < X.length ∧ j < Y.length)) : GoOK X Y (fuel+1) i j acc := by
  have h' : ¬ (i < X.toArray.size ∧ j < Y.toArray.size) := by simpa using h
  refine ⟨?_, ?_, ?_⟩
  · rw [go_exit _ _ _ _ _ _ h']; intro c hc; exact Or.inl hc
  · intro n
    rw [go_exit _ _ _ _ _ _ h']
    constructor
    · exact Or.inl
    · rintro (h1 | h1)
      · exact h1
      · exact absurd h1 (meet_exit X Y i j n h)
  · intro extra
    have e : fuel + 1 + extra = (fuel + extra) + 1 := by omega
    rw [e, go_exit _ _ _ _ _ _ h', go_exit _ _ _ _ _ _ h']

theorem goOK_step {X Y : CU} {fuel i j : Nat} {acc : List CellID} {i' j' : Nat} {acc' : List CellID}
    (heq : ∀ f, intersectionRaw.go X.toArray Y.toArray (f+1) i j acc =
      intersectionRaw.go X.toArray Y.toArray f i' j' acc')
    (hmem : ∀ c ∈ acc', c ∈ acc ∨ c ∈ X ∨ c ∈ Y)
    (hcov : ∀ n, Covers acc' n ∨ Meet X Y i' j' n ↔ Covers acc n ∨ Meet X Y i j n)
    (ih : GoOK X Y fuel i' j' acc') : GoOK X Y (fuel+1) i j acc := by
  obtain ⟨a, b, c⟩ := ih
  refine ⟨?_, ?_, ?_⟩
  · rw [heq]
    intro d hd
    rcases a d hd with h | h
    · exact hmem d h
    · exact Or.inr h
  · intro n
    rw [heq, b n, hcov n]
  · intro extra
    have e : fuel + 1 + extra = (fuel + extra) + 1 := by omega
    rw [e, heq, heq]
    exact c extra

theorem emit_prop {P Q R A : Prop} (h : P ∨ Q ↔ R) : (P ∨ A) ∨ Q ↔ A ∨ R := by
  rw [← h]
  constructor
  · rintro ((p | a) | q)
    · exact Or.inr (Or.inl p)
    · exact Or.inl a
    · exact Or.inr (Or.inr q)
  · rintro (a | p | q)
    · exact Or.inl (Or.inr a)
    · exact Or.inl (Or.inl p)
    · exact Or.inr q

theorem go_ok {X Y : CU} (hvx : AllValid X) (hsx : Sorted X) (hvy : AllValid Y) (hsy : Sorted Y) :
    ∀ (fuel i j : Nat) (acc : List CellID), i ≤ X.length → j ≤ Y.length →
      (X.length - i) + (Y.length - j) + 1 ≤ fuel → GoOK X Y fuel i j acc := by
  obtain ⟨vx, dx⟩ := idx_facts hvx hsx
  obtain ⟨vy, dy⟩ := idx_facts hvy hsy
  intro fuel
  induction fuel with
  | zero => intro i j acc _ _ hf; omega
  | succ fuel ih =>
    intro i j acc hiX hjY hf
    by_cases hc : i < X.length ∧ j < Y.length
    · obtain ⟨hi', hj'⟩ := hc
      have hi'' : i < X.toArray.size := by simpa using hi'
      have hj'' : j < Y.toArray.size := by simpa using hj'
      have vxi := vx i hi'
      have vyj := vy j hj'
      have fx := valid_facts vxi
      have fy := valid_facts vyj
      have memx : X[i]! ∈ X := (mem_iff_idx X _).mpr ⟨i, hi', rfl⟩
      have memy : Y[j]! ∈ Y := (mem_iff_idx Y _).mpr ⟨j, hj', rfl⟩
      have hmx : ∀ c ∈ X[i]! :: acc, c ∈ acc ∨ c ∈ X ∨ c ∈ Y := by
        intro c hc
        rcases List.mem_cons.mp hc with rfl | h
        · exact Or.inr (Or.inl memx)
        · exact Or.inl h
      have hmy : ∀ c ∈ Y[j]! :: acc, c ∈ acc ∨ c ∈ X ∨ c ∈ Y := by
        intro c hc
        rcases List.mem_cons.mp hc with rfl | h
        · exact Or.inr (Or.inr memy)
        · exact Or.inl h
      -- emitting `X[i]` (inside `Y[j]`)
      have emitX : lo Y[j]! ≤ lo X[i]! → hi X[i]! ≤ hi Y[j]! →
          ∀ n, Covers (X[i]! :: acc) n ∨ Meet X Y (i+1) j n ↔ Covers acc n ∨ Meet X Y i j n := by
        intro g1 g2 n
        rw [covers_cons]
        exact emit_prop (meet_emit i j hi' hj' g1 g2 n)
      have emitY : lo X[i]! ≤ lo Y[j]! → hi Y[j]! ≤ hi X[i]! →
          ∀ n, Covers (Y[j]! :: acc) n ∨ Meet X Y i (j+1) n ↔ Covers acc n ∨ Meet X Y i j n := by
        intro g1 g2 n
        rw [covers_cons, meet_swap X Y i (j+1), meet_swap X Y i j]
        exact emit_prop (meet_emit j i hj' hi' g1 g2 n)
      by_cases h1 : rangeMin Y[j]! < rangeMin X[i]!
      · have h1n : lo Y[j]! < lo X[i]! := UInt64.lt_iff_toNat_lt.mp h1
        by_cases h2 : X[i]! ≤ rangeMax Y[j]!
        · have h2n : X[i]!.toNat ≤ hi Y[j]! := UInt64.le_iff_toNat_le.mp h2
          refine goOK_step (fun f => ?_) hmx (emitX (by omega) (cell_inside vxi vyj h1n h2n))
            (ih (i+1) j _ (by omega) hjY (by omega))
          have := go_x_emit X.toArray Y.toArray f i j acc hi'' hj''
          simp only [List.getElem!_toArray] at this
          exact this h1 h2
        · have h2n : hi Y[j]! < X[i]!.toNat := by
            have h2' := h2
            rw [UInt64.le_iff_toNat_le] at h2'
            have : hi Y[j]! = (rangeMax Y[j]!).toNat := rfl
            omega
          obtain ⟨k1, k2, k3, _⟩ := lowerBound_spec Y (j+1) Y.length (rangeMin X[i]!) (by omega)
          have heq := fun f => go_x_skip X.toArray Y.toArray f i j acc hi'' hj''
          simp only [List.getElem!_toArray, List.size_toArray] at heq
          generalize lowerBound Y.toArray (j+1) Y.length (rangeMin X[i]!) = j' at k1 k2 k3 heq
          obtain ⟨s1, s2, s3⟩ := skip_facts hvy hsy vxi j hj' h1n h2n j' k1 k2 k3
          generalize (if X[i]! ≤ rangeMax Y[j' - 1]! then j' - 1 else j') = j2 at s1 s2 s3 heq
          refine goOK_step (fun f => heq f h1 h2) (fun c hc => Or.inl hc) (fun n => ?_)
            (ih i j2 acc hiX s2 (by omega))
          rw [meet_skip hvx hsx i j j2 hi' (by omega) (fun t t1 t2 _ => s3 t t1 t2) n]
      · by_cases h1' : rangeMin X[i]! < rangeMin Y[j]!
        · have h1n : lo X[i]! < lo Y[j]! := UInt64.lt_iff_toNat_lt.mp h1'
          by_cases h2 : Y[j]! ≤ rangeMax X[i]!
          · have h2n : Y[j]!.toNat ≤ hi X[i]! := UInt64.le_iff_toNat_le.mp h2
            refine goOK_step (fun f => ?_) hmy (emitY (by omega) (cell_inside vyj vxi h1n h2n))
              (ih i (j+1) _ hiX (by omega) (by omega))
            have := go_y_emit X.toArray Y.toArray f i j acc hi'' hj''
            simp only [List.getElem!_toArray] at this
            exact this h1 h1' h2
          · have h2n : hi X[i]! < Y[j]!.toNat := by
              have h2' := h2
              rw [UInt64.le_iff_toNat_le] at h2'
              have : hi X[i]! = (rangeMax X[i]!).toNat := rfl
              omega
            obtain ⟨k1, k2, k3, _⟩ := lowerBound_spec X (i+1) X.length (rangeMin Y[j]!) (by omega)
            have heq := fun f => go_y_skip X.toArray Y.toArray f i j acc hi'' hj''
            simp only [List.getElem!_toArray, List.size_toArray] at heq
            generalize lowerBound X.toArray (i+1) X.length (rangeMin Y[j]!) = i' at k1 k2 k3 heq
            obtain ⟨s1, s2, s3⟩ := skip_facts hvx hsx vyj i hi' h1n h2n i' k1 k2 k3
            generalize (if Y[j]! ≤ rangeMax X[i' - 1]! then i' - 1 else i') = i2 at s1 s2 s3 heq
            refine goOK_step (fun f => heq f h1 h1' h2) (fun c hc => Or.inl hc) (fun n => ?_)
              (ih i2 j acc s2 hjY (by omega))
            rw [meet_swap X Y i2 j, meet_swap X Y i j,
              meet_skip hvy hsy j i i2 hj' (by omega) (fun t t1 t2 _ => s3 t t1 t2) n]
        · have hlo : lo X[i]! = lo Y[j]! := by
            have g1 := h1; have g2 := h1'
            rw [UInt64.lt_iff_toNat_lt] at g1 g2
            have : lo X[i]! = (rangeMin X[i]!).toNat := rfl
            have : lo Y[j]! = (rangeMin Y[j]!).toNat := rfl
            omega
          by_cases h2 : X[i]! < Y[j]!
          · have h2n : X[i]!.toNat < Y[j]!.toNat := UInt64.lt_iff_toNat_lt.mp h2
            refine goOK_step (fun f => ?_) hmx (emitX (by omega) (by omega))
              (ih (i+1) j _ (by omega) hjY (by omega))
            have := go_eq_x X.toArray Y.toArray f i j acc hi'' hj''
            simp only [List.getElem!_toArray] at this
            exact this h1 h1' h2
          · have h2n : Y[j]!.toNat ≤ X[i]!.toNat := by
              have h2' := h2
              rw [UInt64.lt_iff_toNat_lt] at h2'
              omega
            refine goOK_step (fun f => ?_) hmy (emitY (by omega) (by omega))
              (ih i (j+1) _ hiX (by omega) (by omega))
            have := go_eq_y X.toArray Y.toArray f i j acc hi'' hj''
            simp only [List.getElem!_toArray] at this
            exact this h1 h1' h2
    · exact goOK_exit hc

/-! ### main theorems -/

/-- The raw two-pointer intersection of two valid (sorted, disjoint) unions: every emitted cell is
    valid and the covered positions are exactly those covered by both inputs. -/
theorem intersectionRaw_spec (x y : CU) (hvx : AllValid x) (hsx : Sorted x) (hvy : AllValid y)
    (hsy : Sorted y) :
    AllValid (intersectionRaw x y) ∧
    ∀ n, Covers (intersectionRaw x y) n ↔ Covers x n ∧ Covers y n := by
  obtain ⟨a, b, _⟩ := go_ok hvx hsx hvy hsy (2 * (x.length + y.length) + 4) 0 0 []
    (Nat.zero_le _) (Nat.zero_le _) (by omega)
  unfold intersectionRaw
  simp only [List.size_toArray]
  refine ⟨?_, fun n => ?_⟩
  · rw [allValid_reverse]
    intro c hc
    rcases a c hc with h | h | h
    · simp at h
    · exact hvx c h
    · exact hvy c h
  · rw [covers_reverse, b n, meet_zero]
    constructor
    · rintro (h | h)
      · exact absurd h (covers_nil n)
      · exact h
    · exact Or.inr

/-- every emitted cell is a member of one of the inputs -/
theorem intersectionRaw_mem (x y : CU) (hvx : AllValid x) (hsx : Sorted x) (hvy : AllValid y)
    (hsy : Sorted y) : ∀ c ∈ intersectionRaw x y, c ∈ x ∨ c ∈ y := by
  obtain ⟨a, _, _⟩ := go_ok hvx hsx hvy hsy (2 * (x.length + y.length) + 4) 0 0 []
    (Nat.zero_le _) (Nat.zero_le _) (by omega)
  unfold intersectionRaw
  simp only [List.size_toArray, List.mem_reverse]
  intro c hc
  rcases a c hc with h | h
  · simp at h
  · exact h

/-- the fuel `2*(|x|+|y|)+4` always suffices: the loop has exited by itself, more fuel changes nothing -/
theorem intersectionRaw_fuel (x y : CU) (hvx : AllValid x) (hsx : Sorted x) (hvy : AllValid y)
    (hsy : Sorted y) (extra : Nat) :
    intersectionRaw.go x.toArray y.toArray (2 * (x.length + y.length) + 4 + extra) 0 0 [] =
    intersectionRaw.go x.toArray y.toArray (2 * (x.length + y.length) + 4) 0 0 [] :=
  (go_ok hvx hsx hvy hsy (2 * (x.length + y.length) + 4) 0 0 []
    (Nat.zero_le _) (Nat.zero_le _) (by omega)).2.2 extra

/-- `intersection` (raw loop followed by `normalize`): normal form, and the covered leaves are
    exactly the common leaves -/
theorem intersection_spec (x y : CU) (hvx : AllValid x) (hsx : Sorted x) (hvy : AllValid y)
    (hsy : Sorted y) :
    AllValid (intersection x y) ∧ Sorted (intersection x y) ∧ NoSib (intersection x y) ∧
    ∀ n, n % 2 = 1 → (Covers (intersection x y) n ↔ Covers x n ∧ Covers y n) := by
  obtain ⟨hv, hc⟩ := intersectionRaw_spec x y hvx hsx hvy hsy
  obtain ⟨n1, n2, n3, n4⟩ := normalize_spec (intersectionRaw x y) hv
  unfold intersection
  exact ⟨n1, n2, n3, fun n hn => by rw [n4 n hn, hc n]⟩

/-- non-vacuity: two valid unions (children 0,1 of face 0 and face 1; a grandchild, child 1 of face 0
    and face 2) on which the loop exercises the equal-`rangeMin`, emit and skip branches -/
example : isValidCU [0x0400000000000000, 0x0c00000000000000, 0x3000000000000000] = true ∧
    isValidCU [0x0100000000000000, 0x0c00000000000000, 0x5000000000000000] = true ∧
    intersectionRaw [0x0400000000000000, 0x0c00000000000000, 0x3000000000000000]
      [0x0100000000000000, 0x0c00000000000000, 0x5000000000000000] =
      [0x0100000000000000, 0x0c00000000000000] := by decide

end S2Proofs
