/-
  S2Proofs.CU.Children — leaf ranges of the four children of a cell; nothing lies strictly
  between a child and its parent.
-/
import S2Proofs.CU.Basic
open S2 S2.CellID S2.CellUnion
namespace S2Proofs

theorem IsCell.valid {x : CellID} {k : Nat} (h : IsCell x k) : isValid x = true :=
  (isValid_iff x).mpr ⟨k, h⟩

/-- the children tile the parent's leaf range in order -/
theorem IsCell.children_ranges {p : CellID} {j : Nat} (hp : IsCell p j) (hj : j < 30) :
    lo (child p 0) = lo p ∧ hi (child p 0) + 2 = lo (child p 1) ∧
    hi (child p 1) + 2 = lo (child p 2) ∧ hi (child p 2) + 2 = lo (child p 3) ∧
    hi (child p 3) = hi p := by
  have h0 := hp.child_isCell hj (t := 0) (by omega)
  have h1 := hp.child_isCell hj (t := 1) (by omega)
  have h2 := hp.child_isCell hj (t := 2) (by omega)
  have h3 := hp.child_isCell hj (t := 3) (by omega)
  show (rangeMin _).toNat = (rangeMin _).toNat ∧ (rangeMax _).toNat + 2 = (rangeMin _).toNat ∧
    (rangeMax _).toNat + 2 = (rangeMin _).toNat ∧ (rangeMax _).toNat + 2 = (rangeMin _).toNat ∧
    (rangeMax _).toNat = (rangeMax _).toNat
  rw [h0.rangeMin_eq, h0.rangeMax_eq, h1.rangeMin_eq, h1.rangeMax_eq, h2.rangeMin_eq, h2.rangeMax_eq,
    h3.rangeMin_eq, h3.rangeMax_eq, hp.rangeMin_eq, hp.rangeMax_eq,
    hp.child_toNat hj (t := 0) (by omega), hp.child_toNat hj (t := 1) (by omega),
    hp.child_toNat hj (t := 2) (by omega), hp.child_toNat hj (t := 3) (by omega)]
  obtain ⟨_, hf, hlow⟩ := hp
  interval_cases j <;> cell_omega

/-- a cell of level `k` is its own ancestor at level `k` -/
theorem IsCell.parent_self {x : CellID} {k : Nat} (h : IsCell x k) : parent x k = x := by
  apply UInt64.toNat_inj.mp
  rw [parent_toNat x k h.k_le]
  obtain ⟨hk, hf, hlow⟩ := h
  interval_cases k <;> cell_omega

theorem IsCell.eq_of_contains_same_level {x y : CellID} {k : Nat} (hx : IsCell x k) (hy : IsCell y k)
    (h : contains x y = true) : x = y := by
  have := ((hx.contains_iff_parent hy).mp h).2
  rw [hy.parent_self] at this; exact this.symm

/-- a valid cell between a child and its parent (as leaf ranges) is one of the two -/
theorem IsCell.between_child_parent {s z : CellID} {k t : Nat} (hs : IsCell s k) (hk : k < 30) (ht : t < 4)
    (hz : isValid z = true)
    (h1 : lo z ≤ lo (child s t) ∧ hi (child s t) ≤ hi z) (h2 : lo s ≤ lo z ∧ hi z ≤ hi s) :
    z = child s t ∨ z = s := by
  obtain ⟨i, hi'⟩ := (isValid_iff z).mp hz
  have hc := hs.child_isCell hk ht
  have c1 := (hi'.contains_range hc).mpr h1
  have c2 := (hs.contains_range hi').mpr h2
  have l1 := ((hi'.contains_iff_parent hc).mp c1).1
  have l2 := ((hs.contains_iff_parent hi').mp c2).1
  have : i = k ∨ i = k + 1 := by omega
  rcases this with rfl | rfl
  · right; exact (hs.eq_of_contains_same_level hi' c2).symm
  · left; exact hi'.eq_of_contains_same_level hc c1

end S2Proofs
