/-
  S2Proofs.CU.CellIndex — facts about the model `S2.CellIndex.build` of `CellIndex.Build`.

  Proved for ALL inputs (no validity hypothesis needed):
  * `build_ranges_sorted`   the `startID`s of the emitted range nodes are strictly increasing
                            (so every range `[StartID, LimitID)` is non-empty and the ranges are
                            in increasing order and contiguous by construction of `LimitID`);
  Proved under the `Add` contract (labels ≥ 0):
  * `build_tree_perm`       the label tree contains exactly the added `(cellID, label)` pairs
                            (as a multiset), in the order of the sorted deltas.
  * `build_wf`              (all inputs) parent links of the label tree point strictly backwards
                            (`-1 ≤ parent < own index`) and every range node's `contents` is `-1` or a
                            valid tree index — so every parent-chain walk of the contents iterator
                            terminates and never indexes out of range;
  * `chain_fuel`, `build_chain_fuel`  the fuel `tree.size + 1` of the parent-chain walk is never exhausted;
  Stated here, proved in `CU/CellIndexBuild.lean` (`build_contents_correct`): `CellIndex_contents_correct`.
-/
import S2.CellIndex
open S2 S2.CellID S2.CellIndex
namespace S2Proofs.CIdx

/-! ### the sort order of the deltas -/

theorem deltaLess_iff (a b : Delta) : deltaLess a b = true ↔
    a.startID.toNat < b.startID.toNat ∨ (a.startID.toNat = b.startID.toNat ∧
      (b.cellID.toNat < a.cellID.toNat ∨ (a.cellID.toNat = b.cellID.toNat ∧ a.label < b.label))) := by
  unfold deltaLess
  by_cases hs : a.startID = b.startID
  · by_cases hc : a.cellID = b.cellID
    · simp [hs, hc]
    · have hc' : a.cellID.toNat ≠ b.cellID.toNat := fun h => hc (UInt64.toNat_inj.mp h)
      simp [hs, hc, UInt64.lt_iff_toNat_lt, hc']
  · have hs' : a.startID.toNat ≠ b.startID.toNat := fun h => hs (UInt64.toNat_inj.mp h)
    simp [hs, UInt64.lt_iff_toNat_lt, hs']

/-- the `le` handed to `mergeSort` in `sortDeltas` -/
abbrev deltaLE (a b : Delta) : Bool := !deltaLess b a

theorem deltaLE_iff (a b : Delta) : deltaLE a b = true ↔ ¬ (deltaLess b a = true) := by
  simp [deltaLE]

theorem deltaLE_total (a b : Delta) : (deltaLE a b || deltaLE b a) = true := by
  rw [Bool.or_eq_true, deltaLE_iff, deltaLE_iff, deltaLess_iff, deltaLess_iff]; omega

theorem deltaLE_trans (a b c : Delta) : deltaLE a b = true → deltaLE b c = true → deltaLE a c = true := by
  rw [deltaLE_iff, deltaLE_iff, deltaLE_iff, deltaLess_iff, deltaLess_iff, deltaLess_iff]; omega

theorem deltaLE_start (a b : Delta) (h : deltaLE a b = true) : a.startID.toNat ≤ b.startID.toNat := by
  rw [deltaLE_iff, deltaLess_iff] at h; omega

/-- `deltaLess` is a strict TOTAL order on the three fields: two deltas that are not ordered either
    way are equal.  Hence the sorted delta list is unique and Go's unstable sort is modelled exactly. -/
theorem deltaLess_trichotomy (a b : Delta) (h1 : deltaLess a b = false) (h2 : deltaLess b a = false) : a = b := by
  have h1' : ¬ (deltaLess a b = true) := by simp [h1]
  have h2' : ¬ (deltaLess b a = true) := by simp [h2]
  rw [deltaLess_iff] at h1' h2'
  have e1 : a.startID = b.startID := UInt64.toNat_inj.mp (by omega)
  have e2 : a.cellID = b.cellID := UInt64.toNat_inj.mp (by omega)
  have e3 : a.label = b.label := by omega
  cases a; cases b; simp_all

/-- the sorted deltas are non-decreasing in `startID` -/
theorem sortDeltas_sorted (ds : List Delta) :
    (sortDeltas ds).Pairwise (fun a b => a.startID.toNat ≤ b.startID.toNat) := by
  have h := List.pairwise_mergeSort (le := fun a b => !deltaLess b a) deltaLE_trans deltaLE_total ds
  exact h.imp (fun {a b} hab => deltaLE_start a b hab)

theorem sortDeltas_perm (ds : List Delta) : (sortDeltas ds).Perm ds := List.mergeSort_perm _ _

/-! ### the range nodes are strictly increasing -/

def starts (r : Array RangeNode) : List Nat := r.toList.map (·.startID.toNat)

theorem starts_push (r : Array RangeNode) (n : RangeNode) : starts (r.push n) = starts r ++ [n.startID.toNat] := by
  simp [starts]

theorem buildLoop_ranges_sorted (ds : List Delta) (tree : Array TreeNode) (ranges : Array RangeNode) (contents : Int)
    (hs : ds.Pairwise (fun a b => a.startID.toNat ≤ b.startID.toNat))
    (hr : (starts ranges).Pairwise (· < ·))
    (hlt : ∀ s ∈ starts ranges, ∀ d ∈ ds, s < d.startID.toNat) :
    (starts (buildLoop ds tree ranges contents).ranges).Pairwise (· < ·) := by
  induction ds generalizing tree ranges contents with
  | nil => simpa [buildLoop] using hr
  | cons d rest ih =>
    unfold buildLoop
    cases rest with
    | nil =>
      simp only [starts_push]
      rw [List.pairwise_append]
      refine ⟨hr, by simp, ?_⟩
      intro a ha b hb
      simp only [List.mem_singleton] at hb
      subst hb
      exact hlt a ha d (by simp)
    | cons d' rest' =>
      have hs' := (List.pairwise_cons.mp hs)
      simp only
      split
      · -- same group: no node emitted
        apply ih _ _ _ hs'.2 hr
        intro s hs0 e he
        exact hlt s hs0 e (List.mem_cons_of_mem _ he)
      · rename_i hne
        have hne' : d'.startID.toNat ≠ d.startID.toNat := by
          intro h; apply hne; simp [UInt64.toNat_inj.mp h]
        have hdd' : d.startID.toNat < d'.startID.toNat := by
          have := hs'.1 d' (by simp); omega
        apply ih _ _ _ hs'.2
        · rw [starts_push, List.pairwise_append]
          refine ⟨hr, by simp, ?_⟩
          intro a ha b hb
          simp only [List.mem_singleton] at hb
          subst hb
          exact hlt a ha d (by simp)
        · intro s hs0 e he
          rw [starts_push, List.mem_append] at hs0
          rcases hs0 with hs0 | hs0
          · exact hlt s hs0 e (List.mem_cons_of_mem _ he)
          · simp only [List.mem_singleton] at hs0
            subst hs0
            rcases List.mem_cons.mp he with rfl | he'
            · exact hdd'
            · have := (List.pairwise_cons.mp hs'.2).1 e he'
              omega

/-- For every input: the range nodes produced by `Build` have strictly increasing `startID`s.
    Consequently each range `[ranges[p].startID, ranges[p+1].startID)` of `rangeList` is non-empty,
    and consecutive ranges are contiguous and in increasing order. -/
theorem build_ranges_sorted (cells : List (CellID × Int)) :
    (starts (build cells).ranges).Pairwise (· < ·) := by
  unfold build
  apply buildLoop_ranges_sorted _ _ _ _ (sortDeltas_sorted _)
  · simp [starts]
  · simp [starts]

/-! ### the tree holds exactly the added pairs -/

def treePairs (t : Array TreeNode) : List (CellID × Int) := t.toList.map fun n => (n.cellID, n.label)

def pushed (ds : List Delta) : List (CellID × Int) :=
  (ds.filter fun d => decide (d.label ≥ 0)).map fun d => (d.cellID, d.label)

theorem applyDelta_pairs (tree : Array TreeNode) (contents : Int) (d : Delta) :
    treePairs (applyDelta tree contents d).1 = treePairs tree ++ pushed [d] := by
  unfold applyDelta pushed
  by_cases h : d.label ≥ 0
  · simp [h, treePairs]
  · by_cases h2 : d.cellID == sentinel <;> simp [h, h2, treePairs]

theorem buildLoop_tree (ds : List Delta) (tree : Array TreeNode) (ranges : Array RangeNode) (contents : Int) :
    treePairs (buildLoop ds tree ranges contents).tree = treePairs tree ++ pushed ds := by
  induction ds generalizing tree ranges contents with
  | nil => simp [buildLoop, pushed]
  | cons d rest ih =>
    unfold buildLoop
    have hp : pushed (d :: rest) = pushed [d] ++ pushed rest := by
      simp only [pushed, ← List.map_append, ← List.filter_append]; rfl
    cases rest with
    | nil =>
      simp only
      rw [applyDelta_pairs]
    | cons d' rest' =>
      simp only
      split <;> rw [ih, applyDelta_pairs, hp, List.append_assoc]

theorem pushed_perm {a b : List Delta} (h : a.Perm b) : (pushed a).Perm (pushed b) :=
  (h.filter _).map _

theorem pushed_deltasOf (cells : List (CellID × Int)) (hl : ∀ p ∈ cells, 0 ≤ p.2) :
    pushed (deltasOf cells) = cells := by
  unfold deltasOf
  have hp : ∀ a b : List Delta, pushed (a ++ b) = pushed a ++ pushed b := by
    intro a b; simp [pushed]
  rw [hp]
  have h2 : pushed [ ({ startID := firstLeaf, cellID := 0, label := -1 } : Delta),
         { startID := endLeaf, cellID := 0, label := -1 } ] = [] := by
    simp [pushed]
  rw [h2, List.append_nil]
  induction cells with
  | nil => simp [pushed]
  | cons p rest ih =>
    rw [List.flatMap_cons, hp, ih (fun q hq => hl q (List.mem_cons_of_mem _ hq))]
    have := hl p (by simp)
    obtain ⟨c, l⟩ := p
    simp only at this
    simp [pushed, this]

/-- Under the contract of `Add` (labels ≥ 0): the nodes of the label tree are exactly the added
    `(cellID, label)` pairs, each as often as it was added. -/
theorem build_tree_perm (cells : List (CellID × Int)) (hl : ∀ p ∈ cells, 0 ≤ p.2) :
    (treePairs (build cells).tree).Perm cells := by
  unfold build
  rw [buildLoop_tree]
  have : treePairs #[] = [] := by simp [treePairs]
  rw [this, List.nil_append]
  have := pushed_perm (sortDeltas_perm (deltasOf cells))
  rwa [pushed_deltasOf cells hl] at this

/-- non-vacuity of the hypothesis: a face cell and one of its children, two labels -/
example : ∀ p ∈ [((0x1000000000000000 : CellID), (3 : Int)), (0x0400000000000000, 0)], 0 ≤ p.2 := by
  simp

/-! ### the label tree is well formed (all inputs) -/

/-- well-formed label tree: parent links point strictly backwards (or are `-1`) -/
def TreeWF (t : Array TreeNode) : Prop := ∀ i : Nat, i < t.size → -1 ≤ t[i]!.parent ∧ t[i]!.parent < (i : Int)

theorem default_parent : (default : TreeNode).parent = -1 := rfl

theorem applyDelta_wf (tree : Array TreeNode) (contents : Int) (d : Delta)
    (hw : TreeWF tree) (hc : -1 ≤ contents ∧ contents < (tree.size : Int)) :
    TreeWF (applyDelta tree contents d).1 ∧ -1 ≤ (applyDelta tree contents d).2 ∧
      (applyDelta tree contents d).2 < ((applyDelta tree contents d).1.size : Int) := by
  unfold applyDelta
  split
  · refine ⟨?_, by simp, by simp; omega⟩
    intro i hi
    simp only [Array.size_push] at hi
    by_cases h : i < tree.size
    · have := hw i h
      rw [getElem!_pos tree i h] at this
      rw [getElem!_pos _ i (by simp; omega), Array.getElem_push_lt h]
      exact this
    · have : i = tree.size := by omega
      subst this
      rw [getElem!_pos _ tree.size (by simp)]
      simp
      omega
  · split
    · refine ⟨hw, ?_⟩
      by_cases h : contents.toNat < tree.size
      · have := hw _ h
        simp only
        omega
      · simp only
        rw [getElem!_neg tree _ h]
        simp [default_parent]
        omega
    · exact ⟨hw, hc⟩

theorem buildLoop_wf (ds : List Delta) (tree : Array TreeNode) (ranges : Array RangeNode) (contents : Int)
    (hw : TreeWF tree) (hc : -1 ≤ contents ∧ contents < (tree.size : Int))
    (hr : ∀ r ∈ ranges.toList, -1 ≤ r.contents ∧ r.contents < (tree.size : Int)) :
    let ix := buildLoop ds tree ranges contents
    TreeWF ix.tree ∧ ∀ r ∈ ix.ranges.toList, -1 ≤ r.contents ∧ r.contents < (ix.tree.size : Int) := by
  induction ds generalizing tree ranges contents with
  | nil => exact ⟨hw, hr⟩
  | cons d rest ih =>
    unfold buildLoop
    have ha := applyDelta_wf tree contents d hw hc
    have hsz : tree.size ≤ (applyDelta tree contents d).1.size := by
      unfold applyDelta; split
      · simp
      · split <;> simp
    have hr' : ∀ r ∈ ranges.toList, -1 ≤ r.contents ∧ r.contents < ((applyDelta tree contents d).1.size : Int) := by
      intro r h; have := hr r h; omega
    have hpush : ∀ r ∈ (ranges.push { startID := d.startID, contents := (applyDelta tree contents d).2 }).toList,
        -1 ≤ r.contents ∧ r.contents < ((applyDelta tree contents d).1.size : Int) := by
      intro r h
      rw [Array.toList_push, List.mem_append] at h
      rcases h with h | h
      · exact hr' r h
      · simp only [List.mem_singleton] at h; subst h; exact ha.2
    cases rest with
    | nil => exact ⟨ha.1, hpush⟩
    | cons d' rest' =>
      simp only
      split
      · exact ih _ _ _ ha.1 ha.2 hr'
      · exact ih _ _ _ ha.1 ha.2 hpush

theorem build_wf (cells : List (CellID × Int)) :
    TreeWF (build cells).tree ∧
      ∀ r ∈ (build cells).ranges.toList, -1 ≤ r.contents ∧ r.contents < ((build cells).tree.size : Int) := by
  unfold build
  apply buildLoop_wf
  · intro i hi; simp at hi
  · simp
  · simp

/-! ### parent-chain walks terminate within the fuel -/

theorem chain_neg (t : Array TreeNode) (fuel : Nat) (i : Int) (h : i < 0) : chain t fuel i = [] := by
  cases fuel with
  | zero => rfl
  | succ f => simp [chain, h]

/-- With a well-formed tree the fuel `size + 1` given to `chain` is never exhausted: any fuel
    `> i` gives the same list as fuel `i + 1`. -/
theorem chain_fuel (t : Array TreeNode) (hw : TreeWF t) :
    ∀ (n : Nat) (i : Int) (fuel : Nat), i < (n : Int) → n ≤ t.size → i.toNat + 1 ≤ fuel →
      chain t fuel i = chain t (i.toNat + 1) i := by
  intro n
  induction n with
  | zero =>
    intro i fuel hi _ hf
    rw [chain_neg _ _ _ (by omega), chain_neg _ _ _ (by omega)]
  | succ n ih =>
    intro i fuel hi hn hf
    by_cases hneg : i < 0
    · rw [chain_neg _ _ _ hneg, chain_neg _ _ _ hneg]
    · cases fuel with
      | zero => omega
      | succ f =>
        have hlt : i.toNat < t.size := by omega
        have hp := hw i.toNat hlt
        rw [chain, chain]
        simp only [hneg, if_false]
        congr 1
        have hpi : t[i.toNat]!.parent < (n : Int) := by omega
        obtain ⟨hp1, hp2⟩ := hp
        generalize t[i.toNat]!.parent = q at *
        by_cases hq : q < 0
        · rw [chain_neg _ _ _ hq, chain_neg _ _ _ hq]
        · have h2 : q.toNat + 1 ≤ i.toNat := by omega
          have h1 : q.toNat + 1 ≤ f := by omega
          rw [ih _ f hpi (by omega) h1, ih _ i.toNat hpi (by omega) h2]

/-- the fuel used by the oracle / by `rangeObs` is sufficient for every range node of `build` -/
theorem build_chain_fuel (cells : List (CellID × Int)) (r : RangeNode) (hr : r ∈ (build cells).ranges.toList)
    (extra : Nat) :
    chain (build cells).tree ((build cells).tree.size + 1 + extra) r.contents =
      chain (build cells).tree ((build cells).tree.size + 1) r.contents := by
  obtain ⟨hw, hc⟩ := build_wf cells
  have := hc r hr
  rw [chain_fuel _ hw _ _ _ this.2 (Nat.le_refl _) (by omega),
      chain_fuel _ hw _ _ ((build cells).tree.size + 1) this.2 (Nat.le_refl _) (by omega)]

/-! ### the full correctness statement (proved in `CU/CellIndexBuild.lean`: `build_contents_correct`)

For all valid cells with non-negative labels: for every range node `[start, limit)` of the index and
EVERY leaf position `x` in it, walking the parent chain from the range's `contents` node reports
exactly the added pairs whose cell contains `x` (as a multiset); moreover the ranges tile the
whole curve `[firstLeaf, endLeaf)`.

The proof (files `CU/CellIndexStack.lean`, `CU/CellIndexBuild.lean`) is the stack invariant of `buildLoop`:
the pending pop positions are exactly the end positions of the stack entries and of the pairs still to be
pushed; the stack is nested; at equal `startID` all pops precede all pushes and larger cells are pushed
first.  The statement is additionally checked at run time by the oracle judge `Oracle.C11b.judgeRanges`
on the implementation's output (first / middle / last leaf of every range). -/
def CellIndex_contents_correct : Prop :=
  ∀ cells : List (CellID × Int), (∀ p ∈ cells, isValid p.1 = true ∧ 0 ≤ p.2) →
    let ix := build cells
    ((rangeList ix).head?.map (·.1) = some firstLeaf) ∧
    ((rangeList ix).getLast?.map (·.2.1) = some endLeaf) ∧
    ∀ r ∈ rangeList ix, ∀ x : Nat, x % 2 = 1 → r.1.toNat ≤ x → x < r.2.1.toNat →
      (chain ix.tree (ix.tree.size + 1) r.2.2).Perm (pairsAt cells x) ∧
      sortDedup ((chain ix.tree (ix.tree.size + 1) r.2.2).map (·.2)) = labelsAt cells x

end S2Proofs.CIdx
