/-
  S2Proofs.CU.FindCollapse — `collapseLimits`: sort by (leaf, start-before-end), merge equal keys.
-/
import S2Proofs.CU.FindDefs
open S2 S2.CellID S2.CellUnion S2.Intersect
namespace S2Proofs.FindP

theorem mem_insertNat (x y : Nat) (l : List Nat) : y ∈ insertNat x l ↔ y = x ∨ y ∈ l := by
  induction l with
  | nil => simp [insertNat]
  | cons z zs ih =>
    unfold insertNat
    split
    · simp
    · simp only [List.mem_cons, ih]
      constructor
      · rintro (h | h | h) <;> simp [h]
      · rintro (h | h | h) <;> simp [h]

theorem mem_sortNats (y : Nat) (l : List Nat) : y ∈ sortNats l ↔ y ∈ l := by
  induction l with
  | nil => simp [sortNats]
  | cons z zs ih =>
    have : sortNats (z :: zs) = insertNat z (sortNats zs) := rfl
    rw [this, mem_insertNat, ih]; simp

theorem limitLE_iff (a b : Limit) : limitLE a b = true ↔ key2 a ≤ key2 b := by
  unfold limitLE key2
  have h1 : a.leaf < b.leaf ↔ a.leaf.toNat < b.leaf.toNat := UInt64.lt_iff_toNat_lt
  have h2 : a.leaf = b.leaf ↔ a.leaf.toNat = b.leaf.toNat := UInt64.toNat_inj.symm
  simp only [Bool.or_eq_true, Bool.and_eq_true, decide_eq_true_eq, beq_iff_eq, h1, h2]
  cases a.typ <;> cases b.typ <;> simp <;> omega

theorem key2_eq_iff (a b : Limit) : key2 a = key2 b ↔ a.leaf = b.leaf ∧ a.typ = b.typ := by
  unfold key2
  have h2 : a.leaf = b.leaf ↔ a.leaf.toNat = b.leaf.toNat := UInt64.toNat_inj.symm
  rw [h2]
  cases a.typ <;> cases b.typ <;> simp <;> omega

theorem limitLE_trans (a b c : Limit) : limitLE a b = true → limitLE b c = true → limitLE a c = true := by
  simp only [limitLE_iff]; omega

theorem limitLE_total (a b : Limit) : (limitLE a b || limitLE b a) = true := by
  simp only [Bool.or_eq_true, limitLE_iff]; omega

theorem go_spec (rest : List Limit) : ∀ last : Limit,
    (last :: rest).Pairwise (fun a b => key2 a ≤ key2 b) →
    (collapseSorted.go last rest).Pairwise (fun a b => key2 a < key2 b) ∧
    (∀ l ∈ collapseSorted.go last rest, ∀ i, i ∈ l.indices ↔
        ∃ l' ∈ last :: rest, key2 l' = key2 l ∧ i ∈ l'.indices) ∧
    (∀ l' ∈ last :: rest, ∃ l ∈ collapseSorted.go last rest, key2 l = key2 l') ∧
    (∀ l ∈ collapseSorted.go last rest, ∃ l' ∈ last :: rest, key2 l' = key2 l) := by
  induction rest with
  | nil =>
    intro last _
    simp [collapseSorted.go, mem_sortNats, key2]
  | cons l rest ih =>
    intro last hp
    unfold collapseSorted.go
    split
    · rename_i hc
      simp only [Bool.and_eq_true, beq_iff_eq] at hc
      have hk : key2 l = key2 last := (key2_eq_iff _ _).2 hc
      have hk' : key2 ({ last with indices := last.indices ++ l.indices } : Limit) = key2 last := rfl
      have hp' : (({ last with indices := last.indices ++ l.indices } : Limit) :: rest).Pairwise
          (fun a b => key2 a ≤ key2 b) := by
        rw [List.pairwise_cons] at hp ⊢
        refine ⟨fun b hb => ?_, (List.pairwise_cons.1 hp.2).2⟩
        rw [hk']; exact hp.1 b (List.mem_cons_of_mem _ hb)
      obtain ⟨A, C, D, E⟩ := ih _ hp'
      refine ⟨A, ?_, ?_, ?_⟩
      · intro x hx i
        rw [C x hx i]
        simp only [List.mem_cons, exists_eq_or_imp, hk', hk, List.mem_append]
        constructor
        · rintro (⟨h1, h2 | h2⟩ | h)
          · exact Or.inl ⟨h1, h2⟩
          · exact Or.inr (Or.inl ⟨h1, h2⟩)
          · exact Or.inr (Or.inr h)
        · rintro (⟨h1, h2⟩ | ⟨h1, h2⟩ | h)
          · exact Or.inl ⟨h1, Or.inl h2⟩
          · exact Or.inl ⟨h1, Or.inr h2⟩
          · exact Or.inr h
      · intro l' hl'
        simp only [List.mem_cons] at hl'
        rcases hl' with rfl | rfl | h
        · obtain ⟨x, hx, hxe⟩ := D _ List.mem_cons_self
          exact ⟨x, hx, hxe.trans hk'⟩
        · obtain ⟨x, hx, hxe⟩ := D _ List.mem_cons_self
          exact ⟨x, hx, (hxe.trans hk').trans hk.symm⟩
        · exact D _ (List.mem_cons_of_mem _ h)
      · intro x hx
        obtain ⟨l', hl', he⟩ := E x hx
        simp only [List.mem_cons] at hl'
        rcases hl' with rfl | h
        · exact ⟨last, List.mem_cons_self, he⟩
        · exact ⟨l', List.mem_cons_of_mem _ (List.mem_cons_of_mem _ h), he⟩
    · rename_i hc
      simp only [Bool.and_eq_true, beq_iff_eq] at hc
      have hne : key2 l ≠ key2 last := fun h => hc ((key2_eq_iff _ _).1 h)
      rw [List.pairwise_cons] at hp
      have hlt : key2 last < key2 l := by
        have := hp.1 l List.mem_cons_self
        omega
      obtain ⟨A, C, D, E⟩ := ih l hp.2
      have hk' : key2 ({ last with indices := sortNats last.indices } : Limit) = key2 last := rfl
      have hge : ∀ x ∈ l :: rest, key2 last < key2 x := by
        intro x hx
        simp only [List.mem_cons] at hx
        rcases hx with rfl | h
        · exact hlt
        · have := (List.pairwise_cons.1 hp.2).1 x h
          omega
      have hge' : ∀ x ∈ collapseSorted.go l rest, key2 last < key2 x := by
        intro x hx
        obtain ⟨l', hl', he⟩ := E x hx
        rw [← he]; exact hge l' hl'
      refine ⟨?_, ?_, ?_, ?_⟩
      · rw [List.pairwise_cons]
        exact ⟨fun x hx => by rw [hk']; exact hge' x hx, A⟩
      · intro x hx i
        rw [List.mem_cons] at hx
        rcases hx with rfl | hx
        · simp only [mem_sortNats, hk']
          constructor
          · intro h; exact ⟨last, List.mem_cons_self, rfl, h⟩
          · rintro ⟨l', hl', he, hi⟩
            rw [List.mem_cons] at hl'
            rcases hl' with rfl | hl'
            · exact hi
            · have := hge l' hl'; omega
        · rw [C x hx i]
          constructor
          · rintro ⟨l', hl', he, hi⟩
            exact ⟨l', List.mem_cons_of_mem _ hl', he, hi⟩
          · rintro ⟨l', hl', he, hi⟩
            rw [List.mem_cons] at hl'
            rcases hl' with rfl | hl'
            · have := hge' x hx; omega
            · exact ⟨l', hl', he, hi⟩
      · intro l' hl'
        rw [List.mem_cons] at hl'
        rcases hl' with rfl | hl'
        · exact ⟨_, List.mem_cons_self, hk'⟩
        · obtain ⟨x, hx, he⟩ := D l' hl'
          exact ⟨x, List.mem_cons_of_mem _ hx, he⟩
      · intro x hx
        rw [List.mem_cons] at hx
        rcases hx with rfl | hx
        · exact ⟨last, List.mem_cons_self, hk'.symm⟩
        · obtain ⟨l', hl', he⟩ := E x hx
          exact ⟨l', List.mem_cons_of_mem _ hl', he⟩

/-- the collapsed list has strictly increasing keys, its keys are exactly the keys of the input, and
    the index list of an entry has exactly the members of the index lists of the input limits with
    that key -/
theorem collapse_spec (lims : List Limit) :
    (collapseLimits lims).Pairwise (fun a b => key2 a < key2 b) ∧
    (∀ l ∈ collapseLimits lims, ∀ i, i ∈ l.indices ↔
        ∃ l' ∈ lims, l'.leaf = l.leaf ∧ l'.typ = l.typ ∧ i ∈ l'.indices) ∧
    (∀ l' ∈ lims, ∃ l ∈ collapseLimits lims, l.leaf = l'.leaf ∧ l.typ = l'.typ) ∧
    (∀ l ∈ collapseLimits lims, ∃ l' ∈ lims, l'.leaf = l.leaf ∧ l'.typ = l.typ) := by
  unfold collapseLimits
  have hs : (lims.mergeSort limitLE).Pairwise (fun a b => key2 a ≤ key2 b) := by
    have := List.pairwise_mergeSort limitLE_trans limitLE_total lims
    simpa only [limitLE_iff] using this
  have hm : ∀ x, x ∈ lims.mergeSort limitLE ↔ x ∈ lims := fun x => List.mem_mergeSort
  generalize lims.mergeSort limitLE = S at hs hm
  cases S with
  | nil =>
    have : ∀ x, x ∉ lims := fun x hx => by simpa using (hm x).2 hx
    simp only [collapseSorted, List.Pairwise.nil, List.not_mem_nil, false_imp_iff, implies_true,
      true_and, false_and, exists_false, and_true]
    intro l' hl'; exact absurd hl' (this l')
  | cons a S =>
    simp only [collapseSorted]
    obtain ⟨A, C, D, E⟩ := go_spec S a hs
    simp only [hm, key2_eq_iff] at C D E
    refine ⟨A, ?_, D, E⟩
    intro l hl i
    rw [C l hl i]
    simp only [and_assoc]

/-- non-vacuity of the hypothesis of `go_spec` (a key-sorted list with a repeated key) -/
example : ([⟨3, true, [0]⟩, ⟨5, false, [1]⟩, ⟨5, false, [0]⟩] : List Limit).Pairwise
    (fun a b => key2 a ≤ key2 b) := by decide

example : collapseSorted
    [⟨3, true, [0]⟩, ⟨5, false, [1]⟩, ⟨5, false, [0]⟩] = [⟨3, true, [0]⟩, ⟨5, false, [0, 1]⟩] := by
  decide

example : collapseLimits
    [⟨5, false, [1]⟩, ⟨3, true, [0]⟩, ⟨5, false, [0]⟩] = [⟨3, true, [0]⟩, ⟨5, false, [0, 1]⟩] := by
  simp [collapseLimits, List.mergeSort, List.MergeSort.Internal.splitInTwo, limitLE,
    collapseSorted, collapseSorted.go, sortNats, insertNat]

end S2Proofs.FindP
