/-
  S2Proofs.CU.Normal — leaf-set semantics (`Covers`), the list-level normal-form predicates
  (`AllValid`, `Sorted`, `NoSib`) and their equivalence with the executable checkers
  `isValidCU` / `isNormalizedCU`.
-/
import S2Proofs.CU.Children
open S2 S2.CellID S2.CellUnion
namespace S2Proofs

/-- the position `n` lies in the leaf range of some cell of `cu` -/
def Covers (cu : CU) (n : Nat) : Prop := ∃ c ∈ cu, lo c ≤ n ∧ n ≤ hi c

theorem coversLeaf_iff (cu : CU) (n : Nat) : coversLeaf cu n = true ↔ Covers cu n := by
  unfold coversLeaf Covers
  simp [List.any_eq_true]

theorem coversLeaf_eq_iff (a b : CU) (n : Nat) :
    coversLeaf a n = coversLeaf b n ↔ (Covers a n ↔ Covers b n) := by
  rw [← coversLeaf_iff, ← coversLeaf_iff]
  cases coversLeaf a n <;> cases coversLeaf b n <;> simp

def AllValid (cu : CU) : Prop := ∀ c ∈ cu, isValid c = true
/-- strictly increasing with pairwise disjoint leaf ranges -/
def Sorted (cu : CU) : Prop := List.Pairwise (fun x y => hi x < lo y) cu
/-- no four consecutive entries form a complete sibling group -/
def NoSib (cu : CU) : Prop := ∀ a b c d, [a, b, c, d] <:+: cu → areSiblings a b c d = false

/-! ### `isValidCU` -/

theorem isValidCU_go_iff (p : CellID) (hp : isValid p = true) (l : CU) :
    isValidCU.go p l = true ↔ AllValid l ∧ Sorted (p :: l) := by
  induction l generalizing p with
  | nil => simp [isValidCU.go, AllValid, Sorted]
  | cons c rest ih =>
    unfold isValidCU.go
    by_cases hc : isValid c = true
    · have hlt : (!(rangeMax p ≥ rangeMin c)) = true ↔ hi p < lo c := by
        simp [UInt64.le_iff_toNat_le, lo, hi]
      rw [Bool.and_eq_true, Bool.and_eq_true, ih c hc, hlt]
      unfold AllValid Sorted
      constructor
      · rintro ⟨⟨_, h1⟩, hv, h3⟩
        have h3' := List.pairwise_cons.mp h3
        refine ⟨?_, List.pairwise_cons.mpr ⟨?_, h3⟩⟩
        · intro x hx
          rcases List.mem_cons.mp hx with rfl | hx
          · exact hc
          · exact hv x hx
        · intro a ha
          rcases List.mem_cons.mp ha with rfl | ha
          · exact h1
          · have := h3'.1 a ha
            have fc := valid_facts hc
            omega
      · rintro ⟨hv, h3⟩
        have h3' := List.pairwise_cons.mp h3
        exact ⟨⟨hc, h3'.1 c (List.mem_cons_self ..)⟩, fun x hx => hv x (List.mem_cons_of_mem _ hx), h3'.2⟩
    · simp [hc, AllValid]

theorem isValidCU_iff (cu : CU) : isValidCU cu = true ↔ AllValid cu ∧ Sorted cu := by
  cases cu with
  | nil => simp [isValidCU, AllValid, Sorted]
  | cons c rest =>
    unfold isValidCU
    by_cases hc : isValid c = true
    · rw [Bool.and_eq_true, isValidCU_go_iff c hc]
      simp [AllValid, hc]
    · simp [hc, AllValid]

/-! ### `isNormalizedCU` -/

theorem isNormalizedCU_idx (cu : CU) : isNormalizedCU cu = true ↔
    ∀ i, i < cu.length → isValid cu[i]! = true ∧ (i = 0 ∨ hi cu[i-1]! < lo cu[i]!) ∧
      (i < 3 ∨ areSiblings cu[i-3]! cu[i-2]! cu[i-1]! cu[i]! = false) := by
  unfold isNormalizedCU
  simp only [List.all_eq_true, List.mem_range, List.size_toArray, List.getElem!_toArray, Bool.and_eq_true,
    Bool.or_eq_true, beq_iff_eq, Bool.not_eq_true', decide_eq_true_eq, decide_eq_false_iff_not, ge_iff_le,
    UInt64.le_iff_toNat_le, Nat.not_le, and_assoc]

theorem four_infix {α} (l : List α) (i : Nat) (h : i + 3 < l.length) :
    [l[i], l[i+1], l[i+2], l[i+3]] <:+: l := by
  refine ⟨l.take i, l.drop (i+4), ?_⟩
  have e0 : l.drop i = l[i] :: l.drop (i+1) := List.drop_eq_getElem_cons (by omega)
  have e1 : l.drop (i+1) = l[i+1] :: l.drop (i+2) := List.drop_eq_getElem_cons (by omega)
  have e2 : l.drop (i+2) = l[i+2] :: l.drop (i+3) := List.drop_eq_getElem_cons (by omega)
  have e3 : l.drop (i+3) = l[i+3] :: l.drop (i+4) := List.drop_eq_getElem_cons (by omega)
  conv_rhs => rw [← List.take_append_drop i l, e0, e1, e2, e3]
  simp

theorem isNormalizedCU_iff (cu : CU) :
    isNormalizedCU cu = true ↔ AllValid cu ∧ Sorted cu ∧ NoSib cu := by
  rw [isNormalizedCU_idx]
  constructor
  · intro h
    have hv : AllValid cu := by
      intro c hc
      obtain ⟨i, hi', rfl⟩ := List.mem_iff_getElem.mp hc
      have := (h i hi').1
      rwa [getElem!_pos cu i hi'] at this
    have hadj : ∀ i (h1 : i + 1 < cu.length), hi cu[i] < lo cu[i+1] := by
      intro i h1
      have := (h (i+1) h1).2.1
      rcases this with h0 | h0
      · omega
      · rw [getElem!_pos cu (i+1) h1, getElem!_pos cu (i+1-1) (by omega)] at h0
        simpa using h0
    refine ⟨hv, ?_, ?_⟩
    · unfold Sorted; rw [List.pairwise_iff_getElem]
      have key : ∀ d i (h1 : i + d + 1 < cu.length), hi cu[i] < lo cu[i+d+1] := by
        intro d
        induction d with
        | zero => intro i h1; exact hadj i h1
        | succ d ih =>
          intro i h1
          have a := ih i (by omega)
          have b := hadj (i+d+1) (by omega)
          have fv := valid_facts (hv cu[i+d+1] (List.getElem_mem _))
          have e : i + (d+1) + 1 = i + d + 1 + 1 := by omega
          simp only [e]
          omega
      intro i j hi' hj hij
      have := key (j - i - 1) i (by omega)
      have e : i + (j - i - 1) + 1 = j := by omega
      simp only [e] at this
      exact this
    · rintro a b c d ⟨l1, l2, rfl⟩
      have := (h (l1.length + 3) (by simp)).2.2
      rcases this with h0 | h0
      · omega
      · simpa using h0
  · rintro ⟨hv, hs, hn⟩ i hi'
    unfold Sorted at hs; rw [List.pairwise_iff_getElem] at hs
    refine ⟨?_, ?_, ?_⟩
    · rw [getElem!_pos cu i hi']; exact hv _ (List.getElem_mem _)
    · by_cases h0 : i = 0
      · exact Or.inl h0
      · right
        rw [getElem!_pos cu i hi', getElem!_pos cu (i-1) (by omega)]
        exact hs (i-1) i (by omega) hi' (by omega)
    · by_cases h3 : i < 3
      · exact Or.inl h3
      · right
        rw [getElem!_pos cu i hi', getElem!_pos cu (i-1) (by omega), getElem!_pos cu (i-2) (by omega),
          getElem!_pos cu (i-3) (by omega)]
        apply hn
        have := four_infix cu (i-3) (by omega)
        have e1 : i - 3 + 1 = i - 2 := by omega
        have e2 : i - 3 + 2 = i - 1 := by omega
        have e3 : i - 3 + 3 = i := by omega
        simp only [e1, e2, e3] at this
        exact this
end S2Proofs
