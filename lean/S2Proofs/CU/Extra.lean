/-
  S2Proofs.CU.Extra — small helpers used by the property file.
-/
import S2Proofs.CU.Normal
open S2 S2.CellID S2.CellUnion
namespace S2Proofs

theorem covers_single (id : CellID) (n : Nat) : Covers [id] n ↔ lo id ≤ n ∧ n ≤ hi id := by
  unfold Covers; simp

end S2Proofs
