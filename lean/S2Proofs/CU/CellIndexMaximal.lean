/-
  S2Proofs.CU.CellIndexMaximal — the ranges produced by `Build` are MAXIMAL: two consecutive ranges
  never have the same contents (every interior range boundary is the first leaf of an indexed cell or
  the position right after the last leaf of one).  Also: every range start id is a leaf position (odd).
-/
import S2Proofs.CU.ContentsIterBuild
open S2 S2.CellID S2.CellIndex
namespace S2Proofs.CIdx

theorem absLoop_start_mem (ds : List Delta) : ∀ (s : List Ent) (T : Nat),
    ∀ o ∈ absLoop ds s T, ∃ d ∈ ds, o.1 = d.startID := by
  induction ds with
  | nil => intro s T o ho; simp [absLoop] at ho
  | cons d rest ih =>
    intro s T o ho
    cases rest with
    | nil =>
      simp only [absLoop, List.mem_singleton] at ho
      subst ho
      exact ⟨d, by simp, rfl⟩
    | cons d' rest' =>
      unfold absLoop at ho
      simp only at ho
      have hrec : ∀ o ∈ absLoop (d' :: rest') (absStep s T d).1 (absStep s T d).2,
          ∃ d0 ∈ d :: d' :: rest', o.1 = d0.startID := by
        intro o ho
        obtain ⟨d0, hd0, e⟩ := ih _ _ o ho
        exact ⟨d0, List.mem_cons_of_mem _ hd0, e⟩
      split at ho
      · exact hrec o ho
      · rcases List.mem_cons.mp ho with rfl | ho
        · exact ⟨d, by simp, rfl⟩
        · exact hrec o ho

/-- every range node's start id is the start id of a delta -/
theorem build_start_mem (cells : List Pair) (p : Nat) (hp : p < (build cells).ranges.size) :
    ∃ d ∈ deltasOf cells, (build cells).ranges[p]!.startID = d.startID := by
  have hmem : (obsList cells)[p]'(by rw [obsList_length]; exact hp) ∈ obsList cells := List.getElem_mem _
  have hall : ∀ o ∈ obsList cells, ∃ d ∈ sortDeltas (deltasOf cells), o.1 = d.startID := by
    have hobs : obsList cells = absLoop (sortDeltas (deltasOf cells)) [] 0 := build_obs cells
    rw [hobs]; exact absLoop_start_mem _ _ _
  obtain ⟨d, hd, e⟩ := hall _ hmem
  rw [obsList_get cells p hp] at e
  exact ⟨d, (sortDeltas_perm _).mem_iff.mp hd, e⟩

/-- (contract) range start ids are leaf positions -/
theorem build_start_odd (cells : List Pair) (h : CellsOK cells) (p : Nat) (hp : p < (build cells).ranges.size) :
    (build cells).ranges[p]!.startID.toNat % 2 = 1 := by
  obtain ⟨d, hd, e⟩ := build_start_mem cells p hp
  rw [e]
  rcases mem_deltasOf hd with ⟨q, hq, rfl⟩ | ⟨q, hq, rfl⟩ | rfl | rfl
  · exact (valid_facts (h q hq).1).1
  · have f := valid_facts (h q hq).1
    simp only [next_rangeMax_toNat (h q hq).1]
    omega
  · simp [firstLeaf_toNat]
  · simp [endLeaf_toNat]

/-- (contract) **maximality**: two consecutive ranges have different contents — some indexed pair
    lies on exactly one of the two chains -/
theorem build_maximal (cells : List Pair) (h : CellsOK cells) (p : Nat) (hp : p + 2 < (build cells).ranges.size) :
    ∃ q : Pair,
      (q ∈ pairsOf (stk (build cells).tree (build cells).ranges[p]!.contents) ∧
        q ∉ pairsOf (stk (build cells).tree (build cells).ranges[p+1]!.contents)) ∨
      (q ∉ pairsOf (stk (build cells).tree (build cells).ranges[p]!.contents) ∧
        q ∈ pairsOf (stk (build cells).tree (build cells).ranges[p+1]!.contents)) := by
  obtain ⟨hsz, hfirst, hlast, _⟩ := build_ends cells h
  have hch := build_chained cells h
  have hsorted := build_ranges_sorted cells
  have hlt : ∀ a b, a < b → b < (build cells).ranges.size →
      (build cells).ranges[a]!.startID.toNat < (build cells).ranges[b]!.startID.toNat := by
    intro a b hab hb
    have := (List.pairwise_iff_getElem.mp hsorted) a b (by simp [starts]; omega) (by simp [starts]; exact hb) hab
    simp only [starts, List.getElem_map, Array.getElem_toList] at this
    rw [getElem!_pos _ a (by omega), getElem!_pos _ b hb]
    exact this
  -- the boundary y between the two ranges
  have hy0 := hlt p (p+1) (by omega) (by omega)
  have hy1 := hlt (p+1) (p+2) (by omega) (by omega)
  have hodd0 := build_start_odd cells h p (by omega)
  have hodd1 := build_start_odd cells h (p+1) (by omega)
  -- chains at y-2 and at y
  have hR0 := hch.get p (by rw [obsList_length]; omega)
  rw [obsList_get cells p (by omega), obsList_get cells (p+1) (by omega)] at hR0
  have hR1 := hch.get (p+1) (by rw [obsList_length]; omega)
  rw [obsList_get cells (p+1) (by omega), obsList_get cells (p+2) (by omega)] at hR1
  have hP0 := hR0 ((build cells).ranges[p+1]!.startID.toNat - 2) (by omega) (by simp only; omega) (by simp only; omega)
  have hP1 := hR1 ((build cells).ranges[p+1]!.startID.toNat) hodd1 (by simp only; omega) (by simp only; omega)
  simp only at hP0 hP1
  -- y is strictly inside (firstLeaf, endLeaf), so it is a cell start or a cell end
  have hgt : 1 < (build cells).ranges[p+1]!.startID.toNat := by
    have := hlt 0 (p+1) (by omega) (by omega)
    rw [hfirst, firstLeaf_toNat] at this; omega
  have hle : (build cells).ranges[p+1]!.startID.toNat < 6 * 2^61 + 1 := by
    have := hlt (p+1) ((build cells).ranges.size - 1) (by omega) (by omega)
    rw [hlast, endLeaf_toNat] at this; exact this
  obtain ⟨d, hd, e⟩ := build_start_mem cells (p+1) (by omega)
  rcases mem_deltasOf hd with ⟨q, hq, rfl⟩ | ⟨q, hq, rfl⟩ | rfl | rfl
  · -- a cell starts at y: on the second chain only
    have f := valid_facts (h q hq).1
    have e' : (build cells).ranges[p+1]!.startID.toNat = (rangeMin q.1).toNat := by rw [e]
    have f1 : (rangeMin q.1).toNat ≤ (rangeMax q.1).toNat := by show lo q.1 ≤ hi q.1; omega
    refine ⟨q, Or.inr ⟨?_, ?_⟩⟩
    · intro hin
      have := hP0.mem_iff.mp hin
      rw [pairsAt_eq, List.mem_filter] at this
      simp only [inCell, Bool.and_eq_true, decide_eq_true_eq] at this
      omega
    · apply hP1.mem_iff.mpr
      rw [pairsAt_eq, List.mem_filter]
      refine ⟨hq, ?_⟩
      simp only [inCell, Bool.and_eq_true, decide_eq_true_eq]
      omega
  · -- a cell ends right before y: on the first chain only
    have f := valid_facts (h q hq).1
    have hn := next_rangeMax_toNat (h q hq).1
    have e' : (build cells).ranges[p+1]!.startID.toNat = (rangeMax q.1).toNat + 2 := by rw [e]; exact hn
    have f1 : (rangeMin q.1).toNat ≤ (rangeMax q.1).toNat := by show lo q.1 ≤ hi q.1; omega
    refine ⟨q, Or.inl ⟨?_, ?_⟩⟩
    · apply hP0.mem_iff.mpr
      rw [pairsAt_eq, List.mem_filter]
      refine ⟨hq, ?_⟩
      simp only [inCell, Bool.and_eq_true, decide_eq_true_eq]
      omega
    · intro hin
      have := hP1.mem_iff.mp hin
      rw [pairsAt_eq, List.mem_filter] at this
      simp only [inCell, Bool.and_eq_true, decide_eq_true_eq] at this
      omega
  · simp only at e; rw [e, firstLeaf_toNat] at hgt; omega
  · simp only at e; rw [e, endLeaf_toNat] at hle; omega

end S2Proofs.CIdx
