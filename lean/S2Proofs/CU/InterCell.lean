/-
  S2Proofs.CU.InterCell — `intersectionWithCellID` (model of `CellUnionFromIntersectionWithCellID`).
-/
import S2Proofs.CU.Search
open S2 S2.CellID S2.CellUnion
namespace S2Proofs

/-- linear `lowerBound`: the first index `≥ i` (below `e`) whose id is `≥ id`, else `e` -/
theorem iwc_lowerBound_go (a : Array CellID) (e : Nat) (id : CellID) :
    ∀ (fuel i : Nat), i ≤ e → e - i ≤ fuel →
      i ≤ lowerBound.go a e id fuel i ∧ lowerBound.go a e id fuel i ≤ e ∧
      (∀ t, i ≤ t → t < lowerBound.go a e id fuel i → a[t]!.toNat < id.toNat) ∧
      (lowerBound.go a e id fuel i < e → id.toNat ≤ a[lowerBound.go a e id fuel i]!.toNat) := by
  intro fuel
  induction fuel with
  | zero =>
    intro i hi hf
    unfold lowerBound.go
    exact ⟨hi, Nat.le_refl _, fun t h1 h2 => by omega, fun h => by omega⟩
  | succ fuel ih =>
    intro i hi hf
    unfold lowerBound.go
    by_cases hlt : i < e
    · simp only [hlt, ↓reduceIte]
      by_cases hge : a[i]! ≥ id
      · simp only [hge, ↓reduceIte]
        exact ⟨Nat.le_refl _, hi, fun t h1 h2 => by omega, fun _ => UInt64.le_iff_toNat_le.mp hge⟩
      · simp only [hge, ↓reduceIte]
        obtain ⟨r1, r2, r3, r4⟩ := ih (i+1) (by omega) (by omega)
        refine ⟨by omega, r2, fun t h1 h2 => ?_, r4⟩
        by_cases ht : t = i
        · subst ht
          have : ¬ id.toNat ≤ a[t]!.toNat := fun h => hge (UInt64.le_iff_toNat_le.mpr h)
          omega
        · exact r3 t (by omega) h2
    · simp only [hlt, ↓reduceIte]
      exact ⟨hi, Nat.le_refl _, fun t h1 h2 => by omega, fun h => by omega⟩

/-- members selected by `drop (lowerBound …)` then `takeWhile (· ≤ m)` in a list sorted by id -/
theorem iwc_select {cu : CU} (hmono : ∀ s t, s ≤ t → t < cu.length → cu[s]!.toNat ≤ cu[t]!.toNat)
    (v m : CellID) (c : CellID) :
    c ∈ ((cu.toArray.toList.drop (lowerBound cu.toArray 0 cu.toArray.size v)).takeWhile (fun c => c ≤ m)) ↔
      c ∈ cu ∧ v.toNat ≤ c.toNat ∧ c.toNat ≤ m.toNat := by
  simp only [List.size_toArray]
  unfold lowerBound
  obtain ⟨r1, r2, r3, r4⟩ := iwc_lowerBound_go cu.toArray cu.length v (cu.length - 0) 0 (Nat.zero_le _) (Nat.le_refl _)
  simp only [List.getElem!_toArray] at r3 r4
  generalize lowerBound.go cu.toArray cu.length v (cu.length - 0) 0 = r at r1 r2 r3 r4
  -- membership in takeWhile over a list sorted by id
  have tw : ∀ (l : CU), List.Pairwise (fun a b : CellID => a.toNat ≤ b.toNat) l →
      ∀ c, c ∈ l.takeWhile (fun c => c ≤ m) ↔ c ∈ l ∧ c.toNat ≤ m.toNat := by
    intro l
    induction l with
    | nil => intro _ c; simp
    | cons x l ih =>
      intro hp c
      rw [List.pairwise_cons] at hp
      by_cases hx : x ≤ m
      · rw [List.takeWhile_cons_of_pos (by simpa using hx), List.mem_cons, List.mem_cons, ih hp.2]
        constructor
        · rintro (rfl | ⟨h1, h2⟩)
          · exact ⟨Or.inl rfl, UInt64.le_iff_toNat_le.mp hx⟩
          · exact ⟨Or.inr h1, h2⟩
        · rintro ⟨rfl | h1, h2⟩
          · exact Or.inl rfl
          · exact Or.inr ⟨h1, h2⟩
      · rw [List.takeWhile_cons_of_neg (by simpa using hx)]
        have hx' : ¬ x.toNat ≤ m.toNat := fun h => hx (UInt64.le_iff_toNat_le.mpr h)
        constructor
        · intro h; simp at h
        · rintro ⟨h1, h2⟩
          rcases List.mem_cons.mp h1 with rfl | h1
          · exact absurd h2 hx'
          · have := hp.1 c h1; omega
  have hsorted : List.Pairwise (fun a b : CellID => a.toNat ≤ b.toNat) (cu.drop r) := by
    rw [List.pairwise_iff_getElem]
    intro i j hi hj hij
    simp only [List.getElem_drop]
    have hj' : r + j < cu.length := by simp at hj; omega
    have := hmono (r + i) (r + j) (by omega) hj'
    rw [getElem!_pos cu (r+i) (by omega), getElem!_pos cu (r+j) hj'] at this
    exact this
  rw [tw _ hsorted]
  constructor
  · rintro ⟨hc, hm⟩
    obtain ⟨t, ht, rfl⟩ := List.mem_iff_getElem.mp hc
    simp only [List.getElem_drop]
    have ht' : r + t < cu.length := by simp at ht; omega
    refine ⟨List.getElem_mem _, ?_, by simpa [List.getElem_drop] using hm⟩
    have h1 := r4 (by omega)
    have h2 := hmono r (r + t) (by omega) ht'
    rw [getElem!_pos cu (r+t) ht'] at h2
    omega
  · rintro ⟨hc, hv, hm⟩
    refine ⟨?_, hm⟩
    obtain ⟨t, ht, rfl⟩ := List.mem_iff_getElem.mp hc
    by_cases htr : t < r
    · have := r3 t (Nat.zero_le _) htr
      rw [getElem!_pos cu t ht] at this
      omega
    · rw [List.mem_iff_getElem]
      refine ⟨t - r, by simp; omega, ?_⟩
      simp only [List.getElem_drop]
      congr 1; omega

theorem intersectionWithCellID_spec (x : CU) (id : CellID) (hv : AllValid x) (hs : Sorted x)
    (hid : isValid id = true) :
    AllValid (intersectionWithCellID x id) ∧ Sorted (intersectionWithCellID x id) ∧
    NoSib (intersectionWithCellID x id) ∧
    ∀ n, n % 2 = 1 → (Covers (intersectionWithCellID x id) n ↔ Covers x n ∧ lo id ≤ n ∧ n ≤ hi id) := by
  have fid := valid_facts hid
  unfold intersectionWithCellID
  by_cases hc : containsCellID x id = true
  · simp only [hc, ↓reduceIte]
    have hv1 : AllValid [id] := by intro c hc'; simp at hc'; rw [hc']; exact hid
    obtain ⟨n1, n2, n3, n4⟩ := normalize_spec [id] hv1
    refine ⟨n1, n2, n3, fun n hn => ?_⟩
    rw [n4 n hn]
    obtain ⟨c, hcx, h1, h2⟩ := (containsCellID_iff_exists hv hs id).mp hc
    have hr := (contains_range (hv c hcx) hid).mp ((contains_iff c id).mpr ⟨h1, h2⟩)
    unfold Covers
    simp only [List.mem_singleton, exists_eq_left]
    constructor
    · intro ⟨g1, g2⟩; exact ⟨⟨c, hcx, by omega, by omega⟩, g1, g2⟩
    · intro ⟨_, g1, g2⟩; exact ⟨g1, g2⟩
  · simp only [hc, Bool.false_eq_true, ↓reduceIte]
    have hsel := iwc_select (sorted_mono hv hs) (rangeMin id) (rangeMax id)
    generalize ((x.toArray.toList.drop (lowerBound x.toArray 0 x.toArray.size (rangeMin id))).takeWhile
      (fun c => c ≤ rangeMax id)) = sel at hsel
    have hvs : AllValid sel := fun c hc' => hv c ((hsel c).mp hc').1
    obtain ⟨n1, n2, n3, n4⟩ := normalize_spec sel hvs
    refine ⟨n1, n2, n3, fun n hn => ?_⟩
    rw [n4 n hn]
    constructor
    · rintro ⟨c, hcs, h1, h2⟩
      obtain ⟨hcx, g1, g2⟩ := (hsel c).mp hcs
      have hr := (contains_range hid (hv c hcx)).mp ((contains_iff id c).mpr ⟨g1, g2⟩)
      exact ⟨⟨c, hcx, h1, h2⟩, by omega, by omega⟩
    · rintro ⟨⟨c, hcx, h1, h2⟩, g1, g2⟩
      have fc := valid_facts (hv c hcx)
      rcases nested_or_disjoint hid (hv c hcx) with h | h | h | h
      · exact ⟨c, (hsel c).mpr ⟨hcx, by show lo id ≤ c.toNat; omega, by show c.toNat ≤ hi id; omega⟩, h1, h2⟩
      · exfalso
        apply hc
        exact (containsCellID_iff_exists hv hs id).mpr ⟨c, hcx, by omega, by omega⟩
      · omega
      · omega

end S2Proofs
