/-
  S2Proofs.CU.CellIndexExample — a concrete index used by the non-vacuity examples.
  `build` goes through `List.mergeSort` (well-founded recursion, does not reduce in the kernel), so the
  sorted delta list is supplied explicitly and justified by uniqueness of sorted permutations.
-/
import S2Proofs.CU.ContentsIterBuild
open S2 S2.CellID S2.CellIndex
namespace S2Proofs.CIdx

/-- a list that is sorted by Go's comparator and a permutation of the deltas IS the sorted delta list -/
theorem sortDeltas_eq_of (ds L0 : List Delta) (hs : L0.Pairwise (fun a b => deltaLE a b = true)) (hp : L0.Perm ds) :
    sortDeltas ds = L0 := by
  apply List.Perm.eq_of_pairwise (le := fun a b => deltaLE a b = true)
  · intro a b _ _ h1 h2
    rw [deltaLE_iff] at h1 h2
    exact deltaLess_trichotomy a b (by simpa using h2) (by simpa using h1)
  · exact List.pairwise_mergeSort (le := fun a b => !deltaLess b a) deltaLE_trans deltaLE_total _
  · exact hs
  · exact (sortDeltas_perm ds).trans hp.symm

/-- face 0 with label 3 and its child 0 with label 0 -/
def cells0 : List Pair := [(0x1000000000000000, 3), (0x0400000000000000, 0)]

def deltas0 : List Delta := [
  ⟨1, 0x1000000000000000, 3⟩, ⟨1, 0x0400000000000000, 0⟩, ⟨1, 0, -1⟩,
  ⟨0x0800000000000001, sentinel, -1⟩, ⟨0x2000000000000001, sentinel, -1⟩, ⟨0xc000000000000001, 0, -1⟩]

/-- ranges of `build cells0`: 0 = child 0 of face 0 (both pairs), 1 = rest of face 0 (one pair),
    2 = faces 1..5 (empty), node 3 = sentinel -/
theorem build0 : build cells0 = buildLoop deltas0 #[] #[] (-1) := by
  unfold build
  rw [sortDeltas_eq_of (deltasOf cells0) deltas0 (by decide +kernel) (by decide +kernel)]

theorem cells0_ok : CellsOK cells0 := by unfold CellsOK; decide

end S2Proofs.CIdx
