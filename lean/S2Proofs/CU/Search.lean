/-
  S2Proofs.CU.Search — the binary search `searchGT` and the membership tests
  `containsCellID` / `intersectsCellID` (and their lifts to unions).
-/
import S2Proofs.CU.Normalize
open S2 S2.CellID S2.CellUnion
namespace S2Proofs

/-- index form of a valid sorted union -/
theorem idx_facts {cu : CU} (hv : AllValid cu) (hs : Sorted cu) :
    (∀ t, t < cu.length → isValid cu[t]! = true) ∧
    (∀ s t, s < t → t < cu.length → hi cu[s]! < lo cu[t]!) := by
  constructor
  · intro t ht
    rw [getElem!_pos cu t ht]; exact hv _ (List.getElem_mem _)
  · intro s t hst ht
    unfold Sorted at hs; rw [List.pairwise_iff_getElem] at hs
    rw [getElem!_pos cu t ht, getElem!_pos cu s (by omega)]
    exact hs s t (by omega) ht hst

theorem mem_iff_idx (cu : CU) (c : CellID) : c ∈ cu ↔ ∃ t, t < cu.length ∧ cu[t]! = c := by
  rw [List.mem_iff_getElem]
  constructor
  · rintro ⟨t, ht, rfl⟩; exact ⟨t, ht, getElem!_pos cu t ht⟩
  · rintro ⟨t, ht, rfl⟩; exact ⟨t, ht, (getElem!_pos cu t ht).symm⟩

theorem searchGT_go_spec (cu : CU) (id : CellID)
    (hmono : ∀ s t, s ≤ t → t < cu.length → cu[s]!.toNat ≤ cu[t]!.toNat) :
    ∀ (fuel i j : Nat), i ≤ j → j ≤ cu.length → j - i ≤ fuel →
      (∀ t, t < i → cu[t]!.toNat ≤ id.toNat) →
      (∀ t, j ≤ t → t < cu.length → id.toNat < cu[t]!.toNat) →
      i ≤ searchGT.go cu.toArray id fuel i j ∧ searchGT.go cu.toArray id fuel i j ≤ j ∧
      (∀ t, t < searchGT.go cu.toArray id fuel i j → cu[t]!.toNat ≤ id.toNat) ∧
      (∀ t, searchGT.go cu.toArray id fuel i j ≤ t → t < cu.length → id.toNat < cu[t]!.toNat) := by
  intro fuel
  induction fuel with
  | zero =>
    intro i j hij hj hf h1 h2
    have : i = j := by omega
    subst this
    unfold searchGT.go
    exact ⟨Nat.le_refl _, Nat.le_refl _, h1, h2⟩
  | succ fuel ih =>
    intro i j hij hj hf h1 h2
    unfold searchGT.go
    by_cases hlt : i < j
    · simp only [hlt, ↓reduceIte, List.getElem!_toArray]
      by_cases hc : id < cu[(i + j) / 2]!
      · simp only [hc, Bool.not_true, Bool.false_eq_true, ↓reduceIte, decide_true]
        have hc' : id.toNat < cu[(i + j) / 2]!.toNat := UInt64.lt_iff_toNat_lt.mp hc
        obtain ⟨r1, r2, r3, r4⟩ := ih i ((i + j) / 2) (by omega) (by omega) (by omega) h1
          (fun t ht1 ht2 => by have := hmono ((i + j) / 2) t ht1 ht2; omega)
        exact ⟨r1, by omega, r3, r4⟩
      · simp only [hc, decide_false, Bool.not_false, ↓reduceIte]
        have hc' : cu[(i + j) / 2]!.toNat ≤ id.toNat := by
          have hc2 := hc
          rw [UInt64.lt_iff_toNat_lt] at hc2
          omega
        obtain ⟨r1, r2, r3, r4⟩ := ih ((i + j) / 2 + 1) j (by omega) hj (by omega)
          (fun t ht => by have := hmono t ((i + j) / 2) (by omega) (by omega); omega) h2
        exact ⟨by omega, r2, r3, r4⟩
    · have : i = j := by omega
      subst this
      simp only [hlt, ↓reduceIte]
      exact ⟨Nat.le_refl _, Nat.le_refl _, h1, h2⟩

/-- On a union sorted by id, `searchGT` returns the first index whose id exceeds `id`. -/
theorem searchGT_spec (cu : CU) (id : CellID)
    (hmono : ∀ s t, s ≤ t → t < cu.length → cu[s]!.toNat ≤ cu[t]!.toNat) :
    searchGT cu.toArray id ≤ cu.length ∧
      (∀ t, t < searchGT cu.toArray id → cu[t]!.toNat ≤ id.toNat) ∧
      (∀ t, searchGT cu.toArray id ≤ t → t < cu.length → id.toNat < cu[t]!.toNat) := by
  have := searchGT_go_spec cu id hmono cu.length 0 cu.length (Nat.zero_le _) (Nat.le_refl _)
    (by omega) (fun t ht => by omega) (fun t h1 h2 => by omega)
  unfold searchGT
  simp only [List.size_toArray]
  exact ⟨this.2.1, this.2.2.1, this.2.2.2⟩

theorem sorted_mono {cu : CU} (hv : AllValid cu) (hs : Sorted cu) :
    ∀ s t, s ≤ t → t < cu.length → cu[s]!.toNat ≤ cu[t]!.toNat := by
  obtain ⟨h1, h2⟩ := idx_facts hv hs
  intro s t hst ht
  by_cases h : s = t
  · subst h; exact Nat.le_refl _
  · have := h2 s t (by omega) ht
    have fs := valid_facts (h1 s (by omega))
    have ft := valid_facts (h1 t ht)
    omega

/-- `containsCellID` on a valid sorted union: some member's range contains the id -/
theorem containsCellID_iff_exists {cu : CU} (hv : AllValid cu) (hs : Sorted cu) (id : CellID) :
    containsCellID cu id = true ↔ ∃ c ∈ cu, lo c ≤ id.toNat ∧ id.toNat ≤ hi c := by
  obtain ⟨hval, hdis⟩ := idx_facts hv hs
  obtain ⟨r1, r2, r3⟩ := searchGT_spec cu id (sorted_mono hv hs)
  unfold containsCellID
  simp only [List.size_toArray, List.getElem!_toArray]
  generalize searchGT cu.toArray id = i at r1 r2 r3
  have e1 : (i != cu.length && decide (rangeMin cu[i]! ≤ id)) = true ↔ (i ≠ cu.length ∧ lo cu[i]! ≤ id.toNat) := by
    simp [UInt64.le_iff_toNat_le, lo]
  have e2 : (i != 0 && decide (rangeMax cu[i-1]! ≥ id)) = true ↔ (i ≠ 0 ∧ id.toNat ≤ hi cu[i-1]!) := by
    simp [UInt64.le_iff_toNat_le, hi]
  constructor
  · intro h
    split at h
    · rename_i hc
      obtain ⟨hi1, hi2⟩ := e1.mp hc
      have hlt : i < cu.length := by omega
      have f := valid_facts (hval i hlt)
      have := r3 i (Nat.le_refl _) hlt
      exact ⟨cu[i]!, (mem_iff_idx cu _).mpr ⟨i, hlt, rfl⟩, hi2, by omega⟩
    · obtain ⟨hi1, hi2⟩ := e2.mp h
      have hlt : i - 1 < cu.length := by omega
      have f := valid_facts (hval (i-1) hlt)
      have := r2 (i-1) (by omega)
      exact ⟨cu[i-1]!, (mem_iff_idx cu _).mpr ⟨i-1, hlt, rfl⟩, by omega, hi2⟩
  · rintro ⟨c, hc, hc1, hc2⟩
    obtain ⟨t, ht, rfl⟩ := (mem_iff_idx cu c).mp hc
    have ft := valid_facts (hval t ht)
    split
    · rfl
    · rename_i hn
      rw [e1] at hn
      rw [e2]
      by_cases hti : i ≤ t
      · exfalso
        by_cases hti' : t = i
        · subst hti'; exact hn ⟨by omega, hc1⟩
        · have hlt : i < cu.length := by omega
          have fi := valid_facts (hval i hlt)
          have := r3 i (Nat.le_refl _) hlt
          have := hdis i t (by omega) ht
          omega
      · by_cases hti' : t = i - 1
        · subst hti'; exact ⟨by omega, hc2⟩
        · exfalso
          have hlt : i - 1 < cu.length := by omega
          have fi := valid_facts (hval (i-1) hlt)
          have := r2 (i-1) (by omega)
          have := hdis t (i-1) (by omega) hlt
          omega

/-- `intersectsCellID` on a valid sorted union: some member's range meets the range of the id -/
theorem intersectsCellID_iff_exists {cu : CU} (hv : AllValid cu) (hs : Sorted cu) (id : CellID)
    (hid : isValid id = true) :
    intersectsCellID cu id = true ↔ ∃ c ∈ cu, lo c ≤ hi id ∧ lo id ≤ hi c := by
  obtain ⟨hval, hdis⟩ := idx_facts hv hs
  obtain ⟨r1, r2, r3⟩ := searchGT_spec cu id (sorted_mono hv hs)
  have fid := valid_facts hid
  unfold intersectsCellID
  simp only [List.size_toArray, List.getElem!_toArray]
  generalize searchGT cu.toArray id = i at r1 r2 r3
  have e1 : (i != cu.length && decide (rangeMin cu[i]! ≤ rangeMax id)) = true ↔
      (i ≠ cu.length ∧ lo cu[i]! ≤ hi id) := by
    simp [UInt64.le_iff_toNat_le, lo, hi]
  have e2 : (i != 0 && decide (rangeMax cu[i-1]! ≥ rangeMin id)) = true ↔ (i ≠ 0 ∧ lo id ≤ hi cu[i-1]!) := by
    simp [UInt64.le_iff_toNat_le, hi, lo]
  constructor
  · intro h
    split at h
    · rename_i hc
      obtain ⟨hi1, hi2⟩ := e1.mp hc
      have hlt : i < cu.length := by omega
      have f := valid_facts (hval i hlt)
      have := r3 i (Nat.le_refl _) hlt
      exact ⟨cu[i]!, (mem_iff_idx cu _).mpr ⟨i, hlt, rfl⟩, hi2, by omega⟩
    · obtain ⟨hi1, hi2⟩ := e2.mp h
      have hlt : i - 1 < cu.length := by omega
      have f := valid_facts (hval (i-1) hlt)
      have := r2 (i-1) (by omega)
      exact ⟨cu[i-1]!, (mem_iff_idx cu _).mpr ⟨i-1, hlt, rfl⟩, by omega, hi2⟩
  · rintro ⟨c, hc, hc1, hc2⟩
    obtain ⟨t, ht, rfl⟩ := (mem_iff_idx cu c).mp hc
    have ft := valid_facts (hval t ht)
    split
    · rfl
    · rename_i hn
      rw [e1] at hn
      rw [e2]
      by_cases hti : i ≤ t
      · exfalso
        by_cases hti' : t = i
        · subst hti'; exact hn ⟨by omega, hc1⟩
        · have hlt : i < cu.length := by omega
          have fi := valid_facts (hval i hlt)
          have := hdis i t (by omega) ht
          exact hn ⟨by omega, by omega⟩
      · by_cases hti' : t = i - 1
        · subst hti'; exact ⟨by omega, hc2⟩
        · have hlt : i - 1 < cu.length := by omega
          have fi := valid_facts (hval (i-1) hlt)
          have := hdis t (i-1) (by omega) hlt
          exact ⟨by omega, by omega⟩

/-- leaf-set reading of "some member's range contains the id" (needs the normal form) -/
theorem exists_contains_iff_leaves {cu : CU} (hv : AllValid cu) (hs : Sorted cu) (hn : NoSib cu)
    {id : CellID} (hid : isValid id = true) :
    (∃ c ∈ cu, lo c ≤ id.toNat ∧ id.toNat ≤ hi c) ↔
      ∀ n, n % 2 = 1 → lo id ≤ n → n ≤ hi id → Covers cu n := by
  obtain ⟨k, hk⟩ := (isValid_iff id).mp hid
  have fid := valid_facts hid
  constructor
  · rintro ⟨c, hc, h1, h2⟩ n _ hn1 hn2
    have := (contains_range (hv c hc) hid).mp ((contains_iff c id).mpr ⟨h1, h2⟩)
    exact ⟨c, hc, by omega, by omega⟩
  · intro h
    obtain ⟨z, hz, hz1, hz2⟩ := covered_cell_contained hv hs hn (30 - k) id k hk (Nat.le_refl _) h
    exact ⟨z, hz, by omega, by omega⟩

/-- leaf-set reading of "some member's range meets the range of the id" -/
theorem exists_meets_iff_leaves {cu : CU} (hv : AllValid cu) {id : CellID} (hid : isValid id = true) :
    (∃ c ∈ cu, lo c ≤ hi id ∧ lo id ≤ hi c) ↔
      ∃ n, n % 2 = 1 ∧ lo id ≤ n ∧ n ≤ hi id ∧ Covers cu n := by
  have fid := valid_facts hid
  constructor
  · rintro ⟨c, hc, h1, h2⟩
    have fc := valid_facts (hv c hc)
    rcases nested_or_disjoint (hv c hc) hid with h | h | h | h
    · exact ⟨lo id, fid.1, Nat.le_refl _, by omega, c, hc, by omega, by omega⟩
    · exact ⟨lo c, fc.1, by omega, by omega, c, hc, Nat.le_refl _, by omega⟩
    · omega
    · omega
  · rintro ⟨n, _, h1, h2, c, hc, h3, h4⟩
    exact ⟨c, hc, by omega, by omega⟩

end S2Proofs
