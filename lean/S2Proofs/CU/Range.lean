/-
  S2Proofs.CU.Range — correctness of the range tiling: `CellID.maxTile` (Go `CellID.MaxTile`) and
  `CellUnion.fromRange` (Go `CellUnionFromRange`).
-/
import S2Proofs.CU.Search
open S2 S2.CellID S2.CellUnion
namespace S2Proofs

/-! ### leaf-level positions -/

/-- a leaf-level position: a valid leaf cell or the one-past-the-end id `End(MaxLevel)` -/
def IsPos (x : CellID) : Prop := x.toNat % 2 = 1 ∧ x.toNat ≤ 6 * 2^61 + 1

instance (x : CellID) : Decidable (IsPos x) := by unfold IsPos; exact inferInstance

theorem lsb_odd (x : CellID) (h : x.toNat % 2 = 1) : lsb x = 1 := by
  apply UInt64.toNat_inj.mp
  rw [lsb_toNat x (by omega), one_toNat]
  have := x.toNat_lt
  have e : x.toNat = 2 * (x.toNat / 2) + 1 := by omega
  rw [e]; exact and_neg_odd _ 64 (by omega)

theorem rangeMin_odd (x : CellID) (h : x.toNat % 2 = 1) : rangeMin x = x := by
  unfold rangeMin; rw [lsb_odd x h]; simp

theorem rangeMax_odd (x : CellID) (h : x.toNat % 2 = 1) : rangeMax x = x := by
  unfold rangeMax; rw [lsb_odd x h]; simp

/-- odd positions below `6·2^61` are exactly the valid leaf cells -/
theorem isCell_leaf_of_odd (x : CellID) (h : x.toNat % 2 = 1) (hlt : x.toNat < 6 * 2^61) : IsCell x 30 :=
  ⟨by omega, hlt, by simpa using h⟩

theorem odd_of_isCell_leaf {x : CellID} (h : IsCell x 30) : x.toNat % 2 = 1 ∧ x.toNat < 6 * 2^61 :=
  ⟨by simpa using h.low, h.face_lt⟩

/-! ### raw arithmetic (no face bound): needed for `next id` past the last face -/

theorem lsb_raw (x : CellID) (k : Nat) (hk : k ≤ 30) (hlow : x.toNat % 2^(61 - 2*k) = 2^(60 - 2*k)) :
    (lsb x).toNat = 2^(60 - 2*k) := by
  have hx : x.toNat ≠ 0 := by
    intro h0; rw [h0] at hlow; simp at hlow
    have := Nat.two_pow_pos (60 - 2*k); omega
  rw [lsb_toNat x hx]
  have e1 : 61 - 2*k = (60 - 2*k) + 1 := by omega
  have hdm := Nat.div_add_mod x.toNat (2^(61 - 2*k))
  rw [hlow, e1, Nat.pow_succ] at hdm
  have e : x.toNat = (2 * (x.toNat / (2^(60-2*k) * 2)) + 1) * 2^(60-2*k) := by
    have : (2 * (x.toNat / (2^(60-2*k) * 2)) + 1) * 2^(60-2*k)
        = 2^(60-2*k) * 2 * (x.toNat / (2^(60-2*k) * 2)) + 2^(60-2*k) := by ring
    omega
  have hlt := x.toNat_lt
  rw [e] at hlt ⊢
  exact lsbNat _ _ hlt

theorem rangeMin_raw (x : CellID) (k : Nat) (hk : k ≤ 30) (hlow : x.toNat % 2^(61 - 2*k) = 2^(60 - 2*k)) :
    (rangeMin x).toNat = x.toNat - 2^(60 - 2*k) + 1 := by
  have hl := lsb_raw x k hk hlow
  unfold CellID.rangeMin
  rw [UInt64.toNat_sub, UInt64.toNat_sub, hl, one_toNat]
  have := x.toNat_lt
  interval_cases k <;> cell_omega

/-! ### `maxTile` -/

/-- `t` is a level-`j` cell ending before position `L` that cannot be enlarged: it is a face cell, or
    its parent starts elsewhere or does not end before `L`. -/
def MaxTileAt (t : CellID) (j : Nat) (L : Nat) : Prop :=
  IsCell t j ∧ hi t < L ∧ (j = 0 ∨ lo (parent t (j-1)) ≠ lo t ∨ L ≤ hi (parent t (j-1)))

theorem shrink_succ (limit : CellID) (fuel : Nat) (c : CellID) :
    maxTile.shrink limit (fuel+1) c =
      if rangeMax (child c 0) < limit then child c 0 else maxTile.shrink limit fuel (child c 0) := rfl

/-- the shrinking loop: never runs out of fuel, ends on the first child-0 descendant that fits -/
theorem shrink_spec (limit : CellID) : ∀ (fuel : Nat) (c : CellID) (k : Nat), IsCell c k →
    lo c < limit.toNat → limit.toNat ≤ hi c → 30 - k ≤ fuel →
    ∃ j, k < j ∧ IsCell (maxTile.shrink limit fuel c) j ∧ lo (maxTile.shrink limit fuel c) = lo c ∧
      hi (maxTile.shrink limit fuel c) < limit.toNat ∧
      limit.toNat ≤ hi (parent (maxTile.shrink limit fuel c) (j-1)) := by
  intro fuel
  induction fuel with
  | zero =>
    intro c k hc h1 h2 hf
    exfalso
    have hk : k = 30 := by have := hc.k_le; omega
    subst hk
    have := hc.leaf_range
    omega
  | succ fuel ih =>
    intro c k hc h1 h2 hf
    have hk : k < 30 := by
      rcases Nat.lt_or_ge k 30 with h | h
      · exact h
      · exfalso
        have hk : k = 30 := by have := hc.k_le; omega
        subst hk
        have := hc.leaf_range
        omega
    have hc0 := hc.child_isCell hk (t := 0) (by omega)
    have hlo := (hc.children_ranges hk).1
    rw [shrink_succ]
    by_cases hfit : rangeMax (child c 0) < limit
    · rw [if_pos hfit]
      refine ⟨k+1, by omega, hc0, hlo, UInt64.lt_iff_toNat_lt.mp hfit, ?_⟩
      rw [Nat.add_sub_cancel, hc.parent_child hk (by omega)]
      exact h2
    · rw [if_neg hfit]
      have hfit' : limit.toNat ≤ hi (child c 0) := by
        have := UInt64.lt_iff_toNat_lt.not.mp hfit
        show limit.toNat ≤ (rangeMax (child c 0)).toNat
        omega
      obtain ⟨j, hj, r1, r2, r3, r4⟩ := ih (child c 0) (k+1) hc0 (by omega) hfit' (by omega)
      exact ⟨j, by omega, r1, by omega, r3, r4⟩

/-- the growing loop: never runs out of fuel, ends on the largest ancestor with the same start
    that still fits -/
theorem grow_spec (limit : CellID) : ∀ (fuel : Nat) (c : CellID) (k : Nat), IsCell c k →
    hi c < limit.toNat → k < fuel →
    ∀ start, start = rangeMin c →
    ∃ j, j ≤ k ∧ MaxTileAt (maxTile.grow limit fuel c start) j limit.toNat ∧
      lo (maxTile.grow limit fuel c start) = lo c := by
  intro fuel
  induction fuel with
  | zero => intro c k hc h1 hf; omega
  | succ fuel ih =>
    intro c k hc h1 hf start hstart
    unfold maxTile.grow
    rw [hc.isFace_eq]
    by_cases hk0 : k = 0
    · subst hk0
      simp only [decide_true, if_true]
      exact ⟨0, Nat.le_refl _, ⟨hc, h1, Or.inl rfl⟩, trivial⟩
    · simp only [hk0, decide_false, Bool.false_eq_true, if_false]
      have hpe := hc.immediateParent_eq (by omega)
      have hp : IsCell (parent c (k-1)) (k-1) := hc.parent_isCell (by omega)
      rw [hpe]
      by_cases hstop : (rangeMin (parent c (k-1)) != start || rangeMax (parent c (k-1)) ≥ limit) = true
      · rw [if_pos hstop]
        refine ⟨k, Nat.le_refl _, ⟨hc, h1, Or.inr ?_⟩, rfl⟩
        rw [Bool.or_eq_true] at hstop
        rcases hstop with h | h
        · left
          intro heq
          have : rangeMin (parent c (k-1)) = start := by
            rw [hstart]; exact UInt64.toNat_inj.mp heq
          simp [this] at h
        · right
          have := UInt64.le_iff_toNat_le.mp (of_decide_eq_true h)
          exact this
      · rw [if_neg hstop]
        rw [Bool.or_eq_true, not_or] at hstop
        obtain ⟨hs1, hs2⟩ := hstop
        have e1 : rangeMin (parent c (k-1)) = start := by simpa using hs1
        have e2 : hi (parent c (k-1)) < limit.toNat := by
          have : ¬ limit ≤ rangeMax (parent c (k-1)) := by simpa using hs2
          have := UInt64.le_iff_toNat_le.not.mp this
          show (rangeMax (parent c (k-1))).toNat < limit.toNat
          omega
        obtain ⟨j, hj, r1, r2⟩ := ih (parent c (k-1)) (k-1) hp e2 (by omega) start e1.symm
        refine ⟨j, by omega, r1, ?_⟩
        rw [r2]
        show (rangeMin (parent c (k-1))).toNat = (rangeMin c).toNat
        rw [e1, hstart]

/-- first branch of `maxTile`: nothing fits -/
theorem maxTile_of_ge (ci limit : CellID) (h : (rangeMin limit).toNat ≤ lo ci) : maxTile ci limit = limit := by
  unfold maxTile
  simp only []
  rw [if_pos (UInt64.le_iff_toNat_le.mpr h)]

/-- **Specification of `MaxTile`.**  For a valid cell `ci` that starts before the leaf-level position
    `limit`, the result is a valid cell with the same first leaf, ending before `limit`, that cannot be
    enlarged (`MaxTileAt`).  The 32 units of fuel of both loops are never exhausted.  Moreover the result
    is coarser-or-equal exactly when `ci` itself fits. -/
theorem maxTile_spec {ci limit : CellID} {k : Nat} (hc : IsCell ci k) (hodd : limit.toNat % 2 = 1)
    (hlt : lo ci < limit.toNat) :
    ∃ j, MaxTileAt (maxTile ci limit) j limit.toNat ∧ lo (maxTile ci limit) = lo ci ∧
      (hi ci < limit.toNat → j ≤ k) ∧
      (limit.toNat ≤ hi ci → k < j ∧ limit.toNat ≤ hi (parent (maxTile ci limit) (j-1))) := by
  unfold maxTile
  simp only []
  have hrm : rangeMin limit = limit := rangeMin_odd limit hodd
  have hb1 : ¬ rangeMin ci ≥ rangeMin limit := by
    rw [hrm]; intro h
    have := UInt64.le_iff_toNat_le.mp h
    have h' : (rangeMin ci).toNat < limit.toNat := hlt
    omega
  rw [if_neg hb1]
  by_cases hbig : rangeMax ci ≥ limit
  · rw [if_pos hbig]
    have hbig' : limit.toNat ≤ hi ci := UInt64.le_iff_toNat_le.mp hbig
    obtain ⟨j, hj, r1, r2, r3, r4⟩ := shrink_spec limit 32 ci k hc hlt hbig' (by omega)
    exact ⟨j, ⟨r1, r3, Or.inr (Or.inr r4)⟩, r2, fun h => by omega, fun _ => ⟨hj, r4⟩⟩
  · rw [if_neg hbig]
    have hsmall : hi ci < limit.toNat := by
      have := UInt64.le_iff_toNat_le.not.mp hbig
      show (rangeMax ci).toNat < limit.toNat
      omega
    obtain ⟨j, hj, r1, r2⟩ := grow_spec limit 32 ci k hc hsmall (by have := hc.k_le; omega) _ rfl
    exact ⟨j, r1, r2, fun _ => hj, fun h => by omega⟩

/-- `MaxTileAt` really means *largest*: every valid cell with the same first leaf that ends before `L`
    is contained in the tile. -/
theorem MaxTileAt.largest {t : CellID} {j L : Nat} (ht : MaxTileAt t j L) {z : CellID}
    (hz : isValid z = true) (hlo : lo z = lo t) (hhi : hi z < L) : hi z ≤ hi t := by
  obtain ⟨hc, h1, hmax⟩ := ht
  obtain ⟨i, hzi⟩ := (isValid_iff z).mp hz
  rcases Nat.lt_or_ge (hi t) (hi z) with hgt | hle
  · exfalso
    have czt : contains z t = true := (hzi.contains_range hc).mpr ⟨by omega, by omega⟩
    have hij := ((hzi.contains_iff_parent hc).mp czt).1
    have hne : i ≠ j := by
      rintro rfl
      have := hzi.eq_of_contains_same_level hc czt
      subst this; omega
    have hj1 : 1 ≤ j := by omega
    have hp : IsCell (parent t (j-1)) (j-1) := hc.parent_isCell (by omega)
    have cpt : contains (parent t (j-1)) t = true :=
      (hp.contains_iff_parent hc).mpr ⟨by omega, rfl⟩
    have rpt := (hp.contains_range hc).mp cpt
    have key : lo z ≤ lo (parent t (j-1)) ∧ hi (parent t (j-1)) ≤ hi z := by
      have ft := valid_facts hc.valid
      rcases hzi.nested_or_disjoint hp with h | h | h | h
      · exact (hzi.contains_range hp).mp h
      · have l2 := ((hp.contains_iff_parent hzi).mp h).1
        have : i = j - 1 := by omega
        subst this
        have := hp.eq_of_contains_same_level hzi h
        rw [this]; exact ⟨Nat.le_refl _, Nat.le_refl _⟩
      · exfalso
        have h' : hi z < lo (parent t (j-1)) := h
        omega
      · exfalso
        have h' : hi (parent t (j-1)) < lo z := h
        omega
    rcases hmax with h | h | h
    · omega
    · omega
    · omega
  · exact hle

/-! ### `fromRange`: one step of the loop -/

theorem IsPos.lo_eq {e : CellID} (he : IsPos e) : lo e = e.toNat := by
  show (rangeMin e).toNat = e.toNat
  rw [rangeMin_odd e he.1]

/-- `next id` (possibly an invalid word past the last face) starts right after `id` -/
theorem IsCell.next_facts {id : CellID} {k : Nat} (hc : IsCell id k) :
    lo (next id) = hi id + 2 ∧ (hi id + 2 < 6 * 2^61 + 1 → IsCell (next id) k) := by
  have hn := hc.next_toNat
  have hhi : hi id = id.toNat + 2^(60 - 2*k) - 1 := hc.rangeMax_eq
  obtain ⟨hk, hf, hlow⟩ := hc
  have hlow' : (next id).toNat % 2^(61 - 2*k) = 2^(60 - 2*k) := by
    rw [hn]; interval_cases k <;> cell_omega
  have hrm : lo (next id) = (next id).toNat - 2^(60 - 2*k) + 1 := rangeMin_raw (next id) k hk hlow'
  refine ⟨?_, fun hlt => ⟨hk, ?_, hlow'⟩⟩
  · rw [hrm, hhi, hn]; interval_cases k <;> cell_omega
  · rw [hhi] at hlt; rw [hn]; interval_cases k <;> cell_omega

/-- one iteration `id ↦ maxTile (next id) e`: either the range is exhausted and the loop variable
    becomes `e`, or the next maximal tile starts right after `id` -/
theorem next_tile {id e : CellID} {k : Nat} (he : IsPos e) (ht : MaxTileAt id k e.toNat) :
    (hi id + 2 = e.toNat ∧ maxTile (next id) e = e) ∨
    (hi id + 2 < e.toNat ∧ IsCell (next id) k ∧ lo (next id) = hi id + 2 ∧
      ∃ j, MaxTileAt (maxTile (next id) e) j e.toNat ∧ lo (maxTile (next id) e) = hi id + 2) := by
  obtain ⟨hc, h1, _⟩ := ht
  obtain ⟨hlo, hcell⟩ := hc.next_facts
  have fv := valid_facts hc.valid
  have he1 := he.1
  have he2 := he.2
  rcases Nat.lt_or_ge (hi id + 2) e.toNat with hlt | hge
  · right
    have hn : IsCell (next id) k := hcell (by omega)
    obtain ⟨j, r1, r2, _⟩ := maxTile_spec hn he.1 (by omega)
    exact ⟨hlt, hn, hlo, j, r1, by omega⟩
  · left
    refine ⟨by omega, maxTile_of_ge _ _ ?_⟩
    rw [rangeMin_odd e he.1]; omega

/-! ### `fromRange`: the loop -/

/-- the loop `id := maxTile (next id) e` started at `id` reaches `id = e` within `fuel` tests -/
def Reaches (e : CellID) : Nat → CellID → Prop
  | 0, _ => False
  | fuel+1, id => id = e ∨ Reaches e fuel (maxTile (next id) e)

/-- `fromRange` with an arbitrary amount of fuel (the model uses 400) -/
def fromRangeFuel (fuel : Nat) (b e : CellID) : CU := (fromRange.go e fuel (maxTile b e) []).reverse

theorem fromRange_eq_fuel (b e : CellID) : fromRange b e = fromRangeFuel 400 b e := rfl

/-- loop invariant (`acc` holds the emitted tiles, last one first) -/
structure LoopInv (b e id : CellID) (acc : List CellID) : Prop where
  tiles : ∀ c ∈ acc, ∃ j, MaxTileAt c j e.toNat
  sorted : List.Pairwise (fun x y => hi y < lo x) acc
  below : ∀ c ∈ acc, hi c < lo id
  cover : ∀ n, n % 2 = 1 → (Covers acc n ↔ b.toNat ≤ n ∧ n < lo id)
  ble : b.toNat ≤ lo id
  cur : id = e ∨ ∃ j, MaxTileAt id j e.toNat

/-- what the finished loop delivers -/
structure LoopPost (b e : CellID) (r : List CellID) : Prop where
  tiles : ∀ c ∈ r, ∃ j, MaxTileAt c j e.toNat
  sorted : List.Pairwise (fun x y => hi y < lo x) r
  cover : ∀ n, n % 2 = 1 → (Covers r n ↔ b.toNat ≤ n ∧ n < e.toNat)

theorem LoopInv.step {b e id : CellID} {acc : List CellID} (he : IsPos e) (h : LoopInv b e id acc)
    (hne : id ≠ e) : LoopInv b e (maxTile (next id) e) (id :: acc) := by
  obtain ⟨j, ht⟩ := h.cur.resolve_left hne
  have fv := valid_facts ht.1.valid
  have hnew : lo (maxTile (next id) e) = hi id + 2 ∧
      (maxTile (next id) e = e ∨ ∃ j, MaxTileAt (maxTile (next id) e) j e.toNat) := by
    rcases next_tile he ht with ⟨h1, h2⟩ | ⟨_, _, _, j', h3, h4⟩
    · rw [h2, he.lo_eq]; exact ⟨h1.symm, Or.inl rfl⟩
    · exact ⟨h4, Or.inr ⟨j', h3⟩⟩
  obtain ⟨hlo, hcur⟩ := hnew
  refine ⟨?_, ?_, ?_, ?_, ?_, hcur⟩
  · intro c hc
    rcases List.mem_cons.mp hc with rfl | hc
    · exact ⟨j, ht⟩
    · exact h.tiles c hc
  · exact List.pairwise_cons.mpr ⟨fun c hc => h.below c hc, h.sorted⟩
  · intro c hc
    rcases List.mem_cons.mp hc with rfl | hc
    · omega
    · have := h.below c hc; omega
  · intro n hn
    rw [covers_cons, h.cover n hn, hlo]
    have := h.ble
    omega
  · have := h.ble; omega

theorem go_spec (b e : CellID) (he : IsPos e) : ∀ (fuel : Nat) (id : CellID) (acc : List CellID),
    Reaches e fuel id → LoopInv b e id acc → LoopPost b e (fromRange.go e fuel id acc) := by
  intro fuel
  induction fuel with
  | zero => intro id acc hr; exact hr.elim
  | succ fuel ih =>
    intro id acc hr hinv
    unfold fromRange.go
    by_cases hid : id = e
    · subst hid
      simp only [beq_self_eq_true, if_true]
      refine ⟨hinv.tiles, hinv.sorted, ?_⟩
      intro n hn
      rw [hinv.cover n hn, he.lo_eq]
    · have : (id == e) = false := by simpa using hid
      rw [this]
      simp only [Bool.false_eq_true, if_false]
      exact ih _ _ (hr.resolve_left hid) (hinv.step he hid)

theorem loopInv_init {b e : CellID} (hb : b.toNat % 2 = 1) (he : IsPos e) (hbe : b.toNat ≤ e.toNat) :
    LoopInv b e (maxTile b e) [] := by
  have hlob : lo b = b.toNat := by
    show (rangeMin b).toNat = b.toNat
    rw [rangeMin_odd b hb]
  rcases Nat.lt_or_ge b.toNat e.toNat with hlt | hge
  · have he2 := he.2
    have he1 := he.1
    have hcell : IsCell b 30 := isCell_leaf_of_odd b hb (by omega)
    obtain ⟨j, r1, r2, _⟩ := maxTile_spec hcell he.1 (by omega)
    refine ⟨by simp, List.Pairwise.nil, by simp, ?_, by omega, Or.inr ⟨j, r1⟩⟩
    intro n hn
    have := covers_nil n
    rw [r2, hlob]
    constructor
    · intro h; exact (this h).elim
    · intro h; omega
  · have hm : maxTile b e = e := maxTile_of_ge _ _ (by rw [rangeMin_odd e he.1]; omega)
    rw [hm]
    refine ⟨by simp, List.Pairwise.nil, by simp, ?_, by rw [he.lo_eq]; exact hbe, Or.inl rfl⟩
    intro n hn
    have := covers_nil n
    rw [he.lo_eq]
    constructor
    · intro h; exact (this h).elim
    · intro h; omega

/-- tiles that are all maximal never contain a complete sibling group -/
theorem noSib_of_tiles {r : CU} {L : Nat} (ht : ∀ c ∈ r, ∃ j, MaxTileAt c j L) (hs : Sorted r) :
    NoSib r := by
  intro a b c d hinf
  rcases hbool : areSiblings a b c d with _ | _
  · rfl
  · exfalso
    have hsub := hinf.sublist
    have hmem : ∀ x ∈ [a, b, c, d], x ∈ r := fun x hx => hsub.subset hx
    have hs4 : Sorted [a, b, c, d] := List.Pairwise.sublist hsub hs
    unfold Sorted at hs4
    simp only [List.pairwise_cons, List.mem_cons, List.not_mem_nil, or_false, forall_eq_or_imp, forall_eq,
      IsEmpty.forall_iff, implies_true, List.Pairwise.nil, and_true] at hs4
    obtain ⟨ja, hta⟩ := ht a (hmem a (by simp))
    obtain ⟨jb, htb⟩ := ht b (hmem b (by simp))
    obtain ⟨jc, htc⟩ := ht c (hmem c (by simp))
    obtain ⟨jd, htd⟩ := ht d (hmem d (by simp))
    have fa := valid_facts hta.1.valid
    have fb := valid_facts htb.1.valid
    have fc := valid_facts htc.1.valid
    have fd := valid_facts htd.1.valid
    obtain ⟨hk, ea, _, _, ed⟩ := areSiblings_sorted htd.1 hbool (by omega) (by omega) (by omega)
    have hp : IsCell (parent d (jd-1)) (jd-1) := htd.1.parent_isCell (by omega)
    have hjd : jd - 1 < 30 := by have := htd.1.k_le; omega
    have hr := hp.children_ranges hjd
    have ha' : IsCell a (jd - 1 + 1) := by rw [ea]; exact hp.child_isCell hjd (by omega)
    have hja : ja = jd - 1 + 1 := hta.1.unique ha'
    have hpa : parent a (ja - 1) = parent d (jd-1) := by
      rw [hja, Nat.add_sub_cancel]
      conv_lhs => rw [ea]
      exact hp.parent_child hjd (by omega)
    have hmax := hta.2.2
    rw [hpa] at hmax
    have hd1 := htd.2.1
    have e1 : lo a = lo (parent d (jd-1)) := by conv_lhs => rw [ea]; exact hr.1
    have e2 : hi d = hi (parent d (jd-1)) := by conv_lhs => rw [ed]; exact hr.2.2.2.2
    rcases hmax with h | h | h
    · omega
    · omega
    · omega

/-- **`CellUnionFromRange`, leaf-set specification and normal form**, for any amount of fuel that lets
    the loop exit by itself: the result is a valid, sorted, sibling-free (= normalized) union whose
    leaves are exactly the positions of `[b, e)`; each member is a maximal tile. -/
theorem fromRangeFuel_spec {b e : CellID} (fuel : Nat) (hb : b.toNat % 2 = 1) (he : IsPos e)
    (hbe : b.toNat ≤ e.toNat) (hr : Reaches e fuel (maxTile b e)) :
    AllValid (fromRangeFuel fuel b e) ∧ Sorted (fromRangeFuel fuel b e) ∧ NoSib (fromRangeFuel fuel b e) ∧
      (∀ n, n % 2 = 1 → (Covers (fromRangeFuel fuel b e) n ↔ b.toNat ≤ n ∧ n < e.toNat)) ∧
      ∀ c ∈ fromRangeFuel fuel b e, ∃ j, MaxTileAt c j e.toNat := by
  have hpost := go_spec b e he fuel _ [] hr (loopInv_init hb he hbe)
  have htiles : ∀ c ∈ fromRangeFuel fuel b e, ∃ j, MaxTileAt c j e.toNat := by
    intro c hc
    exact hpost.tiles c (List.mem_reverse.mp hc)
  have hsorted : Sorted (fromRangeFuel fuel b e) := by
    unfold Sorted fromRangeFuel
    rw [List.pairwise_reverse]
    exact hpost.sorted
  refine ⟨?_, hsorted, noSib_of_tiles htiles hsorted, ?_, htiles⟩
  · intro c hc
    obtain ⟨j, hj⟩ := htiles c hc
    exact hj.1.valid
  · intro n hn
    unfold fromRangeFuel
    rw [covers_reverse]
    exact hpost.cover n hn

end S2Proofs
