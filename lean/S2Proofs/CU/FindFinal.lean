/-
  S2Proofs.CU.FindFinal — `S2Proofs.C11.Find_correct` (stated as a `def … : Prop` at the end of
  `S2Proofs/Properties/C11.lean`) is PROVED.
-/
import S2Proofs.Properties.C11
import S2Proofs.CU.FindExtra
open S2 S2.CellID S2.CellUnion S2.Intersect
namespace S2Proofs.FindP

/-- `s2intersect.Find` (model `S2.Intersect.find`) is correct on all lists of unions of valid cells. -/
theorem find_correct : S2Proofs.C11.Find_correct :=
  fun cus hv => find_correct_stmt cus hv

/-- non-vacuity: the hypothesis of `Find_correct` holds for the four unions of the oddity instance
    (on which `find` returns three entries, see `find_oddCus`) -/
example : ∀ cu ∈ oddCus, S2Proofs.C11.AllValid cu := by
  intro cu hcu
  exact ((isNormalizedCU_iff cu).mp (find_empty_entry.1 cu hcu)).1

end S2Proofs.FindP
