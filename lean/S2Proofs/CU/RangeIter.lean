/-
  S2Proofs.CU.RangeIter — theorems about the model `S2.CellIndex.RangeIter` of `CellIndexRangeIterator`
  (s2/cell_index.go lines 60-210).  Everything is stated for an ARBITRARY range-node array `rn` under
  explicit hypotheses; section 6 instantiates them for `(build cells).ranges`.

  Hypotheses used:
  * `Sorted rn`  = `(CIdx.starts rn).Pairwise (· < ·)`  strictly increasing start ids (only for `searchGT`/`Seek`);
  * "well positioned" = `0 ≤ c.pos ≤ rn.size - 1` (`pos = size-1` is Done); `1 ≤ rn.size` where said.
  Sections: 1 plain iterator + enumeration theorem, 2 `sort.Search`, 3 `Seek` (plain), 4 skip loop,
  non-empty `Begin`/`Next`/`Seek`, `nonEmptyPrev`, enumeration theorem of the non-empty flavour,
  6 built index (`build_bounds`: size ≥ 2, first start ≤ firstLeaf, sentinel start ≥ endLeaf, no contract needed).
  Every theorem is followed by a concrete `example` (`decide`) of its hypotheses / conclusion.

  Oddities of the Go code recorded here (see the ODDITY / DOC DISCREPANCY comments):
  * `Seek` doc comment ("first range with startID >= target") is wrong: it is the range CONTAINING the target;
  * `Advance` has no lower bound check (negative `n` can make `pos` negative) and does not skip empty
    ranges for the non-empty flavour;
  * `nonEmptyPrev`'s "return the iterator to its original position" only restores the position when the
    iterator was at the first stop position; its doc comment ("reports whether it was already positioned
    at the beginning") is inverted (it reports false in that case).
-/
import S2Proofs.CU.CellIndex
open S2 S2.CellID S2.CellIndex S2.CellIndex.RangeIter
namespace S2Proofs.RIter

/-- strictly increasing start ids (what `CIdx.build_ranges_sorted` gives for a built index) -/
abbrev Sorted (rn : Array RangeNode) : Prop := (CIdx.starts rn).Pairwise (· < ·)

/-- the example array used for the non-vacuity examples: starts 1,5,9,13,17 and contents -1,0,-1,1,-1 -/
def ex5 : Array RangeNode :=
  #[⟨1, -1⟩, ⟨5, 0⟩, ⟨9, -1⟩, ⟨13, 1⟩, ⟨17, -1⟩]

example : Sorted ex5 := by decide

theorem starts_lt {rn : Array RangeNode} (hs : Sorted rn) {a b : Nat} (hab : a < b) (hb : b < rn.size) :
    rn[a]!.startID < rn[b]!.startID := by
  have hs' := (List.pairwise_iff_getElem.1 hs) a b (by simp [CIdx.starts]; omega) (by simp [CIdx.starts]; omega) hab
  simp [CIdx.starts] at hs'
  rw [getElem!_pos rn a (by omega), getElem!_pos rn b hb]
  exact UInt64.lt_iff_toNat_lt.2 hs'

theorem starts_le {rn : Array RangeNode} (hs : Sorted rn) {a b : Nat} (hab : a ≤ b) (hb : b < rn.size) :
    rn[a]!.startID ≤ rn[b]!.startID := by
  rcases Nat.eq_or_lt_of_le hab with h | h
  · subst h; exact UInt64.le_refl _
  · exact UInt64.le_of_lt (starts_lt hs h hb)


/-! ## 1. The plain iterator (`nonEmpty = false`) -/

theorem skipEmpty_go_plain (fuel : Nat) (c : RangeIter) (h : c.nonEmpty = false) : skipEmpty.go fuel c = c := by
  cases fuel <;> simp [skipEmpty.go, h]

/-- the skip loop of `Begin`/`Next`/`Seek` does nothing for the plain iterator -/
theorem skipEmpty_plain (c : RangeIter) (h : c.nonEmpty = false) : skipEmpty c = c :=
  skipEmpty_go_plain _ _ h

/-- `Begin` positions the plain iterator at 0 and changes nothing else. -/
theorem begin_plain (c : RangeIter) (h : c.nonEmpty = false) : c.begin = { c with pos := 0 } := by
  unfold RangeIter.begin; exact skipEmpty_plain _ h

/-- `Next` of the plain iterator is `pos++`. -/
theorem next_plain (c : RangeIter) (h : c.nonEmpty = false) : c.next = { c with pos := c.pos + 1 } := by
  unfold RangeIter.next; exact skipEmpty_plain _ h

example : (RangeIter.mk ex5 3 false).begin.pos = 0 ∧ (RangeIter.mk ex5 1 false).next.pos = 2 := by decide

/-- `Done` ⇔ the position is at (or beyond) the sentinel node `size-1`. -/
theorem done_iff (c : RangeIter) : c.done = true ↔ (c.rn.size : Int) - 1 ≤ c.pos := by
  simp [RangeIter.done]

/-- `Finish` positions at the sentinel `size-1` … -/
theorem finish_pos (c : RangeIter) : c.finish.pos = (c.rn.size : Int) - 1 ∧ c.finish.rn = c.rn ∧
    c.finish.nonEmpty = c.nonEmpty := ⟨rfl, rfl, rfl⟩
/-- … and the iterator is then done. -/
theorem finish_done (c : RangeIter) : c.finish.done = true := by
  simp [RangeIter.done, RangeIter.finish]

example : (RangeIter.mk ex5 1 false).finish.pos = 4 ∧ (RangeIter.mk ex5 1 false).done = false := by decide

/-- unexported `prev` at position 0: reports false, iterator unchanged -/
theorem prev'_zero (c : RangeIter) (h : c.pos = 0) : c.prev' = (c, false) := by
  simp [RangeIter.prev', h]
/-- unexported `prev` elsewhere: `pos--`, reports true (also for negative positions: that is the code) -/
theorem prev'_ne (c : RangeIter) (h : c.pos ≠ 0) : c.prev' = ({ c with pos := c.pos - 1 }, true) := by
  simp [RangeIter.prev', h]
/-- `Prev` of the plain iterator is the unexported `prev`. -/
theorem prev_plain (c : RangeIter) (h : c.nonEmpty = false) : c.prev = c.prev' := by
  simp [RangeIter.prev, h]

example : (RangeIter.mk ex5 0 false).prev.2 = false ∧ (RangeIter.mk ex5 2 false).prev.1.pos = 1 := by decide

/-- `Advance n` succeeds iff `n < size-1-pos` (for ANY integer `n`, negative ones included) and
    then adds `n` to the position … -/
theorem advance_ok (c : RangeIter) (n : Int) (h : n < (c.rn.size : Int) - 1 - c.pos) :
    c.advance n = ({ c with pos := c.pos + n }, true) := by
  unfold RangeIter.advance; rw [if_neg (by omega)]
/-- … otherwise it reports false and leaves the iterator unchanged. -/
theorem advance_fail (c : RangeIter) (n : Int) (h : (c.rn.size : Int) - 1 - c.pos ≤ n) :
    c.advance n = (c, false) := by
  unfold RangeIter.advance; rw [if_pos (by omega)]
theorem advance_true_iff (c : RangeIter) (n : Int) :
    (c.advance n).2 = true ↔ n < (c.rn.size : Int) - 1 - c.pos := by
  unfold RangeIter.advance; split <;> simp <;> omega

example : ((RangeIter.mk ex5 1 false).advance 2).1.pos = 3 ∧ ((RangeIter.mk ex5 1 false).advance 3).2 = false := by
  decide
/-- ODDITY: `Advance` has no lower bound check: a negative `n` is accepted and can make the position
    negative (the next `StartID()` would then panic in Go). -/
example : ((RangeIter.mk ex5 1 false).advance (-3)).1.pos = -2 ∧ ((RangeIter.mk ex5 1 false).advance (-3)).2 = true := by
  decide

/-- `k` × `Next` -/
def nexts : Nat → RangeIter → RangeIter
  | 0, c => c
  | k+1, c => (nexts k c).next

/-- `Begin` followed by `k` × `Next` of the plain iterator is positioned at `k`. -/
theorem iterate_next_plain (c : RangeIter) (h : c.nonEmpty = false) (k : Nat) :
    nexts k c.begin = { c with pos := (k : Int) } := by
  induction k with
  | zero => simpa [nexts] using begin_plain c h
  | succ k ih =>
    rw [nexts, ih, next_plain _ (by exact h)]; simp

/-- THE ENUMERATION THEOREM (no hypothesis on the index at all).  For every `k < size-1` the plain
    iterator reached by `Begin` and `k` × `Next` is not done and reports exactly the `k`-th element
    `(rn[k].startID, rn[k+1].startID, rn[k].contents)` of `rangeList ix`. -/
theorem enumerate_plain (ix : Index) (k : Nat) (hk : k < ix.ranges.size - 1) :
    let c := nexts k (RangeIter.new ix).begin
    c.done = false ∧ c.pos = k ∧
    c.startID = ix.ranges[k]!.startID ∧ c.limitID = ix.ranges[k+1]!.startID ∧
    c.contents = ix.ranges[k]!.contents ∧
    (rangeList ix)[k]? = some (c.startID, c.limitID, c.contents) := by
  intro c
  have hc : c = { RangeIter.new ix with pos := (k : Int) } := iterate_next_plain _ rfl k
  have h1 : ((k : Int) + 1).toNat = k + 1 := by omega
  refine ⟨?_, ?_, ?_, ?_, ?_, ?_⟩
  · rw [hc]; simp [RangeIter.done, RangeIter.new]; omega
  · rw [hc]
  · rw [hc]; simp [RangeIter.startID, RangeIter.new]
  · rw [hc]; simp [RangeIter.limitID, RangeIter.new, h1]
  · rw [hc]; simp [RangeIter.contents, RangeIter.new]
  · rw [hc]; simp [rangeList, RangeIter.startID, RangeIter.limitID, RangeIter.contents, RangeIter.new, h1, hk]

/-- … and after `size-1` × `Next` the iterator is done: the loop
    `for it.Begin(); !it.Done(); it.Next()` visits exactly `rangeList ix`, in order. -/
theorem enumerate_plain_done (ix : Index) :
    (nexts (ix.ranges.size - 1) (RangeIter.new ix).begin).done = true := by
  rw [iterate_next_plain _ rfl]; simp [RangeIter.done, RangeIter.new]; omega

/-- list form of the enumeration theorem -/
theorem enumerate_plain_list (ix : Index) :
    (List.range (ix.ranges.size - 1)).map (fun k =>
      let c := nexts k (RangeIter.new ix).begin
      (c.startID, c.limitID, c.contents)) = rangeList ix := by
  apply List.ext_getElem?
  intro k
  by_cases hk : k < ix.ranges.size - 1
  · rw [(enumerate_plain ix k hk).2.2.2.2.2]; simp [hk]
  · simp [rangeList, hk]

example : (rangeList ⟨#[], ex5⟩).length = 4 ∧
    (nexts 2 (RangeIter.new ⟨#[], ex5⟩).begin).startID = 9 := by decide


/-! ## 2. `sort.Search` (the real binary search) -/

theorem searchGT_go_spec {rn : Array RangeNode} (hs : Sorted rn) (t : CellID) (fuel i j : Nat)
    (hij : i ≤ j) (hj : j ≤ rn.size) (hf : j - i ≤ fuel)
    (hlo : ∀ k, k < i → rn[k]!.startID ≤ t) (hhi : ∀ k, j ≤ k → k < rn.size → t < rn[k]!.startID) :
    searchGT.go rn t fuel i j ≤ rn.size ∧ (∀ k, k < searchGT.go rn t fuel i j → rn[k]!.startID ≤ t) ∧
      (∀ k, searchGT.go rn t fuel i j ≤ k → k < rn.size → t < rn[k]!.startID) := by
  induction fuel generalizing i j with
  | zero =>
    have : i = j := by omega
    subst this
    exact ⟨hj, hlo, hhi⟩
  | succ fuel ih =>
    unfold searchGT.go
    by_cases hlt : i < j
    · simp only [hlt, if_true]
      have hh1 : i ≤ (i + j) / 2 := by omega
      have hh2 : (i + j) / 2 < j := by omega
      by_cases hc : t < rn[(i + j) / 2]!.startID
      · have : (rn[(i + j) / 2]!.startID > t) := hc
        simp only [this, decide_true, Bool.not_true, Bool.false_eq_true, if_false]
        apply ih _ _ hh1 (by omega) (by omega) hlo
        intro k hk1 hk2
        exact UInt64.lt_of_lt_of_le hc (starts_le hs hk1 hk2)
      · have : ¬ (rn[(i + j) / 2]!.startID > t) := hc
        simp only [this, decide_false, Bool.not_false, if_true]
        apply ih _ _ (by omega) hj (by omega) _ hhi
        intro k hk
        exact UInt64.le_trans (starts_le hs (by omega) (by omega)) (UInt64.not_lt.1 hc)
    · simp only [hlt, if_false]
      have : i = j := by omega
      subst this
      exact ⟨hj, hlo, hhi⟩

/-- SPEC OF THE BINARY SEARCH (under strictly increasing start ids; the fuel `size` suffices):
    `searchGT rn t` is an index `r ≤ size` such that all nodes before `r` have `startID ≤ t` and all
    nodes from `r` on have `startID > t`. -/
theorem searchGT_spec {rn : Array RangeNode} (hs : Sorted rn) (t : CellID) :
    searchGT rn t ≤ rn.size ∧ (∀ k, k < searchGT rn t → rn[k]!.startID ≤ t) ∧
      (∀ k, searchGT rn t ≤ k → k < rn.size → t < rn[k]!.startID) := by
  unfold searchGT
  apply searchGT_go_spec hs t _ _ _ (by omega) (by omega) (by omega)
  · intro k hk; omega
  · intro k hk1 hk2; omega

/-- … and it is the ONLY such index (no sortedness needed for uniqueness). -/
theorem searchGT_unique {rn : Array RangeNode} (t : CellID) (r r' : Nat)
    (h1 : r ≤ rn.size) (h2 : ∀ k, k < r → rn[k]!.startID ≤ t) (h3 : ∀ k, r ≤ k → k < rn.size → t < rn[k]!.startID)
    (h1' : r' ≤ rn.size) (h2' : ∀ k, k < r' → rn[k]!.startID ≤ t)
    (h3' : ∀ k, r' ≤ k → k < rn.size → t < rn[k]!.startID) : r = r' := by
  rcases Nat.lt_trichotomy r r' with h | h | h
  · exact absurd (h2' r h) (UInt64.not_le.2 (h3 r (Nat.le_refl _) (by omega)))
  · exact h
  · exact absurd (h2 r' h) (UInt64.not_le.2 (h3' r' (Nat.le_refl _) (by omega)))

example : searchGT ex5 0 = 0 ∧ searchGT ex5 1 = 1 ∧ searchGT ex5 6 = 2 ∧ searchGT ex5 9 = 3 ∧
    searchGT ex5 16 = 4 ∧ searchGT ex5 17 = 5 ∧ searchGT ex5 100 = 5 := by decide

/-- Equivalently: `sort.Search` returns the NUMBER of nodes with `startID ≤ target`. -/
theorem searchGT_count {rn : Array RangeNode} (hs : Sorted rn) (t : CellID) :
    searchGT rn t = rn.toList.countP (fun n => n.startID ≤ t) := by
  obtain ⟨h1, h2, h3⟩ := searchGT_spec hs t
  generalize searchGT rn t = r at *
  have hsz : rn.toList.length = rn.size := by simp
  rw [← List.take_append_drop r rn.toList, List.countP_append]
  have ha : (rn.toList.take r).countP (fun n => n.startID ≤ t) = (rn.toList.take r).length := by
    rw [List.countP_eq_length]
    intro a ha
    obtain ⟨i, hi, rfl⟩ := List.mem_take_iff_getElem.1 ha
    have := h2 i (by omega)
    rw [getElem!_pos rn i (by omega)] at this
    simpa using this
  have hb : (rn.toList.drop r).countP (fun n => n.startID ≤ t) = 0 := by
    rw [List.countP_eq_zero]
    intro a ha
    obtain ⟨i, hi, rfl⟩ := List.mem_drop_iff_getElem.1 ha
    have := h3 (r + i) (by omega) (by omega)
    rw [getElem!_pos rn (r+i) (by omega)] at this
    simpa using this
  rw [ha, hb]; simp; omega

example : searchGT ex5 10 = 3 ∧ ex5.toList.countP (fun n => n.startID ≤ 10) = 3 := by decide


/-! ## 3. `Seek` of the plain iterator -/

/-- the position computed by `Seek` before its skip loop: `max 0 (sort.Search(…) - 1)` -/
def seekPos (rn : Array RangeNode) (t : CellID) : Int :=
  if (searchGT rn t : Int) - 1 < 0 then 0 else (searchGT rn t : Int) - 1

theorem seek_eq (c : RangeIter) (t : CellID) : c.seek t = skipEmpty { c with pos := seekPos c.rn t } := rfl

/-- `Seek` of the plain iterator only sets the position. -/
theorem seek_plain (c : RangeIter) (h : c.nonEmpty = false) (t : CellID) :
    c.seek t = { c with pos := seekPos c.rn t } := by
  rw [seek_eq]; exact skipEmpty_plain _ h

/-- (a) target inside the covered span `[rn[0].startID, rn[size-1].startID)` (this forces `size ≥ 2`):
    the computed position `p` is a real range (`p + 1 < size`) and it CONTAINS the target:
    `rn[p].startID ≤ target < rn[p+1].startID`. -/
theorem seekPos_inside {rn : Array RangeNode} (hs : Sorted rn) (t : CellID)
    (h0 : rn[0]!.startID ≤ t) (h1 : t < rn[rn.size - 1]!.startID) :
    ∃ p : Nat, seekPos rn t = (p : Int) ∧ p + 1 < rn.size ∧ rn[p]!.startID ≤ t ∧ t < rn[p + 1]!.startID := by
  obtain ⟨g1, g2, g3⟩ := searchGT_spec hs t
  unfold seekPos
  generalize searchGT rn t = r at *
  have hsz : 1 ≤ rn.size := by
    rcases Nat.eq_zero_or_pos rn.size with h | h
    · rw [h] at h1
      exact absurd h0 (UInt64.not_le.2 h1)
    · exact h
  have hr0 : 0 < r := by
    rcases Nat.eq_zero_or_pos r with h | h
    · subst h
      exact absurd h0 (UInt64.not_le.2 (g3 0 (Nat.le_refl _) (by omega)))
    · exact h
  have hr1 : r < rn.size := by
    rcases Nat.lt_or_ge r rn.size with h | h
    · exact h
    · exact absurd (g2 (rn.size - 1) (by omega)) (UInt64.not_le.2 h1)
  refine ⟨r - 1, ?_, by omega, g2 _ (by omega), ?_⟩
  · split <;> omega
  · have : r - 1 + 1 = r := by omega
    rw [this]; exact g3 r (Nat.le_refl _) hr1

/-- the range containing a target is unique (so (a) determines the position) -/
theorem containing_unique {rn : Array RangeNode} (hs : Sorted rn) (t : CellID) (p q : Nat)
    (hp : p + 1 < rn.size) (hp1 : rn[p]!.startID ≤ t) (hp2 : t < rn[p + 1]!.startID)
    (hq : q + 1 < rn.size) (hq1 : rn[q]!.startID ≤ t) (hq2 : t < rn[q + 1]!.startID) : p = q := by
  rcases Nat.lt_trichotomy p q with h | h | h
  · have := UInt64.lt_of_lt_of_le hp2 (starts_le hs (show p + 1 ≤ q by omega) (by omega))
    exact absurd hq1 (UInt64.not_le.2 this)
  · exact h
  · have := UInt64.lt_of_lt_of_le hq2 (starts_le hs (show q + 1 ≤ p by omega) (by omega))
    exact absurd hp1 (UInt64.not_le.2 this)

/-- (b) target before the first node: position 0 -/
theorem seekPos_before {rn : Array RangeNode} (hs : Sorted rn) (t : CellID) (h0 : t < rn[0]!.startID) :
    seekPos rn t = 0 := by
  obtain ⟨g1, g2, g3⟩ := searchGT_spec hs t
  unfold seekPos
  generalize searchGT rn t = r at *
  rcases Nat.eq_zero_or_pos r with h | h
  · subst h; simp
  · exact absurd (g2 0 h) (UInt64.not_le.2 h0)

/-- (c) target at or after the sentinel node: position `size-1`, i.e. Done -/
theorem seekPos_after {rn : Array RangeNode} (hs : Sorted rn) (hsz : 1 ≤ rn.size) (t : CellID)
    (h1 : rn[rn.size - 1]!.startID ≤ t) : seekPos rn t = (rn.size : Int) - 1 := by
  obtain ⟨g1, g2, g3⟩ := searchGT_spec hs t
  unfold seekPos
  generalize searchGT rn t = r at *
  rcases Nat.lt_or_ge r rn.size with h | h
  · exact absurd h1 (UInt64.not_le.2 (g3 (rn.size - 1) (by omega) (by omega)))
  · split <;> omega

/-- SEEK, plain iterator, target inside the covered span: afterwards the iterator is not done and
    `StartID() ≤ target < LimitID()`: it is positioned at THE range that contains the target. -/
theorem seek_plain_inside (c : RangeIter) (hne : c.nonEmpty = false) (hs : Sorted c.rn) (t : CellID)
    (h0 : c.rn[0]!.startID ≤ t) (h1 : t < c.rn[c.rn.size - 1]!.startID) :
    (c.seek t).rn = c.rn ∧ 0 ≤ (c.seek t).pos ∧ (c.seek t).done = false ∧
      (c.seek t).startID ≤ t ∧ t < (c.seek t).limitID := by
  obtain ⟨p, e, hp, a, b⟩ := seekPos_inside hs t h0 h1
  rw [seek_plain c hne, e]
  have h1 : ((p : Int) + 1).toNat = p + 1 := by omega
  refine ⟨rfl, by simp, ?_, ?_, ?_⟩
  · simp [RangeIter.done]; omega
  · simpa [RangeIter.startID] using a
  · simpa [RangeIter.limitID, h1] using b

theorem seek_plain_before (c : RangeIter) (hne : c.nonEmpty = false) (hs : Sorted c.rn) (t : CellID)
    (h0 : t < c.rn[0]!.startID) : c.seek t = { c with pos := 0 } := by
  rw [seek_plain c hne, seekPos_before hs t h0]

theorem seek_plain_after (c : RangeIter) (hne : c.nonEmpty = false) (hs : Sorted c.rn) (hsz : 1 ≤ c.rn.size)
    (t : CellID) (h1 : c.rn[c.rn.size - 1]!.startID ≤ t) : c.seek t = c.finish := by
  rw [seek_plain c hne, seekPos_after hs hsz t h1]; rfl

-- non-vacuity: inside (6 ∈ [5,9) = range 1), before (0 < 1), after (17 ≤ 20)
example : ex5[0]!.startID ≤ 6 ∧ (6 : CellID) < ex5[ex5.size - 1]!.startID ∧ ((RangeIter.mk ex5 0 false).seek 6).pos = 1 := by
  decide
example : (0 : CellID) < ex5[0]!.startID ∧ ((RangeIter.mk ex5 3 false).seek 0).pos = 0 := by decide
example : ex5[ex5.size - 1]!.startID ≤ 20 ∧ ((RangeIter.mk ex5 0 false).seek 20).pos = 4 := by decide

/-- DOC DISCREPANCY.  The Go doc comment of `Seek` says "positions the iterator at the first range
    with startID >= target".  The code (and the C++ original, `upper_bound(..) - 1`) positions it at
    the range CONTAINING the target, i.e. the LAST range with `startID ≤ target`.  With starts
    1,5,9,13,17 and target 6: `Seek` gives position 1 (startID 5 < 6); the first range with
    `startID ≥ 6` would be position 2 (startID 9). -/
example : ((RangeIter.mk ex5 0 false).seek 6).pos = 1 ∧ ((RangeIter.mk ex5 0 false).seek 6).startID = 5 ∧
    ¬ (((RangeIter.mk ex5 0 false).seek 6).startID ≥ 6) ∧
    (ex5.toList.map (·.startID)).findIdx? (· ≥ 6) = some 2 := by decide


/-! ## 4. The non-empty flavour (`nonEmpty = true`) -/

/-- `q` is where the skip loop `for c.nonEmpty && c.IsEmpty() && !c.Done() { c.pos++ }` stops when
    started at the valid position `p`: the LEAST position `q ≥ p` that is the sentinel position
    `size-1` (Done) or holds a non-empty range; all positions in between are empty. -/
def IsSkipTarget (rn : Array RangeNode) (p q : Int) : Prop :=
  0 ≤ p ∧ p ≤ q ∧ q ≤ (rn.size : Int) - 1 ∧ (q = (rn.size : Int) - 1 ∨ rn[q.toNat]!.contents ≠ -1) ∧
  ∀ r : Int, p ≤ r → r < q → rn[r.toNat]!.contents = -1

/-- leastness / uniqueness of the skip target -/
theorem IsSkipTarget_unique {rn : Array RangeNode} {p q q' : Int}
    (h : IsSkipTarget rn p q) (h' : IsSkipTarget rn p q') : q = q' := by
  obtain ⟨_, a1, a2, a3, a4⟩ := h
  obtain ⟨_, b1, b2, b3, b4⟩ := h'
  rcases Int.lt_trichotomy q q' with hlt | heq | hlt
  · rcases a3 with e | e
    · omega
    · exact absurd (b4 q a1 hlt) e
  · exact heq
  · rcases b3 with e | e
    · omega
    · exact absurd (a4 q' b1 hlt) e

/-- a stop position is its own skip target -/
theorem IsSkipTarget_self {rn : Array RangeNode} {p : Int} (h0 : 0 ≤ p) (h1 : p ≤ (rn.size : Int) - 1)
    (h : p = (rn.size : Int) - 1 ∨ rn[p.toNat]!.contents ≠ -1) : IsSkipTarget rn p p :=
  ⟨h0, Int.le_refl _, h1, h, fun r a b => by omega⟩

/-- one step of the skip loop -/
theorem IsSkipTarget_step {rn : Array RangeNode} {p q : Int} (h0 : 0 ≤ p)
    (he : rn[p.toNat]!.contents = -1) (h : IsSkipTarget rn (p + 1) q) : IsSkipTarget rn p q := by
  obtain ⟨_, a1, a2, a3, a4⟩ := h
  refine ⟨h0, by omega, a2, a3, ?_⟩
  intro r hr1 hr2
  by_cases hrp : r = p
  · subst hrp; exact he
  · exact a4 r (by omega) hr2

theorem done_eq_true (c : RangeIter) (h : (c.rn.size : Int) - 1 ≤ c.pos) : c.done = true := by
  simp [RangeIter.done]; omega
theorem done_eq_false (c : RangeIter) (h : c.pos < (c.rn.size : Int) - 1) : c.done = false := by
  simp [RangeIter.done]; omega
theorem isEmpty_eq_true (c : RangeIter) (h : c.rn[c.pos.toNat]!.contents = -1) : c.isEmpty = true := by
  simp [RangeIter.isEmpty, RangeIter.contents, doneContents, h]
theorem isEmpty_eq_false (c : RangeIter) (h : c.rn[c.pos.toNat]!.contents ≠ -1) : c.isEmpty = false := by
  simp [RangeIter.isEmpty, RangeIter.contents, doneContents, h]

theorem skipEmpty_go_spec (fuel : Nat) (c : RangeIter) (hne : c.nonEmpty = true) (h0 : 0 ≤ c.pos)
    (h1 : c.pos ≤ (c.rn.size : Int) - 1) (hf : (c.rn.size : Int) - 1 - c.pos ≤ fuel) :
    (skipEmpty.go fuel c).rn = c.rn ∧ (skipEmpty.go fuel c).nonEmpty = true ∧
      IsSkipTarget c.rn c.pos (skipEmpty.go fuel c).pos := by
  induction fuel generalizing c with
  | zero =>
    unfold skipEmpty.go
    exact ⟨rfl, hne, IsSkipTarget_self h0 h1 (Or.inl (by omega))⟩
  | succ fuel ih =>
    unfold skipEmpty.go
    by_cases hd : c.pos = (c.rn.size : Int) - 1
    · have hcond : (c.nonEmpty && c.isEmpty && !c.done) = false := by
        rw [done_eq_true c (by omega)]; simp
      rw [hcond, if_neg (by decide)]
      exact ⟨rfl, hne, IsSkipTarget_self h0 h1 (Or.inl hd)⟩
    · by_cases he : c.rn[c.pos.toNat]!.contents = -1
      · have hcond : (c.nonEmpty && c.isEmpty && !c.done) = true := by
          rw [done_eq_false c (by omega), isEmpty_eq_true c he, hne]; rfl
        rw [hcond, if_pos rfl]
        obtain ⟨a, b, t⟩ := ih { c with pos := c.pos + 1 } hne (by simp; omega) (by simp; omega) (by simp; omega)
        exact ⟨a, b, IsSkipTarget_step h0 he t⟩
      · have hcond : (c.nonEmpty && c.isEmpty && !c.done) = false := by
          rw [isEmpty_eq_false c he]; simp
        rw [hcond, if_neg (by decide)]
        exact ⟨rfl, hne, IsSkipTarget_self h0 h1 (Or.inr he)⟩

/-- SPEC OF THE SKIP LOOP: from a well-positioned non-empty iterator (`0 ≤ pos ≤ size-1`) the loop
    moves to the least position `≥ pos` that is Done or non-empty; only `pos` changes.  (The fuel
    `size` of the model's loop is sufficient.) -/
theorem skipEmpty_spec (c : RangeIter) (hne : c.nonEmpty = true) (h0 : 0 ≤ c.pos)
    (h1 : c.pos ≤ (c.rn.size : Int) - 1) :
    (skipEmpty c).rn = c.rn ∧ (skipEmpty c).nonEmpty = true ∧ IsSkipTarget c.rn c.pos (skipEmpty c).pos :=
  skipEmpty_go_spec _ c hne h0 h1 (by omega)

example : (skipEmpty (RangeIter.mk ex5 2 true)).pos = 3 ∧ (skipEmpty (RangeIter.mk ex5 4 true)).pos = 4 ∧
    (skipEmpty (RangeIter.mk ex5 1 true)).pos = 1 := by decide


/-- forget the `nonEmpty` flag -/
def plain (c : RangeIter) : RangeIter := { c with nonEmpty := false }

/-- `Begin`/`Next`/`Seek` of ANY iterator = the plain operation followed by the skip loop. -/
theorem begin_eq_skip_plain (c : RangeIter) :
    c.begin = skipEmpty { (plain c).begin with nonEmpty := c.nonEmpty } := by
  rw [begin_plain (plain c) rfl]; rfl
theorem next_eq_skip_plain (c : RangeIter) :
    c.next = skipEmpty { (plain c).next with nonEmpty := c.nonEmpty } := by
  rw [next_plain (plain c) rfl]; rfl
theorem seek_eq_skip_plain (c : RangeIter) (t : CellID) :
    c.seek t = skipEmpty { (plain c).seek t with nonEmpty := c.nonEmpty } := by
  rw [seek_plain (plain c) rfl]; rfl

/-- `Begin` of the non-empty iterator (needs at least the sentinel node): first non-empty range, or Done -/
theorem begin_nonEmpty (c : RangeIter) (hne : c.nonEmpty = true) (hsz : 1 ≤ c.rn.size) :
    c.begin.rn = c.rn ∧ c.begin.nonEmpty = true ∧ IsSkipTarget c.rn 0 c.begin.pos :=
  skipEmpty_spec { c with pos := 0 } hne (Int.le_refl _) (by simp; omega)

/-- `Next` of the non-empty iterator from a valid, not-done position (the Go contract of `Next`):
    first non-empty range after the current one, or Done -/
theorem next_nonEmpty (c : RangeIter) (hne : c.nonEmpty = true) (h0 : 0 ≤ c.pos)
    (h1 : c.pos < (c.rn.size : Int) - 1) :
    c.next.rn = c.rn ∧ c.next.nonEmpty = true ∧ IsSkipTarget c.rn (c.pos + 1) c.next.pos :=
  skipEmpty_spec { c with pos := c.pos + 1 } hne (by simp; omega) (by simp; omega)

theorem seekPos_range {rn : Array RangeNode} (hs : Sorted rn) (hsz : 1 ≤ rn.size) (t : CellID) :
    0 ≤ seekPos rn t ∧ seekPos rn t ≤ (rn.size : Int) - 1 := by
  have := (searchGT_spec hs t).1
  unfold seekPos; split <;> omega

/-- `Seek` of the non-empty iterator: the skip target of the plain `Seek` position -/
theorem seek_nonEmpty (c : RangeIter) (hne : c.nonEmpty = true) (hs : Sorted c.rn) (hsz : 1 ≤ c.rn.size)
    (t : CellID) :
    (c.seek t).rn = c.rn ∧ (c.seek t).nonEmpty = true ∧ IsSkipTarget c.rn (seekPos c.rn t) (c.seek t).pos :=
  skipEmpty_spec { c with pos := seekPos c.rn t } hne (seekPos_range hs hsz t).1 (seekPos_range hs hsz t).2

/-- … in particular for a target inside the covered span: the first non-empty range at or after THE
    range `p` containing the target (or Done). -/
theorem seek_nonEmpty_inside (c : RangeIter) (hne : c.nonEmpty = true) (hs : Sorted c.rn) (t : CellID)
    (h0 : c.rn[0]!.startID ≤ t) (h1 : t < c.rn[c.rn.size - 1]!.startID) :
    ∃ p : Nat, p + 1 < c.rn.size ∧ c.rn[p]!.startID ≤ t ∧ t < c.rn[p + 1]!.startID ∧
      IsSkipTarget c.rn p (c.seek t).pos := by
  obtain ⟨p, e, hp, a, b⟩ := seekPos_inside hs t h0 h1
  refine ⟨p, hp, a, b, ?_⟩
  rw [← e]; exact (seek_nonEmpty c hne hs (by omega) t).2.2

example : (RangeIter.mk ex5 0 true).begin.pos = 1 ∧ (RangeIter.mk ex5 1 true).next.pos = 3 ∧
    (RangeIter.mk ex5 3 true).next.pos = 4 ∧ ((RangeIter.mk ex5 0 true).seek 10).pos = 3 ∧
    ((RangeIter.mk ex5 0 true).seek 6).pos = 1 ∧ ((RangeIter.mk ex5 0 true).seek 0).pos = 1 := by decide

/-! ### `nonEmptyPrev` -/

/-- what `nonEmptyPrev` does after having walked back to position 0 without finding anything:
    `if c.IsEmpty() && !c.Done() { c.Next() }` -/
def restore (c0 : RangeIter) : RangeIter := if c0.isEmpty && !c0.done then c0.next else c0

theorem nonEmptyPrev_go_found (fuel : Nat) (c : RangeIter) (hf : c.pos < fuel) (q : Int) (hq0 : 0 ≤ q)
    (hq1 : q < c.pos) (hq : c.rn[q.toNat]!.contents ≠ -1)
    (hbetween : ∀ r : Int, q < r → r < c.pos → c.rn[r.toNat]!.contents = -1) :
    nonEmptyPrev.go fuel c = ({ c with pos := q }, true) := by
  induction fuel generalizing c with
  | zero => omega
  | succ fuel ih =>
    unfold nonEmptyPrev.go
    rw [prev'_ne c (by omega)]
    by_cases hqc : q = c.pos - 1
    · have : ({ c with pos := c.pos - 1 } : RangeIter).isEmpty = false :=
        isEmpty_eq_false _ (by simpa [← hqc] using hq)
      simp only [this, if_true, Bool.not_false, hqc]
    · have : ({ c with pos := c.pos - 1 } : RangeIter).isEmpty = true :=
        isEmpty_eq_true _ (hbetween (c.pos - 1) (by omega) (by omega))
      simp only [this, if_true, Bool.not_true, Bool.false_eq_true, if_false]
      exact ih { c with pos := c.pos - 1 } (show c.pos - 1 < (fuel : Int) by omega)
        (show q < c.pos - 1 by omega) hq
        (fun r a b => hbetween r a (by have b' : r < c.pos - 1 := b; omega))

theorem nonEmptyPrev_go_none (fuel : Nat) (c : RangeIter) (h0 : 0 ≤ c.pos) (hf : c.pos < fuel)
    (hbefore : ∀ r : Int, 0 ≤ r → r < c.pos → c.rn[r.toNat]!.contents = -1) :
    nonEmptyPrev.go fuel c = (restore { c with pos := 0 }, false) := by
  induction fuel generalizing c with
  | zero => omega
  | succ fuel ih =>
    unfold nonEmptyPrev.go
    by_cases hc : c.pos = 0
    · rw [prev'_zero c hc]
      have : c = { c with pos := 0 } := by cases c; simp at hc; subst hc; rfl
      rw [← this]
      simp only [Bool.false_eq_true, if_false, restore]
      split <;> rfl
    · rw [prev'_ne c hc]
      have : ({ c with pos := c.pos - 1 } : RangeIter).isEmpty = true :=
        isEmpty_eq_true _ (hbefore (c.pos - 1) (by omega) (by omega))
      simp only [this, if_true, Bool.not_true, Bool.false_eq_true, if_false]
      exact ih { c with pos := c.pos - 1 } (show 0 ≤ c.pos - 1 by omega)
        (show c.pos - 1 < (fuel : Int) by omega)
        (fun r a b => hbefore r a (by have b' : r < c.pos - 1 := b; omega))


theorem ext3 {a b : RangeIter} (h1 : a.rn = b.rn) (h2 : a.pos = b.pos) (h3 : a.nonEmpty = b.nonEmpty) : a = b := by
  cases a; cases b; simp_all

/-- among the positions `< n`: if some range is non-empty then there is a LAST non-empty one -/
theorem exists_last_nonEmpty (rn : Array RangeNode) (n : Nat)
    (h : ∃ q : Int, 0 ≤ q ∧ q < n ∧ rn[q.toNat]!.contents ≠ -1) :
    ∃ q : Int, 0 ≤ q ∧ q < n ∧ rn[q.toNat]!.contents ≠ -1 ∧
      ∀ r : Int, q < r → r < n → rn[r.toNat]!.contents = -1 := by
  induction n with
  | zero => obtain ⟨q, a, b, _⟩ := h; omega
  | succ n ih =>
    by_cases hn : rn[((n : Nat) : Int).toNat]!.contents = -1
    · obtain ⟨q, a, b, d⟩ := h
      have hqn : q ≠ (n : Int) := by rintro rfl; exact d hn
      obtain ⟨q', a', b', d', e'⟩ := ih ⟨q, a, by omega, d⟩
      refine ⟨q', a', by omega, d', ?_⟩
      intro r hr1 hr2
      by_cases hrn : r = (n : Int)
      · subst hrn; exact hn
      · exact e' r hr1 (by omega)
    · exact ⟨n, by omega, by omega, hn, fun r a b => by omega⟩

/-- `nonEmptyPrev`, case FOUND: from a well-positioned iterator, if `q` is the LAST non-empty range
    strictly before the current position, the iterator moves there and reports true.
    (The fuel `size+1` of the model's loop suffices.) -/
theorem nonEmptyPrev_found (c : RangeIter) (_h0 : 0 ≤ c.pos) (h1 : c.pos ≤ (c.rn.size : Int) - 1) (q : Int)
    (hq0 : 0 ≤ q) (hq1 : q < c.pos) (hq : c.rn[q.toNat]!.contents ≠ -1)
    (hbetween : ∀ r : Int, q < r → r < c.pos → c.rn[r.toNat]!.contents = -1) :
    c.nonEmptyPrev = ({ c with pos := q }, true) :=
  nonEmptyPrev_go_found _ c (by omega) q hq0 hq1 hq hbetween

/-- `nonEmptyPrev`, case NOT FOUND (all ranges before the current position are empty): reports false;
    the iterator is left where the code's "return to the original position" puts it: position 0 and then,
    if range 0 is empty and not the sentinel, one `Next()`. -/
theorem nonEmptyPrev_none (c : RangeIter) (h0 : 0 ≤ c.pos) (h1 : c.pos ≤ (c.rn.size : Int) - 1)
    (hbefore : ∀ r : Int, 0 ≤ r → r < c.pos → c.rn[r.toNat]!.contents = -1) :
    c.nonEmptyPrev = (restore { c with pos := 0 }, false) :=
  nonEmptyPrev_go_none _ c h0 (by omega) hbefore

/-- the two cases are exhaustive (and exclusive) -/
theorem nonEmptyPrev_cases (c : RangeIter) (h0 : 0 ≤ c.pos) :
    (∃ q : Int, 0 ≤ q ∧ q < c.pos ∧ c.rn[q.toNat]!.contents ≠ -1 ∧
        ∀ r : Int, q < r → r < c.pos → c.rn[r.toNat]!.contents = -1) ∨
    (∀ r : Int, 0 ≤ r → r < c.pos → c.rn[r.toNat]!.contents = -1) := by
  by_cases h : ∃ q : Int, 0 ≤ q ∧ q < c.pos ∧ c.rn[q.toNat]!.contents ≠ -1
  · left
    obtain ⟨q, a, b, d⟩ := h
    have := exists_last_nonEmpty c.rn c.pos.toNat ⟨q, a, by omega, d⟩
    rwa [Int.toNat_of_nonneg h0] at this
  · right
    intro r a b
    by_cases hr : c.rn[r.toNat]!.contents = -1
    · exact hr
    · exact absurd ⟨r, a, b, hr⟩ h

/-- `restore` when range 0 is non-empty or there is only the sentinel: stays at 0 -/
theorem restore_stay (c0 : RangeIter) (hp : c0.pos = 0) (h : c0.rn[0]!.contents ≠ -1 ∨ c0.rn.size ≤ 1) :
    restore c0 = c0 := by
  unfold restore
  rcases h with h | h
  · rw [isEmpty_eq_false c0 (by rw [hp]; exact h)]; rfl
  · rw [done_eq_true c0 (by omega)]; simp

/-- `restore` when range 0 is empty and a real range: first non-empty range at or after 1, or Done -/
theorem restore_move (c0 : RangeIter) (hne : c0.nonEmpty = true) (hp : c0.pos = 0) (h : c0.rn[0]!.contents = -1)
    (hsz : 2 ≤ c0.rn.size) :
    (restore c0).rn = c0.rn ∧ (restore c0).nonEmpty = true ∧ IsSkipTarget c0.rn 1 (restore c0).pos := by
  unfold restore
  rw [isEmpty_eq_true c0 (by rw [hp]; exact h), done_eq_false c0 (by omega)]
  have := next_nonEmpty c0 hne (by omega) (by omega)
  rw [hp] at this
  simpa using this

/-- NOT FOUND, position made explicit -/
theorem nonEmptyPrev_none_pos (c : RangeIter) (hne : c.nonEmpty = true) (h0 : 0 ≤ c.pos)
    (h1 : c.pos ≤ (c.rn.size : Int) - 1)
    (hbefore : ∀ r : Int, 0 ≤ r → r < c.pos → c.rn[r.toNat]!.contents = -1) :
    c.nonEmptyPrev.2 = false ∧ c.nonEmptyPrev.1.rn = c.rn ∧ c.nonEmptyPrev.1.nonEmpty = true ∧
    ((c.rn[0]!.contents ≠ -1 ∨ c.rn.size ≤ 1) → c.nonEmptyPrev.1.pos = 0) ∧
    (c.rn[0]!.contents = -1 → 2 ≤ c.rn.size → IsSkipTarget c.rn 1 c.nonEmptyPrev.1.pos) := by
  rw [nonEmptyPrev_none c h0 h1 hbefore]
  by_cases h : c.rn[0]!.contents ≠ -1 ∨ c.rn.size ≤ 1
  · rw [restore_stay { c with pos := 0 } rfl h]
    refine ⟨rfl, rfl, hne, fun _ => rfl, fun a b => ?_⟩
    rcases h with h | h
    · exact absurd a h
    · omega
  · have ha : c.rn[0]!.contents = -1 := by
      by_cases hh : c.rn[0]!.contents = -1
      · exact hh
      · exact absurd (Or.inl hh) h
    have hb : 2 ≤ c.rn.size := by
      rcases Nat.lt_or_ge c.rn.size 2 with hh | hh
      · exact absurd (Or.inr (by omega)) h
      · exact hh
    obtain ⟨x, y, z⟩ := restore_move { c with pos := 0 } hne rfl ha hb
    exact ⟨rfl, x, y, fun hh => absurd hh h, fun _ _ => z⟩

/-- COROLLARY ("return the iterator to its original position" is right in the intended situation):
    if the non-empty iterator is positioned at the FIRST non-empty range (or there is none and it is
    Done), `nonEmptyPrev` reports false and leaves the iterator exactly as it was. -/
theorem nonEmptyPrev_at_first (c : RangeIter) (hne : c.nonEmpty = true) (hfirst : IsSkipTarget c.rn 0 c.pos) :
    c.nonEmptyPrev = (c, false) := by
  obtain ⟨_, h0, h1, hstop, hall⟩ := hfirst
  obtain ⟨e2, e1, e3, e4, e5⟩ := nonEmptyPrev_none_pos c hne h0 h1 hall
  have hpos : c.nonEmptyPrev.1.pos = c.pos := by
    by_cases h : c.rn[0]!.contents ≠ -1 ∨ c.rn.size ≤ 1
    · rw [e4 h]
      rcases Classical.em (0 < c.pos) with hp | hp
      · rcases h with h | h
        · exact absurd (hall 0 (Int.le_refl _) hp) h
        · omega
      · omega
    · have ha : c.rn[0]!.contents = -1 := by
        by_cases hh : c.rn[0]!.contents = -1
        · exact hh
        · exact absurd (Or.inl hh) h
      have hb : 2 ≤ c.rn.size := by
        rcases Nat.lt_or_ge c.rn.size 2 with hh | hh
        · exact absurd (Or.inr (by omega)) h
        · exact hh
      have hp : 1 ≤ c.pos := by
        rcases Classical.em (0 < c.pos) with hp | hp
        · omega
        · have : c.pos = 0 := by omega
          rw [this] at hstop
          rcases hstop with hh | hh
          · omega
          · exact absurd ha hh
      exact IsSkipTarget_unique (e5 ha hb) ⟨by omega, hp, h1, hstop, fun r a b => hall r (by omega) b⟩
  have : c.nonEmptyPrev = (c.nonEmptyPrev.1, c.nonEmptyPrev.2) := rfl
  rw [this, e2, ext3 e1 hpos (e3.trans hne.symm)]

/-- `Prev` of the non-empty iterator is `nonEmptyPrev`. -/
theorem prev_nonEmpty (c : RangeIter) (h : c.nonEmpty = true) : c.prev = c.nonEmptyPrev := by
  simp [RangeIter.prev, h]

-- non-vacuity on contents -1,0,-1,1,-1: from Done (4) to 3, from 3 to 1, from 2 (reachable by Advance) to 1,
-- from 1 (the first non-empty range) nothing: false and position kept
example : (RangeIter.mk ex5 4 true).prev.1.pos = 3 ∧ (RangeIter.mk ex5 4 true).prev.2 = true ∧
    (RangeIter.mk ex5 3 true).prev.1.pos = 1 ∧ (RangeIter.mk ex5 3 true).prev.2 = true ∧
    (RangeIter.mk ex5 2 true).prev.1.pos = 1 ∧
    (RangeIter.mk ex5 1 true).prev.1.pos = 1 ∧ (RangeIter.mk ex5 1 true).prev.2 = false := by decide

/-- all ranges empty: contents -1,-1,-1 (two ranges + sentinel) -/
def exE : Array RangeNode := #[⟨1, -1⟩, ⟨5, -1⟩, ⟨9, -1⟩]
/-- three leading empty ranges: contents -1,-1,-1,0,-1 -/
def exL : Array RangeNode := #[⟨1, -1⟩, ⟨5, -1⟩, ⟨9, -1⟩, ⟨13, 0⟩, ⟨17, -1⟩]

-- no non-empty range at all: `Begin` is Done (pos 2); `Prev` from there reports false and returns to Done
example : (RangeIter.mk exE 0 true).begin.pos = 2 ∧ (RangeIter.mk exE 2 true).prev.1.pos = 2 ∧
    (RangeIter.mk exE 2 true).prev.2 = false := by decide

/-- ODDITY.  `Advance` does not skip empty ranges even for the non-empty flavour, and accepts negative
    `n`; so a non-empty iterator can sit on an empty range that is not the first stop position.
    `Prev` then reports false but does NOT "return the iterator to its original position":
    here it starts at 1 and ends at 3 (the first non-empty range), i.e. it moves FORWARD. -/
example : ((RangeIter.mk exL 0 true).begin.advance (-2)).1.pos = 1 ∧
    (RangeIter.mk exL 1 true).prev.1.pos = 3 ∧ (RangeIter.mk exL 1 true).prev.2 = false := by decide


/-- `Prev` UNDOES `Next` (non-empty flavour): from a non-empty range `Next` followed by `Prev` reports
    true and restores the iterator exactly. -/
theorem next_prev_nonEmpty (c : RangeIter) (hne : c.nonEmpty = true) (h0 : 0 ≤ c.pos)
    (h1 : c.pos < (c.rn.size : Int) - 1) (hc : c.rn[c.pos.toNat]!.contents ≠ -1) :
    c.next.prev = (c, true) := by
  obtain ⟨e1, e2, t0, t1, t2, t3, t4⟩ := next_nonEmpty c hne h0 h1
  rw [prev_nonEmpty _ e2,
    nonEmptyPrev_found c.next (by omega) (by rw [e1]; exact t2) c.pos h0 (by omega) (by rw [e1]; exact hc)
      (fun r a b => by rw [e1]; exact t4 r (by omega) b)]
  congr 1
  exact ext3 e1 rfl (e2.trans hne.symm)

example : (RangeIter.mk ex5 1 true).next.prev.1.pos = 1 ∧ (RangeIter.mk ex5 1 true).next.prev.2 = true := by decide

/-! ### the non-empty iteration enumerates exactly the non-empty ranges -/

/-- the positions `≥ p` of the non-empty real ranges, in increasing order -/
def neFrom (rn : Array RangeNode) (p : Nat) : List Nat :=
  (List.range' p (rn.size - 1 - p)).filter (fun i => rn[i]!.contents ≠ -1)

/-- the iterator states visited by the loop `for ; !c.Done(); c.Next() { visit c }` (with fuel) -/
def visited : Nat → RangeIter → List RangeIter
  | 0, _ => []
  | fuel+1, c => if c.done then [] else c :: visited fuel c.next

theorem neFrom_cons (rn : Array RangeNode) (p : Nat) (hp : p + 1 < rn.size) :
    neFrom rn p = if rn[p]!.contents ≠ -1 then p :: neFrom rn (p + 1) else neFrom rn (p + 1) := by
  unfold neFrom
  have : rn.size - 1 - p = (rn.size - 1 - (p + 1)) + 1 := by omega
  rw [this, List.range'_succ, List.filter_cons]
  simp

theorem neFrom_skip {rn : Array RangeNode} (d : Nat) (p q : Nat) (hd : q - p = d)
    (h : IsSkipTarget rn (p : Int) (q : Int)) : neFrom rn p = neFrom rn q := by
  induction d generalizing p with
  | zero =>
    obtain ⟨_, a, _⟩ := h
    have : p = q := by omega
    rw [this]
  | succ d ih =>
    obtain ⟨a0, a1, a2, a3, a4⟩ := h
    have he := a4 (p : Int) (Int.le_refl _) (by omega)
    simp only [Int.toNat_natCast] at he
    rw [neFrom_cons rn p (by omega), if_neg (by simpa using he)]
    exact ih (p + 1) (by omega) ⟨by omega, by omega, a2, a3, fun r x y => a4 r (by omega) y⟩

theorem visited_spec (fuel : Nat) (c : RangeIter) (hne : c.nonEmpty = true) (q : Nat) (hq : c.pos = (q : Int))
    (hq1 : q + 1 ≤ c.rn.size) (hstop : q + 1 = c.rn.size ∨ c.rn[q]!.contents ≠ -1)
    (hf : c.rn.size - 1 - q < fuel) :
    visited fuel c = (neFrom c.rn q).map (fun (i : Nat) => { c with pos := (i : Int) }) := by
  induction fuel generalizing c q with
  | zero => omega
  | succ fuel ih =>
    unfold visited
    by_cases hd : q + 1 = c.rn.size
    · rw [done_eq_true c (by omega), if_pos rfl]
      have : c.rn.size - 1 - q = 0 := by omega
      simp [neFrom, this]
    · have hne' : c.rn[q]!.contents ≠ -1 := by
        rcases hstop with h | h
        · exact absurd h hd
        · exact h
      rw [done_eq_false c (by omega), if_neg (by decide), neFrom_cons c.rn q (by omega), if_pos hne']
      obtain ⟨e1, e2, t⟩ := next_nonEmpty c hne (by omega) (by omega)
      obtain ⟨t0, t1, t2, t3, t4⟩ := t
      have hq' : c.next.pos = ((c.next.pos.toNat : Nat) : Int) := by omega
      have hskip : IsSkipTarget c.rn ((q + 1 : Nat) : Int) ((c.next.pos.toNat : Nat) : Int) := by
        rw [← hq']; rw [hq] at t0 t1 t4
        exact ⟨by omega, by omega, t2, t3, fun r x y => t4 r (by omega) y⟩
      rw [neFrom_skip _ _ _ rfl hskip]
      have := ih c.next e2 c.next.pos.toNat hq' (by rw [e1]; omega)
        (by rw [e1]; rcases t3 with h | h
            · left; omega
            · right; exact h)
        (by rw [e1]; omega)
      rw [this]
      simp only [e1, e2, hne, List.map_cons]
      congr 1
      exact ext3 rfl hq hne

/-- the positions of the non-empty real ranges of an index, increasing -/
def nePositions (rn : Array RangeNode) : List Nat :=
  (List.range (rn.size - 1)).filter (fun i => rn[i]!.contents ≠ -1)

/-- THE ENUMERATION THEOREM, NON-EMPTY FLAVOUR.  The loop
    `for it.Begin(); !it.Done(); it.Next()` over the non-empty iterator of an index with at least the
    sentinel node visits exactly the positions of the ranges with `contents ≠ -1`, in increasing
    order, each once (fuel `size` is enough). -/
theorem visited_nonEmpty (ix : Index) (hsz : 1 ≤ ix.ranges.size) :
    visited ix.ranges.size (RangeIter.newNonEmpty ix).begin =
      (nePositions ix.ranges).map (fun (i : Nat) => { RangeIter.newNonEmpty ix with pos := (i : Int) }) := by
  obtain ⟨e1, e2, t⟩ := begin_nonEmpty (RangeIter.newNonEmpty ix) rfl hsz
  have hrn : (RangeIter.newNonEmpty ix).rn = ix.ranges := rfl
  rw [hrn] at e1 t
  obtain ⟨t0, t1, t2, t3, t4⟩ := t
  have hq' : (RangeIter.newNonEmpty ix).begin.pos = (((RangeIter.newNonEmpty ix).begin.pos.toNat : Nat) : Int) := by omega
  have hskip : IsSkipTarget ix.ranges ((0 : Nat) : Int) (((RangeIter.newNonEmpty ix).begin.pos.toNat : Nat) : Int) := by
    rw [← hq']; exact ⟨t0, t1, t2, t3, t4⟩
  have := visited_spec ix.ranges.size (RangeIter.newNonEmpty ix).begin e2 _ hq' (by rw [e1]; omega)
    (by rw [e1]; rcases t3 with h | h
        · left; omega
        · right; exact h)
    (by rw [e1]; omega)
  rw [e1] at this
  rw [this, ← neFrom_skip _ _ _ rfl hskip]
  simp only [e2]
  simp [neFrom, nePositions, List.range_eq_range', RangeIter.newNonEmpty]

/-- … hence the reported `(StartID, LimitID, contents)` triples are exactly the non-empty entries of
    `rangeList ix`, in order. -/
theorem visited_nonEmpty_triples (ix : Index) (hsz : 1 ≤ ix.ranges.size) :
    (visited ix.ranges.size (RangeIter.newNonEmpty ix).begin).map (fun c => (c.startID, c.limitID, c.contents)) =
      (rangeList ix).filter (fun r => r.2.2 ≠ -1) := by
  rw [visited_nonEmpty ix hsz, rangeList, List.filter_map, List.map_map]
  have h1 : ∀ i : Nat, ((i : Int) + 1).toNat = i + 1 := by intro i; omega
  simp [nePositions, Function.comp_def, RangeIter.startID, RangeIter.limitID, RangeIter.contents,
    RangeIter.newNonEmpty, h1]

example : (visited 5 (RangeIter.newNonEmpty ⟨#[], ex5⟩).begin).map (·.pos) = [1, 3] ∧ nePositions ex5 = [1, 3] := by
  decide


/-! ## 6. Instantiation for a built index `(build cells).ranges` -/

theorem buildLoop_starts_mem (ds : List Delta) (tree : Array TreeNode) (ranges : Array RangeNode) (contents : Int) :
    (∀ s ∈ CIdx.starts ranges, s ∈ CIdx.starts (buildLoop ds tree ranges contents).ranges) ∧
    (∀ d ∈ ds, d.startID.toNat ∈ CIdx.starts (buildLoop ds tree ranges contents).ranges) := by
  induction ds generalizing tree ranges contents with
  | nil => simp [buildLoop]
  | cons d rest ih =>
    unfold buildLoop
    cases rest with
    | nil => simp [CIdx.starts_push]; intro s hs; exact Or.inl hs
    | cons d' rest' =>
      simp only
      split
      · rename_i heq
        obtain ⟨a, b⟩ := ih (applyDelta tree contents d).1 ranges (applyDelta tree contents d).2
        refine ⟨a, ?_⟩
        intro e he
        rcases List.mem_cons.mp he with rfl | he'
        · have : d'.startID = e.startID := by simpa using heq
          rw [← this]; exact b d' (by simp)
        · exact b e he'
      · obtain ⟨a, b⟩ := ih (applyDelta tree contents d).1
          (ranges.push { startID := d.startID, contents := (applyDelta tree contents d).2 }) (applyDelta tree contents d).2
        refine ⟨fun s hs => a s (by rw [CIdx.starts_push]; simp [hs]), ?_⟩
        intro e he
        rcases List.mem_cons.mp he with rfl | he'
        · exact a _ (by rw [CIdx.starts_push]; simp)
        · exact b e he'

theorem build_mem_starts (cells : List (CellID × Int)) :
    firstLeaf.toNat ∈ CIdx.starts (build cells).ranges ∧ endLeaf.toNat ∈ CIdx.starts (build cells).ranges := by
  unfold build
  have h := (buildLoop_starts_mem (sortDeltas (deltasOf cells)) #[] #[] (-1)).2
  constructor
  · exact h { startID := firstLeaf, cellID := 0, label := -1 }
      ((CIdx.sortDeltas_perm _).mem_iff.2 (by simp [deltasOf]))
  · exact h { startID := endLeaf, cellID := 0, label := -1 }
      ((CIdx.sortDeltas_perm _).mem_iff.2 (by simp [deltasOf]))

theorem mem_starts {rn : Array RangeNode} {x : Nat} (h : x ∈ CIdx.starts rn) :
    ∃ i, i < rn.size ∧ rn[i]!.startID.toNat = x := by
  obtain ⟨i, hi, e⟩ := List.mem_iff_getElem.1 h
  simp [CIdx.starts] at hi e
  exact ⟨i, hi, by rw [getElem!_pos rn i hi]; exact e⟩

/-- a built index has at least two range nodes (one range + the sentinel), its first node starts at
    or before `firstLeaf` and its sentinel node at or after `endLeaf` — for ALL inputs of `Build` -/
theorem build_bounds (cells : List (CellID × Int)) :
    2 ≤ (build cells).ranges.size ∧ (build cells).ranges[0]!.startID ≤ firstLeaf ∧
      endLeaf ≤ (build cells).ranges[(build cells).ranges.size - 1]!.startID := by
  have hs : Sorted (build cells).ranges := CIdx.build_ranges_sorted cells
  obtain ⟨i, hi, ei⟩ := mem_starts (build_mem_starts cells).1
  obtain ⟨j, hj, ej⟩ := mem_starts (build_mem_starts cells).2
  have hij : i ≠ j := by
    rintro rfl
    have : firstLeaf.toNat = endLeaf.toNat := by rw [← ei, ← ej]
    exact absurd this (by decide)
  refine ⟨by omega, ?_, ?_⟩
  · rw [← UInt64.toNat_inj.1 ei]; exact starts_le hs (Nat.zero_le _) hi
  · rw [← UInt64.toNat_inj.1 ej]; exact starts_le hs (by omega) (by omega)

theorem build_sorted (cells : List (CellID × Int)) : Sorted (build cells).ranges :=
  CIdx.build_ranges_sorted cells

/-- the plain iteration over a built index visits at least one range -/
theorem build_rangeList_length (cells : List (CellID × Int)) :
    (rangeList (build cells)).length = (build cells).ranges.size - 1 ∧ 1 ≤ (rangeList (build cells)).length := by
  have := (build_bounds cells).1
  simp [rangeList]; omega

/-- SEEK ON A BUILT INDEX, plain iterator (any iterator over the built index, whatever its old
    position): for every target in `[firstLeaf, endLeaf)` — in particular every valid leaf cell id —
    the iterator ends not done on the range that contains the target: `StartID ≤ target < LimitID`.
    No hypothesis on `cells`. -/
theorem seek_build_plain (cells : List (CellID × Int)) (c : RangeIter) (hc : c.rn = (build cells).ranges)
    (hne : c.nonEmpty = false) (t : CellID) (h1 : firstLeaf ≤ t) (h2 : t < endLeaf) :
    (c.seek t).rn = c.rn ∧ 0 ≤ (c.seek t).pos ∧ (c.seek t).done = false ∧
      (c.seek t).startID ≤ t ∧ t < (c.seek t).limitID := by
  obtain ⟨_, b1, b2⟩ := build_bounds cells
  apply seek_plain_inside c hne (hc ▸ build_sorted cells) t
  · rw [hc]; exact UInt64.le_trans b1 h1
  · rw [hc]; exact UInt64.lt_of_lt_of_le h2 b2

/-- SEEK ON A BUILT INDEX, non-empty iterator: the first non-empty range at or after the range `p`
    containing the target, or Done. -/
theorem seek_build_nonEmpty (cells : List (CellID × Int)) (c : RangeIter) (hc : c.rn = (build cells).ranges)
    (hne : c.nonEmpty = true) (t : CellID) (h1 : firstLeaf ≤ t) (h2 : t < endLeaf) :
    ∃ p : Nat, p + 1 < c.rn.size ∧ c.rn[p]!.startID ≤ t ∧ t < c.rn[p + 1]!.startID ∧
      IsSkipTarget c.rn p (c.seek t).pos := by
  obtain ⟨_, b1, b2⟩ := build_bounds cells
  apply seek_nonEmpty_inside c hne (hc ▸ build_sorted cells) t
  · rw [hc]; exact UInt64.le_trans b1 h1
  · rw [hc]; exact UInt64.lt_of_lt_of_le h2 b2

/-- `Begin` / `Next` of the non-empty iterator on a built index -/
theorem begin_build_nonEmpty (cells : List (CellID × Int)) :
    IsSkipTarget (build cells).ranges 0 (RangeIter.newNonEmpty (build cells)).begin.pos :=
  (begin_nonEmpty (RangeIter.newNonEmpty (build cells)) rfl (by have := (build_bounds cells).1; simp [RangeIter.newNonEmpty]; omega)).2.2

/-- a concrete built index: the face cell 2 with label 7 (three ranges: empty, {7}, empty; + sentinel) -/
theorem ex_build : build [(fromFace 2, 7)] =
    ⟨#[⟨fromFace 2, 7, -1⟩],
     #[⟨1, -1⟩, ⟨4611686018427387905, 0⟩, ⟨6917529027641081857, -1⟩, ⟨13835058055282163713, -1⟩]⟩ := by
  have e1 : firstLeaf = 1 := by decide
  have e2 : endLeaf = 13835058055282163713 := by decide
  have e5 : fromFace 2 = 5764607523034234880 := by decide
  have e6 : sentinel = 18446744073709551615 := by decide
  have : sortDeltas (deltasOf [(fromFace 2, 7)]) =
      [⟨firstLeaf, 0, -1⟩, ⟨rangeMin (fromFace 2), fromFace 2, 7⟩,
       ⟨next (rangeMax (fromFace 2)), sentinel, -1⟩, ⟨endLeaf, 0, -1⟩] := by
    simp +decide [sortDeltas, deltasOf, List.mergeSort, List.MergeSort.Internal.splitInTwo, e1, e2, e5, e6, deltaLess]
  unfold build; rw [this]; decide

-- non-vacuity of the built-index corollaries: target = the face cell id itself (not a leaf, but inside
-- `[firstLeaf, endLeaf)`); plain Seek → range 1 = `[rangeMin, rangeMax+1)`; non-empty Seek 1 skips the empty range 0
example : firstLeaf ≤ fromFace 2 ∧ fromFace 2 < endLeaf ∧
    ((RangeIter.new (build [(fromFace 2, 7)])).seek (fromFace 2)).pos = 1 ∧
    ((RangeIter.newNonEmpty (build [(fromFace 2, 7)])).seek 1).pos = 1 ∧
    (RangeIter.newNonEmpty (build [(fromFace 2, 7)])).begin.pos = 1 ∧
    (RangeIter.newNonEmpty (build [(fromFace 2, 7)])).begin.next.pos = 3 := by
  rw [ex_build]; decide

/-- the non-empty iteration over a built index reports exactly the non-empty entries of `rangeList` -/
theorem visited_build_nonEmpty (cells : List (CellID × Int)) :
    (visited (build cells).ranges.size (RangeIter.newNonEmpty (build cells)).begin).map
        (fun c => (c.startID, c.limitID, c.contents)) =
      (rangeList (build cells)).filter (fun r => r.2.2 ≠ -1) :=
  visited_nonEmpty_triples _ (by have := (build_bounds cells).1; omega)

example : (visited 4 (RangeIter.newNonEmpty (build [(fromFace 2, 7)])).begin).map (·.pos) = [1] := by
  rw [ex_build]; decide


/-! ### instances of the non-decidable hypotheses (non-vacuity) -/

/-- in `ex5` (contents -1,0,-1,1,-1) position 1 is the first stop position … -/
example : IsSkipTarget ex5 0 1 :=
  ⟨by decide, by decide, by decide, Or.inr (by decide),
    fun r a b => by have : r = 0 := by omega
                    subst this; decide⟩
/-- … so `nonEmptyPrev_at_first` applies to the iterator positioned there -/
example : (RangeIter.mk ex5 1 true).nonEmptyPrev = (RangeIter.mk ex5 1 true, false) :=
  nonEmptyPrev_at_first _ rfl
    ⟨by decide, by decide, by decide, Or.inr (by decide),
      fun r a b => by have b' : r < 1 := b
                      have : r = 0 := by omega
                      subst this; decide⟩
/-- `nonEmptyPrev_found` with `c.pos = 3`, `q = 1` (range 2 in between is empty) -/
example : (RangeIter.mk ex5 3 true).nonEmptyPrev = (RangeIter.mk ex5 1 true, true) :=
  nonEmptyPrev_found _ (by decide) (by decide) 1 (by decide) (by decide) (by decide)
    (fun r a b => by have b' : r < 3 := b
                     have : r = 2 := by omega
                     subst this; decide)
/-- `nonEmptyPrev_none` / `nonEmptyPrev_none_pos` with all ranges empty, from Done -/
example : (RangeIter.mk exE 2 true).nonEmptyPrev.2 = false ∧ IsSkipTarget exE 1 (RangeIter.mk exE 2 true).nonEmptyPrev.1.pos := by
  have h := nonEmptyPrev_none_pos (RangeIter.mk exE 2 true) rfl (by decide) (by decide)
    (fun r a b => by
      have : r = 0 ∨ r = 1 := by have b' : r < 2 := b; omega
      rcases this with rfl | rfl <;> decide)
  exact ⟨h.1, h.2.2.2.2 (by decide) (by decide)⟩
/-- the built-index corollaries applied to a concrete index and target -/
example := seek_build_plain [(fromFace 2, 7)] (RangeIter.new _) rfl rfl (fromFace 2) (by decide) (by decide)
example := seek_build_nonEmpty [(fromFace 2, 7)] (RangeIter.newNonEmpty _) rfl rfl 1 (by decide) (by decide)

end S2Proofs.RIter
