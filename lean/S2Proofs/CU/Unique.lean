/-
  S2Proofs.CU.Unique — in a normalized union every fully covered cell lies inside one member;
  hence the normal form is determined by the covered leaf set.
-/
import S2Proofs.CU.Normal
open S2 S2.CellID S2.CellUnion
namespace S2Proofs

/-- in a sorted union, the member whose range starts right after `a` ends is the next entry -/
theorem next_of_adjacent {l1 l2 : CU} {a b : CellID} (hv : AllValid (l1 ++ a :: l2))
    (hs : Sorted (l1 ++ a :: l2)) (hb : b ∈ l1 ++ a :: l2) (hab : hi a + 2 = lo b) :
    ∃ l3, l2 = b :: l3 := by
  unfold Sorted at hs
  rw [List.pairwise_append] at hs
  obtain ⟨_, hs2, hcross⟩ := hs
  have fa := valid_facts (hv a (by simp))
  have fb := valid_facts (hv b hb)
  rcases List.mem_append.mp hb with hb | hb
  · have := hcross b hb a (List.mem_cons_self ..)
    omega
  · rcases List.mem_cons.mp hb with rfl | hb
    · omega
    · cases l2 with
      | nil => simp at hb
      | cons x l3 =>
        rcases List.mem_cons.mp hb with rfl | hb
        · exact ⟨l3, rfl⟩
        · exfalso
          have fx := valid_facts (hv x (by simp))
          rw [List.pairwise_cons, List.pairwise_cons] at hs2
          have h1 := hs2.1 x (List.mem_cons_self ..)
          have h2 := hs2.2.1 b hb
          omega

/-- four members of a sorted union with adjacent ranges are four consecutive entries -/
theorem infix_of_adjacent4 {cu : CU} {a b c d : CellID} (hv : AllValid cu) (hs : Sorted cu)
    (ha : a ∈ cu) (hb : b ∈ cu) (hc : c ∈ cu) (hd : d ∈ cu)
    (hab : hi a + 2 = lo b) (hbc : hi b + 2 = lo c) (hcd : hi c + 2 = lo d) :
    [a, b, c, d] <:+: cu := by
  obtain ⟨l1, l2, rfl⟩ := List.append_of_mem ha
  obtain ⟨l3, rfl⟩ := next_of_adjacent hv hs hb hab
  have e1 : l1 ++ a :: b :: l3 = (l1 ++ [a]) ++ b :: l3 := by simp
  rw [e1] at hv hs hc hd
  obtain ⟨l4, rfl⟩ := next_of_adjacent hv hs hc hbc
  have e2 : (l1 ++ [a]) ++ b :: c :: l4 = (l1 ++ [a, b]) ++ c :: l4 := by simp
  rw [e2] at hv hs hd
  obtain ⟨l5, rfl⟩ := next_of_adjacent hv hs hd hcd
  exact ⟨l1, l5, by simp⟩

theorem IsCell.leaf_range {s : CellID} (hs : IsCell s 30) : lo s = s.toNat ∧ hi s = s.toNat := by
  show (rangeMin s).toNat = _ ∧ (rangeMax s).toNat = _
  rw [hs.rangeMin_eq, hs.rangeMax_eq]
  have := hs.ne_zero
  simp; omega

/-- KEY LEMMA.  If every leaf of the cell `s` is covered by a normalized union, then `s` lies
    inside a single member of the union. -/
theorem covered_cell_contained {cu : CU} (hv : AllValid cu) (hs : Sorted cu) (hn : NoSib cu) :
    ∀ (n : Nat) (s : CellID) (k : Nat), IsCell s k → 30 - k ≤ n →
      (∀ m, m % 2 = 1 → lo s ≤ m → m ≤ hi s → Covers cu m) →
      ∃ z ∈ cu, lo z ≤ lo s ∧ hi s ≤ hi z := by
  have leafcase : ∀ (s : CellID), IsCell s 30 →
      (∀ m, m % 2 = 1 → lo s ≤ m → m ≤ hi s → Covers cu m) → ∃ z ∈ cu, lo z ≤ lo s ∧ hi s ≤ hi z := by
    intro s h30 hcov
    have fs := valid_facts h30.valid
    have hr := h30.leaf_range
    obtain ⟨z, hz, h1, h2⟩ := hcov (lo s) fs.1 (Nat.le_refl _) (by omega)
    exact ⟨z, hz, h1, by omega⟩
  intro n
  induction n with
  | zero =>
    intro s k hsk hk hcov
    have : k = 30 := by have := hsk.k_le; omega
    subst this
    exact leafcase s hsk hcov
  | succ n ih =>
    intro s k hsk hk hcov
    by_cases hk30 : k = 30
    · subst hk30; exact leafcase s hsk hcov
    have hklt : k < 30 := by have := hsk.k_le; omega
    have hr := hsk.children_ranges hklt
    have fs := valid_facts hsk.valid
    have hc : ∀ t, t < 4 → IsCell (child s t) (k+1) := fun t ht => hsk.child_isCell hklt ht
    have f0 := valid_facts (hc 0 (by omega)).valid
    have f1 := valid_facts (hc 1 (by omega)).valid
    have f2 := valid_facts (hc 2 (by omega)).valid
    have f3 := valid_facts (hc 3 (by omega)).valid
    have hin : ∀ t, t < 4 → lo s ≤ lo (child s t) ∧ hi (child s t) ≤ hi s := by
      intro t ht
      have ht' : t = 0 ∨ t = 1 ∨ t = 2 ∨ t = 3 := by omega
      rcases ht' with rfl | rfl | rfl | rfl <;> omega
    have step : ∀ t, t < 4 → (∃ z ∈ cu, lo z ≤ lo s ∧ hi s ≤ hi z) ∨ child s t ∈ cu := by
      intro t ht
      have hct := hc t ht
      have fc := valid_facts hct.valid
      have hi_ := hin t ht
      obtain ⟨z, hz, hz1, hz2⟩ := ih (child s t) (k+1) hct (by omega)
        (fun m hm h1 h2 => hcov m hm (by omega) (by omega))
      rcases nested_or_disjoint (hv z hz) hsk.valid with h | h | h | h
      · exact Or.inl ⟨z, hz, h⟩
      · rcases hsk.between_child_parent hklt ht (hv z hz) ⟨hz1, hz2⟩ h with e | e
        · right; rw [← e]; exact hz
        · left; rw [← e]; exact ⟨z, hz, Nat.le_refl _, Nat.le_refl _⟩
      · omega
      · omega
    rcases step 0 (by omega) with h | h0
    · exact h
    rcases step 1 (by omega) with h | h1
    · exact h
    rcases step 2 (by omega) with h | h2
    · exact h
    rcases step 3 (by omega) with h | h3
    · exact h
    exfalso
    have hinf := infix_of_adjacent4 hv hs h0 h1 h2 h3 hr.2.1 hr.2.2.1 hr.2.2.2.1
    have := hn _ _ _ _ hinf
    rw [areSiblings_children hsk hklt] at this
    exact Bool.noConfusion this

/-- every leaf of `b` is covered by `a` -/
def LeafSub (a b : CU) : Prop := ∀ n, n % 2 = 1 → Covers b n → Covers a n

/-- members of a normalized union that is leaf-covered by another normalized union are members of it -/
theorem mem_of_leafSub {x y : CU} (hvx : AllValid x) (hsx : Sorted x)
    (hvy : AllValid y) (hsy : Sorted y) (hny : NoSib y) (hnx : NoSib x)
    (hxy : LeafSub y x) (hyx : LeafSub x y) : ∀ c ∈ x, c ∈ y := by
  intro c hc
  obtain ⟨k, hk⟩ := (isValid_iff c).mp (hvx c hc)
  obtain ⟨z, hz, hz1, hz2⟩ := covered_cell_contained hvy hsy hny (30 - k) c k hk (Nat.le_refl _)
    (fun m hm h1 h2 => hxy m hm ⟨c, hc, h1, h2⟩)
  obtain ⟨j, hj⟩ := (isValid_iff z).mp (hvy z hz)
  obtain ⟨w, hw, hw1, hw2⟩ := covered_cell_contained hvx hsx hnx (30 - j) z j hj (Nat.le_refl _)
    (fun m hm h1 h2 => hyx m hm ⟨z, hz, h1, h2⟩)
  -- c ⊆ z ⊆ w with c, w ∈ x : c = w
  have fc := valid_facts (hvx c hc)
  have fw := valid_facts (hvx w hw)
  have hcw : c = w := by
    by_contra hne
    unfold Sorted at hsx
    obtain ⟨l1, l2, rfl⟩ := List.append_of_mem hc
    rw [List.pairwise_append, List.pairwise_cons] at hsx
    rcases List.mem_append.mp hw with hw | hw
    · have := hsx.2.2 w hw c (List.mem_cons_self ..); omega
    · rcases List.mem_cons.mp hw with rfl | hw
      · exact hne rfl
      · have := hsx.2.1.1 w hw; omega
  subst hcw
  have : c = z := eq_of_range_eq (hvx c hc) (hvy z hz) (by omega) (by omega)
  rw [this]; exact hz

/-- a sorted union is determined by its set of members -/
theorem sorted_ext {x y : CU} (hvx : AllValid x) (hsx : Sorted x) (hvy : AllValid y) (hsy : Sorted y)
    (h : ∀ c, c ∈ x ↔ c ∈ y) : x = y := by
  induction x generalizing y with
  | nil =>
    cases y with
    | nil => rfl
    | cons b y => exact absurd ((h b).mpr (List.mem_cons_self ..)) (by simp)
  | cons a x ih =>
    cases y with
    | nil => exact absurd ((h a).mp (List.mem_cons_self ..)) (by simp)
    | cons b y =>
      unfold Sorted at hsx hsy
      rw [List.pairwise_cons] at hsx hsy
      have fa := valid_facts (hvx a (List.mem_cons_self ..))
      have fb := valid_facts (hvy b (List.mem_cons_self ..))
      have hab : a = b := by
        have h1 := (h a).mp (List.mem_cons_self ..)
        have h2 := (h b).mpr (List.mem_cons_self ..)
        rcases List.mem_cons.mp h1 with e | h1
        · exact e
        rcases List.mem_cons.mp h2 with e | h2
        · exact e.symm
        have := hsx.1 b h2
        have := hsy.1 a h1
        omega
      subst hab
      congr 1
      apply ih (fun c hc => hvx c (List.mem_cons_of_mem _ hc)) hsx.2
        (fun c hc => hvy c (List.mem_cons_of_mem _ hc)) hsy.2
      intro c
      constructor
      · intro hc
        rcases List.mem_cons.mp ((h c).mp (List.mem_cons_of_mem _ hc)) with e | h'
        · subst e
          have := hsx.1 c hc
          have fc := valid_facts (hvx c (List.mem_cons_of_mem _ hc)); omega
        · exact h'
      · intro hc
        rcases List.mem_cons.mp ((h c).mpr (List.mem_cons_of_mem _ hc)) with e | h'
        · subst e
          have := hsy.1 c hc
          have fc := valid_facts (hvy c (List.mem_cons_of_mem _ hc)); omega
        · exact h'

/-- UNIQUENESS of the normal form: two normalized unions covering the same leaves are equal -/
theorem normal_unique {x y : CU} (hvx : AllValid x) (hsx : Sorted x) (hnx : NoSib x)
    (hvy : AllValid y) (hsy : Sorted y) (hny : NoSib y)
    (h : ∀ n, n % 2 = 1 → (Covers x n ↔ Covers y n)) : x = y := by
  have hxy : LeafSub y x := fun n hn hc => (h n hn).mp hc
  have hyx : LeafSub x y := fun n hn hc => (h n hn).mpr hc
  apply sorted_ext hvx hsx hvy hsy
  intro c
  exact ⟨mem_of_leafSub hvx hsx hvy hsy hny hnx hxy hyx c, mem_of_leafSub hvy hsy hvx hsx hnx hny hyx hxy c⟩

end S2Proofs
