/-
  S2Proofs.CU.Difference — correctness of `difference` / `differenceInternal`
  (model of Go `CellUnionFromDifference` / `cellUnionDifferenceInternal`):
  the output covers exactly the leaves of `x` not covered by `y`; the recursion never
  descends below level 30 (fuel `31 - k` suffices for a level-`k` cell); the output is
  sorted/disjoint when `x` is.  Only `AllValid y` and `Sorted y` are needed (no normalization).
-/
import S2Proofs.CU.Search
open S2 S2.CellID S2.CellUnion
namespace S2Proofs

theorem childrenList_eq (id : CellID) :
    childrenList id = [child id 0, child id 1, child id 2, child id 3] := rfl

/-- all members of `L` have their leaf range inside `[a, b]` -/
def Within (L : CU) (a b : Nat) : Prop := ∀ c ∈ L, a ≤ lo c ∧ hi c ≤ b

/-- `g` pushes onto the accumulator a block `L` of valid cells, in decreasing order (the accumulator
    is a stack), all inside `[a, b]`, covering exactly the odd positions of `[a, b]` not covered by `y`. -/
def Emits (y : CU) (g : List CellID → List CellID) (a b : Nat) : Prop :=
  ∀ acc, ∃ L, g acc = L ++ acc ∧ AllValid L ∧ SortedRev L ∧ Within L a b ∧
    ∀ n, n % 2 = 1 → (Covers L n ↔ a ≤ n ∧ n ≤ b ∧ ¬ Covers y n)

theorem Emits.comp {y : CU} {g1 g2 : List CellID → List CellID} {a b c : Nat}
    (h1 : Emits y g1 a b) (h2 : Emits y g2 (b + 2) c) (hb : b % 2 = 1) (hab : a ≤ b) (hbc : b + 2 ≤ c) :
    Emits y (fun acc => g2 (g1 acc)) a c := by
  intro acc
  obtain ⟨L1, e1, v1, s1, w1, c1⟩ := h1 acc
  obtain ⟨L2, e2, v2, s2, w2, c2⟩ := h2 (g1 acc)
  refine ⟨L2 ++ L1, by show g2 (g1 acc) = _; rw [e2, e1, List.append_assoc], ?_, ?_, ?_, ?_⟩
  · intro c hc
    rcases List.mem_append.mp hc with h | h
    · exact v2 c h
    · exact v1 c h
  · unfold SortedRev
    rw [List.pairwise_append]
    refine ⟨s2, s1, ?_⟩
    intro p hp q hq
    have := w2 p hp
    have := w1 q hq
    omega
  · intro c hc
    rcases List.mem_append.mp hc with h | h
    · have := w2 c h; omega
    · have := w1 c h; omega
  · intro n hn
    rw [covers_append, c2 n hn, c1 n hn]
    constructor
    · rintro (⟨p1, p2, p3⟩ | ⟨p1, p2, p3⟩)
      · exact ⟨by omega, p2, p3⟩
      · exact ⟨p1, by omega, p3⟩
    · rintro ⟨p1, p2, p3⟩
      by_cases hnb : n ≤ b
      · exact Or.inr ⟨p1, hnb, p3⟩
      · exact Or.inl ⟨by omega, p2, p3⟩

/-- at leaf level, "meets the union" and "contained in the union" coincide -/
theorem leaf_intersects_contains {y : CU} (hvy : AllValid y) (hsy : Sorted y) {id : CellID}
    (hk : IsCell id 30) (hI : intersectsCellID y id = true) : containsCellID y id = true := by
  obtain ⟨c, hc, h1, h2⟩ := (intersectsCellID_iff_exists hvy hsy id hk.valid).mp hI
  obtain ⟨e1, e2⟩ := hk.leaf_range
  exact (containsCellID_iff_exists hvy hsy id).mpr ⟨c, hc, by omega, by omega⟩

/-- whenever the model recurses into the children, the cell is not a leaf -/
theorem recurse_level_lt {y : CU} (hvy : AllValid y) (hsy : Sorted y) {id : CellID} {k : Nat}
    (hk : IsCell id k) (hI : intersectsCellID y id = true) (hC : ¬ containsCellID y id = true) : k < 30 := by
  have := hk.k_le
  by_cases h : k = 30
  · subst h; exact absurd (leaf_intersects_contains hvy hsy hk hI) hC
  · omega

/-- INTERNAL SPEC: with fuel at least `31 - k`, processing a level-`k` cell `id` pushes exactly the
    part of `id` not covered by `y`. -/
theorem differenceInternal_emits (y : CU) (hvy : AllValid y) (hsy : Sorted y) :
    ∀ (f k : Nat) (id : CellID), IsCell id k → 31 - k ≤ f →
      Emits y (differenceInternal y f id) (lo id) (hi id) := by
  intro f
  induction f with
  | zero => intro k id hk hf; have := hk.k_le; omega
  | succ f ih =>
    intro k id hk hf acc
    have hid := hk.valid
    have fid := valid_facts hid
    unfold differenceInternal
    by_cases hI : intersectsCellID y id = true
    · by_cases hC : containsCellID y id = true
      · -- contained: nothing survives
        simp only [hI, hC, Bool.not_true, Bool.false_eq_true, if_false]
        obtain ⟨c, hc, h1, h2⟩ := (containsCellID_iff_exists hvy hsy id).mp hC
        have hcon : contains c id = true := (contains_iff c id).mpr ⟨h1, h2⟩
        have hr := (contains_range (hvy c hc) hid).mp hcon
        refine ⟨[], rfl, ?_, ?_, ?_, ?_⟩
        · intro c hc; cases hc
        · exact List.Pairwise.nil
        · intro c hc; cases hc
        · intro n hn
          constructor
          · intro h; exact absurd h (covers_nil n)
          · rintro ⟨p1, p2, p3⟩
            exact absurd ⟨c, hc, by omega, by omega⟩ p3
      · -- partially covered: recurse into the four children
        have hk30 : k < 30 := recurse_level_lt hvy hsy hk hI hC
        simp only [hI, hC, Bool.not_true, Bool.false_eq_true, if_false, Bool.not_false, if_true,
          childrenList_eq, List.foldl]
        have c0 := hk.child_isCell hk30 (t := 0) (by omega)
        have c1 := hk.child_isCell hk30 (t := 1) (by omega)
        have c2 := hk.child_isCell hk30 (t := 2) (by omega)
        have c3 := hk.child_isCell hk30 (t := 3) (by omega)
        have f0 := valid_facts c0.valid
        have f1 := valid_facts c1.valid
        have f2 := valid_facts c2.valid
        have f3 := valid_facts c3.valid
        obtain ⟨r0, r1, r2, r3, r4⟩ := hk.children_ranges hk30
        have e0 := ih (k+1) _ c0 (by omega)
        have e1 := ih (k+1) _ c1 (by omega)
        have e2 := ih (k+1) _ c2 (by omega)
        have e3 := ih (k+1) _ c3 (by omega)
        rw [← r1] at e1
        rw [← r2] at e2
        rw [← r3] at e3
        have e01 := e0.comp e1 (by omega) (by omega) (by omega)
        have e012 := e01.comp e2 (by omega) (by omega) (by omega)
        have e0123 := e012.comp e3 (by omega) (by omega) (by omega)
        rw [r0, r4] at e0123
        exact e0123 acc
    · -- disjoint from y: emit the cell itself
      have hI' : intersectsCellID y id = false := by simpa using hI
      simp only [hI', Bool.not_false, if_true]
      refine ⟨[id], rfl, ?_, ?_, ?_, ?_⟩
      · intro c hc
        rw [List.mem_singleton] at hc; subst hc; exact hid
      · exact List.pairwise_singleton _ _
      · intro c hc
        rw [List.mem_singleton] at hc; subst hc; omega
      · intro n hn
        rw [covers_cons]
        constructor
        · rintro (⟨p1, p2⟩ | h)
          · refine ⟨p1, p2, ?_⟩
            rintro ⟨c, hc, q1, q2⟩
            exact hI ((intersectsCellID_iff_exists hvy hsy id hid).mpr ⟨c, hc, by omega, by omega⟩)
          · exact absurd h (covers_nil n)
        · rintro ⟨p1, p2, _⟩
          exact Or.inl ⟨p1, p2⟩

theorem differenceInternal_fuel_aux (y : CU) (hvy : AllValid y) (hsy : Sorted y) :
    ∀ (f : Nat) {id : CellID} {k : Nat}, IsCell id k → ∀ (acc : List CellID), 31 - k ≤ f →
      differenceInternal y f id acc = differenceInternal y (31 - k) id acc := by
  intro f
  induction f with
  | zero => intro id k hk acc hf; have := hk.k_le; omega
  | succ f ih =>
    intro id k hk acc hf
    have hkle := hk.k_le
    have e : 31 - k = (30 - k) + 1 := by omega
    rw [e]
    unfold differenceInternal
    by_cases hI : intersectsCellID y id = true
    · by_cases hC : containsCellID y id = true
      · simp only [hI, hC, Bool.not_true, Bool.false_eq_true, if_false]
      · have hk30 : k < 30 := recurse_level_lt hvy hsy hk hI hC
        simp only [hI, hC, Bool.not_true, Bool.false_eq_true, if_false, Bool.not_false, if_true,
          childrenList_eq, List.foldl]
        have c0 := hk.child_isCell hk30 (t := 0) (by omega)
        have c1 := hk.child_isCell hk30 (t := 1) (by omega)
        have c2 := hk.child_isCell hk30 (t := 2) (by omega)
        have c3 := hk.child_isCell hk30 (t := 3) (by omega)
        have e' : 30 - k = 31 - (k + 1) := by omega
        rw [e', ih c0 _ (by omega), ih c1 _ (by omega), ih c2 _ (by omega), ih c3 _ (by omega)]
    · have hI' : intersectsCellID y id = false := by simpa using hI
      simp only [hI', Bool.not_false, if_true]

/-- RECURSION DEPTH: a level-`k` cell needs one unit of fuel for itself and one per level descended,
    and the recursion never goes below level 30; so any fuel `≥ 31 - k` gives the same result, in
    particular the model's fuel 32.  (The bound is tight, see the `example`s below.) -/
theorem differenceInternal_fuel (y : CU) (hvy : AllValid y) (hsy : Sorted y) {id : CellID} {k : Nat}
    (hk : IsCell id k) (acc : List CellID) (f : Nat) (hf : 31 - k ≤ f) :
    differenceInternal y f id acc = differenceInternal y (31 - k) id acc :=
  differenceInternal_fuel_aux y hvy hsy f hk acc hf

/-- the model's fuel 32 is as good as any larger fuel, for every valid cell -/
theorem differenceInternal_fuel32 (y : CU) (hvy : AllValid y) (hsy : Sorted y) {id : CellID}
    (hid : isValid id = true) (acc : List CellID) (f : Nat) (hf : 32 ≤ f) :
    differenceInternal y f id acc = differenceInternal y 32 id acc := by
  obtain ⟨k, hk⟩ := (isValid_iff id).mp hid
  rw [differenceInternal_fuel y hvy hsy hk acc f (by omega),
    differenceInternal_fuel y hvy hsy hk acc 32 (by omega)]

/-- the outer loop of `difference` with a general accumulator -/
theorem foldl_difference (y : CU) (hvy : AllValid y) (hsy : Sorted y) :
    ∀ (x : CU) (acc : List CellID), AllValid x →
      ∃ L, x.foldl (fun acc id => differenceInternal y 32 id acc) acc = L ++ acc ∧
        AllValid L ∧ (∀ c ∈ L, ∃ d ∈ x, lo d ≤ lo c ∧ hi c ≤ hi d) ∧ (Sorted x → SortedRev L) ∧
        ∀ n, n % 2 = 1 → (Covers L n ↔ Covers x n ∧ ¬ Covers y n) := by
  intro x
  induction x with
  | nil =>
    intro acc _
    refine ⟨[], rfl, ?_, ?_, ?_, ?_⟩
    · intro c hc; cases hc
    · intro c hc; cases hc
    · intro _; exact List.Pairwise.nil
    · intro n _
      constructor
      · intro h; exact absurd h (covers_nil n)
      · rintro ⟨h, _⟩; exact absurd h (covers_nil n)
  | cons id rest ih =>
    intro acc hvx
    have hid : isValid id = true := hvx id (List.mem_cons_self ..)
    obtain ⟨k, hk⟩ := (isValid_iff id).mp hid
    obtain ⟨L1, e1, v1, s1, w1, cv1⟩ := differenceInternal_emits y hvy hsy 32 k id hk (by omega) acc
    obtain ⟨Lr, er, vr, wr, sr, cvr⟩ := ih (differenceInternal y 32 id acc)
      (fun c hc => hvx c (List.mem_cons_of_mem _ hc))
    refine ⟨Lr ++ L1, ?_, ?_, ?_, ?_, ?_⟩
    · rw [List.foldl_cons, er, e1, List.append_assoc]
    · intro c hc
      rcases List.mem_append.mp hc with h | h
      · exact vr c h
      · exact v1 c h
    · intro c hc
      rcases List.mem_append.mp hc with h | h
      · obtain ⟨d, hd, h'⟩ := wr c h
        exact ⟨d, List.mem_cons_of_mem _ hd, h'⟩
      · exact ⟨id, List.mem_cons_self .., w1 c h⟩
    · intro hsx
      unfold Sorted at hsx
      rw [List.pairwise_cons] at hsx
      unfold SortedRev
      rw [List.pairwise_append]
      refine ⟨sr hsx.2, s1, ?_⟩
      intro p hp q hq
      obtain ⟨d, hd, h'⟩ := wr p hp
      have h1 : hi id < lo d := hsx.1 d hd
      have := w1 q hq
      omega
    · intro n hn
      rw [covers_append, cvr n hn, cv1 n hn, covers_cons]
      constructor
      · rintro (⟨p1, p2⟩ | ⟨p1, p2, p3⟩)
        · exact ⟨Or.inr p1, p2⟩
        · exact ⟨Or.inl ⟨p1, p2⟩, p3⟩
      · rintro ⟨⟨p1, p2⟩ | p1, p3⟩
        · exact Or.inr ⟨p1, p2, p3⟩
        · exact Or.inl ⟨p1, p3⟩

/-- MAIN THEOREM: `difference x y` consists of valid cells and covers exactly the leaves of `x`
    that are not covered by `y`.  `y` only needs to be valid and sorted (`isValidCU y`), not normalized;
    `x` may be in any order and may contain overlapping cells. -/
theorem difference_spec (x y : CU) (hvx : AllValid x) (hvy : AllValid y) (hsy : Sorted y) :
    AllValid (difference x y) ∧
    ∀ n, n % 2 = 1 → (Covers (difference x y) n ↔ Covers x n ∧ ¬ Covers y n) := by
  obtain ⟨L, e, v, _, _, cv⟩ := foldl_difference y hvy hsy x [] hvx
  unfold difference
  rw [e, List.append_nil]
  refine ⟨(allValid_reverse L).mpr v, ?_⟩
  intro n hn
  rw [covers_reverse, cv n hn]

/-- every output cell lies inside a member of `x` -/
theorem difference_within (x y : CU) (hvx : AllValid x) (hvy : AllValid y) (hsy : Sorted y) :
    ∀ c ∈ difference x y, ∃ d ∈ x, lo d ≤ lo c ∧ hi c ≤ hi d := by
  obtain ⟨L, e, _, w, _, _⟩ := foldl_difference y hvy hsy x [] hvx
  unfold difference
  rw [e, List.append_nil]
  intro c hc
  exact w c (List.mem_reverse.mp hc)

/-- if `x` is sorted/disjoint, so is the output (which is then a valid cell union) -/
theorem difference_sorted (x y : CU) (hvx : AllValid x) (hsx : Sorted x) (hvy : AllValid y) (hsy : Sorted y) :
    Sorted (difference x y) := by
  obtain ⟨L, e, _, _, s, _⟩ := foldl_difference y hvy hsy x [] hvx
  unfold difference
  rw [e, List.append_nil]
  exact (sorted_reverse L).mpr (s hsx)

/-- executable form: the difference of two valid unions is a valid union -/
theorem difference_isValidCU (x y : CU) (hx : isValidCU x = true) (hy : isValidCU y = true) :
    isValidCU (difference x y) = true := by
  obtain ⟨hvx, hsx⟩ := (isValidCU_iff x).mp hx
  obtain ⟨hvy, hsy⟩ := (isValidCU_iff y).mp hy
  exact (isValidCU_iff _).mpr
    ⟨(difference_spec x y hvx hvy hsy).1, difference_sorted x y hvx hsx hvy hsy⟩

/-- executable leaf semantics -/
theorem difference_coversLeaf (x y : CU) (hx : isValidCU x = true) (hy : isValidCU y = true)
    (n : Nat) (hn : n % 2 = 1) :
    coversLeaf (difference x y) n = (coversLeaf x n && !coversLeaf y n) := by
  obtain ⟨hvx, _⟩ := (isValidCU_iff x).mp hx
  obtain ⟨hvy, hsy⟩ := (isValidCU_iff y).mp hy
  have h := (difference_spec x y hvx hvy hsy).2 n hn
  rw [← coversLeaf_iff, ← coversLeaf_iff, ← coversLeaf_iff] at h
  cases h1 : coversLeaf (difference x y) n <;> cases h2 : coversLeaf x n <;>
    cases h3 : coversLeaf y n <;> simp_all

/-! ### non-vacuity examples -/
section Examples
/-- face 0 -/ private abbrev f0 : CellID := 0x1000000000000000
private abbrev f0c0 : CellID := 0x0400000000000000
private abbrev f0c1 : CellID := 0x0c00000000000000
private abbrev f0c2 : CellID := 0x1400000000000000
private abbrev f0c3 : CellID := 0x1c00000000000000
/-- child 0 of child 0 of face 0 -/ private abbrev f0c00 : CellID := 0x0100000000000000

-- a level-2 hole in face 0: three siblings of the hole, then the three other children of the face
example : difference [f0] [f0c00] =
    [0x0300000000000000, 0x0500000000000000, 0x0700000000000000, f0c1, f0c2, f0c3] := by decide
-- `y` valid and sorted but NOT normalized: `containsCellID y f0 = false`, the recursion descends one level
example : containsCellID [f0c0, f0c1, f0c2, f0c3] f0 = false ∧
    difference [f0] [f0c0, f0c1, f0c2, f0c3] = [] := by decide
-- a single-leaf hole: the recursion goes all the way down to level 30 (3 cells per level)
example : (difference [f0] [(1 : UInt64)]).length = 90 := by decide
-- the fuel bound `31 - k` is tight (k = 0): 31 is enough, 30 is not
example : differenceInternal [(1 : UInt64)] 31 f0 [] = differenceInternal [(1 : UInt64)] 32 f0 [] ∧
    differenceInternal [(1 : UInt64)] 30 f0 [] ≠ differenceInternal [(1 : UInt64)] 31 f0 [] := by decide
example : isValidCU [f0c0, f0c1, f0c2, f0c3] = true ∧ isValidCU [f0] = true ∧ isValidCU [(1 : UInt64)] = true := by
  decide
end Examples

end S2Proofs
