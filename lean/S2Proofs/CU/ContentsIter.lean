/-
  S2Proofs.CU.ContentsIter — what `CellIndexContentsIterator` really does.

  For a well-formed label tree whose nodes have labels ≥ 0:
  * `visit_spec`   one `StartUnion(r)` + complete `Next` loop reports the nodes of `r`'s parent chain
                   whose TREE INDEX is above the effective cutoff, where the effective cutoff is `-1` if
                   `r.StartID() < prevStartID` (reset) and `nodeCutoff` otherwise; afterwards
                   `nodeCutoff = max(effective cutoff, r.contents)`, `prevStartID = r.StartID()`.
  * `sweep_spec`   hence a whole sequence of visits with one iterator is the fold `specSweep`.
  * `incSweep_*`   visiting ranges in non-decreasing order: nothing is reported twice and everything
                   on some visited chain is reported.
-/
import S2Proofs.CU.CellIndexMono
import Mathlib.Data.List.Perm.Subperm
open S2 S2.CellID S2.CellIndex
namespace S2Proofs.CIdx

/-- tree nodes carry labels ≥ 0, so a node copy is never mistaken for "done" -/
def LabelsOK (t : Array TreeNode) : Prop := ∀ i, i < t.size → 0 ≤ t[i]!.label

/-- the entries of a stack whose tree index is above the cutoff -/
def above (cut : Int) (s : List Ent) : List Ent := s.filter (fun e => decide (cut < (e.1 : Int)))

theorem above_nil_of_le {t : Array TreeNode} (hw : TreeWF t) (q cut : Int) (hq : q < (t.size : Int)) (h : q ≤ cut) :
    above cut (stk t q) = [] := by
  unfold above
  rw [List.filter_eq_nil_iff]
  intro e he
  have := (stk_le hw q hq e he).1
  simp only [decide_eq_true_eq]; omega

theorem above_all {t : Array TreeNode} (q : Int) : above (-1) (stk t q) = stk t q := by
  unfold above
  rw [List.filter_eq_self]
  intro e _
  simp only [decide_eq_true_eq]
  have : (0 : Int) ≤ (e.1 : Int) := Int.natCast_nonneg _
  omega

theorem drain_done (fuel : Nat) (c : ContentsIter) (acc : List Pair) (h : c.done = true) :
    ContentsIter.drain fuel c acc = (c, acc.reverse) := by
  cases fuel <;> simp [ContentsIter.drain, h]

/-- the `Next` loop started on tree node `i` -/
theorem drain_walk {t : Array TreeNode} (hw : TreeWF t) (hl : LabelsOK t) :
    ∀ (n : Nat) (i : Int) (fuel : Nat) (c : ContentsIter) (acc : List Pair),
      0 ≤ i → i < (n : Int) → n ≤ t.size → i.toNat + 1 ≤ fuel → c.tree = t → c.node = t[i.toNat]! →
      -1 ≤ c.nodeCutoff → c.nodeCutoff < i →
      (ContentsIter.drain fuel c acc).2 = acc.reverse ++ pairsOf (above c.nodeCutoff (stk t i)) ∧
      (ContentsIter.drain fuel c acc).1.nodeCutoff = c.nextNodeCutoff ∧
      (ContentsIter.drain fuel c acc).1.prevStartID = c.prevStartID ∧
      (ContentsIter.drain fuel c acc).1.tree = t := by
  intro n
  induction n with
  | zero => intro i _ _ _ h0 hi; omega
  | succ n ih =>
    intro i fuel c acc h0 hi hn hf htree hnode hc1 hc2
    have hisz : i.toNat < t.size := by omega
    have hp := hw i.toNat hisz
    have hlab := hl i.toNat hisz
    cases fuel with
    | zero => omega
    | succ f =>
      have hnd : c.done = false := by
        simp only [ContentsIter.done, hnode, doneContents]
        have : t[i.toNat]!.label ≠ -1 := by omega
        simpa using this
      rw [ContentsIter.drain]
      simp only [hnd, Bool.false_eq_true, if_false]
      have hstk := stk_cons hw i h0 (by omega)
      have habove : above c.nodeCutoff (stk t i) =
          (i.toNat, t[i.toNat]!.cellID, t[i.toNat]!.label) :: above c.nodeCutoff (stk t t[i.toNat]!.parent) := by
        rw [hstk]
        unfold above
        rw [List.filter_cons, if_pos (by simp only [decide_eq_true_eq]; omega)]
      by_cases hpar : c.node.parent ≤ c.nodeCutoff
      · -- stop after this node
        have hnext : c.next = { c with nodeCutoff := c.nextNodeCutoff, node := { c.node with label := doneContents } } := by
          simp [ContentsIter.next, hpar]
        have hdone : c.next.done = true := by rw [hnext]; simp [ContentsIter.done]
        rw [drain_done _ _ _ hdone]
        rw [hnode] at hpar
        rw [habove, above_nil_of_le hw _ _ (by omega) hpar]
        refine ⟨?_, by rw [hnext], by rw [hnext], by rw [hnext]; exact htree⟩
        simp [pairsOf, hnode]
      · have hnext : c.next = { c with node := c.tree[c.node.parent.toNat]! } := by
          simp [ContentsIter.next, hpar]
        rw [hnode] at hpar
        have hq0 : 0 ≤ t[i.toNat]!.parent := by omega
        obtain ⟨r1, r2, r3, r4⟩ := ih t[i.toNat]!.parent f c.next ((c.node.cellID, c.node.label) :: acc)
          hq0 (by omega) (by omega) (by omega) (by rw [hnext]; exact htree)
          (by rw [hnext]; simp only; rw [htree, hnode]) (by rw [hnext]; exact hc1) (by rw [hnext]; simp only; omega)
        have e1 : c.next.nodeCutoff = c.nodeCutoff := by rw [hnext]
        have e2 : c.next.nextNodeCutoff = c.nextNodeCutoff := by rw [hnext]
        have e3 : c.next.prevStartID = c.prevStartID := by rw [hnext]
        rw [e1] at r1
        rw [e2] at r2
        rw [e3] at r3
        refine ⟨?_, r2, r3, r4⟩
        rw [r1, habove]
        simp [pairsOf, hnode]

/-- the effective cutoff of a `StartUnion` -/
def effCut (cut : Int) (prev start : CellID) : Int := if start < prev then -1 else cut

/-- **One visit** (`StartUnion(r)`, then `Next` until `Done`). -/
theorem visit_spec {t : Array TreeNode} (hw : TreeWF t) (hl : LabelsOK t) (c : ContentsIter) (r : RangeIter)
    (htree : c.tree = t) (hcut : -1 ≤ c.nodeCutoff)
    (hk : -1 ≤ r.contents ∧ r.contents < (t.size : Int)) :
    (c.visit r).2 = pairsOf (above (effCut c.nodeCutoff c.prevStartID r.startID) (stk t r.contents)) ∧
    (c.visit r).1.nodeCutoff = max (effCut c.nodeCutoff c.prevStartID r.startID) r.contents ∧
    (c.visit r).1.prevStartID = r.startID ∧
    (c.visit r).1.tree = t := by
  unfold ContentsIter.visit
  -- the state after the first two statements of StartUnion
  generalize hc1 : (if r.startID < c.prevStartID then { c with nodeCutoff := -1 } else c) = c1
  have h1cut : c1.nodeCutoff = effCut c.nodeCutoff c.prevStartID r.startID := by
    rw [← hc1]; unfold effCut; split <;> rfl
  have h1tree : c1.tree = t := by rw [← hc1]; split <;> exact htree
  have hcge : -1 ≤ effCut c.nodeCutoff c.prevStartID r.startID := by unfold effCut; split <;> omega
  have hsu : c.startUnion r =
      (if r.contents ≤ c1.nodeCutoff then
        { c1 with prevStartID := r.startID, node := { c1.node with label := doneContents }, nextNodeCutoff := r.contents }
       else { c1 with prevStartID := r.startID, node := c1.tree[r.contents.toNat]!, nextNodeCutoff := r.contents }) := by
    unfold ContentsIter.startUnion
    simp only [hc1]
    split <;> rfl
  rw [hsu]
  by_cases hle : r.contents ≤ c1.nodeCutoff
  · simp only [hle, if_true]
    rw [drain_done _ _ _ (by simp [ContentsIter.done])]
    rw [h1cut] at hle
    refine ⟨?_, ?_, rfl, h1tree⟩
    · rw [above_nil_of_le hw _ _ hk.2 hle]; rfl
    · simp only; rw [h1cut]; omega
  · simp only [hle, if_false]
    have h0 : 0 ≤ r.contents := by rw [h1cut] at hle; omega
    obtain ⟨r1, r2, r3, r4⟩ := drain_walk hw hl t.size r.contents (c.tree.size + 1)
      { c1 with prevStartID := r.startID, node := c1.tree[r.contents.toNat]!, nextNodeCutoff := r.contents } []
      h0 hk.2 (Nat.le_refl _) (by rw [htree]; omega) h1tree (by simp only; rw [h1tree]) (by simp only; rw [h1cut]; exact hcge)
      (by simp only; omega)
    simp only at r1 r2 r3 r4
    refine ⟨?_, ?_, r3, r4⟩
    · rw [r1, h1cut]; rfl
    · rw [r2]; rw [h1cut] at hle; omega

/-! ### a sequence of visits -/

/-- the part of the iterator state that survives a visit: `(nodeCutoff, prevStartID)` -/
abbrev DState := Int × CellID

def specVisit (ix : Index) (st : DState) (p : Nat) : DState × List Ent :=
  let r := ix.ranges[p]!
  let cut := effCut st.1 st.2 r.startID
  ((max cut r.contents, r.startID), above cut (stk ix.tree r.contents))

/-- the sequence of reports (with tree indices) of one iterator visiting the given range positions -/
def specSweep (ix : Index) : DState → List Nat → List (List Ent)
  | _, [] => []
  | st, p :: ps => (specVisit ix st p).2 :: specSweep ix (specVisit ix st p).1 ps

/-- well-formedness of an index, as established by `build` for every input -/
structure IndexOK (ix : Index) : Prop where
  wf : TreeWF ix.tree
  labels : LabelsOK ix.tree
  contents : ∀ p, p < ix.ranges.size → -1 ≤ ix.ranges[p]!.contents ∧ ix.ranges[p]!.contents < (ix.tree.size : Int)

theorem rangeAt_startID (ix : Index) (p : Nat) : (rangeAt ix p).startID = ix.ranges[p]!.startID := by
  simp [rangeAt, RangeIter.startID, RangeIter.new]
theorem rangeAt_contents (ix : Index) (p : Nat) : (rangeAt ix p).contents = ix.ranges[p]!.contents := by
  simp [rangeAt, RangeIter.contents, RangeIter.new]

theorem sweep_fold (ix : Index) (hok : IndexOK ix) : ∀ (ps : List Nat) (c : ContentsIter) (acc : List (List Pair)),
    c.tree = ix.tree → -1 ≤ c.nodeCutoff → (∀ p ∈ ps, p < ix.ranges.size) →
    (ps.foldl (fun (st : ContentsIter × List (List Pair)) p =>
        let (c, out) := st.1.visit (rangeAt ix p)
        (c, out :: st.2)) (c, acc)).2.reverse =
      acc.reverse ++ (specSweep ix (c.nodeCutoff, c.prevStartID) ps).map pairsOf := by
  intro ps
  induction ps with
  | nil => intro c acc _ _ _; simp [specSweep]
  | cons p ps ih =>
    intro c acc htree hcut hps
    have hk := hok.contents p (hps p (by simp))
    obtain ⟨v1, v2, v3, v4⟩ := visit_spec hok.wf hok.labels c (rangeAt ix p) htree hcut
      (by rw [rangeAt_contents]; exact hk)
    rw [rangeAt_startID, rangeAt_contents] at v1 v2
    rw [rangeAt_startID] at v3
    simp only [List.foldl_cons]
    rw [ih _ _ v4 (by rw [v2]; unfold effCut; split <;> omega) (fun q hq => hps q (List.mem_cons_of_mem _ hq))]
    simp only [List.reverse_cons, List.append_assoc, List.singleton_append, specSweep, List.map_cons]
    rw [v1, v2, v3]
    rfl

/-- **Any sequence of `StartUnion` calls on one fresh iterator** (increasing, decreasing, zig-zag,
    repeated): the reports are given by the fold `specSweep` from the state `(-1, 0)`. -/
theorem sweep_spec (ix : Index) (hok : IndexOK ix) (ps : List Nat) (hps : ∀ p ∈ ps, p < ix.ranges.size) :
    sweep ix ps = (specSweep ix (-1, 0) ps).map pairsOf := by
  unfold sweep
  have := sweep_fold ix hok ps (ContentsIter.new ix) [] rfl (by simp [ContentsIter.new]) hps
  simpa [ContentsIter.new] using this

/-! ### non-decreasing order -/

/-- the reports when no reset happens: the chain entries above the running maximum of `contents` -/
def incSweep (ix : Index) : Int → List Nat → List (List Ent)
  | _, [] => []
  | cut, p :: ps => above cut (stk ix.tree ix.ranges[p]!.contents) ::
      incSweep ix (max cut ix.ranges[p]!.contents) ps

theorem specSweep_inc (ix : Index) (hs : (starts ix.ranges).Pairwise (· < ·)) :
    ∀ (ps : List Nat) (cut : Int) (prev : CellID), ps.Pairwise (· ≤ ·) → (∀ p ∈ ps, p < ix.ranges.size) →
      (∀ p ∈ ps, prev.toNat ≤ ix.ranges[p]!.startID.toNat) →
      specSweep ix (cut, prev) ps = incSweep ix cut ps := by
  intro ps
  induction ps with
  | nil => intro _ _ _ _ _; rfl
  | cons p ps ih =>
    intro cut prev hsorted hlt hprev
    have hp := hprev p (by simp)
    have hnr : effCut cut prev ix.ranges[p]!.startID = cut := by
      unfold effCut
      rw [if_neg]
      rw [UInt64.lt_iff_toNat_lt]; omega
    simp only [specSweep, incSweep, specVisit, hnr]
    congr 1
    apply ih _ _ (List.pairwise_cons.mp hsorted).2 (fun q hq => hlt q (List.mem_cons_of_mem _ hq))
    intro q hq
    have hpq := (List.pairwise_cons.mp hsorted).1 q hq
    rcases Nat.lt_or_eq_of_le hpq with h | rfl
    · have := (List.pairwise_iff_getElem.mp hs) p q (by simp [starts]; exact hlt p (by simp))
        (by simp [starts]; exact hlt q (List.mem_cons_of_mem _ hq)) h
      simp only [starts, List.getElem_map, Array.getElem_toList] at this
      rw [getElem!_pos _ p (hlt p (by simp)), getElem!_pos _ q (hlt q (List.mem_cons_of_mem _ hq))]
      omega
    · exact Nat.le_refl _

/-- the preorder property of an index (see `build_mono`) -/
def Mono (ix : Index) : Prop :=
  ∀ p q, p ≤ q → q < ix.ranges.size → ∀ e ∈ stk ix.tree ix.ranges[q]!.contents,
    (e.1 : Int) ≤ ix.ranges[p]!.contents → e ∈ stk ix.tree ix.ranges[p]!.contents

theorem incSweep_mem (ix : Index) (hm : Mono ix) :
    ∀ (ps : List Nat) (cut : Int), ps.Pairwise (· ≤ ·) → (∀ p ∈ ps, p < ix.ranges.size) →
      ∀ e, e ∈ (incSweep ix cut ps).flatten ↔
        (cut < (e.1 : Int) ∧ ∃ p ∈ ps, e ∈ stk ix.tree ix.ranges[p]!.contents) := by
  intro ps
  induction ps with
  | nil => intro _ _ _ e; simp [incSweep]
  | cons p ps ih =>
    intro cut hsorted hlt e
    have hs := List.pairwise_cons.mp hsorted
    simp only [incSweep, List.flatten_cons, List.mem_append]
    rw [ih _ hs.2 (fun q hq => hlt q (List.mem_cons_of_mem _ hq))]
    simp only [above, List.mem_filter, decide_eq_true_eq, List.mem_cons, exists_eq_or_imp]
    constructor
    · rintro (⟨h1, h2⟩ | ⟨h1, q, hq, h2⟩)
      · exact ⟨h2, Or.inl h1⟩
      · exact ⟨by omega, Or.inr ⟨q, hq, h2⟩⟩
    · rintro ⟨h1, h2 | ⟨q, hq, h2⟩⟩
      · exact Or.inl ⟨h2, h1⟩
      · by_cases hle : (e.1 : Int) ≤ ix.ranges[p]!.contents
        · exact Or.inl ⟨hm p q (hs.1 q hq) (hlt q (List.mem_cons_of_mem _ hq)) e h2 hle, h1⟩
        · exact Or.inr ⟨by omega, q, hq, h2⟩

theorem incSweep_nodup (ix : Index) (hok : IndexOK ix) (hm : Mono ix) :
    ∀ (ps : List Nat) (cut : Int), ps.Pairwise (· ≤ ·) → (∀ p ∈ ps, p < ix.ranges.size) →
      (incSweep ix cut ps).flatten.Nodup := by
  intro ps
  induction ps with
  | nil => intro _ _ _; simp [incSweep]
  | cons p ps ih =>
    intro cut hsorted hlt
    have hs := List.pairwise_cons.mp hsorted
    have hk := hok.contents p (hlt p (by simp))
    simp only [incSweep, List.flatten_cons]
    rw [List.nodup_append]
    refine ⟨?_, ih _ hs.2 (fun q hq => hlt q (List.mem_cons_of_mem _ hq)), ?_⟩
    · exact (stk_nodup hok.wf _ hk.2).sublist List.filter_sublist
    · intro a ha b hb hab
      subst hab
      have h1 := (stk_le hok.wf _ hk.2 a (List.mem_of_mem_filter ha)).1
      have h2 := ((incSweep_mem ix hm ps _ hs.2 (fun q hq => hlt q (List.mem_cons_of_mem _ hq)) a).mp hb).1
      omega

end S2Proofs.CIdx
