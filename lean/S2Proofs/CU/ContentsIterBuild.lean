/-
  S2Proofs.CU.ContentsIterBuild — the contents iterator on an index produced by `Build`.

  * `build_indexOK`, `build_Mono`   every built index satisfies the hypotheses of `ContentsIter.lean`;
  * `stk_perm_ents`                 (contract) the chain of range `p` is — with node identities — the set
                                    of ALL tree nodes whose cell contains a leaf `x` of the range;
  * `sweep_increasing`              (contract) one iterator over ranges in non-decreasing order reports
                                    every indexed pair that contains one of the chosen leaves exactly as
                                    often as it was added: no duplicates, nothing missing.
-/
import S2Proofs.CU.ContentsIter
open S2 S2.CellID S2.CellIndex
namespace S2Proofs.CIdx

theorem build_labelsOK (cells : List Pair) : LabelsOK (build cells).tree := by
  intro i hi
  have h : treePairs (build cells).tree = pushed (sortDeltas (deltasOf cells)) := by
    unfold build; rw [buildLoop_tree]; simp [treePairs]
  have hmem : ((build cells).tree[i]!.cellID, (build cells).tree[i]!.label) ∈ treePairs (build cells).tree := by
    unfold treePairs
    rw [getElem!_pos _ i hi]
    exact List.mem_map_of_mem (Array.getElem_mem_toList _)
  rw [h] at hmem
  obtain ⟨d, _, hl, he⟩ := mem_pushed hmem
  have := congrArg Prod.snd he
  simp only at this
  omega

theorem build_indexOK (cells : List Pair) : IndexOK (build cells) := by
  obtain ⟨hw, hcb⟩ := build_wf cells
  exact ⟨hw, build_labelsOK cells, fun p hp =>
    hcb _ (by rw [getElem!_pos _ p hp]; exact Array.getElem_mem_toList _)⟩

theorem build_Mono (cells : List Pair) : Mono (build cells) :=
  fun p q hpq hq => build_mono cells p q hpq hq

/-! ### all nodes of the tree, with their indices -/

def ents (t : Array TreeNode) : List Ent := (List.range t.size).map fun i => (i, t[i]!.cellID, t[i]!.label)

theorem ents_nodup (t : Array TreeNode) : (ents t).Nodup := by
  unfold ents
  rw [List.nodup_iff_pairwise_ne, List.pairwise_map]
  exact (List.nodup_range (n := t.size)).imp (fun {a b} hab h => hab (congrArg Prod.fst h))

theorem mem_ents {t : Array TreeNode} {e : Ent} :
    e ∈ ents t ↔ e.1 < t.size ∧ e = (e.1, t[e.1]!.cellID, t[e.1]!.label) := by
  unfold ents
  simp only [List.mem_map, List.mem_range]
  constructor
  · rintro ⟨i, hi, rfl⟩; exact ⟨hi, rfl⟩
  · rintro ⟨h1, h2⟩; exact ⟨e.1, h1, h2.symm⟩

theorem pairsOf_ents (t : Array TreeNode) : pairsOf (ents t) = treePairs t := by
  unfold pairsOf ents treePairs
  apply List.ext_getElem
  · simp
  · intro i h1 h2
    simp only [List.length_map, List.length_range] at h1
    simp only [List.getElem_map, List.getElem_range, Array.getElem_toList]
    rw [getElem!_pos _ i h1]

/-- position `x` lies in the leaf range of the cell of a pair -/
def inCell (x : Nat) (p : Pair) : Bool := decide ((rangeMin p.1).toNat ≤ x) && decide (x ≤ (rangeMax p.1).toNat)

theorem pairsAt_eq (cells : List Pair) (x : Nat) : pairsAt cells x = cells.filter (inCell x) := by
  unfold pairsAt
  congr 1

/-- (contract) with node identities: the chain of range `p` consists of exactly the tree nodes whose
    cell contains the leaf `x` of that range -/
theorem stk_perm_ents (cells : List Pair) (h : CellsOK cells) (p : Nat) (hp : p + 1 < (build cells).ranges.size)
    (x : Nat) (hx : x % 2 = 1) (hlo : (build cells).ranges[p]!.startID.toNat ≤ x)
    (hhi : x < (build cells).ranges[p+1]!.startID.toNat) :
    (stk (build cells).tree (build cells).ranges[p]!.contents).Perm
      ((ents (build cells).tree).filter (fun e => inCell x e.2)) := by
  have hok := build_indexOK cells
  have hk := hok.contents p (by omega)
  have hR := (build_chained cells h).get p (by rw [obsList_length]; omega)
  rw [obsList_get cells p (by omega), obsList_get cells (p+1) (by omega)] at hR
  have hperm : (pairsOf (stk (build cells).tree (build cells).ranges[p]!.contents)).Perm (pairsAt cells x) :=
    hR x hx hlo hhi
  rw [pairsAt_eq] at hperm
  have hsub : stk (build cells).tree (build cells).ranges[p]!.contents ⊆
      (ents (build cells).tree).filter (fun e => inCell x e.2) := by
    intro e he
    rw [List.mem_filter]
    obtain ⟨_, h2, h3⟩ := stk_le hok.wf _ hk.2 e he
    refine ⟨mem_ents.mpr ⟨h2, h3⟩, ?_⟩
    have : e.2 ∈ pairsOf (stk (build cells).tree (build cells).ranges[p]!.contents) :=
      List.mem_map_of_mem he
    exact (List.mem_filter.mp (hperm.mem_iff.mp this)).2
  apply ((stk_nodup hok.wf _ hk.2).subperm hsub).perm_of_length_le
  -- the two lists have the same length
  have htp : (treePairs (build cells).tree).Perm cells :=
    build_tree_perm cells (fun q hq => (h q hq).2)
  have h1 : ((ents (build cells).tree).filter (fun e => inCell x e.2)).length =
      ((pairsOf (ents (build cells).tree)).filter (inCell x)).length := by
    unfold pairsOf
    rw [List.filter_map, List.length_map]
    rfl
  rw [h1, pairsOf_ents, (htp.filter _).length_eq, ← hperm.length_eq]
  simp [pairsOf]

/-- (contract) one contents iterator, ranges visited in non-decreasing order, `xs p` any leaf of
    range `p`: the concatenation of all reports is — as a multiset — the list of indexed pairs whose
    cell contains one of the chosen leaves. -/
theorem sweep_increasing (cells : List Pair) (h : CellsOK cells) (ps : List Nat) (xs : Nat → Nat)
    (hsorted : ps.Pairwise (· ≤ ·))
    (hps : ∀ p ∈ ps, p + 1 < (build cells).ranges.size ∧ xs p % 2 = 1 ∧
      (build cells).ranges[p]!.startID.toNat ≤ xs p ∧ xs p < (build cells).ranges[p+1]!.startID.toNat) :
    (sweep (build cells) ps).flatten.Perm (cells.filter fun c => ps.any fun p => inCell (xs p) c) := by
  have hok := build_indexOK cells
  have hm := build_Mono cells
  have hlt : ∀ p ∈ ps, p < (build cells).ranges.size := fun p hp => by have := (hps p hp).1; omega
  rw [sweep_spec _ hok ps hlt,
    specSweep_inc _ (build_ranges_sorted cells) ps (-1) 0 hsorted hlt (fun _ _ => by simp)]
  have hflat : ((incSweep (build cells) (-1) ps).map pairsOf).flatten =
      pairsOf (incSweep (build cells) (-1) ps).flatten := by
    unfold pairsOf; rw [List.map_flatten]
  rw [hflat]
  have hF := incSweep_nodup _ hok hm ps (-1) hsorted hlt
  have hmem := incSweep_mem _ hm ps (-1) hsorted hlt
  have hG : ((ents (build cells).tree).filter (fun e => ps.any fun p => inCell (xs p) e.2)).Nodup :=
    (ents_nodup _).sublist List.filter_sublist
  have hFG : (incSweep (build cells) (-1) ps).flatten.Perm
      ((ents (build cells).tree).filter (fun e => ps.any fun p => inCell (xs p) e.2)) := by
    rw [List.perm_ext_iff_of_nodup hF hG]
    intro e
    rw [hmem e, List.mem_filter, List.any_eq_true]
    have h0 : (-1 : Int) < (e.1 : Int) := by
      have : (0 : Int) ≤ (e.1 : Int) := Int.natCast_nonneg _
      omega
    constructor
    · rintro ⟨_, p, hp, he⟩
      obtain ⟨a, b, c, d⟩ := hps p hp
      have := (stk_perm_ents cells h p a (xs p) b c d).mem_iff.mp he
      rw [List.mem_filter] at this
      exact ⟨this.1, p, hp, this.2⟩
    · rintro ⟨he, p, hp, hin⟩
      obtain ⟨a, b, c, d⟩ := hps p hp
      refine ⟨h0, p, hp, ?_⟩
      exact (stk_perm_ents cells h p a (xs p) b c d).mem_iff.mpr (List.mem_filter.mpr ⟨he, hin⟩)
  have htp : (treePairs (build cells).tree).Perm cells :=
    build_tree_perm cells (fun q hq => (h q hq).2)
  refine (hFG.map _).trans ?_
  have : List.map (·.2) ((ents (build cells).tree).filter (fun e => ps.any fun p => inCell (xs p) e.2)) =
      (pairsOf (ents (build cells).tree)).filter (fun c => ps.any fun p => inCell (xs p) c) := by
    unfold pairsOf
    rw [List.filter_map]
    rfl
  rw [this, pairsOf_ents]
  exact htp.filter _

end S2Proofs.CIdx
