/-
  S2Proofs.CU.FindSweep — the sweep `intervalOverlaps` over the collapsed limits, abstractly.

  `g i τ` = "union i is open just after time τ" (see FindDefs), `cov τ` = the strictly increasing
  list of the `i` with `g i τ`.  If the limit list `K` has strictly increasing time codes, its index
  lists are exactly the changes of `g`, and every change of `g` happens at a code of `K`, then the
  emitted overlaps are exactly the stretches between consecutive codes where ≥ 2 unions are open.
-/
import S2Proofs.CU.FindDefs
open S2 S2.CellID S2.CellUnion S2.Intersect
namespace S2Proofs.FindP

/-! ### leaf words -/

theorem next_leaf (e : CellID) (h : e.toNat % 2 = 1) (hlt : e.toNat < 6 * 2^61) :
    (next e).toNat = e.toNat + 2 := by
  have := (isCell_leaf_of_odd e h hlt).next_toNat
  simp only [Nat.reduceMul, Nat.reduceSub, Nat.reducePow] at this
  omega

theorem prev_leaf (e : CellID) (h : e.toNat % 2 = 1) (hlt : e.toNat < 6 * 2^61) (h3 : 3 ≤ e.toNat) :
    (prev e).toNat = e.toNat - 2 := by
  have := (isCell_leaf_of_odd e h hlt).prev_toNat
  simp only [Nat.reduceMul, Nat.reduceSub, Nat.reducePow] at this
  omega

example : ((5 : CellID).toNat % 2 = 1 ∧ (5 : CellID).toNat < 6 * 2^61 ∧ 3 ≤ (5 : CellID).toNat) ∧
    next (5 : CellID) = 7 ∧ prev (5 : CellID) = 3 := by decide

/-! ### sorted duplicate-free lists of naturals -/

theorem eq_of_sorted_mem : ∀ (l1 l2 : List Nat), l1.Pairwise (· < ·) → l2.Pairwise (· < ·) →
    (∀ i, i ∈ l1 ↔ i ∈ l2) → l1 = l2
  | [], [], _, _, _ => rfl
  | [], b :: t2, _, _, h => by have := (h b).mpr (List.mem_cons_self ..); simp at this
  | a :: t1, [], _, _, h => by have := (h a).mp (List.mem_cons_self ..); simp at this
  | a :: t1, b :: t2, h1, h2, h => by
    obtain ⟨ha, ht1⟩ := List.pairwise_cons.mp h1
    obtain ⟨hb, ht2⟩ := List.pairwise_cons.mp h2
    have hab : a = b := by
      have m1 := (h a).mp (List.mem_cons_self ..)
      have m2 := (h b).mpr (List.mem_cons_self ..)
      rcases List.mem_cons.mp m1 with e | m1
      · exact e
      · rcases List.mem_cons.mp m2 with e | m2
        · exact e.symm
        · have := hb a m1; have := ha b m2; omega
    subst hab
    congr 1
    apply eq_of_sorted_mem t1 t2 ht1 ht2
    intro i
    constructor
    · intro hi
      rcases List.mem_cons.mp ((h i).mp (List.mem_cons_of_mem _ hi)) with e | m
      · have := ha i hi; omega
      · exact m
    · intro hi
      rcases List.mem_cons.mp ((h i).mpr (List.mem_cons_of_mem _ hi)) with e | m
      · have := hb i hi; omega
      · exact m

example : [1, 4].Pairwise (· < ·) := by decide

theorem mem_setInsert (x y : Nat) (l : List Nat) : y ∈ setInsert x l ↔ y = x ∨ y ∈ l := by
  induction l with
  | nil => simp [setInsert]
  | cons a t ih =>
    unfold setInsert
    split
    · simp
    · split
      · rename_i h; have : x = a := by simpa using h
        subst this; simp
      · simp only [List.mem_cons, ih]; tauto

theorem sorted_setInsert (x : Nat) (l : List Nat) (h : l.Pairwise (· < ·)) :
    (setInsert x l).Pairwise (· < ·) := by
  induction l with
  | nil => simp [setInsert]
  | cons a t ih =>
    obtain ⟨ha, ht⟩ := List.pairwise_cons.mp h
    unfold setInsert
    split
    · rename_i hx
      refine List.pairwise_cons.mpr ⟨fun b hb => ?_, h⟩
      rcases List.mem_cons.mp hb with rfl | hb
      · exact hx
      · have := ha b hb; omega
    · split
      · exact h
      · rename_i h1 h2
        have hne : x ≠ a := by simpa using h2
        refine List.pairwise_cons.mpr ⟨fun b hb => ?_, ih ht⟩
        rcases (mem_setInsert x b t).mp hb with rfl | hb
        · omega
        · exact ha b hb

theorem foldl_setInsert (is opn : List Nat) (h : opn.Pairwise (· < ·)) :
    (is.foldl (fun o i => setInsert i o) opn).Pairwise (· < ·) ∧
      ∀ y, y ∈ is.foldl (fun o i => setInsert i o) opn ↔ y ∈ is ∨ y ∈ opn := by
  induction is generalizing opn with
  | nil => simp [h]
  | cons a t ih =>
    obtain ⟨h1, h2⟩ := ih (setInsert a opn) (sorted_setInsert a opn h)
    refine ⟨h1, fun y => ?_⟩
    rw [List.foldl_cons, h2, mem_setInsert, List.mem_cons]; tauto

/-! ### the step function of the sweep, named -/

def emit (opn : List Nat) (ls : CellID) (l : Limit) (ovs : List Overlap) : List Overlap :=
  if opn.length > 1 then
    { indices := opn, start := ls, «end» := if !l.typ then prev l.leaf else l.leaf } :: ovs
  else ovs

def newOpen (opn : List Nat) (l : Limit) : List Nat :=
  if !l.typ then l.indices.foldl (fun o i => setInsert i o) opn
  else opn.filter (fun i => !l.indices.contains i)

def newStart (opn' : List Nat) (ls : CellID) (l : Limit) : CellID :=
  if opn'.length > 1 then (if l.typ then next l.leaf else l.leaf) else ls

def sweepStep (st : List Nat × CellID × List Overlap) (l : Limit) : List Nat × CellID × List Overlap :=
  (newOpen st.1 l, newStart (newOpen st.1 l) st.2.1 l, emit st.1 st.2.1 l st.2.2)

theorem intervalOverlaps_eq (lims : List Limit) :
    intervalOverlaps lims = (lims.foldl sweepStep ([], 0, [])).2.2.reverse := rfl

/-! ### hypotheses -/

/-- the odd position at which the stretch after time κ starts -/
def oddOf (κ : Nat) : Nat := if κ % 2 = 0 then κ - 1 else κ

structure GHyp (g : Nat → Nat → Bool) (cov : Nat → List Nat) : Prop where
  g0 : ∀ i, g i 0 = false
  gfin : ∃ T, ∀ i τ, T ≤ τ → g i τ = false
  gOdd : ∀ i τ, τ % 2 = 1 → g i τ = true → g i (τ - 1) = true
  gEven : ∀ i τ, τ % 2 = 0 → g i (τ - 1) = true → g i τ = true
  covSorted : ∀ τ, (cov τ).Pairwise (· < ·)
  covMem : ∀ τ i, i ∈ cov τ ↔ g i τ = true

/-- the limits still to be processed after time κ -/
structure SufOK (g : Nat → Nat → Bool) (κ : Nat) (suf : List Limit) : Prop where
  sorted : suf.Pairwise (fun a b => code a < code b)
  gt : ∀ l ∈ suf, κ < code l
  leafOK : ∀ l ∈ suf, l.leaf.toNat % 2 = 1 ∧ l.leaf.toNat < 6 * 2^61
  mem : ∀ l ∈ suf, ∀ i, i ∈ l.indices ↔ g i (code l - 1) ≠ g i (code l)
  complete : ∀ i τ, κ < τ → g i (τ - 1) ≠ g i τ → ∃ l ∈ suf, code l = τ

/-- what is proved about every emitted overlap -/
def GoodOv (cov : Nat → List Nat) (o : Overlap) : Prop :=
  2 ≤ o.indices.length ∧ o.start.toNat % 2 = 1 ∧ (next o.«end»).toNat % 2 = 1 ∧
    o.start.toNat ≤ (next o.«end»).toNat ∧ (next o.«end»).toNat ≤ 6 * 2^61 + 1 ∧
    (∀ x, x % 2 = 1 → o.start.toNat ≤ x → x < (next o.«end»).toNat → o.indices = cov (x + 1)) ∧
    ∃ κ, o.indices = cov κ

structure Inv (g : Nat → Nat → Bool) (cov : Nat → List Nat) (κ : Nat)
    (st : List Nat × CellID × List Overlap) : Prop where
  k2 : κ = 0 ∨ 2 ≤ κ
  opn : st.1 = cov κ
  ls : 1 < st.1.length → st.2.1.toNat = oddOf κ
  good : ∀ o ∈ st.2.2, GoodOv cov o
  done : ∀ x, x % 2 = 1 → x + 1 < κ → 2 ≤ (cov (x + 1)).length →
    ∃ o ∈ st.2.2, o.start.toNat ≤ x ∧ x < (next o.«end»).toNat

theorem endLeaf_next (l : Limit) (hodd : l.leaf.toNat % 2 = 1) (hlt : l.leaf.toNat < 6 * 2^61)
    (h3 : l.typ = false → 3 ≤ l.leaf.toNat) :
    (next (if !l.typ then prev l.leaf else l.leaf)).toNat = oddOf (code l) := by
  unfold oddOf code
  cases ht : l.typ
  · have hp := prev_leaf l.leaf hodd hlt (h3 ht)
    have h3' := h3 ht
    have h1 : (prev l.leaf).toNat % 2 = 1 := by rw [hp]; omega
    have h2 : (prev l.leaf).toNat < 6 * 2^61 := by rw [hp]; omega
    have := next_leaf (prev l.leaf) h1 h2
    simp only [Bool.not_false, if_true, Bool.false_eq_true, if_false]
    rw [this, hp]; split <;> omega
  · have := next_leaf l.leaf hodd hlt
    simp only [Bool.not_true, Bool.false_eq_true, if_false, if_true]
    rw [this]; split <;> omega

theorem startLeaf_eq (l : Limit) (hodd : l.leaf.toNat % 2 = 1) (hlt : l.leaf.toNat < 6 * 2^61) :
    (if l.typ then next l.leaf else l.leaf).toNat = oddOf (code l) := by
  unfold oddOf code
  cases ht : l.typ
  · simp only [Bool.false_eq_true, if_false]; split <;> omega
  · have := next_leaf l.leaf hodd hlt
    simp only [if_true]
    rw [this]; split <;> omega

example : (({ leaf := 5, typ := false, indices := [0] } : Limit).leaf.toNat % 2 = 1 ∧
    ({ leaf := 5, typ := false, indices := [0] } : Limit).leaf.toNat < 6 * 2^61 ∧
    3 ≤ ({ leaf := 5, typ := false, indices := [0] } : Limit).leaf.toNat) := by decide

theorem cov_nil_of {g : Nat → Nat → Bool} {cov : Nat → List Nat} (hg : GHyp g cov) (τ : Nat)
    (h : ∀ i, g i τ = false) : cov τ = [] := by
  apply List.eq_nil_iff_forall_not_mem.mpr
  intro i hi
  have := (hg.covMem τ i).mp hi
  rw [h i] at this; exact Bool.false_ne_true this

/-- non-vacuity of `GHyp`, `SufOK`, `Inv` (the trivial instance: nothing is ever open; the instance
    that matters — `g` = coverage of the normalized input unions, `K` = the collapsed limits — is proved
    for EVERY list of unions of valid cells in `FindMain.lean`: `gHyp`, `sufOK`) -/
example : GHyp (fun _ _ => false) (fun _ => []) ∧ SufOK (fun _ _ => false) 0 [] ∧
    Inv (fun _ _ => false) (fun _ => []) 0 (([] : List Nat), (0 : CellID), ([] : List Overlap)) := by
  refine ⟨⟨fun _ => rfl, ⟨0, fun _ _ _ => rfl⟩, fun _ _ _ h => h, fun _ _ _ h => h, fun _ => List.Pairwise.nil,
    fun _ _ => by simp⟩, ⟨List.Pairwise.nil, by simp, by simp, by simp, fun _ _ _ h => absurd rfl h⟩,
    ⟨Or.inl rfl, rfl, by simp, by simp, fun _ _ h => by omega⟩⟩

theorem sweep_step {g : Nat → Nat → Bool} {cov : Nat → List Nat} (hg : GHyp g cov) {κ : Nat}
    {st : List Nat × CellID × List Overlap} {l : Limit} {suf : List Limit}
    (hi : Inv g cov κ st) (hs : SufOK g κ (l :: suf)) :
    Inv g cov (code l) (sweepStep st l) ∧ SufOK g (code l) suf := by
  obtain ⟨opn, ls, ovs⟩ := st
  obtain ⟨hk2, hopn, hls, hgood, hdone⟩ := hi
  simp only at hopn hls hgood hdone
  have hsorted := List.pairwise_cons.mp hs.sorted
  have hκ' : κ < code l := hs.gt l (List.mem_cons_self ..)
  obtain ⟨hodd, hlt⟩ := hs.leafOK l (List.mem_cons_self ..)
  have hmem := hs.mem l (List.mem_cons_self ..)
  have hcode : code l = l.leaf.toNat + 1 + (if l.typ then 1 else 0) := rfl
  -- nothing changes strictly between κ and code l
  have F1 : ∀ i d, κ + d < code l → g i (κ + d) = g i κ := by
    intro i d
    induction d with
    | zero => intro _; rfl
    | succ d ih =>
      intro h
      rw [← ih (by omega)]
      by_contra hne
      have hne' : g i (κ + (d + 1) - 1) ≠ g i (κ + (d + 1)) := by
        have e : κ + (d + 1) - 1 = κ + d := by omega
        rw [e]; exact fun h' => hne h'.symm
      obtain ⟨l', hl', hc⟩ := hs.complete i (κ + (d + 1)) (by omega) hne'
      rcases List.mem_cons.mp hl' with rfl | hl'
      · omega
      · have := hsorted.1 l' hl'; omega
  have F1' : ∀ i τ, κ ≤ τ → τ < code l → g i τ = g i κ := by
    intro i τ h1 h2
    have := F1 i (τ - κ) (by omega)
    have e : κ + (τ - κ) = τ := by omega
    rwa [e] at this
  have F2 : ∀ τ, κ ≤ τ → τ < code l → cov τ = cov κ := by
    intro τ h1 h2
    apply eq_of_sorted_mem _ _ (hg.covSorted _) (hg.covSorted _)
    intro i
    rw [hg.covMem, hg.covMem, F1' i τ h1 h2]
  have hprev : ∀ i, g i (code l - 1) = g i κ := fun i => F1' i _ (by omega) (by omega)
  -- if something is open, κ ≥ 2
  have hκ2 : 1 < opn.length → 2 ≤ κ := by
    intro h
    rcases hk2 with h0 | h2
    · subst h0
      rw [hopn, cov_nil_of hg 0 hg.g0] at h; simp at h
    · exact h2
  -- the new open set
  have hopen : newOpen opn l = cov (code l) := by
    unfold newOpen
    cases ht : l.typ
    · simp only [Bool.not_false, if_true]
      have hs0 : opn.Pairwise (· < ·) := by rw [hopn]; exact hg.covSorted _
      obtain ⟨s1, s2⟩ := foldl_setInsert l.indices opn hs0
      apply eq_of_sorted_mem _ _ s1 (hg.covSorted _)
      intro i
      rw [s2, hmem i, hopn, hg.covMem, hg.covMem, ← hprev i]
      have hev := hg.gEven i (code l) (by rw [hcode, ht]; simp; omega)
      cases h1 : g i (code l - 1) <;> cases h2 : g i (code l) <;> simp_all
    · simp only [Bool.not_true, Bool.false_eq_true, if_false]
      have hs0 : opn.Pairwise (· < ·) := by rw [hopn]; exact hg.covSorted _
      apply eq_of_sorted_mem _ _ (hs0.filter _) (hg.covSorted _)
      intro i
      rw [List.mem_filter, hopn, hg.covMem, hg.covMem, ← hprev i]
      have hod := hg.gOdd i (code l) (by rw [hcode, ht]; simp; omega)
      have hm := hmem i
      cases h1 : g i (code l - 1) <;> cases h2 : g i (code l) <;> simp_all
  have hc2 : 2 ≤ code l := by rw [hcode]; omega
  have hnext : 1 < opn.length →
      (next (if !l.typ then prev l.leaf else l.leaf)).toNat = oddOf (code l) := by
    intro h
    apply endLeaf_next l hodd hlt
    intro ht
    have := hκ2 h
    rw [hcode, ht] at hκ'; simp at hκ'; omega
  have hoddOf_le : oddOf (code l) ≤ 6 * 2^61 + 1 := by
    unfold oddOf; rw [hcode]; split <;> split <;> omega
  have hoddOf_odd : oddOf (code l) % 2 = 1 := by
    unfold oddOf; split <;> omega
  refine ⟨⟨Or.inr hc2, hopen, ?_, ?_, ?_⟩, ⟨hsorted.2, hsorted.1, ?_, ?_, ?_⟩⟩
  · -- lastStart
    intro h
    show (newStart (newOpen opn l) ls l).toNat = oddOf (code l)
    unfold newStart
    have h' : (newOpen opn l).length > 1 := h
    rw [if_pos h']
    exact startLeaf_eq l hodd hlt
  · -- good
    intro o ho
    change o ∈ emit opn ls l ovs at ho
    unfold emit at ho
    split at ho
    · rename_i hlen
      rcases List.mem_cons.mp ho with rfl | ho
      · have h2 := hκ2 hlen
        have hst := hls hlen
        have hne := hnext hlen
        refine ⟨hlen, ?_, ?_, ?_, ?_, ?_, ⟨κ, hopn⟩⟩
        · show ls.toNat % 2 = 1
          rw [hst]; unfold oddOf; split <;> omega
        · show (next (if !l.typ then prev l.leaf else l.leaf)).toNat % 2 = 1
          rw [hne]; exact hoddOf_odd
        · show ls.toNat ≤ (next (if !l.typ then prev l.leaf else l.leaf)).toNat
          rw [hne, hst]; unfold oddOf; split <;> split <;> omega
        · show (next (if !l.typ then prev l.leaf else l.leaf)).toNat ≤ _
          rw [hne]; exact hoddOf_le
        · intro x hx h1 h2'
          show opn = cov (x + 1)
          change ls.toNat ≤ x at h1
          change x < (next (if !l.typ then prev l.leaf else l.leaf)).toNat at h2'
          rw [hne] at h2'; rw [hst] at h1
          rw [hopn]; symm
          apply F2
          · unfold oddOf at h1; split at h1 <;> omega
          · unfold oddOf at h2'; split at h2' <;> omega
      · exact hgood o ho
    · exact hgood o ho
  · -- done
    intro x hx h1 h2
    show ∃ o ∈ emit opn ls l ovs, _
    by_cases hxk : x + 1 < κ
    · obtain ⟨o, ho, h⟩ := hdone x hx hxk h2
      refine ⟨o, ?_, h⟩
      unfold emit; split
      · exact List.mem_cons_of_mem _ ho
      · exact ho
    · have hcv := F2 (x + 1) (by omega) h1
      have hlen : 1 < opn.length := by rw [hopn, ← hcv]; omega
      have hst := hls hlen
      have hne := hnext hlen
      have hk := hκ2 hlen
      refine ⟨{ indices := opn, start := ls, «end» := if !l.typ then prev l.leaf else l.leaf }, ?_, ?_, ?_⟩
      · unfold emit; rw [if_pos hlen]; exact List.mem_cons_self ..
      · show ls.toNat ≤ x
        rw [hst]; unfold oddOf; split <;> omega
      · show x < (next (if !l.typ then prev l.leaf else l.leaf)).toNat
        rw [hne]; unfold oddOf; split <;> omega
  · exact fun l' hl' => hs.leafOK l' (List.mem_cons_of_mem _ hl')
  · exact fun l' hl' => hs.mem l' (List.mem_cons_of_mem _ hl')
  · intro i τ h1 h2
    obtain ⟨l', hl', hc⟩ := hs.complete i τ (by omega) h2
    rcases List.mem_cons.mp hl' with rfl | hl'
    · omega
    · exact ⟨l', hl', hc⟩

theorem sweep_all {g : Nat → Nat → Bool} {cov : Nat → List Nat} (hg : GHyp g cov) :
    ∀ (suf : List Limit) (κ : Nat) (st : List Nat × CellID × List Overlap),
      Inv g cov κ st → SufOK g κ suf →
      (∀ o ∈ (suf.foldl sweepStep st).2.2, GoodOv cov o) ∧
      ∀ x, x % 2 = 1 → 2 ≤ (cov (x + 1)).length →
        ∃ o ∈ (suf.foldl sweepStep st).2.2, o.start.toNat ≤ x ∧ x < (next o.«end»).toNat
  | [], κ, st, hi, hs => by
    refine ⟨hi.good, fun x hx h2 => ?_⟩
    by_cases hxk : x + 1 < κ
    · exact hi.done x hx hxk h2
    · exfalso
      -- no change after κ, and g is eventually false
      have hconst : ∀ i d, g i (κ + d) = g i κ := by
        intro i d
        induction d with
        | zero => rfl
        | succ d ih =>
          rw [← ih]
          by_contra hne
          have hne' : g i (κ + (d + 1) - 1) ≠ g i (κ + (d + 1)) := by
            have e : κ + (d + 1) - 1 = κ + d := by omega
            rw [e]; exact fun h' => hne h'.symm
          obtain ⟨l', hl', _⟩ := hs.complete i (κ + (d + 1)) (by omega) hne'
          simp at hl'
      obtain ⟨T, hT⟩ := hg.gfin
      have hfalse : ∀ i, g i (x + 1) = false := by
        intro i
        have a := hconst i (x + 1 - κ)
        have b := hconst i (T + (x + 1))
        have e : κ + (x + 1 - κ) = x + 1 := by omega
        rw [e] at a
        rw [a, ← b]
        exact hT i _ (by omega)
      rw [cov_nil_of hg (x + 1) hfalse] at h2
      simp at h2
  | l :: suf, κ, st, hi, hs => by
    obtain ⟨hi', hs'⟩ := sweep_step hg hi hs
    exact sweep_all hg suf (code l) (sweepStep st l) hi' hs'

/-- THE SWEEP THEOREM -/
theorem sweep_spec {g : Nat → Nat → Bool} {cov : Nat → List Nat} (hg : GHyp g cov) (K : List Limit)
    (hK : SufOK g 0 K) :
    (∀ o ∈ intervalOverlaps K, GoodOv cov o) ∧
    ∀ x, x % 2 = 1 → 2 ≤ (cov (x + 1)).length →
      ∃ o ∈ intervalOverlaps K, o.start.toNat ≤ x ∧ x < (next o.«end»).toNat := by
  have hi : Inv g cov 0 (([] : List Nat), (0 : CellID), ([] : List Overlap)) := by
    refine ⟨Or.inl rfl, (cov_nil_of hg 0 hg.g0).symm, ?_, ?_, ?_⟩
    · intro h; simp at h
    · intro o ho; simp at ho
    · intro x _ h; omega
  obtain ⟨h1, h2⟩ := sweep_all hg K 0 _ hi hK
  rw [intervalOverlaps_eq]
  refine ⟨fun o ho => h1 o (List.mem_reverse.mp ho), fun x hx hc => ?_⟩
  obtain ⟨o, ho, h⟩ := h2 x hx hc
  exact ⟨o, List.mem_reverse.mpr ho, h⟩

end S2Proofs.FindP
