/-
  S2Proofs.CU.CellIndexMono — order properties of the label tree produced by `CellIndex.Build`
  (all inputs, no contract needed):

  * `stk_props`      a parent chain lists tree indices in strictly decreasing order, all `≤` its start;
                     an entry is determined by its tree index;
  * `build_mono`     "indexes are assigned using a preorder traversal": if range `p` comes before
                     range `q`, every node on `q`'s chain whose index is `≤ contents(p)` is also on
                     `p`'s chain.  This is exactly what the de-duplication of the contents iterator
                     relies on (a popped node never returns to the stack).
-/
import S2Proofs.CU.CellIndexBuild
open S2 S2.CellID S2.CellIndex
namespace S2Proofs.CIdx

/-! ### parent chains -/

theorem stk_props {t : Array TreeNode} (hw : TreeWF t) : ∀ (n : Nat) (i : Int), i < (n : Int) → n ≤ t.size →
    (∀ e ∈ stk t i, (e.1 : Int) ≤ i ∧ e.1 < t.size ∧ e = (e.1, t[e.1]!.cellID, t[e.1]!.label)) ∧
    (stk t i).Pairwise (fun a b => b.1 < a.1) := by
  intro n
  induction n with
  | zero => intro i hi _; rw [stk_neg _ _ (by omega)]; simp
  | succ n ih =>
    intro i hi hn
    by_cases h0 : i < 0
    · rw [stk_neg _ _ h0]; simp
    · have hp := hw i.toNat (by omega)
      rw [stk_cons hw i (by omega) (by omega)]
      obtain ⟨h1, h2⟩ := ih t[i.toNat]!.parent (by omega) (by omega)
      constructor
      · intro e he
        rcases List.mem_cons.mp he with rfl | he
        · exact ⟨by simp; omega, by simp; omega, rfl⟩
        · obtain ⟨a, b, c⟩ := h1 e he
          exact ⟨by omega, b, c⟩
      · refine List.pairwise_cons.mpr ⟨?_, h2⟩
        intro e he
        have := (h1 e he).1
        simp only
        omega

theorem stk_le {t : Array TreeNode} (hw : TreeWF t) (i : Int) (hi : i < (t.size : Int)) :
    ∀ e ∈ stk t i, (e.1 : Int) ≤ i ∧ e.1 < t.size ∧ e = (e.1, t[e.1]!.cellID, t[e.1]!.label) :=
  (stk_props hw t.size i hi (Nat.le_refl _)).1

theorem stk_sorted {t : Array TreeNode} (hw : TreeWF t) (i : Int) (hi : i < (t.size : Int)) :
    (stk t i).Pairwise (fun a b => b.1 < a.1) :=
  (stk_props hw t.size i hi (Nat.le_refl _)).2

theorem stk_nodup {t : Array TreeNode} (hw : TreeWF t) (i : Int) (hi : i < (t.size : Int)) :
    (stk t i).Nodup :=
  (stk_sorted hw i hi).imp (fun {a b} h => by intro e; subst e; omega)

/-- two entries of chains of the same tree with the same index are equal -/
theorem stk_ent_eq {t : Array TreeNode} (hw : TreeWF t) {i j : Int} (hi : i < (t.size : Int)) (hj : j < (t.size : Int))
    {a b : Ent} (ha : a ∈ stk t i) (hb : b ∈ stk t j) (h : a.1 = b.1) : a = b := by
  rw [(stk_le hw i hi a ha).2.2, (stk_le hw j hj b hb).2.2, h]

/-! ### a popped node never returns -/

theorem absStep_lt {s : List Ent} {T : Nat} (d : Delta) (h : ∀ e ∈ s, e.1 < T) :
    (∀ e ∈ (absStep s T d).1, e.1 < (absStep s T d).2) ∧ T ≤ (absStep s T d).2 ∧
    (∀ e ∈ (absStep s T d).1, e.1 < T → e ∈ s) := by
  unfold absStep
  split
  · refine ⟨?_, by simp, ?_⟩
    · intro e he
      rcases List.mem_cons.mp he with rfl | he
      · simp
      · have := h e he; simp only; omega
    · intro e he hlt
      rcases List.mem_cons.mp he with rfl | he
      · simp at hlt
      · exact he
  · split
    · exact ⟨fun e he => h e (List.mem_of_mem_tail he), Nat.le_refl _, fun e he _ => List.mem_of_mem_tail he⟩
    · exact ⟨h, Nat.le_refl _, fun e he _ => he⟩

/-- entries with an index below the current tree size that appear on a LATER stack are on the
    current stack -/
theorem absLoop_old (ds : List Delta) : ∀ (s : List Ent) (T : Nat), (∀ e ∈ s, e.1 < T) →
    ∀ o ∈ absLoop ds s T, ∀ e ∈ o.2, e.1 < T → e ∈ s := by
  induction ds with
  | nil => intro s T _ o ho; simp [absLoop] at ho
  | cons d rest ih =>
    intro s T hs o ho e he hlt
    obtain ⟨h1, h2, h3⟩ := absStep_lt d hs
    have hrec : ∀ o ∈ absLoop rest (absStep s T d).1 (absStep s T d).2, ∀ e ∈ o.2, e.1 < T → e ∈ s := by
      intro o ho e he hlt
      exact h3 e (ih _ _ h1 o ho e he (by omega)) hlt
    cases rest with
    | nil =>
      simp only [absLoop, List.mem_singleton] at ho
      subst ho
      exact h3 e he hlt
    | cons d' rest' =>
      unfold absLoop at ho
      simp only at ho
      split at ho
      · exact hrec o ho e he hlt
      · rcases List.mem_cons.mp ho with rfl | ho
        · exact h3 e he hlt
        · exact hrec o ho e he hlt

/-- the relation between an earlier and a later emitted stack -/
def MonoRel (a b : CellID × List Ent) : Prop :=
  ∀ e ∈ b.2, ∀ top ∈ a.2.head?, e.1 ≤ top.1 → e ∈ a.2

theorem absLoop_mono (ds : List Delta) : ∀ (s : List Ent) (T : Nat), (∀ e ∈ s, e.1 < T) →
    (absLoop ds s T).Pairwise MonoRel := by
  induction ds with
  | nil => intro s T _; simp [absLoop]
  | cons d rest ih =>
    intro s T hs
    obtain ⟨h1, h2, h3⟩ := absStep_lt d hs
    cases rest with
    | nil => simp [absLoop]
    | cons d' rest' =>
      unfold absLoop
      simp only
      split
      · exact ih _ _ h1
      · refine List.pairwise_cons.mpr ⟨?_, ih _ _ h1⟩
        intro b hb e he top htop hle
        simp only at htop
        have htm : top ∈ (absStep s T d).1 := List.mem_of_mem_head? htop
        exact absLoop_old _ _ _ h1 b hb e he (by have := h1 top htm; omega)

/-- **Preorder property of the built index** (all inputs): for range nodes `p ≤ q`, a node of `q`'s
    chain with tree index `≤ contents(p)` lies on `p`'s chain. -/
theorem build_mono (cells : List Pair) (p q : Nat) (hpq : p ≤ q) (hq : q < (build cells).ranges.size) :
    ∀ e ∈ stk (build cells).tree (build cells).ranges[q]!.contents,
      (e.1 : Int) ≤ (build cells).ranges[p]!.contents →
      e ∈ stk (build cells).tree (build cells).ranges[p]!.contents := by
  intro e he hle
  rcases Nat.lt_or_eq_of_le hpq with hlt | rfl
  · have hmono : (obsList cells).Pairwise MonoRel := by
      unfold obsList; rw [build_obs]; exact absLoop_mono _ _ _ (by simp)
    have hR := (List.pairwise_iff_getElem.mp hmono) p q (by rw [obsList_length]; omega)
      (by rw [obsList_length]; omega) hlt
    rw [obsList_get cells p (by omega), obsList_get cells q hq] at hR
    obtain ⟨hw, hcb⟩ := build_wf cells
    have hc := hcb (build cells).ranges[p]! (by
      rw [getElem!_pos _ p (by omega)]; exact Array.getElem_mem_toList _)
    have h0 : 0 ≤ (build cells).ranges[p]!.contents := by
      have : (0 : Int) ≤ (e.1 : Int) := Int.natCast_nonneg _
      omega
    apply hR e he (((build cells).ranges[p]!.contents).toNat, _, _)
    · simp only
      rw [stk_cons hw _ h0 hc.2]; rfl
    · simp only; omega
  · exact he

end S2Proofs.CIdx
