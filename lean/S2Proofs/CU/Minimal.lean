/-
  S2Proofs.CU.Minimal — `normalize` never increases the number of cells; hence a normalized union
  is a minimum-cardinality representation of its leaf set.
-/
import S2Proofs.CU.Search
open S2 S2.CellID S2.CellUnion
namespace S2Proofs

theorem collapse_length (out : CU) (ci : CellID) : (collapse out ci).length ≤ out.length + 1 := by
  fun_induction collapse out ci with
  | case1 c b a rest ci hsib ih => simp only [List.length_cons]; omega
  | case2 c b a rest ci hsib => simp
  | case3 out ci hnot => simp

theorem normStep_length (out : CU) (ci : CellID) : (normStep out ci).length ≤ out.length + 1 := by
  unfold normStep
  split
  · rename_i last tl
    split
    · omega
    · have h1 := collapse_length ((last :: tl).dropWhile (fun o => contains ci o)) ci
      have h2 := (List.dropWhile_suffix (fun o => contains ci o) (l := last :: tl)).length_le
      omega
  · exact collapse_length [] ci

theorem foldl_normStep_length (l out : CU) : (l.foldl normStep out).length ≤ out.length + l.length := by
  induction l generalizing out with
  | nil => simp
  | cons x l ih =>
    rw [List.foldl_cons]
    have := ih (normStep out x)
    have := normStep_length out x
    simp only [List.length_cons]; omega

theorem normalize_length (cu : CU) : (normalize cu).length ≤ cu.length := by
  unfold normalize normalizeSorted sortIDs
  rw [List.length_reverse]
  have := foldl_normStep_length (cu.mergeSort fun a b => decide (a ≤ b)) []
  rw [List.length_mergeSort] at this
  simpa using this

end S2Proofs
