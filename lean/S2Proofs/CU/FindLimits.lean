/-
  S2Proofs.CU.FindLimits — `cellUnionToIntervalLimits` on a valid (sorted, disjoint) union produces
  exactly the boundary events of its coverage function.
-/
import S2Proofs.CU.FindDefs
open S2 S2.CellID S2.CellUnion S2.Intersect
namespace S2Proofs.FindP

/-! ### arithmetic facts on valid cells -/

/-- the last leaf of a valid cell lies below `6·2^61` -/
theorem valid_hi_lt {c : CellID} (h : isValid c = true) : hi c < 6 * 2^61 := by
  obtain ⟨k, hk⟩ := (isValid_iff c).mp h
  show (rangeMax c).toNat < 6 * 2^61
  rw [hk.rangeMax_eq]
  obtain ⟨hk30, hf, hlow⟩ := hk
  interval_cases k <;> cell_omega

theorem rangeMax_ne_zero {c : CellID} (h : isValid c = true) : rangeMax c ≠ 0 := by
  intro h0
  have f := valid_facts h
  have : hi c = 0 := by show (rangeMax c).toNat = 0; rw [h0]; rfl
  omega

/-- `next (rangeMax c)` is the leaf position two past the last leaf of `c` -/
theorem next_rangeMax_toNat {c : CellID} (h : isValid c = true) :
    (next (rangeMax c)).toNat = hi c + 2 := by
  have f := valid_facts h
  have hlt := valid_hi_lt h
  have hc : IsCell (rangeMax c) 30 := isCell_leaf_of_odd _ f.2.1 hlt
  have hn := hc.next_toNat
  rw [hn]
  show ((rangeMax c).toNat + 2^(61 - 2*30)) % 2^64 = (rangeMax c).toNat + 2
  have : (rangeMax c).toNat < 6 * 2^61 := hlt
  cell_omega

/-- the Go test `lastend.Next() != startLeaf` between consecutive cells -/
theorem gap_iff {p : CellID} (c : CellID) (hp : isValid p = true) :
    (next (rangeMax p) != rangeMin c) = true ↔ hi p + 2 ≠ lo c := by
  rw [bne_iff_ne, ← next_rangeMax_toNat hp]
  show _ ↔ (next (rangeMax p)).toNat ≠ (rangeMin c).toNat
  rw [Ne, Ne, UInt64.toNat_inj]

/-! ### a forward-recursive form of the loop -/

/-- the loop body of `cellUnionToIntervalLimits` -/
def stepF (idx : Nat) (st : List Limit × CellID) (cID : CellID) : List Limit × CellID :=
  let (lims, lastend) := st
  let startLeaf := rangeMin cID
  let lims :=
    if lastend == 0 then ({ leaf := startLeaf, typ := false, indices := [idx] } : Limit) :: lims
    else if next lastend != startLeaf then
      { leaf := startLeaf, typ := false, indices := [idx] } ::
      { leaf := lastend, typ := true, indices := [idx] } :: lims
    else lims
  (lims, rangeMax cID)

theorem limits_eq_fold (cu : CU) (i : Nat) :
    cellUnionToIntervalLimits cu i =
      if cu.isEmpty then [] else
        (({ leaf := (cu.foldl (stepF i) (([] : List Limit), (0 : CellID))).2, typ := true, indices := [i] } : Limit) ::
          (cu.foldl (stepF i) (([] : List Limit), (0 : CellID))).1).reverse := rfl

/-- limits emitted after a cell ending at `lastend`, in output order -/
def tailLims (i : Nat) (lastend : CellID) : List CellID → List Limit
  | [] => [{ leaf := lastend, typ := true, indices := [i] }]
  | c :: rest => (if next lastend != rangeMin c then
        [{ leaf := lastend, typ := true, indices := [i] }, { leaf := rangeMin c, typ := false, indices := [i] }] else [])
      ++ tailLims i (rangeMax c) rest

theorem tailLims_cons (i : Nat) (lastend c : CellID) (rest : CU) :
    tailLims i lastend (c :: rest) = (if next lastend != rangeMin c then
        [{ leaf := lastend, typ := true, indices := [i] }, { leaf := rangeMin c, typ := false, indices := [i] }] else [])
      ++ tailLims i (rangeMax c) rest := rfl

theorem coversLeaf_false_iff (cu : CU) (n : Nat) : coversLeaf cu n = false ↔ ¬ Covers cu n := by
  rw [← Bool.not_eq_true, coversLeaf_iff]

theorem fold_tailLims (i : Nat) : ∀ (rest : CU) (lims : List Limit) (lastend : CellID),
    lastend ≠ 0 → AllValid rest →
    (({ leaf := (rest.foldl (stepF i) (lims, lastend)).2, typ := true, indices := [i] } : Limit) ::
      (rest.foldl (stepF i) (lims, lastend)).1).reverse = lims.reverse ++ tailLims i lastend rest := by
  intro rest
  induction rest with
  | nil => intro lims lastend _ _; simp [tailLims]
  | cons c rest ih =>
    intro lims lastend hne hv
    have hc : isValid c = true := hv c (List.mem_cons_self ..)
    have hv' : AllValid rest := fun x hx => hv x (List.mem_cons_of_mem _ hx)
    have h0 : (lastend == 0) = false := by simpa using hne
    rw [List.foldl_cons]
    have hstep : stepF i (lims, lastend) c =
        ((if next lastend != rangeMin c then
          ({ leaf := rangeMin c, typ := false, indices := [i] } : Limit) ::
          { leaf := lastend, typ := true, indices := [i] } :: lims else lims), rangeMax c) := by
      simp [stepF, h0]
    rw [hstep, ih _ _ (rangeMax_ne_zero hc) hv']
    rw [tailLims_cons]
    by_cases hg : (next lastend != rangeMin c) = true
    · rw [if_pos hg, if_pos hg]; simp
    · rw [if_neg hg, if_neg hg]; simp

theorem limits_nil (i : Nat) : cellUnionToIntervalLimits [] i = [] := rfl

theorem limits_cons (c : CellID) (rest : CU) (i : Nat) (hv : AllValid (c :: rest)) :
    cellUnionToIntervalLimits (c :: rest) i =
      { leaf := rangeMin c, typ := false, indices := [i] } :: tailLims i (rangeMax c) rest := by
  have hc : isValid c = true := hv c (List.mem_cons_self ..)
  have hv' : AllValid rest := fun x hx => hv x (List.mem_cons_of_mem _ hx)
  rw [limits_eq_fold]
  have hne : (c :: rest).isEmpty = false := rfl
  rw [hne, List.foldl_cons]
  have hstep : stepF i (([] : List Limit), (0 : CellID)) c =
      ([({ leaf := rangeMin c, typ := false, indices := [i] } : Limit)], rangeMax c) := by
    simp [stepF]
  rw [hstep]
  simp only [Bool.false_eq_true, if_false]
  rw [fold_tailLims i rest _ _ (rangeMax_ne_zero hc) hv']
  simp

/-! ### coverage of a sorted union, head and tail -/

theorem covers_cons (p : CellID) (rest : CU) (x : Nat) :
    Covers (p :: rest) x ↔ (lo p ≤ x ∧ x ≤ hi p) ∨ Covers rest x := by
  unfold Covers
  simp [List.mem_cons]

theorem covers_tail_gt {p : CellID} {rest : CU} (hs : Sorted (p :: rest)) {x : Nat}
    (h : Covers rest x) : hi p < x := by
  obtain ⟨d, hd, h1, _⟩ := h
  have := (List.pairwise_cons.mp hs).1 d hd
  omega

theorem valid_tail {p : CellID} {rest : CU} (hv : AllValid (p :: rest)) : AllValid rest :=
  fun x hx => hv x (List.mem_cons_of_mem _ hx)

theorem sorted_tail {p : CellID} {rest : CU} (hs : Sorted (p :: rest)) : Sorted rest :=
  (List.pairwise_cons.mp hs).2

/-! ### the limits after the first start limit -/

theorem tail_sound (i : Nat) : ∀ (rest : CU) (p : CellID), AllValid (p :: rest) → Sorted (p :: rest) →
    ∀ l ∈ tailLims i (rangeMax p) rest,
      l.indices = [i] ∧ l.leaf.toNat % 2 = 1 ∧ l.leaf.toNat < 6 * 2^61 ∧
      Covers (p :: rest) l.leaf.toNat ∧
      (l.typ = false → hi p + 2 < l.leaf.toNat ∧ ¬ Covers (p :: rest) (l.leaf.toNat - 2)) ∧
      (l.typ = true → ¬ Covers (p :: rest) (l.leaf.toNat + 2)) := by
  intro rest
  induction rest with
  | nil =>
    intro p hv hs l hl
    have hp : isValid p = true := hv p (List.mem_cons_self ..)
    have f := valid_facts hp
    have hlt := valid_hi_lt hp
    simp only [tailLims, List.mem_singleton] at hl
    subst hl
    refine ⟨rfl, f.2.1, hlt, ?_, fun h => by simp at h, fun _ => ?_⟩
    · rw [covers_cons]; left; show lo p ≤ hi p ∧ hi p ≤ hi p; omega
    · rw [covers_cons]
      rintro (h | ⟨d, hd, _⟩)
      · have : hi p + 2 ≤ hi p := h.2
        omega
      · simp at hd
  | cons c rest ih =>
    intro p hv hs l hl
    have hp : isValid p = true := hv p (List.mem_cons_self ..)
    have hc : isValid c = true := hv c (by simp)
    have fp := valid_facts hp
    have fc := valid_facts hc
    have hpl := valid_hi_lt hp
    have hcl := valid_hi_lt hc
    have hpc : hi p < lo c := (List.pairwise_cons.mp hs).1 c (List.mem_cons_self ..)
    have hv' := valid_tail hv
    have hs' := sorted_tail hs
    have hgt : ∀ {x}, Covers (c :: rest) x → lo c ≤ x := by
      intro x hx
      rcases (covers_cons c rest x).mp hx with h | h
      · exact h.1
      · have := covers_tail_gt hs' h; omega
    rw [tailLims_cons] at hl
    rcases List.mem_append.mp hl with hl | hl
    · by_cases hg : (next (rangeMax p) != rangeMin c) = true
      · rw [if_pos hg] at hl
        have hgap := (gap_iff c hp).mp hg
        simp only [List.mem_cons, List.mem_nil_iff, or_false] at hl
        rcases hl with rfl | rfl
        · refine ⟨rfl, fp.2.1, hpl, ?_, fun h => by simp at h, fun _ => ?_⟩
          · rw [covers_cons]; left; show lo p ≤ hi p ∧ hi p ≤ hi p; omega
          · rw [covers_cons]
            rintro (h | h)
            · have : hi p + 2 ≤ hi p := h.2
              omega
            · have : lo c ≤ hi p + 2 := hgt h
              omega
        · refine ⟨rfl, fc.1, by show lo c < _; omega, ?_, fun _ => ⟨by show hi p + 2 < lo c; omega, ?_⟩,
            fun h => by simp at h⟩
          · rw [covers_cons, covers_cons]; right; left; show lo c ≤ lo c ∧ lo c ≤ hi c; omega
          · rw [covers_cons]
            rintro (h | h)
            · have : lo c - 2 ≤ hi p := h.2
              omega
            · have : lo c ≤ lo c - 2 := hgt h
              omega
      · rw [if_neg hg] at hl; simp at hl
    · obtain ⟨h1, h2, h3, h4, h5, h6⟩ := ih c hv' hs' l hl
      have h4' := hgt h4
      refine ⟨h1, h2, h3, (covers_cons p _ _).mpr (Or.inr h4), fun ht => ?_, fun ht => ?_⟩
      · obtain ⟨a, b⟩ := h5 ht
        refine ⟨by omega, ?_⟩
        rw [covers_cons]
        rintro (h | h)
        · have : l.leaf.toNat - 2 ≤ hi p := h.2
          omega
        · exact b h
      · rw [covers_cons]
        rintro (h | h)
        · have : l.leaf.toNat + 2 ≤ hi p := h.2
          omega
        · exact h6 ht h

theorem tail_complete (i : Nat) : ∀ (rest : CU) (p : CellID), AllValid (p :: rest) → Sorted (p :: rest) →
    ∀ x, x % 2 = 1 → Covers (p :: rest) x →
      (¬ Covers (p :: rest) (x + 2) →
        ∃ l ∈ tailLims i (rangeMax p) rest, l.leaf.toNat = x ∧ l.typ = true) ∧
      (¬ Covers (p :: rest) (x - 2) → x ≠ lo p →
        ∃ l ∈ tailLims i (rangeMax p) rest, l.leaf.toNat = x ∧ l.typ = false) := by
  intro rest
  induction rest with
  | nil =>
    intro p hv hs x hx hcov
    have hp : isValid p = true := hv p (List.mem_cons_self ..)
    have f := valid_facts hp
    have hin : lo p ≤ x ∧ x ≤ hi p := by
      rcases (covers_cons p [] x).mp hcov with h | ⟨d, hd, _⟩
      · exact h
      · simp at hd
    constructor
    · intro hn
      refine ⟨{ leaf := rangeMax p, typ := true, indices := [i] }, by simp [tailLims], ?_, rfl⟩
      show hi p = x
      have : ¬ (lo p ≤ x + 2 ∧ x + 2 ≤ hi p) := fun h => hn ((covers_cons p [] _).mpr (Or.inl h))
      omega
    · intro hn hne
      exfalso
      have : ¬ (lo p ≤ x - 2 ∧ x - 2 ≤ hi p) := fun h => hn ((covers_cons p [] _).mpr (Or.inl h))
      omega
  | cons c rest ih =>
    intro p hv hs x hx hcov
    have hp : isValid p = true := hv p (List.mem_cons_self ..)
    have hc : isValid c = true := hv c (by simp)
    have fp := valid_facts hp
    have fc := valid_facts hc
    have hpc : hi p < lo c := (List.pairwise_cons.mp hs).1 c (List.mem_cons_self ..)
    have hv' := valid_tail hv
    have hs' := sorted_tail hs
    have hcc : Covers (c :: rest) (lo c) :=
      (covers_cons c rest _).mpr (Or.inl (by show lo c ≤ lo c ∧ lo c ≤ hi c; omega))
    rcases (covers_cons p (c :: rest) x).mp hcov with hin | hcr
    · constructor
      · intro hn
        have hn1 : ¬ (lo p ≤ x + 2 ∧ x + 2 ≤ hi p) := fun h => hn ((covers_cons p _ _).mpr (Or.inl h))
        have hn2 : ¬ Covers (c :: rest) (x + 2) := fun h => hn ((covers_cons p _ _).mpr (Or.inr h))
        have hxe : hi p = x := by omega
        have hgap : hi p + 2 ≠ lo c := by
          intro h; apply hn2; rw [← hxe, h]; exact hcc
        have hg := (gap_iff c hp).mpr hgap
        refine ⟨{ leaf := rangeMax p, typ := true, indices := [i] }, ?_, hxe, rfl⟩
        rw [tailLims_cons]
        rw [if_pos hg]
        simp
      · intro hn hne
        exfalso
        have : ¬ (lo p ≤ x - 2 ∧ x - 2 ≤ hi p) := fun h => hn ((covers_cons p _ _).mpr (Or.inl h))
        omega
    · obtain ⟨ie, is⟩ := ih c hv' hs' x hx hcr
      have hxc : hi p < x := covers_tail_gt hs hcr
      constructor
      · intro hn
        have hn2 : ¬ Covers (c :: rest) (x + 2) := fun h => hn ((covers_cons p _ _).mpr (Or.inr h))
        obtain ⟨l, hl, r⟩ := ie hn2
        refine ⟨l, ?_, r⟩
        rw [tailLims_cons]
        exact List.mem_append.mpr (Or.inr hl)
      · intro hn _
        have hn1 : ¬ (lo p ≤ x - 2 ∧ x - 2 ≤ hi p) := fun h => hn ((covers_cons p _ _).mpr (Or.inl h))
        have hn2 : ¬ Covers (c :: rest) (x - 2) := fun h => hn ((covers_cons p _ _).mpr (Or.inr h))
        by_cases hxl : x = lo c
        · have hgap : hi p + 2 ≠ lo c := by omega
          have hg := (gap_iff c hp).mpr hgap
          refine ⟨{ leaf := rangeMin c, typ := false, indices := [i] }, ?_, hxl.symm, rfl⟩
          rw [tailLims_cons]
          rw [if_pos hg]
          simp
        · obtain ⟨l, hl, r⟩ := is hn2 hxl
          refine ⟨l, ?_, r⟩
          rw [tailLims_cons]
          exact List.mem_append.mpr (Or.inr hl)

/-! ### main theorems -/

/-- every produced limit is a boundary event: a start limit sits on a covered leaf whose predecessor
    leaf is not covered, an end limit on a covered leaf whose successor leaf is not covered -/
theorem limits_sound (cu : CU) (i : Nat) (hv : AllValid cu) (hs : Sorted cu) :
    ∀ l ∈ cellUnionToIntervalLimits cu i,
      l.indices = [i] ∧ l.leaf.toNat % 2 = 1 ∧ l.leaf.toNat < 6 * 2^61 ∧
      coversLeaf cu l.leaf.toNat = true ∧
      (l.typ = false → coversLeaf cu (l.leaf.toNat - 2) = false) ∧
      (l.typ = true → coversLeaf cu (l.leaf.toNat + 2) = false) := by
  cases cu with
  | nil => intro l hl; rw [limits_nil] at hl; simp at hl
  | cons c rest =>
    intro l hl
    rw [limits_cons c rest i hv] at hl
    have hc : isValid c = true := hv c (List.mem_cons_self ..)
    have fc := valid_facts hc
    have hcl := valid_hi_lt hc
    simp only [coversLeaf_false_iff, coversLeaf_iff]
    rcases List.mem_cons.mp hl with rfl | hl
    · refine ⟨rfl, fc.1, by show lo c < _; omega, ?_, fun _ => ?_, fun h => by simp at h⟩
      · rw [covers_cons]; left; show lo c ≤ lo c ∧ lo c ≤ hi c; omega
      · rw [covers_cons]
        rintro (h | h)
        · have : lo c ≤ lo c - 2 := h.1
          omega
        · have : hi c < lo c - 2 := covers_tail_gt hs h
          omega
    · obtain ⟨h1, h2, h3, h4, h5, h6⟩ := tail_sound i rest c hv hs l hl
      exact ⟨h1, h2, h3, h4, fun ht => (h5 ht).2, h6⟩

example : AllValid [0x0400000000000000, 0x1400000000000000] ∧ Sorted [0x0400000000000000, 0x1400000000000000] :=
  (isValidCU_iff _).mp (by decide)

/-- non-vacuity of the hypotheses of the helper lemmas above (`isValid c`, `AllValid (p :: rest)`,
    `Sorted (p :: rest)`, a gap between neighbours, a non-zero `lastend`) -/
example : isValid (0x0400000000000000 : CellID) = true ∧ rangeMax (0x0400000000000000 : CellID) ≠ 0 ∧
    (next (rangeMax (0x0400000000000000 : CellID)) != rangeMin (0x1400000000000000 : CellID)) = true ∧
    cellUnionToIntervalLimits [0x0400000000000000, 0x0c00000000000000, 0x1c00000000000000] 7 =
      [⟨1, false, [7]⟩, ⟨0x0fffffffffffffff, true, [7]⟩, ⟨0x1800000000000001, false, [7]⟩,
       ⟨0x1fffffffffffffff, true, [7]⟩] := by decide

/-- every boundary event has its limit -/
theorem limits_complete (cu : CU) (i : Nat) (hv : AllValid cu) (hs : Sorted cu) :
    ∀ x, x % 2 = 1 → coversLeaf cu x = true →
      (coversLeaf cu (x - 2) = false → ∃ l ∈ cellUnionToIntervalLimits cu i, l.leaf.toNat = x ∧ l.typ = false) ∧
      (coversLeaf cu (x + 2) = false → ∃ l ∈ cellUnionToIntervalLimits cu i, l.leaf.toNat = x ∧ l.typ = true) := by
  cases cu with
  | nil => intro x _ hc; simp [coversLeaf] at hc
  | cons c rest =>
    intro x hx hcov
    rw [limits_cons c rest i hv]
    simp only [coversLeaf_false_iff, coversLeaf_iff] at hcov ⊢
    obtain ⟨ie, is⟩ := tail_complete i rest c hv hs x hx hcov
    constructor
    · intro hn
      by_cases hxl : x = lo c
      · exact ⟨_, List.mem_cons_self .., hxl.symm, rfl⟩
      · obtain ⟨l, hl, r⟩ := is hn hxl
        exact ⟨l, List.mem_cons_of_mem _ hl, r⟩
    · intro hn
      obtain ⟨l, hl, r⟩ := ie hn
      exact ⟨l, List.mem_cons_of_mem _ hl, r⟩

example : AllValid [0x0400000000000000, 0x1400000000000000] ∧ Sorted [0x0400000000000000, 0x1400000000000000] :=
  (isValidCU_iff _).mp (by decide)

end S2Proofs.FindP
