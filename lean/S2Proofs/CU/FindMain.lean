/-
  S2Proofs.CU.FindMain — assembly: `S2.Intersect.find` is correct in leaf-set semantics
  (the statement `S2Proofs.C11.Find_correct`; tied to that name in `FindFinal.lean`).
-/
import S2Proofs.CU.FindPre
import S2Proofs.CU.FindSweep
import S2Proofs.CU.FindLimits
import S2Proofs.CU.FindCollapse
import S2Proofs.CU.FindGroup
open S2 S2.CellID S2.CellUnion S2.Intersect
namespace S2Proofs.FindP

/-! ### coverage outside the leaf positions -/

theorem coversLeaf_zero (cu : CU) (hv : AllValid cu) : coversLeaf cu 0 = false := by
  rw [coversLeaf_false_iff]
  rintro ⟨c, hc, h1, _⟩
  have := valid_facts (hv c hc)
  omega

theorem coversLeaf_big (cu : CU) (hv : AllValid cu) (x : Nat) (h : 6 * 2^61 ≤ x) :
    coversLeaf cu x = false := by
  rw [coversLeaf_false_iff]
  rintro ⟨c, hc, _, h2⟩
  have := valid_hi_lt (hv c hc)
  omega

example : AllValid [(0x0400000000000000 : CellID)] := ((isValidCU_iff _).mp (by decide)).1

/-! ### `gOf` -/

theorem gOf_zero (c : Nat → Bool) (h0 : c 0 = false) : gOf c 0 = false := by simp [gOf, h0]

theorem gOf_fin (c : Nat → Bool) (hb : ∀ x, 6 * 2^61 ≤ x → c x = false) (τ : Nat)
    (h : 6 * 2^61 + 2 ≤ τ) : gOf c τ = false := by
  unfold gOf; split
  · exact hb _ (by omega)
  · rw [hb τ (by omega)]; simp

theorem gOf_odd (c : Nat → Bool) (τ : Nat) (h : τ % 2 = 1) (h1 : gOf c τ = true) :
    gOf c (τ - 1) = true := by
  unfold gOf at *
  rw [if_neg (by omega)] at h1; rw [if_pos (by omega)]
  have : τ - 1 - 1 = τ - 2 := by omega
  rw [this]; simp at h1; exact h1.1

theorem gOf_even (c : Nat → Bool) (τ : Nat) (h : τ % 2 = 0) (h1 : gOf c (τ - 1) = true) :
    gOf c τ = true := by
  by_cases h0 : τ = 0
  · subst h0; exact h1
  · unfold gOf at *
    rw [if_neg (by omega)] at h1; rw [if_pos h]
    simp at h1; exact h1.2

theorem gOf_const_false (τ : Nat) : gOf (fun _ => false) τ = false := by
  unfold gOf; split <;> simp

theorem gOf_even_eq (c : Nat → Bool) (x : Nat) (hx : x % 2 = 1) : gOf c (x + 1) = c x := by
  unfold gOf; rw [if_pos (by omega)]; rfl

theorem gOf_odd_eq (c : Nat → Bool) (x : Nat) (hx : x % 2 = 1) : gOf c x = (c (x - 2) && c x) := by
  unfold gOf; rw [if_neg (by omega)]

/-! ### limits of one union = changes of its `g` -/

theorem code_eq_iff (a b : Limit) (ha : a.leaf.toNat % 2 = 1) (hb : b.leaf.toNat % 2 = 1) :
    code a = code b ↔ a.leaf = b.leaf ∧ a.typ = b.typ := by
  unfold code
  constructor
  · intro h
    cases h1 : a.typ <;> cases h2 : b.typ <;> simp [h1, h2] at h ⊢ <;>
      first | (exact UInt64.toNat_inj.mp (by omega)) | omega
  · rintro ⟨h1, h2⟩; rw [h1, h2]

example : (({ leaf := 5, typ := false, indices := [0] } : Limit).leaf.toNat % 2 = 1) := by decide

theorem limit_change (N : CU) (i : Nat) (hv : AllValid N) (hs : Sorted N) (l : Limit)
    (hl : l ∈ cellUnionToIntervalLimits N i) :
    gOf (coversLeaf N) (code l - 1) ≠ gOf (coversLeaf N) (code l) := by
  obtain ⟨_, hodd, _, hc, h1, h2⟩ := limits_sound N i hv hs l hl
  cases ht : l.typ
  · have e : code l = l.leaf.toNat + 1 := by
      show l.leaf.toNat + 1 + (if l.typ then 1 else 0) = _
      rw [ht]; rfl
    rw [e, Nat.add_sub_cancel, gOf_even_eq _ _ hodd, gOf_odd_eq _ _ hodd, hc, h1 ht]
    simp
  · have e : code l = (l.leaf.toNat + 2 - 1) + 1 := by
      show l.leaf.toNat + 1 + (if l.typ then 1 else 0) = _
      rw [ht]; rfl
    have e2 : l.leaf.toNat + 2 - 1 = l.leaf.toNat + 1 := by omega
    have e3 : l.leaf.toNat + 1 + 1 = l.leaf.toNat + 2 := by omega
    rw [e, Nat.add_sub_cancel, e2, gOf_even_eq _ _ hodd, e3, gOf_odd_eq _ _ (by omega),
      Nat.add_sub_cancel, hc, h2 ht]
    simp

theorem change_limit (N : CU) (i : Nat) (hv : AllValid N) (hs : Sorted N) (τ : Nat)
    (h : gOf (coversLeaf N) (τ - 1) ≠ gOf (coversLeaf N) τ) :
    ∃ l ∈ cellUnionToIntervalLimits N i, code l = τ := by
  have h0 := coversLeaf_zero N hv
  rcases Nat.mod_two_eq_zero_or_one τ with hp | hp
  · by_cases hτ : τ = 0
    · subst hτ; exact absurd rfl h
    · have e : τ = (τ - 1) + 1 := by omega
      have hx : (τ - 1) % 2 = 1 := by omega
      rw [e, Nat.add_sub_cancel, gOf_even_eq _ _ hx, gOf_odd_eq _ _ hx] at h
      clear e
      have hc : coversLeaf N (τ - 1) = true ∧ coversLeaf N (τ - 1 - 2) = false := by
        cases h1 : coversLeaf N (τ - 1) <;> cases h2 : coversLeaf N (τ - 1 - 2) <;> simp_all
      obtain ⟨l, hl, hleaf, ht⟩ := (limits_complete N i hv hs (τ - 1) hx hc.1).1 hc.2
      refine ⟨l, hl, ?_⟩
      unfold code; rw [hleaf, ht]; simp; omega
  · rw [gOf_odd_eq _ _ hp] at h
    have e : τ - 1 = (τ - 2) + 1 := by
      have : τ ≠ 1 := by
        rintro rfl
        rw [gOf_zero _ h0] at h; simp [h0] at h
      omega
    have hx : (τ - 2) % 2 = 1 := by omega
    rw [e, gOf_even_eq _ _ hx] at h
    clear e
    have hc : coversLeaf N (τ - 2) = true ∧ coversLeaf N τ = false := by
      cases h1 : coversLeaf N (τ - 2) <;> cases h2 : coversLeaf N τ <;> simp_all
    have e2 : τ - 2 + 2 = τ := by omega
    obtain ⟨l, hl, hleaf, ht⟩ := (limits_complete N i hv hs (τ - 2) hx hc.1).2 (by rw [e2]; exact hc.2)
    refine ⟨l, hl, ?_⟩
    unfold code; rw [hleaf, ht]; simp; omega

example : AllValid [(0x0400000000000000 : CellID), 0x1400000000000000] ∧
    Sorted [(0x0400000000000000 : CellID), 0x1400000000000000] :=
  (isValidCU_iff _).mp (by decide)

/-! ### the instance of the sweep hypotheses for `find` -/

/-- coverage of the (normalized) union number `i` -/
def cAt (cus : List CU) (i x : Nat) : Bool := coversLeaf (normalize (cus[i]?.getD [])) x
def gAt (cus : List CU) (i τ : Nat) : Bool := gOf (cAt cus i) τ
def covAt (cus : List CU) (τ : Nat) : List Nat :=
  (cus.zipIdx.filter fun p => gOf (coversLeaf (normalize p.1)) τ).map (·.2)
def allLims (cus : List CU) : List Limit :=
  (cus.zipIdx.map fun (cu, i) => cellUnionToIntervalLimits (normalize cu) i).flatten

theorem normalize_nil : normalize [] = [] := by
  simp [normalize, sortIDs, normalizeSorted]

theorem gAt_some {cus : List CU} {i : Nat} {cu : CU} (h : cus[i]? = some cu) (τ : Nat) :
    gAt cus i τ = gOf (coversLeaf (normalize cu)) τ := by
  unfold gAt cAt; rw [h]; rfl

theorem gAt_none {cus : List CU} {i : Nat} (h : cus[i]? = none) (τ : Nat) : gAt cus i τ = false := by
  unfold gAt cAt; rw [h]
  have : (fun x => coversLeaf (normalize ((none : Option CU).getD [])) x) = fun _ => false := by
    funext x; simp [normalize_nil, coversLeaf]
  rw [this]; exact gOf_const_false τ

theorem mem_of_getElem? {cus : List CU} {i : Nat} {cu : CU} (h : cus[i]? = some cu) : cu ∈ cus :=
  List.mem_of_getElem? h

theorem covAt_eq (cus : List CU) (hv : ∀ cu ∈ cus, AllValid cu) (x : Nat) (hx : x % 2 = 1) :
    covAt cus (x + 1) = coveringAt cus x := by
  unfold covAt coveringAt
  congr 1
  apply List.filter_congr
  rintro ⟨cu, i⟩ hp
  have hm : cu ∈ cus := mem_of_getElem? (List.mem_zipIdx_iff_getElem?.mp hp)
  simp only
  rw [gOf_even_eq _ _ hx]
  exact normalize_leaves' cu (hv cu hm) x hx

theorem mem_allLims (cus : List CU) (l : Limit) :
    l ∈ allLims cus ↔ ∃ i cu, cus[i]? = some cu ∧ l ∈ cellUnionToIntervalLimits (normalize cu) i := by
  unfold allLims
  rw [List.mem_flatten]
  constructor
  · rintro ⟨L, hL, hl⟩
    obtain ⟨⟨cu, i⟩, hp, rfl⟩ := List.mem_map.mp hL
    exact ⟨i, cu, List.mem_zipIdx_iff_getElem?.mp hp, hl⟩
  · rintro ⟨i, cu, h, hl⟩
    exact ⟨_, List.mem_map.mpr ⟨(cu, i), List.mem_zipIdx_iff_getElem?.mpr h, rfl⟩, hl⟩

theorem gHyp (cus : List CU) (hv : ∀ cu ∈ cus, AllValid cu) : GHyp (gAt cus) (covAt cus) := by
  have hvN : ∀ i : Nat, AllValid (normalize (cus[i]?.getD [])) := by
    intro i
    refine (normalize_valid_sorted _ ?_).1
    cases h : cus[i]? with
    | none => intro c hc; simp at hc
    | some cu => exact hv cu (mem_of_getElem? h)
  refine ⟨fun i => gOf_zero _ (coversLeaf_zero _ (hvN i)), ⟨6 * 2^61 + 2, fun i τ h => ?_⟩,
    fun i τ => gOf_odd _ τ, fun i τ => gOf_even _ τ, fun τ => ?_, fun τ i => ?_⟩
  · exact gOf_fin _ (fun x hx => coversLeaf_big _ (hvN i) x hx) τ h
  · unfold covAt
    have hsub : ((cus.zipIdx.filter fun p => gOf (coversLeaf (normalize p.1)) τ).map (·.2)).Sublist
        (cus.zipIdx.map (·.2)) := List.Sublist.map _ List.filter_sublist
    have e : cus.zipIdx.map (·.2) = List.range' 0 cus.length := List.zipIdx_map_snd 0 cus
    rw [e] at hsub
    exact List.Pairwise.sublist hsub (List.pairwise_lt_range' 1)
  · unfold covAt
    rw [List.mem_map]
    constructor
    · rintro ⟨⟨cu, j⟩, hp, rfl⟩
      obtain ⟨hp1, hp2⟩ := List.mem_filter.mp hp
      rw [gAt_some (List.mem_zipIdx_iff_getElem?.mp hp1)]
      exact hp2
    · intro h
      cases hc : cus[i]? with
      | none => rw [gAt_none hc] at h; exact absurd h (by simp)
      | some cu =>
        rw [gAt_some hc] at h
        exact ⟨(cu, i), List.mem_filter.mpr ⟨List.mem_zipIdx_iff_getElem?.mpr hc, h⟩, rfl⟩

example : ∀ cu ∈ [[(0x0400000000000000 : CellID)], [0x1000000000000000]], AllValid cu := by
  intro cu hcu
  simp only [List.mem_cons, List.not_mem_nil, or_false] at hcu
  rcases hcu with rfl | rfl <;> exact ((isValidCU_iff _).mp (by decide)).1

theorem sufOK (cus : List CU) (hv : ∀ cu ∈ cus, AllValid cu) :
    SufOK (gAt cus) 0 (collapseLimits (allLims cus)) := by
  obtain ⟨c1, c2, c3, c4⟩ := collapse_spec (allLims cus)
  -- facts about the normalized unions
  have hN : ∀ {i : Nat} {cu : CU}, cus[i]? = some cu → AllValid (normalize cu) ∧ Sorted (normalize cu) := by
    intro i cu h
    exact normalize_valid_sorted cu (hv cu (mem_of_getElem? h))
  have hodd' : ∀ l' ∈ allLims cus, l'.leaf.toNat % 2 = 1 ∧ l'.leaf.toNat < 6 * 2^61 := by
    intro l' hl'
    obtain ⟨i, cu, h, hl⟩ := (mem_allLims cus l').mp hl'
    obtain ⟨_, a, b, _⟩ := limits_sound _ i (hN h).1 (hN h).2 l' hl
    exact ⟨a, b⟩
  have hodd : ∀ l ∈ collapseLimits (allLims cus), l.leaf.toNat % 2 = 1 ∧ l.leaf.toNat < 6 * 2^61 := by
    intro l hl
    obtain ⟨l', hl', e1, _⟩ := c4 l hl
    rw [← e1]; exact hodd' l' hl'
  refine ⟨?_, ?_, hodd, ?_, ?_⟩
  · refine c1.imp_of_mem ?_
    intro a b ha hb hab
    have h1 := (hodd a ha).1
    have h2 := (hodd b hb).1
    unfold key2 at hab; unfold code
    cases hta : a.typ <;> cases htb : b.typ <;> simp [hta, htb] at hab ⊢ <;> omega
  · intro l _; unfold code; omega
  · intro l hl i
    rw [c2 l hl i]
    constructor
    · rintro ⟨l', hl', e1, e2, hi⟩
      obtain ⟨j, cu, h, hlj⟩ := (mem_allLims cus l').mp hl'
      obtain ⟨hidx, _⟩ := limits_sound _ j (hN h).1 (hN h).2 l' hlj
      rw [hidx] at hi
      have hij : i = j := by simpa using hi
      subst hij
      have hcode : code l' = code l := by unfold code; rw [e1, e2]
      have := limit_change _ i (hN h).1 (hN h).2 l' hlj
      rw [hcode] at this
      rw [gAt_some h, gAt_some h]; exact this
    · intro hch
      cases hc : cus[i]? with
      | none => rw [gAt_none hc, gAt_none hc] at hch; exact absurd rfl hch
      | some cu =>
        rw [gAt_some hc, gAt_some hc] at hch
        obtain ⟨l', hl', hcode⟩ := change_limit _ i (hN hc).1 (hN hc).2 _ hch
        have hmem : l' ∈ allLims cus := (mem_allLims cus l').mpr ⟨i, cu, hc, hl'⟩
        obtain ⟨hidx, _⟩ := limits_sound _ i (hN hc).1 (hN hc).2 l' hl'
        obtain ⟨e1, e2⟩ := (code_eq_iff l' l (hodd' l' hmem).1 (hodd l hl).1).mp hcode
        exact ⟨l', hmem, e1, e2, by rw [hidx]; simp⟩
  · intro i τ _ hch
    cases hc : cus[i]? with
    | none => rw [gAt_none hc, gAt_none hc] at hch; exact absurd rfl hch
    | some cu =>
      rw [gAt_some hc, gAt_some hc] at hch
      obtain ⟨l', hl', hcode⟩ := change_limit _ i (hN hc).1 (hN hc).2 _ hch
      have hmem : l' ∈ allLims cus := (mem_allLims cus l').mpr ⟨i, cu, hc, hl'⟩
      obtain ⟨l, hl, e1, e2⟩ := c3 l' hmem
      refine ⟨l, hl, ?_⟩
      rw [← hcode]; unfold code; rw [e1, e2]

theorem cellUnionsToOverlaps_eq (cus : List CU) :
    cellUnionsToOverlaps cus = intervalOverlaps (collapseLimits (allLims cus)) := by
  unfold cellUnionsToOverlaps
  show (if (allLims cus).isEmpty then [] else intervalOverlaps (collapseLimits (allLims cus))) = _
  split
  · rename_i h
    have : allLims cus = [] := by simpa using h
    rw [this]
    simp [collapseLimits, collapseSorted, intervalOverlaps]
  · rfl

/-- all emitted overlaps are good, and every leaf covered by ≥ 2 unions lies in one -/
theorem overlaps_spec (cus : List CU) (hv : ∀ cu ∈ cus, AllValid cu) :
    (∀ o ∈ cellUnionsToOverlaps cus, GoodOv (covAt cus) o) ∧
    ∀ x, x % 2 = 1 → 2 ≤ (coveringAt cus x).length →
      ∃ o ∈ cellUnionsToOverlaps cus, o.start.toNat ≤ x ∧ x < (next o.«end»).toNat := by
  rw [cellUnionsToOverlaps_eq]
  obtain ⟨h1, h2⟩ := sweep_spec (gHyp cus hv) _ (sufOK cus hv)
  refine ⟨h1, fun x hx hc => h2 x hx ?_⟩
  rw [covAt_eq cus hv x hx]; exact hc

/-- the tiles of a good overlap cover exactly its leaves, and are valid cells -/
theorem tiles_spec {cov : Nat → List Nat} {o : Overlap} (h : GoodOv cov o) :
    isNormalizedCU (tiles o) = true ∧
      ∀ n, n % 2 = 1 → (coversLeaf (tiles o) n = true ↔ o.start.toNat ≤ n ∧ n < (next o.«end»).toNat) :=
  fromRange_tiles' o.start (next o.«end») ⟨h.2.1, h.2.2.1, h.2.2.2.1, h.2.2.2.2.1⟩

/-- **`Find` is correct** (this is literally `S2Proofs.C11.Find_correct` for one `cus`, see
    `FindFinal.lean`): for unions of valid cells, every result entry has ≥ 2 indices; a leaf covered by
    an entry with index list `S` has `S = coveringAt cus x` (the list of ALL unions covering it); every
    leaf covered by ≥ 2 unions is covered by the entry whose index list is exactly its covering list. -/
theorem find_correct_stmt (cus : List CU) (hv : ∀ cu ∈ cus, ∀ c ∈ cu, isValid c = true) :
    (∀ r ∈ Intersect.find cus, 2 ≤ r.indices.length) ∧
    ∀ x, x % 2 = 1 →
      (∀ r ∈ Intersect.find cus, (coversLeaf r.cells x = true → r.indices = Intersect.coveringAt cus x)) ∧
      (2 ≤ (Intersect.coveringAt cus x).length →
        ∃ r ∈ Intersect.find cus, r.indices = Intersect.coveringAt cus x ∧ coversLeaf r.cells x = true) := by
  have hv' : ∀ cu ∈ cus, AllValid cu := hv
  obtain ⟨hgood, hcompl⟩ := overlaps_spec cus hv'
  obtain ⟨g1, g2, _⟩ := group_spec (cellUnionsToOverlaps cus)
  -- cells assembled from tiles of good overlaps are valid
  have hvalid : ∀ (cells : CU) (idx : List Nat),
      (∀ c ∈ cells, ∃ o ∈ cellUnionsToOverlaps cus, o.indices = idx ∧ c ∈ tiles o) → AllValid cells := by
    intro cells idx h c hc
    obtain ⟨o, ho, _, hco⟩ := h c hc
    exact ((isNormalizedCU_iff _).mp (tiles_spec (hgood o ho)).1).1 c hco
  refine ⟨fun r hr => ?_, fun x hx => ⟨fun r hr hcov => ?_, fun hlen => ?_⟩⟩
  · obtain ⟨cells, _, ⟨o, ho, e⟩, _⟩ := g1 r hr
    rw [← e]; exact (hgood o ho).1
  · obtain ⟨cells, hcells, _, hall⟩ := g1 r hr
    have hvc := hvalid cells r.indices hall
    rw [hcells, normalize_leaves' cells hvc x hx] at hcov
    obtain ⟨c, hc, h1, h2⟩ := (coversLeaf_iff cells x).mp hcov
    obtain ⟨o, ho, e, hco⟩ := hall c hc
    have hg := hgood o ho
    have hcv : coversLeaf (tiles o) x = true := (coversLeaf_iff _ x).mpr ⟨c, hco, h1, h2⟩
    obtain ⟨a, b⟩ := ((tiles_spec hg).2 x hx).mp hcv
    rw [← e, hg.2.2.2.2.2.1 x hx a b, covAt_eq cus hv' x hx]
  · obtain ⟨o, ho, a, b⟩ := hcompl x hx hlen
    have hg := hgood o ho
    obtain ⟨cells, hmem, hsub, hall⟩ := g2 o ho
    refine ⟨_, hmem, ?_, ?_⟩
    · show o.indices = _
      rw [hg.2.2.2.2.2.1 x hx a b, covAt_eq cus hv' x hx]
    · show coversLeaf (normalize cells) x = true
      have hvc := hvalid cells o.indices hall
      rw [normalize_leaves' cells hvc x hx]
      have hcv : coversLeaf (tiles o) x = true := ((tiles_spec hg).2 x hx).mpr ⟨a, b⟩
      obtain ⟨c, hc, h1, h2⟩ := (coversLeaf_iff _ x).mp hcv
      exact (coversLeaf_iff _ x).mpr ⟨c, hsub c hc, h1, h2⟩

end S2Proofs.FindP
