/-
  S2Proofs.CU.FindGroup — `overlapsToIntersections`: group the overlaps by index list.
-/
import S2Proofs.CU.FindDefs
open S2 S2.CellID S2.CellUnion S2.Intersect
namespace S2Proofs.FindP

theorem addOverlap_cons_pos (o : Overlap) (i : Intersection) (rest : List Intersection)
    (h : i.indices = o.indices) :
    addOverlap o (i :: rest) = { i with cells := i.cells ++ tiles o } :: rest := by
  have hb : (i.indices == o.indices) = true := by simpa using h
  unfold addOverlap
  rw [if_pos hb]

theorem addOverlap_cons_neg (o : Overlap) (i : Intersection) (rest : List Intersection)
    (h : ¬ i.indices = o.indices) :
    addOverlap o (i :: rest) = i :: addOverlap o rest := by
  have hb : ¬ (i.indices == o.indices) = true := by simpa using h
  conv => lhs; unfold addOverlap
  rw [if_neg hb]

theorem addOverlap_mem (o : Overlap) (s : List Intersection) :
    ∀ e' ∈ addOverlap o s, e' ∈ s ∨ (e'.indices = o.indices ∧
      ∀ c ∈ e'.cells, c ∈ tiles o ∨ ∃ e ∈ s, e.indices = o.indices ∧ c ∈ e.cells) := by
  induction s with
  | nil =>
    intro e' he'
    simp only [addOverlap, List.mem_singleton] at he'
    subst he'
    exact Or.inr ⟨rfl, fun c hc => Or.inl hc⟩
  | cons i rest ih =>
    intro e' he'
    by_cases h : i.indices = o.indices
    · rw [addOverlap_cons_pos o i rest h, List.mem_cons] at he'
      rcases he' with rfl | he'
      · refine Or.inr ⟨h, fun c hc => ?_⟩
        rcases List.mem_append.1 hc with hc | hc
        · exact Or.inr ⟨i, List.mem_cons_self, h, hc⟩
        · exact Or.inl hc
      · exact Or.inl (List.mem_cons_of_mem _ he')
    · rw [addOverlap_cons_neg o i rest h, List.mem_cons] at he'
      rcases he' with rfl | he'
      · exact Or.inl List.mem_cons_self
      · rcases ih e' he' with h1 | ⟨h1, h2⟩
        · exact Or.inl (List.mem_cons_of_mem _ h1)
        · refine Or.inr ⟨h1, fun c hc => ?_⟩
          rcases h2 c hc with h3 | ⟨e, he, h3⟩
          · exact Or.inl h3
          · exact Or.inr ⟨e, List.mem_cons_of_mem _ he, h3⟩

theorem addOverlap_keep (o : Overlap) (s : List Intersection) :
    ∀ e ∈ s, ∃ e' ∈ addOverlap o s, e'.indices = e.indices ∧ ∀ c ∈ e.cells, c ∈ e'.cells := by
  induction s with
  | nil => intro e he; cases he
  | cons i rest ih =>
    intro e he
    rw [List.mem_cons] at he
    by_cases h : i.indices = o.indices
    · rw [addOverlap_cons_pos o i rest h]
      rcases he with rfl | he
      · exact ⟨_, List.mem_cons_self, rfl, fun c hc => List.mem_append_left _ hc⟩
      · exact ⟨e, List.mem_cons_of_mem _ he, rfl, fun c hc => hc⟩
    · rw [addOverlap_cons_neg o i rest h]
      rcases he with rfl | he
      · exact ⟨e, List.mem_cons_self, rfl, fun c hc => hc⟩
      · obtain ⟨e', he', h1, h2⟩ := ih e he
        exact ⟨e', List.mem_cons_of_mem _ he', h1, h2⟩

theorem addOverlap_new (o : Overlap) (s : List Intersection) :
    ∃ e' ∈ addOverlap o s, e'.indices = o.indices ∧ ∀ c ∈ tiles o, c ∈ e'.cells := by
  induction s with
  | nil => exact ⟨_, List.mem_singleton.2 rfl, rfl, fun c hc => hc⟩
  | cons i rest ih =>
    by_cases h : i.indices = o.indices
    · rw [addOverlap_cons_pos o i rest h]
      exact ⟨_, List.mem_cons_self, h, fun c hc => List.mem_append_right _ hc⟩
    · rw [addOverlap_cons_neg o i rest h]
      obtain ⟨e', he', h1, h2⟩ := ih
      exact ⟨e', List.mem_cons_of_mem _ he', h1, h2⟩

theorem addOverlap_pairwise (o : Overlap) (s : List Intersection)
    (hp : s.Pairwise (fun a b => a.indices ≠ b.indices)) :
    (addOverlap o s).Pairwise (fun a b => a.indices ≠ b.indices) := by
  induction s with
  | nil => simp [addOverlap]
  | cons i rest ih =>
    rw [List.pairwise_cons] at hp
    by_cases h : i.indices = o.indices
    · rw [addOverlap_cons_pos o i rest h]
      rw [List.pairwise_cons]
      exact ⟨fun b hb => hp.1 b hb, hp.2⟩
    · rw [addOverlap_cons_neg o i rest h]
      rw [List.pairwise_cons]
      refine ⟨fun b hb => ?_, ih hp.2⟩
      rcases addOverlap_mem o rest b hb with h1 | ⟨h1, _⟩
      · exact hp.1 b h1
      · rw [h1]; exact h

/-- the fold invariant -/
def GInv (P : List Overlap) (s : List Intersection) : Prop :=
  (∀ e ∈ s, (∃ o ∈ P, o.indices = e.indices) ∧
      ∀ c ∈ e.cells, ∃ o ∈ P, o.indices = e.indices ∧ c ∈ tiles o) ∧
  (∀ o ∈ P, ∃ e ∈ s, e.indices = o.indices ∧ ∀ c ∈ tiles o, c ∈ e.cells) ∧
  s.Pairwise (fun a b => a.indices ≠ b.indices)

theorem GInv_step (P : List Overlap) (s : List Intersection) (o : Overlap) (h : GInv P s) :
    GInv (P ++ [o]) (addOverlap o s) := by
  obtain ⟨h1, h2, h3⟩ := h
  refine ⟨?_, ?_, addOverlap_pairwise o s h3⟩
  · intro e' he'
    rcases addOverlap_mem o s e' he' with hs | ⟨hi, hc⟩
    · obtain ⟨⟨o', ho', e1⟩, e2⟩ := h1 e' hs
      refine ⟨⟨o', List.mem_append_left _ ho', e1⟩, fun c hc => ?_⟩
      obtain ⟨o'', ho'', e3⟩ := e2 c hc
      exact ⟨o'', List.mem_append_left _ ho'', e3⟩
    · refine ⟨⟨o, by simp, hi.symm⟩, fun c hcc => ?_⟩
      rcases hc c hcc with ht | ⟨e, he, hei, hce⟩
      · exact ⟨o, by simp, hi.symm, ht⟩
      · obtain ⟨o'', ho'', e3, e4⟩ := (h1 e he).2 c hce
        exact ⟨o'', List.mem_append_left _ ho'', by rw [e3, hei, hi], e4⟩
  · intro o' ho'
    rcases List.mem_append.1 ho' with ho' | ho'
    · obtain ⟨e, he, e1, e2⟩ := h2 o' ho'
      obtain ⟨e', he', e3, e4⟩ := addOverlap_keep o s e he
      exact ⟨e', he', e3.trans e1, fun c hc => e4 c (e2 c hc)⟩
    · rw [List.mem_singleton] at ho'
      subst ho'
      exact addOverlap_new o' s

theorem GInv_foldl (Q : List Overlap) : ∀ (P : List Overlap) (s : List Intersection), GInv P s →
    GInv (P ++ Q) (Q.foldl (fun s o => addOverlap o s) s) := by
  induction Q with
  | nil => intro P s h; simpa using h
  | cons o Q ih =>
    intro P s h
    have := ih (P ++ [o]) (addOverlap o s) (GInv_step P s o h)
    simpa using this

theorem GInv_all (O : List Overlap) : GInv O (O.foldl (fun s o => addOverlap o s) []) := by
  have := GInv_foldl O [] [] ⟨by simp, by simp, List.Pairwise.nil⟩
  simpa using this

/-- Every result entry is `normalize` of a concatenation of tiles of overlaps with its index list (and
    there is at least one such overlap); every overlap's tiles are inside the (pre-normalization) cells
    of the result entry with its index list. -/
theorem group_spec (O : List Overlap) :
    (∀ r ∈ overlapsToIntersections O, ∃ cells : CU, r.cells = normalize cells ∧
        (∃ o ∈ O, o.indices = r.indices) ∧
        ∀ c ∈ cells, ∃ o ∈ O, o.indices = r.indices ∧ c ∈ tiles o) ∧
    (∀ o ∈ O, ∃ cells : CU,
        ({ indices := o.indices, cells := normalize cells } : Intersection) ∈ overlapsToIntersections O ∧
        (∀ c ∈ tiles o, c ∈ cells) ∧
        (∀ c ∈ cells, ∃ o' ∈ O, o'.indices = o.indices ∧ c ∈ tiles o')) ∧
    (overlapsToIntersections O).Pairwise (fun a b => a.indices ≠ b.indices) := by
  obtain ⟨h1, h2, h3⟩ := GInv_all O
  unfold overlapsToIntersections
  simp only []
  generalize O.foldl (fun s o => addOverlap o s) [] = set at h1 h2 h3
  refine ⟨?_, ?_, ?_⟩
  · intro r hr
    rw [List.mem_mergeSort, List.mem_map] at hr
    obtain ⟨e, he, rfl⟩ := hr
    exact ⟨e.cells, rfl, (h1 e he).1, (h1 e he).2⟩
  · intro o ho
    obtain ⟨e, he, e1, e2⟩ := h2 o ho
    refine ⟨e.cells, ?_, e2, fun c hc => ?_⟩
    · rw [List.mem_mergeSort, List.mem_map]
      exact ⟨e, he, by rw [e1]⟩
    · obtain ⟨o', ho', e3, e4⟩ := (h1 e he).2 c hc
      exact ⟨o', ho', e3.trans e1, e4⟩
  · rw [List.Perm.pairwise_iff (fun h => Ne.symm h) (List.mergeSort_perm _ _), List.pairwise_map]
    exact h3

/-- non-vacuity of the hypotheses of `addOverlap_pairwise`, `GInv_step`, `GInv_foldl` -/
example : ([⟨[0, 2], [1]⟩, ⟨[0, 1], [3]⟩] : List Intersection).Pairwise (fun a b => a.indices ≠ b.indices) ∧
    GInv [] [] := by
  refine ⟨by decide, ?_, ?_, List.Pairwise.nil⟩ <;> simp

example : addOverlap ⟨[0, 1], 5, 5⟩ [⟨[0, 2], [1]⟩, ⟨[0, 1], [3]⟩] =
    [⟨[0, 2], [1]⟩, ⟨[0, 1], [3] ++ fromRange 5 (next 5)⟩] := by
  decide

end S2Proofs.FindP
