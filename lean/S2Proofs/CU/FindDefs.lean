/-
  S2Proofs.CU.FindDefs — shared definitions for the correctness proof of `S2.Intersect.find`
  (model of s2intersect.Find).

  Time codes.  A limit `(leaf, typ)` (leaf an odd word `ℓ`) is given the time code
  `ℓ + 1` (start) or `ℓ + 2` (end).  For a coverage function `c : Nat → Bool` on positions,
  `gOf c τ` is "the union is open just after time τ":
    τ even  (= ℓ+1, after the start limits at ℓ):  c ℓ
    τ odd   (= ℓ+2, after the end limits at ℓ):    c ℓ ∧ c (ℓ+2)
  A union has a start limit at ℓ iff `g` rises at ℓ+1, an end limit at ℓ iff `g` falls at ℓ+2.
-/
import S2.Intersect
import S2Proofs.CU.Range
open S2 S2.CellID S2.CellUnion S2.Intersect
namespace S2Proofs.FindP

/-- time code of a limit: `leaf+1` for a start, `leaf+2` for an end -/
def code (l : Limit) : Nat := l.leaf.toNat + 1 + (if l.typ then 1 else 0)

/-- injective sort key of a limit (order of `limitLE`) -/
def key2 (l : Limit) : Nat := 2 * l.leaf.toNat + (if l.typ then 1 else 0)

/-- "open just after time τ" -/
def gOf (c : Nat → Bool) (τ : Nat) : Bool := if τ % 2 = 0 then c (τ - 1) else (c (τ - 2) && c τ)

/-- the tiles of an overlap -/
abbrev tiles (o : Overlap) : CU := fromRange o.start (next o.«end»)

end S2Proofs.FindP
