/-
  S2Proofs.CU.RangeFuel — the tiling loop of `CellUnionFromRange` terminates within 187 tests
  (potential-function argument), hence the 400 units of fuel of the model `fromRange` are never
  exhausted, and the unconditional specification of `fromRange`.
-/
import S2Proofs.CU.Range
open S2 S2.CellID S2.CellUnion
namespace S2Proofs


/-- potential: an upper bound on the number of tiles still to be emitted (including `t`) -/
def phi (t : CellID) (k L : Nat) : Nat :=
  if k = 0 then 96 - t.toNat / 2^61
  else if L ≤ hi (parent t (k-1)) then 3 * (30 - k) + (L - lo t) / 2^(61 - 2*k)
  else 96 + 3 * (k-1) + (hi (parent t (k-1)) + 2 - lo t) / 2^(61 - 2*k)

theorem phi_cases (t : CellID) (k L : Nat) :
    (k = 0 ∧ phi t k L = 96 - t.toNat / 2^61) ∨
    (1 ≤ k ∧ L ≤ hi (parent t (k-1)) ∧ phi t k L = 3 * (30 - k) + (L - lo t) / 2^(61 - 2*k)) ∨
    (1 ≤ k ∧ hi (parent t (k-1)) < L ∧
      phi t k L = 96 + 3 * (k-1) + (hi (parent t (k-1)) + 2 - lo t) / 2^(61 - 2*k)) := by
  unfold phi
  by_cases hk : k = 0
  · left; exact ⟨hk, by rw [if_pos hk]⟩
  · right
    rw [if_neg hk]
    by_cases h2 : L ≤ hi (parent t (k-1))
    · left; exact ⟨by omega, h2, by rw [if_pos h2]⟩
    · right; exact ⟨by omega, by omega, by rw [if_neg h2]⟩

theorem IsCell.parent_arith {t : CellID} {k : Nat} (h : IsCell t k) (hk : 1 ≤ k) :
    lo (parent t (k-1)) = t.toNat - t.toNat % 2^(63 - 2*k) + 1 ∧
    hi (parent t (k-1)) = t.toNat - t.toNat % 2^(63 - 2*k) + 2^(63 - 2*k) - 1 := by
  obtain ⟨m, rfl⟩ : ∃ m, k = m + 1 := ⟨k - 1, by omega⟩
  have hm : m ≤ 29 := by have := h.k_le; omega
  have hp : IsCell (parent t m) m := h.parent_isCell (by omega)
  have e := parent_toNat t m (by omega)
  have e1 : 63 - 2 * (m+1) = 61 - 2*m := by omega
  have e2 : (2:Nat)^(61 - 2*m) = 2 * 2^(60 - 2*m) := by
    rw [show 61 - 2*m = (60 - 2*m) + 1 by omega, Nat.pow_succ]; omega
  have hle := Nat.mod_le t.toNat (2^(61 - 2*m))
  rw [Nat.add_sub_cancel, e1]
  show (rangeMin _).toNat = _ ∧ (rangeMax _).toNat = _
  rw [hp.rangeMin_eq, hp.rangeMax_eq, e]
  omega

/-- all arithmetic facts about a maximal tile -/
theorem MaxTileAt.arith {t : CellID} {k L : Nat} (ht : MaxTileAt t k L) :
    k ≤ 30 ∧ t.toNat < 6 * 2^61 ∧ t.toNat % 2^(61 - 2*k) = 2^(60 - 2*k) ∧
    lo t = t.toNat - 2^(60 - 2*k) + 1 ∧ hi t = t.toNat + 2^(60 - 2*k) - 1 ∧ hi t < L ∧ L % 2 = L % 2 ∧
    (k = 0 ∨ (lo (parent t (k-1)) = t.toNat - t.toNat % 2^(63 - 2*k) + 1 ∧
      hi (parent t (k-1)) = t.toNat - t.toNat % 2^(63 - 2*k) + 2^(63 - 2*k) - 1 ∧
      (lo (parent t (k-1)) ≠ lo t ∨ L ≤ hi (parent t (k-1))))) := by
  obtain ⟨hc, h1, hmax⟩ := ht
  refine ⟨hc.k_le, hc.face_lt, hc.low, hc.rangeMin_eq, hc.rangeMax_eq, h1, rfl, ?_⟩
  by_cases hk : k = 0
  · exact Or.inl hk
  · right
    obtain ⟨a, b⟩ := hc.parent_arith (by omega)
    exact ⟨a, b, hmax.resolve_left hk⟩

theorem phi_lower {t : CellID} {k L : Nat} (ht : MaxTileAt t k L) (hL : L % 2 = 1) :
    3 * (30 - k) + 1 ≤ phi t k L := by
  obtain ⟨hk, hf, hlow, hlo, hhi, h1, _, hpar⟩ := ht.arith
  rcases phi_cases t k L with ⟨hk0, hphi⟩ | ⟨hk1, hph, hphi⟩ | ⟨hk1, hph, hphi⟩ <;> rw [hphi]
  · subst hk0; omega
  · rw [hlo]; rw [hhi] at h1 ; clear hphi hpar hph
    interval_cases k <;> cell_omega
  · have : 3 * (30 - k) + 1 ≤ 96 + 3 * (k-1) := by omega
    exact Nat.le_trans this (Nat.le_add_right _ _)

theorem phi_upper2 {t : CellID} {k L : Nat} (ht : MaxTileAt t k L) (hk1 : 1 ≤ k)
    (hph : L ≤ hi (parent t (k-1))) : phi t k L ≤ 3 * (30 - k) + 3 := by
  obtain ⟨hk, hf, hlow, hlo, hhi, h1, _, hpar⟩ := ht.arith
  obtain ⟨p1, p2, p3⟩ := hpar.resolve_left (by omega)
  rcases phi_cases t k L with ⟨hk0, hphi⟩ | ⟨_, _, hphi⟩ | ⟨_, hph', hphi⟩
  · omega
  · rw [hphi, hlo]; rw [p2] at hph; clear hphi p1 p2 p3
    interval_cases k <;> cell_omega
  · omega

theorem phi_lower1 {t : CellID} {k L : Nat} (ht : MaxTileAt t k L) (hk1 : 1 ≤ k)
    (hph : hi (parent t (k-1)) < L) : 96 + 3 * (k-1) + 1 ≤ phi t k L := by
  obtain ⟨hk, hf, hlow, hlo, hhi, h1, _, hpar⟩ := ht.arith
  obtain ⟨p1, p2, p3⟩ := hpar.resolve_left (by omega)
  rcases phi_cases t k L with ⟨hk0, hphi⟩ | ⟨_, hph', hphi⟩ | ⟨_, _, hphi⟩
  · omega
  · omega
  · rw [hphi, hlo, p2]; clear hphi p1 p2 p3 hph
    interval_cases k <;> cell_omega

theorem phi_upper {t : CellID} {k L : Nat} (ht : MaxTileAt t k L) : phi t k L ≤ 96 + 3 * k := by
  obtain ⟨hk, hf, hlow, hlo, hhi, h1, _, hpar⟩ := ht.arith
  rcases phi_cases t k L with ⟨hk0, hphi⟩ | ⟨hk1, hph, hphi⟩ | ⟨hk1, hph, hphi⟩
  · rw [hphi]; omega
  · have := phi_upper2 ht hk1 hph; omega
  · obtain ⟨p1, p2, p3⟩ := hpar.resolve_left (by omega)
    have p3' := p3.resolve_right (by omega)
    rw [hphi, hlo, p2]; rw [p1, hlo] at p3'; clear hphi p1 p2 p3 hph
    interval_cases k <;> cell_omega


theorem IsCell.lo_aligned {y : CellID} {j : Nat} (hy : IsCell y j) (m : Nat) (hm : m ≤ 61 - 2*j) :
    (lo y - 1) % 2^m = 0 := by
  have e : lo y = y.toNat - 2^(60 - 2*j) + 1 := hy.rangeMin_eq
  rw [e, Nat.add_sub_cancel]
  obtain ⟨hj, hf, hlow⟩ := hy
  have hY : (y.toNat - 2^(60 - 2*j)) % 2^(61 - 2*j) = 0 := by
    have := Nat.div_add_mod y.toNat (2^(61 - 2*j))
    rw [hlow] at this
    have e : y.toNat - 2^(60 - 2*j) = 2^(61 - 2*j) * (y.toNat / 2^(61 - 2*j)) := by omega
    rw [e]; exact Nat.mul_mod_right _ _
  exact mod_zero_of_coarser _ m (61 - 2*j) hm hY

theorem IsCell.next_toNat' {x : CellID} {k : Nat} (h : IsCell x k) :
    (next x).toNat = x.toNat + 2^(61 - 2*k) := by
  rw [h.next_toNat]
  obtain ⟨hk, hf, hlow⟩ := h
  interval_cases k <;> cell_omega

/-- if the next tile is strictly coarser, the current tile was the last child of its parent and the
    parent ends before `L` (first phase) -/
theorem phase1_of_coarser_next {t t' : CellID} {k k' L : Nat} (ht : MaxTileAt t k L) (ht' : IsCell t' k')
    (hkk : k' < k) (hlo : lo t' = hi t + 2) : hi (parent t (k-1)) < L := by
  have hal := ht'.lo_aligned (63 - 2*k) (by omega)
  obtain ⟨hk, hf, hlow, _, hhi, h1, _, hpar⟩ := ht.arith
  obtain ⟨p1, p2, p3⟩ := hpar.resolve_left (by omega)
  rw [hlo, hhi] at hal
  rw [p2]; rw [hhi] at h1
  clear p1 p2 p3 hpar hlo hhi
  have hk1 : 1 ≤ k := by omega
  clear hkk
  interval_cases k <;> cell_omega

/-- the potential of a non-face tile as a function of its id (as a number) -/
def phiN (x k L : Nat) : Nat :=
  if L ≤ x - x % 2^(63 - 2*k) + 2^(63 - 2*k) - 1 then 3 * (30 - k) + (L - (x - 2^(60 - 2*k) + 1)) / 2^(61 - 2*k)
  else 96 + 3 * (k-1) + (x - x % 2^(63 - 2*k) + 2^(63 - 2*k) - 1 + 2 - (x - 2^(60 - 2*k) + 1)) / 2^(61 - 2*k)

theorem phi_eq_phiN {t : CellID} {k : Nat} (h : IsCell t k) (hk1 : 1 ≤ k) (L : Nat) :
    phi t k L = phiN t.toNat k L := by
  obtain ⟨_, b⟩ := h.parent_arith hk1
  have c : lo t = t.toNat - 2^(60 - 2*k) + 1 := h.rangeMin_eq
  unfold phi phiN
  rw [if_neg (by omega), b, c]

set_option maxHeartbeats 4000000 in
/-- pure arithmetic core of `phi_next_lt` (31 levels × 4 phase combinations, about two minutes) -/
theorem phiN_next_lt (x k L : Nat) (hk1 : 1 ≤ k) (hk : k ≤ 30) (hlow : x % 2^(61 - 2*k) = 2^(60 - 2*k))
    (h1 : x + 2^(61 - 2*k) + 2^(60 - 2*k) - 1 < L)
    (p3 : x - x % 2^(63 - 2*k) + 1 ≠ x - 2^(60 - 2*k) + 1 ∨ L ≤ x - x % 2^(63 - 2*k) + 2^(63 - 2*k) - 1)
    (q3 : x + 2^(61 - 2*k) - (x + 2^(61 - 2*k)) % 2^(63 - 2*k) + 1 ≠ x + 2^(61 - 2*k) - 2^(60 - 2*k) + 1 ∨
      L ≤ x + 2^(61 - 2*k) - (x + 2^(61 - 2*k)) % 2^(63 - 2*k) + 2^(63 - 2*k) - 1) :
    phiN (x + 2^(61 - 2*k)) k L < phiN x k L := by
  unfold phiN
  interval_cases k <;>
    (simp only [Nat.reducePow, Nat.reduceMul, Nat.reduceSub, Nat.reduceAdd] at *
     split_ifs <;> omega)

/-- the next cell at the same level has a smaller potential -/
theorem phi_next_lt {t : CellID} {k L : Nat} (ht : MaxTileAt t k L) (hn : MaxTileAt (next t) k L) :
    phi (next t) k L < phi t k L := by
  have hnx := ht.1.next_toNat'
  obtain ⟨hk, hf, hlow, hlo, hhi, h1, _, hpar⟩ := ht.arith
  obtain ⟨_, hf', hlow', hlo', hhi', h1', _, hpar'⟩ := hn.arith
  by_cases hk0 : k = 0
  · subst hk0
    rcases phi_cases t 0 L with ⟨_, hphi⟩ | ⟨hk1, _⟩ | ⟨hk1, _⟩
    · rcases phi_cases (next t) 0 L with ⟨_, hphi'⟩ | ⟨hk1, _⟩ | ⟨hk1, _⟩
      · rw [hphi, hphi']; rw [hnx] at hf' ⊢; cell_omega
      · omega
      · omega
    · omega
    · omega
  · have hk1 : 1 ≤ k := by omega
    obtain ⟨p1, p2, p3⟩ := hpar.resolve_left hk0
    obtain ⟨q1, q2, q3⟩ := hpar'.resolve_left hk0
    rw [phi_eq_phiN ht.1 hk1, phi_eq_phiN hn.1 hk1, hnx]
    rw [p1, p2, hlo] at p3
    rw [q1, q2, hlo', hnx] at q3
    rw [hhi', hnx] at h1'
    exact phiN_next_lt t.toNat k L hk1 hk hlow h1' p3 q3

/-- **progress of the tiling loop**: after a maximal tile, the loop variable becomes `e` or a maximal
    tile of strictly smaller potential -/
theorem tile_step {t e : CellID} {k : Nat} (he : IsPos e) (ht : MaxTileAt t k e.toNat) :
    maxTile (next t) e = e ∨
      ∃ k', MaxTileAt (maxTile (next t) e) k' e.toNat ∧
        phi (maxTile (next t) e) k' e.toNat < phi t k e.toNat := by
  rcases next_tile he ht with ⟨_, h⟩ | ⟨hlt, hn, hlo, _⟩
  · exact Or.inl h
  · right
    obtain ⟨j, r1, r2, r3, r4⟩ := maxTile_spec hn he.1 (by omega)
    refine ⟨j, r1, ?_⟩
    have hlow := phi_lower ht he.1
    rcases Nat.lt_or_ge (hi (next t)) e.toNat with hfit | hbig
    · have hjk := r3 hfit
      rcases Nat.lt_or_ge j k with hjlt | hjge
      · have hph := phase1_of_coarser_next ht r1.1 hjlt (by omega)
        have := phi_lower1 ht (by omega) hph
        have := phi_upper r1
        omega
      · have hjk' : j = k := by omega
        subst hjk'
        have hc : contains (maxTile (next t) e) (next t) = true :=
          (r1.1.contains_range hn).mpr ⟨by omega, r1.largest hn.valid r2.symm hfit⟩
        have heq := r1.1.eq_of_contains_same_level hn hc
        rw [heq] at r1 ⊢
        exact phi_next_lt ht r1
    · obtain ⟨hkj, hpar⟩ := r4 hbig
      have := phi_upper2 r1 (by omega) hpar
      have := r1.1.k_le
      omega

theorem reaches_of_phi (e : CellID) (he : IsPos e) : ∀ (fuel : Nat) (t : CellID) (k : Nat),
    MaxTileAt t k e.toNat → phi t k e.toNat < fuel → Reaches e fuel t := by
  intro fuel
  induction fuel with
  | zero => intro t k _ h; omega
  | succ fuel ih =>
    intro t k ht hphi
    right
    have hlow := phi_lower ht he.1
    rcases tile_step he ht with h | ⟨k', h1, h2⟩
    · rw [h]
      obtain ⟨f, rfl⟩ : ∃ f, fuel = f + 1 := ⟨fuel - 1, by omega⟩
      exact Or.inl rfl
    · exact ih _ k' h1 (by omega)

/-- **the fuel of the model is sufficient**: at most 187 loop tests are needed -/
theorem fromRange_reaches {b e : CellID} (hb : b.toNat % 2 = 1) (he : IsPos e) (hbe : b.toNat ≤ e.toNat) :
    Reaches e 187 (maxTile b e) := by
  rcases (loopInv_init hb he hbe).cur with h | ⟨j, h⟩
  · rw [h]; exact Or.inl rfl
  · have := phi_upper h
    have := h.1.k_le
    exact reaches_of_phi e he 187 _ j h (by omega)

theorem Reaches.mono {e : CellID} : ∀ {f g : Nat} {id : CellID}, f ≤ g → Reaches e f id → Reaches e g id := by
  intro f
  induction f with
  | zero => intro g id _ h; exact h.elim
  | succ f ih =>
    intro g id hfg h
    obtain ⟨g', rfl⟩ : ∃ g', g = g' + 1 := ⟨g - 1, by omega⟩
    rcases h with h | h
    · exact Or.inl h
    · exact Or.inr (ih (by omega) h)


/-- **`CellUnionFromRange` (the model with its 400 units of fuel), unconditional specification.**
    For leaf-level positions `b ≤ e` the result is a normalized union (valid cells, sorted and disjoint,
    no complete sibling group) whose leaves are exactly the positions of `[b, e)`; every member is a
    maximal tile. -/
theorem fromRange_spec {b e : CellID} (hb : b.toNat % 2 = 1) (he : IsPos e) (hbe : b.toNat ≤ e.toNat) :
    AllValid (fromRange b e) ∧ Sorted (fromRange b e) ∧ NoSib (fromRange b e) ∧
      (∀ n, n % 2 = 1 → (Covers (fromRange b e) n ↔ b.toNat ≤ n ∧ n < e.toNat)) ∧
      ∀ c ∈ fromRange b e, ∃ j, MaxTileAt c j e.toNat := by
  rw [fromRange_eq_fuel]
  exact fromRangeFuel_spec 400 hb he hbe ((fromRange_reaches hb he hbe).mono (by omega))

theorem fromRange_isNormalized {b e : CellID} (hb : b.toNat % 2 = 1) (he : IsPos e)
    (hbe : b.toNat ≤ e.toNat) : isNormalizedCU (fromRange b e) = true := by
  obtain ⟨h1, h2, h3, _⟩ := fromRange_spec hb he hbe
  exact (isNormalizedCU_iff _).mpr ⟨h1, h2, h3⟩

/-- the explicit decidable form of the contract of `CellUnionFromRange` -/
theorem fromRange_spec' {b e : CellID}
    (h : b.toNat % 2 = 1 ∧ e.toNat % 2 = 1 ∧ b.toNat ≤ e.toNat ∧ e.toNat ≤ 6 * 2^61 + 1) :
    isNormalizedCU (fromRange b e) = true ∧
      ∀ n, n % 2 = 1 → (Covers (fromRange b e) n ↔ b.toNat ≤ n ∧ n < e.toNat) :=
  ⟨fromRange_isNormalized h.1 ⟨h.2.1, h.2.2.2⟩ h.2.2.1,
    (fromRange_spec h.1 ⟨h.2.1, h.2.2.2⟩ h.2.2.1).2.2.2.1⟩

theorem go_length (e : CellID) : ∀ (f : Nat) (id : CellID) (acc : List CellID), Reaches e f id →
    (fromRange.go e f id acc).length + 1 ≤ acc.length + f := by
  intro f
  induction f with
  | zero => intro id acc h; exact h.elim
  | succ f ih =>
    intro id acc h
    unfold fromRange.go
    by_cases hid : id = e
    · subst hid; simp
    · have hb : (id == e) = false := by simpa using hid
      rw [hb]; simp only [Bool.false_eq_true, if_false]
      have := ih _ (id :: acc) (h.resolve_left hid)
      simp only [List.length_cons] at this
      omega

theorem go_fuel_irrelevant (e : CellID) : ∀ (f g : Nat) (id : CellID) (acc : List CellID), Reaches e f id →
    f ≤ g → fromRange.go e g id acc = fromRange.go e f id acc := by
  intro f
  induction f with
  | zero => intro g id acc h; exact h.elim
  | succ f ih =>
    intro g id acc h hfg
    obtain ⟨g', rfl⟩ : ∃ g', g = g' + 1 := ⟨g - 1, by omega⟩
    unfold fromRange.go
    by_cases hid : id = e
    · subst hid; simp
    · have hb : (id == e) = false := by simpa using hid
      rw [hb]; simp only [Bool.false_eq_true, if_false]
      exact ih g' _ _ (h.resolve_left hid) (by omega)

/-- at most `6 + 2·3·30 = 186` tiles -/
theorem fromRange_length_le {b e : CellID} (hb : b.toNat % 2 = 1) (he : IsPos e) (hbe : b.toNat ≤ e.toNat) :
    (fromRange b e).length ≤ 186 := by
  have hr := fromRange_reaches hb he hbe
  unfold fromRange
  rw [List.length_reverse, go_fuel_irrelevant e 187 400 _ _ hr (by omega)]
  have := go_length e 187 _ [] hr
  simp only [List.length_nil] at this
  omega

/-! ### non-vacuity -/

example : IsPos 0xC000000000000001 := by decide
example : maxTile 9 0xC000000000000001 = 12 := by decide
example : maxTile 9 13 = 9 := by decide
example : fromRange 3 3 = [] := by decide
example : fromRange 7 35 = [7, 12, 20, 28, 33] := by decide
example : fromRange 1 0xC000000000000001 =
    [fromFace 0, fromFace 1, fromFace 2, fromFace 3, fromFace 4, fromFace 5] := by decide
-- the bound 186 is nearly attained: `#eval (fromRange 3 0xBFFFFFFFFFFFFFFF).length` gives 184

end S2Proofs
