/-
  S2Proofs.C16Kernel — the REAL numeric kernels of `Intersection` (S2.EdgeNum) are sign-symmetric up to the sign of zeros:

   (K) `intersectionStableSorted` : reversing the first or the second edge negates the accepted point (`R3`) and does not change
       the accept / reject decision — on finite points, whatever overflows / NaNs happen inside;
   (E) `intersectionExact` : reversing an edge or swapping the edges negates the point of the transversal branch (`R3`);
       in the collinear branch swapping the edges returns the same endpoint (`Z3`), reversing an edge returns the same
       endpoint PROVIDED the four `OrderedCCW` flags are symmetric (hypothesis `occw…`; they are computed by the float cascade
       of `RobustSign` on a NEGATED rounded normal, which is not a syntactic symmetry of `stableSign`);
   (S) `signCorrect` : does not see `Z3`, and undoes `R3` when the hemisphere test `pt·s` is DECISIVE (non-zero, not NaN).

  Relations `Z`, `R`, `Z3`, `R3`: S2Proofs.F64Sym2.
-/
import S2Proofs.F64Sym2
import S2Proofs.Properties.C16

set_option linter.unusedSimpArgs false
set_option linter.unusedVariables false

namespace S2Proofs.C16K
open S2 S2.Exact S2.EdgeNum S2.Pred S2Proofs.F64Order S2Proofs.F64Sym S2Proofs.F64Sym2

/-! ## (K) the stable kernel -/

/-- the difference vector `projection` works with: the one to the CLOSER endpoint (ties: the lexicographically smaller) -/
def pick (x a0 a1 : V3) : V3 :=
  if F64.lt (x.sub a0).norm2 (x.sub a1).norm2 ||
      (F64.feq (x.sub a0).norm2 (x.sub a1).norm2 && V3.cmp (x.sub a0) (x.sub a1) == -1) then x.sub a0 else x.sub a1

/-- `projection` from the picked difference vector -/
def projOf (n : V3) (len : F64) (d : V3) : F64 × F64 :=
  (d.dot n, ((projC1 * len + projC2) * F64.sqrt d.norm2 + f1p5 * (d.dot n).abs) * tErr)

theorem projection_eq (x n : V3) (len : F64) (a0 a1 : V3) : projection x n len a0 a1 = projOf n len (pick x a0 a1) := by
  unfold projection pick projOf
  dsimp only
  split <;> rfl

theorem fin_nn3 {v : V3} (h : Fin3 v) : NN3 v := ⟨isNaN_false h.1, isNaN_false h.2.1, isNaN_false h.2.2⟩

theorem sub_nn3 {u v : V3} (hu : Fin3 u) (hv : Fin3 v) : NN3 (u.sub v) :=
  ⟨S2Proofs.F64Round.sub_not_nan hu.1 hv.1, S2Proofs.F64Round.sub_not_nan hu.2.1 hv.2.1,
    S2Proofs.F64Round.sub_not_nan hu.2.2 hv.2.2⟩

theorem lt_asymm' {a b : F64} (h : F64.lt a b = true) : F64.lt b a = false := by
  open S2Proofs.F64Round in
  by_cases ha : a.isNaN = true
  · rw [lt_nan_left _ _ ha] at h; cases h
  by_cases hb : b.isNaN = true
  · rw [lt_nan_right _ _ hb] at h; cases h
  have ha' : a.isNaN = false := by simpa using ha
  have hb' : b.isNaN = false := by simpa using hb
  have := (lt_iff_ext ha' hb').mp h
  cases h2 : F64.lt b a
  · rfl
  · have := (lt_iff_ext hb' ha').mp h2; omega

theorem cmp3_asymm {u w : V3} (h : V3.cmp u w = -1) : V3.cmp w u ≠ -1 := by
  unfold V3.cmp F64.gt at *
  have ax := @lt_asymm' u.x w.x
  have ax' := @lt_asymm' w.x u.x
  have ay := @lt_asymm' u.y w.y
  have ay' := @lt_asymm' w.y u.y
  have az := @lt_asymm' u.z w.z
  have az' := @lt_asymm' w.z u.z
  cases h1 : F64.lt u.x w.x <;> cases h2 : F64.lt w.x u.x <;> cases h3 : F64.lt u.y w.y <;>
    cases h4 : F64.lt w.y u.y <;> cases h5 : F64.lt u.z w.z <;> cases h6 : F64.lt w.z u.z <;>
    simp_all

/-- reversing the edge does not change the picked difference vector (up to zero signs) -/
theorem pick_rev {x a0 a1 : V3} (hx : Fin3 x) (h0 : Fin3 a0) (h1 : Fin3 a1) : Z3 (pick x a1 a0) (pick x a0 a1) := by
  open S2Proofs.F64Round in
  have n0 := sub_nn3 hx h0
  have n1 := sub_nn3 hx h1
  have p0 := (norm2_pos n0).1
  have p1 := (norm2_pos n1).1
  unfold pick
  generalize hd0 : (x.sub a0).norm2 = d0 at *
  generalize hd1 : (x.sub a1).norm2 = d1 at *
  rcases lt_trichotomy (ext d0) (ext d1) with h | h | h
  · have e1 : F64.lt d0 d1 = true := (lt_iff_ext p0 p1).mpr h
    have e2 : F64.lt d1 d0 = false := lt_asymm' e1
    have e3 : F64.feq d1 d0 = false := by
      cases hh : F64.feq d1 d0
      · rfl
      · have := (feq_iff_ext p1 p0).mp hh; omega
    simp only [e1, e2, e3, Bool.true_or, Bool.false_and, Bool.or_self, Bool.false_eq_true, if_true, if_false]
    exact Z3.refl _
  · have e1 : F64.lt d0 d1 = false := by
      cases hh : F64.lt d0 d1
      · rfl
      · have := (lt_iff_ext p0 p1).mp hh; omega
    have e2 : F64.lt d1 d0 = false := by
      cases hh : F64.lt d1 d0
      · rfl
      · have := (lt_iff_ext p1 p0).mp hh; omega
    have e3 : F64.feq d0 d1 = true := (feq_iff_ext p0 p1).mpr h
    have e4 : F64.feq d1 d0 = true := (feq_iff_ext p1 p0).mpr h.symm
    simp only [e1, e2, e3, e4, Bool.false_or, Bool.true_and]
    by_cases c : V3.cmp (x.sub a0) (x.sub a1) = -1
    · have c' := cmp3_asymm c
      simp only [c, c', beq_self_eq_true, if_true, beq_iff_eq, if_false]
      exact Z3.refl _
    · by_cases c' : V3.cmp (x.sub a1) (x.sub a0) = -1
      · simp only [c, c', beq_self_eq_true, if_true, beq_iff_eq, if_false]
        exact Z3.refl _
      · simp only [c, c', beq_iff_eq, if_false]
        exact Z3_of_cmp n0 n1 c c'
  · have e1 : F64.lt d1 d0 = true := (lt_iff_ext p1 p0).mpr h
    have e2 : F64.lt d0 d1 = false := lt_asymm' e1
    have e3 : F64.feq d0 d1 = false := by
      cases hh : F64.feq d0 d1
      · rfl
      · have := (feq_iff_ext p0 p1).mp hh; omega
    simp only [e1, e2, e3, Bool.true_or, Bool.false_and, Bool.or_self, Bool.false_eq_true, if_true, if_false]
    exact Z3.refl _

/-- `projOf` under `Z3` of the vector and `R3` of the normal: the projection is negated, the error bound is IDENTICAL -/
theorem projOf_R {n n' d d' : V3} (len : F64) (hd : Z3 d' d) (hn : R3 n' n) :
    R (projOf n' len d').1 (projOf n len d).1 ∧ (projOf n' len d').2 = (projOf n len d).2 := by
  have hr : R (d'.dot n') (d.dot n) := dot_R_right hd hn
  refine ⟨hr, ?_⟩
  unfold projOf
  dsimp only
  rw [norm2_Z3 hd]
  show F64.mul (F64.add _ (F64.mul f1p5 (F64.abs (d'.dot n')))) tErr = F64.mul (F64.add _ (F64.mul f1p5 (F64.abs (d.dot n)))) tErr
  rw [mul_N (N.refl f1p5) (abs_R hr)]

/-- `projection` under reversal of the edge and negation of the normal -/
theorem projection_revA {x n n' a0 a1 : V3} (len : F64) (hx : Fin3 x) (h0 : Fin3 a0) (h1 : Fin3 a1) (hn : R3 n' n) :
    R (projection x n' len a1 a0).1 (projection x n len a0 a1).1 ∧
      (projection x n' len a1 a0).2 = (projection x n len a0 a1).2 := by
  rw [projection_eq, projection_eq]
  exact projOf_R len (pick_rev hx h0 h1) hn

/-- everything `intersectionStableSorted` computes after the two projections -/
def tail (bLen : F64) (b0 b1 : V3) (b0Dist b0Error b1Dist b1Error : F64) : StableParts :=
  let distSum := (b0Dist - b1Dist).abs
  let errorSum := b0Error + b1Error
  let x := (b1.mul b0Dist).sub (b0.mul b1Dist)
  let err := bLen * (b0Dist * b1Error - b1Dist * b0Error).abs / (distSum - errorSum) + f2 * distSum * tErr
  ⟨b0Dist, b1Dist, distSum, errorSum, x, err, x.norm2, F64.sqrt x.norm2⟩

theorem stableParts_eq (a0 a1 b0 b1 : V3) :
    stableParts a0 a1 b0 b1 =
      tail (b1.sub b0).norm b0 b1
        (projection b0 ((a0.sub a1).cross (a0.add a1)) ((a0.sub a1).cross (a0.add a1)).norm a0 a1).1
        (projection b0 ((a0.sub a1).cross (a0.add a1)) ((a0.sub a1).cross (a0.add a1)).norm a0 a1).2
        (projection b1 ((a0.sub a1).cross (a0.add a1)) ((a0.sub a1).cross (a0.add a1)).norm a0 a1).1
        (projection b1 ((a0.sub a1).cross (a0.add a1)) ((a0.sub a1).cross (a0.add a1)).norm a0 a1).2 := rfl

/-- the accept / reject logic on the computed parts -/
def finish (p : StableParts) : Option V3 :=
  if F64.le p.distSum p.errorSum then none
  else if F64.lt p.xLen2 minNormalF then none
  else if F64.gt p.err ((intersectionErrorF - tErr) * p.xLen) then none
  else some (p.x.mul (f1 / p.xLen))

theorem sorted_eq (a0 a1 b0 b1 : V3) : intersectionStableSorted a0 a1 b0 b1 = finish (stableParts a0 a1 b0 b1) := rfl

/-- "the same parts with the point negated" -/
structure PRel (p' p : StableParts) : Prop where
  distSum : N p'.distSum p.distSum
  errorSum : p'.errorSum = p.errorSum
  x : R3 p'.x p.x
  err : p'.err = p.err
  xLen2 : p'.xLen2 = p.xLen2
  xLen : p'.xLen = p.xLen

/-- the optional results: both rejected, or both accepted with negated points -/
def ORel : Option V3 → Option V3 → Prop
  | none, none => True
  | some p', some p => R3 p' p
  | _, _ => False

instance (o' o : Option V3) : Decidable (ORel o' o) := by
  cases o' <;> cases o <;> unfold ORel <;> infer_instance

theorem finish_PRel {p' p : StableParts} (h : PRel p' p) : ORel (finish p') (finish p) := by
  unfold finish
  rw [le_Z h.distSum.toZ (Z.of_eq h.errorSum), h.xLen2, h.err, h.xLen]
  split
  · trivial
  · split
    · trivial
    · split
      · trivial
      · exact smul_R3 h.x (Z.refl _)

/-- both projections negated (edge `a` reversed) -/
theorem tail_neg (bLen : F64) (b0 b1 : V3) {d0 d0' d1 d1' : F64} (e0 e1 : F64) (h0 : R d0' d0) (h1 : R d1' d1) :
    PRel (tail bLen b0 b1 d0' e0 d1' e1) (tail bLen b0 b1 d0 e0 d1 e1) := by
  have hds : N (F64.abs (F64.sub d0' d1')) (F64.abs (F64.sub d0 d1)) := abs_R (sub_R h0 h1)
  have hx : R3 ((b1.mul d0').sub (b0.mul d1')) ((b1.mul d0).sub (b0.mul d1)) :=
    sub_R3 (smul_R3' (Z3.refl _) h0) (smul_R3' (Z3.refl _) h1)
  have hin : N (F64.abs (F64.sub (F64.mul d0' e1) (F64.mul d1' e0))) (F64.abs (F64.sub (F64.mul d0 e1) (F64.mul d1 e0))) :=
    abs_R (sub_R (mul_R_left h0 (Z.refl _)) (mul_R_left h1 (Z.refl _)))
  have herr : F64.add (F64.div (F64.mul bLen (F64.abs (F64.sub (F64.mul d0' e1) (F64.mul d1' e0))))
        (F64.sub (F64.abs (F64.sub d0' d1')) (F64.add e0 e1))) (F64.mul (F64.mul f2 (F64.abs (F64.sub d0' d1'))) tErr) =
      F64.add (F64.div (F64.mul bLen (F64.abs (F64.sub (F64.mul d0 e1) (F64.mul d1 e0))))
        (F64.sub (F64.abs (F64.sub d0 d1)) (F64.add e0 e1))) (F64.mul (F64.mul f2 (F64.abs (F64.sub d0 d1))) tErr) := by
    rw [mul_N (N.refl bLen) hin, sub_N hds (N.refl _), mul_N (N.refl f2) hds]
  have hn2 := norm2_R3 hx
  exact ⟨hds, rfl, hx, herr, hn2, congrArg F64.sqrt hn2⟩

/-- the two projections exchanged (edge `b` reversed) -/
theorem tail_swap (bLen : F64) (b0 b1 : V3) (d0 e0 d1 e1 : F64) :
    PRel (tail bLen b1 b0 d1 e1 d0 e0) (tail bLen b0 b1 d0 e0 d1 e1) := by
  have hds : N (F64.abs (F64.sub d1 d0)) (F64.abs (F64.sub d0 d1)) := abs_R (sub_swap_all d0 d1)
  have hes : F64.add e1 e0 = F64.add e0 e1 := add_comm_all e1 e0
  have hx : R3 ((b0.mul d1).sub (b1.mul d0)) ((b1.mul d0).sub (b0.mul d1)) := sub_swap3 (Z3.refl _) (Z3.refl _)
  have hin : N (F64.abs (F64.sub (F64.mul d1 e0) (F64.mul d0 e1))) (F64.abs (F64.sub (F64.mul d0 e1) (F64.mul d1 e0))) :=
    abs_R (sub_swap_all _ _)
  have herr : F64.add (F64.div (F64.mul bLen (F64.abs (F64.sub (F64.mul d1 e0) (F64.mul d0 e1))))
        (F64.sub (F64.abs (F64.sub d1 d0)) (F64.add e1 e0))) (F64.mul (F64.mul f2 (F64.abs (F64.sub d1 d0))) tErr) =
      F64.add (F64.div (F64.mul bLen (F64.abs (F64.sub (F64.mul d0 e1) (F64.mul d1 e0))))
        (F64.sub (F64.abs (F64.sub d0 d1)) (F64.add e0 e1))) (F64.mul (F64.mul f2 (F64.abs (F64.sub d0 d1))) tErr) := by
    rw [mul_N (N.refl bLen) hin, hes, sub_N hds (N.refl _), mul_N (N.refl f2) hds]
  have hn2 := norm2_R3 hx
  exact ⟨hds, hes, hx, herr, hn2, congrArg F64.sqrt hn2⟩

/-- **(K, reverse a)** reversing the FIRST edge handed to the stable kernel: same decision, negated point -/
theorem stable_revA {a0 a1 b0 b1 : V3} (ha0 : Fin3 a0) (ha1 : Fin3 a1) (hb0 : Fin3 b0) (hb1 : Fin3 b1) :
    ORel (intersectionStableSorted a1 a0 b0 b1) (intersectionStableSorted a0 a1 b0 b1) := by
  rw [sorted_eq, sorted_eq]
  apply finish_PRel
  rw [stableParts_eq, stableParts_eq]
  have hn : R3 ((a1.sub a0).cross (a1.add a0)) ((a0.sub a1).cross (a0.add a1)) :=
    cross_R3_left (sub_swap3 (Z3.refl _) (Z3.refl _)) (Z3.of_eq (add_comm3 a1 a0))
  rw [norm_R3 hn]
  obtain ⟨r0, q0⟩ := projection_revA ((a0.sub a1).cross (a0.add a1)).norm hb0 ha0 ha1 hn
  obtain ⟨r1, q1⟩ := projection_revA ((a0.sub a1).cross (a0.add a1)).norm hb1 ha0 ha1 hn
  rw [q0, q1]
  exact tail_neg _ _ _ _ _ r0 r1

/-- **(K, reverse b)** reversing the SECOND edge handed to the stable kernel: same decision, negated point (ALL bit patterns) -/
theorem stable_revB (a0 a1 b0 b1 : V3) :
    ORel (intersectionStableSorted a0 a1 b1 b0) (intersectionStableSorted a0 a1 b0 b1) := by
  rw [sorted_eq, sorted_eq]
  apply finish_PRel
  rw [stableParts_eq, stableParts_eq]
  have hl : (b0.sub b1).norm = (b1.sub b0).norm := norm_R3 (sub_swap3 (Z3.refl _) (Z3.refl _))
  rw [hl]
  exact tail_swap _ _ _ _ _ _ _

/-! ## (S) the hemisphere correction -/

/-- the hemisphere test `pt·s < 0` is decisive: the dot product is neither a zero nor NaN -/
def Decisive (p s : V3) : Prop := F64.lt (p.dot s) fz = true ∨ F64.lt fz (p.dot s) = true

instance (p s : V3) : Decidable (Decisive p s) := by unfold Decisive; infer_instance

theorem decisive_Z3 {p q : V3} (s : V3) (h : Z3 p q) : Decisive p s ↔ Decisive q s := by
  unfold Decisive
  rw [lt_Z (dot_Z h (Z3.refl s)) (Z.refl fz), lt_Z (Z.refl fz) (dot_Z h (Z3.refl s))]

theorem decisive_R3 {p' p : V3} (s : V3) (h : R3 p' p) : Decisive p' s ↔ Decisive p s := by
  unfold Decisive
  rw [lt_zero_R (dot_R_left h (Z3.refl s)), zero_lt_R (dot_R_left h (Z3.refl s))]
  exact Or.comm

/-- `signCorrect` does not see the sign of zeros -/
theorem signCorrect_Z3 {p q : V3} (s : V3) (h : Z3 p q) : Z3 (signCorrect p s) (signCorrect q s) := by
  unfold signCorrect
  rw [lt_Z (dot_Z h (Z3.refl s)) (Z.refl fz)]
  split
  · exact smul_Z3 h (Z.refl _)
  · exact h

/-- `signCorrect` undoes a negation, when the hemisphere test is decisive -/
theorem signCorrect_R3 {p' p : V3} {s : V3} (h : R3 p' p) (hd : Decisive p s) :
    Z3 (signCorrect p' s) (signCorrect p s) := by
  unfold signCorrect
  have e1 := lt_zero_R (dot_R_left h (Z3.refl s))
  rcases hd with hd | hd
  · have e2 : F64.lt fz (p.dot s) = false := lt_asymm' hd
    rw [e1, e2, hd]
    simp only [Bool.false_eq_true, if_false, if_true]
    exact (R3.comp (smul_negOne p) h.symm).symm
  · have e2 : F64.lt (p.dot s) fz = false := lt_asymm' hd
    rw [e1, e2, hd]
    simp only [Bool.false_eq_true, if_false, if_true]
    exact R3.comp (smul_negOne p') h

/-! ## (E) the exact kernel -/

theorem iv3_cross_neg_left (a b : IV3) : (a.neg).cross b = (a.cross b).neg := by
  unfold IV3.cross IV3.neg
  simp only [IV3.mk.injEq]
  refine ⟨by ring, by ring, by ring⟩
theorem iv3_cross_neg_right (a b : IV3) : a.cross b.neg = (a.cross b).neg := by
  unfold IV3.cross IV3.neg
  simp only [IV3.mk.injEq]
  refine ⟨by ring, by ring, by ring⟩
theorem iv3_cross_swap (a b : IV3) : b.cross a = (a.cross b).neg := by
  unfold IV3.cross IV3.neg
  simp only [IV3.mk.injEq]
  refine ⟨by ring, by ring, by ring⟩

theorem toIV3_ofV3 (v : V3) : (PV.ofV3 v).toIV3 = ofV3 v := rfl
theorem toIV3_cross (v o : PV) : (v.cross o).toIV3 = v.toIV3.cross o.toIV3 := rfl

theorem roundDyadic_zero (s : Bool) (e : Int) : F64.roundDyadic s 0 e = F64.zero s := by
  unfold F64.roundDyadic F64.roundNE
  split <;> simp

/-- `Float64()` of exact values with opposite values: opposite floats, up to the sign of a zero -/
theorem toF64_R {s s' : SZ} (e : Int) (h : s'.v = -s.v) : R (s'.toF64 e) (s.toF64 e) := by
  unfold SZ.toF64
  by_cases h0 : s.v = 0
  · have h0' : s'.v = 0 := by omega
    rw [h0, h0']
    simp only [Int.natAbs_zero, roundDyadic_zero]
    exact Z_of_zero (isZero_zero _) (by rw [isZero_neg]; exact isZero_zero _)
  · have h0' : s'.v ≠ 0 := by omega
    have e1 : s.isNeg = decide (s.v < 0) := by unfold SZ.isNeg; simp [h0]
    have e2 : s'.isNeg = !decide (s.v < 0) := by
      unfold SZ.isNeg; simp only [beq_iff_eq, h0', if_false]
      by_cases hl : s.v < 0
      · have : ¬ (s'.v < 0) := by omega
        simp [hl, this]
      · have : s'.v < 0 := by omega
        simp [hl, this]
    have e3 : s'.v.natAbs = s.v.natAbs := by omega
    rw [e1, e2, e3, roundDyadic_neg]
    exact Z.refl _

/-- `Float64()` only depends on the exact value, up to the sign of a zero -/
theorem toF64_Z {s s' : SZ} (e : Int) (h : s'.v = s.v) : Z (s'.toF64 e) (s.toF64 e) := by
  unfold SZ.toF64
  by_cases h0 : s.v = 0
  · have h0' : s'.v = 0 := by omega
    rw [h0, h0']
    simp only [Int.natAbs_zero, roundDyadic_zero]
    exact Z_of_zero (isZero_zero _) (isZero_zero _)
  · have h0' : s'.v ≠ 0 := by omega
    have e1 : s.isNeg = decide (s.v < 0) := by unfold SZ.isNeg; simp [h0]
    have e2 : s'.isNeg = decide (s.v < 0) := by unfold SZ.isNeg; rw [h]; simp [h0]
    rw [e1, e2, h]
    exact Z.refl _

theorem bitLen_eq {s s' : SZ} (h : s'.v.natAbs = s.v.natAbs) : s'.bitLen = s.bitLen := by
  unfold SZ.bitLen
  by_cases h0 : s.v = 0
  · have h0' : s'.v = 0 := by omega
    simp [h0, h0']
  · have h0' : s'.v ≠ 0 := by omega
    simp [h0, h0', h]

theorem normalize_R3 {u' u : V3} (h : R3 u' u) : R3 u'.normalize u.normalize := by
  unfold V3.normalize
  dsimp only
  rw [norm2_R3 h]
  split
  · exact ⟨Z_of_zero (by decide) (by decide), Z_of_zero (by decide) (by decide), Z_of_zero (by decide) (by decide)⟩
  · exact smul_R3 h (Z.refl _)

theorem normalize_Z3 {u' u : V3} (h : Z3 u' u) : Z3 u'.normalize u.normalize := by
  unfold V3.normalize
  dsimp only
  rw [norm2_Z3 h]
  split
  · exact Z3.refl _
  · exact smul_Z3 h (Z.refl _)

/-- `PreciseVector.Vector()` of opposite exact vectors: opposite float vectors up to the sign of zeros -/
theorem toVector_R3 {v' v : PV} (e' e : Int) (h : v'.toIV3 = v.toIV3.neg) : R3 (v'.toVector e') (v.toVector e) := by
  unfold PV.toIV3 IV3.neg at h
  simp only [IV3.mk.injEq] at h
  obtain ⟨hx, hy, hz⟩ := h
  unfold PV.toVector
  dsimp only
  rw [bitLen_eq (s' := v'.x) (s := v.x) (by omega), bitLen_eq (s' := v'.y) (s := v.y) (by omega),
    bitLen_eq (s' := v'.z) (s := v.z) (by omega)]
  exact normalize_R3 ⟨toF64_R _ hx, toF64_R _ hy, toF64_R _ hz⟩

theorem toVector_Z3 {v' v : PV} (e' e : Int) (h : v'.toIV3 = v.toIV3) : Z3 (v'.toVector e') (v.toVector e) := by
  unfold PV.toIV3 at h
  simp only [IV3.mk.injEq] at h
  obtain ⟨hx, hy, hz⟩ := h
  unfold PV.toVector
  dsimp only
  rw [bitLen_eq (s' := v'.x) (s := v.x) (by omega), bitLen_eq (s' := v'.y) (s := v.y) (by omega),
    bitLen_eq (s' := v'.z) (s := v.z) (by omega)]
  exact normalize_Z3 ⟨toF64_Z _ hx, toF64_Z _ hy, toF64_Z _ hz⟩

/-- the exact normal of an edge -/
def nrm (a0 a1 : V3) : PV := (PV.ofV3 a0).cross (PV.ofV3 a1)
/-- the rounded, normalised exact intersection direction -/
def xOf (a0 a1 b0 b1 : V3) : V3 := ((nrm a0 a1).cross (nrm b0 b1)).toVector (-4296)
/-- the rounded, normalised normal of an edge, as the collinear branch computes it -/
def nrmV (a0 a1 : V3) : V3 := (nrm a0 a1).toVector (-2148)
/-- the candidates of the collinear rule -/
def cands (a0 a1 b0 b1 : V3) : List (V3 × Bool) :=
  [(a0, orderedCCW b0 a0 b1 (nrmV b0 b1)), (a1, orderedCCW b0 a1 b1 (nrmV b0 b1)),
   (b0, orderedCCW a0 b0 a1 (nrmV a0 a1)), (b1, orderedCCW a0 b1 a1 (nrmV a0 a1))]
def bigV : V3 := ⟨f10, f10, f10⟩

theorem exact_eq (a0 a1 b0 b1 : V3) :
    intersectionExact a0 a1 b0 b1 =
      if V3.feq (xOf a0 a1 b0 b1) zero3 then pickMin bigV (cands a0 a1 b0 b1) else xOf a0 a1 b0 b1 := rfl

theorem nrm_rev (a0 a1 : V3) : (nrm a1 a0).toIV3 = (nrm a0 a1).toIV3.neg := by
  unfold nrm; rw [toIV3_cross, toIV3_cross]; exact iv3_cross_swap _ _

theorem xOf_revA (a0 a1 b0 b1 : V3) : R3 (xOf a1 a0 b0 b1) (xOf a0 a1 b0 b1) := by
  apply toVector_R3
  rw [toIV3_cross, toIV3_cross, nrm_rev a0 a1, iv3_cross_neg_left]
theorem xOf_revB (a0 a1 b0 b1 : V3) : R3 (xOf a0 a1 b1 b0) (xOf a0 a1 b0 b1) := by
  apply toVector_R3
  rw [toIV3_cross, toIV3_cross, nrm_rev b0 b1, iv3_cross_neg_right]
theorem xOf_swap (a0 a1 b0 b1 : V3) : R3 (xOf b0 b1 a0 a1) (xOf a0 a1 b0 b1) := by
  apply toVector_R3
  rw [toIV3_cross, toIV3_cross]; exact iv3_cross_swap _ _

open S2Proofs.F64Round in
/-- IEEE `x == 0` -/
theorem feq_fz (a : F64) : F64.feq a fz = a.isZero := by
  have h0 : fz.isNaN = false ∧ ext fz = 0 := by decide +kernel
  by_cases hn : a.isNaN = true
  · rw [feq_nan_left _ _ hn, nan_not_zero hn]
  have hn' : a.isNaN = false := by simpa using hn
  cases hz : a.isZero
  · cases hf : F64.feq a fz
    · rfl
    · exfalso
      have he := (feq_iff_ext hn' h0.1).mp hf
      rw [h0.2] at he
      rcases notNaN_cases hn' with fa | rfl | rfl
      · rw [ext_finite fa] at he
        rw [S2Proofs.EdgeNumLemmas.isZero_of_toInt he] at hz; cases hz
      · revert he; decide +kernel
      · revert he; decide +kernel
  · have := S2Proofs.EdgeNumLemmas.isZero_fin hz
    exact (feq_iff_ext hn' h0.1).mpr (by rw [ext_finite this.1, this.2, h0.2])

theorem feq_zero3_R3 {u' u : V3} (h : R3 u' u) : V3.feq u' zero3 = V3.feq u zero3 := by
  unfold V3.feq
  show (F64.feq u'.x fz && F64.feq u'.y fz && F64.feq u'.z fz) = (F64.feq u.x fz && F64.feq u.y fz && F64.feq u.z fz)
  simp only [feq_fz]
  rw [h.1.isZero, h.2.1.isZero, h.2.2.isZero, isZero_neg, isZero_neg, isZero_neg]

/-- equal exact vectors of finite float vectors: the same float vector up to the sign of zeros -/
theorem Z3_of_ofV3 {u w : V3} (hu : Fin3 u) (hw : Fin3 w) (h : ofV3 u = ofV3 w) : Z3 u w := by
  unfold ofV3 at h
  simp only [IV3.mk.injEq] at h
  exact ⟨Z_of_feq ((feq_iff hu.1 hw.1).mpr h.1), Z_of_feq ((feq_iff hu.2.1 hw.2.1).mpr h.2.1),
    Z_of_feq ((feq_iff hu.2.2 hw.2.2).mpr h.2.2)⟩

theorem pickMin_fin (big : V3) (l : List (V3 × Bool)) (hb : Fin3 big) (hl : ∀ c ∈ l, Fin3 c.1) : Fin3 (pickMin big l) := by
  unfold pickMin
  induction l generalizing big with
  | nil => exact hb
  | cons c t ih =>
    rw [List.foldl_cons]
    exact ih _ (S2Proofs.C16.ofV3_pickStep hb (hl c (List.mem_cons_self ..))).2
      (fun d hd => hl d (List.mem_cons_of_mem _ hd))

theorem bigV_fin : Fin3 bigV := by decide +kernel

theorem cands_fin {a0 a1 b0 b1 : V3} (ha0 : Fin3 a0) (ha1 : Fin3 a1) (hb0 : Fin3 b0) (hb1 : Fin3 b1) :
    ∀ c ∈ cands a0 a1 b0 b1, Fin3 c.1 := by
  intro c hc
  unfold cands at hc
  simp only [List.mem_cons, List.mem_nil_iff, or_false] at hc
  rcases hc with rfl | rfl | rfl | rfl <;> assumption

/-- a permutation of the candidates gives the same point up to zero signs -/
theorem pickMin_perm_Z3 {l l' : List (V3 × Bool)} (hp : l.Perm l') (hl : ∀ c ∈ l, Fin3 c.1) :
    Z3 (pickMin bigV l') (pickMin bigV l) :=
  Z3_of_ofV3 (pickMin_fin _ _ bigV_fin (fun c hc => hl c (hp.mem_iff.mpr hc))) (pickMin_fin _ _ bigV_fin hl)
    (S2Proofs.C16.pickMin_perm bigV hp bigV_fin hl)

/-- "the same point or its negation, up to the sign of zeros" -/
def PM3 (p' p : V3) : Prop := Z3 p' p ∨ R3 p' p

/-- **(E, swap)** swapping the two edges: the negated point (transversal branch) or the same endpoint (collinear branch) -/
theorem exact_swap {a0 a1 b0 b1 : V3} (ha0 : Fin3 a0) (ha1 : Fin3 a1) (hb0 : Fin3 b0) (hb1 : Fin3 b1) :
    PM3 (intersectionExact b0 b1 a0 a1) (intersectionExact a0 a1 b0 b1) := by
  rw [exact_eq, exact_eq, feq_zero3_R3 (xOf_swap a0 a1 b0 b1)]
  split
  · left
    apply pickMin_perm_Z3 _ (cands_fin ha0 ha1 hb0 hb1)
    unfold cands
    exact List.perm_append_comm (l₁ := [_, _]) (l₂ := [_, _])
  · right; exact xOf_swap a0 a1 b0 b1

/-- the two `OrderedCCW` flags that test the endpoints of the other edge against edge `a` do not change when `a` is reversed
    (and its rounded normal negated) -/
def OccwSym (a0 a1 b0 b1 : V3) : Prop :=
  orderedCCW a1 b0 a0 (nrmV a1 a0) = orderedCCW a0 b0 a1 (nrmV a0 a1) ∧
  orderedCCW a1 b1 a0 (nrmV a1 a0) = orderedCCW a0 b1 a1 (nrmV a0 a1)

instance (a0 a1 b0 b1 : V3) : Decidable (OccwSym a0 a1 b0 b1) := by unfold OccwSym; infer_instance

/-- the edges are exactly collinear (the rounded exact direction is the zero vector) -/
def Collinear (a0 a1 b0 b1 : V3) : Prop := V3.feq (xOf a0 a1 b0 b1) zero3 = true

instance (a0 a1 b0 b1 : V3) : Decidable (Collinear a0 a1 b0 b1) := by unfold Collinear; infer_instance

/-- **(E, reverse a)** -/
theorem exact_revA {a0 a1 b0 b1 : V3} (ha0 : Fin3 a0) (ha1 : Fin3 a1) (hb0 : Fin3 b0) (hb1 : Fin3 b1)
    (hc : Collinear a0 a1 b0 b1 → OccwSym a0 a1 b0 b1) :
    PM3 (intersectionExact a1 a0 b0 b1) (intersectionExact a0 a1 b0 b1) := by
  rw [exact_eq, exact_eq, feq_zero3_R3 (xOf_revA a0 a1 b0 b1)]
  split
  · rename_i hcol
    obtain ⟨h1, h2⟩ := hc hcol
    left
    apply pickMin_perm_Z3 _ (cands_fin ha0 ha1 hb0 hb1)
    unfold cands
    rw [h1, h2]
    exact List.Perm.swap _ _ _
  · right; exact xOf_revA a0 a1 b0 b1

/-- **(E, reverse b)** -/
theorem exact_revB {a0 a1 b0 b1 : V3} (ha0 : Fin3 a0) (ha1 : Fin3 a1) (hb0 : Fin3 b0) (hb1 : Fin3 b1)
    (hc : Collinear a0 a1 b0 b1 → OccwSym b0 b1 a0 a1) :
    PM3 (intersectionExact a0 a1 b1 b0) (intersectionExact a0 a1 b0 b1) := by
  rw [exact_eq, exact_eq, feq_zero3_R3 (xOf_revB a0 a1 b0 b1)]
  split
  · rename_i hcol
    obtain ⟨h1, h2⟩ := hc hcol
    left
    apply pickMin_perm_Z3 _ (cands_fin ha0 ha1 hb0 hb1)
    unfold cands
    rw [h1, h2]
    exact (List.Perm.swap _ _ _).cons _ |>.cons _
  · right; exact xOf_revB a0 a1 b0 b1

/-! ## (G) in-contract inputs are good inputs: no overflow on (roughly) unit vectors, crossing edges share no vertex -/

section contract
open S2Proofs.F64Round

/-- finite and of magnitude at most `B` -/
def Bd (B : ℚ) (x : F64) : Prop := Fin x ∧ |val x| ≤ B

theorem thr_big : (2 : ℚ) ^ 20 < 2 ^ 1024 - 2 ^ 970 := by
  have e1 : (2 : ℚ) ^ 1024 = 2 ^ 54 * 2 ^ 970 := by rw [← pow_add]
  have hX : (2 : ℚ) ^ 20 ≤ 2 ^ 970 := pow_le_pow_right₀ (by norm_num) (by norm_num)
  rw [e1]
  generalize (2 : ℚ) ^ 970 = X at *
  have h54 : (2 : ℚ) ^ 54 = 18014398509481984 := by norm_num
  have h20 : (2 : ℚ) ^ 20 = 1048576 := by norm_num
  rw [h54]
  rw [h20] at hX ⊢
  clear e1 h54 h20
  linarith

/-- a correctly rounded result is finite and at most twice the exact result (0 is a float), below the overflow threshold -/
theorem round_bd {r : F64} {Q : ℚ} (h : IsRound r Q) (hlt : |Q| ≤ 2 ^ 20) : Bd (2 * |Q|) r := by
  have hf := h.fin_of_lt (lt_of_le_of_lt hlt thr_big)
  refine ⟨hf, ?_⟩
  have hn := h.nearest hf (F64.zero false)
  have hz : val (F64.zero false) = 0 := by unfold val; rw [toInt_zero]; simp
  rw [hz, zero_sub, _root_.abs_neg] at hn
  have : |val r| ≤ |val r - Q| + |Q| := by
    have := abs_add_le (val r - Q) Q
    simpa using this
  linarith

theorem bd_add {x y : F64} {Bx By : ℚ} (hx : Bd Bx x) (hy : Bd By y) (hB : Bx + By ≤ 2 ^ 20) :
    Bd (2 * (Bx + By)) (F64.add x y) := by
  have hq : |val x + val y| ≤ Bx + By := le_trans (abs_add_le _ _) (add_le_add hx.2 hy.2)
  obtain ⟨hf, hb⟩ := round_bd (isRound_add hx.1 hy.1) (le_trans hq hB)
  exact ⟨hf, by linarith⟩

theorem bd_sub {x y : F64} {Bx By : ℚ} (hx : Bd Bx x) (hy : Bd By y) (hB : Bx + By ≤ 2 ^ 20) :
    Bd (2 * (Bx + By)) (F64.sub x y) := by
  have hq : |val x - val y| ≤ Bx + By := le_trans (abs_sub _ _) (add_le_add hx.2 hy.2)
  obtain ⟨hf, hb⟩ := round_bd (isRound_sub hx.1 hy.1) (le_trans hq hB)
  exact ⟨hf, by linarith⟩

theorem bd_mul {x y : F64} {Bx By : ℚ} (hx : Bd Bx x) (hy : Bd By y) (hB : Bx * By ≤ 2 ^ 20) :
    Bd (2 * (Bx * By)) (F64.mul x y) := by
  have hq : |val x * val y| ≤ Bx * By := by
    rw [abs_mul]; exact mul_le_mul hx.2 hy.2 (abs_nonneg _) (le_trans (abs_nonneg _) hx.2)
  obtain ⟨hf, hb⟩ := round_bd (isRound_mul hx.1 hy.1) (le_trans hq hB)
  exact ⟨hf, by linarith⟩

/-- coordinates of magnitude at most 2 -/
def Bd3 (v : V3) : Prop := Bd 2 v.x ∧ Bd 2 v.y ∧ Bd 2 v.z

/-- the sum of two such vectors is finite -/
theorem add_fin3 {u v : V3} (hu : Bd3 u) (hv : Bd3 v) : Fin3 (u.add v) :=
  ⟨(bd_add hu.1 hv.1 (by norm_num)).1, (bd_add hu.2.1 hv.2.1 (by norm_num)).1, (bd_add hu.2.2 hv.2.2 (by norm_num)).1⟩

/-- the squared length of their difference is finite -/
theorem sub_norm2_fin {u v : V3} (hu : Bd3 u) (hv : Bd3 v) : Fin (u.sub v).norm2 := by
  have dx := bd_sub hu.1 hv.1 (by norm_num)
  have dy := bd_sub hu.2.1 hv.2.1 (by norm_num)
  have dz := bd_sub hu.2.2 hv.2.2 (by norm_num)
  have sx := bd_mul dx dx (by norm_num)
  have sy := bd_mul dy dy (by norm_num)
  have sz := bd_mul dz dz (by norm_num)
  have s1 := bd_add sx sy (by norm_num)
  exact (bd_add s1 sz (by norm_num)).1

theorem scale_pos_int : (0 : Int) < ((scale : Nat) : Int) := Int.natCast_pos.mpr (Nat.two_pow_pos 1074)

theorem scale_cast_q : (((scale : Nat) : Int) : ℚ) = U := by
  show (((2 ^ 1074 : Nat) : Int) : ℚ) = (2 : ℚ) ^ 1074
  rw [Int.cast_natCast, Nat.cast_pow, Nat.cast_ofNat]

/-- a coordinate of a vector whose exact squared norm is at most `4` (scaled) has magnitude at most 2 -/
theorem bd_of_sq {x : F64} (hf : Fin x) (h : toInt x * toInt x ≤ 4 * ((scale : Int) * (scale : Int))) : Bd 2 x := by
  refine ⟨hf, ?_⟩
  have hs : (0 : Int) < (scale : Int) := scale_pos_int
  have habs : |toInt x| ≤ 2 * (scale : Int) := by
    by_contra hc
    have hc' : 2 * (scale : Int) < |toInt x| := not_le.mp hc
    have : (2 * (scale : Int)) * (2 * (scale : Int)) < |toInt x| * |toInt x| :=
      mul_lt_mul'' hc' hc' (by omega) (by omega)
    rw [abs_mul_abs_self] at this
    nlinarith
  have hU := U_pos
  unfold val
  rw [abs_div, abs_of_pos hU, div_le_iff₀ hU]
  have : ((|toInt x| : Int) : ℚ) ≤ ((2 * (scale : Int) : Int) : ℚ) := Int.cast_le.mpr habs
  rw [Int.cast_abs] at this
  rw [Int.cast_mul, scale_cast_q] at this
  exact_mod_cast this

end contract

/-- a `UnitPt` (exact norm in `1 ± 2·dblEpsilon`) has coordinates of magnitude at most 2 -/
theorem bd3_of_unit {p : V3} (h : S2Proofs.C16.UnitPt p) : Bd3 p := by
  obtain ⟨hf, _, hhi⟩ := h
  have hs0 := scale_pos_int
  have hs : (0 : Int) ≤ (scale : Int) * (scale : Int) := le_of_lt (Int.mul_pos hs0 hs0)
  have key : (ofV3 p).norm2 ≤ 4 * ((scale : Int) * (scale : Int)) := by
    have h1 : ((10 : Int) ^ 31 + 4440892098500626) ^ 2 ≤ 4 * 10 ^ 62 := by norm_num
    have h2 : (ofV3 p).norm2 * 10 ^ 62 ≤ 4 * ((scale : Int) * (scale : Int)) * 10 ^ 62 := by
      calc (ofV3 p).norm2 * 10 ^ 62 ≤ (10 ^ 31 + 4440892098500626 : Int) ^ 2 * (scale : Int) ^ 2 := hhi
        _ ≤ (4 * 10 ^ 62) * (scale : Int) ^ 2 := Int.mul_le_mul_of_nonneg_right h1 (sq_nonneg _)
        _ = 4 * ((scale : Int) * (scale : Int)) * 10 ^ 62 := by ring
    exact Int.le_of_mul_le_mul_right h2 (by norm_num)
  have hn : (ofV3 p).norm2 = toInt p.x * toInt p.x + (toInt p.y * toInt p.y + toInt p.z * toInt p.z) := rfl
  have qx := mul_self_nonneg (toInt p.x)
  have qy := mul_self_nonneg (toInt p.y)
  have qz := mul_self_nonneg (toInt p.z)
  exact ⟨bd_of_sq hf.1 (by linarith), bd_of_sq hf.2.1 (by linarith), bd_of_sq hf.2.2 (by linarith)⟩

/-- crossing edges (the model's `CrossingSign == Cross`) share no vertex, as floats under `==` -/
theorem no_shared_of_crosses {a0 a1 b0 b1 : V3} (h : crosses a0 a1 b0 b1 = true) :
    V3.feq a0 b0 = false ∧ V3.feq a0 b1 = false ∧ V3.feq a1 b0 = false ∧ V3.feq a1 b1 = false := by
  unfold crosses Contain.crossingSign at h
  simp only [Contain.floatGeo] at h
  cases h1 : V3.feq a0 b0 <;> cases h2 : V3.feq a0 b1 <;> cases h3 : V3.feq a1 b0 <;> cases h4 : V3.feq a1 b1 <;>
    simp_all

/-- **in-contract inputs are good inputs** -/
theorem goodInput_of_inContract {a0 a1 b0 b1 : V3} (h : S2Proofs.C16.InContract a0 a1 b0 b1) :
    S2Proofs.C16.GoodInput a0 a1 b0 b1 := by
  obtain ⟨ua0, ua1, ub0, ub1, hc⟩ := h
  have ba0 := bd3_of_unit ua0
  have ba1 := bd3_of_unit ua1
  have bb0 := bd3_of_unit ub0
  have bb1 := bd3_of_unit ub1
  obtain ⟨n1, n2, n3, n4⟩ := no_shared_of_crosses hc
  refine ⟨ua0.1, ua1.1, ub0.1, ub1.1, sub_norm2_fin ba1 ba0, sub_norm2_fin bb1 bb0, add_fin3 ba0 ba1, add_fin3 bb0 bb1, ?_⟩
  intro he
  have ne : ∀ {u w : V3}, Fin3 u → Fin3 w → V3.feq u w = false → ofV3 u ≠ ofV3 w := by
    intro u w hu hw hfe heq
    rw [(v3feq_iff hu hw).mpr heq] at hfe; cases hfe
  rcases min_choice (ofV3 a0) (ofV3 a1) with ha | ha <;> rcases min_choice (ofV3 b0) (ofV3 b1) with hb | hb <;>
    rw [ha, hb] at he
  · exact ne ua0.1 ub0.1 n1 he
  · exact ne ua0.1 ub1.1 n2 he
  · exact ne ua1.1 ub0.1 n3 he
  · exact ne ua1.1 ub1.1 n4 he

end S2Proofs.C16K
