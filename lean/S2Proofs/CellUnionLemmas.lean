/-
  S2Proofs.CellUnionLemmas — helper lemmas for property C11 (collected from `S2Proofs/CU/*`).
-/
import S2Proofs.SiblingLemmas
import S2Proofs.CU.Basic
import S2Proofs.CU.Children
import S2Proofs.CU.Normal
import S2Proofs.CU.Unique
import S2Proofs.CU.Normalize
import S2Proofs.CU.Search
import S2Proofs.CU.Minimal
import S2Proofs.CU.InterCell
import S2Proofs.CU.Difference
import S2Proofs.CU.Denormalize
import S2Proofs.CU.CellIndex
import S2Proofs.CU.Intersection
import S2Proofs.CU.Range
import S2Proofs.CU.RangeFuel
import S2Proofs.CU.Extra
