/-
  S2Proofs.VertexNbr — `vertexNeighbors id lvl` (lvl < level id), ALL valid cells: the reported cells (the ancestor P
  of `id` at level lvl, its two edge neighbours towards the half of P in which `id` lies, and — unless both leave the
  face — the diagonal cell) all contain one common cube point: the vertex of P in the quadrant of `id`
  ("closest vertex").  Exact integer cube boxes; cross-face cells through `FoldTouch`.
-/
import S2Proofs.NbrTouch
open S2 S2.CellID S2.Hilbert S2.STUV
set_option linter.unusedVariables false
set_option linter.unusedSimpArgs false
namespace S2Proofs.C01W

/-- cube coordinate of the grid line number c at unit N -/
def gridPt (c N : Nat) : Int := 2 * ((c * N : Nat) : Int) - 1073741824

section
variable {L : Nat} (hL : L = 30)
include hL

theorem same_eq_wrap (f : Nat) (hf : f < 6) (a b : Int) (flag : Bool) (hflag : flag = true ↔ (InR a ∧ InR b)) :
    cellIDFromFaceIJSame f a b flag = cellIDFromFaceIJWrap f a b := by
  unfold cellIDFromFaceIJSame
  cases hfl : flag
  · simp
  · simp only [if_true]
    exact ((wrap_leaf hL f hf a b).2.1 (hflag.1 hfl)).symm

end

set_option maxHeartbeats 800000 in
/-- the cell across side d of the square (X,Y) contains both end points of that side -/
theorem nbr_vertex (f X Y K N d cx cy : Nat) (hf : f < 6) (hd : d < 4) (hKN : K * N = 1073741824) (hN0 : 0 < N)
    (hX : X ≤ K - 1) (hY : Y ≤ K - 1)
    (hv : (d = 0 ∧ cy = Y ∧ (cx = X ∨ cx = X + 1)) ∨ (d = 1 ∧ cx = X + 1 ∧ (cy = Y ∨ cy = Y + 1)) ∨
          (d = 2 ∧ cy = Y + 1 ∧ (cx = X ∨ cx = X + 1)) ∨ (d = 3 ∧ cx = X ∧ (cy = Y ∨ cy = Y + 1))) :
    boxMeet (faceBox f (gridPt cx N, gridPt cx N) (gridPt cy N, gridPt cy N))
      (sqBox (nbrSq f X Y (K - 1) d).1 (nbrSq f X Y (K - 1) d).2.1 (nbrSq f X Y (K - 1) d).2.2 N) ≠ none := by
  have hK : 0 < K := by
    rcases Nat.eq_zero_or_pos K with h | h
    · subst h; omega
    · exact h
  obtain ⟨hN, hSle, hXN, hYN, _, _, hX2, hY2, _, _, hI1, hJ1, hI0, hJ0⟩ := sq_prod_facts X Y K N hKN hN0 hX hY
  have hXN1 : 1 ≤ X → N ≤ X * N := fun h => Nat.le_mul_of_pos_left N h
  have hYN1 : 1 ≤ Y → N ≤ Y * N := fun h => Nat.le_mul_of_pos_left N h
  have hKm : (K - 1) * N + N = 1073741824 := by omega
  have mulc : ∀ c Z : Nat, (c = Z ∨ c = Z + 1) → (c * N = Z * N ∨ c * N = Z * N + N) := by
    intro c Z h
    rcases h with e | e <;> rw [e]
    · left; rfl
    · right; rw [Nat.add_mul, Nat.one_mul]
  rcases hv with ⟨rfl, e1, e2⟩ | ⟨rfl, e1, e2⟩ | ⟨rfl, e1, e2⟩ | ⟨rfl, e1, e2⟩
  · -- side 0
    have ecx := mulc cx X e2
    by_cases hc : 1 ≤ Y
    · unfold nbrSq; simp only; rw [if_pos hc]
      unfold sqBox cubeLo gridPt
      simp only
      apply faceBox_meet_same f hf
      · omega
      · rw [hJ0, e1]; have := hYN1 hc; omega
    · have hY0 : Y = 0 := by omega
      have hm : max (gridPt cx N) (cubeLo X N) ≤ min (gridPt cx N) (cubeLo X N + 2 * (N:Int)) := by
        unfold gridPt cubeLo; omega
      have hv1 : gridPt cy N = -1073741824 := by
        unfold gridPt; rw [e1, hY0, Nat.zero_mul]; simp
      rw [hv1]
      exact fold_touch0 f X Y K N hf hKN hN0 hX hY hY0 _ _ _ _ (by unfold gridPt; omega) ⟨rfl, by omega, by omega⟩ hm
  · -- side 1
    have ecy := mulc cy Y e2
    by_cases hc : X + 1 ≤ K - 1
    · unfold nbrSq; simp only; rw [if_pos hc]
      unfold sqBox cubeLo gridPt
      simp only
      apply faceBox_meet_same f hf
      · rw [e1]; omega
      · omega
    · have hX1 : X = K - 1 := by omega
      have hm : max (gridPt cy N) (cubeLo Y N) ≤ min (gridPt cy N) (cubeLo Y N + 2 * (N:Int)) := by
        unfold gridPt cubeLo; omega
      have hu2 : gridPt cx N = 1073741824 := by
        unfold gridPt; rw [e1, hI1, hX1]; omega
      rw [hu2]
      exact fold_touch1 f X Y K N hf hKN hN0 hX hY hX1 _ _ _ _ ⟨by omega, by omega, rfl⟩ (by unfold gridPt; omega) hm
  · -- side 2
    have ecx := mulc cx X e2
    by_cases hc : Y + 1 ≤ K - 1
    · unfold nbrSq; simp only; rw [if_pos hc]
      unfold sqBox cubeLo gridPt
      simp only
      apply faceBox_meet_same f hf
      · omega
      · rw [e1]; omega
    · have hY1 : Y = K - 1 := by omega
      have hm : max (gridPt cx N) (cubeLo X N) ≤ min (gridPt cx N) (cubeLo X N + 2 * (N:Int)) := by
        unfold gridPt cubeLo; omega
      have hv2 : gridPt cy N = 1073741824 := by
        unfold gridPt; rw [e1, hJ1, hY1]; omega
      rw [hv2]
      exact fold_touch2 f X Y K N hf hKN hN0 hX hY hY1 _ _ _ _ (by unfold gridPt; omega) ⟨by omega, by omega, rfl⟩ hm
  · -- side 3
    have ecy := mulc cy Y e2
    by_cases hc : 1 ≤ X
    · unfold nbrSq; simp only; rw [if_pos hc]
      unfold sqBox cubeLo gridPt
      simp only
      apply faceBox_meet_same f hf
      · rw [hI0, e1]; have := hXN1 hc; omega
      · omega
    · have hX0 : X = 0 := by omega
      have hm : max (gridPt cy N) (cubeLo Y N) ≤ min (gridPt cy N) (cubeLo Y N + 2 * (N:Int)) := by
        unfold gridPt cubeLo; omega
      have hu1 : gridPt cx N = -1073741824 := by
        unfold gridPt; rw [e1, hX0, Nat.zero_mul]; simp
      rw [hu1]
      exact fold_touch3 f X Y K N hf hKN hN0 hX hY hX0 _ _ _ _ ⟨rfl, by omega, by omega⟩ (by unfold gridPt; omega) hm

/-- grid coordinate of the vertex of the level-`lvl` square of x that lies in the half of x -/
def vtx (x lvl : Nat) : Nat := x / 2^(30-lvl) + (if x &&& sizeIJ (lvl + 1) != 0 then 1 else 0)

section
variable {L : Nat} (hL : L = 30)
include hL

/-- signed step of one level-`lvl` cell width -/
def sgn (lvl : Nat) (s : Bool) : Int := if s then ((2^(30-lvl) : Nat) : Int) else -((2^(30-lvl) : Nat) : Int)
def b2n (s : Bool) : Nat := if s then 1 else 0

/-- the cell reached by one step in i contains the vertices (i/N + [s], cy), cy ∈ {j/N, j/N+1} -/
theorem elemI (f i j lvl : Nat) (hf : f < 6) (hi : i < 2^30) (hj : j < 2^30) (hl : lvl ≤ 30) (s : Bool) (cy : Nat)
    (hcy : cy = j / 2^(30-lvl) ∨ cy = j / 2^(30-lvl) + 1) :
    boxMeet (faceBox f (gridPt (i / 2^(30-lvl) + b2n s) (2^(30-lvl)), gridPt (i / 2^(30-lvl) + b2n s) (2^(30-lvl)))
        (gridPt cy (2^(30-lvl)), gridPt cy (2^(30-lvl))))
      (cubeBox (parent (cellIDFromFaceIJWrap f ((i:Int) + sgn lvl s) (j:Int)) lvl)) ≠ none := by
  have hN0 := Nat.two_pow_pos (30 - lvl)
  have hKN := pow_split lvl hl
  obtain ⟨i1, _⟩ := sq_arith lvl i hl hi
  obtain ⟨j1, _⟩ := sq_arith lvl j hl hj
  cases s
  · have e : (i:Int) + sgn lvl false = (i:Int) - ((2^(30-lvl) : Nat) : Int) := by unfold sgn; simp; ring
    rw [e, cubeBox_isSq hL _ _ _ _ _ (nbr_dir3 hL f i j lvl hf hi hj hl)]
    exact nbr_vertex f _ _ (2^lvl) _ 3 _ _ hf (by decide) hKN hN0 i1 j1
      (Or.inr (Or.inr (Or.inr ⟨rfl, by unfold b2n; simp, hcy⟩)))
  · have e : (i:Int) + sgn lvl true = (i:Int) + ((2^(30-lvl) : Nat) : Int) := by unfold sgn; simp
    rw [e, cubeBox_isSq hL _ _ _ _ _ (nbr_dir1 hL f i j lvl hf hi hj hl)]
    exact nbr_vertex f _ _ (2^lvl) _ 1 _ _ hf (by decide) hKN hN0 i1 j1
      (Or.inr (Or.inl ⟨rfl, by unfold b2n; simp, hcy⟩))

/-- the cell reached by one step in j contains the vertices (cx, j/N + [s]), cx ∈ {i/N, i/N+1} -/
theorem elemJ (f i j lvl : Nat) (hf : f < 6) (hi : i < 2^30) (hj : j < 2^30) (hl : lvl ≤ 30) (s : Bool) (cx : Nat)
    (hcx : cx = i / 2^(30-lvl) ∨ cx = i / 2^(30-lvl) + 1) :
    boxMeet (faceBox f (gridPt cx (2^(30-lvl)), gridPt cx (2^(30-lvl)))
        (gridPt (j / 2^(30-lvl) + b2n s) (2^(30-lvl)), gridPt (j / 2^(30-lvl) + b2n s) (2^(30-lvl))))
      (cubeBox (parent (cellIDFromFaceIJWrap f (i:Int) ((j:Int) + sgn lvl s)) lvl)) ≠ none := by
  have hN0 := Nat.two_pow_pos (30 - lvl)
  have hKN := pow_split lvl hl
  obtain ⟨i1, _⟩ := sq_arith lvl i hl hi
  obtain ⟨j1, _⟩ := sq_arith lvl j hl hj
  cases s
  · have e : (j:Int) + sgn lvl false = (j:Int) - ((2^(30-lvl) : Nat) : Int) := by unfold sgn; simp; ring
    rw [e, cubeBox_isSq hL _ _ _ _ _ (nbr_dir0 hL f i j lvl hf hi hj hl)]
    exact nbr_vertex f _ _ (2^lvl) _ 0 _ _ hf (by decide) hKN hN0 i1 j1
      (Or.inl ⟨rfl, by unfold b2n; simp, hcx⟩)
  · have e : (j:Int) + sgn lvl true = (j:Int) + ((2^(30-lvl) : Nat) : Int) := by unfold sgn; simp
    rw [e, cubeBox_isSq hL _ _ _ _ _ (nbr_dir2 hL f i j lvl hf hi hj hl)]
    exact nbr_vertex f _ _ (2^lvl) _ 2 _ _ hf (by decide) hKN hN0 i1 j1
      (Or.inr (Or.inr (Or.inl ⟨rfl, by unfold b2n; simp, hcx⟩)))

/-- an in-range stepped coordinate as a natural number, and its square -/
theorem step_nat (x lvl : Nat) (hx : x < 2^30) (hl : lvl ≤ 30) (s : Bool) (h : InR ((x:Int) + sgn lvl s)) :
    ∃ x' : Nat, ((x':Nat):Int) = (x:Int) + sgn lvl s ∧ x' < 2^30 ∧
      (x / 2^(30-lvl) + b2n s = x' / 2^(30-lvl) ∨ x / 2^(30-lvl) + b2n s = x' / 2^(30-lvl) + 1) := by
  have hN0 := Nat.two_pow_pos (30 - lvl)
  unfold InR at h
  cases s
  · have e : sgn lvl false = -((2^(30-lvl) : Nat) : Int) := by unfold sgn; simp
    rw [e] at h ⊢
    refine ⟨x - 2^(30-lvl), by omega, by omega, Or.inr ?_⟩
    have := sub_div_self x _ hN0 (by omega)
    unfold b2n; simp; omega
  · have e : sgn lvl true = ((2^(30-lvl) : Nat) : Int) := by unfold sgn; simp
    rw [e] at h ⊢
    refine ⟨x + 2^(30-lvl), by omega, by omega, Or.inl ?_⟩
    rw [Nat.add_div_right _ hN0]; unfold b2n; simp

set_option maxHeartbeats 800000 in
/-- all cells reported by `vertexNeighbors id lvl` contain the vertex (vtx i lvl, vtx j lvl) of the ancestor's square -/
theorem vertexNeighbors_vertex (id : CellID) (K : Nat) (h : IsCell id K) (lvl : Nat) (hl : lvl < K)
    (n : CellID) (hn : n ∈ vertexNeighbors id lvl) :
    boxMeet (faceBox (face id)
        (gridPt (vtx (faceIJOrientation id).2.1 lvl) (2^(30-lvl)), gridPt (vtx (faceIJOrientation id).2.1 lvl) (2^(30-lvl)))
        (gridPt (vtx (faceIJOrientation id).2.2.1 lvl) (2^(30-lvl)), gridPt (vtx (faceIJOrientation id).2.2.1 lvl) (2^(30-lvl))))
      (cubeBox n) ≠ none := by
  have hK := h.k_le
  have hl30 : lvl ≤ 30 := by omega
  obtain ⟨g1, g2, g3, _, g5⟩ := faceIJOrientation_leaf_in_cell hL id K h
  rw [vertexNeighbors_eq] at hn
  generalize faceIJOrientation id = r at *
  obtain ⟨f, i, j, o⟩ := r
  simp only at g1 g2 g3 g5 ⊢
  subst g1
  rw [vnAux_eq] at hn
  have hf := h.face_lt6
  have hN0 := Nat.two_pow_pos (30 - lvl)
  have hKN := pow_split lvl hl30
  have hs : (sizeIJ (lvl + 1) <<< 1 : Nat) = 2^(30 - lvl) := by
    rw [sizeIJ_eq, Nat.shiftLeft_eq, ← Nat.pow_succ]; congr 1; omega
  obtain ⟨i1, _, _, i4, i5⟩ := sq_arith lvl i hl30 g2
  obtain ⟨j1, _, _, j4, j5⟩ := sq_arith lvl j hl30 g3
  -- offsets as ±N
  have offI : vnOff i lvl = if (i &&& sizeIJ (lvl + 1) != 0) = true then ((2^(30-lvl) : Nat) : Int) else -((2^(30-lvl) : Nat) : Int) := by
    unfold vnOff; rw [hs]
  have offJ : vnOff j lvl = if (j &&& sizeIJ (lvl + 1) != 0) = true then ((2^(30-lvl) : Nat) : Int) else -((2^(30-lvl) : Nat) : Int) := by
    unfold vnOff; rw [hs]
  -- the ancestor
  have hanc : parent id lvl = parent (cellIDFromFaceIJ (face id) i j) lvl := by
    conv => lhs; rw [← g5]
    exact parent_parent _ lvl K (by omega) hK
  have sP := isSq_leaf_parent hL (face id) i j lvl hf g2 g3 hl30
  -- the three other cells, as wraps
  have w1 := same_eq_wrap hL (face id) hf ((i:Int) + vnOff i lvl) (j:Int) (vnSame i lvl)
    (by rw [vnSame_iff i lvl g2]; exact ⟨fun h => ⟨h, inR_nat j g3⟩, fun h => h.1⟩)
  have w2 := same_eq_wrap hL (face id) hf (i:Int) ((j:Int) + vnOff j lvl) (vnSame j lvl)
    (by rw [vnSame_iff j lvl g3]; exact ⟨fun h => ⟨inR_nat i g2, h⟩, fun h => h.2⟩)
  have w3 := same_eq_wrap hL (face id) hf ((i:Int) + vnOff i lvl) ((j:Int) + vnOff j lvl) (vnSame i lvl && vnSame j lvl)
    (by rw [Bool.and_eq_true, vnSame_iff i lvl g2, vnSame_iff j lvl g3])
  have vsI := vnSame_iff i lvl g2
  have vsJ := vnSame_iff j lvl g3
  -- the sign bits
  have offI' : vnOff i lvl = sgn lvl (i &&& sizeIJ (lvl + 1) != 0) := by rw [offI]; unfold sgn; rfl
  have offJ' : vnOff j lvl = sgn lvl (j &&& sizeIJ (lvl + 1) != 0) := by rw [offJ]; unfold sgn; rfl
  have vI : vtx i lvl = i / 2^(30-lvl) + b2n (i &&& sizeIJ (lvl + 1) != 0) := by unfold vtx b2n; rfl
  have vJ : vtx j lvl = j / 2^(30-lvl) + b2n (j &&& sizeIJ (lvl + 1) != 0) := by unfold vtx b2n; rfl
  rw [vI, vJ]
  rw [offI'] at w1 w3 vsI hn
  rw [offJ'] at w2 w3 vsJ hn
  rw [w1, w2, w3] at hn
  generalize (i &&& sizeIJ (lvl + 1) != 0) = si at *
  generalize (j &&& sizeIJ (lvl + 1) != 0) = sj at *
  have hbi : b2n si ≤ 1 := by unfold b2n; split <;> omega
  have hbj : b2n sj ≤ 1 := by unfold b2n; split <;> omega
  have c0 : boxMeet (faceBox (face id)
        (gridPt (i / 2^(30-lvl) + b2n si) (2^(30-lvl)), gridPt (i / 2^(30-lvl) + b2n si) (2^(30-lvl)))
        (gridPt (j / 2^(30-lvl) + b2n sj) (2^(30-lvl)), gridPt (j / 2^(30-lvl) + b2n sj) (2^(30-lvl))))
      (cubeBox (parent id lvl)) ≠ none := by
    rw [hanc, cubeBox_isSq hL _ _ _ _ _ sP]
    unfold sqBox cubeLo gridPt
    have ei : b2n si * 2^(30-lvl) ≤ 2^(30-lvl) := by
      have := Nat.mul_le_mul_right (2^(30-lvl)) hbi; rwa [Nat.one_mul] at this
    have ej : b2n sj * 2^(30-lvl) ≤ 2^(30-lvl) := by
      have := Nat.mul_le_mul_right (2^(30-lvl)) hbj; rwa [Nat.one_mul] at this
    apply faceBox_meet_same _ hf
    · rw [Nat.add_mul]; omega
    · rw [Nat.add_mul]; omega
  have hcyJ : j / 2^(30-lvl) + b2n sj = j / 2^(30-lvl) ∨ j / 2^(30-lvl) + b2n sj = j / 2^(30-lvl) + 1 := by omega
  have hcxI : i / 2^(30-lvl) + b2n si = i / 2^(30-lvl) ∨ i / 2^(30-lvl) + b2n si = i / 2^(30-lvl) + 1 := by omega
  have c1 := elemI hL (face id) i j lvl hf g2 g3 hl30 si _ hcyJ
  have c2 := elemJ hL (face id) i j lvl hf g2 g3 hl30 sj _ hcxI
  simp only at hn
  split at hn
  · rename_i hor
    simp only [List.cons_append, List.nil_append, List.mem_cons, List.mem_nil_iff, or_false] at hn
    rcases hn with rfl | rfl | rfl | rfl
    · exact c0
    · exact c1
    · exact c2
    · -- the diagonal cell
      rw [Bool.or_eq_true] at hor
      by_cases hvj : vnSame j lvl = true
      · obtain ⟨j', ej, lj, sqj⟩ := step_nat hL j lvl g3 hl30 sj (vsJ.1 hvj)
        rw [← ej]
        exact elemI hL (face id) i j' lvl hf g2 lj hl30 si _ sqj
      · have hvi : vnSame i lvl = true := by rcases hor with h | h; exact h; exact absurd h hvj
        obtain ⟨i', ei, li, sqi⟩ := step_nat hL i lvl g2 hl30 si (vsI.1 hvi)
        rw [← ei]
        exact elemJ hL (face id) i' j lvl hf li g3 hl30 sj _ sqi
  · simp only [List.mem_cons, List.mem_nil_iff, or_false] at hn
    rcases hn with rfl | rfl | rfl
    · exact c0
    · exact c1
    · exact c2

end
end S2Proofs.C01W
